(* C01 — the red-black tree model refines the abstract sorted map: list-level facts.
   Part 1 (this file): (a) every rotation / recolouring / fix-up helper of RBModel preserves
   [inorder]; (b) how the abstract-map operations of AbsMapModel distribute over
   [l ++ x :: r] when that list is strictly ascending.  No colour reasoning anywhere.
   Part 2 (RBRefineSim.v): add/delete/find/set against the abstract operations, the
   simulation, the theorems of props/C01.v. *)
From Ekit Require Import Common RBModel TreeMapModel AbsMapModel.
From Coq Require Import Sorted.

(* ------------------------------------------------------------------ *)
(* (a) inorder is invariant under the structural helpers              *)
(* ------------------------------------------------------------------ *)
Lemma inorder_setcol : forall c t, inorder (setcol c t) = inorder t.
Proof. intros c t. destruct t; reflexivity. Qed.

Lemma inorder_rotL : forall t, inorder (rotL t) = inorder t.
Proof.
  intros t. destruct t as [|c a k v [|c' b k' v' d]]; cbn [rotL inorder]; try reflexivity.
  rewrite <- app_assoc. reflexivity.
Qed.

Lemma inorder_rotR : forall t, inorder (rotR t) = inorder t.
Proof.
  intros t. destruct t as [|c [|c' a k' v' b] k v d]; cbn [rotR inorder]; try reflexivity.
  rewrite <- app_assoc. reflexivity.
Qed.

Lemma inorder_fix_add_left : forall gc p gk gv u d,
  inorder (fst (fix_add_left gc p gk gv u d)) = inorder p ++ (gk, gv) :: inorder u.
Proof.
  intros gc p gk gv u d. unfold fix_add_left. destruct (isred u); cbn [fst].
  - cbn [inorder]. rewrite !inorder_setcol. reflexivity.
  - rewrite inorder_rotR. cbn [inorder]. rewrite inorder_setcol.
    destruct d; rewrite ?inorder_rotL; reflexivity.
Qed.

Lemma inorder_fix_add_right : forall gc u gk gv p d,
  inorder (fst (fix_add_right gc u gk gv p d)) = inorder u ++ (gk, gv) :: inorder p.
Proof.
  intros gc u gk gv p d. unfold fix_add_right. destruct (isred u); cbn [fst].
  - cbn [inorder]. rewrite !inorder_setcol. reflexivity.
  - rewrite inorder_rotL. cbn [inorder]. rewrite inorder_setcol.
    destruct d; rewrite ?inorder_rotR; reflexivity.
Qed.

Lemma fix_add_left_not_dup : forall gc p gk gv u d, snd (fix_add_left gc p gk gv u d) <> Dup.
Proof. intros gc p gk gv u d. unfold fix_add_left. destruct (isred u); cbn [snd]; discriminate. Qed.

Lemma fix_add_right_not_dup : forall gc u gk gv p d, snd (fix_add_right gc u gk gv p d) <> Dup.
Proof. intros gc u gk gv p d. unfold fix_add_right. destruct (isred u); cbn [snd]; discriminate. Qed.

Lemma inorder_resolve : forall p, inorder (fst (resolve p)) = inorder (fst p).
Proof.
  intros [t nf]. unfold resolve. destruct (nf && isred t); cbn [fst]; rewrite ?inorder_setcol; reflexivity.
Qed.

(* the recolourings applied to the sibling before the rotations *)
Lemma inorder_recolour_L : forall sib,
  inorder (match sib with E => E | T _ sl sk sv sr => T Red (setcol Black sl) sk sv sr end) = inorder sib.
Proof. intros sib. destruct sib as [|c sl sk sv sr]; cbn [inorder]; rewrite ?inorder_setcol; reflexivity. Qed.

Lemma inorder_recolour_R : forall sib,
  inorder (match sib with E => E | T _ sl sk sv sr => T Red sl sk sv (setcol Black sr) end) = inorder sib.
Proof. intros sib. destruct sib as [|c sl sk sv sr]; cbn [inorder]; rewrite ?inorder_setcol; reflexivity. Qed.

Lemma inorder_recolour_L2 : forall pc sib,
  inorder (match sib with E => E | T _ sl sk sv sr => T pc sl sk sv (setcol Black sr) end) = inorder sib.
Proof. intros pc sib. destruct sib as [|c sl sk sv sr]; cbn [inorder]; rewrite ?inorder_setcol; reflexivity. Qed.

Lemma inorder_recolour_R2 : forall pc sib,
  inorder (match sib with E => E | T _ sl sk sv sr => T pc (setcol Black sl) sk sv sr end) = inorder sib.
Proof. intros pc sib. destruct sib as [|c sl sk sv sr]; cbn [inorder]; rewrite ?inorder_setcol; reflexivity. Qed.

Lemma inorder_fixL_black : forall pc x pk pv sib,
  inorder (fst (fixL_black pc x pk pv sib)) = inorder x ++ (pk, pv) :: inorder sib.
Proof.
  intros pc x pk pv sib. unfold fixL_black.
  destruct (negb (isred (left sib)) && negb (isred (right sib))); cbn [fst].
  - cbn [inorder]. rewrite inorder_setcol. reflexivity.
  - rewrite inorder_rotL. cbn [inorder]. rewrite inorder_recolour_L2.
    destruct (negb (isred (right sib))).
    + rewrite inorder_rotR, inorder_recolour_L. reflexivity.
    + reflexivity.
Qed.

Lemma inorder_fixR_black : forall pc sib pk pv x,
  inorder (fst (fixR_black pc sib pk pv x)) = inorder sib ++ (pk, pv) :: inorder x.
Proof.
  intros pc sib pk pv x. unfold fixR_black.
  destruct (negb (isred (right sib)) && negb (isred (left sib))); cbn [fst].
  - cbn [inorder]. rewrite inorder_setcol. reflexivity.
  - rewrite inorder_rotR. cbn [inorder]. rewrite inorder_recolour_R2.
    destruct (negb (isred (left sib))).
    + rewrite inorder_rotL, inorder_recolour_R. reflexivity.
    + reflexivity.
Qed.

Lemma inorder_fixL : forall pc x pk pv sib,
  inorder (fst (fixL pc x pk pv sib)) = inorder x ++ (pk, pv) :: inorder sib.
Proof.
  intros pc x pk pv sib. unfold fixL.
  destruct sib as [|[|] sl sk sv sr]; try apply inorder_fixL_black.
  destruct (resolve (fixL_black Red x pk pv sl)) as [p3 nf] eqn:Hres.
  cbn [fst inorder].
  assert (Hp3 : inorder p3 = inorder x ++ (pk, pv) :: inorder sl).
  { change p3 with (fst (p3, nf)). rewrite <- Hres, inorder_resolve. apply inorder_fixL_black. }
  rewrite Hp3, <- app_assoc. reflexivity.
Qed.

Lemma inorder_fixR : forall pc sib pk pv x,
  inorder (fst (fixR pc sib pk pv x)) = inorder sib ++ (pk, pv) :: inorder x.
Proof.
  intros pc sib pk pv x. unfold fixR.
  destruct sib as [|[|] sl sk sv sr]; try apply inorder_fixR_black.
  destruct (resolve (fixR_black Red sr pk pv x)) as [p3 nf] eqn:Hres.
  cbn [fst inorder].
  assert (Hp3 : inorder p3 = inorder sr ++ (pk, pv) :: inorder x).
  { change p3 with (fst (p3, nf)). rewrite <- Hres, inorder_resolve. apply inorder_fixR_black. }
  rewrite Hp3, <- app_assoc. reflexivity.
Qed.

Lemma inorder_upL : forall c res k v r,
  inorder (fst (upL c res k v r)) = inorder (fst res) ++ (k, v) :: inorder r.
Proof.
  intros c res k v r. unfold upL.
  destruct (resolve res) as [l' nf] eqn:Hres.
  assert (Hl' : inorder l' = inorder (fst res)).
  { change l' with (fst (l', nf)). rewrite <- Hres. apply inorder_resolve. }
  destruct nf.
  - rewrite inorder_fixL, Hl'. reflexivity.
  - cbn [fst inorder]. rewrite Hl'. reflexivity.
Qed.

Lemma inorder_upR : forall c l k v res,
  inorder (fst (upR c l k v res)) = inorder l ++ (k, v) :: inorder (fst res).
Proof.
  intros c l k v res. unfold upR.
  destruct (resolve res) as [r' nf] eqn:Hres.
  assert (Hr' : inorder r' = inorder (fst res)).
  { change r' with (fst (r', nf)). rewrite <- Hres. apply inorder_resolve. }
  destruct nf.
  - rewrite inorder_fixR, Hr'. reflexivity.
  - cbn [fst inorder]. rewrite Hr'. reflexivity.
Qed.

Lemma inorder_remove_here : forall c l r,
  l = E \/ r = E -> inorder (fst (remove_here c l r)) = inorder l ++ inorder r.
Proof.
  intros c l r Hone. unfold remove_here. destruct l as [|lc ll lk lv lr].
  - reflexivity.
  - destruct Hone as [Hl | Hr]; [discriminate|]. subst r. cbn [fst]. rewrite app_nil_r. reflexivity.
Qed.

(* del_min splits off the first binding *)
Lemma inorder_del_min : forall t,
  t <> E ->
  inorder t = snd (fst (del_min t)) :: inorder (fst (fst (del_min t))).
Proof.
  induction t as [|c l IHl k v r _]; intros Hne; [contradiction|].
  destruct l as [|lc ll lk lv lr].
  - cbn [del_min remove_here fst snd inorder app]. reflexivity.
  - remember (T lc ll lk lv lr) as l eqn:Hl.
    assert (Hlne : l <> E) by (subst l; discriminate).
    specialize (IHl Hlne).
    assert (Hstep : del_min (T c l k v r) =
                    let '(l', kv, nf) := del_min l in
                    let '(t', nf') := upL c (l', nf) k v r in (t', kv, nf')).
    { subst l. reflexivity. }
    rewrite Hstep. clear Hstep.
    destruct (del_min l) as [[l' kv] nf] eqn:Hdm. cbn [fst snd] in IHl.
    destruct (upL c (l', nf) k v r) as [t' nf'] eqn:Hup.
    cbn [fst snd inorder].
    assert (Ht' : inorder t' = inorder l' ++ (k, v) :: inorder r).
    { change t' with (fst (t', nf')). rewrite <- Hup, inorder_upL. reflexivity. }
    rewrite Ht', IHl. reflexivity.
Qed.

Lemma card_inorder : forall t, card t = length (inorder t).
Proof.
  induction t as [|c l IHl k v r IHr]; [reflexivity|].
  cbn [card inorder]. rewrite app_length. cbn [length]. rewrite IHl, IHr. lia.
Qed.

(* ------------------------------------------------------------------ *)
(* (b) the abstract operations on strictly ascending lists            *)
(* ------------------------------------------------------------------ *)
Section Laws.
  Variable cmp : Z -> Z -> Z.
  (* the comparator is a strict weak order: the minimal set of laws; reflexivity, symmetry of
     "compares equal" and the right-hand compatibility are derived below *)
  Hypothesis cmp_antisym : forall a b, cmp a b < 0 <-> cmp b a > 0.
  Hypothesis cmp_trans : forall a b c, cmp a b < 0 -> cmp b c < 0 -> cmp a c < 0.
  Hypothesis cmp_eq_lt : forall a b c, cmp a b = 0 -> cmp a c < 0 -> cmp b c < 0.
  (* every lemma of this section is generalised over cmp and the three laws, in this order *)
  Local Set Default Proof Using "All".

  Lemma cmp_refl : forall a, cmp a a = 0.
  Proof. intros a. pose proof (cmp_antisym a a) as H. lia. Qed.

  Lemma cmp_eq_sym : forall a b, cmp a b = 0 -> cmp b a = 0.
  Proof. intros a b H. pose proof (cmp_antisym a b) as H1. pose proof (cmp_antisym b a) as H2. lia. Qed.

  Lemma cmp_lt_eq : forall c a b, cmp c a < 0 -> cmp a b = 0 -> cmp c b < 0.
  Proof.
    intros c a b Hca Hab.
    destruct (Z.lt_trichotomy (cmp c b) 0) as [Hlt | [Heq | Hgt]]; [exact Hlt | exfalso | exfalso].
    - pose proof (cmp_eq_lt c b a Heq Hca) as Hba.
      pose proof (cmp_eq_sym a b Hab) as Hba0. lia.
    - assert (Hbc : cmp b c < 0) by (apply cmp_antisym; lia).
      pose proof (cmp_trans b c a Hbc Hca) as Hba.
      pose proof (cmp_eq_sym a b Hab) as Hba0. lia.
  Qed.

  Definition klt (a b : Z * Z) : Prop := cmp (fst a) (fst b) < 0.
  Definition ordered (m : amap) : Prop := StronglySorted klt m.

  Lemma ordered_app : forall l x r,
    ordered (l ++ x :: r) ->
    ordered l /\ ordered r /\ Forall (fun e => klt e x) l /\ Forall (klt x) r.
  Proof.
    induction l as [|y l IH]; intros x r Hord; cbn [app] in Hord.
    - inversion Hord as [|a m Hm Hall]; subst. repeat split; try assumption; constructor.
    - inversion Hord as [|a m Hm Hall]; subst.
      destruct (IH x r Hm) as (Hl & Hr & Hlx & Hxr).
      repeat split; try assumption.
      + constructor; [exact Hl|]. apply Forall_app in Hall. tauto.
      + constructor; [|exact Hlx]. apply Forall_app in Hall. destruct Hall as [_ Hall].
        inversion Hall; assumption.
  Qed.

  (* ---- unconditional distribution over ++ ---- *)
  Lemma a_find_app : forall k l m,
    a_find cmp k (l ++ m) = match a_find cmp k l with Some v => Some v | None => a_find cmp k m end.
  Proof.
    intros k l m. induction l as [|[k' v'] l IH]; cbn [app a_find]; [reflexivity|].
    destruct (cmp k k' =? 0); [reflexivity | exact IH].
  Qed.

  Lemma a_remove_app_some : forall k l m v0,
    a_find cmp k l = Some v0 -> a_remove cmp k (l ++ m) = a_remove cmp k l ++ m.
  Proof.
    intros k l m v0. induction l as [|[k' v'] l IH]; cbn [app a_find a_remove]; [discriminate|].
    destruct (cmp k k' =? 0); [reflexivity|]. intros H. cbn [app]. rewrite (IH H). reflexivity.
  Qed.

  Lemma a_remove_app_none : forall k l m,
    a_find cmp k l = None -> a_remove cmp k (l ++ m) = l ++ a_remove cmp k m.
  Proof.
    intros k l m. induction l as [|[k' v'] l IH]; cbn [app a_find a_remove]; [reflexivity|].
    destruct (cmp k k' =? 0); [discriminate|]. intros H. rewrite (IH H). reflexivity.
  Qed.

  Lemma a_remove_none : forall k m, a_find cmp k m = None -> a_remove cmp k m = m.
  Proof.
    intros k m. induction m as [|[k' v'] m IH]; cbn [a_find a_remove]; [reflexivity|].
    destruct (cmp k k' =? 0); [discriminate|]. intros H. rewrite (IH H). reflexivity.
  Qed.

  Lemma a_set_app_some : forall k v l m v0,
    a_find cmp k l = Some v0 -> a_set cmp k v (l ++ m) = a_set cmp k v l ++ m.
  Proof.
    intros k v l m v0. induction l as [|[k' v'] l IH]; cbn [app a_find a_set]; [discriminate|].
    destruct (cmp k k' =? 0); [reflexivity|]. intros H. cbn [app]. rewrite (IH H). reflexivity.
  Qed.

  Lemma a_set_app_none : forall k v l m,
    a_find cmp k l = None -> a_set cmp k v (l ++ m) = l ++ a_set cmp k v m.
  Proof.
    intros k v l m. induction l as [|[k' v'] l IH]; cbn [app a_find a_set]; [reflexivity|].
    destruct (cmp k k' =? 0); [discriminate|]. intros H. rewrite (IH H). reflexivity.
  Qed.

  Lemma a_set_none : forall k v m, a_find cmp k m = None -> a_set cmp k v m = m.
  Proof.
    intros k v m. induction m as [|[k' v'] m IH]; cbn [a_find a_set]; [reflexivity|].
    destruct (cmp k k' =? 0); [discriminate|]. intros H. rewrite (IH H). reflexivity.
  Qed.

  Lemma a_insert_app_lt : forall k v l x r,
    cmp k (fst x) < 0 -> a_insert cmp k v (l ++ x :: r) = a_insert cmp k v l ++ x :: r.
  Proof.
    intros k v l [kx vx] r Hlt. cbn [fst] in Hlt.
    induction l as [|[k' v'] l IH]; cbn [app a_insert].
    - assert (Hb : (cmp k kx <? 0) = true) by (apply Z.ltb_lt; exact Hlt). rewrite Hb. reflexivity.
    - destruct (cmp k k' <? 0); [reflexivity|]. cbn [app]. rewrite IH. reflexivity.
  Qed.

  Lemma a_insert_app_ge : forall k v (l m : amap),
    Forall (fun e => ~ cmp k (fst e) < 0) l -> a_insert cmp k v (l ++ m) = l ++ a_insert cmp k v m.
  Proof.
    intros k v l m Hall. induction Hall as [|[k' v'] l Hx Hl IH]; cbn [app a_insert]; [reflexivity|].
    cbn [fst] in Hx. assert (Hb : (cmp k k' <? 0) = false) by (apply Z.ltb_ge; lia).
    rewrite Hb, IH. reflexivity.
  Qed.

  (* ---- keys that sort strictly before / after everything in a list ---- *)
  Lemma a_find_all_lt : forall k (m : amap), Forall (fun e => cmp k (fst e) < 0) m -> a_find cmp k m = None.
  Proof.
    intros k m Hall. induction Hall as [|[k' v'] m Hx Hm IH]; cbn [a_find]; [reflexivity|].
    cbn [fst] in Hx. assert (Hb : (cmp k k' =? 0) = false) by (apply Z.eqb_neq; lia).
    rewrite Hb. exact IH.
  Qed.

  Lemma a_find_all_gt : forall k (m : amap), Forall (fun e => cmp (fst e) k < 0) m -> a_find cmp k m = None.
  Proof.
    intros k m Hall. induction Hall as [|[k' v'] m Hx Hm IH]; cbn [a_find]; [reflexivity|].
    cbn [fst] in Hx. pose proof (cmp_antisym k' k) as Ha.
    assert (Hb : (cmp k k' =? 0) = false) by (apply Z.eqb_neq; lia).
    rewrite Hb. exact IH.
  Qed.

  Lemma all_gt_not_lt : forall k (m : amap),
    Forall (fun e => cmp (fst e) k < 0) m -> Forall (fun e => ~ cmp k (fst e) < 0) m.
  Proof.
    intros k m Hall. eapply Forall_impl; [|exact Hall].
    intros e He. cbn beta in He. pose proof (cmp_antisym (fst e) k) as Ha. lia.
  Qed.

  (* ---- the three cases at a node: l ++ (k',v') :: r strictly ascending ---- *)
  Lemma split_lt : forall k l k' v' r,
    ordered (l ++ (k', v') :: r) -> cmp k k' < 0 ->
    ordered l /\
    a_find cmp k (l ++ (k', v') :: r) = a_find cmp k l /\
    (forall v, a_insert cmp k v (l ++ (k', v') :: r) = a_insert cmp k v l ++ (k', v') :: r) /\
    a_remove cmp k (l ++ (k', v') :: r) = a_remove cmp k l ++ (k', v') :: r /\
    (forall v, a_set cmp k v (l ++ (k', v') :: r) = a_set cmp k v l ++ (k', v') :: r).
  Proof.
    intros k l k' v' r Hord Hlt.
    destruct (ordered_app _ _ _ Hord) as (Hl & Hr & Hlx & Hxr).
    assert (Hrest : a_find cmp k ((k', v') :: r) = None).
    { apply a_find_all_lt. constructor; [exact Hlt|].
      eapply Forall_impl; [|exact Hxr]. intros e He. unfold klt in He. cbn [fst] in He.
      exact (cmp_trans _ _ _ Hlt He). }
    split; [exact Hl|]. split; [|split; [|split]].
    - rewrite a_find_app, Hrest. destruct (a_find cmp k l); reflexivity.
    - intros v. apply a_insert_app_lt. exact Hlt.
    - destruct (a_find cmp k l) as [v0|] eqn:Hf.
      + exact (a_remove_app_some _ _ _ _ Hf).
      + rewrite (a_remove_app_none _ _ _ Hf), (a_remove_none _ _ Hrest), (a_remove_none _ _ Hf). reflexivity.
    - intros v. destruct (a_find cmp k l) as [v0|] eqn:Hf.
      + exact (a_set_app_some _ _ _ _ _ Hf).
      + rewrite (a_set_app_none _ _ _ _ Hf), (a_set_none _ _ _ Hrest), (a_set_none _ _ _ Hf). reflexivity.
  Qed.

  Lemma split_gt : forall k l k' v' r,
    ordered (l ++ (k', v') :: r) -> cmp k' k < 0 ->
    ordered r /\
    a_find cmp k (l ++ (k', v') :: r) = a_find cmp k r /\
    (forall v, a_insert cmp k v (l ++ (k', v') :: r) = l ++ (k', v') :: a_insert cmp k v r) /\
    a_remove cmp k (l ++ (k', v') :: r) = l ++ (k', v') :: a_remove cmp k r /\
    (forall v, a_set cmp k v (l ++ (k', v') :: r) = l ++ (k', v') :: a_set cmp k v r).
  Proof.
    intros k l k' v' r Hord Hgt.
    destruct (ordered_app _ _ _ Hord) as (Hl & Hr & Hlx & Hxr).
    assert (Hall : Forall (fun e => cmp (fst e) k < 0) l).
    { eapply Forall_impl; [|exact Hlx]. intros e He. unfold klt in He. cbn [fst] in He.
      exact (cmp_trans _ _ _ He Hgt). }
    assert (Hfl : a_find cmp k l = None) by (apply a_find_all_gt; exact Hall).
    pose proof (cmp_antisym k' k) as Ha.
    assert (Hne : (cmp k k' =? 0) = false) by (apply Z.eqb_neq; lia).
    assert (Hnl : (cmp k k' <? 0) = false) by (apply Z.ltb_ge; lia).
    split; [exact Hr|]. split; [|split; [|split]].
    - rewrite a_find_app, Hfl. cbn [a_find]. rewrite Hne. reflexivity.
    - intros v. rewrite (a_insert_app_ge k v l _ (all_gt_not_lt _ _ Hall)). cbn [a_insert].
      rewrite Hnl. reflexivity.
    - rewrite (a_remove_app_none _ _ _ Hfl). cbn [a_remove]. rewrite Hne. reflexivity.
    - intros v. rewrite (a_set_app_none _ _ _ _ Hfl). cbn [a_set]. rewrite Hne. reflexivity.
  Qed.

  Lemma split_eq : forall k l k' v' r,
    ordered (l ++ (k', v') :: r) -> cmp k k' = 0 ->
    a_find cmp k (l ++ (k', v') :: r) = Some v' /\
    a_remove cmp k (l ++ (k', v') :: r) = l ++ r /\
    (forall v, a_set cmp k v (l ++ (k', v') :: r) = l ++ (k', v) :: r).
  Proof.
    intros k l k' v' r Hord Heq.
    destruct (ordered_app _ _ _ Hord) as (Hl & Hr & Hlx & Hxr).
    assert (Hall : Forall (fun e => cmp (fst e) k < 0) l).
    { eapply Forall_impl; [|exact Hlx]. intros e He. unfold klt in He. cbn [fst] in He.
      exact (cmp_lt_eq _ _ _ He (cmp_eq_sym _ _ Heq)). }
    assert (Hfl : a_find cmp k l = None) by (apply a_find_all_gt; exact Hall).
    assert (Hb : (cmp k k' =? 0) = true) by (apply Z.eqb_eq; exact Heq).
    split; [|split].
    - rewrite a_find_app, Hfl. cbn [a_find]. rewrite Hb. reflexivity.
    - rewrite (a_remove_app_none _ _ _ Hfl). cbn [a_remove]. rewrite Hb. reflexivity.
    - intros v. rewrite (a_set_app_none _ _ _ _ Hfl). cbn [a_set]. rewrite Hb. reflexivity.
  Qed.

  (* ---- the abstract operations keep the list strictly ascending ---- *)
  Lemma Forall_a_insert : forall (P : Z * Z -> Prop) k v m,
    P (k, v) -> Forall P m -> Forall P (a_insert cmp k v m).
  Proof.
    intros P k v m Hk Hall. induction Hall as [|[k' v'] m Hx Hm IH]; cbn [a_insert].
    - constructor; [exact Hk | constructor].
    - destruct (cmp k k' <? 0); constructor; try assumption. constructor; assumption.
  Qed.

  Lemma ordered_a_insert : forall k v m,
    ordered m -> a_find cmp k m = None -> ordered (a_insert cmp k v m).
  Proof.
    intros k v m Hord. induction Hord as [|[k' v'] m Hm IH Hall]; cbn [a_find a_insert]; intros Hf.
    - constructor; constructor.
    - destruct (cmp k k' =? 0) eqn:He; [discriminate|]. apply Z.eqb_neq in He.
      destruct (cmp k k' <? 0) eqn:Hl.
      + apply Z.ltb_lt in Hl. constructor; [constructor; assumption|].
        constructor; [exact Hl|].
        eapply Forall_impl; [|exact Hall]. intros e Hke. unfold klt in *. cbn [fst] in *.
        exact (cmp_trans _ _ _ Hl Hke).
      + apply Z.ltb_ge in Hl. constructor; [exact (IH Hf)|].
        apply Forall_a_insert; [|exact Hall].
        unfold klt. cbn [fst]. apply cmp_antisym. lia.
  Qed.

  Lemma Forall_a_remove : forall (P : Z * Z -> Prop) k m, Forall P m -> Forall P (a_remove cmp k m).
  Proof.
    intros P k m Hall. induction Hall as [|[k' v'] m Hx Hm IH]; cbn [a_remove]; [constructor|].
    destruct (cmp k k' =? 0); [exact Hm | constructor; assumption].
  Qed.

  Lemma ordered_a_remove : forall k m, ordered m -> ordered (a_remove cmp k m).
  Proof.
    intros k m Hord. induction Hord as [|[k' v'] m Hm IH Hall]; cbn [a_remove]; [constructor|].
    destruct (cmp k k' =? 0); [exact Hm|].
    constructor; [exact IH | apply Forall_a_remove; exact Hall].
  Qed.

  Lemma Forall_a_set : forall (P : Z * Z -> Prop) k v m,
    (forall k0 v0 v1, P (k0, v0) -> P (k0, v1)) -> Forall P m -> Forall P (a_set cmp k v m).
  Proof.
    intros P k v m HP Hall. induction Hall as [|[k' v'] m Hx Hm IH]; cbn [a_set]; [constructor|].
    destruct (cmp k k' =? 0); constructor; try assumption. exact (HP _ _ _ Hx).
  Qed.

  Lemma ordered_a_set : forall k v m, ordered m -> ordered (a_set cmp k v m).
  Proof.
    intros k v m Hord. induction Hord as [|[k' v'] m Hm IH Hall]; cbn [a_set]; [constructor|].
    destruct (cmp k k' =? 0).
    - constructor; [exact Hm|]. exact Hall.
    - constructor; [exact IH|]. apply Forall_a_set; [|exact Hall].
      intros k0 v0 v1 H. exact H.
  Qed.

  (* ---- lengths ---- *)
  Lemma length_a_insert : forall k v m, length (a_insert cmp k v m) = S (length m).
  Proof.
    intros k v m. induction m as [|[k' v'] m IH]; cbn [a_insert length]; [reflexivity|].
    destruct (cmp k k' <? 0); cbn [length]; [reflexivity | rewrite IH; reflexivity].
  Qed.

  Lemma length_a_remove : forall k m v0,
    a_find cmp k m = Some v0 -> S (length (a_remove cmp k m)) = length m.
  Proof.
    intros k m v0. induction m as [|[k' v'] m IH]; cbn [a_find a_remove length]; [discriminate|].
    destruct (cmp k k' =? 0); [reflexivity|]. intros H. cbn [length]. rewrite (IH H). reflexivity.
  Qed.

  Lemma length_a_set : forall k v m, length (a_set cmp k v m) = length m.
  Proof.
    intros k v m. induction m as [|[k' v'] m IH]; cbn [a_set length]; [reflexivity|].
    destruct (cmp k k' =? 0); cbn [length]; [reflexivity | rewrite IH; reflexivity].
  Qed.

  (* strictly ascending keys are pairwise distinct *)
  Lemma ordered_nodup : forall m, ordered m -> NoDup (map fst m).
  Proof.
    intros m Hord. induction Hord as [|[k v] m Hm IH Hall]; cbn [map fst]; constructor; [|exact IH].
    intros Hin. apply in_map_iff in Hin. destruct Hin as ([k1 v1] & Hk & Hin). cbn [fst] in Hk. subst k1.
    rewrite Forall_forall in Hall. specialize (Hall _ Hin). unfold klt in Hall. cbn [fst] in Hall.
    pose proof (cmp_refl k). lia.
  Qed.
End Laws.
