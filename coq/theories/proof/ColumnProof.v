(* Proofs about ColumnModel (C18): the byte-level codec. *)
From Ekit Require Import Common ColumnModel.
From Coq Require Import ZifyBool.

(* ---------- big-endian bytes ---------- *)
Lemma be_bytes_length n u : length (be_bytes n u) = n.
Proof. induction n as [|n IH]; cbn [be_bytes length]; [reflexivity|now rewrite IH]. Qed.

Lemma be_bytes_range n u : Forall (fun b => 0 <= b < 256) (be_bytes n u).
Proof.
  induction n as [|n IH]; cbn [be_bytes]; constructor; [|exact IH].
  apply Z.mod_pos_bound. lia.
Qed.

Definition bstep (a b : Z) : Z := a * 256 + b.

Lemma be_val_fold l : be_val l = fold_left bstep l 0.
Proof. reflexivity. Qed.

Lemma fold_bstep_acc l : forall a,
  fold_left bstep l a = a * 256 ^ Z.of_nat (length l) + fold_left bstep l 0.
Proof.
  induction l as [|b t IH]; intros a.
  - cbn. lia.
  - cbn [fold_left length]. rewrite (IH (bstep a b)), (IH (bstep 0 b)).
    rewrite Nat2Z.inj_succ, Z.pow_succ_r by lia. unfold bstep. ring.
Qed.

Lemma be_val_cons b t : be_val (b :: t) = b * 256 ^ Z.of_nat (length t) + be_val t.
Proof.
  rewrite !be_val_fold. cbn [fold_left]. rewrite fold_bstep_acc. unfold bstep. ring.
Qed.

Lemma be_val_be_bytes n u : be_val (be_bytes n u) = u mod 256 ^ Z.of_nat n.
Proof.
  induction n as [|n IH].
  - cbn. now rewrite Z.mod_1_r.
  - cbn [be_bytes]. rewrite be_val_cons, be_bytes_length, IH.
    rewrite Nat2Z.inj_succ, Z.pow_succ_r by lia.
    rewrite (Z.mul_comm 256), Z.rem_mul_r by lia. ring.
Qed.

Lemma be_val_range l : Forall (fun b => 0 <= b < 256) l ->
  0 <= be_val l < 256 ^ Z.of_nat (length l).
Proof.
  induction l as [|b t IH]; intros HF.
  - cbn. lia.
  - inversion HF as [|b' t' Hb Ht]; subst. specialize (IH Ht).
    rewrite be_val_cons. cbn [length]. rewrite Nat2Z.inj_succ, Z.pow_succ_r by lia. nia.
Qed.

(* the inverse direction: re-encoding the decoded number gives the bytes back *)
Lemma be_bytes_be_val l : Forall (fun b => 0 <= b < 256) l ->
  be_bytes (length l) (be_val l) = l.
Proof.
  induction l as [|b t IH]; intros HF; [reflexivity|].
  inversion HF as [|b' t' Hb Ht]; subst.
  pose proof (be_val_range t Ht) as Hr.
  cbn [length be_bytes]. rewrite be_val_cons. f_equal.
  - rewrite Z.div_add_l by lia. rewrite (Z.div_small (be_val t)) by lia.
    rewrite Z.add_0_r. apply Z.mod_small. lia.
  - transitivity (be_bytes (length t) (be_val t)); [|exact (IH Ht)].
    clear IH HF Ht. set (n := length t) in *. clearbody n.
    set (v := be_val t) in *. clearbody v.
    assert (G : forall j, (j <= n)%nat -> be_bytes j (b * 256 ^ Z.of_nat n + v) = be_bytes j v).
    { induction j as [|j IHj]; intros Hj; [reflexivity|].
      cbn [be_bytes]. rewrite IHj by lia. f_equal.
      replace (Z.of_nat n) with (Z.of_nat j + (1 + Z.of_nat (n - S j))) by lia.
      rewrite Z.pow_add_r, Z.pow_add_r by lia.
      replace (b * (256 ^ Z.of_nat j * (256 ^ 1 * 256 ^ Z.of_nat (n - S j))) + v)
        with (v + (b * 256 ^ Z.of_nat (n - S j) * 256) * 256 ^ Z.of_nat j) by ring.
      rewrite Z.div_add by lia.
      rewrite Z.add_mod by lia. rewrite Z.mod_mul by lia. rewrite Z.add_0_r.
      apply Z.mod_mod. lia. }
    apply G. lia.
Qed.

(* ---------- the numeric codec ---------- *)
Ltac norm_kind :=
  repeat match goal with
  | |- context [nbits ?k] => let v := eval vm_compute in (nbits k) in change (nbits k) with v
  | H : context [nbits ?k] |- _ => let v := eval vm_compute in (nbits k) in change (nbits k) with v in H
  | |- context [nbytes ?k] => let v := eval vm_compute in (nbytes k) in change (nbytes k) with v
  | H : context [nbytes ?k] |- _ => let v := eval vm_compute in (nbytes k) in change (nbytes k) with v in H
  | |- context [nsigned ?k] => let v := eval vm_compute in (nsigned k) in change (nsigned k) with v
  | H : context [nsigned ?k] |- _ => let v := eval vm_compute in (nsigned k) in change (nsigned k) with v in H
  end.
Ltac norm_pow :=
  repeat match goal with
  | |- context [2 ^ ?c] => let v := eval vm_compute in (2 ^ c) in progress change (2 ^ c) with v
  | H : context [2 ^ ?c] |- _ => let v := eval vm_compute in (2 ^ c) in progress change (2 ^ c) with v in H
  end.

Lemma pow256_nbits k : 256 ^ Z.of_nat (nbytes k) = 2 ^ nbits k.
Proof. destruct k; reflexivity. Qed.

Lemma wrap_back k z : in_range k z = true ->
  (if nsigned k then wrap_s (nbits k) (wrap_u (nbits k) z) else wrap_u (nbits k) z) = z.
Proof.
  intros Hr. unfold in_range in Hr.
  destruct k; norm_kind; cbv iota in *; unfold in_s, in_u, wrap_s, wrap_u in *; norm_pow;
    try rewrite Z.mod_mod by lia;
    try (apply Z.mod_small; lia);
    match goal with |- context [?a <? ?b] => destruct (Z.ltb_spec a b) end;
    Z.div_mod_to_equations; lia.
Qed.

Lemma firstn_app_len {A} (l r : list A) : firstn (length l) (l ++ r) = l.
Proof. induction l as [|a l IH]; cbn; [now destruct r|now rewrite IH]. Qed.

Lemma skipn_app_len {A} (l r : list A) : skipn (length l) (l ++ r) = r.
Proof. induction l as [|a l IH]; cbn; [reflexivity|exact IH]. Qed.

Lemma encode_num_length k z : length (encode_num k z) = nbytes k.
Proof. apply be_bytes_length. Qed.

Lemma encode_num_range k z : Forall (fun b => 0 <= b < 256) (encode_num k z).
Proof. apply be_bytes_range. Qed.

(* decode reads exactly the first nbytes bytes: whatever follows is ignored *)
Lemma decode_encode_prefix k z rest : in_range k z = true ->
  decode_num k (encode_num k z ++ rest) = COk z.
Proof.
  intros Hr. unfold decode_num.
  rewrite app_length, encode_num_length.
  destruct (Nat.ltb_spec (nbytes k + length rest) (nbytes k)) as [Hlt|_]; [lia|].
  assert (Hf : firstn (nbytes k) (encode_num k z ++ rest) = encode_num k z)
    by (rewrite <- (encode_num_length k z) at 1; apply firstn_app_len).
  rewrite !Hf.
  unfold encode_num. rewrite be_val_be_bytes, pow256_nbits.
  f_equal.
  replace (wrap_u (nbits k) z mod 2 ^ nbits k) with (wrap_u (nbits k) z)
    by (unfold wrap_u; rewrite Z.mod_mod; [reflexivity|destruct k; discriminate]).
  apply wrap_back, Hr.
Qed.

Lemma decode_encode k z : in_range k z = true -> decode_num k (encode_num k z) = COk z.
Proof. intros Hr. rewrite <- (app_nil_r (encode_num k z)). now apply decode_encode_prefix. Qed.

Lemma decode_short k m : (length m < nbytes k)%nat ->
  decode_num k m = CErr (match m with [] => CEOF | _ => CUnexpectedEOF end).
Proof.
  intros Hl. unfold decode_num.
  destruct (Nat.ltb_spec (length m) (nbytes k)); [reflexivity|lia].
Qed.

Lemma decode_long k m : (nbytes k <= length m)%nat ->
  decode_num k m = decode_num k (firstn (nbytes k) m).
Proof.
  intros Hl. unfold decode_num.
  rewrite firstn_length_le by exact Hl.
  destruct (Nat.ltb_spec (length m) (nbytes k)); [lia|].
  rewrite Nat.ltb_irrefl. now rewrite firstn_firstn, Nat.min_id.
Qed.

Lemma Forall_firstn_ {A} (P : A -> Prop) n : forall l, Forall P l -> Forall P (firstn n l).
Proof.
  induction n as [|n IH]; intros l HF; [constructor|].
  destruct l as [|a l]; [constructor|]. inversion HF; subst. cbn. constructor; auto.
Qed.

(* a decoded number is always a value of the type *)
Lemma decode_in_range k m z : Forall (fun b => 0 <= b < 256) m ->
  decode_num k m = COk z -> in_range k z = true.
Proof.
  intros HF. unfold decode_num.
  destruct (Nat.ltb_spec (length m) (nbytes k)) as [|Hl]; [discriminate|].
  intros E. injection E as <-.
  pose proof (be_val_range _ (Forall_firstn_ _ (nbytes k) m HF)) as Hr.
  rewrite firstn_length_le in Hr by exact Hl. rewrite pow256_nbits in Hr.
  set (u := be_val (firstn (nbytes k) m)) in *. clearbody u.
  unfold in_range.
  destruct k; norm_kind; cbv iota in *; unfold in_s, in_u, wrap_s in *; norm_pow;
    try lia;
    match goal with |- context [?a <? ?b] => destruct (Z.ltb_spec a b) end;
    Z.div_mod_to_equations; lia.
Qed.

(* ... and re-encoding it gives the first nbytes bytes back (the codec is a bijection
   between the values of the type and the byte strings of its width) *)
Lemma encode_decode k m z : Forall (fun b => 0 <= b < 256) m ->
  decode_num k m = COk z -> encode_num k z = firstn (nbytes k) m.
Proof.
  intros HF. unfold decode_num.
  destruct (Nat.ltb_spec (length m) (nbytes k)) as [|Hl]; [discriminate|].
  intros E. injection E as <-.
  pose proof (Forall_firstn_ _ (nbytes k) m HF) as HF'.
  pose proof (be_val_range _ HF') as Hr.
  pose proof (be_bytes_be_val _ HF') as Hb.
  rewrite firstn_length_le in Hr, Hb by exact Hl. rewrite pow256_nbits in Hr.
  set (u := be_val (firstn (nbytes k) m)) in *. clearbody u.
  rewrite <- Hb. unfold encode_num. f_equal. clear Hb.
  destruct k; norm_kind; cbv iota in *; unfold wrap_s, wrap_u in *; norm_pow;
    try (apply Z.mod_small; lia);
    match goal with |- context [?a <? ?b] => destruct (Z.ltb_spec a b) end;
    Z.div_mod_to_equations; lia.
Qed.

Lemma decode_num_no_panic k m : decode_num k m <> CPanic.
Proof. unfold decode_num. destruct (length m <? nbytes k)%nat; discriminate. Qed.

Lemma nkind_eqb_eq a b : nkind_eqb a b = true -> a = b.
Proof. destruct a, b; cbn; intros E; try discriminate; reflexivity. Qed.

(* ---------- flipping a bit changes the string ---------- *)
Lemma lxor_pow_neq b j : 0 <= j -> Z.lxor b (2 ^ j) <> b.
Proof.
  intros Hj E.
  assert (H : Z.lxor b (Z.lxor b (2 ^ j)) = Z.lxor b b) by (now rewrite E).
  rewrite <- Z.lxor_assoc, Z.lxor_nilpotent, Z.lxor_0_l in H.
  pose proof (Z.pow_pos_nonneg 2 j ltac:(lia) Hj). lia.
Qed.

Lemma flip_bit_neq l : forall i, (i < 8 * length l)%nat -> flip_bit i l <> l.
Proof.
  induction l as [|b t IH]; intros i Hi; cbn [length] in Hi; [lia|].
  cbn [flip_bit]. destruct (Nat.ltb_spec i 8) as [Hlt|Hge].
  - intros E. injection E as E. revert E. apply lxor_pow_neq. lia.
  - intros E. injection E as E. revert E. apply IH. lia.
Qed.

Lemma flip_bit_length l : forall i, length (flip_bit i l) = length l.
Proof.
  induction l as [|b t IH]; intros i; [reflexivity|].
  cbn [flip_bit]. destruct (i <? 8)%nat; cbn [length]; [reflexivity|now rewrite IH].
Qed.

(* ---------- the toy AEAD satisfies the functional ideal-AEAD hypotheses ---------- *)
Lemma bytes_eqb_eq a : forall b, bytes_eqb a b = true <-> a = b.
Proof.
  induction a as [|x a IH]; intros [|y b]; cbn; split; intros H; try discriminate; try reflexivity.
  - apply andb_prop in H as [H1 H2]. apply Z.eqb_eq in H1. apply IH in H2. now subst.
  - injection H as -> ->. rewrite Z.eqb_refl. now apply IH.
Qed.

Lemma toy_tag_length k n m : length (toy_tag k n m) = tag_size.
Proof. apply be_bytes_length. Qed.

Lemma toy_correct : aead_correct toy_seal toy_open.
Proof.
  intros k n m. unfold toy_open, toy_seal.
  rewrite app_length, toy_tag_length.
  destruct (Nat.ltb_spec (length m + tag_size) tag_size) as [Hlt|_].
  - assert (length m = 0)%nat as E by lia. destruct m; [|discriminate].
    cbn in Hlt. lia.
  - replace (length m + tag_size - tag_size)%nat with (length m) by lia.
    rewrite firstn_app_len, skipn_app_len.
    now rewrite (proj2 (bytes_eqb_eq _ _) eq_refl).
Qed.

Lemma toy_only_seal : aead_only_seal toy_seal toy_open.
Proof.
  intros k n c m. unfold toy_open, toy_seal.
  destruct (length c <? tag_size)%nat; [discriminate|].
  destruct (bytes_eqb _ _) eqn:E; [|discriminate].
  intros H. injection H as <-. apply bytes_eqb_eq in E. rewrite <- E.
  symmetry. apply firstn_skipn.
Qed.

Lemma toy_length : aead_length toy_seal.
Proof. intros k n m. unfold toy_seal. now rewrite app_length, toy_tag_length. Qed.

Lemma log_int_ctxt log : aead_int_ctxt (log_open log) (log_issued log).
Proof.
  intros k n c m. unfold log_open.
  destruct (find (log_match k n c) log) as [[[[k' n'] c'] m']|] eqn:E; [|discriminate].
  intros H. injection H as ->. apply find_some in E as [Hin Hm].
  unfold log_match in Hm. apply andb_prop in Hm as [Hm Hc]. apply andb_prop in Hm as [Hk Hn].
  apply bytes_eqb_eq in Hk, Hn, Hc. subst. now exists m.
Qed.

(* ---------- per-type statements of the codec round trip (explicit ranges) ---------- *)
Lemma codec_roundtrip_lemma k z : in_range k z = true ->
  decode_num k (encode_num k z) = COk z /\
  length (encode_num k z) = nbytes k /\
  Forall (fun b => 0 <= b < 256) (encode_num k z).
Proof.
  intros Hr. split; [now apply decode_encode|]. split; [apply encode_num_length|apply encode_num_range].
Qed.

Ltac range_tac :=
  unfold in_range; norm_kind; cbv iota; unfold in_s, in_u; norm_pow; lia.

Lemma codec_int8_lemma z : -128 <= z < 128 ->
  decode_num NI8 (encode_num NI8 z) = COk z /\ length (encode_num NI8 z) = 1%nat.
Proof. intros H. split; [apply decode_encode; range_tac|reflexivity]. Qed.
Lemma codec_int16_lemma z : -32768 <= z < 32768 ->
  decode_num NI16 (encode_num NI16 z) = COk z /\ length (encode_num NI16 z) = 2%nat.
Proof. intros H. split; [apply decode_encode; range_tac|reflexivity]. Qed.
Lemma codec_int32_lemma z : - 2 ^ 31 <= z < 2 ^ 31 ->
  decode_num NI32 (encode_num NI32 z) = COk z /\ length (encode_num NI32 z) = 4%nat.
Proof. intros H. norm_pow. split; [apply decode_encode; range_tac|reflexivity]. Qed.
Lemma codec_int64_lemma z : - 2 ^ 63 <= z < 2 ^ 63 ->
  decode_num NI64 (encode_num NI64 z) = COk z /\ length (encode_num NI64 z) = 8%nat.
Proof. intros H. norm_pow. split; [apply decode_encode; range_tac|reflexivity]. Qed.
Lemma codec_int_lemma z : - 2 ^ 63 <= z < 2 ^ 63 ->
  decode_num NInt (encode_num NInt z) = COk z /\ length (encode_num NInt z) = 8%nat.
Proof. intros H. norm_pow. split; [apply decode_encode; range_tac|reflexivity]. Qed.
Lemma codec_uint8_lemma z : 0 <= z < 256 ->
  decode_num NU8 (encode_num NU8 z) = COk z /\ length (encode_num NU8 z) = 1%nat.
Proof. intros H. split; [apply decode_encode; range_tac|reflexivity]. Qed.
Lemma codec_uint16_lemma z : 0 <= z < 65536 ->
  decode_num NU16 (encode_num NU16 z) = COk z /\ length (encode_num NU16 z) = 2%nat.
Proof. intros H. split; [apply decode_encode; range_tac|reflexivity]. Qed.
Lemma codec_uint32_lemma z : 0 <= z < 2 ^ 32 ->
  decode_num NU32 (encode_num NU32 z) = COk z /\ length (encode_num NU32 z) = 4%nat.
Proof. intros H. norm_pow. split; [apply decode_encode; range_tac|reflexivity]. Qed.
Lemma codec_uint64_lemma z : 0 <= z < 2 ^ 64 ->
  decode_num NU64 (encode_num NU64 z) = COk z /\ length (encode_num NU64 z) = 8%nat.
Proof. intros H. norm_pow. split; [apply decode_encode; range_tac|reflexivity]. Qed.
Lemma codec_uint_lemma z : 0 <= z < 2 ^ 64 ->
  decode_num NUint (encode_num NUint z) = COk z /\ length (encode_num NUint z) = 8%nat.
Proof. intros H. norm_pow. split; [apply decode_encode; range_tac|reflexivity]. Qed.
(* floats: z is the IEEE-754 bit pattern (all 2^32 / 2^64 patterns, NaNs included) *)
Lemma codec_float32_lemma z : 0 <= z < 2 ^ 32 ->
  decode_num NF32 (encode_num NF32 z) = COk z /\ length (encode_num NF32 z) = 4%nat.
Proof. intros H. norm_pow. split; [apply decode_encode; range_tac|reflexivity]. Qed.
Lemma codec_float64_lemma z : 0 <= z < 2 ^ 64 ->
  decode_num NF64 (encode_num NF64 z) = COk z /\ length (encode_num NF64 z) = 8%nat.
Proof. intros H. norm_pow. split; [apply decode_encode; range_tac|reflexivity]. Qed.

(* ---------- EncryptColumn / JsonColumn ---------- *)
Section ColumnProofs.
  Variable V : Type.
  Variable json_enc : V -> option bytes.
  Variable json_dec : V -> bytes -> V * bool.
  Variable seal : bytes -> bytes -> bytes -> bytes.
  Variable open : bytes -> bytes -> bytes -> option bytes.
  Variable zeroV : V.
  Variable json_rep : V -> Prop.
  Variable issued : bytes -> bytes -> bytes -> Prop.

  Notation Encode := (encode V json_enc).
  Notation Value := (value V json_enc seal).
  Notation Scan := (scan V json_dec open).
  Notation ScanData := (scan_data V json_dec open).
  Notation Decrypt := (aes_decrypt open).
  Notation SetVal := (set_val V json_dec).
  Notation JValue := (jvalue V json_enc).
  Notation JScan := (jscan V json_dec).

  Definition is_data (s : src) (b : bytes) : Prop := s = SBytes b \/ s = SString b.

  Lemma scan_is_data pinned c s b : is_data s b -> Scan pinned c s = ScanData pinned c b.
  Proof. intros [->| ->]; reflexivity. Qed.

  Lemma encode_never_panics x : Encode x <> CPanic.
  Proof. destruct x; cbn; try discriminate. destruct (json_enc x); discriminate. Qed.

  Lemma encode_total x : val_ok V json_rep x ->
    json_roundtrips V json_enc json_dec zeroV json_rep -> exists pt, Encode x = COk pt.
  Proof.
    intros Hx HJ. destruct x as [b|b|k z|x]; cbn; eauto.
    destruct (HJ x Hx) as (b & -> & _). eauto.
  Qed.

  Lemma value_never_panics_lemma n c : Value n c <> CPanic.
  Proof.
    unfold value. destruct (negb (valid c)); [discriminate|].
    destruct (negb (key_ok (ckey c))); [discriminate|].
    pose proof (encode_never_panics (val c)) as H.
    destruct (Encode (val c)); [discriminate|discriminate|congruence].
  Qed.

  Lemma value_ok_inv n c stored : Value n c = COk stored ->
    valid c = true /\ key_ok (ckey c) = true /\
    exists pt, Encode (val c) = COk pt /\ stored = n ++ seal (ckey c) n pt.
  Proof.
    unfold value, aes_encrypt.
    destruct (valid c); cbn [negb]; [|discriminate].
    destruct (key_ok (ckey c)); cbn [negb]; [|discriminate].
    destruct (Encode (val c)) as [pt| |]; try discriminate.
    intros E. injection E as <-. eauto.
  Qed.

  Lemma value_length_lemma : aead_length seal ->
    forall n c stored, length n = nonce_size -> Value n c = COk stored ->
    exists pt, Encode (val c) = COk pt /\
      length stored = (nonce_size + length pt + tag_size)%nat /\
      firstn nonce_size stored = n.
  Proof.
    intros HL n c stored Hn Hv.
    apply value_ok_inv in Hv as (_ & _ & pt & He & ->).
    exists pt. split; [exact He|]. split.
    - rewrite app_length, HL. lia.
    - rewrite <- Hn. apply firstn_app_len.
  Qed.

  Lemma decrypt_sealed k n pt : key_ok k = true -> length n = nonce_size ->
    aead_correct seal open -> Decrypt false k (n ++ seal k n pt) = COk pt.
  Proof.
    intros Hk Hn HC. unfold aes_decrypt. rewrite Hk. cbn [negb].
    rewrite app_length, Hn.
    destruct (Nat.ltb_spec (nonce_size + length (seal k n pt)) nonce_size) as [Hlt|_]; [lia|].
    rewrite <- Hn, firstn_app_len, skipn_app_len, HC. reflexivity.
  Qed.

  Lemma set_val_roundtrip x old pt :
    val_ok V json_rep x ->
    json_roundtrips V json_enc json_dec zeroV json_rep ->
    same_ty old x = true -> fresh_dst V zeroV old ->
    Encode x = COk pt -> SetVal old pt = (x, SOk).
  Proof.
    intros Hx HJ Hty Hfr He.
    destruct x as [b|b|k z|x]; destruct old as [b0|b0|k0 z0|x0]; try discriminate Hty;
      cbn in He, Hx, Hty, Hfr |- *.
    - now injection He as <-.
    - now injection He as <-.
    - apply nkind_eqb_eq in Hty. subst k0. injection He as <-.
      now rewrite (decode_encode k z Hx).
    - subst x0. destruct (HJ x Hx) as (b & Eb & Db). rewrite Eb in He.
      injection He as <-. now rewrite Db.
  Qed.

  (* Scan(Value(x)) restores x, Valid = true, nil error *)
  Lemma value_scan_roundtrip_lemma :
    aead_correct seal open ->
    json_roundtrips V json_enc json_dec zeroV json_rep ->
    forall x k n c0 s,
      val_ok V json_rep x ->
      key_ok k = true -> length n = nonce_size ->
      same_ty (val c0) x = true -> ckey c0 = k -> fresh_dst V zeroV (val c0) ->
      exists pt stored,
        Encode x = COk pt /\
        Value n {| val := x; valid := true; ckey := k |} = COk stored /\
        stored = n ++ seal k n pt /\
        (is_data s stored ->
         Scan false c0 s = ({| val := x; valid := true; ckey := k |}, SOk)).
  Proof.
    intros HC HJ x k n c0 s Hx Hk Hn Hty Hck Hfr.
    destruct (encode_total x Hx HJ) as (pt & He).
    exists pt, (n ++ seal k n pt). split; [exact He|]. split; [|split; [reflexivity|]].
    - unfold value. cbn [valid ckey val negb]. rewrite Hk. cbn [negb]. now rewrite He.
    - intros Hs. rewrite (scan_is_data _ _ _ _ Hs). unfold scan_data. rewrite Hck.
      rewrite (decrypt_sealed k n pt Hk Hn HC).
      now rewrite (set_val_roundtrip x (val c0) pt Hx HJ Hty Hfr He).
  Qed.

  (* two encryptions with different nonces differ (already in the first 12 bytes) *)
  Lemma fresh_nonce_lemma n1 n2 c s1 s2 :
    length n1 = nonce_size -> length n2 = nonce_size -> n1 <> n2 ->
    Value n1 c = COk s1 -> Value n2 c = COk s2 ->
    s1 <> s2 /\ firstn nonce_size s1 = n1 /\ firstn nonce_size s2 = n2.
  Proof.
    intros H1 H2 Hne V1 V2.
    apply value_ok_inv in V1 as (_ & _ & p1 & _ & ->).
    apply value_ok_inv in V2 as (_ & _ & p2 & _ & ->).
    assert (F1 : firstn nonce_size (n1 ++ seal (ckey c) n1 p1) = n1)
      by (rewrite <- H1 at 1; apply firstn_app_len).
    assert (F2 : firstn nonce_size (n2 ++ seal (ckey c) n2 p2) = n2)
      by (rewrite <- H2 at 1; apply firstn_app_len).
    split; [|split; assumption].
    intros E. apply Hne. rewrite <- F1, <- F2. now rewrite E.
  Qed.

  (* ---- errors ---- *)
  Lemma set_val_no_panic v m : snd (SetVal v m) <> SPanic.
  Proof.
    destruct v as [b|b|k z|x]; cbn; try discriminate.
    - pose proof (decode_num_no_panic k m). destruct (decode_num k m); cbn; congruence.
    - destruct (json_dec x m) as [x' []]; cbn; discriminate.
  Qed.

  Lemma scan_never_panics_lemma c s : snd (Scan false c s) <> SPanic.
  Proof.
    destruct s as [b|b| |]; cbn; try discriminate;
      unfold scan_data, aes_decrypt;
      (destruct (negb (key_ok (ckey c))); [cbn; discriminate|]);
      (destruct (length b <? nonce_size)%nat; [cbn; discriminate|]);
      (destruct (open _ _ _) as [m|]; [|cbn; discriminate]);
      pose proof (set_val_no_panic (val c) m) as H;
      destruct (SetVal (val c) m) as [v' r]; cbn in *; exact H.
  Qed.

  (* the code before the fix: every input shorter than the nonce panics (valid key) *)
  Lemma scan_pinned_short_panics c s b :
    is_data s b -> key_ok (ckey c) = true -> (length b < nonce_size)%nat ->
    snd (Scan true c s) = SPanic.
  Proof.
    intros Hs Hk Hl. rewrite (scan_is_data _ _ _ _ Hs). unfold scan_data, aes_decrypt.
    rewrite Hk. cbn [negb]. destruct (Nat.ltb_spec (length b) nonce_size); [reflexivity|lia].
  Qed.

  Lemma scan_short_is_error c s b :
    is_data s b -> key_ok (ckey c) = true -> (length b < nonce_size)%nat ->
    Scan false c s = (c, SErr CShort).
  Proof.
    intros Hs Hk Hl. rewrite (scan_is_data _ _ _ _ Hs). unfold scan_data, aes_decrypt.
    rewrite Hk. cbn [negb]. destruct (Nat.ltb_spec (length b) nonce_size); [reflexivity|lia].
  Qed.

  Lemma scan_bad_key c s b :
    is_data s b -> key_ok (ckey c) = false -> Scan false c s = (c, SErr CKeyLen).
  Proof.
    intros Hs Hk. rewrite (scan_is_data _ _ _ _ Hs). unfold scan_data, aes_decrypt.
    now rewrite Hk.
  Qed.

  Lemma scan_wrong_src c s : s = SNil \/ s = SOther -> Scan false c s = (c, SErr CSrcType).
  Proof. intros [->| ->]; reflexivity. Qed.

  (* a successful Scan: the stored bytes are nonce ++ seal key nonce m for some m *)
  Lemma scan_ok_inv : aead_only_seal seal open ->
    forall c s b c', is_data s b -> Scan false c s = (c', SOk) ->
    key_ok (ckey c) = true /\
    exists n m, length n = nonce_size /\ b = n ++ seal (ckey c) n m /\
      SetVal (val c) m = (val c', SOk) /\ valid c' = true /\ ckey c' = ckey c.
  Proof.
    intros HO c s b c' Hs. rewrite (scan_is_data _ _ _ _ Hs). unfold scan_data, aes_decrypt.
    destruct (key_ok (ckey c)); cbn [negb]; [|discriminate].
    destruct (Nat.ltb_spec (length b) nonce_size) as [|Hl]; [discriminate|].
    destruct (open _ _ _) as [m|] eqn:Eo; [|discriminate].
    destruct (SetVal (val c) m) as [v' r] eqn:Es.
    intros E. injection E as <- ->. split; [reflexivity|].
    exists (firstn nonce_size b), m. split; [now apply firstn_length_le|].
    split; [|now cbn].
    rewrite <- (HO _ _ _ _ Eo). symmetry. apply firstn_skipn.
  Qed.

  (* any stored string that is not nonce ++ seal key nonce m is rejected, column untouched *)
  Lemma tampered_is_error_lemma : aead_only_seal seal open ->
    forall c s b, is_data s b ->
    (forall n m, length n = nonce_size -> b <> n ++ seal (ckey c) n m) ->
    exists e, Scan false c s = (c, SErr e) /\ (e = CKeyLen \/ e = CShort \/ e = CAuth).
  Proof.
    intros HO c s b Hs Hno. rewrite (scan_is_data _ _ _ _ Hs). unfold scan_data, aes_decrypt.
    destruct (key_ok (ckey c)); cbn [negb]; [|eauto].
    destruct (Nat.ltb_spec (length b) nonce_size) as [|Hl]; [eauto|].
    destruct (open _ _ _) as [m|] eqn:Eo; [|eauto].
    exfalso. apply (Hno (firstn nonce_size b) m); [now apply firstn_length_le|].
    rewrite <- (HO _ _ _ _ Eo). symmetry. apply firstn_skipn.
  Qed.

  (* anything shorter than nonce + tag is rejected: no AEAD output is that short *)
  Lemma too_short_for_tag_lemma : aead_only_seal seal open -> aead_length seal ->
    forall c s b, is_data s b -> (length b < nonce_size + tag_size)%nat ->
    exists e, Scan false c s = (c, SErr e).
  Proof.
    intros HO HL c s b Hs Hl.
    destruct (tampered_is_error_lemma HO c s b Hs) as (e & E & _); [|eauto].
    intros n m Hn ->. rewrite app_length, HL in Hl. lia.
  Qed.

  (* ideal world (integrity of ciphertexts): only issued ciphertexts open *)
  Lemma unissued_is_error_lemma : aead_int_ctxt open issued ->
    forall c s b, is_data s b ->
    ~ issued (ckey c) (firstn nonce_size b) (skipn nonce_size b) ->
    exists e, Scan false c s = (c, SErr e) /\ (e = CKeyLen \/ e = CShort \/ e = CAuth).
  Proof.
    intros HI c s b Hs Hno. rewrite (scan_is_data _ _ _ _ Hs). unfold scan_data, aes_decrypt.
    destruct (key_ok (ckey c)); cbn [negb]; [|eauto].
    destruct (Nat.ltb_spec (length b) nonce_size) as [|Hl]; [eauto|].
    destruct (open _ _ _) as [m|] eqn:Eo; [|eauto].
    exfalso. apply Hno. eapply HI, Eo.
  Qed.

  (* if stored0 is the only ciphertext ever issued under this key, every other string is rejected *)
  Lemma changed_is_error_lemma : aead_int_ctxt open issued ->
    forall c s stored0 b, is_data s b ->
    (forall n ct, issued (ckey c) n ct -> n ++ ct = stored0) ->
    b <> stored0 ->
    exists e, Scan false c s = (c, SErr e) /\ (e = CKeyLen \/ e = CShort \/ e = CAuth).
  Proof.
    intros HI c s stored0 b Hs Hone Hne.
    apply (unissued_is_error_lemma HI c s b Hs).
    intros Hiss. apply Hne. rewrite <- (Hone _ _ Hiss). symmetry. apply firstn_skipn.
  Qed.

  Lemma truncated_is_error_lemma : aead_int_ctxt open issued ->
    forall c s stored0 l, (l < length stored0)%nat -> is_data s (firstn l stored0) ->
    (forall n ct, issued (ckey c) n ct -> n ++ ct = stored0) ->
    exists e, Scan false c s = (c, SErr e).
  Proof.
    intros HI c s stored0 l Hl Hs Hone.
    destruct (changed_is_error_lemma HI c s stored0 _ Hs Hone) as (e & E & _); [|eauto].
    intros E. apply (f_equal (@length Z)) in E. rewrite firstn_length in E. lia.
  Qed.

  Lemma extended_is_error_lemma : aead_int_ctxt open issued ->
    forall c s stored0 x, x <> [] -> is_data s (stored0 ++ x) ->
    (forall n ct, issued (ckey c) n ct -> n ++ ct = stored0) ->
    exists e, Scan false c s = (c, SErr e).
  Proof.
    intros HI c s stored0 x Hx Hs Hone.
    destruct (changed_is_error_lemma HI c s stored0 _ Hs Hone) as (e & E & _); [|eauto].
    intros E. apply (f_equal (@length Z)) in E. rewrite app_length in E.
    destruct x; [congruence|cbn in E; lia].
  Qed.

  Lemma bitflip_is_error_lemma : aead_int_ctxt open issued ->
    forall c s stored0 i, (i < 8 * length stored0)%nat -> is_data s (flip_bit i stored0) ->
    (forall n ct, issued (ckey c) n ct -> n ++ ct = stored0) ->
    exists e, Scan false c s = (c, SErr e).
  Proof.
    intros HI c s stored0 i Hi Hs Hone.
    destruct (changed_is_error_lemma HI c s stored0 _ Hs Hone) as (e & E & _); [|eauto].
    now apply flip_bit_neq.
  Qed.

  Lemma wrong_key_is_error_lemma : aead_int_ctxt open issued ->
    forall c s b, is_data s b -> (forall n ct, ~ issued (ckey c) n ct) ->
    exists e, Scan false c s = (c, SErr e).
  Proof.
    intros HI c s b Hs Hnone.
    destruct (unissued_is_error_lemma HI c s b Hs (Hnone _ _)) as (e & E & _). eauto.
  Qed.

  (* what the column holds after Scan: Valid = (error == nil) whenever the decryption
     succeeded; on every earlier error the column is untouched *)
  Lemma scan_state_lemma c s c' r : Scan false c s = (c', r) ->
    ckey c' = ckey c /\ same_ty (val c') (val c) = true /\
    match r with
    | SOk => valid c' = true
    | SErr e =>
        (c' = c /\ (e = CSrcType \/ e = CKeyLen \/ e = CShort \/ e = CAuth)) \/
        (valid c' = false /\ (e = CEOF \/ e = CUnexpectedEOF \/ e = CJson))
    | SPanic => False
    end.
  Proof.
    assert (Hrefl : forall v : cval V, same_ty v v = true)
      by (intros [b|b|k z|x]; cbn; try reflexivity; destruct k; reflexivity).
    assert (D : forall b, ScanData false c b = (c', r) ->
      ckey c' = ckey c /\ same_ty (val c') (val c) = true /\
      match r with
      | SOk => valid c' = true
      | SErr e =>
          (c' = c /\ (e = CSrcType \/ e = CKeyLen \/ e = CShort \/ e = CAuth)) \/
          (valid c' = false /\ (e = CEOF \/ e = CUnexpectedEOF \/ e = CJson))
      | SPanic => False
      end).
    { intros b. unfold scan_data, aes_decrypt.
      destruct (key_ok (ckey c)); cbn [negb];
        [|intros E; injection E as <- <-; repeat split; auto].
      destruct (Nat.ltb_spec (length b) nonce_size) as [|Hl];
        [intros E; injection E as <- <-; repeat split; auto 6|].
      destruct (open _ _ _) as [m|];
        [|intros E; injection E as <- <-; repeat split; auto 6].
      destruct (val c) as [b0|b0|k z|x] eqn:Ev; cbn [set_val].
      - intros E; injection E as <- <-; cbn; auto.
      - intros E; injection E as <- <-; cbn; auto.
      - unfold decode_num.
        destruct (length m <? nbytes k)%nat.
        + intros E; injection E as <- <-; cbn. repeat split; [destruct k; reflexivity|].
          right. split; [reflexivity|]. destruct m; auto.
        + intros E; injection E as <- <-; cbn. repeat split. destruct k; reflexivity.
      - destruct (json_dec x m) as [x' [|]]; intros E; injection E as <- <-; cbn;
          [auto|repeat split; right; auto]. }
    destruct s as [b|b| |]; cbn [scan]; try apply D;
      intros E; injection E as <- <-; repeat split; auto 6.
  Qed.

  (* ---- Value() of unusable columns ---- *)
  Lemma value_invalid_lemma n c : valid c = false -> Value n c = CErr CInvalid.
  Proof. intros H. unfold value. now rewrite H. Qed.

  Lemma value_bad_key_lemma n c : valid c = true -> key_ok (ckey c) = false ->
    Value n c = CErr CKeyLen.
  Proof. intros H K. unfold value. now rewrite H, K. Qed.

  (* ---- JsonColumn ---- *)
  Lemma jvalue_invalid_lemma c : jvalid c = false -> JValue c = COk None.
  Proof. intros H. unfold jvalue. now rewrite H. Qed.

  Lemma jscan_nil_lemma c : JScan c SNil = (c, SOk).
  Proof. reflexivity. Qed.

  Lemma json_roundtrip_lemma :
    json_roundtrips V json_enc json_dec zeroV json_rep ->
    forall x c0 s, json_rep x -> jval c0 = zeroV ->
    exists b, JValue {| jval := x; jvalid := true |} = COk (Some b) /\
      (is_data s b -> JScan c0 s = ({| jval := x; jvalid := true |}, SOk)).
  Proof.
    intros HJ x c0 s Hx H0. destruct (HJ x Hx) as (b & Eb & Db).
    exists b. split.
    - unfold jvalue. cbn. now rewrite Eb.
    - intros [->| ->]; cbn [jscan]; unfold jscan_data; now rewrite H0, Db.
  Qed.

  Lemma json_bad_input_lemma c s :
    match s with
    | SOther => JScan c s = (c, SErr CSrcType)
    | SNil => JScan c s = (c, SOk)
    | SBytes b | SString b =>
        forall x', json_dec (jval c) b = (x', false) ->
        JScan c s = ({| jval := x'; jvalid := jvalid c |}, SErr CJson)
    end.
  Proof.
    destruct s as [b|b| |]; cbn [jscan]; try reflexivity;
      intros x' E; unfold jscan_data; now rewrite E.
  Qed.

  Lemma jscan_never_panics_lemma c s : snd (JScan c s) <> SPanic.
  Proof.
    destruct s as [b|b| |]; cbn [jscan]; try (cbn; discriminate);
      unfold jscan_data; destruct (json_dec (jval c) b) as [x' []]; cbn; discriminate.
  Qed.

  Lemma jscan_valid_iff c s c' r : JScan c s = (c', r) ->
    match r with
    | SOk => s = SNil /\ c' = c \/ jvalid c' = true
    | SErr _ => jvalid c' = jvalid c
    | SPanic => False
    end.
  Proof.
    destruct s as [b|b| |]; cbn [jscan]; unfold jscan_data;
      try (destruct (json_dec (jval c) b) as [x' []]);
      intros E; injection E as <- <-; cbn; auto.
  Qed.
End ColumnProofs.
