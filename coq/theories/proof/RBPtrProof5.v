(* Pointer-level red-black tree: the recursive model's deletion / lookup re-expressed along the search path
   (pure lemmas about RBModel only). *)
From Ekit Require Import Common RBModel RBPtrModel RBPtrProof RBPtrProof2.

Section PureDel.
  Variable cmp : Z -> Z -> Z.

  Definition up_del (f : frame) (res : tree * bool) : tree * bool :=
    match f with FL c k v r => upL c res k v r | FR c l k v => upR c l k v res end.
  Fixpoint unwind_del (ctx : list frame) (res : tree * bool) : tree * bool :=
    match ctx with [] => res | f :: rest => unwind_del rest (up_del f res) end.

  Lemma up_del_false f t : up_del f (t, false) = (plug1 f t, false).
  Proof. destruct f; reflexivity. Qed.
  Lemma unwind_del_false ctx t : unwind_del ctx (t, false) = (plug ctx t, false).
  Proof. revert t. induction ctx as [|f rest IH]; intro t; [reflexivity|]. cbn [unwind_del plug]. rewrite up_del_false. apply IH. Qed.
  Lemma unwind_del_app a b res : unwind_del (a ++ b) res = unwind_del b (unwind_del a res).
  Proof. revert res. induction a as [|f a IH]; intro res; [reflexivity|]. cbn [app unwind_del]. apply IH. Qed.

  (* the key found at the hole *)
  Definition here (k k' : Z) : Prop := (cmp k k' <? 0) = false /\ (0 <? cmp k k') = false.

  Lemma del_plug1 k f t : dir_ok cmp k f ->
    del cmp k (plug1 f t) =
      match del cmp k t with
      | None => None
      | Some (t', dv, nf) => let '(t'', nf') := up_del f (t', nf) in Some (t'', dv, nf')
      end.
  Proof.
    intro Hd. destruct f as [c k' v' r|c l k' v']; cbn [plug1 del up_del dir_ok] in *.
    - rewrite Hd. reflexivity.
    - destruct Hd as [H1 H2]. rewrite H1, H2. reflexivity.
  Qed.
  Lemma del_plug k ctx : path_ok cmp k ctx -> forall t,
    del cmp k (plug ctx t) =
      match del cmp k t with
      | None => None
      | Some (t', dv, nf) => let '(t'', nf') := unwind_del ctx (t', nf) in Some (t'', dv, nf')
      end.
  Proof.
    induction 1 as [|f rest Hf Hrest IH]; intro t; cbn [plug unwind_del].
    - destruct (del cmp k t) as [[[t' dv] nf]|]; reflexivity.
    - rewrite IH, (del_plug1 k f t Hf). destruct (del cmp k t) as [[[t' dv] nf]|]; [|reflexivity].
      destruct (up_del f (t', nf)) as [t'' nf']. reflexivity.
  Qed.

  (* del_min walks down left children only *)
  Definition isFL (f : frame) : Prop := match f with FL _ _ _ _ => True | FR _ _ _ _ => False end.
  Lemma del_min_step fc c l k v r fk fv fr :
    del_min (T fc (T c l k v r) fk fv fr) =
      (let '(l', kv, nf) := del_min (T c l k v r) in
       let '(t', nf') := upL fc (l', nf) fk fv fr in (t', kv, nf')).
  Proof. reflexivity. Qed.
  Lemma del_min_plug ctx : Forall isFL ctx -> forall c l k v r,
    del_min (plug ctx (T c l k v r)) =
      (let '(t0, kv, nf0) := del_min (T c l k v r) in
       let '(t', nf) := unwind_del ctx (t0, nf0) in (t', kv, nf)).
  Proof.
    induction 1 as [|f rest Hf Hrest IH]; intros c l k v r; cbn [plug unwind_del].
    - destruct (del_min (T c l k v r)) as [[t0 kv] nf0]. reflexivity.
    - destruct f as [fc fk fv fr|]; [|destruct Hf]. cbn [plug1]. rewrite IH, del_min_step.
      destruct (del_min (T c l k v r)) as [[t0 kv] nf0]. cbn [up_del].
      destruct (upL fc (t0, nf0) fk fv fr) as [t1 nf1]. reflexivity.
  Qed.

  (* deleting the key found at t = T c l k' v' r *)
  Lemma del_here_leaf k c l k' v' r : here k k' -> (l = E \/ r = E) ->
    del cmp k (T c l k' v' r) = (let '(t', nf) := remove_here c l r in Some (t', v', nf)).
  Proof.
    intros [H1 H2] Hlr. cbn [del]. rewrite H1, H2. destruct l as [|lc ll lk lv lr]; [reflexivity|].
    destruct r as [|rc rl rk rv rr]; [reflexivity|]. destruct Hlr; discriminate.
  Qed.
  Lemma del_here_two k c lc ll lk lv lr k' v' ctxm sc sk sv sr :
    here k k' -> Forall isFL ctxm ->
    del cmp k (T c (T lc ll lk lv lr) k' v' (plug ctxm (T sc E sk sv sr))) =
      (let '(t', nf) := unwind_del (ctxm ++ [FR c (T lc ll lk lv lr) sk sv]) (remove_here sc E sr) in Some (t', v', nf)).
  Proof.
    intros [H1 H2] Hm. cbn [del]. rewrite H1, H2.
    assert (Hne : exists rc rl rk rv rr, plug ctxm (T sc E sk sv sr) = T rc rl rk rv rr).
    { clear. revert sc sk sv sr. generalize (@E). intros e. revert e. induction ctxm as [|f m IH]; intros e sc sk sv sr; cbn [plug]; [eauto 6|].
      destruct f; cbn [plug1]; apply IH. }
    destruct Hne as (rc & rl & rk & rv & rr & Hne). rewrite Hne. rewrite <- Hne.
    rewrite (del_min_plug ctxm Hm). cbn [del_min].
    rewrite unwind_del_app. destruct (remove_here sc E sr) as [t0 nf0].
    destruct (unwind_del ctxm (t0, nf0)) as [r' nf]. cbn [unwind_del up_del]. reflexivity.
  Qed.

  (* find / set / cmp_calls along the path *)
  Lemma find_plug k ctx : path_ok cmp k ctx -> forall t, find cmp k (plug ctx t) = find cmp k t.
  Proof.
    induction 1 as [|f rest Hf Hrest IH]; intro t; [reflexivity|]. cbn [plug]. rewrite IH.
    destruct f as [c k' v' r|c l k' v']; cbn [plug1 find dir_ok] in *; [rewrite Hf; reflexivity|].
    destruct Hf as [H1 H2]. rewrite H1, H2. reflexivity.
  Qed.
  Lemma set_plug k v ctx : path_ok cmp k ctx -> forall t,
    set cmp k v (plug ctx t) = match set cmp k v t with Some t' => Some (plug ctx t') | None => None end.
  Proof.
    induction 1 as [|f rest Hf Hrest IH]; intro t; cbn [plug].
    - destruct (set cmp k v t); reflexivity.
    - rewrite IH. destruct f as [c k' v' r|c l k' v']; cbn [plug1 set dir_ok] in *.
      + rewrite Hf. destruct (set cmp k v t); reflexivity.
      + destruct Hf as [H1 H2]. rewrite H1, H2. destruct (set cmp k v t); reflexivity.
  Qed.
End PureDel.
