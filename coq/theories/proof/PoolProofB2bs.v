(* PoolModel (pool.OnDemandBlockTaskPool), proofs for C12 / liveness side of C10 - B2bs: ... preserved by every step *)
From Ekit Require Import Common Conc PoolModel PoolProofB0 PoolProofB1 PoolProofB2d PoolProofB2bd.
From Coq Require Import ZifyBool Arith PeanoNat.

Ltac clQ := unfold pflag; cbn [s_q s_closed s_ictx st_state st_prev st_q st_closed st_ictx st_bw st_br st_gw st_gr st_total st_running st_mp st_gn st_idc pcf int_bad parked_bad pflag g_int g_parked g_snc qempty negb orb bz].
Ltac clQ_all := unfold pflag in *; cbn [s_q s_closed s_ictx st_state st_prev st_q st_closed st_ictx st_bw st_br st_gw st_gr st_total st_running st_mp st_gn st_idc pcf int_bad parked_bad pflag g_int g_parked g_snc qempty negb orb bz] in *.

Lemma invQ_step c e c' : invP c -> invQ c -> pstep_cfg c e = Some c' -> invQ c'.
Proof.
  intros HP [I0 I1] Hstep.
  destruct (step_cases _ _ _ Hstep) as [(t & op & -> & Hl & Hb & -> & _)|(th & o & obs & Hl & Ho & Ha)].
  - constructor; cbn [call_cfg c_thr c_sh]; rewrite tsum_spawn; [rewrite I0|rewrite I1]; unfold enter; destruct op;
      cbn [enter0]; msimp; cbn [int_bad parked_bad g_int g_parked]; break_if; reflexivity.
  - apply (invQ_of_G c e (ev_tid e) th o c' obs Hl Ho Ha).
    pose proof (p_snc c HP) as Psnc.
    pose proof (tsum_ge_lookup (pcf g_snc) _ _ _ (pcf_nonneg _ g_snc_nn) Hl) as N0.
    pose proof (tsum_ge_lookup _ _ _ _ (int_bad_nn (s_ictx (c_sh c))) Hl) as N1.
    pose proof (tsum_ge_lookup _ _ _ _ (parked_bad_nn (pflag (c_sh c))) Hl) as N2.
    pose proof (parked_of_nil (c_thr c)) as Hpk.
    pose proof (tsum_ge_lookup (pcf g_parked) _ _ _ (pcf_nonneg _ g_parked_nn) Hl) as N3.
    clear Ha Hl Hstep HP.
    destruct e as [t op|t ch|t|t|t]; cbn [ev_out ev_tid] in *; [discriminate Ho| | | |];
      generalize dependent (parked_of (c_thr c)); intros pk; intros;
      generalize dependent (c_par c); intros P; intros;
      destruct (c_sh c) as [st pv q cl tot run mp gn bw br gw gr idc ictx];
      cbn [s_q s_closed s_ictx pflag] in *;
      pose proof (bz_range cl) as Rcl;
      [ pstep_split Ho th ch
      | destruct (l_cancel th); [discriminate Ho|injection Ho as <-]
      | destruct (l_tm th); try discriminate Ho; injection Ho as <-; unfold is_parked in *; destruct (pc th) eqn:Hpc
      | destruct (pc th) eqn:Hpc; try discriminate Ho; injection Ho as <- ].
    all: unfold invQ_G; split.
    all: unfold_helpers; msimp; clQ; rewrite ?Hpc; clQ; break_if; msimp; clQ;
      rewrite ?qempty_snoc; clQ; rewrite ?upd_same; try assumption; try exact I.
    all: msimp_all; clQ_all; unfold_helpers; msimp_all; rewrite ?Hpc in *; clQ_all; unfold upd in *.
    all: try (specialize (Hpk eq_refl)).
    all: rewrite ?tsum_parked_bad_false, ?tsum_parked_bad_true, ?tsum_int_bad_true in *; try lia.
    all: first [ destruct cl; clQ_all; rewrite ?tsum_parked_bad_false, ?tsum_parked_bad_true, ?tsum_int_bad_true in *; lia
                    | destruct q; destruct cl; destruct ictx; clQ_all; rewrite ?tsum_parked_bad_false, ?tsum_parked_bad_true, ?tsum_int_bad_true in *; lia
                    | fail ].
Qed.
