(* HeapProof2 — C05, priority-queue half, part 2: every operation of the model is a step of
   the abstract sorted multiset; histories; exactness of the full/empty answers; the
   executable acceptance test of the specification is sound and complete. *)
From Ekit Require Import Common HeapModel HeapProof.
From Coq Require Import Arith Permutation ZifyNat ZifyBool.

Section Spec.
  Variable cmp : Z -> Z -> Z.
  Notation "d @ i" := (nth i d 0) (at level 20).

  (* ---------- facts about the abstract specification ---------- *)

  Lemma abs_step_no_crash : forall c bag o r bag',
    abs_step cmp c bag o r bag' -> r <> HPanic /\ r <> HOutOfFuel.
  Proof. intros c bag o r bag' H. destruct H; split; discriminate. Qed.

  Lemma abs_run_no_crash : forall c bag ops rs bag',
    abs_run cmp c bag ops rs bag' -> Forall (fun r => r <> HPanic /\ r <> HOutOfFuel) rs.
  Proof.
    intros c bag ops rs bag' H. induction H as [|bag o r bag1 ops rs bag2 Hs Hr IH]; constructor.
    - eapply abs_step_no_crash; eassumption.
    - exact IH.
  Qed.

  Lemma abs_run_conservation : forall c bag ops rs bag',
    abs_run cmp c bag ops rs bag' ->
    Permutation (bag' ++ dequeued ops rs) (bag ++ enqueued ops rs).
  Proof.
    intros c bag ops rs bag' H. induction H as [bag|bag o r bag1 ops rs bag2 Hs Hr IH].
    - cbn. apply Permutation_refl.
    - destruct Hs as [v Hpos Hfull|v bag' Hnf Hperm|He|x bag' Hperm Hmin|He|x Hin Hmin|];
        cbn [enqueued dequeued]; try exact IH.
      + eapply perm_trans; [exact IH|].
        eapply perm_trans; [apply Permutation_app_tail; exact Hperm|].
        cbn [app]. apply Permutation_middle.
      + eapply perm_trans; [apply Permutation_sym, Permutation_middle|].
        eapply perm_trans; [apply perm_skip; exact IH|].
        change (x :: bag' ++ enqueued ops rs) with ((x :: bag') ++ enqueued ops rs).
        apply Permutation_app_tail. apply Permutation_sym. exact Hperm.
  Qed.

  Lemma abs_run_bound : forall c bag ops rs bag',
    abs_run cmp c bag ops rs bag' -> 0 < c -> Z.of_nat (length bag) <= c ->
    Z.of_nat (length bag') <= c.
  Proof.
    intros c bag ops rs bag' H Hpos. induction H as [bag|bag o r bag1 ops rs bag2 Hs Hr IH]; intros Hb.
    - exact Hb.
    - apply IH. destruct Hs as [v _ Hfull|v bag' Hnf Hperm|He|x bag' Hperm Hmin|He|x Hin Hmin|];
        try exact Hb.
      + apply Permutation_length in Hperm. cbn [length] in Hperm. lia.
      + apply Permutation_length in Hperm. cbn [length] in Hperm. lia.
  Qed.

  (* the class of every answer is determined by the multiset *)
  Lemma abs_step_full_exact : forall c bag v r bag',
    abs_step cmp c bag (Enqueue v) r bag' ->
    (r = HErr EFull <-> 0 < c /\ Z.of_nat (length bag) = c) /\
    (r = HOk RUnit <-> ~ (0 < c /\ Z.of_nat (length bag) = c)).
  Proof.
    intros c bag v r bag' H. inversion H as [v' Hpos Hfull|v' b' Hnf Hperm| | | | |]; subst.
    - split; split; intros; try tauto; try discriminate; try (exfalso; tauto).
    - split; split; intros; try tauto; try discriminate; try (exfalso; tauto).
  Qed.

  Lemma abs_step_empty_exact : forall c bag o r bag', o = Dequeue \/ o = Peek ->
    abs_step cmp c bag o r bag' ->
    (r = HErr EEmpty <-> bag = []) /\ (bag <> [] -> exists x, r = HOk (RVal x)).
  Proof.
    intros c bag o r bag' Ho H. destruct H as [v Hpos Hfull|v b' Hnf Hperm|He|x b' Hperm Hmin|He|x Hin Hmin|];
      try (destruct Ho; discriminate).
    - split; [tauto|]. intros; contradiction.
    - split; [|intros _; eexists; reflexivity]. split; [discriminate|].
      intros ->. apply Permutation_nil in Hperm. discriminate.
    - split; [tauto|]. intros; contradiction.
    - split; [|intros _; eexists; reflexivity]. split; [discriminate|].
      intros ->. contradiction.
  Qed.

  (* ---------- the executable acceptance test ---------- *)

  Lemma memb_in : forall x l, memb x l = true <-> In x l.
  Proof.
    intros x l. unfold memb. rewrite existsb_exists. split.
    - intros (y & Hy & He). apply Z.eqb_eq in He. subst y. exact Hy.
    - intros H. exists x. split; [exact H|apply Z.eqb_refl].
  Qed.

  Lemma is_minb_iff : forall x l, is_minb cmp x l = true <-> is_min cmp x l.
  Proof.
    intros x l. unfold is_minb, is_min. rewrite forallb_forall. split.
    - intros H y Hy. specialize (H y Hy). lia.
    - intros H y Hy. specialize (H y Hy). lia.
  Qed.

  Lemma remove_one_perm : forall x l, In x l -> Permutation l (x :: remove_one x l).
  Proof.
    intros x l. induction l as [|y t IH]; intros Hin; [contradiction|]. cbn [remove_one].
    destruct (x =? y) eqn:E.
    - apply Z.eqb_eq in E. subst y. apply Permutation_refl.
    - destruct Hin as [->|Hin]; [rewrite Z.eqb_refl in E; discriminate|].
      eapply perm_trans; [apply perm_skip, IH; exact Hin|]. apply perm_swap.
  Qed.

  Lemma abs_fullb_iff : forall c bag,
    abs_fullb c bag = true <-> 0 < c /\ Z.of_nat (length bag) = c.
  Proof. intros c bag. unfold abs_fullb. lia. Qed.

  Lemma abs_stepb_sound : forall c bag o r bag',
    abs_stepb cmp c bag o r = Some bag' -> abs_step cmp c bag o r bag'.
  Proof.
    intros c bag o r bag' H. unfold abs_stepb in H.
    destruct o as [v| | |]; destruct r as [[|x|n]|e| |]; try discriminate.
    - destruct (abs_fullb c bag) eqn:E; [discriminate|]. inversion H; subst.
      apply abs_enq_ok; [|apply Permutation_refl].
      intros Hf. apply abs_fullb_iff in Hf. congruence.
    - destruct e; try discriminate.
      destruct (abs_fullb c bag) eqn:E; [|discriminate]. inversion H; subst.
      apply abs_fullb_iff in E. apply abs_enq_full; tauto.
    - destruct (memb x bag && is_minb cmp x bag) eqn:E; [|discriminate]. inversion H; subst.
      apply andb_prop in E. destruct E as [E1 E2].
      apply abs_deq_ok; [apply remove_one_perm, memb_in; exact E1|apply is_minb_iff; exact E2].
    - destruct e; try discriminate. destruct bag; [|discriminate]. inversion H; subst.
      apply abs_deq_empty. reflexivity.
    - destruct (memb x bag && is_minb cmp x bag) eqn:E; [|discriminate]. inversion H; subst.
      apply andb_prop in E. destruct E as [E1 E2].
      apply abs_peek_ok; [apply memb_in; exact E1|apply is_minb_iff; exact E2].
    - destruct e; try discriminate. destruct bag; [|discriminate]. inversion H; subst.
      apply abs_peek_empty. reflexivity.
    - destruct (n =? Z.of_nat (length bag)) eqn:E; [|discriminate]. inversion H; subst.
      apply Z.eqb_eq in E. subst n. apply abs_len.
  Qed.

  Lemma is_min_perm : forall x l l', Permutation l l' -> is_min cmp x l -> is_min cmp x l'.
  Proof.
    intros x l l' Hp H y Hy. apply H. eapply Permutation_in; [apply Permutation_sym; exact Hp|exact Hy].
  Qed.

  (* completeness up to Permutation of the bag: whatever the specification accepts from a
     bag, the test accepts from any arrangement of that bag, reaching an arrangement of the
     specification's next bag *)
  Lemma abs_stepb_complete : forall c bag o r bag1 bagP,
    abs_step cmp c bag o r bag1 -> Permutation bag bagP ->
    exists bag2, abs_stepb cmp c bagP o r = Some bag2 /\ Permutation bag1 bag2.
  Proof.
    intros c bag o r bag1 bagP H Hp. pose proof (Permutation_length Hp) as Hl.
    destruct H as [v Hpos Hfull|v b' Hnf Hperm|He|x b' Hperm Hmin|He|x Hin Hmin|]; cbn [abs_stepb].
    - replace (abs_fullb c bagP) with true by (symmetry; apply abs_fullb_iff; lia).
      exists bagP. split; [reflexivity|exact Hp].
    - destruct (abs_fullb c bagP) eqn:E; [apply abs_fullb_iff in E; exfalso; apply Hnf; lia|].
      exists (v :: bagP). split; [reflexivity|].
      eapply perm_trans; [exact Hperm|]. apply perm_skip. exact Hp.
    - subst bag. apply Permutation_nil in Hp. subst bagP. exists []. split; [reflexivity|apply Permutation_refl].
    - assert (Hin : In x bagP).
      { eapply Permutation_in; [exact Hp|]. eapply Permutation_in; [apply Permutation_sym; exact Hperm|]. left; reflexivity. }
      replace (memb x bagP) with true by (symmetry; apply memb_in; exact Hin).
      replace (is_minb cmp x bagP) with true
        by (symmetry; apply is_minb_iff; eapply is_min_perm; eassumption).
      cbn [andb]. exists (remove_one x bagP). split; [reflexivity|].
      apply Permutation_cons_inv with (a := x).
      eapply perm_trans; [apply Permutation_sym; exact Hperm|].
      eapply perm_trans; [exact Hp|]. apply remove_one_perm. exact Hin.
    - subst bag. apply Permutation_nil in Hp. subst bagP. exists []. split; [reflexivity|apply Permutation_refl].
    - replace (memb x bagP) with true
        by (symmetry; apply memb_in; eapply Permutation_in; eassumption).
      replace (is_minb cmp x bagP) with true
        by (symmetry; apply is_minb_iff; eapply is_min_perm; eassumption).
      cbn [andb]. exists bagP. split; [reflexivity|exact Hp].
    - rewrite Hl, Z.eqb_refl. exists bagP. split; [reflexivity|exact Hp].
  Qed.

  Lemma abs_first_reject_complete : forall c ops rs bag bag' bagP k,
    abs_run cmp c bag ops rs bag' -> Permutation bag bagP ->
    abs_first_reject cmp c bagP ops rs k = None.
  Proof.
    intros c ops rs bag bag' bagP k H. revert bagP k.
    induction H as [bag|bag o r bag1 ops rs bag2 Hs Hr IH]; intros bagP k Hp; cbn [abs_first_reject].
    - reflexivity.
    - destruct (abs_stepb_complete c bag o r bag1 bagP Hs Hp) as (b2 & Hb & Hp2).
      rewrite Hb. apply IH. exact Hp2.
  Qed.

  Lemma abs_first_reject_sound : forall c ops rs bag k, length ops = length rs ->
    abs_first_reject cmp c bag ops rs k = None -> exists bag', abs_run cmp c bag ops rs bag'.
  Proof.
    intros c ops. induction ops as [|o t IH]; intros rs bag k Hl H.
    - destruct rs; [|discriminate]. eexists. apply abs_run_nil.
    - destruct rs as [|r rt]; [discriminate|]. cbn [abs_first_reject] in H.
      destruct (abs_stepb cmp c bag o r) as [b1|] eqn:E; [|discriminate].
      cbn [length] in Hl. destruct (IH rt b1 (S k)) as (b2 & Hr); [lia|exact H|].
      exists b2. eapply abs_run_cons; [apply abs_stepb_sound; exact E|exact Hr].
  Qed.

  (* the boolean heap order is the heap order *)
  Lemma heap_invb_iff : forall d, heap_invb cmp d = true <-> heap_inv cmp d.
  Proof.
    intros d. unfold heap_invb, heap_inv. rewrite forallb_forall. split.
    - intros H i Hi. specialize (H i). rewrite in_seq in H.
      assert (Hb : (i <? 2)%nat || (cmp (d @ (i / 2)) (d @ i) <=? 0) = true) by (apply H; lia).
      apply orb_prop in Hb. destruct Hb as [Hb|Hb]; lia.
    - intros H i Hi. rewrite in_seq in Hi. destruct (i <? 2)%nat eqn:E; [reflexivity|].
      cbn [orb]. assert (cmp (d @ (i / 2)) (d @ i) <= 0) by (apply H; lia). lia.
  Qed.

End Spec.

Section Proofs2.
  Variable cmp : Z -> Z -> Z.
  Hypothesis cmp_total : forall x y, 0 <= cmp x y -> cmp y x <= 0.
  Hypothesis cmp_trans : forall x y z, cmp x y <= 0 -> cmp y z <= 0 -> cmp x z <= 0.

  Notation "d @ i" := (nth i d 0) (at level 20).

  (* the stored capacity is the constructor's argument, normalised *)
  Definition cap_rel (c : Z) (p : pq) : Prop := capacity p = if c <? 1 then 0 else c.

  Lemma new_pq_wf : forall c, well_formed cmp (new_pq c) /\ cap_rel c (new_pq c) /\ contents (new_pq c) = [].
  Proof.
    intros c. unfold new_pq, well_formed, cap_rel, contents, pq_len. cbn [data capacity length tl].
    split; [|split; reflexivity].
    split; [lia|]. split; [intros i Hi; cbn [length] in Hi; lia|].
    destruct (c <? 1) eqn:E; lia.
  Qed.

  Lemma full_iff : forall c p, (1 <= length (data p))%nat -> cap_rel c p ->
    (is_full p = true <-> 0 < c /\ Z.of_nat (length (contents p)) = c).
  Proof.
    intros c p Hl Hc. rewrite (contents_length p Hl). unfold is_full, pq_len, cap_rel in *.
    destruct (c <? 1) eqn:E; lia.
  Qed.

  Lemma empty_iff : forall p, (1 <= length (data p))%nat ->
    (is_empty p = true <-> contents p = []).
  Proof.
    intros p Hl. unfold is_empty, contents.
    destruct (data p) as [|a [|b t]]; cbn [length tl] in *; split; intros H; try lia; try reflexivity; try discriminate.
  Qed.

  Lemma tl_nth1_in : forall d : list Z, (2 <= length d)%nat -> In (d @ 1) (tl d).
  Proof.
    intros d Hl. destruct d as [|a [|b t]]; cbn [length] in Hl; try lia. cbn. left. reflexivity.
  Qed.

  (* one step of the model is one step of the abstract multiset, and keeps the invariant *)
  Lemma step_refines : forall c p o, well_formed cmp p -> cap_rel c p ->
    let p' := fst (step cmp p o) in
    abs_step cmp c (contents p) o (snd (step cmp p o)) (contents p') /\
    well_formed cmp p' /\ cap_rel c p'.
  Proof.
    intros c p o Hwf Hc. pose proof Hwf as (Hlen & Hinv & Hcap & Hbound).
    destruct o as [v| | |]; cbn [step].
    - destruct (enqueue_spec cmp cmp_total cmp_trans p v Hwf)
        as [(Hf & He)|(Hf & d' & He & Hwf' & Hperm & Hz)]; rewrite He; cbn [fst snd].
      + split; [|split; assumption]. apply (full_iff c p Hlen Hc) in Hf. apply abs_enq_full; tauto.
      + split; [|split; [exact Hwf'|exact Hc]].
        apply abs_enq_ok.
        * intros Hfull. apply (full_iff c p Hlen Hc) in Hfull. congruence.
        * unfold contents. cbn [data].
          assert (Hp2 : Permutation (tl d') (tl (data p ++ [v]))).
          { apply perm_tl; [exact Hperm| |].
            - rewrite Hz. rewrite app_nth1 by lia. reflexivity.
            - destruct Hwf' as (Hl' & _). exact Hl'. }
          eapply perm_trans; [exact Hp2|].
          destruct (data p) as [|a t]; [cbn in Hlen; lia|]. cbn [app tl].
          apply Permutation_sym, Permutation_cons_append.
    - destruct (dequeue_spec cmp cmp_total cmp_trans p Hwf)
        as [(Hf & He)|(Hf & d' & He & Hwf' & Hperm & Hz)]; rewrite He; cbn [fst snd].
      + split; [|split; assumption]. apply abs_deq_empty. apply (empty_iff p Hlen). exact Hf.
      + split; [|split; [exact Hwf'|exact Hc]].
        apply abs_deq_ok.
        * unfold contents. cbn [data].
          destruct Hwf' as (Hl' & _). cbn [data] in Hl'.
          destruct (data p) as [|a t] eqn:Ed; [cbn in Hlen; lia|].
          destruct d' as [|a' t']; [cbn in Hl'; lia|].
          cbn [nth] in Hz. subst a'. cbn [tl].
          apply Permutation_cons_inv with (a := a).
          eapply perm_trans; [exact Hperm|]. apply perm_swap.
        * unfold contents. apply (root_is_min_contents cmp cmp_total cmp_trans). exact Hinv.
    - destruct (peek_spec cmp p Hwf) as [(Hf & He)|(Hf & He)]; rewrite He; cbn [fst snd].
      + split; [|split; assumption]. apply abs_peek_empty. apply (empty_iff p Hlen). exact Hf.
      + split; [|split; assumption]. apply abs_peek_ok.
        * unfold contents. apply tl_nth1_in. unfold is_empty in Hf. lia.
        * unfold contents. apply (root_is_min_contents cmp cmp_total cmp_trans). exact Hinv.
    - cbn [fst snd]. split; [|split; assumption].
      rewrite <- (contents_length p Hlen). apply abs_len.
  Qed.

  Lemma run_refines : forall c ops p, well_formed cmp p -> cap_rel c p ->
    abs_run cmp c (contents p) ops (snd (run cmp p ops)) (contents (fst (run cmp p ops))) /\
    well_formed cmp (fst (run cmp p ops)).
  Proof.
    intros c ops. induction ops as [|o t IH]; intros p Hwf Hc; cbn [run].
    - cbn [fst snd]. split; [apply abs_run_nil|exact Hwf].
    - destruct (step_refines c p o Hwf Hc) as (Habs & Hwf' & Hc').
      destruct (step cmp p o) as [p1 r] eqn:Es. cbn [fst snd] in *.
      destruct (IH p1 Hwf' Hc') as (Hrun & Hwf2).
      destruct (run cmp p1 t) as [p2 rs] eqn:Er. cbn [fst snd] in *.
      split; [|exact Hwf2]. eapply abs_run_cons; eassumption.
  Qed.

  Lemma reachable_wf : forall c p, reachable cmp c p -> well_formed cmp p /\ cap_rel c p.
  Proof.
    intros c p Hr. induction Hr as [|p o Hr [Hwf Hc]].
    - destruct (new_pq_wf c) as (H1 & H2 & _). split; assumption.
    - destruct (step_refines c p o Hwf Hc) as (_ & H1 & H2). split; assumption.
  Qed.

  (* ---------- top-level lemmas (statements re-exported by props/C05.v) ---------- *)

  Lemma step_preserves_wf_lemma : forall p o, well_formed cmp p -> well_formed cmp (fst (step cmp p o)).
  Proof.
    intros p o Hwf.
    (* any p is cap_rel to its own capacity when that is >= 0 *)
    destruct Hwf as (Hlen & Hinv & Hcap & Hbound).
    assert (Hc : cap_rel (capacity p) p).
    { unfold cap_rel. destruct (capacity p <? 1) eqn:E; lia. }
    destruct (step_refines (capacity p) p o (conj Hlen (conj Hinv (conj Hcap Hbound))) Hc) as (_ & H & _).
    exact H.
  Qed.

  Lemma reachable_heap_inv_lemma : forall c p, reachable cmp c p ->
    heap_inv cmp (data p) /\ (1 <= length (data p))%nat.
  Proof.
    intros c p Hr. destruct (reachable_wf c p Hr) as ((Hlen & Hinv & _) & _). split; assumption.
  Qed.

  Lemma pq_refines_lemma : forall c ops,
    abs_run cmp c [] ops (snd (run cmp (new_pq c) ops)) (contents (fst (run cmp (new_pq c) ops))).
  Proof.
    intros c ops. destruct (new_pq_wf c) as (Hwf & Hc & He).
    destruct (run_refines c ops (new_pq c) Hwf Hc) as (H & _). rewrite He in H. exact H.
  Qed.

  Lemma pq_step_refines_lemma : forall c p o, reachable cmp c p ->
    abs_step cmp c (contents p) o (snd (step cmp p o)) (contents (fst (step cmp p o))).
  Proof.
    intros c p o Hr. destruct (reachable_wf c p Hr) as (Hwf & Hc).
    destruct (step_refines c p o Hwf Hc) as (H & _). exact H.
  Qed.

  Lemma pq_conservation_lemma : forall c ops,
    let rs := snd (run cmp (new_pq c) ops) in
    Permutation (contents (fst (run cmp (new_pq c) ops)) ++ dequeued ops rs) (enqueued ops rs).
  Proof.
    intros c ops rs. apply (abs_run_conservation cmp c [] ops rs). apply pq_refines_lemma.
  Qed.

  Lemma pq_len_le_capacity_lemma : forall c p, reachable cmp c p -> 0 < c -> pq_len p <= c.
  Proof.
    intros c p Hr Hpos. destruct (reachable_wf c p Hr) as ((_ & _ & _ & Hb) & Hc).
    unfold cap_rel in Hc. destruct (c <? 1) eqn:E; lia.
  Qed.

  Lemma pq_full_exact_lemma : forall c p v, reachable cmp c p ->
    (snd (step cmp p (Enqueue v)) = HErr EFull <-> 0 < c /\ pq_len p = c) /\
    (snd (step cmp p (Enqueue v)) = HOk RUnit <-> ~ (0 < c /\ pq_len p = c)).
  Proof.
    intros c p v Hr. pose proof (pq_step_refines_lemma c p (Enqueue v) Hr) as H.
    destruct (reachable_wf c p Hr) as ((Hlen & _) & _).
    rewrite <- (contents_length p Hlen). eapply abs_step_full_exact. exact H.
  Qed.

  Lemma pq_empty_exact_lemma : forall c p o, reachable cmp c p -> o = Dequeue \/ o = Peek ->
    (snd (step cmp p o) = HErr EEmpty <-> pq_len p = 0) /\
    (pq_len p <> 0 -> exists x, snd (step cmp p o) = HOk (RVal x)).
  Proof.
    intros c p o Hr Ho. pose proof (pq_step_refines_lemma c p o Hr) as H.
    destruct (reachable_wf c p Hr) as ((Hlen & _) & _).
    destruct (abs_step_empty_exact cmp _ _ _ _ _ Ho H) as (H1 & H2).
    assert (Hz : pq_len p = 0 <-> contents p = []).
    { rewrite <- (contents_length p Hlen). destruct (contents p); cbn [length]; split; intros; try lia; try reflexivity; discriminate. }
    split; [rewrite Hz; exact H1|]. intros Hne. apply H2. intros He. apply Hne. apply Hz. exact He.
  Qed.

  Lemma pq_min_lemma : forall c p o x, reachable cmp c p -> o = Dequeue \/ o = Peek ->
    snd (step cmp p o) = HOk (RVal x) ->
    In x (contents p) /\ is_min cmp x (contents p) /\
    (o = Dequeue -> Permutation (contents p) (x :: contents (fst (step cmp p o)))) /\
    (o = Peek -> fst (step cmp p o) = p).
  Proof.
    intros c p o x Hr Ho Hx. pose proof (pq_step_refines_lemma c p o Hr) as H.
    rewrite Hx in H. destruct Ho as [-> | ->].
    - inversion H as [| | |x' b' Hperm Hmin| | |]; subst.
      split; [|split; [exact Hmin|split; [intros _; exact Hperm|discriminate]]].
      eapply Permutation_in; [apply Permutation_sym; exact Hperm|left; reflexivity].
    - inversion H as [| | | | |x' Hin Hmin|]; subst.
      split; [exact Hin|split; [exact Hmin|split; [discriminate|reflexivity]]].
  Qed.

  Lemma pq_never_crashes_lemma : forall c ops,
    Forall (fun r => r <> HPanic /\ r <> HOutOfFuel) (snd (run cmp (new_pq c) ops)).
  Proof. intros c ops. eapply abs_run_no_crash. apply pq_refines_lemma. Qed.
End Proofs2.

(* ---------- the comparator families of the harness satisfy the laws ---------- *)

Lemma hcmp_asc_total : forall x y, 0 <= hcmp_asc x y -> hcmp_asc y x <= 0.
Proof. intros x y. unfold hcmp_asc. lia. Qed.
Lemma hcmp_asc_trans : forall x y z, hcmp_asc x y <= 0 -> hcmp_asc y z <= 0 -> hcmp_asc x z <= 0.
Proof. intros x y z. unfold hcmp_asc. lia. Qed.
Lemma hcmp_desc_total : forall x y, 0 <= hcmp_desc x y -> hcmp_desc y x <= 0.
Proof. intros x y. unfold hcmp_desc. lia. Qed.
Lemma hcmp_desc_trans : forall x y z, hcmp_desc x y <= 0 -> hcmp_desc y z <= 0 -> hcmp_desc x z <= 0.
Proof. intros x y z. unfold hcmp_desc. lia. Qed.
Lemma hcmp_mod3_total : forall x y, 0 <= hcmp_mod3 x y -> hcmp_mod3 y x <= 0.
Proof. intros x y. unfold hcmp_mod3. generalize (x mod 3) (y mod 3). intros a b. lia. Qed.
Lemma hcmp_mod3_trans : forall x y z, hcmp_mod3 x y <= 0 -> hcmp_mod3 y z <= 0 -> hcmp_mod3 x z <= 0.
Proof. intros x y z. unfold hcmp_mod3. generalize (x mod 3) (y mod 3) (z mod 3). intros a b c0. lia. Qed.
