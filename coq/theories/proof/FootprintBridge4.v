(* FootprintBridge4.v — C15 bridge, part 4: queue.ConcurrentLinkedQueue (interleaving model CLQModel.v).

   THE TRACE.  clq_trace maps every step of a model run to the HB events (lib/HB.v) of the Go statement:
     newNode := &node[T]{val: t}                         Write  ("node.val", y)     y = the fresh heap cell
     atomic.LoadPointer(&c.head / &c.tail)               ARead  head / tail
     atomic.LoadPointer(&tail.next / &head.next)         ARead  ("node.next", x)    x = the node dereferenced
     atomic.CompareAndSwapPointer(...)  successful       ARmw   of the location
                                        failed           ARead  of the location (a failed CAS publishes
                                                         nothing: FEWER happens-before edges than HB.v's
                                                         blanket ARmw, so the theorem is stronger)
     return headNext.val, nil                            Read   ("node.val", y)
   A nil dereference (model observation QPanic) emits nothing: the faulting access does not happen.
   Location instances = heap addresses of the model (node i).

   THE PUBLICATION INVARIANT ([SInv], [thr_inv]; ghost [st : node -> status], never read by the model):
     NFresh          not allocated: no access to its val in the trace;
     NLocal t        allocated by t, not linked: the only access to its val is t's initialising write,
                     no next field holds its address, no local headNextPtr / headNext of any call does;
     NPub t r x      linked by t's successful CAS on ("node.next", x) at trace index r: the write of val
                     is t's, before r; every read of val comes after r and is made by a thread that
                     (is t or) performed, before the read, an atomic load q of ("node.next", x) with
                     r synchronises-with q (HB.sw: atomic RMW -> later atomic load of the same location;
                     this is the reads-from edge: the load that returned the node's address is later in
                     the sequentially consistent order than the CAS that stored it).
   Whenever some next field holds the address of y, y is NPub _ _ x for exactly that field x; a call's
   local headNextPtr / headNext = &y implies the calling thread has SEEN y's publication.
   lib/HB.v already has the needed synchronises-with edge for atomics (no extension was necessary).

   RESULTS, for EVERY event list accepted from clq_init:
     clq_trace_drf_lemma      wf, instances of clq_table, no data race;
     clq_val_handoff_lemma    the write of node.val by the enqueuer happens-before every read of it
                              (the publication clause of C15 for this queue);
     clq_guards_lemma         [guards_respected clq_table] (with the publication map computed from the
                              final status) whenever no allocated node is still unlinked — for a node
                              that is allocated but not yet linked the GPubBefore clause of
                              FootprintModel.guard_ok asks for a publishing event that does not exist yet. *)
From Coq Require Import List String Bool Arith Lia ZArith.
From Ekit Require Import Common FootprintModel FootprintProof C15Bridge C15Bridge2 Conc CLQModel FootprintBridge3.
From Ekit Require Import HB.
Import ListNotations.
Open Scope string_scope.
Open Scope nat_scope.
Open Scope list_scope.

Definition Q_HEAD : name := lname "ConcurrentLinkedQueue.head".
Definition Q_TAIL : name := lname "ConcurrentLinkedQueue.tail".
Definition Q_NEXT (x : nat) : name := ("node.next", x).
Definition Q_VAL (y : nat) : name := ("node.val", y).

Definition acts_CLQ (c : clq_cfg) (l : clq_loc) : list action :=
  match q_pc l with
  | EnqNewNode => [Write (Q_VAL (List.length (q_vals c)))]
  | EnqLoadTail | DeqLoadTail => [ARead Q_TAIL]
  | EnqLoadNext =>
      match q_tailL l, node_next (q_nexts c) (q_tailL l) with
      | Some x, Some _ => [ARead (Q_NEXT x)]
      | _, _ => []
      end
  | EnqLinkCAS =>
      match q_tailL l, node_next (q_nexts c) (q_tailL l) with
      | Some x, Some cur => if ptr_eqb cur (q_tailNext l) then [ARmw (Q_NEXT x)] else [ARead (Q_NEXT x)]
      | _, _ => []
      end
  | EnqTailCAS => if ptr_eqb (q_tail c) (q_tailPtr l) then [ARmw Q_TAIL] else [ARead Q_TAIL]
  | DeqLoadHead => [ARead Q_HEAD]
  | DeqLoadNext =>
      match q_headL l, node_next (q_nexts c) (q_headL l) with
      | Some x, Some _ => [ARead (Q_NEXT x)]
      | _, _ => []
      end
  | DeqCASHead => if ptr_eqb (q_head c) (q_headPtr l) then [ARmw Q_HEAD] else [ARead Q_HEAD]
  | DeqRetVal =>
      match q_headNext l, node_val (q_vals c) (q_headNext l) with
      | Some y, Some _ => [Read (Q_VAL y)]
      | _, _ => []
      end
  | _ => []
  end.

Definition clq_emit (c : clq_cfg) (e : clq_ev) : list HB.event :=
  match e with
  | QStep t => match Conc.lookup t (q_thr c) with
               | Some l => map (mkEv t) (acts_CLQ c l)
               | None => []
               end
  | _ => []
  end.

Definition clq_trace (evs : list clq_ev) : execution :=
  trace clq_cfg clq_ev clq_step clq_emit clq_init evs.

(* ---------- small list / thread-table facts ---------- *)
Lemma b4_set_nth_nth {A} (l : list A) i j a b :
  nth_error (set_nth l i a) j = Some b -> (i = j /\ b = a) \/ (i <> j /\ nth_error l j = Some b).
Proof.
  revert i j. induction l as [|x r IH]; intros [|i] [|j] H; cbn in H; try discriminate H.
  - injection H as <-. now left.
  - right. split; [discriminate|exact H].
  - right. split; [discriminate|exact H].
  - destruct (IH i j H) as [[-> ->]|[Hne Hn]]; [now left|right]. split; [congruence|exact Hn].
Qed.

Lemma b4_nth_snoc {A} (l : list A) a j b :
  nth_error (l ++ [a]) j = Some b -> nth_error l j = Some b \/ (j = List.length l /\ b = a).
Proof.
  intros H. destruct (lt_dec j (List.length l)) as [Hlt|Hge].
  - left. now rewrite nth_error_app1 in H.
  - rewrite nth_error_app2 in H by lia. destruct (j - List.length l) as [|k] eqn:E.
    + cbn in H. injection H as <-. right. split; [lia|reflexivity].
    + cbn in H. destruct k; discriminate H.
Qed.

Section Tbl.
  Variable pc : Type.
  Implicit Types l : list (nat * pc).
  Lemma b4_lookup_update t2 t p l q :
    Conc.lookup t2 (Conc.update t p l) = Some q ->
    (t2 = t /\ q = p) \/ (t2 <> t /\ Conc.lookup t2 l = Some q).
  Proof.
    induction l as [|[t' p'] r IH]; cbn [Conc.update Conc.lookup]; [discriminate|].
    destruct (Nat.eqb t t') eqn:E.
    - apply Nat.eqb_eq in E. subst t'. cbn [Conc.lookup]. destruct (Nat.eqb t2 t) eqn:E2.
      + apply Nat.eqb_eq in E2. intros H. injection H as <-. now left.
      + apply Nat.eqb_neq in E2. intros H. now right.
    - cbn [Conc.lookup]. destruct (Nat.eqb t2 t') eqn:E2.
      + apply Nat.eqb_eq in E2. subst t'. intros H. right. split; [|exact H].
        intros ->. rewrite Nat.eqb_refl in E. discriminate.
      + exact IH.
  Qed.
  Lemma b4_lookup_remove t2 t l q :
    NoDup (Conc.tids l) -> Conc.lookup t2 (Conc.remove t l) = Some q -> t2 <> t /\ Conc.lookup t2 l = Some q.
  Proof.
    induction l as [|[t' p'] r IH]; cbn [Conc.remove Conc.lookup Conc.tids map fst]; [discriminate|].
    intros Hnd. inversion Hnd as [|a b Hn Hr]; subst.
    destruct (Nat.eqb t t') eqn:E.
    - apply Nat.eqb_eq in E. subst t'. intros H. destruct (Nat.eqb t2 t) eqn:E2.
      + apply Nat.eqb_eq in E2. subst t2. exfalso.
        assert (Hx : Conc.lookup t r = None) by (apply Conc.lookup_none_not_in; exact Hn). congruence.
      + apply Nat.eqb_neq in E2. split; [exact E2|exact H].
    - cbn [Conc.lookup]. destruct (Nat.eqb t2 t') eqn:E2.
      + apply Nat.eqb_eq in E2. subst t'. intros H. split; [|exact H].
        intros ->. rewrite Nat.eqb_refl in E. discriminate.
      + apply IH. exact Hr.
  Qed.
  Lemma b4_lookup_spawn t2 t p l q :
    Conc.lookup t2 (Conc.spawn t p l) = Some q -> Conc.lookup t2 l = Some q \/ (t2 = t /\ q = p).
  Proof.
    unfold Conc.spawn. induction l as [|[t' p'] r IH]; cbn [Conc.lookup app].
    - destruct (Nat.eqb t2 t) eqn:E; [|discriminate]. apply Nat.eqb_eq in E. intros H. injection H as <-. now right.
    - destruct (Nat.eqb t2 t'); [now left|exact IH].
  Qed.
End Tbl.
Arguments b4_lookup_update {pc}. Arguments b4_lookup_remove {pc}. Arguments b4_lookup_spawn {pc}.

Lemma ev_at_app_inv (tr es : list HB.event) i ev :
  ev_at (tr ++ es) i ev -> ev_at tr i ev \/ (List.length tr <= i /\ ev_at es (i - List.length tr) ev).
Proof.
  unfold ev_at. intros H. destruct (lt_dec i (List.length tr)) as [Hlt|Hge].
  - left. now rewrite nth_error_app1 in H.
  - right. split; [lia|]. now rewrite nth_error_app2 in H by lia.
Qed.

Lemma ev_at_single (ev0 : HB.event) k ev : ev_at [ev0] k ev -> k = 0 /\ ev = ev0.
Proof. unfold ev_at. destruct k as [|k]; cbn; [intros H; injection H as <-; now split|destruct k; discriminate]. Qed.

(* ---------- the publication invariant ---------- *)
Inductive nst := NFresh | NLocal (t : nat) | NPub (t : nat) (r : nat) (x : nat).

Definition st_upd (st : nat -> nst) (y : nat) (s : nst) : nat -> nst :=
  fun z => if Nat.eqb z y then s else st z.

Lemma st_upd_same st y s : st_upd st y s y = s.
Proof. unfold st_upd. now rewrite Nat.eqb_refl. Qed.
Lemma st_upd_other st y s z : z <> y -> st_upd st y s z = st z.
Proof. unfold st_upd. intros H. apply Nat.eqb_neq in H. now rewrite H. Qed.

(* an access to the val of a published node: the creator's write before r, or a read after r by a thread
   that is the creator or has acquired (atomic load q of the link field, r synchronises-with q) *)
Definition pub_acc (tr : execution) (t r i : nat) (ev : HB.event) (w : bool) : Prop :=
  (w = true /\ tid ev = t /\ i < r) \/
  (w = false /\ r < i /\
   (tid ev = t \/ exists q evq, q < i /\ ev_at tr q evq /\ tid evq = tid ev /\ sw tr r q)).

Lemma pub_acc_app tr es t r i ev w : pub_acc tr t r i ev w -> pub_acc (tr ++ es) t r i ev w.
Proof.
  intros [H|(Hw & Hr & [Ht|(q & evq & Hq & Hevq & Htq & Hsw)])]; [now left|right; now auto|].
  right. split; [exact Hw|]. split; [exact Hr|]. right. exists q, evq.
  split; [exact Hq|]. split; [now apply ev_at_app_intro|]. split; [exact Htq|now apply sw_app].
Qed.

Record SInv (vals : list Z) (nexts : list ptr) (tr : execution) (st : nat -> nst) : Prop := {
  si_hi : forall y, List.length vals <= y -> st y = NFresh;
  si_fresh : forall y, st y = NFresh ->
    forall i ev w a, ev_at tr i ev -> access_of (act ev) <> Some (Q_VAL y, w, a);
  si_local : forall y t, st y = NLocal t ->
    forall i ev w a, ev_at tr i ev -> access_of (act ev) = Some (Q_VAL y, w, a) -> tid ev = t /\ w = true;
  si_pub : forall y t r x, st y = NPub t r x ->
    ev_at tr r (mkEv t (ARmw (Q_NEXT x))) /\
    forall i ev w a, ev_at tr i ev -> access_of (act ev) = Some (Q_VAL y, w, a) -> pub_acc tr t r i ev w;
  si_next : forall x y, nth_error nexts x = Some (Some y) -> exists t r, st y = NPub t r x
}.

(* thread t' has seen the publication of node y *)
Definition seen (tr : execution) (st : nat -> nst) (y t' : nat) : Prop :=
  exists t r x, st y = NPub t r x /\
    (t' = t \/ exists q evq, ev_at tr q evq /\ tid evq = t' /\ sw tr r q).

Definition own_inv (st : nat -> nst) (t : nat) (l : clq_loc) : Prop :=
  match q_pc l with
  | EnqNewPtr => exists y, q_newNode l = Some y /\ st y = NLocal t
  | EnqFor | EnqLoadTail | EnqTail | EnqLoadNext | EnqIfNext | EnqContinue | EnqLinkCAS =>
      exists y, q_newPtr l = Some y /\ st y = NLocal t
  | _ => True
  end.

Definition thr_inv (tr : execution) (st : nat -> nst) (t : nat) (l : clq_loc) : Prop :=
  own_inv st t l /\
  (forall y, q_headNextPtr l = Some y -> seen tr st y t) /\
  (forall y, q_headNext l = Some y -> seen tr st y t).

Definition TInv (thr : list (nat * clq_loc)) (tr : execution) (st : nat -> nst) : Prop :=
  NoDup (Conc.tids thr) /\ forall t l, Conc.lookup t thr = Some l -> thr_inv tr st t l.

Definition no_val (es : list HB.event) : Prop :=
  forall ev, In ev es -> forall y w a, access_of (act ev) <> Some (Q_VAL y, w, a).

Definition pub_pres (st st' : nat -> nst) : Prop :=
  forall y t r x, st y = NPub t r x -> st' y = NPub t r x.
Definition loc_pres (t' : nat) (st st' : nat -> nst) : Prop :=
  forall y, st y = NLocal t' -> st' y = NLocal t'.

Lemma seen_mono tr es st st' y t' : pub_pres st st' -> seen tr st y t' -> seen (tr ++ es) st' y t'.
Proof.
  intros Hp (t & r & x & Hst & Hs). exists t, r, x. split; [now apply Hp|].
  destruct Hs as [Ht|(q & evq & Hevq & Htq & Hsw)]; [now left|right].
  exists q, evq. split; [now apply ev_at_app_intro|]. split; [exact Htq|now apply sw_app].
Qed.

Lemma own_inv_mono st st' t l : loc_pres t st st' -> own_inv st t l -> own_inv st' t l.
Proof.
  intros Hl. unfold own_inv. destruct (q_pc l); try exact (fun H => H);
    intros (y & Hy & Hst); exists y; (split; [exact Hy|now apply Hl]).
Qed.

Lemma thr_inv_mono tr es st st' t l :
  pub_pres st st' -> loc_pres t st st' -> thr_inv tr st t l -> thr_inv (tr ++ es) st' t l.
Proof.
  intros Hp Hl (Ho & H1 & H2). split; [now apply (own_inv_mono st)|].
  split; intros y Hy; apply (seen_mono tr es st); auto.
Qed.

(* the stepping thread: new local l', the two "seen" locals unchanged *)
Lemma thr_inv_step tr es st st' t l l' :
  pub_pres st st' -> thr_inv tr st t l ->
  q_headNextPtr l' = q_headNextPtr l -> q_headNext l' = q_headNext l ->
  own_inv st' t l' -> thr_inv (tr ++ es) st' t l'.
Proof.
  intros Hp (_ & H1 & H2) E1 E2 Ho. split; [exact Ho|]. rewrite E1, E2.
  split; intros y Hy; apply (seen_mono tr es st); auto.
Qed.

Lemma TInv_update thr tr es st st' t lnew :
  TInv thr tr st -> pub_pres st st' -> (forall t', t' <> t -> loc_pres t' st st') ->
  thr_inv (tr ++ es) st' t lnew -> TInv (Conc.update t lnew thr) (tr ++ es) st'.
Proof.
  intros [Hnd Hall] Hp Hl Hnew. split; [now rewrite Conc.tids_update|].
  intros t' l' Hlk. destruct (b4_lookup_update _ _ _ _ _ Hlk) as [[-> ->]|[Hne Hlk']]; [exact Hnew|].
  apply thr_inv_mono with st; auto.
Qed.

Lemma TInv_remove thr tr es st st' t :
  TInv thr tr st -> pub_pres st st' -> (forall t', t' <> t -> loc_pres t' st st') ->
  TInv (Conc.remove t thr) (tr ++ es) st'.
Proof.
  intros [Hnd Hall] Hp Hl. split; [now apply Conc.nodup_remove|].
  intros t' l' Hlk. destruct (b4_lookup_remove _ _ _ _ Hnd Hlk) as [Hne Hlk'].
  apply thr_inv_mono with st; auto.
Qed.

Lemma TInv_spawn thr tr st t l0 :
  TInv thr tr st -> Conc.lookup t thr = None -> thr_inv tr st t l0 -> TInv (Conc.spawn t l0 thr) tr st.
Proof.
  intros [Hnd Hall] Hnone Hnew. split; [now apply Conc.nodup_spawn|].
  intros t' l' Hlk. destruct (b4_lookup_spawn _ _ _ _ _ Hlk) as [Hlk'|[-> ->]]; [now apply Hall|exact Hnew].
Qed.

Lemma pub_pres_refl st : pub_pres st st.
Proof. intros y t r x H. exact H. Qed.
Lemma loc_pres_refl t st : loc_pres t st st.
Proof. intros y H. exact H. Qed.

(* ---------- the four kinds of steps, shared part ---------- *)
Lemma sinv_quiet vals nexts tr st es :
  SInv vals nexts tr st -> no_val es -> SInv vals nexts (tr ++ es) st.
Proof.
  intros S Hnv.
  assert (Hold : forall i ev y w a, ev_at (tr ++ es) i ev -> access_of (act ev) = Some (Q_VAL y, w, a) ->
                   ev_at tr i ev).
  { intros i ev y w a Hev Hacc. destruct (ev_at_app_inv _ _ _ _ Hev) as [H|[_ H]]; [exact H|].
    exfalso. apply (Hnv ev (nth_error_In _ _ H) y w a Hacc). }
  constructor.
  - exact (si_hi _ _ _ _ S).
  - intros y Hy i ev w a Hev Hacc. exact (si_fresh _ _ _ _ S y Hy i ev w a (Hold _ _ _ _ _ Hev Hacc) Hacc).
  - intros y t Hy i ev w a Hev Hacc. exact (si_local _ _ _ _ S y t Hy i ev w a (Hold _ _ _ _ _ Hev Hacc) Hacc).
  - intros y t r x Hy. destruct (si_pub _ _ _ _ S y t r x Hy) as [Hr Hall]. split; [now apply ev_at_app_intro|].
    intros i ev w a Hev Hacc. apply pub_acc_app. exact (Hall i ev w a (Hold _ _ _ _ _ Hev Hacc) Hacc).
  - exact (si_next _ _ _ _ S).
Qed.

Lemma sinv_alloc vals nexts tr st t v :
  SInv vals nexts tr st ->
  SInv (vals ++ [v]) (nexts ++ [None]) (tr ++ [mkEv t (Write (Q_VAL (List.length vals)))])
       (st_upd st (List.length vals) (NLocal t)).
Proof.
  intros S. set (n := List.length vals).
  assert (Hn : st n = NFresh) by (apply (si_hi _ _ _ _ S); unfold n; lia).
  assert (Hsplit : forall i ev y w a,
            ev_at (tr ++ [mkEv t (Write (Q_VAL n))]) i ev -> access_of (act ev) = Some (Q_VAL y, w, a) ->
            ev_at tr i ev \/ (y = n /\ ev = mkEv t (Write (Q_VAL n)) /\ w = true)).
  { intros i ev y w a Hev Hacc. destruct (ev_at_app_inv _ _ _ _ Hev) as [H|[_ H]]; [now left|right].
    apply ev_at_single in H as [_ ->]. cbn in Hacc. injection Hacc as Hy <- _.
    split; [now symmetry|]. split; reflexivity. }
  constructor.
  - intros y Hy. rewrite app_length in Hy. cbn in Hy. rewrite st_upd_other by (unfold n; lia).
    apply (si_hi _ _ _ _ S). lia.
  - intros y Hy i ev w a Hev Hacc.
    destruct (Nat.eq_dec y n) as [->|Hne]; [rewrite st_upd_same in Hy; discriminate Hy|].
    rewrite st_upd_other in Hy by exact Hne.
    destruct (Hsplit _ _ _ _ _ Hev Hacc) as [H|(Hy' & _)]; [|congruence].
    exact (si_fresh _ _ _ _ S y Hy i ev w a H Hacc).
  - intros y t0 Hy i ev w a Hev Hacc.
    destruct (Nat.eq_dec y n) as [->|Hne].
    + rewrite st_upd_same in Hy. injection Hy as <-.
      destruct (Hsplit _ _ _ _ _ Hev Hacc) as [H|(_ & -> & ->)]; [|now split].
      exfalso. exact (si_fresh _ _ _ _ S n Hn i ev w a H Hacc).
    + rewrite st_upd_other in Hy by exact Hne.
      destruct (Hsplit _ _ _ _ _ Hev Hacc) as [H|(Hy' & _)]; [|congruence].
      exact (si_local _ _ _ _ S y t0 Hy i ev w a H Hacc).
  - intros y t0 r x Hy.
    destruct (Nat.eq_dec y n) as [->|Hne]; [rewrite st_upd_same in Hy; discriminate Hy|].
    rewrite st_upd_other in Hy by exact Hne.
    destruct (si_pub _ _ _ _ S y t0 r x Hy) as [Hr Hall]. split; [now apply ev_at_app_intro|].
    intros i ev w a Hev Hacc. apply pub_acc_app.
    destruct (Hsplit _ _ _ _ _ Hev Hacc) as [H|(Hy' & _)]; [|congruence].
    exact (Hall i ev w a H Hacc).
  - intros x y Hx. apply b4_nth_snoc in Hx as [Hx|[_ Hx]]; [|discriminate Hx].
    destruct (si_next _ _ _ _ S x y Hx) as (t0 & r & Hy). exists t0, r.
    rewrite st_upd_other; [exact Hy|]. intros ->. rewrite Hn in Hy. discriminate Hy.
Qed.

Lemma sinv_link vals nexts tr st t x y :
  SInv vals nexts tr st -> st y = NLocal t ->
  SInv vals (set_nth nexts x (Some y)) (tr ++ [mkEv t (ARmw (Q_NEXT x))])
       (st_upd st y (NPub t (List.length tr) x)).
Proof.
  intros S Hy0. set (n := List.length tr).
  assert (Hold : forall i ev z w a, ev_at (tr ++ [mkEv t (ARmw (Q_NEXT x))]) i ev ->
                   access_of (act ev) = Some (Q_VAL z, w, a) -> ev_at tr i ev).
  { intros i ev z w a Hev Hacc. destruct (ev_at_app_inv _ _ _ _ Hev) as [H|[_ H]]; [exact H|].
    apply ev_at_single in H as [_ ->]. cbn in Hacc. discriminate Hacc. }
  constructor.
  - intros z Hz. rewrite st_upd_other; [now apply (si_hi _ _ _ _ S)|].
    intros ->. rewrite (si_hi _ _ _ _ S y Hz) in Hy0. discriminate Hy0.
  - intros z Hz i ev w a Hev Hacc.
    destruct (Nat.eq_dec z y) as [->|Hne]; [rewrite st_upd_same in Hz; discriminate Hz|].
    rewrite st_upd_other in Hz by exact Hne.
    exact (si_fresh _ _ _ _ S z Hz i ev w a (Hold _ _ _ _ _ Hev Hacc) Hacc).
  - intros z t0 Hz i ev w a Hev Hacc.
    destruct (Nat.eq_dec z y) as [->|Hne]; [rewrite st_upd_same in Hz; discriminate Hz|].
    rewrite st_upd_other in Hz by exact Hne.
    exact (si_local _ _ _ _ S z t0 Hz i ev w a (Hold _ _ _ _ _ Hev Hacc) Hacc).
  - intros z t0 r x0 Hz.
    destruct (Nat.eq_dec z y) as [->|Hne].
    + rewrite st_upd_same in Hz. injection Hz as <- <- <-. split; [apply ev_at_last|].
      intros i ev w a Hev Hacc. pose proof (Hold _ _ _ _ _ Hev Hacc) as H.
      destruct (si_local _ _ _ _ S y t Hy0 i ev w a H Hacc) as [Ht Hw].
      left. split; [exact Hw|]. split; [exact Ht|]. eapply ev_at_lt; exact H.
    + rewrite st_upd_other in Hz by exact Hne.
      destruct (si_pub _ _ _ _ S z t0 r x0 Hz) as [Hr Hall]. split; [now apply ev_at_app_intro|].
      intros i ev w a Hev Hacc. apply pub_acc_app. exact (Hall i ev w a (Hold _ _ _ _ _ Hev Hacc) Hacc).
  - intros x0 z Hx. apply b4_set_nth_nth in Hx as [[<- Hz]|[Hne Hx]].
    + injection Hz as ->. exists t, n. apply st_upd_same.
    + destruct (si_next _ _ _ _ S x0 z Hx) as (t0 & r & Hz). exists t0, r.
      rewrite st_upd_other; [exact Hz|]. intros ->. rewrite Hy0 in Hz. discriminate Hz.
Qed.

Lemma sinv_read vals nexts tr st t y :
  SInv vals nexts tr st -> seen tr st y t ->
  SInv vals nexts (tr ++ [mkEv t (Read (Q_VAL y))]) st.
Proof.
  intros S (t0 & r0 & x0 & Hy0 & Hseen).
  assert (Hsplit : forall i ev z w a,
            ev_at (tr ++ [mkEv t (Read (Q_VAL y))]) i ev -> access_of (act ev) = Some (Q_VAL z, w, a) ->
            ev_at tr i ev \/ (z = y /\ ev = mkEv t (Read (Q_VAL y)) /\ w = false /\ i = List.length tr)).
  { intros i ev z w a Hev Hacc. destruct (ev_at_app_inv _ _ _ _ Hev) as [H|[Hi H]]; [now left|right].
    apply ev_at_single in H as [Hk ->]. cbn in Hacc. injection Hacc as Hz <- _.
    split; [now symmetry|]. split; [reflexivity|]. split; [reflexivity|lia]. }
  constructor.
  - exact (si_hi _ _ _ _ S).
  - intros z Hz i ev w a Hev Hacc.
    destruct (Hsplit _ _ _ _ _ Hev Hacc) as [H|(-> & _)]; [|congruence].
    exact (si_fresh _ _ _ _ S z Hz i ev w a H Hacc).
  - intros z t1 Hz i ev w a Hev Hacc.
    destruct (Hsplit _ _ _ _ _ Hev Hacc) as [H|(-> & _)]; [|congruence].
    exact (si_local _ _ _ _ S z t1 Hz i ev w a H Hacc).
  - intros z t1 r x Hz. destruct (si_pub _ _ _ _ S z t1 r x Hz) as [Hr Hall].
    split; [now apply ev_at_app_intro|].
    intros i ev w a Hev Hacc.
    destruct (Hsplit _ _ _ _ _ Hev Hacc) as [H|(-> & -> & -> & ->)].
    + apply pub_acc_app. exact (Hall i ev w a H Hacc).
    + rewrite Hy0 in Hz. injection Hz as <- <- <-.
      right. split; [reflexivity|]. split; [eapply ev_at_lt; exact Hr|]. cbn [tid].
      destruct Hseen as [Ht|(q & evq & Hevq & Htq & Hsw)]; [now left|right].
      exists q, evq. split; [eapply ev_at_lt; exact Hevq|]. split; [now apply ev_at_app_intro|].
      split; [exact Htq|now apply sw_app].
  - exact (si_next _ _ _ _ S).
Qed.

(* ---------- the invariant of configurations ---------- *)
Definition CInv (c : clq_cfg) (tr : execution) (st : nat -> nst) : Prop :=
  SInv (q_vals c) (q_nexts c) tr st /\ TInv (q_thr c) tr st.

Lemma CInv_init : CInv clq_init [] (fun _ => NFresh).
Proof.
  split.
  - constructor.
    + reflexivity.
    + intros y _ i ev w a H. destruct i; discriminate H.
    + intros y t H. discriminate H.
    + intros y t r x H. discriminate H.
    + intros x y H. destruct x as [|x]; cbn in H; [discriminate H|destruct x; discriminate H].
  - split; [constructor|]. intros t l H. discriminate H.
Qed.

Lemma no_val_nil : no_val [].
Proof. intros ev []. Qed.
Lemma no_val_single t a : (forall y w ao, access_of a <> Some (Q_VAL y, w, ao)) -> no_val [mkEv t a].
Proof. intros H ev [<-|[]]. exact H. Qed.

Ltac nv := first [apply no_val_nil | apply no_val_single; intros ? ? ?; cbn; discriminate].

(* a step that keeps vals / nexts / the status and moves thread t to l' with unchanged seen-locals *)
Lemma cinv_quiet_update c tr st t l l' es c' :
  CInv c tr st -> Conc.lookup t (q_thr c) = Some l -> no_val es ->
  q_vals c' = q_vals c -> q_nexts c' = q_nexts c -> q_thr c' = Conc.update t l' (q_thr c) ->
  q_headNextPtr l' = q_headNextPtr l -> q_headNext l' = q_headNext l -> own_inv st t l' ->
  CInv c' (tr ++ es) st.
Proof.
  intros [S T] Hl Hnv Ev En Et E1 E2 Ho. split.
  - rewrite Ev, En. now apply sinv_quiet.
  - rewrite Et. apply TInv_update with st; auto using pub_pres_refl, loc_pres_refl.
    apply thr_inv_step with st l; auto using pub_pres_refl. exact (proj2 T t l Hl).
Qed.

Lemma cinv_quiet_remove c tr st t es c' :
  CInv c tr st -> no_val es ->
  q_vals c' = q_vals c -> q_nexts c' = q_nexts c -> q_thr c' = Conc.remove t (q_thr c) ->
  CInv c' (tr ++ es) st.
Proof.
  intros [S T] Hnv Ev En Et. split.
  - rewrite Ev, En. now apply sinv_quiet.
  - rewrite Et. apply TInv_remove with st; auto using pub_pres_refl, loc_pres_refl.
Qed.

Lemma own_keep st t l l' :
  own_inv st t l ->
  match q_pc l with
  | EnqFor | EnqLoadTail | EnqTail | EnqLoadNext | EnqIfNext | EnqContinue | EnqLinkCAS => True
  | _ => False
  end ->
  q_newPtr l' = q_newPtr l ->
  match q_pc l' with
  | EnqNewPtr => False
  | _ => True
  end ->
  own_inv st t l'.
Proof.
  unfold own_inv. intros Ho Hp E Hp'. rewrite E.
  destruct (q_pc l); try contradiction; destruct (q_pc l'); try exact I; try contradiction; exact Ho.
Qed.

Ltac quiet_upd tnv town :=
  eapply cinv_quiet_update;
  [eassumption|eassumption|tnv|reflexivity|reflexivity|reflexivity|reflexivity|reflexivity|unfold own_inv; cbn; town].
Ltac quiet_rm tnv :=
  eapply cinv_quiet_remove; [eassumption|tnv|reflexivity|reflexivity|reflexivity].

Lemma clq_step_inv c tr st e c' :
  CInv c tr st -> clq_step c e = Some c' -> exists st', CInv c' (tr ++ clq_emit c e) st'.
Proof.
  intros HI Hs. pose proof HI as [S T].
  unfold clq_step in Hs. destruct (clq_exec1 c e) as [[c1 ob]|] eqn:E; [|discriminate]. injection Hs as ->.
  destruct e as [t v|t|t]; cbn [clq_exec1 clq_emit] in *.
  - (* call Enqueue *)
    destruct (Conc.lookup t (q_thr c)) eqn:Hl; [discriminate|]. injection E as <- _.
    exists st. rewrite app_nil_r. split; [exact S|]. cbn [q_thr].
    apply TInv_spawn; [exact T|exact Hl|]. split; [exact I|]. split; intros y H; discriminate H.
  - (* call Dequeue *)
    destruct (Conc.lookup t (q_thr c)) eqn:Hl; [discriminate|]. injection E as <- _.
    exists st. rewrite app_nil_r. split; [exact S|]. cbn [q_thr].
    apply TInv_spawn; [exact T|exact Hl|]. split; [exact I|]. split; intros y H; discriminate H.
  - (* a statement of thread t *)
    destruct (Conc.lookup t (q_thr c)) as [l|] eqn:Hl; [|discriminate].
    pose proof (proj2 T t l Hl) as Hthr. pose proof Hthr as (Hown & Hs1 & Hs2).
    unfold acts_CLQ. unfold own_inv in Hown.
    destruct (q_pc l) eqn:Epc.
    + (* EnqNewNode: allocation *)
      injection E as <- _. cbn [map].
      exists (st_upd st (List.length (q_vals c)) (NLocal t)).
      assert (Hn : st (List.length (q_vals c)) = NFresh) by (apply (si_hi _ _ _ _ S); lia).
      assert (Hpp : pub_pres st (st_upd st (List.length (q_vals c)) (NLocal t))).
      { intros y t0 r x Hy. rewrite st_upd_other; [exact Hy|]. intros ->. rewrite Hn in Hy. discriminate Hy. }
      split; cbn [q_vals q_nexts q_thr].
      * now apply sinv_alloc.
      * apply TInv_update with st; [exact T|exact Hpp| |].
        -- intros t' _ y Hy. rewrite st_upd_other; [exact Hy|]. intros ->. rewrite Hn in Hy. discriminate Hy.
        -- apply thr_inv_step with st l; auto.
           unfold own_inv. cbn. exists (List.length (q_vals c)). split; [reflexivity|apply st_upd_same].
    + (* EnqNewPtr *)
      injection E as <- _. exists st. quiet_upd nv ltac:(exact Hown).
    + (* EnqFor *)
      injection E as <- _. exists st. quiet_upd nv ltac:(exact Hown).
    + (* EnqLoadTail *)
      injection E as <- _. exists st. quiet_upd nv ltac:(exact Hown).
    + (* EnqTail *)
      injection E as <- _. exists st. quiet_upd nv ltac:(exact Hown).
    + (* EnqLoadNext *)
      destruct (node_next (q_nexts c) (q_tailL l)) as [nx|] eqn:En.
      * injection E as <- _. exists st.
        quiet_upd ltac:(destruct (q_tailL l); cbn [map]; nv) ltac:(exact Hown).
      * injection E as <- _. exists st. quiet_rm ltac:(destruct (q_tailL l); cbn [map]; nv).
    + (* EnqIfNext *)
      destruct (is_nil (q_tailNext l)); injection E as <- _; exists st; quiet_upd nv ltac:(exact Hown).
    + (* EnqContinue *)
      injection E as <- _. exists st. quiet_upd nv ltac:(exact Hown).
    + (* EnqLinkCAS *)
      destruct (q_tailL l) as [x|] eqn:Etl.
      2:{ injection E as <- _. exists st. quiet_rm ltac:(cbn [map]; nv). }
      destruct (node_next (q_nexts c) (Some x)) as [cur|] eqn:En.
      2:{ injection E as <- _. exists st. quiet_rm ltac:(cbn [map]; nv). }
      destruct (ptr_eqb cur (q_tailNext l)) eqn:Ecas.
      * (* the successful link: publication *)
        injection E as <- _. cbn [map].
        destruct Hown as (y & Hy & Hst). rewrite Hy.
        exists (st_upd st y (NPub t (List.length tr) x)).
        assert (Hpp : pub_pres st (st_upd st y (NPub t (List.length tr) x))).
        { intros z t0 r x0 Hz. rewrite st_upd_other; [exact Hz|]. intros ->. rewrite Hst in Hz. discriminate Hz. }
        split; cbn [q_vals q_nexts q_thr].
        -- now apply sinv_link.
        -- apply TInv_update with st; [exact T|exact Hpp| |].
           ++ intros t' Hne z Hz. rewrite st_upd_other; [exact Hz|]. intros ->. rewrite Hst in Hz.
              injection Hz as ->. now apply Hne.
           ++ apply thr_inv_step with st l; auto.
              unfold own_inv. cbn. exact I.
      * injection E as <- _. exists st. quiet_upd ltac:(cbn [map]; nv) ltac:(exact Hown).
    + (* EnqTailCAS *)
      destruct (ptr_eqb (q_tail c) (q_tailPtr l)); injection E as <- _; exists st;
        quiet_upd ltac:(cbn [map]; nv) ltac:(exact I).
    + (* EnqRet *)
      injection E as <- _. exists st. quiet_rm nv.
    + (* DeqFor *)
      injection E as <- _. exists st. quiet_upd nv ltac:(exact I).
    + (* DeqLoadHead *)
      injection E as <- _. exists st. quiet_upd nv ltac:(exact I).
    + (* DeqHead *)
      injection E as <- _. exists st. quiet_upd nv ltac:(exact I).
    + (* DeqLoadTail *)
      destruct (ptr_eqb (q_headL l) (q_tail c)); injection E as <- _; exists st; quiet_upd nv ltac:(exact I).
    + (* DeqTail *)
      injection E as <- _. exists st. quiet_upd nv ltac:(exact I).
    + (* DeqIfEq *)
      destruct (ptr_eqb (q_headL l) (q_tailL l)); injection E as <- _; exists st; quiet_upd nv ltac:(exact I).
    + (* DeqRetEmpty *)
      injection E as <- _. exists st. quiet_rm nv.
    + (* DeqLoadNext: the acquiring load *)
      destruct (node_next (q_nexts c) (q_headL l)) as [nx|] eqn:En.
      2:{ injection E as <- _. exists st. quiet_rm ltac:(destruct (q_headL l); cbn [map]; nv). }
      injection E as <- _. exists st.
      destruct (q_headL l) as [x|] eqn:Ehl; [|discriminate En]. cbn [node_next] in En. cbn [map].
      split; cbn [q_vals q_nexts q_thr upd_thr].
      * apply sinv_quiet; [exact S|nv].
      * apply TInv_update with st; auto using pub_pres_refl, loc_pres_refl.
        split; [unfold own_inv; cbn; exact I|]. cbn [q_headNextPtr q_headNext set_headNextPtr]. split.
        -- intros y ->. destruct (si_next _ _ _ _ S x y En) as (t0 & r & Hy).
           destruct (si_pub _ _ _ _ S y t0 r x Hy) as [Hr _].
           exists t0, r, x. split; [exact Hy|]. right.
           exists (List.length tr), (mkEv t (ARead (Q_NEXT x))).
           split; [apply ev_at_last|]. split; [reflexivity|].
           split; [eapply ev_at_lt; exact Hr|].
           exists (mkEv t0 (ARmw (Q_NEXT x))), (mkEv t (ARead (Q_NEXT x))).
           split; [now apply ev_at_app_intro|]. split; [apply ev_at_last|]. reflexivity.
        -- intros y Hy. apply (seen_mono tr _ st); auto using pub_pres_refl.
    + (* DeqCASHead *)
      destruct (ptr_eqb (q_head c) (q_headPtr l)); injection E as <- _; exists st;
        quiet_upd ltac:(cbn [map]; nv) ltac:(exact I).
    + (* DeqHeadNext: headNext := headNextPtr *)
      injection E as <- _. exists st. cbn [map].
      split; cbn [q_vals q_nexts q_thr upd_thr]; [apply sinv_quiet; [exact S|nv]|].
      apply TInv_update with st; auto using pub_pres_refl, loc_pres_refl.
      split; [unfold own_inv; cbn; exact I|].
      cbn [q_headNextPtr q_headNext set_headNext].
      split; intros y Hy; apply (seen_mono tr _ st); auto using pub_pres_refl.
    + (* DeqRetVal: the plain read *)
      destruct (node_val (q_vals c) (q_headNext l)) as [v|] eqn:Ev.
      2:{ injection E as <- _. exists st. quiet_rm ltac:(destruct (q_headNext l); cbn [map]; nv). }
      injection E as <- _. exists st.
      destruct (q_headNext l) as [y|] eqn:Ehn; [|discriminate Ev]. cbn [map].
      split; cbn [q_vals q_nexts q_thr].
      * apply sinv_read; [exact S|]. now apply Hs2.
      * apply TInv_remove with st; auto using pub_pres_refl, loc_pres_refl.
Qed.

Lemma clq_trace_inv_gen evs : forall c tr st c',
  CInv c tr st -> Conc.exec clq_step c evs = Some c' ->
  exists st', CInv c' (tr ++ trace clq_cfg clq_ev clq_step clq_emit c evs) st'.
Proof.
  induction evs as [|e r IH]; intros c tr st c' HI Hex; cbn in *.
  - injection Hex as <-. exists st. now rewrite app_nil_r.
  - destruct (clq_step c e) as [c1|] eqn:E; [|discriminate].
    destruct (clq_step_inv c tr st e c1 HI E) as [st1 HI1].
    destruct (IH c1 _ st1 c' HI1 Hex) as [st' HI']. exists st'. now rewrite app_assoc.
Qed.

Lemma clq_trace_inv evs c :
  Conc.exec clq_step clq_init evs = Some c -> exists st, CInv c (clq_trace evs) st.
Proof. intros Hex. exact (clq_trace_inv_gen evs clq_init [] _ c CInv_init Hex). Qed.

(* ---------- the shape of the emitted events ---------- *)
Definition clq_shape_b (a : action) : bool :=
  instance_b clq_table a && nolock_b a &&
  match access_of a with
  | Some (x, _, ao) => ao || String.eqb (fst x) "node.val"
  | None => true
  end.

Lemma acts_CLQ_shape c l : forallb clq_shape_b (acts_CLQ c l) = true.
Proof.
  unfold acts_CLQ. destruct (q_pc l); try reflexivity.
  - destruct (q_tailL l); [destruct (node_next _ _)|]; reflexivity.
  - destruct (q_tailL l); [destruct (node_next _ _); [destruct (ptr_eqb _ _)|]|]; reflexivity.
  - destruct (ptr_eqb _ _); reflexivity.
  - destruct (q_headL l); [destruct (node_next _ _)|]; reflexivity.
  - destruct (ptr_eqb _ _); reflexivity.
  - destruct (q_headNext l); [destruct (node_val _ _)|]; reflexivity.
Qed.

Lemma clq_trace_shape evs : Forall (fun ev => clq_shape_b (act ev) = true) (clq_trace evs).
Proof.
  apply (trace_forall clq_cfg clq_ev clq_step clq_emit (fun ev => clq_shape_b (act ev) = true)).
  intros c e. destruct e as [t v|t|t]; cbn [clq_emit]; try constructor.
  destruct (Conc.lookup t (q_thr c)) as [l|]; [|constructor].
  apply (Forall_map_mkEv clq_shape_b). apply acts_CLQ_shape.
Qed.

(* ---------- no race ---------- *)
Lemma sinv_no_race vals nexts tr st :
  SInv vals nexts tr st -> Forall (fun ev => clq_shape_b (act ev) = true) tr -> forall x, ~ race_on tr x.
Proof.
  intros S Hsh x.
  destruct (String.eqb (fst x) "node.val") eqn:Ex.
  - apply String.eqb_eq in Ex. destruct x as [f y]. cbn in Ex. subst f. change ("node.val", y) with (Q_VAL y).
    destruct (st y) as [|t|t r x] eqn:Est.
    + intros Hr. destruct (race_on_access _ _ Hr) as (i & ev & w & a & Hev & Hacc).
      exact (si_fresh _ _ _ _ S y Est i ev w a Hev Hacc).
    + apply one_thread_no_race with t. intros i ev w a Hev Hacc.
      exact (proj1 (si_local _ _ _ _ S y t Est i ev w a Hev Hacc)).
    + destruct (si_pub _ _ _ _ S y t r x Est) as [Hr Hall].
      apply publish_once with t r. split.
      * intros i ev a Hev Hacc. destruct (Hall i ev true a Hev Hacc) as [(_ & Ht & Hi)|(Hw & _)]; [|discriminate Hw].
        split; [exact Ht|]. split; [exact Hi|]. now exists (mkEv t (ARmw (Q_NEXT x))).
      * intros i ev w a Hev Hacc Hne. destruct (Hall i ev w a Hev Hacc) as [(_ & Ht & _)|(Hw & Hri & Hor)];
          [contradiction|]. split; [exact Hw|].
        destruct Hor as [Ht|(q & evq & Hq & Hevq & Htq & Hsw)]; [contradiction|].
        now exists q, evq.
  - apply atomic_only. intros i ev w a Hev Hacc.
    pose proof (forall_ev_at _ tr i ev Hsh Hev) as Hb. cbn beta in Hb. unfold clq_shape_b in Hb.
    apply andb_true_iff in Hb as [_ Hb]. rewrite Hacc in Hb. rewrite Ex, orb_false_r in Hb. exact Hb.
Qed.

Lemma clq_trace_drf_lemma evs c :
  Conc.exec clq_step clq_init evs = Some c ->
  wf (clq_trace evs) /\ instances_of clq_table (clq_trace evs) /\ ~ race (clq_trace evs).
Proof.
  intros Hex. pose proof (clq_trace_shape evs) as Hsh.
  destruct (clq_trace_inv evs c Hex) as [st [S _]].
  split.
  { apply nolock_wf. eapply Forall_impl; [|exact Hsh]. cbn beta. intros ev Hb. unfold clq_shape_b in Hb.
    apply andb_true_iff in Hb as [Hb _]. apply andb_true_iff in Hb as [_ Hb]. exact Hb. }
  split.
  { apply instances_of_forall. eapply Forall_impl; [|exact Hsh]. cbn beta. intros ev Hb. unfold clq_shape_b in Hb.
    apply andb_true_iff in Hb as [Hb _]. apply andb_true_iff in Hb as [Hb _]. exact Hb. }
  intros [x Hx]. exact (sinv_no_race _ _ _ _ S Hsh x Hx).
Qed.

(* ---------- the publication clause: the enqueuer's write of val happens-before every read of it ---------- *)
Lemma clq_val_handoff_lemma evs c :
  Conc.exec clq_step clq_init evs = Some c ->
  forall y i j a b wa,
    ev_at (clq_trace evs) i a -> access_of (act a) = Some (Q_VAL y, true, wa) ->
    ev_at (clq_trace evs) j b -> act b = Read (Q_VAL y) ->
    hb (clq_trace evs) i j.
Proof.
  intros Hex y i j a b wa Ha Hacca Hb Hactb.
  destruct (clq_trace_inv evs c Hex) as [st [S _]]. set (tr := clq_trace evs) in *.
  assert (Haccb : access_of (act b) = Some (Q_VAL y, false, false)) by (rewrite Hactb; reflexivity).
  destruct (st y) as [|t|t r x] eqn:Est.
  - exfalso. exact (si_fresh _ _ _ _ S y Est i a true wa Ha Hacca).
  - destruct (si_local _ _ _ _ S y t Est j b false false Hb Haccb) as [_ Hw]. discriminate Hw.
  - destruct (si_pub _ _ _ _ S y t r x Est) as [Hr Hall].
    destruct (Hall i a true wa Ha Hacca) as [(_ & Hta & Hir)|(Hw & _)]; [|discriminate Hw].
    destruct (Hall j b false false Hb Haccb) as [(Hw & _)|(_ & Hrj & Hor)]; [discriminate Hw|].
    assert (Hir' : hb tr i r).
    { apply hb_po. eapply po_intro; eauto. }
    destruct Hor as [Htb|(q & evq & Hq & Hevq & Htq & Hsw)].
    + apply hb_po. eapply po_intro; eauto; [lia|congruence].
    + apply hb_trans with r; [exact Hir'|]. apply hb_trans with q; [now apply hb_sw|].
      apply hb_po. eapply po_intro; eauto.
Qed.

(* client events around the two calls: anything thread t1 did up to the enqueuer's write of val
   happens-before anything thread t2 does from the read of val on *)
Lemma clq_publication_lemma evs c :
  Conc.exec clq_step clq_init evs = Some c ->
  forall y i j a b wa i' j' a' b',
    ev_at (clq_trace evs) i a -> access_of (act a) = Some (Q_VAL y, true, wa) ->
    ev_at (clq_trace evs) j b -> act b = Read (Q_VAL y) ->
    ev_at (clq_trace evs) i' a' -> tid a' = tid a -> i' <= i ->
    ev_at (clq_trace evs) j' b' -> tid b' = tid b -> j <= j' ->
    hb (clq_trace evs) i' j'.
Proof.
  intros Hex y i j a b wa i' j' a' b' Ha Hacc Hb Hactb Ha' Hta Hi Hb' Htb Hj.
  pose proof (clq_val_handoff_lemma evs c Hex y i j a b wa Ha Hacc Hb Hactb) as Hhb.
  assert (H1 : hb (clq_trace evs) i' j).
  { destruct (Nat.eq_dec i' i) as [->|Hne]; [exact Hhb|].
    apply hb_trans with i; [|exact Hhb]. apply hb_po. eapply po_intro; eauto. lia. }
  destruct (Nat.eq_dec j j') as [<-|Hne]; [exact H1|].
  apply hb_trans with j; [exact H1|]. apply hb_po. eapply po_intro; eauto. lia.
Qed.

(* ---------- non-vacuity ---------- *)
(* Enqueue(7) by thread 1 and Enqueue(8) by thread 3 (both allocate first), Dequeue by thread 2 which returns 7:
   thread 1's write of node 1's val (index 0) happens-before thread 2's read of it (index 14) through
   the link CAS on node 0's next (index 4) and thread 2's load of that field (index 12) *)
Definition clq_example_evs : list clq_ev :=
  [QCallEnq 1 7%Z; QCallDeq 2; QCallEnq 3 8%Z; QStep 1; QStep 3; QStep 2] ++ repeat (QStep 1) 8 ++
  repeat (QStep 3) 9 ++ repeat (QStep 2) 9 ++ [QStep 1].

Lemma clq_example_lemma :
  let tr := clq_trace clq_example_evs in
  (exists c, Conc.exec clq_step clq_init clq_example_evs = Some c /\ q_thr c = [] /\
             q_hist c = [HRet 1 REnq; HRet 2 (RDeq (Some 7%Z)); HLin 2 OpDeq (RDeq (Some 7%Z)); HRet 3 REnq;
                         HLin 3 (OpEnq 8%Z) REnq; HLin 1 (OpEnq 7%Z) REnq;
                         HCall 3 (OpEnq 8%Z); HCall 2 OpDeq; HCall 1 (OpEnq 7%Z)]) /\
  ev_at tr 0 (mkEv 1 (Write (Q_VAL 1))) /\ ev_at tr 4 (mkEv 1 (ARmw (Q_NEXT 0))) /\
  ev_at tr 12 (mkEv 2 (ARead (Q_NEXT 0))) /\ ev_at tr 14 (mkEv 2 (Read (Q_VAL 1))) /\
  sw tr 4 12 /\ hb tr 0 14 /\
  wf tr /\ instances_of clq_table tr /\ ~ race tr.
Proof.
  cbv zeta.
  assert (Hex : exists c, Conc.exec clq_step clq_init clq_example_evs = Some c /\ q_thr c = [] /\
             q_hist c = [HRet 1 REnq; HRet 2 (RDeq (Some 7%Z)); HLin 2 OpDeq (RDeq (Some 7%Z)); HRet 3 REnq;
                         HLin 3 (OpEnq 8%Z) REnq; HLin 1 (OpEnq 7%Z) REnq;
                         HCall 3 (OpEnq 8%Z); HCall 2 OpDeq; HCall 1 (OpEnq 7%Z)]).
  { eexists. split; [vm_compute; reflexivity|]. split; reflexivity. }
  split; [exact Hex|]. destruct Hex as (c & Hc & _).
  assert (E0 : ev_at (clq_trace clq_example_evs) 0 (mkEv 1 (Write (Q_VAL 1)))) by (vm_compute; reflexivity).
  assert (E14 : ev_at (clq_trace clq_example_evs) 14 (mkEv 2 (Read (Q_VAL 1)))) by (vm_compute; reflexivity).
  split; [exact E0|]. split; [vm_compute; reflexivity|]. split; [vm_compute; reflexivity|]. split; [exact E14|].
  split.
  { split; [lia|]. exists (mkEv 1 (ARmw (Q_NEXT 0))), (mkEv 2 (ARead (Q_NEXT 0))).
    repeat split; vm_compute; reflexivity. }
  split.
  { exact (clq_val_handoff_lemma _ _ Hc 1 0 14 _ _ false E0 eq_refl E14 eq_refl). }
  exact (clq_trace_drf_lemma _ _ Hc).
Qed.

(* why the statement has [instances_of] and not [guards_respected]: while an Enqueue has allocated its node but
   not yet linked it, the GPubBefore clause of FootprintModel.guard_ok asks for a LATER publishing event of the
   creator, which the execution does not contain yet *)
Lemma clq_guards_inflight_refuted_lemma :
  exists evs c, Conc.exec clq_step clq_init evs = Some c /\ q_thr c <> [] /\
                ~ guards_respected clq_table (clq_trace evs).
Proof.
  exists [QCallEnq 1 7%Z; QStep 1]. eexists. split; [vm_compute; reflexivity|]. split; [discriminate|].
  intros [pub H].
  destruct (H 0 (mkEv 1 (Write (Q_VAL 1))) (Q_VAL 1) true false eq_refl eq_refl) as (r & Hin & Hloc & Hk & Hg).
  cbn in Hin.
  repeat (destruct Hin as [<-|Hin]; [cbn in Hloc, Hk; try discriminate Hloc; try discriminate Hk|]); try contradiction.
  cbn in Hg. destruct Hg as (t & r & evr & _ & _ & Hlt & Hev & _).
  apply ev_at_lt in Hev. vm_compute in Hev. lia.
Qed.
