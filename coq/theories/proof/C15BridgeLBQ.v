(* C15BridgeLBQ.v — C15 bridge for queue.ConcurrentLinkedBlockingQueue (interleaving model LBQModel.v).

   stmt_of_pc_LBQ / path_of_pc_LBQ / occ_of_pc_LBQ: the Coq-side copy of the (operation, pc) -> label
   table of ocaml/drv_lbq.ml (compared with it on every run by checks/part_c15bridge.py).
   locks_held_LBQ: the write owner q_wlock holds the mutex exclusively; reader locks are anonymous in
   the model (a counter): t holds it shared iff the counter is positive and t is one of the threads
   the proved invariant [i_readers] (counter = number of threads inside a reader section) counts.
   guards_respected_LBQ_lemma: whenever a thread is about to execute a statement it holds every lock
   the footprint table declares for the plain accesses of that statement — for every event list.
   lbq_trace_drf_lemma: the COMPOSITION.  Every model step is mapped to the HB events of the
   statement it executes (acts_LBQ: memory accesses + lock operations, hand-transcribed from the Go
   statements, checked by computation to cover the table's rows of that statement); the resulting
   execution is well-formed, respects the guards of lbq_table, hence has no data race. *)
From Coq Require Import List String Bool Arith Lia ZArith.
From Ekit Require Import Common HB FootprintModel FootprintProof C15Bridge Conc LBQModel LBQProof.
Import ListNotations.
Open Scope string_scope.

Definition TY_LBQ := "ConcurrentLinkedBlockingQueue".
Definition MU_LBQ := "ConcurrentLinkedBlockingQueue.mutex".

Definition is_enq (o : lbq_op) : bool := match o with OEnq _ => true | _ => false end.

(* the entry function = r_func of the footprint rows *)
Definition func_of_op_LBQ (o : lbq_op) : string :=
  match o with OEnq _ => "Enqueue" | ODeq => "Dequeue" | OLen => "Len" | OAsSlice => "AsSlice" end.
Definition func_of_pc_LBQ (o : lbq_op) (p : lbq_pc) : string := func_of_op_LBQ o.

(* inline path: the helper the statement belongs to *)
Definition path_of_pc_LBQ (p : lbq_pc) : string :=
  match p with
  | SRes | SUnlock | SRet => "cond.signalCh"
  | BMake | BOld | BSet | BUnlock | BClose => "cond.broadcast"
  | _ => ""
  end.

(* normalised statement text; "" = not a statement of the instrumented file *)
Definition stmt_of_pc_LBQ (o : lbq_op) (p : lbq_pc) : string :=
  let enq := is_enq o in
  match p with
  | PIf => "if ctx.Err() != nil"
  | PRetErr0 => if enq then "return ctx.Err()" else "return t, ctx.Err()"
  | PLock => "c.mutex.Lock()"
  | PFor => if enq then "for c.maxSize > 0 && c.linkedlist.Len() == c.maxSize" else "for c.linkedlist.Len() == 0"
  | PSig => if enq then "signal := c.notFull.signalCh()" else "signal := c.notEmpty.signalCh()"
  | SRes => "res := c.signal"
  | SUnlock => "c.l.Unlock()"
  | SRet => "return res"
  | PSelect => "select"
  | PParked => ""
  | PCaseCtx => "case <-ctx.Done():"
  | PRetErr1 => if enq then "return ctx.Err()" else "return t, ctx.Err()"
  | PCaseSig => "case <-signal:"
  | PLock1 => "c.mutex.Lock()"
  | PAct => if enq then "err := c.linkedlist.Append(t)" else "val, err := c.linkedlist.Delete(0)"
  | PBcast => if enq then "c.notEmpty.broadcast()" else "c.notFull.broadcast()"
  | BMake => "signal := make(chan struct{})"
  | BOld => "old := c.signal"
  | BSet => "c.signal = signal"
  | BUnlock => "c.l.Unlock()"
  | BClose => "close(old)"
  | PRet => if enq then "return err" else "return val, err"
  | RRLock => "c.mutex.RLock()"
  | RDefer => "defer c.mutex.RUnlock()"
  | RBody => "res := c.linkedlist.AsSlice()"
  | RRet => match o with OLen => "return c.linkedlist.Len()" | _ => "return res" end
  end.

Definition occ_of_pc_LBQ (p : lbq_pc) : nat := match p with PRetErr1 | PLock1 => 1 | _ => 0 end.

Definition lfunc_of_pc_LBQ (o : lbq_op) (p : lbq_pc) : string :=
  lfunc_of TY_LBQ (func_of_op_LBQ o) (path_of_pc_LBQ p).

(* the statement key of the footprint rows *)
Definition rstmt_of_pc_LBQ (o : lbq_op) (p : lbq_pc) : string :=
  row_stmt (path_of_pc_LBQ p) (stmt_of_pc_LBQ o p).

Definition pcname_LBQ (p : lbq_pc) : string :=
  match p with
  | PIf => "PIf" | PRetErr0 => "PRetErr0" | PLock => "PLock" | PFor => "PFor" | PSig => "PSig"
  | SRes => "SRes" | SUnlock => "SUnlock" | SRet => "SRet" | PSelect => "PSelect" | PParked => "PParked"
  | PCaseCtx => "PCaseCtx" | PRetErr1 => "PRetErr1" | PCaseSig => "PCaseSig" | PLock1 => "PLock1"
  | PAct => "PAct" | PBcast => "PBcast" | BMake => "BMake" | BOld => "BOld" | BSet => "BSet"
  | BUnlock => "BUnlock" | BClose => "BClose" | PRet => "PRet" | RRLock => "RRLock" | RDefer => "RDefer"
  | RBody => "RBody" | RRet => "RRet"
  end.

Definition all_pcs_LBQ : list lbq_pc :=
  [PIf; PRetErr0; PLock; PFor; PSig; SRes; SUnlock; SRet; PSelect; PParked; PCaseCtx; PRetErr1; PCaseSig;
   PLock1; PAct; PBcast; BMake; BOld; BSet; BUnlock; BClose; PRet; RRLock; RDefer; RBody; RRet].
Definition all_ops_LBQ : list lbq_op := [OEnq 0%Z; ODeq; OLen; OAsSlice].

(* every (operation, pc) pair a thread can be at (pc_ok is an invariant: LBQProof.i_pcok) *)
Definition all_opcs_LBQ : list (lbq_op * lbq_pc) :=
  filter (fun x => pc_ok (fst x) (snd x))
         (flat_map (fun o => map (fun p => (o, p)) all_pcs_LBQ) all_ops_LBQ).

(* what the driver prints: one line per (operation, pc) that is a yield point *)
Definition bridge_LBQ : list bridge_line :=
  map (fun x => (func_of_op_LBQ (fst x) ++ ":" ++ pcname_LBQ (snd x), lfunc_of_pc_LBQ (fst x) (snd x),
                 stmt_of_pc_LBQ (fst x) (snd x), occ_of_pc_LBQ (snd x)))
      (filter (fun x => negb (String.eqb (stmt_of_pc_LBQ (fst x) (snd x)) "")) all_opcs_LBQ).

(* ---------- locks ---------- *)
Definition locks_held_LBQ (c : lbq_cfg) (t : Conc.tid) : lockset :=
  (match q_wlock c with
   | Some w => if Nat.eqb w t then [(MU_LBQ, Excl)] else []
   | None => []
   end ++
   match lookup t (q_thr c) with
   | Some l => if in_rcs (l_pc l) && (0 <? q_readers c)%nat then [(MU_LBQ, Shared)] else []
   | None => []
   end)%list.

(* the lock-bracketed sections, read off the pc *)
Definition pc_locks_LBQ (p : lbq_pc) : lockset :=
  if in_cs p then [(MU_LBQ, Excl)] else if in_rcs p then [(MU_LBQ, Shared)] else [].

Lemma section_locks_held_LBQ_lemma m evs c t l :
  exec lbq_step (lbq_init m) evs = Some c -> lookup t (q_thr c) = Some l ->
  incl (pc_locks_LBQ (l_pc l)) (locks_held_LBQ c t).
Proof.
  intros Hex Hl. pose proof (inv1_reachable _ _ _ Hex) as I.
  unfold pc_locks_LBQ, locks_held_LBQ. rewrite Hl.
  destruct (in_cs (l_pc l)) eqn:Ecs.
  - rewrite (i_cs c I t l Hl Ecs), Nat.eqb_refl. intros x [<-|[]]. now left.
  - destruct (in_rcs (l_pc l)) eqn:Er; [|intros x []].
    assert (Hpos : (0 < q_readers c)%nat).
    { pose proof (count_pos_lookup rd t l _ Hl Er). pose proof (i_readers c I). lia. }
    apply Nat.ltb_lt in Hpos. rewrite Hpos. cbn [andb].
    intros x [<-|[]]. apply in_or_app. right. now left.
Qed.

(* static part: the locks of the section a pc lies in satisfy every GLock row of its statement *)
Lemma guards_static_LBQ o p :
  guards_held lbq_table (func_of_pc_LBQ o p) (rstmt_of_pc_LBQ o p) (pc_locks_LBQ p) = true.
Proof. destruct o, p; vm_compute; reflexivity. Qed.

Theorem guards_respected_LBQ_lemma m evs c t l :
  exec lbq_step (lbq_init m) evs = Some c -> lookup t (q_thr c) = Some l ->
  guards_respected_at lbq_table (func_of_pc_LBQ (l_op l) (l_pc l)) (rstmt_of_pc_LBQ (l_op l) (l_pc l))
                      (locks_held_LBQ c t).
Proof.
  intros Hex Hl. eapply guards_respected_at_incl.
  - eapply section_locks_held_LBQ_lemma; eassumption.
  - apply guards_held_spec, guards_static_LBQ.
Qed.

(* non-vacuity: every GLock row of the table is the statement of some (operation, pc) *)
Definition keys_LBQ : list (string * string) :=
  map (fun x => (func_of_pc_LBQ (fst x) (snd x), rstmt_of_pc_LBQ (fst x) (snd x))) all_opcs_LBQ.

Lemma all_glock_rows_matched_LBQ :
  unmatched lbq_table keys_LBQ = [] /\ List.length (glock_rows lbq_table) = 10%nat.
Proof. vm_compute. split; reflexivity. Qed.

(* the path determines the label function consistently with the driver's table *)
Lemma bridge_LBQ_nonempty : List.length bridge_LBQ = 49%nat.
Proof. vm_compute. reflexivity. Qed.

(* ====================== composition: the HB execution of a model run ====================== *)
Definition nmq (f : string) : name := lname (TY_LBQ ++ "." ++ f).
Definition lk_LBQ : name := lname MU_LBQ.

Definition loopcond_acts (o : lbq_op) : list action :=
  if is_enq o then [Read (nmq "maxSize"); Read (nmq "linkedlist"); Read (nmq "linkedlist.*")]
  else [Read (nmq "linkedlist"); Read (nmq "linkedlist.*")].

(* memory accesses and lock operations of the statement at (o, p), in program order; channel
   operations are not emitted (conservative: fewer happens-before edges) *)
Definition acts_LBQ (o : lbq_op) (p : lbq_pc) : list action :=
  match p with
  | PLock => [Read (nmq "mutex"); Acq lk_LBQ Excl]
  | PLock1 => ([Read (nmq "mutex"); Acq lk_LBQ Excl] ++ loopcond_acts o)%list   (* Lock + re-evaluation of the loop condition *)
  | PFor => loopcond_acts o
  | PSig => if is_enq o then [Read (nmq "notFull")] else [Read (nmq "notEmpty")]
  | SRes => [Read (lname "cond.signal")]
  | SUnlock => [Read (lname "cond.l"); Rel lk_LBQ Excl]
  | PAct => [Read (nmq "linkedlist"); Write (nmq "linkedlist.*")]
  | PBcast => if is_enq o then [Read (nmq "notEmpty")] else [Read (nmq "notFull")]
  | BOld => [Read (lname "cond.signal")]
  | BSet => [Write (lname "cond.signal")]
  | BUnlock => [Read (lname "cond.l"); Rel lk_LBQ Excl]
  | RRLock => [Read (nmq "mutex"); Acq lk_LBQ Shared]
  | RDefer => [Read (nmq "mutex")]                       (* the receiver of the deferred call is evaluated here *)
  | RBody => [Read (nmq "linkedlist"); Read (nmq "linkedlist.*")]
  | RRet => match o with
            | OLen => [Read (nmq "linkedlist"); Read (nmq "linkedlist.*"); Rel lk_LBQ Shared]
            | _ => [Rel lk_LBQ Shared]                    (* the deferred RUnlock runs at the return *)
            end
  | _ => []
  end.

Definition emit_LBQ (c : lbq_cfg) (e : lbq_ev) : list event :=
  match e with
  | QStep t => match lookup t (q_thr c) with
               | Some l => map (mkEv t) (acts_LBQ (l_op l) (l_pc l))
               | None => []
               end
  | _ => []
  end.

Definition lbq_trace (m : Z) (evs : list lbq_ev) : execution :=
  trace lbq_cfg lbq_ev lbq_step emit_LBQ (lbq_init m) evs.

(* the effect of the statement at p on the stepping thread's own holdings, and the mode it acquires *)
Definition eff_LBQ (p : lbq_pc) : bool * bool * option mode :=
  match p with
  | PLock | PLock1 => (true, false, Some Excl)
  | SUnlock | BUnlock => (false, false, None)
  | RRLock => (false, true, Some Shared)
  | RRet => (false, false, None)
  | _ => (in_cs p, in_rcs p, None)
  end.

Lemma acts_sim_LBQ o p : pc_ok o p = true ->
  sim MU_LBQ (rows_of_func lbq_table (func_of_op_LBQ o)) (in_cs p) (in_rcs p) false None (acts_LBQ o p)
  = Some (eff_LBQ p).
Proof. destruct o, p; intros H; try discriminate H; vm_compute; reflexivity. Qed.

(* the table's rows of a statement are among the emitted actions (defer statements: their lock
   operation is emitted at the return instead) *)
Lemma acts_cover_table_LBQ :
  forallb (fun x => let '(o, p) := x in
     match p with
     | RDefer => true
     | _ => forallb (fun a => action_inb a (acts_LBQ o p))
                    (stmt_actions lbq_table (func_of_pc_LBQ o p) (rstmt_of_pc_LBQ o p))
     end) all_opcs_LBQ = true.
Proof. vm_compute. reflexivity. Qed.

(* ---------- the model-level lock state: read off the program counters ---------- *)
Definition holdT (thr : list (Conc.tid * lbq_loc)) : lstate :=
  fun t m => match lookup t thr with
             | Some l => match m with Excl => in_cs (l_pc l) | Shared => in_rcs (l_pc l) end
             | None => false
             end.

Lemma holdT_update t l l' thr :
  lookup t thr = Some l ->
  ls_eq (holdT (update t l' thr)) (set_ls (holdT thr) t (in_cs (l_pc l')) (in_rcs (l_pc l'))).
Proof.
  intros Hl t' m. unfold holdT, set_ls. destruct (Nat.eqb t' t) eqn:E.
  - apply Nat.eqb_eq in E. subst t'. rewrite (lookup_update_same _ _ _ _ _ Hl). reflexivity.
  - apply Nat.eqb_neq in E. rewrite (lookup_update_other _ _ _ _ _ E). reflexivity.
Qed.

Lemma holdT_remove t thr :
  NoDup (tids thr) -> ls_eq (holdT (remove t thr)) (set_ls (holdT thr) t false false).
Proof.
  intros Hnd t' m. unfold holdT, set_ls. destruct (Nat.eqb t' t) eqn:E.
  - apply Nat.eqb_eq in E. subst t'. rewrite (lookup_remove_same _ _ Hnd). destruct m; reflexivity.
  - apply Nat.eqb_neq in E. rewrite (lookup_remove_other _ _ _ E). reflexivity.
Qed.

Lemma holdT_wake_all k g thr : ls_eq (holdT (wake_all k g thr)) (holdT thr).
Proof.
  intros t m. unfold holdT. rewrite lookup_wake_all. destruct (lookup t thr) as [l|]; [|reflexivity].
  destruct (wake1_pc k g l) as [(_ & Hp & Hp')|[_ ->]]; [|reflexivity].
  rewrite Hp, Hp'. destruct m; reflexivity.
Qed.

Lemma holdT_spawn t o thr :
  lookup t thr = None -> ls_eq (holdT thr) (holdT (spawn t (new_loc o) thr)).
Proof.
  intros Hn t' m. unfold holdT. rewrite lookup_spawn.
  destruct (lookup t' thr) as [x|] eqn:E; [reflexivity|].
  destruct (Nat.eqb t' t); [|reflexivity]. destruct o, m; reflexivity.
Qed.

Lemma ls_eq_trans (a b c : lstate) : ls_eq a b -> ls_eq b c -> ls_eq a c.
Proof. intros H1 H2 t m. now rewrite H1. Qed.
Lemma ls_eq_sym (a b : lstate) : ls_eq a b -> ls_eq b a.
Proof. intros H t m. now rewrite H. Qed.

Lemma free_excl_LBQ c :
  inv1 c -> q_wlock c = None -> q_readers c = O -> free (holdT (q_thr c)) Excl.
Proof.
  intros I Hw Hr. split.
  - intros t'. unfold holdT. destruct (lookup t' (q_thr c)) as [l|] eqn:E; [|reflexivity].
    destruct (in_cs (l_pc l)) eqn:Ec; [|reflexivity]. pose proof (i_cs c I _ _ E Ec). congruence.
  - intros _ t'. unfold holdT. destruct (lookup t' (q_thr c)) as [l|] eqn:E; [|reflexivity].
    apply (count_zero_lookup rd t' l (q_thr c)); [|exact E]. pose proof (i_readers c I). lia.
Qed.

Lemma free_shared_LBQ c : inv1 c -> q_wlock c = None -> free (holdT (q_thr c)) Shared.
Proof.
  intros I Hw. split; [|discriminate].
  intros t'. unfold holdT. destruct (lookup t' (q_thr c)) as [l|] eqn:E; [|reflexivity].
  destruct (in_cs (l_pc l)) eqn:Ec; [|reflexivity]. pose proof (i_cs c I _ _ E Ec). congruence.
Qed.

(* one step of thread t at (l_op l, l_pc l) *)
Lemma step_t_LBQ c t l thr' :
  inv1 c -> lookup t (q_thr c) = Some l ->
  (forall m, snd (eff_LBQ (l_pc l)) = Some m -> free (holdT (q_thr c)) m) ->
  ls_eq (holdT thr') (set_ls (holdT (q_thr c)) t (fst (fst (eff_LBQ (l_pc l)))) (snd (fst (eff_LBQ (l_pc l))))) ->
  all_ok MU_LBQ lbq_table (holdT (q_thr c)) (map (mkEv t) (acts_LBQ (l_op l) (l_pc l))) /\
  ls_eq (upds MU_LBQ (holdT (q_thr c)) (map (mkEv t) (acts_LBQ (l_op l) (l_pc l)))) (holdT thr').
Proof.
  intros I Hl Hfree Heq.
  pose proof (acts_sim_LBQ (l_op l) (l_pc l) (i_pcok c I t l Hl)) as Hsim.
  assert (Hx : holdT (q_thr c) t Excl = in_cs (l_pc l)) by (unfold holdT; now rewrite Hl).
  assert (Hs : holdT (q_thr c) t Shared = in_rcs (l_pc l)) by (unfold holdT; now rewrite Hl).
  rewrite <- Hx, <- Hs in Hsim.
  destruct (sim_sound MU_LBQ lbq_table _ t _ (rows_of_func_incl _ _) _ _ _ _ Hsim) as [Hok Hu].
  - intros _ m Hm. now apply Hfree.
  - split; [exact Hok|]. eapply ls_eq_trans; [exact Hu|]. now apply ls_eq_sym.
Qed.

Lemma q_thr_unlock c : q_thr (unlock c) = q_thr c.
Proof. unfold unlock. destruct (q_wlock c); reflexivity. Qed.
Lemma q_thr_runlock c : q_thr (runlock c) = q_thr c.
Proof. unfold runlock. destruct (q_readers c); reflexivity. Qed.

Lemma step_ok_LBQ c e c' :
  inv1 c -> lbq_step c e = Some c' ->
  inv1 c' /\ all_ok MU_LBQ lbq_table (holdT (q_thr c)) (emit_LBQ c e) /\
  ls_eq (upds MU_LBQ (holdT (q_thr c)) (emit_LBQ c e)) (holdT (q_thr c')).
Proof.
  intros I Hs. unfold lbq_step in Hs.
  destruct (lbq_exec1 c e) as [[c2 obs]|] eqn:H; [|discriminate]. injection Hs as <-.
  split; [eapply inv1_step; eassumption|].
  pose proof (i_nodup c I) as Hnd.
  step_cases H.
  all: unfold emit_LBQ; rewrite ?Hl.
  all: cbn [q_thr set_thr add_hist set_items set_wlock set_readers set_bad];
       rewrite ?q_thr_unlock, ?q_thr_runlock, ?q_thr_set_cur, ?q_thr_add_closed;
       cbn [q_thr set_thr add_hist set_items set_wlock set_readers set_bad].
  (* QCall *)
  1: { split; [exact Logic.I|]. cbn [upds fold_left]. now apply holdT_spawn. }
  all: try (apply (step_t_LBQ c t l _ I Hl); rewrite Hpc; cbn [eff_LBQ fst snd in_cs in_rcs];
            [ intros m0 Hm0; try discriminate Hm0; injection Hm0 as <-;
              first [ apply free_excl_LBQ; assumption | apply free_shared_LBQ; assumption ]
            | try (eapply ls_eq_trans; [apply holdT_wake_all|]);
              first [ eapply ls_eq_trans; [apply (holdT_update t l _ _ Hl)|]
                    | eapply ls_eq_trans; [apply (holdT_remove t _ Hnd)|] ];
              cbn [l_pc set_pc set_sig set_old set_res set_cancel];
              repeat match goal with |- context [if ?b then _ else _] => destruct b end;
              cbn [in_cs in_rcs]; intros ? ?; reflexivity ]).
  all: split; [exact Logic.I|]; cbn [upds fold_left]; apply ls_eq_sym;
       (eapply ls_eq_trans; [apply (holdT_update t l _ _ Hl)|]);
       cbn [l_pc set_pc set_cancel]; intros t' m'; unfold set_ls, holdT;
       destruct (Nat.eqb t' t) eqn:Et; [|reflexivity];
       apply Nat.eqb_eq in Et; subst t'; rewrite Hl.
  - apply andb_true_iff in E as [E _]. apply andb_true_iff in E as [_ E]. apply pc_eqb_eq in E.
    rewrite E. destruct m'; reflexivity.
  - apply pc_eqb_eq in E0. rewrite E0. destruct m'; reflexivity.
  - destruct m'; reflexivity.
Qed.

Lemma holdT_init m : ls_eq (holdT (q_thr (lbq_init m))) ls0.
Proof. intros t md. reflexivity. Qed.

(* the composed corollary: every execution the interleaving model generates is well-formed,
   respects the guards of lbq_table, and therefore has no data race *)
Theorem lbq_trace_drf_lemma m evs c :
  exec lbq_step (lbq_init m) evs = Some c ->
  wf (lbq_trace m evs) /\ guards_respected lbq_table (lbq_trace m evs) /\ ~ race (lbq_trace m evs).
Proof.
  intros Hex.
  destruct (model_trace_wf_guards MU_LBQ lbq_table lbq_cfg lbq_ev lbq_step emit_LBQ inv1
              (fun c => holdT (q_thr c)) step_ok_LBQ (lbq_init m) evs c (inv1_init m) (holdT_init m) Hex)
    as [Hwf Hg].
  split; [exact Hwf|]. split; [exact Hg|]. exact (drf_lbq_lemma _ Hwf Hg).
Qed.
