(* PoolModel (pool.OnDemandBlockTaskPool), proofs for C12 / liveness side of C10 - B2s: the life-cycle facts are preserved by every step (one case analysis over the statements) *)
From Ekit Require Import Common Conc PoolModel PoolProofB0 PoolProofB1 PoolProofB2d.
From Coq Require Import ZifyBool Arith PeanoNat.

Ltac clP := cbn [pcf hss_bad crea_bad eqst g_hsl g_hst g_hss g_crea g_shclose g_snclose g_snpre g_sn g_snc g_snr g_snd g_int g_canc downb qempty bz].
Ltac clP_all := cbn [pcf hss_bad crea_bad eqst g_hsl g_hst g_hss g_crea g_shclose g_snclose g_snpre g_sn g_snc g_snr g_snd g_int g_canc downb qempty bz] in *.

Lemma snr_le x : pcf g_snr x <= pcf g_sn x. Proof. cbn [pcf]. destruct (pc x); cbn; lia. Qed.
Lemma snc_le x : pcf g_snc x <= pcf g_sn x. Proof. cbn [pcf]. destruct (pc x); cbn; lia. Qed.
Lemma snd_le x : pcf g_snd x <= pcf g_sn x. Proof. cbn [pcf]. destruct (pc x); cbn; lia. Qed.
Lemma snpre_le x : pcf g_snpre x <= pcf g_sn x. Proof. cbn [pcf]. destruct (pc x); cbn; lia. Qed.
Lemma snclose_le x : pcf g_snclose x <= pcf g_sn x. Proof. cbn [pcf]. destruct (pc x); cbn; lia. Qed.

Lemma tsum_hss_le pv l : tsum (hss_bad pv) l <= tsum (pcf g_hsl) l.
Proof. apply tsum_le, hss_bad_le. Qed.
Lemma tsum_hst_le l : tsum (pcf g_hst) l <= tsum (pcf g_hsl) l.
Proof. apply tsum_le, hst_le. Qed.

Lemma invP_step c e c' : invB c -> invP c -> pstep_cfg c e = Some c' -> invP c'.
Proof.
  intros HB [I0 I1 I2 I3 I4 I5 I6 I7 I8 I9 I10 I11 I12 I13 I14 I15 I16 I17 I18 I19 I20 I21 I22 I23 I24 I25 I26 I27 I28 I29 I30 I31 I32] Hstep.
  destruct (step_cases _ _ _ Hstep) as [(t & op & -> & Hl & Hb & -> & _)|(th & o & obs & Hl & Ho & Ha)].
  - constructor; cbn [call_cfg c_thr c_sh c_gh]; rewrite ?tsum_spawn; unfold enter;
      destruct op; clP; msimp; cbn [enter0]; msimp; clP; break_if; rewrite ?Z.add_0_r; assumption.
  - apply (invP_of_G c (ev_tid e) th o c' obs Hl Ha).
    pose proof (b_sl c HB) as B5.
    pose proof (tsum_ge_lookup (pcf g_shclose) _ _ _ (pcf_nonneg _ g_shclose_nn) Hl) as N0.
    pose proof (tsum_ge_lookup (pcf g_sn) _ _ _ (pcf_nonneg _ g_sn_nn) Hl) as N1.
    pose proof (tsum_ge_lookup (pcf g_snc) _ _ _ (pcf_nonneg _ g_snc_nn) Hl) as N2.
    pose proof (tsum_ge_lookup (pcf g_snr) _ _ _ (pcf_nonneg _ g_snr_nn) Hl) as N3.
    pose proof (tsum_ge_lookup (pcf g_canc) _ _ _ (pcf_nonneg _ g_canc_nn) Hl) as N4.
    pose proof (tsum_ge_lookup (pcf g_snclose) _ _ _ (pcf_nonneg _ g_snclose_nn) Hl) as N5.
    pose proof (tsum_ge_lookup (pcf g_snpre) _ _ _ (pcf_nonneg _ g_snpre_nn) Hl) as N6.
    pose proof (tsum_ge_lookup (pcf g_snd) _ _ _ (pcf_nonneg _ g_snd_nn) Hl) as N7.
    pose proof (tsum_ge_lookup (hss_bad (s_prev (c_sh c))) _ _ _ (hss_bad_nn (s_prev (c_sh c))) Hl) as N8.
    pose proof (tsum_ge_lookup (pcf g_hst) _ _ _ (pcf_nonneg _ g_hst_nn) Hl) as N9.
    pose proof (tsum_ge_lookup crea_bad _ _ _ crea_bad_nn Hl) as N10.
    pose proof (tsum_nonneg _ (c_thr c) (hss_bad_nn SCreated)) as Hh1.
    pose proof (tsum_nonneg _ (c_thr c) (hss_bad_nn SRunning)) as Hh2.
    pose proof (tsum_hss_le SCreated (c_thr c)) as Hh3.
    pose proof (tsum_hss_le SRunning (c_thr c)) as Hh4.
    pose proof (tsum_hst_le (c_thr c)) as Hh5.
    pose proof (tsum_le_rest _ _ _ _ _ (hss_bad_le SCreated) Hl) as Hh7.
    pose proof (tsum_le_rest _ _ _ _ _ (hss_bad_le SRunning) Hl) as Hh8.
    pose proof (tsum_le_rest _ _ _ _ _ hst_le Hl) as Hh9.
    pose proof (tsum_le_rest _ _ _ _ _ snr_le Hl) as Hs1.
    pose proof (tsum_le_rest _ _ _ _ _ snc_le Hl) as Hs2.
    pose proof (tsum_le_rest _ _ _ _ _ snd_le Hl) as Hs3.
    pose proof (tsum_le_rest _ _ _ _ _ snpre_le Hl) as Hs4.
    pose proof (tsum_le_rest _ _ _ _ _ snclose_le Hl) as Hs5.
    pose proof (tsum_ge_lookup (pcf g_hsl) _ _ _ (pcf_nonneg _ g_hsl_nn) Hl) as Hh6.
    clear Ha Hl Hstep HB.
    destruct e as [t op|t ch|t|t|t]; cbn [ev_out ev_tid] in *; [discriminate Ho| | | |];
      generalize dependent (parked_of (c_thr c)); intros pk; intros;
      generalize dependent (c_par c); intros P; intros;
      destruct (c_sh c) as [st pv q cl tot run mp gn bw br gw gr idc ictx];
      destruct (c_gh c) as [gsent gstarted gdone gret gacc grej gstarts gshuts gnow ggrace gbegan gshut];
      cbn [s_state s_prev s_q s_closed s_ictx g_now g_grace g_began g_shut] in *;
      pose proof (bz_range cl) as Rcl; pose proof (bz_range ictx) as Rictx; pose proof (bz_range gnow) as Rgnow;
      pose proof (bz_range ggrace) as Rggrace; pose proof (bz_range gbegan) as Rgbegan; pose proof (bz_range gshut) as Rgshut;
      pose proof (bz_range (qempty q)) as Rq;
      [ pstep_split Ho th ch
      | destruct (l_cancel th); [discriminate Ho|injection Ho as <-]
      | destruct (l_tm th); try discriminate Ho; injection Ho as <-; unfold is_parked in *; destruct (pc th) eqn:Hpc
      | destruct (pc th) eqn:Hpc; try discriminate Ho; injection Ho as <- ].
    all: unfold invP_G; repeat match goal with |- _ /\ _ => split end.
    all: unfold_helpers; msimp; clP; unfold_helpers; msimp; rewrite ?Hpc; clP; break_if; msimp; clP; rewrite ?upd_same, ?qempty_snoc; try assumption.
    all: msimp_all; clP_all; unfold_helpers; msimp_all; rewrite ?Hpc in *; clP_all; unfold upd in *; bz_goal_ranges.
    all: first [ lia | break_hyp; msimp_all; clP_all; try discriminate; lia | destruct st; try discriminate; msimp_all; clP_all; break_hyp; msimp_all; clP_all; try discriminate; first [ lia | destruct pv; msimp_all; clP_all; break_hyp; msimp_all; clP_all; try discriminate; lia ] | fail ].
Qed.
