(* Proofs about SliceModel (C16), part 1: the set functions, their predicate-taking
   variants, and index / find / map. *)
From Ekit Require Import Common SliceModel.
From Coq Require Import ZifyBool Sorted.

Lemma bool_false_iff (b : bool) (P : Prop) : (b = true <-> P) -> (b = false <-> ~ P).
Proof.
  intros [H1 H2]. destruct b; split.
  - intros Hd. discriminate Hd.
  - intros Hn. exfalso. apply Hn. apply H1. reflexivity.
  - intros _ HP. specialize (H2 HP). discriminate H2.
  - intros _. reflexivity.
Qed.

(* ---------- map[T]struct{} as a duplicate-free list ---------- *)
Lemma set_mem_In x s : set_mem x s = true <-> In x s.
Proof.
  unfold set_mem. rewrite existsb_exists. split.
  - intros [y [Hy He]]. apply Z.eqb_eq in He. subst y. exact Hy.
  - intros Hx. exists x. split; [exact Hx|apply Z.eqb_refl].
Qed.

Lemma set_mem_false x s : set_mem x s = false <-> ~ In x s.
Proof. apply bool_false_iff. apply set_mem_In. Qed.

Lemma set_put_In x y s : In y (set_put x s) <-> y = x \/ In y s.
Proof.
  unfold set_put. destruct (set_mem x s) eqn:Hm.
  - apply set_mem_In in Hm. split; [intros Hy; right; exact Hy|].
    intros [He|Hy]; [subst y; exact Hm|exact Hy].
  - rewrite in_app_iff. cbn [In]. split.
    + intros [Hy|[He|[]]]; [right; exact Hy|left; symmetry; exact He].
    + intros [He|Hy]; [right; left; symmetry; exact He|left; exact Hy].
Qed.

Lemma NoDup_snoc (x : Z) s : NoDup s -> ~ In x s -> NoDup (s ++ [x]).
Proof.
  intros Hn Hx. induction Hn as [|y t Hy Hn IH].
  - cbn. constructor; [intros []|constructor].
  - cbn. constructor.
    + rewrite in_app_iff. cbn [In]. intros [Hc|[Hc|[]]]; [exact (Hy Hc)|].
      apply Hx. left. symmetry. exact Hc.
    + apply IH. intros Hc. apply Hx. right. exact Hc.
Qed.

Lemma set_put_NoDup x s : NoDup s -> NoDup (set_put x s).
Proof.
  intros Hn. unfold set_put. destruct (set_mem x s) eqn:Hm; [exact Hn|].
  apply NoDup_snoc; [exact Hn|]. apply set_mem_false. exact Hm.
Qed.

Lemma set_del_In x y s : In y (set_del x s) <-> In y s /\ y <> x.
Proof.
  unfold set_del. rewrite filter_In. split; intros [Hy Hne]; split; try exact Hy.
  - intros He. subst y. rewrite Z.eqb_refl in Hne. discriminate.
  - destruct (Z.eqb_spec x y) as [He|He]; [exfalso; apply Hne; symmetry; exact He|reflexivity].
Qed.

Lemma set_del_NoDup x s : NoDup s -> NoDup (set_del x s).
Proof. intros Hn. unfold set_del. apply NoDup_filter. exact Hn. Qed.

Lemma fold_put_In l : forall s y,
  In y (fold_left (fun s x => set_put x s) l s) <-> In y s \/ In y l.
Proof.
  induction l as [|a t IH]; intros s y; cbn [fold_left In].
  - split; [intros H; left; exact H|intros [H|[]]; exact H].
  - rewrite IH, set_put_In. split.
    + intros [[He|Hs]|Ht]; [right; left; symmetry; exact He|left; exact Hs|right; right; exact Ht].
    + intros [Hs|[He|Ht]]; [left; right; exact Hs|left; left; symmetry; exact He|right; exact Ht].
Qed.

Lemma fold_put_NoDup l : forall s, NoDup s -> NoDup (fold_left (fun s x => set_put x s) l s).
Proof.
  induction l as [|a t IH]; intros s Hn; cbn [fold_left]; [exact Hn|].
  apply IH. apply set_put_NoDup. exact Hn.
Qed.

Lemma to_set_In l y : In y (to_set l) <-> In y l.
Proof.
  unfold to_set. rewrite fold_put_In. cbn [In]. split; [intros [[]|H]; exact H|intros H; right; exact H].
Qed.

Lemma to_set_NoDup l : NoDup (to_set l).
Proof. unfold to_set. apply fold_put_NoDup. constructor. Qed.

(* ---------- UnionSet ---------- *)
Lemma union_set_In_lemma src dst x : In x (union_set src dst) <-> In x src \/ In x dst.
Proof.
  unfold union_set. rewrite fold_put_In, !to_set_In. split; intros [H|H]; [right|left|right|left]; exact H.
Qed.
Lemma union_set_NoDup_lemma src dst : NoDup (union_set src dst).
Proof. unfold union_set. apply fold_put_NoDup. apply to_set_NoDup. Qed.

(* ---------- IntersectSet ---------- *)
Lemma intersect_set_In_lemma src dst x : In x (intersect_set src dst) <-> In x src /\ In x dst.
Proof.
  unfold intersect_set, deduplicate. rewrite to_set_In, filter_In, set_mem_In, to_set_In.
  split; intros [H1 H2]; split; assumption.
Qed.
Lemma intersect_set_NoDup_lemma src dst : NoDup (intersect_set src dst).
Proof. unfold intersect_set, deduplicate. apply to_set_NoDup. Qed.

(* ---------- DiffSet ---------- *)
Lemma fold_del_In l : forall s y,
  In y (fold_left (fun s v => set_del v s) l s) <-> In y s /\ ~ In y l.
Proof.
  induction l as [|a t IH]; intros s y; cbn [fold_left In].
  - split; [intros H; split; [exact H|intros []]|intros [H _]; exact H].
  - rewrite IH, set_del_In. split.
    + intros [[Hs Hne] Ht]. split; [exact Hs|]. intros [He|Hc]; [apply Hne; symmetry; exact He|exact (Ht Hc)].
    + intros [Hs Hn]. split; [split; [exact Hs|]|].
      * intros He. apply Hn. left. symmetry. exact He.
      * intros Hc. apply Hn. right. exact Hc.
Qed.
Lemma fold_del_NoDup l : forall s, NoDup s -> NoDup (fold_left (fun s v => set_del v s) l s).
Proof.
  induction l as [|a t IH]; intros s Hn; cbn [fold_left]; [exact Hn|].
  apply IH. apply set_del_NoDup. exact Hn.
Qed.
Lemma diff_set_In_lemma src dst x : In x (diff_set src dst) <-> In x src /\ ~ In x dst.
Proof. unfold diff_set. rewrite fold_del_In, to_set_In. reflexivity. Qed.
Lemma diff_set_NoDup_lemma src dst : NoDup (diff_set src dst).
Proof. unfold diff_set. apply fold_del_NoDup. apply to_set_NoDup. Qed.

(* ---------- SymmetricDiffSet ---------- *)
Definition toggle (s : list Z) (k : Z) : list Z := if set_mem k s then set_del k s else set_put k s.

Lemma toggle_In s k y : In y (toggle s k) <-> (In y s /\ y <> k) \/ (y = k /\ ~ In k s).
Proof.
  unfold toggle. destruct (set_mem k s) eqn:Hm.
  - apply set_mem_In in Hm. rewrite set_del_In. split.
    + intros H. left. exact H.
    + intros [H|[_ Hn]]; [exact H|exfalso; exact (Hn Hm)].
  - apply set_mem_false in Hm. rewrite set_put_In. split.
    + intros [He|Hs].
      * right. split; [exact He|exact Hm].
      * left. split; [exact Hs|]. intros He. subst y. exact (Hm Hs).
    + intros [[Hs _]|[He _]]; [right; exact Hs|left; exact He].
Qed.
Lemma toggle_NoDup s k : NoDup s -> NoDup (toggle s k).
Proof.
  intros Hn. unfold toggle. destruct (set_mem k s); [apply set_del_NoDup|apply set_put_NoDup]; exact Hn.
Qed.

Lemma fold_toggle_In d : NoDup d -> forall s y,
  In y (fold_left toggle d s) <-> (In y s /\ ~ In y d) \/ (~ In y s /\ In y d).
Proof.
  intros Hd. induction Hd as [|k t Hk Hd IH]; intros s y; cbn [fold_left In].
  - split; [intros H; left; split; [exact H|intros []]|intros [[H _]|[_ []]]; exact H].
  - rewrite IH, toggle_In.
    destruct (Z.eq_dec y k) as [He|Hne].
    + subst y. split.
      * intros [[[[Hs Hc]|[_ Hns]] _]|[_ Hc]]; [exfalso; apply Hc; reflexivity| |exfalso; exact (Hk Hc)].
        right. split; [exact Hns|left; reflexivity].
      * intros [[Hs Hn]|[Hns _]]; [exfalso; apply Hn; left; reflexivity|].
        left. split; [right; split; [reflexivity|exact Hns]|exact Hk].
    + split.
      * intros [[[[Hs _]|[Hc _]] Hnt]|[Hn Ht]]; [|exfalso; exact (Hne Hc)|].
        -- left. split; [exact Hs|]. intros [Hc|Hc]; [apply Hne; symmetry; exact Hc|exact (Hnt Hc)].
        -- right. split; [|right; exact Ht]. intros Hs. apply Hn. left. split; [exact Hs|exact Hne].
      * intros [[Hs Hn]|[Hns [Hc|Ht]]]; [| exfalso; apply Hne; symmetry; exact Hc|].
        -- left. split; [left; split; [exact Hs|exact Hne]|]. intros Hc. apply Hn. right. exact Hc.
        -- right. split; [|exact Ht]. intros [[Hs _]|[Hc _]]; [exact (Hns Hs)|exact (Hne Hc)].
Qed.
Lemma fold_toggle_NoDup d : forall s, NoDup s -> NoDup (fold_left toggle d s).
Proof.
  induction d as [|k t IH]; intros s Hn; cbn [fold_left]; [exact Hn|].
  apply IH. apply toggle_NoDup. exact Hn.
Qed.

Lemma symdiff_set_In_lemma src dst x :
  In x (symdiff_set src dst) <-> (In x src /\ ~ In x dst) \/ (~ In x src /\ In x dst).
Proof.
  unfold symdiff_set. change (fun s k => if set_mem k s then set_del k s else set_put k s) with toggle.
  rewrite fold_toggle_In by apply to_set_NoDup. rewrite !to_set_In. reflexivity.
Qed.
Lemma symdiff_set_NoDup_lemma src dst : NoDup (symdiff_set src dst).
Proof.
  unfold symdiff_set. change (fun s k => if set_mem k s then set_del k s else set_put k s) with toggle.
  apply fold_toggle_NoDup. apply to_set_NoDup.
Qed.

(* ---------- ContainsAny / ContainsAll ---------- *)
Lemma contains_any_lemma src dst : contains_any src dst = true <-> exists x, In x src /\ In x dst.
Proof.
  unfold contains_any. rewrite existsb_exists. split.
  - intros [x [Hd Hm]]. apply (proj1 (set_mem_In _ _)) in Hm. apply (proj1 (to_set_In _ _)) in Hm.
    exists x. split; [exact Hm|exact Hd].
  - intros [x [Hs Hd]]. exists x. split; [exact Hd|].
    apply (proj2 (set_mem_In _ _)). apply (proj2 (to_set_In _ _)). exact Hs.
Qed.
Lemma contains_all_lemma src dst : contains_all src dst = true <-> forall x, In x dst -> In x src.
Proof.
  unfold contains_all. rewrite forallb_forall. split.
  - intros H x Hd. apply (proj1 (to_set_In _ _)). apply (proj1 (set_mem_In _ _)). apply H. exact Hd.
  - intros H x Hd. apply (proj2 (set_mem_In _ _)). apply (proj2 (to_set_In _ _)). apply H. exact Hd.
Qed.

(* ---------- predicate-taking variants ---------- *)
Lemma contains_func_eqb l v : contains_func l (fun s => Z.eqb s v) = true <-> In v l.
Proof.
  unfold contains_func. rewrite existsb_exists. split.
  - intros [y [Hy He]]. apply Z.eqb_eq in He. subst y. exact Hy.
  - intros Hv. exists v. split; [exact Hv|apply Z.eqb_refl].
Qed.
Lemma contains_func_eqb_false l v : contains_func l (fun s => Z.eqb s v) = false <-> ~ In v l.
Proof. apply bool_false_iff. apply contains_func_eqb. Qed.

(* for every `equal`: the result is a sub-list of the input, order preserved *)
Lemma deduplicate_func_incl equal l x : In x (deduplicate_func equal l) -> In x l.
Proof.
  induction l as [|v t IH]; cbn [deduplicate_func]; [intros []|].
  destruct (contains_func t (fun s => equal s v)).
  - intros H. right. apply IH. exact H.
  - intros [He|H]; [left; exact He|right; apply IH; exact H].
Qed.

Lemma deduplicate_func_In l x : In x (deduplicate_func Z.eqb l) <-> In x l.
Proof.
  induction l as [|v t IH]; cbn [deduplicate_func]; [reflexivity|].
  destruct (contains_func t (fun s => Z.eqb s v)) eqn:Hc.
  - apply contains_func_eqb in Hc. rewrite IH. cbn [In]. split; [intros H; right; exact H|].
    intros [He|H]; [subst x; exact Hc|exact H].
  - cbn [In]. rewrite IH. reflexivity.
Qed.
Lemma deduplicate_func_NoDup l : NoDup (deduplicate_func Z.eqb l).
Proof.
  induction l as [|v t IH]; cbn [deduplicate_func]; [constructor|].
  destruct (contains_func t (fun s => Z.eqb s v)) eqn:Hc; [exact IH|].
  apply contains_func_eqb_false in Hc. constructor; [|exact IH].
  intros Hin. apply Hc. apply deduplicate_func_In. exact Hin.
Qed.

(* the LAST occurrence is the one that is kept: appending v removes every earlier v *)
Lemma contains_func_snoc l v a :
  contains_func (l ++ [v]) (fun s => Z.eqb s a) = contains_func l (fun s => Z.eqb s a) || Z.eqb v a.
Proof. unfold contains_func. rewrite existsb_app. cbn [existsb]. rewrite orb_false_r. reflexivity. Qed.

Lemma deduplicate_func_snoc_lemma l v :
  deduplicate_func Z.eqb (l ++ [v]) =
  filter (fun y => negb (Z.eqb y v)) (deduplicate_func Z.eqb l) ++ [v].
Proof.
  induction l as [|a t IH]; [reflexivity|].
  cbn [app deduplicate_func]. rewrite contains_func_snoc.
  destruct (Z.eqb_spec v a) as [He|Hne].
  - subst a. rewrite orb_true_r, IH.
    destruct (contains_func t (fun s => Z.eqb s v)); [reflexivity|].
    cbn [filter]. rewrite Z.eqb_refl. reflexivity.
  - rewrite orb_false_r.
    destruct (contains_func t (fun s => Z.eqb s a)); [exact IH|].
    cbn [filter]. destruct (Z.eqb_spec a v) as [Hc|_]; [exfalso; apply Hne; symmetry; exact Hc|].
    cbn [negb app]. rewrite IH. reflexivity.
Qed.

Lemma union_set_func_In_lemma src dst x : In x (union_set_func Z.eqb src dst) <-> In x (union_set src dst).
Proof.
  unfold union_set_func. rewrite deduplicate_func_In, in_app_iff, union_set_In_lemma.
  split; intros [H|H]; [right|left|right|left]; exact H.
Qed.

Lemma filter_contains_In (other l : list Z) x :
  In x (filter (fun v => contains_func other (fun t => Z.eqb t v)) l) <-> In x l /\ In x other.
Proof. rewrite filter_In, contains_func_eqb. reflexivity. Qed.
Lemma filter_not_contains_In (other l : list Z) x :
  In x (filter (fun v => negb (contains_func other (fun t => Z.eqb t v))) l) <-> In x l /\ ~ In x other.
Proof.
  rewrite filter_In, negb_true_iff, contains_func_eqb_false. reflexivity.
Qed.

Lemma intersect_set_func_In_lemma src dst x :
  In x (intersect_set_func Z.eqb src dst) <-> In x (intersect_set src dst).
Proof.
  unfold intersect_set_func. rewrite deduplicate_func_In, filter_contains_In, intersect_set_In_lemma.
  split; intros [H1 H2]; split; assumption.
Qed.
Lemma diff_set_func_In_lemma src dst x : In x (diff_set_func Z.eqb src dst) <-> In x (diff_set src dst).
Proof.
  unfold diff_set_func. rewrite deduplicate_func_In, filter_not_contains_In, diff_set_In_lemma. reflexivity.
Qed.
Lemma symdiff_set_func_In_lemma src dst x :
  In x (symdiff_set_func Z.eqb src dst) <-> In x (symdiff_set src dst).
Proof.
  unfold symdiff_set_func.
  rewrite deduplicate_func_In, in_app_iff, !filter_not_contains_In, symdiff_set_In_lemma.
  split; intros [[H1 H2]|[H1 H2]]; [left|right|left|right]; split; assumption.
Qed.

Lemma bool_eq_iff (a b : bool) : (a = true <-> b = true) -> a = b.
Proof.
  intros [H1 H2]. destruct a, b; try reflexivity.
  - symmetry. apply H1. reflexivity.
  - apply H2. reflexivity.
Qed.

Lemma contains_any_func_lemma src dst : contains_any_func Z.eqb src dst = contains_any src dst.
Proof.
  apply bool_eq_iff. rewrite contains_any_lemma. unfold contains_any_func. rewrite existsb_exists. split.
  - intros [vd [Hd Hs]]. exists vd. split; [|exact Hd].
    apply (proj1 (contains_func_eqb src vd)). exact Hs.
  - intros [x [Hs Hd]]. exists x. split; [exact Hd|].
    apply (proj2 (contains_func_eqb src x)). exact Hs.
Qed.
Lemma contains_all_func_lemma src dst : contains_all_func Z.eqb src dst = contains_all src dst.
Proof.
  apply bool_eq_iff. rewrite contains_all_lemma. unfold contains_all_func. rewrite forallb_forall. split.
  - intros H x Hd. apply (proj1 (contains_func_eqb src x)). apply H. exact Hd.
  - intros H x Hd. apply (proj2 (contains_func_eqb src x)). apply H. exact Hd.
Qed.
Lemma contains_lemma src x : contains src x = true <-> In x src.
Proof. unfold contains. apply contains_func_eqb. Qed.
Lemma contains_func_lemma src p : contains_func src p = true <-> exists x, In x src /\ p x = true.
Proof. unfold contains_func. apply existsb_exists. Qed.

(* ---------- nth_opt is nth_error ---------- *)
Lemma nth_opt_nth_error {A} (l : list A) : forall n, nth_opt l n = nth_error l n.
Proof.
  induction l as [|x t IH]; intros [|n]; cbn [nth_opt nth_error]; try reflexivity. apply IH.
Qed.

(* ---------- Index / LastIndex / IndexAll ---------- *)
Section MatchProofs.
  Variable mt : Z -> bool.

  Definition matches_at (l : list Z) (i : nat) : bool :=
    match nth_opt l i with Some v => mt v | None => false end.

  Lemma index_from_spec l : forall k,
    (index_from mt l k = -1 /\ forall x, In x l -> mt x = false) \/
    (exists n, index_from mt l k = k + Z.of_nat n /\ matches_at l n = true /\
               forall j, (j < n)%nat -> matches_at l j = false).
  Proof.
    induction l as [|v t IH]; intros k; cbn [index_from].
    - left. split; [reflexivity|intros x []].
    - destruct (mt v) eqn:Hv.
      + right. exists O. split; [lia|]. split; [unfold matches_at; cbn [nth_opt]; exact Hv|].
        intros j Hj. lia.
      + destruct (IH (k + 1)) as [[He Hall]|[n [He [Hm Hlt]]]].
        * left. split; [exact He|]. intros x [Hx|Hx]; [subst x; exact Hv|apply Hall; exact Hx].
        * right. exists (S n). split; [lia|]. split; [exact Hm|].
          intros [|j] Hj; [unfold matches_at; cbn [nth_opt]; exact Hv|].
          apply (Hlt j). lia.
  Qed.

  (* Index: the first matching position, or -1 when nothing matches *)
  Lemma index_func_lemma l :
    (index_func mt l = -1 /\ forall x, In x l -> mt x = false) \/
    (exists n, index_func mt l = Z.of_nat n /\ matches_at l n = true /\
               forall j, (j < n)%nat -> matches_at l j = false).
  Proof.
    unfold index_func. destruct (index_from_spec l 0) as [H|[n [He H]]]; [left; exact H|].
    right. exists n. split; [lia|exact H].
  Qed.

  Lemma nth_opt_lt_Some (l : list Z) i : (i < length l)%nat -> exists v, nth_opt l i = Some v.
  Proof.
    intros Hi. rewrite nth_opt_nth_error. destruct (nth_error l i) as [v|] eqn:He; [exists v; reflexivity|].
    apply nth_error_None in He. lia.
  Qed.

  Lemma last_index_loop_spec l : forall n, (n <= length l)%nat ->
    (last_index_loop mt l n = Ok (-1) /\ forall j, (j < n)%nat -> matches_at l j = false) \/
    (exists i, (i < n)%nat /\ last_index_loop mt l n = Ok (Z.of_nat i) /\ matches_at l i = true /\
               forall j, (i < j < n)%nat -> matches_at l j = false).
  Proof.
    induction n as [|i IH]; intros Hn; cbn [last_index_loop].
    - left. split; [reflexivity|]. intros j Hj. lia.
    - destruct (nth_opt_lt_Some l i) as [v Hv]; [lia|].
      unfold get_chk. rewrite Hv. cbn [obind].
      destruct (mt v) eqn:Hm.
      + right. exists i. split; [lia|]. split; [reflexivity|].
        split; [unfold matches_at; rewrite Hv; exact Hm|]. intros j Hj. lia.
      + destruct IH as [[He Hall]|[i0 [Hi0 [He [Hm0 Hgt]]]]]; [lia| |].
        * left. split; [exact He|]. intros j Hj.
          destruct (Nat.eq_dec j i) as [Hji|Hji]; [subst j; unfold matches_at; rewrite Hv; exact Hm|].
          apply Hall. lia.
        * right. exists i0. split; [lia|]. split; [exact He|]. split; [exact Hm0|].
          intros j Hj. destruct (Nat.eq_dec j i) as [Hji|Hji]; [subst j; unfold matches_at; rewrite Hv; exact Hm|].
          apply Hgt. lia.
  Qed.

  (* LastIndex: never panics; the last matching position, or -1 *)
  Lemma last_index_func_lemma l :
    (last_index_func mt l = Ok (-1) /\ forall x, In x l -> mt x = false) \/
    (exists i, (i < length l)%nat /\ last_index_func mt l = Ok (Z.of_nat i) /\ matches_at l i = true /\
               forall j, (i < j)%nat -> matches_at l j = false).
  Proof.
    unfold last_index_func. destruct (last_index_loop_spec l (length l) (le_n _)) as [[He Hall]|[i [Hi [He [Hm Hgt]]]]].
    - left. split; [exact He|]. intros x Hx. apply In_nth_error in Hx. destruct Hx as [j Hj].
      assert (Hlt : (j < length l)%nat) by (apply nth_error_Some; rewrite Hj; discriminate).
      specialize (Hall j Hlt). unfold matches_at in Hall. rewrite nth_opt_nth_error, Hj in Hall. exact Hall.
    - right. exists i. split; [exact Hi|]. split; [exact He|]. split; [exact Hm|].
      intros j Hj. destruct (Nat.lt_ge_cases j (length l)) as [Hlt|Hge]; [apply Hgt; lia|].
      unfold matches_at. rewrite nth_opt_nth_error. rewrite (proj2 (nth_error_None l j) Hge). reflexivity.
  Qed.

  Lemma index_all_from_spec l : forall k,
    index_all_from mt l k = map (fun i => k + Z.of_nat i) (filter (matches_at l) (seq 0 (length l))).
  Proof.
    induction l as [|v t IH]; intros k; cbn [index_all_from length seq filter map]; [reflexivity|].
    assert (Hshift : filter (matches_at (v :: t)) (seq 1 (length t)) = map S (filter (matches_at t) (seq 0 (length t)))).
    { rewrite <- seq_shift. generalize (seq 0 (length t)) as js. intros js.
      induction js as [|j js IHj]; [reflexivity|]. cbn [map filter].
      change (matches_at (v :: t) (S j)) with (matches_at t j).
      destruct (matches_at t j); cbn [map]; rewrite IHj; reflexivity. }
    change (matches_at (v :: t) 0) with (mt v). rewrite Hshift, IH.
    assert (Hmap : map (fun i => k + 1 + Z.of_nat i) (filter (matches_at t) (seq 0 (length t))) =
                   map (fun i => k + Z.of_nat i) (map S (filter (matches_at t) (seq 0 (length t))))).
    { rewrite map_map. apply map_ext. intros a. lia. }
    rewrite Hmap. destruct (mt v); cbn [map]; [f_equal; lia|reflexivity].
  Qed.

  (* IndexAll: exactly the matching positions, ascending *)
  Lemma index_all_func_lemma l :
    index_all_func mt l = map Z.of_nat (filter (matches_at l) (seq 0 (length l))).
  Proof. unfold index_all_func. rewrite index_all_from_spec. apply map_ext. intros a. lia. Qed.

  Lemma find_lemma l :
    find mt l = match List.find mt l with Some v => (v, true) | None => (0, false) end.
  Proof.
    induction l as [|v t IH]; cbn [find List.find]; [reflexivity|]. destruct (mt v); [reflexivity|exact IH].
  Qed.
  Lemma find_all_lemma l : find_all mt l = filter mt l.
  Proof.
    induction l as [|v t IH]; cbn [find_all filter]; [reflexivity|]. rewrite IH. reflexivity.
  Qed.
End MatchProofs.

(* ---------- FilterMap / Map ---------- *)
Definition enumerate (l : list Z) : list (Z * Z) := combine (map Z.of_nat (seq 0 (length l))) l.

Section IdxProofs.
  Variable mf : Z -> Z -> Z.
  Variable mp : Z -> Z -> bool.

  Lemma map_from_spec l : forall k,
    map_from mf l (Z.of_nat k) = map (fun iv => mf (fst iv) (snd iv)) (combine (map Z.of_nat (seq k (length l))) l).
  Proof.
    induction l as [|v t IH]; intros k; [reflexivity|].
    cbn [map_from length seq map combine fst snd]. f_equal.
    replace (Z.of_nat k + 1) with (Z.of_nat (S k)) by lia. apply IH.
  Qed.
  Lemma map_slice_lemma l : map_slice mf l = map (fun iv => mf (fst iv) (snd iv)) (enumerate l).
  Proof. unfold map_slice, enumerate. apply (map_from_spec l 0). Qed.

  Lemma filter_map_from_spec l : forall k,
    filter_map_from mf mp l (Z.of_nat k) =
    map (fun iv => mf (fst iv) (snd iv))
        (filter (fun iv => mp (fst iv) (snd iv)) (combine (map Z.of_nat (seq k (length l))) l)).
  Proof.
    induction l as [|v t IH]; intros k; [reflexivity|].
    cbn [filter_map_from length seq map combine filter fst snd].
    replace (Z.of_nat k + 1) with (Z.of_nat (S k)) by lia. rewrite IH.
    destruct (mp (Z.of_nat k) v); reflexivity.
  Qed.
  Lemma filter_map_lemma l :
    filter_map mf mp l = map (fun iv => mf (fst iv) (snd iv)) (filter (fun iv => mp (fst iv) (snd iv)) (enumerate l)).
  Proof. unfold filter_map, enumerate. apply (filter_map_from_spec l 0). Qed.
End IdxProofs.

Lemma map_slice_length mf l : length (map_slice mf l) = length l.
Proof.
  rewrite map_slice_lemma, map_length. unfold enumerate.
  rewrite combine_length, map_length, seq_length. lia.
Qed.
