(* PoolModel (pool.OnDemandBlockTaskPool), proofs for C12 / liveness side of C10 - B8: every layer holds in every reachable configuration; the five target theorems *)
From Ekit Require Import Common Conc PoolModel PoolProof PoolProof2 PoolProof4 PoolProof5 PoolProof6 PoolProof7 PoolProofB
  PoolProofB0 PoolProofBA PoolProofB1 PoolProofB2d PoolProofB2s PoolProofB2bd PoolProofB2bs PoolProofB3d PoolProofB3s PoolProofB4d PoolProofB4s PoolProofB5d PoolProofB5bs PoolProofB5s PoolProofB6 PoolProofBR PoolProofB7.
From Coq Require Import ZifyBool Arith PeanoNat.

Definition pfixed (P : params) : Prop := i_fixa P = true /\ i_fixb P = true.

Definition inv3 (P : params) (c : pcfg) : Prop :=
  c_par c = P /\ invA c /\ invB c /\ invP c /\ invQ c /\ invW c /\ invG c /\ invR c /\ invK2 c /\ invK c.

Lemma invK_init P : invK (pinit P).
Proof.
  constructor; cbn; try reflexivity; try lia.
Qed.
Lemma invK2_init P : invK2 (pinit P).
Proof. constructor. reflexivity. Qed.

  Lemma inv3_step P c e c' : pvalid P -> pfixed P -> inv3 P c -> pstep_cfg c e = Some c' -> inv3 P c'.
  Proof.
    intros (V1 & V2 & V3 & _) (Fa & Fb) (Hp & HA & HB & HP & HQ & HW & HG & HR & HK2 & HK) Hs.
    split; [rewrite (par_const _ _ _ Hs); exact Hp|].
    split; [eapply invA_step; eauto|]. split; [eapply invB_step; eauto|]. split; [eapply invP_step; eauto|].
    split; [eapply invQ_step; eauto|]. split; [eapply invW_step; eauto|].
    split; [eapply invG_step; eauto; rewrite Hp; lia|]. split; [eapply invR_step; eauto|].
    split; [eapply invK2_step; eauto|].
    eapply invK_step; eauto; rewrite Hp; assumption.
  Qed.

  Lemma inv3_reach P evs c : pvalid P -> pfixed P -> exec pstep_cfg (pinit P) evs = Some c -> inv3 P c.
  Proof.
    intros V F H.
    eapply (invariant_reachable _ _ pstep_cfg (inv3 P) (fun c0 e c1 => inv3_step P c0 e c1 V F) evs (pinit P) c); [|exact H].
    split; [reflexivity|]. split; [apply invA_init|]. split; [apply invB_init|]. split; [apply invP_init|].
    split; [apply invQ_init|]. split; [apply invW_init|]. split; [apply invG_init|]. split; [apply invR_init|].
    split; [apply invK2_init|apply invK_init].
  Qed.

  Theorem done_not_early_full P evs c : pvalid P -> pfixed P -> exec pstep_cfg (pinit P) evs = Some c ->
    g_grace (c_gh c) = true ->
    s_q (c_sh c) = [] /\ (forall t x, lookup t (c_thr c) = Some x -> g_cnt (pc x) = 0) /\
    (forall i, PoolProof.tsum (held i) (c_thr c) = 0) /\
    (forall i, In i (g_acc (c_gh c)) -> In i (g_done (c_gh c))).
  Proof.
    intros V F H Hg. destruct (inv3_reach P evs c V F H) as (_ & HA & _ & HP & _ & _ & _ & HR & _ & HK).
    exact (done_not_early_at P evs c H HA HP HK HR Hg).
  Qed.

  Theorem shutdown_completes_full P evs c : pvalid P -> pfixed P -> i_fixc P = true ->
    exec pstep_cfg (pinit P) evs = Some c -> g_shut (c_gh c) = true -> stuck c ->
    s_state (c_sh c) = SStopped /\ s_ictx (c_sh c) = true /\
    (forall i, In i (g_acc (c_gh c)) -> In i (g_done (c_gh c))).
  Proof.
    intros V F Fc H Hs Hst. destruct (inv3_reach P evs c V F H) as (_ & HA & HB & HP & HQ & _ & HG & HR & _ & HK).
    assert (H4 : Inv4 c) by (apply (inv4_reach P c Fc); exists evs; exact H).
    exact (shutdown_completes_at P evs c H HA HB HP HQ HG HK HR H4 Hst Hs).
  Qed.

  (* K in readable form: while the pool is running (or closing with work left), at least initGo of the workers
     counted in totalGo are not effective members of the timeout group (creations in progress included) *)
  Theorem workers_without_timer_ge_initgo_full P evs c : pvalid P -> pfixed P ->
    exec pstep_cfg (pinit P) evs = Some c ->
    s_state (c_sh c) = SRunning \/ (s_state (c_sh c) = SClosing /\ s_q (c_sh c) <> []) ->
    i_init P <= PoolProofB0.tsum (cnt_ning (s_mp (c_sh c))) (c_thr c) + PoolProofB0.tsum pend (c_thr c).
  Proof.
    intros V F H Hr. destruct (inv3_reach P evs c V F H) as (Hp & _ & HB & HP & _ & _ & _ & _ & _ & HK).
    pose proof (k_main c HK) as K. rewrite Hp in K.
    pose proof (p_nbegan1 c HP) as Nb. pose proof (p_down_began c HP) as Db. pose proof (p_closed c HP) as Cl.
    pose proof (b_sl c HB) as B5.
    pose proof (tsum_le _ _ (c_thr c) spa_le) as Sp.
    pose proof (tsum_nonneg _ (c_thr c) (pcf_nonneg _ g_spa_nn)) as Sn.
    pose proof (bz_range (g_began (c_gh c))). pose proof (bz_range (s_closed (c_sh c))).
    destruct Hr as [Hr|[Hr Hq]]; rewrite Hr in *; cbn [eqst pstate_eqb bz downb Z.b2z] in *.
    - destruct K as [K|[[K _]|K]]; [lia| |exact K]. rewrite K in Cl. cbn [bz] in Cl. lia.
    - destruct K as [K|[[_ K]|K]]; [lia| |exact K]. exfalso. apply Hq. apply qempty_nil. exact K.
  Qed.

  Theorem stuck_running_implies_queue_empty_full P evs c : pvalid P -> pfixed P -> i_fixc P = true ->
    exec pstep_cfg (pinit P) evs = Some c -> stuck c -> s_state (c_sh c) = SRunning -> s_q (c_sh c) = [].
  Proof.
    intros V F Fc H Hst Hr. destruct (inv3_reach P evs c V F H) as (Hp & HA & HB & HP & HQ & _ & HG & _ & _ & HK).
    assert (H4 : Inv4 c) by (apply (inv4_reach P c Fc); exists evs; exact H). destruct V as (V1 & _).
    exact (stuck_running_queue_empty_at P c Hp V1 HA HB HP HQ HG HK H4 Hst Hr).
  Qed.

  Theorem at_quiescence_none_lost_full P evs c : pvalid P -> pfixed P -> i_fixc P = true ->
    exec pstep_cfg (pinit P) evs = Some c -> g_began (c_gh c) = true ->
    g_shut (c_gh c) = true \/ g_now (c_gh c) = true -> stuck c ->
    forall i, In i (g_acc (c_gh c)) -> In i (g_done (c_gh c)) \/ In i (g_returned (c_gh c)).
  Proof.
    intros V F Fc H _ Hsn Hst. destruct (inv3_reach P evs c V F H) as (_ & HA & HB & HP & HQ & _ & HG & HR & _ & HK).
    assert (H4 : Inv4 c) by (apply (inv4_reach P c Fc); exists evs; exact H).
    exact (at_quiescence_none_lost_at P evs c H HA HB HP HQ HG HK HR H4 Hst Hsn).
  Qed.

(* ---------- K in the model's own bookkeeping ---------- *)
(* effective members of the group that have already executed their decrement: only inside b.mutex's write
   section (idle-timer exit), or on the interrupt branch, or impossible by the group invariant *)
Lemma igx_pointwise mp x :
  cnt_ning mp x - pcf g_cnt x + ing mp x <= pcf g_hbw x + badnz mp x + pcf g_int x.
Proof.
  cbn [cnt_ning ing pcf badnz]. destruct (zmem (l_wid x) mp).
  - destruct (pc x); cbn; try lia; destruct (l_flag x); lia.
  - pose proof (g_hbw_nn (pc x)). pose proof (g_int_nn (pc x)). lia.
Qed.
Lemma igx_sum mp l :
  tsum (cnt_ning mp) l - tsum (pcf g_cnt) l + tsum (ing mp) l <= tsum (pcf g_hbw) l + tsum (badnz mp) l + tsum (pcf g_int) l.
Proof. induction l as [|[t x] r IH]; cbn [tsum]; [lia|]. pose proof (igx_pointwise mp x). lia. Qed.
Lemma tsum_int_bad_false l : tsum (int_bad false) l = tsum (pcf g_int) l.
Proof. apply tsum_ext_in. intros t x _. reflexivity. Qed.

Theorem bookkeeping_ge_initgo_full P evs c : pvalid P -> pfixed P ->
  exec pstep_cfg (pinit P) evs = Some c ->
  s_state (c_sh c) = SRunning -> s_bw (c_sh c) = false ->
  i_init P <= s_total (c_sh c) - s_gn (c_sh c).
Proof.
  intros V F H Hr Hbw.
  pose proof (workers_without_timer_ge_initgo_full P evs c V F H (or_introl Hr)) as K.
  destruct (inv3_reach P evs c V F H) as (_ & _ & HB & HP & HQ & _ & HG & _ & _ & _).
  pose proof (d_total c HG) as Dt. pose proof (g_nzero c HG) as Gz. pose proof (b_bw c HB) as Bw.
  pose proof (q_int c HQ) as Qi. pose proof (p_ictx c HP) as Pi. rewrite Hr in Pi. cbn [eqst pstate_eqb bz] in Pi.
  assert (Hi : s_ictx (c_sh c) = false) by (destruct (s_ictx (c_sh c)); [cbn [bz] in Pi; lia|reflexivity]).
  rewrite Hi in Qi. rewrite tsum_int_bad_false in Qi. rewrite Hbw in Bw. cbn in Bw.
  destruct (g_gn c HG) as [E|Gn]; [rewrite Hi in E; discriminate E|].
  pose proof (igx_sum (s_mp (c_sh c)) (c_thr c)). lia.
Qed.
