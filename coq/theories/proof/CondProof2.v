(* CondModel (C13), second part: the node/token bookkeeping of the model is an instance of the
   abstract transitions of CondProofNodes.v; broadcast snapshot; the full invariant of every reachable
   configuration; the theorems of property C13. *)
From Ekit Require Import Common Conc CondModel CondProof CondProofNodes.
From Coq Require Import ZifyBool Arith PeanoNat.

Definition C_nodes (c : ccfg) : Prop :=
  NI (pm nodest (c_thr c)) (pm inflight (c_thr c)) (c_lst c) (c_tok c) (g_notified c) (c_pool c) (c_next c).

Lemma inflight_mu p f : inflight p = Some f -> holds_mu p = true.
Proof. destruct p; cbn; try discriminate; dctx; cbn; congruence. Qed.

Lemma nodest_mu p n ph : nodest p = Some (n, ph) -> ph = PhPre \/ ph = PhLinkMu \/ ph = PhSelf -> holds_mu p = true.
Proof.
  destruct p; cbn; try discriminate; dctx; cbn; try discriminate; try reflexivity;
    intros H; injection H as <- <-; intros [X|[X|X]]; discriminate X.
Qed.

Lemma excl_of_holder c t p :
  Inv c -> lookup t (c_thr c) = Some p -> holds_mu p = true ->
  excl (pm nodest (c_thr c)) (pm inflight (c_thr c)) t.
Proof.
  intros I Hl Hm.
  assert (Ht : lookup t (pm holds_mu (c_thr c)) = Some true) by (rewrite lookup_pm, Hl; cbn; rewrite Hm; reflexivity).
  split.
  - intros t0 f Hne H. unfold infl in H. apply lookup_pm_inv in H. destruct H as (p0 & Hl0 & Hf).
    pose proof (other_not_holder c t t0 p0 (i_mu c I) Ht Hne Hl0) as X. rewrite (inflight_mu _ _ Hf) in X. discriminate.
  - intros t0 n ph Hne H. unfold own in H. apply lookup_pm_inv in H. destruct H as (p0 & Hl0 & Hf).
    pose proof (other_not_holder c t t0 p0 (i_mu c I) Ht Hne Hl0) as X.
    destruct ph; try (left; reflexivity); try (right; reflexivity);
      rewrite (nodest_mu _ _ _ Hf) in X; try discriminate; tauto.
Qed.

Lemma remove_update_other {A} (l : list (tid * A)) t u x : u <> t -> remove t (update u x l) = update u x (remove t l).
Proof.
  intros Hne. induction l as [|[t' p'] r IH]; cbn [update remove]; [reflexivity|].
  destruct (Nat.eqb u t') eqn:E1; destruct (Nat.eqb t t') eqn:E2; cbn [update remove]; rewrite ?E1, ?E2; try reflexivity.
  - apply Nat.eqb_eq in E1, E2. congruence.
  - rewrite IH. reflexivity.
Qed.

Lemma remove_update_same {A} (l : list (tid * A)) t x : remove t (update t x l) = remove t l.
Proof.
  induction l as [|[t' p'] r IH]; cbn [update remove]; [reflexivity|].
  destruct (Nat.eqb t t') eqn:E; cbn [remove]; rewrite E; [reflexivity|rewrite IH; reflexivity].
Qed.

Lemma nodes_pres c e c' obs : Inv c -> C_nodes c -> cond_exec1 c e = Some (c', obs) -> C_nodes c'.
Proof.
  intros I HN H. pose proof (i_nodup c I) as Hnd. unfold C_nodes in *.
  assert (HndX : NoDup (tids (pm nodest (c_thr c)))) by (rewrite tids_pm; exact Hnd).
  assert (HndY : NoDup (tids (pm inflight (c_thr c)))) by (rewrite tids_pm; exact Hnd).
  destruct e as [t op|t o|t].
  - apply exec1_call_inv in H. destruct H as [Hl Hsh].
    assert (HX : lookup t (pm nodest (c_thr c)) = None) by (rewrite lookup_pm, Hl; reflexivity).
    assert (HY : lookup t (pm inflight (c_thr c)) = None) by (rewrite lookup_pm, Hl; reflexivity).
    destruct Hsh; scfg; rewrite ?pm_spawn; cbn [nodest inflight]; try (apply ni_spawn; assumption). exact HN.
  - open_step H p so Hl Hs.
    pose proof (lookup_pm_some nodest _ _ _ Hl) as HlX.
    pose proof (lookup_pm_some inflight _ _ _ Hl) as HlY.
    pose proof (excl_of_holder c t p I Hl) as Hex.
    destruct p; inv_step Hs; dctx; try wake_same inflight Hl Hnd;
      cbn [nodest inflight holds_mu] in HlX, HlY, Hex;
      try (rewrite (pm_update_same nodest _ _ _ _ Hl) by reflexivity;
           rewrite (pm_update_same inflight _ _ _ _ Hl) by reflexivity; exact HN);
      try (rewrite !pm_remove; apply ni_nodeless_remove; assumption).
    all: try match goal with E : c_lst _ = _ :: _ |- _ => rewrite <- E in HN end.
    all: try (rewrite (pm_update_same nodest _ _ _ _ Hl) by reflexivity;
              rewrite (pm_update_same inflight _ _ _ _ Hl) by reflexivity; exact HN).
    all: try specialize (Hex eq_refl).
    all: lazymatch type of Hl with
         | lookup _ _ = Some AL_Get =>
           (* a pooled node is reused *)
           match goal with E : take_nth _ _ = Some _ |- _ => destruct (take_nth_spec _ _ _ _ E) as (Hin & Hsub & Hndp) end;
           destruct (Hndp (o_pool_nd _ _ _ (n_owns _ _ _ _ _ _ _ HN))) as [Hnd' Hnin];
           rewrite (pm_update_same inflight _ _ _ _ Hl) by reflexivity; rewrite pm_update; cbn [nodest];
           eapply (ni_acquire _ _ _ _ _ (c_pool c) _ (c_next c)); [exact HlX|exact Hnd'|exact Hsub|exact Hnin| | |apply Nat.le_refl|exact HN];
           [ intros t0 ph Hown; eapply (o_pool_own _ _ _ (n_owns _ _ _ _ _ _ _ HN)); [exact Hin|exact Hown]
           | apply (o_pool_lt _ _ _ (n_owns _ _ _ _ _ _ _ HN)), Hin ]
         | lookup _ _ = Some AL_New =>
           rewrite (pm_update_same inflight _ _ _ _ Hl) by reflexivity; rewrite pm_update; cbn [nodest];
           eapply (ni_acquire _ _ _ _ _ (c_pool c) _ (c_next c)); [exact HlX|apply (o_pool_nd _ _ _ (n_owns _ _ _ _ _ _ _ HN))|auto| | |lia|lia|exact HN];
           [ intros Hi; pose proof (o_pool_lt _ _ _ (n_owns _ _ _ _ _ _ _ HN) _ Hi); lia
           | intros t0 ph Hown; pose proof (o_own_lt _ _ _ (n_owns _ _ _ _ _ _ _ HN) _ _ _ Hown); lia ]
         | lookup _ _ = Some (PB_3 _) =>
           rewrite (pm_update_same inflight _ _ _ _ Hl) by reflexivity; rewrite pm_update; cbn [nodest];
           apply ni_link; [exact HlX|exact HN]
         | lookup _ _ = Some (RM_1 RMWait _) =>
           rewrite (pm_update_same inflight _ _ _ _ Hl) by reflexivity; rewrite pm_update; cbn [nodest];
           apply ni_unlink_self; [exact HlX|exact HN]
         | lookup _ _ = Some (RM_1 (RMNext _) _) =>
           rewrite (pm_update_same nodest _ _ _ _ Hl) by reflexivity; rewrite pm_update; cbn [inflight];
           apply ni_unlink_notify;
           [ exact HlY
           | match goal with E : mem_nat _ _ = true |- _ => apply mem_nat_in, E end
           | exact Hex
           | intros n' ph' Hown; unfold own in Hown; rewrite HlX in Hown;
             first [discriminate Hown | injection Hown as _ <-; reflexivity]
           | exact HN ]
         | lookup _ _ = Some (FR_Put _ _) =>
           rewrite !pm_remove; apply ni_free; [exact HndX|exact HndY|exact HlX|exact HlY|exact HN]
         | lookup _ _ = Some (AD_Ret _) =>
           rewrite (pm_update_same inflight _ _ _ _ Hl) by reflexivity; rewrite pm_update; cbn [nodest];
           pose proof (n_link _ _ _ _ _ _ _ HN _ _ _ HlX) as Hlk; cbn in Hlk;
           eapply ni_rephase; [exact HlX|left; exact Hlk|reflexivity|reflexivity|left; reflexivity| |reflexivity|exact HN];
           intros _ Hn'; exfalso; exact (n_lst_ntf _ _ _ _ _ _ _ HN _ Hlk Hn')
         | lookup _ _ = Some (WT_Select _) =>
           match goal with E : andb _ _ = true |- _ => apply andb_prop in E; destruct E as [E _]; apply mem_nat_in in E;
             rewrite (pm_update_same inflight _ _ _ _ Hl) by reflexivity; rewrite pm_update; cbn [nodest];
             apply ni_consume; [exact HlX|exact E|exact HN] end
         | lookup _ _ = Some (WT_Select1 _) =>
           rewrite (pm_update_same inflight _ _ _ _ Hl) by reflexivity; rewrite pm_update; cbn [nodest];
           match goal with
           | E : mem_nat _ _ = true |- _ => apply mem_nat_in in E; apply ni_consume; [exact HlX|exact E|exact HN]
           | E : mem_nat _ _ = false |- _ =>
             apply mem_nat_notin in E;
             assert (Hnoinfl : forall t2, ~ infl (pm inflight (c_thr c)) t2 n);
             [ intros t2 Hf; destruct (Nat.eq_dec t2 t) as [->|Hne2];
               [unfold infl in Hf; rewrite HlY in Hf; discriminate Hf|exact (proj1 Hex _ _ Hne2 Hf)] |];
             assert (Hinl : In n (c_lst c));
             [ pose proof (n_link _ _ _ _ _ _ _ HN _ _ _ HlX) as Hlk; cbn in Hlk; destruct Hlk as [Hlk|Hlk]; [exact Hlk|];
               destruct (n_ntf_await _ _ _ _ _ _ _ HN _ _ HlX Hlk) as [X1|(t2 & X1)]; [contradiction|exfalso; exact (Hnoinfl _ X1)] |];
             eapply ni_rephase; [exact HlX|exact Hinl|reflexivity| | |discriminate| |exact HN];
             [ intros X1; contradiction
             | intros X1; exfalso; exact (n_lst_ntf _ _ _ _ _ _ _ HN _ Hinl X1)
             | intros (t2 & X1); exfalso; exact (Hnoinfl _ X1) ]
           end
         | _ => idtac
         end.
    (* the sends of notifyNext *)
    all: try match goal with Hf : find_parked ?n _ = Some ?u |- _ =>
           pose proof (find_parked_lookup _ _ _ Hnd Hf) as Hu;
           assert (Hut : u <> t) by (intros ->; rewrite Hl in Hu; discriminate);
           pose proof (lookup_pm_some nodest _ _ _ Hu) as HuX; cbn [nodest] in HuX end.
    all: rewrite ?pm_update, ?pm_remove; cbn [nodest inflight].
    all: rewrite ?(update_id _ _ _ HlX).
    all: try (apply ni_send_wake; [exact HlY|exact HuX|exact Hex|exact HN]).
    all: try (apply ni_send_buffer; [exact HlY|exact Hex|exact HN]).
    all: try (rewrite <- (remove_update_other _ t _ _ Hut)).
    all: rewrite <- (remove_update_same (pm inflight (c_thr c)) t None).
    all: apply ni_nodeless_remove; rewrite ?tids_update; try assumption.
    all: try (rewrite lookup_update_other by (intros X1; apply Hut; symmetry; exact X1); exact HlX).
    all: try (apply (lookup_update_same _ _ _ _ _ HlY)).
    all: try (apply ni_send_wake; [exact HlY|exact HuX|exact Hex|exact HN]).
    all: try (apply ni_send_buffer; [exact HlY|exact Hex|exact HN]).
  - apply exec1_cancel_inv in H. destruct H as (p & Hl & _ & _ & [(n & -> & ->)|[_ ->]]); scfg.
    + rewrite (pm_update_same nodest _ _ _ _ Hl) by reflexivity.
      rewrite (pm_update_same inflight _ _ _ _ Hl) by reflexivity. exact HN.
    + exact HN.
Qed.

(* ---------- Broadcast: the snapshot of the list taken when notifyAll locks l.mu ---------- *)
Definition C_bsnap (c : ccfg) : Prop :=
  forall t, lookup t (pm bcast_holding (c_thr c)) = Some true ->
    forall n, In n (g_bsnap c) ->
      In n (c_lst c) \/ In n (g_bsent c) \/ lookup t (pm inflight (c_thr c)) = Some (Some n).

Lemma bsnap_pres c e c' obs : Inv c -> C_bsnap c -> cond_exec1 c e = Some (c', obs) -> C_bsnap c'.
Proof.
  intros I HB H. pose proof (i_nodup c I) as Hnd. pose proof (i_mu c I) as HM. unfold C_bsnap in *.
  destruct e as [t op|t o|t].
  - apply exec1_call_inv in H. destruct H as [Hl Hsh].
    assert (Hsp : forall p0, bcast_holding p0 = false ->
       forall t0, lookup t0 (pm bcast_holding (spawn t p0 (c_thr c))) = Some true ->
       forall n, In n (g_bsnap c) -> In n (c_lst c) \/ In n (g_bsent c) \/
                 lookup t0 (pm inflight (spawn t p0 (c_thr c))) = Some (Some n)).
    { intros p0 Hp t0 X n Hn. rewrite pm_spawn, lookup_spawn in X.
      destruct (lookup t0 (pm bcast_holding (c_thr c))) eqn:E.
      - injection X as ->. destruct (HB _ E _ Hn) as [Y|[Y|Y]]; [left; exact Y|right; left; exact Y|].
        right; right. rewrite pm_spawn, lookup_spawn, Y. reflexivity.
      - destruct (Nat.eqb t0 t); [rewrite Hp in X|]; discriminate. }
    destruct Hsh; scfg; try (apply Hsp; reflexivity). exact HB.
  - open_step H p so Hl Hs.
    pose proof (lookup_pm_some bcast_holding _ _ _ Hl) as Hlb.
    pose proof (lookup_pm_some inflight _ _ _ Hl) as Hli.
    pose proof (lookup_pm_some holds_mu _ _ _ Hl) as Hlm.
    (* no other thread is a broadcaster holding l.mu when this thread holds it or acquires it *)
    assert (Hnob : (holds_mu p = true \/ c_mu c = None) ->
                   forall t0, t0 <> t -> lookup t0 (pm bcast_holding (c_thr c)) = Some true -> False).
    { intros Hc t0 Hne X. apply lookup_pm_inv in X. destruct X as (p0 & Hl0 & Hb). apply bh_mu in Hb.
      assert (X2 : lookup t0 (pm holds_mu (c_thr c)) = Some true) by (rewrite lookup_pm, Hl0; cbn; rewrite Hb; reflexivity).
      destruct Hc as [Hc|Hc].
      - rewrite Hc in Hlm. apply Hne. eapply holder_unique; eassumption.
      - apply (proj1 HM) in X2. congruence. }
    destruct p; inv_step Hs; dctx; try wake_same bcast_holding Hl Hnd; try wake_same inflight Hl Hnd;
      cbn [holds_mu bcast_holding inflight] in *;
      try (rewrite (pm_update_same bcast_holding _ _ _ _ Hl) by reflexivity;
           rewrite (pm_update_same inflight _ _ _ _ Hl) by reflexivity; exact HB).
    all: try match goal with E : c_lst _ = _ :: _ |- _ => rewrite <- E in HB end.
    all: try (rewrite (pm_update_same bcast_holding _ _ _ _ Hl) by reflexivity;
              rewrite (pm_update_same inflight _ _ _ _ Hl) by reflexivity; exact HB).
    all: intros tb Hb mm Hm; rewrite ?pm_update, ?pm_remove in *; cbn [bcast_holding inflight] in *;
      (destruct (Nat.eq_dec tb t) as [->|Hneb];
       [ rewrite ?(lookup_update_same _ _ _ _ _ Hlb), ?(lookup_update_same _ _ _ _ _ Hli) in *;
         try (rewrite lookup_remove_same in Hb by (rewrite tids_pm; exact Hnd));
         try discriminate Hb
       | rewrite ?lookup_update_other, ?lookup_remove_other in * by exact Hneb;
         first [ exfalso; apply (Hnob (or_introl eq_refl) _ Hneb Hb)
               | exfalso; apply (Hnob (or_intror eq_refl) _ Hneb Hb)
               | exact (HB _ Hb _ Hm) ] ]).
    all: try (left; exact Hm).
    all: destruct (HB _ Hlb _ Hm) as [X1|[X1|X1]]; try (rewrite Hli in X1; try discriminate X1).
    all: try (right; left; right; exact X1).
    all: try (right; left; exact X1).
    all: try (injection X1 as <-; right; left; left; reflexivity).
    all: try (left; exact X1).
    all: match goal with |- In _ (remove_node ?m0 _) \/ _ => destruct (Nat.eq_dec mm m0) as [->|Hmm] end; [right; right; reflexivity|left; apply in_remove_node_other; assumption].
  - apply exec1_cancel_inv in H. destruct H as (p & Hl & _ & _ & [(n & -> & ->)|[_ ->]]); scfg.
    + rewrite (pm_update_same bcast_holding _ _ _ _ Hl) by reflexivity.
      rewrite (pm_update_same inflight _ _ _ _ Hl) by reflexivity. exact HB.
    + exact HB.
Qed.

(* ---------- the full invariant holds in every reachable configuration ---------- *)
Record Full (c : ccfg) : Prop := { f_inv : Inv c; f_nodes : C_nodes c; f_bsnap : C_bsnap c }.

Lemma full_pres c e c' : Full c -> cond_step c e = Some c' -> Full c'.
Proof.
  intros [A B C] H. unfold cond_step in H. destruct (cond_exec1 c e) as [[c2 obs]|] eqn:E; [|discriminate].
  injection H as <-. constructor.
  - eapply inv_pres; eassumption.
  - eapply nodes_pres; eassumption.
  - eapply bsnap_pres; eassumption.
Qed.

Lemma full_init copied : Full (cond_init copied).
Proof.
  constructor; [apply inv_init| |].
  - unfold C_nodes. cbn. apply ni_init.
  - intros t H. discriminate H.
Qed.

Lemma full_reachable copied evs c : cond_run copied evs = Some c -> Full c.
Proof.
  unfold cond_run. intros H.
  eapply (invariant_reachable ccfg cev cond_step Full); [|apply (full_init copied)|exact H].
  intros c0 e c1 Hc Hs. eapply full_pres; eassumption.
Qed.

(* ---------- bridges between the proof's formulation and the model's executable definitions ---------- *)
Lemma sum_owed_pm thr : sum_owed thr = sumZ (pm owed thr).
Proof. induction thr as [|[t p] r IH]; cbn; [reflexivity|rewrite IH; reflexivity]. Qed.

Lemma bcast_pending_bpend c : bcast_pending c = bpend c.
Proof.
  unfold bcast_pending, bpend. destruct (c_mu c) as [t|]; [|reflexivity].
  rewrite lookup_pm. destruct (lookup t (c_thr c)) as [p|]; cbn; [|reflexivity].
  destruct (bcast_holding p); reflexivity.
Qed.

Lemma own_of_pc c t p n ph :
  lookup t (c_thr c) = Some p -> nodest p = Some (n, ph) -> own (pm nodest (c_thr c)) t n ph.
Proof. intros Hl Hn. unfold own. rewrite lookup_pm, Hl. cbn. rewrite Hn. reflexivity. Qed.

Lemma own_to_pc c t n ph :
  own (pm nodest (c_thr c)) t n ph -> exists p, lookup t (c_thr c) = Some p /\ nodest p = Some (n, ph).
Proof. intros H. apply lookup_pm_inv in H. exact H. Qed.

(* ---------- 1. the token ledger ---------- *)
Lemma ledger_lemma copied evs c : cond_run copied evs = Some c -> ledger_lhs c = ledger_rhs c.
Proof.
  intros H. pose proof (i_ledger c (f_inv c (full_reachable _ _ _ H))) as L. unfold C_ledger in L.
  unfold ledger_lhs, ledger_rhs. rewrite sum_owed_pm, bcast_pending_bpend. exact L.
Qed.

(* no thread is between taking/committing a token and accounting for it, and no Broadcast is in progress *)
Definition quiescent (c : ccfg) : Prop :=
  forall t p, lookup t (c_thr c) = Some p -> owed p = 0 /\ bcast_holding p = false.

Lemma sumZ_all_zero (X : list (tid * Z)) : (forall t z, lookup t X = Some z -> z = 0) -> NoDup (tids X) -> sumZ X = 0.
Proof.
  intros Hz Hnd. apply sumZ_zero. intros t0 z0 Hi. apply (Hz t0). apply in_lookup; assumption.
Qed.

Lemma ledger_quiescent_lemma copied evs c :
  cond_run copied evs = Some c -> quiescent c ->
  g_sig c + g_bcast c = g_nil c + Z.of_nat (length (c_tok c)) + g_drop c.
Proof.
  intros H Q. pose proof (full_reachable _ _ _ H) as F.
  pose proof (i_ledger c (f_inv c F)) as L. unfold C_ledger in L.
  rewrite (sumZ_all_zero (pm owed (c_thr c))) in L.
  - assert (bpend c = 0); [|lia]. unfold bpend. destruct (c_mu c) as [t|]; [|reflexivity].
    rewrite lookup_pm. destruct (lookup t (c_thr c)) as [p|] eqn:E; cbn; [|reflexivity].
    destruct (Q _ _ E) as [_ ->]. reflexivity.
  - intros t z X. apply lookup_pm_inv in X. destruct X as (p & Hl & <-). apply (Q _ _ Hl).
  - rewrite tids_pm. apply (i_nodup c (f_inv c F)).
Qed.

(* every token in a channel belongs to a waiter that has not yet looked at its channel *)
Lemma token_owner_lemma copied evs c n :
  cond_run copied evs = Some c -> In n (c_tok c) ->
  In n (g_notified c) /\ exists t p, lookup t (c_thr c) = Some p /\ nodest p = Some (n, PhAwait).
Proof.
  intros H Hn. pose proof (f_nodes c (full_reachable _ _ _ H)) as N.
  destruct (n_tok _ _ _ _ _ _ _ N n Hn) as [A (t & Ho)]. split; [exact A|].
  destruct (own_to_pc _ _ _ _ Ho) as (p & Hl & Hp). eauto.
Qed.

(* ---------- 2. a node is in the list iff ... ---------- *)
Lemma node_in_list_iff_lemma copied evs c t p n ph :
  cond_run copied evs = Some c -> lookup t (c_thr c) = Some p -> nodest p = Some (n, ph) ->
  (In n (c_lst c) <-> inlist_ph ph = true /\ ~ In n (g_notified c)).
Proof.
  intros H Hl Hp. pose proof (f_nodes c (full_reachable _ _ _ H)) as N.
  pose proof (own_of_pc _ _ _ _ _ Hl Hp) as Ho. split.
  - intros Hi. split; [|exact (n_lst_ntf _ _ _ _ _ _ _ N _ Hi)].
    destruct (n_lst_own _ _ _ _ _ _ _ N _ Hi) as (t' & ph' & Ho' & Hin).
    pose proof (o_uniq _ _ _ (n_owns _ _ _ _ _ _ _ N) _ _ _ _ _ Ho Ho') as <-.
    destruct (own_functional _ _ _ _ _ _ Ho Ho') as [_ ->]. exact Hin.
  - intros [Hin Hnn]. pose proof (n_link _ _ _ _ _ _ _ N _ _ _ Ho) as Hlk.
    destruct ph; cbn in *; try discriminate; try exact Hlk. destruct Hlk as [X|X]; [exact X|contradiction].
Qed.

Lemma list_node_facts_lemma copied evs c n :
  cond_run copied evs = Some c -> In n (c_lst c) ->
  ~ In n (c_tok c) /\ ~ In n (g_notified c) /\ ~ In n (c_pool c) /\
  exists t p ph, lookup t (c_thr c) = Some p /\ nodest p = Some (n, ph) /\ inlist_ph ph = true.
Proof.
  intros H Hi. pose proof (f_nodes c (full_reachable _ _ _ H)) as N.
  pose proof (n_lst_ntf _ _ _ _ _ _ _ N _ Hi) as Hnn.
  destruct (n_lst_own _ _ _ _ _ _ _ N _ Hi) as (t & ph & Ho & Hin).
  split; [intros X; destruct (n_tok _ _ _ _ _ _ _ N _ X) as [Y _]; exact (Hnn Y)|]. split; [exact Hnn|].
  split; [intros X; exact (o_pool_own _ _ _ (n_owns _ _ _ _ _ _ _ N) _ _ _ X Ho)|].
  destruct (own_to_pc _ _ _ _ Ho) as (p & Hl & Hp). eauto 10.
Qed.

Lemma list_nodup_lemma copied evs c : cond_run copied evs = Some c -> NoDup (c_lst c).
Proof. intros H. apply (n_lst_nd _ _ _ _ _ _ _ (f_nodes c (full_reachable _ _ _ H))). Qed.
