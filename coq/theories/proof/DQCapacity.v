(* Proofs about DQModel, capacity after cancellations (C09) and the observable form of "never early" (C08).
   Lone calls: a thread running alone from a QUIESCENT reachable configuration (no call in flight; any
   history before, incl. calls cancelled at any of their statements).  [run_alone] executes the statements
   of one thread with choice 0 until it returns or cannot step (parked); all solo runs are computed
   symbolically from an explicit configuration record, the invariants of parts 1-5 supply what is needed
   (mutex free, no fatal error, the CURRENT generation of either cond is not closed, len <= capacity). *)
From Ekit Require Import Common Conc DQModel DQProof DQProof2 DQProof3 DQProof4 DQProof5 DQProof6 DQProof7.
From Coq Require Import Arith PeanoNat ZifyBool Permutation.

Definition ret_of_obs (t : tid) (obs : list (tid * dq_obs)) : option dq_ret :=
  match obs with
  | (t', ORet r) :: _ => if Nat.eqb t' t then Some r else None
  | _ => None
  end.

(* thread t alone: statements with choice 0 until it returns (Some r) or cannot step (None: parked / out of fuel) *)
Fixpoint run_alone (fuel : nat) (c : dq_cfg) (t : tid) : dq_cfg * option dq_ret :=
  match fuel with
  | O => (c, None)
  | S f =>
    match dq_exec1 c (DStep t 0) with
    | Some (c', obs) => match ret_of_obs t obs with Some r => (c', Some r) | None => run_alone f c' t end
    | None => (c, None)
    end
  end.

Definition enq_alone (c : dq_cfg) (t : tid) (x : elem) : dq_cfg * option dq_ret :=
  match dq_exec1 c (DCallEnq t x) with
  | Some (c1, _) => run_alone 13 c1 t
  | None => (c, None)
  end.

Lemma run_alone_S f c t :
  run_alone (S f) c t =
  match dq_exec1 c (DStep t 0) with
  | Some (c', obs) => match ret_of_obs t obs with Some r => (c', Some r) | None => run_alone f c' t end
  | None => (c, None)
  end.
Proof. reflexivity. Qed.

Ltac solo_hyps :=
  repeat match goal with
         | H : heap_full _ _ = _ |- _ => rewrite H
         | H : mem_nat _ _ = _ |- _ => rewrite H
         | H : mins _ = _ |- _ => rewrite H
         | H : (_ <=? _) = _ |- _ => rewrite H
         | H : (_ >? _) = _ |- _ => rewrite H
         end.
Ltac solo_norm :=
  cbv beta iota delta [dset_pc dset_site dset_val dset_herr dset_dly dset_sg dset_bnew dset_bold dset_tm dset_arm dset_canc
                       dset_rv dset_eff new_enq new_deq tm_take
                       t_pc t_site t_el t_herr t_dly t_sg t_bnew t_bold t_tm t_canc t_rv t_eff t_teval t_lag
                       qset_thr qset_now qset_mutex qset_heap qset_ins qset_bad qset_out qset_okd qset_cnd get_cnd fin_log q_unlock
                       q_cap q_old q_now q_mutex q_heap q_esig q_dsig q_thr q_bad q_ins q_out q_okd].
Ltac solo_simpl := repeat (progress (cbn -[run_alone heap_full mem_nat mins remove_first e_dl Z.add Z.sub Z.leb Z.gtb Z.max]; rewrite ?Nat.eqb_refl; solo_hyps; solo_norm)).
Ltac solo := rewrite run_alone_S; solo_simpl.

Definition deq_alone (c : dq_cfg) (t : tid) : dq_cfg * option dq_ret :=
  match dq_exec1 c (DCallDeq t) with
  | Some (c1, _) => run_alone 20 c1 t
  | None => (c, None)
  end.

(* the timer of the sleeping thread t: advance the clock to its instant (if it is still ahead), deliver the tick, run on *)
Definition fire_alone (c : dq_cfg) (t : tid) : dq_cfg * option dq_ret :=
  match lookup t (q_thr c) with
  | Some th =>
    match t_tm th with
    | Some (Tm (Some f) _) =>
      match dq_exec1 c (DTick (Z.max 0 (f - q_now c))) with
      | Some (c1, _) =>
        match dq_exec1 c1 (DFire t) with
        | Some (c2, _) => run_alone 20 c2 t
        | None => (c1, None)
        end
      | None => (c, None)
      end
    | _ => (c, None)
    end
  | None => (c, None)
  end.

Definition deq_timed_alone (c : dq_cfg) (t : tid) : dq_cfg * option dq_ret :=
  match deq_alone c t with
  | (c', Some r) => (c', Some r)
  | (c', None) => fire_alone c' t
  end.

(* ---------- solo runs from an explicit quiescent configuration ---------- *)
Lemma enq_alone_ok cap old now heap esig dsig ins out okd t x :
  heap_full cap heap = false -> mem_nat (c_cur esig) (c_closed esig) = false ->
  enq_alone (mkdq cap old now None heap esig dsig [] false ins out okd) t x =
  (mkdq cap old now None (heap ++ [x]) (Cn (c_next esig) (S (c_next esig)) (c_cur esig :: c_closed esig)) dsig [] false
        (x :: ins) out (x :: okd), Some RNil).
Proof.
  intros Hf Hm. unfold enq_alone. solo_simpl. do 13 solo. reflexivity.
Qed.

Lemma enq_alone_full cap old now heap esig dsig ins out okd t x :
  heap_full cap heap = true -> mem_nat (c_cur dsig) (c_closed dsig) = false ->
  exists th, enq_alone (mkdq cap old now None heap esig dsig [] false ins out okd) t x =
             (mkdq cap old now None heap esig dsig [(t, th)] false ins out okd, None) /\
             t_pc th = EPark1 /\ t_sg th = c_cur dsig /\ t_canc th = false.
Proof.
  intros Hf Hm. unfold enq_alone. solo_simpl. do 12 solo. eexists. split; [reflexivity|]. repeat split.
Qed.

Lemma deq_alone_expired cap old now a l esig dsig ins out okd t v rest :
  mins (a :: l) = v :: rest -> (e_dl v - now <=? 0) = true -> mem_nat (c_cur dsig) (c_closed dsig) = false ->
  deq_alone (mkdq cap old now None (a :: l) esig dsig [] false ins out okd) t =
  (mkdq cap old now None (remove_first v (a :: l)) esig (Cn (c_next dsig) (S (c_next dsig)) (c_cur dsig :: c_closed dsig)) [] false
        ins (v :: out) okd, Some (RVal v)).
Proof.
  intros Hmin Hd Hm. unfold deq_alone. solo_simpl. do 18 solo. reflexivity.
Qed.

Lemma deq_alone_empty cap old now esig dsig ins out okd t :
  mem_nat (c_cur esig) (c_closed esig) = false ->
  exists th, deq_alone (mkdq cap old now None [] esig dsig [] false ins out okd) t =
             (mkdq cap old now None [] esig dsig [(t, th)] false ins out okd, None) /\
             t_pc th = DPark2 /\ t_sg th = c_cur esig /\ t_canc th = false.
Proof.
  intros Hm. unfold deq_alone. solo_simpl. do 13 solo. eexists. split; [reflexivity|]. repeat split.
Qed.

Lemma deq_alone_unexpired cap old now a l esig dsig ins out okd t v rest :
  mins (a :: l) = v :: rest -> (e_dl v - now <=? 0) = false -> mem_nat (c_cur esig) (c_closed esig) = false ->
  exists th, deq_alone (mkdq cap old now None (a :: l) esig dsig [] false ins out okd) t =
             (mkdq cap old now None (a :: l) esig dsig [(t, th)] false ins out okd, None) /\
             t_pc th = DPark1 /\ t_sg th = c_cur esig /\ t_canc th = false /\ t_el th = v /\
             t_tm th = Some (Tm (Some (now + (e_dl v - now))) false) /\ t_lag th = 0.
Proof.
  intros Hmin Hd Hm. unfold deq_alone. solo_simpl. do 17 solo. eexists. split; [reflexivity|]. repeat split. lia.
Qed.

(* the head is not yet due: the lone Dequeue sleeps on its timer; when the clock reaches the head's
   deadline the tick is delivered and the call returns the head *)
Lemma deq_timed_alone_unexpired cap old now a l esig dsig ins out okd t v rest :
  mins (a :: l) = v :: rest -> (e_dl v - now <=? 0) = false ->
  mem_nat (c_cur esig) (c_closed esig) = false -> mem_nat (c_cur dsig) (c_closed dsig) = false ->
  deq_timed_alone (mkdq cap old now None (a :: l) esig dsig [] false ins out okd) t =
  (mkdq cap old (now + Z.max 0 (now + (e_dl v - now) - now)) None (remove_first v (a :: l)) esig
        (Cn (c_next dsig) (S (c_next dsig)) (c_cur dsig :: c_closed dsig)) [] false ins (v :: out) okd, Some (RVal v)).
Proof.
  intros Hmin Hd Hme Hmd.
  assert (H1 : (0 <=? Z.max 0 (now + (e_dl v - now) - now)) = true) by lia.
  assert (H2 : (now + (e_dl v - now) <=? now + Z.max 0 (now + (e_dl v - now) - now)) = true) by lia.
  assert (H3 : (e_dl v - (now + Z.max 0 (now + (e_dl v - now) - now)) >? 0) = false) by lia.
  unfold deq_timed_alone, deq_alone. solo_simpl. do 17 solo.
  unfold fire_alone. solo_simpl. do 14 solo. reflexivity.
Qed.

(* ---------- reachable quiescent configurations ---------- *)
Lemma dq_reach_step cap old c e c' obs :
  dq_reach cap old c -> dq_exec1 c e = Some (c', obs) -> dq_reach cap old c'.
Proof.
  intros [evs Hex] H. exists (evs ++ [e]). rewrite exec_app, Hex. cbn. unfold dq_step. rewrite H. reflexivity.
Qed.

Lemma run_alone_reach cap old f : forall c t, dq_reach cap old c -> dq_reach cap old (fst (run_alone f c t)).
Proof.
  induction f as [|f IH]; intros c t Hr; [exact Hr|]. rewrite run_alone_S.
  destruct (dq_exec1 c (DStep t 0)) as [[c' obs]|] eqn:E; [|exact Hr].
  pose proof (dq_reach_step _ _ _ _ _ _ Hr E) as Hr'.
  destruct (ret_of_obs t obs); [exact Hr'|apply IH; exact Hr'].
Qed.

Lemma enq_alone_reach cap old c t x : dq_reach cap old c -> dq_reach cap old (fst (enq_alone c t x)).
Proof.
  intros Hr. unfold enq_alone. destruct (dq_exec1 c (DCallEnq t x)) as [[c1 o]|] eqn:E; [|exact Hr].
  apply run_alone_reach. eapply dq_reach_step; eassumption.
Qed.

Lemma deq_alone_reach cap old c t : dq_reach cap old c -> dq_reach cap old (fst (deq_alone c t)).
Proof.
  intros Hr. unfold deq_alone. destruct (dq_exec1 c (DCallDeq t)) as [[c1 o]|] eqn:E; [|exact Hr].
  apply run_alone_reach. eapply dq_reach_step; eassumption.
Qed.

Lemma fire_alone_reach cap old c t : dq_reach cap old c -> dq_reach cap old (fst (fire_alone c t)).
Proof.
  intros Hr. unfold fire_alone. destruct (lookup t (q_thr c)) as [th|]; [|exact Hr].
  destruct (t_tm th) as [[[f|] b]|]; try exact Hr.
  destruct (dq_exec1 c (DTick _)) as [[c1 o1]|] eqn:E1; [|exact Hr].
  pose proof (dq_reach_step _ _ _ _ _ _ Hr E1) as Hr1.
  destruct (dq_exec1 c1 (DFire t)) as [[c2 o2]|] eqn:E2; [|exact Hr1].
  apply run_alone_reach. eapply dq_reach_step; eassumption.
Qed.

Lemma deq_timed_alone_reach cap old c t : dq_reach cap old c -> dq_reach cap old (fst (deq_timed_alone c t)).
Proof.
  intros Hr. unfold deq_timed_alone. pose proof (deq_alone_reach _ _ _ t Hr) as H1.
  destruct (deq_alone c t) as [c' [r|]]; [exact H1|]. apply fire_alone_reach. exact H1.
Qed.

(* whatever happened before (successful calls, calls cancelled at any of their statements): with no call in
   flight the mutex is free, no fatal error has happened, and the CURRENT generation of either cond is not closed *)
Lemma quiescent_facts cap old c :
  dq_reach cap old c -> q_thr c = [] ->
  q_mutex c = None /\ q_bad c = false /\
  mem_nat (c_cur (q_esig c)) (c_closed (q_esig c)) = false /\
  mem_nat (c_cur (q_dsig c)) (c_closed (q_dsig c)) = false /\
  (0 < q_cap c -> Z.of_nat (length (q_heap c)) <= q_cap c) /\ q_cap c = cap.
Proof.
  intros [evs Hex] Hq. destruct (invFull_reachable _ _ _ _ Hex) as [[HA HB HD _] _].
  split.
  { destruct (q_mutex c) as [o|] eqn:E; [|reflexivity]. exfalso.
    pose proof (a_mutex _ HA o) as M. unfold holds_at, mutex_is in M. rewrite Hq, E, Nat.eqb_refl in M. discriminate M. }
  split; [exact (d_bad _ HD)|].
  split; [exact (proj1 (d_fresh _ HD CE (cur c CE) (Nat.le_refl _)))|].
  split; [exact (proj1 (d_fresh _ HD CD (cur c CD) (Nat.le_refl _)))|].
  split; [exact (b_cap _ HB)|]. exact (proj1 (dq_cap_const _ _ _ _ Hex)).
Qed.

Lemma mins_cons_nonempty a l : exists v rest, mins (a :: l) = v :: rest.
Proof.
  destruct (mins_nonempty (a :: l) ltac:(discriminate)) as (v & Hv).
  destruct (mins (a :: l)) as [|v' rest]; [discriminate Hv|]. exists v', rest. reflexivity.
Qed.

(* ---------- one lone Enqueue ---------- *)
Lemma dq_enq_alone_lemma cap old c t x :
  dq_reach cap old c -> q_thr c = [] ->
  (heap_full (q_cap c) (q_heap c) = false ->
     exists c', enq_alone c t x = (c', Some RNil) /\ q_thr c' = [] /\ q_heap c' = q_heap c ++ [x] /\
                q_now c' = q_now c /\ q_okd c' = x :: q_okd c /\ dq_reach cap old c') /\
  (heap_full (q_cap c) (q_heap c) = true ->
     exists c' th, enq_alone c t x = (c', None) /\ q_thr c' = [(t, th)] /\ t_pc th = EPark1 /\
                   q_heap c' = q_heap c /\ q_mutex c' = None).
Proof.
  intros Hr Hq. destruct (quiescent_facts _ _ _ Hr Hq) as (Hm & Hb & He & Hd & _ & _).
  pose proof (enq_alone_reach _ _ _ t x Hr) as Hr'.
  destruct c as [cp ol nw mx hp es ds th bd ins out okd]. cbn in *. subst mx bd th.
  split; intros Hf.
  - rewrite (enq_alone_ok _ _ _ _ _ _ _ _ _ t x Hf He) in *. eexists. split; [reflexivity|]. cbn. repeat split. exact Hr'.
  - destruct (enq_alone_full cp ol nw hp es ds ins out okd t x Hf Hd) as (th & -> & Hp & _).
    eexists _, th. split; [reflexivity|]. cbn. repeat split. exact Hp.
Qed.

(* ---------- one lone Dequeue ---------- *)
Lemma dq_deq_alone_lemma cap old c t :
  dq_reach cap old c -> q_thr c = [] ->
  (q_heap c = [] ->
     exists c' th, deq_alone c t = (c', None) /\ q_thr c' = [(t, th)] /\ t_pc th = DPark2 /\ q_heap c' = [] /\ q_mutex c' = None) /\
  (q_heap c <> [] ->
     exists v c', deq_timed_alone c t = (c', Some (RVal v)) /\ is_min v (q_heap c) /\
                  q_heap c' = remove_first v (q_heap c) /\ q_thr c' = [] /\
                  q_now c' = Z.max (q_now c) (e_dl v) /\ q_out c' = v :: q_out c /\ dq_reach cap old c' /\
                  (e_dl v <= q_now c -> deq_alone c t = (c', Some (RVal v))) /\
                  (q_now c < e_dl v ->
                     exists c1 th, deq_alone c t = (c1, None) /\ q_thr c1 = [(t, th)] /\ t_pc th = DPark1 /\
                                   t_tm th = Some (Tm (Some (e_dl v)) false) /\ t_lag th = 0)).
Proof.
  intros Hr Hq. destruct (quiescent_facts _ _ _ Hr Hq) as (Hm & Hb & He & Hd & _ & _).
  pose proof (deq_timed_alone_reach _ _ _ t Hr) as Hr'.
  destruct c as [cp ol nw mx hp es ds th bd ins out okd]. cbn in *. subst mx bd th.
  split; intros Hh.
  - subst hp. destruct (deq_alone_empty cp ol nw es ds ins out okd t He) as (th & -> & Hp & _).
    eexists _, th. split; [reflexivity|]. cbn. repeat split. exact Hp.
  - destruct hp as [|a l]; [congruence|]. destruct (mins_cons_nonempty a l) as (v & rest & Hmin).
    assert (Hv : is_min v (a :: l)) by (apply mins_is_min; rewrite Hmin; left; reflexivity).
    exists v. destruct (e_dl v - nw <=? 0) eqn:Ed.
    + pose proof (deq_alone_expired cp ol nw a l es ds ins out okd t v rest Hmin Ed Hd) as Hx.
      unfold deq_timed_alone in *. rewrite Hx in *. eexists. split; [reflexivity|]. cbn [q_heap q_thr q_now q_out].
      repeat split; try (apply Hv); try exact Hr'; try lia.
    + destruct (deq_alone_unexpired cp ol nw a l es ds ins out okd t v rest Hmin Ed He) as (th & Hpk & Hp & _ & _ & _ & Htm & Hlag).
      rewrite (deq_timed_alone_unexpired cp ol nw a l es ds ins out okd t v rest Hmin Ed He Hd) in *.
      eexists. split; [reflexivity|]. cbn [q_heap q_thr q_now q_out].
      repeat split; try (apply Hv); try exact Hr'; try lia.
      intros _. eexists _, th. split; [exact Hpk|]. cbn. repeat split; try assumption.
      rewrite Htm. do 3 f_equal. lia.
Qed.

(* ---------- sequences of lone calls ---------- *)
Fixpoint enqs_alone (c : dq_cfg) (t : tid) (vs : list elem) : dq_cfg * nat :=
  match vs with
  | [] => (c, O)
  | x :: r =>
    match enq_alone c t x with
    | (c', Some RNil) => let (c2, n) := enqs_alone c' t r in (c2, S n)
    | _ => (c, O)
    end
  end.

Fixpoint deqs_alone (c : dq_cfg) (t : tid) (k : nat) : dq_cfg * list elem :=
  match k with
  | O => (c, [])
  | S k' =>
    match deq_timed_alone c t with
    | (c', Some (RVal v)) => let (c2, l) := deqs_alone c' t k' in (c2, v :: l)
    | _ => (c, [])
    end
  end.

(* out is a legal delivery order for the multiset h: each element is a minimum of what is left *)
Fixpoint drained (h : list elem) (out : list elem) : Prop :=
  match out with
  | [] => True
  | v :: r => is_min v h /\ drained (remove_first v h) r
  end.

Definition room (c : dq_cfg) : nat := Z.to_nat (q_cap c - Z.of_nat (length (q_heap c))).

Lemma full_iff_no_room cap old c :
  dq_reach cap old c -> q_thr c = [] -> 0 < q_cap c ->
  (heap_full (q_cap c) (q_heap c) = true <-> room c = O).
Proof.
  intros Hr Hq Hc. destruct (quiescent_facts _ _ _ Hr Hq) as (_ & _ & _ & _ & Hcap & _). specialize (Hcap Hc).
  unfold heap_full, room. split; intros H; lia.
Qed.

Lemma enqs_alone_bounded_lemma cap old t vs : forall c,
  dq_reach cap old c -> q_thr c = [] -> 0 < q_cap c ->
  exists c', enqs_alone c t vs = (c', Nat.min (length vs) (room c)) /\
             q_heap c' = q_heap c ++ firstn (Nat.min (length vs) (room c)) vs /\
             q_thr c' = [] /\ q_cap c' = q_cap c /\ dq_reach cap old c'.
Proof.
  induction vs as [|x r IH]; intros c Hr Hq Hc.
  - exists c. cbn. rewrite app_nil_r. repeat split; auto.
  - cbn [enqs_alone length]. destruct (dq_enq_alone_lemma _ _ _ t x Hr Hq) as [Hok Hfull].
    destruct (heap_full (q_cap c) (q_heap c)) eqn:Ef.
    + destruct (Hfull eq_refl) as (c2 & th & -> & _).
      apply (full_iff_no_room _ _ _ Hr Hq Hc) in Ef. rewrite Ef, Nat.min_0_r. exists c. cbn. rewrite app_nil_r. repeat split; auto.
    + destruct (Hok eq_refl) as (c1 & -> & Hq1 & Hh1 & _ & _ & Hr1).
      assert (Hc1 : q_cap c1 = q_cap c).
      { destruct (quiescent_facts _ _ _ Hr Hq) as (_ & _ & _ & _ & _ & E1).
        destruct (quiescent_facts _ _ _ Hr1 Hq1) as (_ & _ & _ & _ & _ & E2). congruence. }
      assert (Hroom : room c = S (room c1)).
      { assert (room c <> O) by (intros E; apply (full_iff_no_room _ _ _ Hr Hq Hc) in E; congruence).
        unfold room in *. rewrite Hc1, Hh1, app_length. cbn [length]. lia. }
      destruct (IH c1 Hr1 Hq1 ltac:(lia)) as (c' & -> & Hh' & Hq' & Hc' & Hr').
      exists c'. rewrite Hroom. cbn [Nat.min firstn]. split; [reflexivity|].
      rewrite Hh', Hh1, <- app_assoc. cbn [app]. repeat split; auto. congruence.
Qed.

Lemma enqs_alone_unbounded_lemma cap old t vs : forall c,
  dq_reach cap old c -> q_thr c = [] -> q_cap c <= 0 ->
  exists c', enqs_alone c t vs = (c', length vs) /\ q_heap c' = q_heap c ++ vs /\ q_thr c' = [] /\ dq_reach cap old c'.
Proof.
  induction vs as [|x r IH]; intros c Hr Hq Hc.
  - exists c. cbn. rewrite app_nil_r. repeat split; auto.
  - cbn [enqs_alone length]. destruct (dq_enq_alone_lemma _ _ _ t x Hr Hq) as [Hok _].
    assert (Ef : heap_full (q_cap c) (q_heap c) = false) by (unfold heap_full; lia).
    destruct (Hok Ef) as (c1 & -> & Hq1 & Hh1 & _ & _ & Hr1).
    assert (Hc1 : q_cap c1 <= 0).
    { destruct (quiescent_facts _ _ _ Hr Hq) as (_ & _ & _ & _ & _ & E1).
      destruct (quiescent_facts _ _ _ Hr1 Hq1) as (_ & _ & _ & _ & _ & E2). lia. }
    destruct (IH c1 Hr1 Hq1 Hc1) as (c' & -> & Hh' & Hq' & Hr').
    exists c'. split; [reflexivity|]. rewrite Hh', Hh1, <- app_assoc. repeat split; auto.
Qed.

Lemma deqs_alone_lemma cap old t k : forall c,
  dq_reach cap old c -> q_thr c = [] -> (k <= length (q_heap c))%nat ->
  exists c' out, deqs_alone c t k = (c', out) /\ length out = k /\ drained (q_heap c) out /\
                 length (q_heap c') = (length (q_heap c) - k)%nat /\ Permutation (q_heap c) (out ++ q_heap c') /\
                 q_thr c' = [] /\ q_now c <= q_now c' /\ Forall (fun v => e_dl v <= q_now c') out /\ dq_reach cap old c'.
Proof.
  induction k as [|k IH]; intros c Hr Hq Hk.
  - exists c, []. cbn. repeat split; auto; try lia.
  - cbn [deqs_alone]. destruct (dq_deq_alone_lemma _ _ _ t Hr Hq) as [_ Hne].
    destruct (Hne ltac:(destruct (q_heap c); [cbn in Hk; lia|discriminate])) as (v & c1 & -> & Hmin & Hh1 & Hq1 & Hn1 & _ & Hr1 & _).
    pose proof (remove_first_length v (q_heap c) (proj1 Hmin)) as Hlen.
    destruct (IH c1 Hr1 Hq1 ltac:(rewrite Hh1; lia)) as (c' & out & -> & Hlo & Hdr & Hl' & Hperm & Hq' & Hnow & Hall & Hr').
    exists c', (v :: out). split; [reflexivity|]. cbn [length drained app].
    split; [lia|]. split; [split; [exact Hmin|rewrite <- Hh1; exact Hdr]|].
    split; [rewrite Hl', Hh1; lia|].
    split; [eapply perm_trans; [apply (remove_first_perm v _ (proj1 Hmin))|apply perm_skip; rewrite <- Hh1; exact Hperm]|].
    split; [exact Hq'|]. split; [lia|]. split; [constructor; [lia|exact Hall]|exact Hr'].
Qed.

(* ---------- capacity after cancellations ---------- *)
Lemma dq_capacity_after_cancellations_lemma cap old c t vs :
  dq_reach cap old c -> q_thr c = [] -> 0 < cap ->
  q_mutex c = None /\ q_cap c = cap /\
  exists c', enqs_alone c t vs = (c', Nat.min (length vs) (room c)) /\
    q_thr c' = [] /\ q_heap c' = q_heap c ++ firstn (Nat.min (length vs) (room c)) vs /\
    (length vs = room c ->
       q_heap c' = q_heap c ++ vs /\ Z.of_nat (length (q_heap c')) = cap /\
       (forall x, exists c2 th, enq_alone c' t x = (c2, None) /\ q_thr c2 = [(t, th)] /\ t_pc th = EPark1 /\ q_heap c2 = q_heap c') /\
       exists c'' out, deqs_alone c' t (Z.to_nat cap) = (c'', out) /\ length out = Z.to_nat cap /\
                       drained (q_heap c ++ vs) out /\ Permutation (q_heap c ++ vs) out /\
                       q_heap c'' = [] /\ q_thr c'' = [] /\ Forall (fun v => e_dl v <= q_now c'') out).
Proof.
  intros Hr Hq Hcap. destruct (quiescent_facts _ _ _ Hr Hq) as (Hm & _ & _ & _ & Hle & Hc).
  split; [exact Hm|]. split; [exact Hc|].
  destruct (enqs_alone_bounded_lemma _ _ t vs c Hr Hq ltac:(lia)) as (c' & He & Hh' & Hq' & Hc' & Hr').
  exists c'. split; [exact He|]. split; [exact Hq'|]. split; [exact Hh'|].
  intros Hlen. rewrite Hlen, Nat.min_id in Hh'. rewrite <- Hlen, firstn_all in Hh'.
  assert (Hfullz : Z.of_nat (length (q_heap c')) = cap).
  { rewrite Hh', app_length, Hlen. unfold room. specialize (Hle ltac:(lia)). lia. }
  split; [exact Hh'|]. split; [exact Hfullz|]. split.
  - intros x. destruct (dq_enq_alone_lemma _ _ _ t x Hr' Hq') as [_ Hfull].
    destruct (Hfull ltac:(unfold heap_full; lia)) as (c2 & th & H1 & H2 & H3 & H4 & _). exists c2, th. auto.
  - destruct (deqs_alone_lemma _ _ t (Z.to_nat cap) c' Hr' Hq' ltac:(lia)) as (c'' & out & Hd & Hlo & Hdr & Hl'' & Hperm & Hq'' & _ & Hall & _).
    exists c'', out. split; [exact Hd|]. split; [exact Hlo|]. rewrite <- Hh'. split; [exact Hdr|].
    assert (Hnil : q_heap c'' = []) by (destruct (q_heap c''); [reflexivity|cbn in Hl''; lia]).
    rewrite Hnil, app_nil_r in Hperm. repeat split; assumption.
Qed.

Lemma dq_unbounded_after_cancellations_lemma cap old c t vs :
  dq_reach cap old c -> q_thr c = [] -> cap <= 0 ->
  exists c', enqs_alone c t vs = (c', length vs) /\ q_heap c' = q_heap c ++ vs /\ q_thr c' = [] /\
    exists c'' out, deqs_alone c' t (length (q_heap c')) = (c'', out) /\ drained (q_heap c ++ vs) out /\
                    Permutation (q_heap c ++ vs) out /\ q_heap c'' = [] /\ q_thr c'' = [].
Proof.
  intros Hr Hq Hcap. destruct (quiescent_facts _ _ _ Hr Hq) as (_ & _ & _ & _ & _ & Hc).
  destruct (enqs_alone_unbounded_lemma _ _ t vs c Hr Hq ltac:(lia)) as (c' & He & Hh' & Hq' & Hr').
  exists c'. split; [exact He|]. split; [exact Hh'|]. split; [exact Hq'|].
  destruct (deqs_alone_lemma _ _ t (length (q_heap c')) c' Hr' Hq' (Nat.le_refl _)) as (c'' & out & Hd & _ & Hdr & Hl'' & Hperm & Hq'' & _).
  exists c'', out. split; [exact Hd|]. rewrite <- Hh'. split; [exact Hdr|].
  assert (Hnil : q_heap c'' = []) by (destruct (q_heap c''); [reflexivity|cbn in Hl''; lia]).
  rewrite Hnil, app_nil_r in Hperm. repeat split; assumption.
Qed.

(* the signal state left behind never makes a lone call park although it could proceed *)
Lemma dq_lone_call_parks_only_if_cannot_proceed_lemma cap old c t :
  dq_reach cap old c -> q_thr c = [] ->
  (forall x, snd (enq_alone c t x) = None -> heap_full (q_cap c) (q_heap c) = true) /\
  (snd (deq_alone c t) = None -> q_heap c = [] \/ exists v, is_min v (q_heap c) /\ q_now c < e_dl v).
Proof.
  intros Hr Hq. split.
  - intros x Hn. destruct (dq_enq_alone_lemma _ _ _ t x Hr Hq) as [Hok _].
    destruct (heap_full (q_cap c) (q_heap c)); [reflexivity|]. destruct (Hok eq_refl) as (c' & E & _). rewrite E in Hn. discriminate Hn.
  - intros Hn. destruct (dq_deq_alone_lemma _ _ _ t Hr Hq) as [_ Hne].
    destruct (q_heap c) as [|a l] eqn:Eh; [left; reflexivity|right].
    destruct (Hne ltac:(discriminate)) as (v & c' & _ & Hmin & _ & _ & _ & _ & _ & Hexp & _).
    exists v. split; [exact Hmin|]. destruct (Z_lt_le_dec (q_now c) (e_dl v)) as [Hlt|Hle]; [exact Hlt|].
    rewrite (Hexp Hle) in Hn. discriminate Hn.
Qed.

(* ---------- observable form of "never early" (C08) ---------- *)
Lemma dq_now_mono_step cap old c e c' obs :
  dq_reach cap old c -> dq_exec1 c e = Some (c', obs) -> q_now c <= q_now c'.
Proof.
  intros [evs Hex] H. destruct (invAll_reachable _ _ _ _ Hex) as [HA HB _ _].
  exact (proj2 (invB_step _ _ _ _ HA HB H)).
Qed.

Lemma dq_now_mono_exec cap old evs : forall c c',
  dq_reach cap old c -> exec dq_step c evs = Some c' -> q_now c <= q_now c' /\ dq_reach cap old c'.
Proof.
  induction evs as [|e r IH]; intros c c' Hr Hex; cbn in Hex.
  - injection Hex as <-. split; [lia|exact Hr].
  - unfold dq_step in Hex at 1. destruct (dq_exec1 c e) as [[c1 obs]|] eqn:E; [|discriminate Hex].
    pose proof (dq_now_mono_step _ _ _ _ _ _ Hr E) as H1.
    destruct (IH c1 c' (dq_reach_step _ _ _ _ _ _ Hr E) Hex) as [H2 H3]. split; [lia|exact H3].
Qed.

Lemma new_thread_no_effect c e c' obs tq thq' :
  dq_exec1 c e = Some (c', obs) -> lookup tq (q_thr c) = None -> lookup tq (q_thr c') = Some thq' -> t_eff thq' = NoEff.
Proof.
  intros H Hq Hq'.
  dq_cases H.
  all: dq_sym.
  all: dq_simpl; dq_cnd; dq_simpl.
  all: rewrite ?cnd_thr, ?fl_thr in Hq'.
  all: rewrite ?lookup_wake in Hq'.
  all: try (destruct (Nat.eq_dec tq t) as [->|Hne]; [try congruence|]).
  all: try (first [ rewrite (lookup_update_other _ _ _ _ _ Hne) in Hq' | rewrite (lookup_spawn_other _ _ _ _ Hne) in Hq'
                  | rewrite (lookup_remove_other _ _ _ Hne) in Hq' ]; rewrite Hq in Hq'; discriminate Hq').
  all: try (rewrite (lookup_spawn_same _ _ _ Hl) in Hq'; injection Hq' as <-; reflexivity).
  all: try congruence.
Qed.

Definition removed_expired (c : dq_cfg) : Prop :=
  forall t th v, lookup t (q_thr c) = Some th -> t_eff th = Removed v -> e_dl v <= q_now c.

Lemma removed_expired_reach cap old evs : forall c,
  exec dq_step (dq_init cap old) evs = Some c -> removed_expired c.
Proof.
  induction evs as [|e r IH] using rev_ind; intros c Hex.
  - cbn in Hex. injection Hex as <-. intros t th v Hl. discriminate Hl.
  - rewrite exec_app in Hex. destruct (exec dq_step (dq_init cap old) r) as [c0|] eqn:E0; [|discriminate Hex].
    cbn in Hex. unfold dq_step in Hex. destruct (dq_exec1 c0 e) as [[c1 obs]|] eqn:E; [|discriminate Hex]. injection Hex as <-.
    specialize (IH c0 eq_refl). assert (Hr0 : dq_reach cap old c0) by (exists r; exact E0).
    pose proof (dq_now_mono_step _ _ _ _ _ _ Hr0 E) as Hmono.
    intros t th' v Hl' He'.
    destruct (lookup t (q_thr c0)) as [th0|] eqn:Hl0.
    + destruct (dq_eff_meaning_final _ _ _ _ _ _ _ _ _ Hr0 E Hl0 Hl') as [[Hsame _]|(k & -> & _ & Hcase)].
      * rewrite Hsame in He'. specialize (IH _ _ _ Hl0 He'). lia.
      * destruct Hcase as [(_ & Hi & _)|(Hat & _)]; [congruence|].
        destruct (dq_removal_step_lemma _ _ _ _ _ _ _ _ _ E0 Hl0 Hat E) as (v' & th2 & _ & Hnow & _ & Hl2 & _ & _ & He2).
        rewrite Hl' in Hl2. injection Hl2 as <-. rewrite He' in He2. injection He2 as <-. lia.
    + rewrite (new_thread_no_effect _ _ _ _ _ _ E Hl0 Hl') in He'. discriminate He'.
Qed.

(* the element a Dequeue returns has Delay() = deadline - now <= 0 at the return and at every later time
   (the clock is monotone, the deadline is part of the element) *)
Lemma dq_returned_element_expired_lemma cap old c e c' obs t v :
  dq_reach cap old c -> dq_exec1 c e = Some (c', obs) -> In (t, ORet (RVal v)) obs ->
  e_dl v - q_now c' <= 0 /\
  forall evs' c'', exec dq_step c' evs' = Some c'' -> e_dl v - q_now c'' <= 0.
Proof.
  intros Hr H Hin. destruct (dq_return_final _ _ _ _ _ _ _ _ Hr H Hin) as (th & Hl & _ & (He & _) & _).
  destruct Hr as [evs Hex]. pose proof (removed_expired_reach _ _ _ _ Hex _ _ _ Hl He) as H0.
  assert (Hr : dq_reach cap old c) by (exists evs; exact Hex).
  pose proof (dq_now_mono_step _ _ _ _ _ _ Hr H) as H1. split; [lia|].
  intros evs' c'' Hex'. destruct (dq_now_mono_exec _ _ evs' c' c'' (dq_reach_step _ _ _ _ _ _ Hr H) Hex') as [H2 _]. lia.
Qed.
