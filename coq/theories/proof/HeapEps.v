(* HeapEps — the C05 heap under the DelayQueue's TIME-DEPENDENT comparator (C08, audit item 6).
   queue/delay_queue.go orders its heap by
       cmp(src, dst) = sign(src.Delay() - dst.Delay()),   Delay() = deadline - now(),
   two clock reads per comparison, the clock monotone: with t1 <= t2 the two readings,
       cmp x y = sign(dl x - dl y + delta),  delta = t2 - t1,  0 <= delta <= eps,
   and delta differs from comparison to comparison.  HeapModel takes ONE comparator function,
   so the loops are repeated here with a comparison COUNTER k and an oracle `delta k`; everything
   else (index arithmetic, checked accesses, fuel, order of the tests) is HeapModel's.

   Results (statements in props/C08_heapeps.v):
   * with delta = 0 everywhere the oracle model IS HeapModel under cmp x y = sign(dl x - dl y), so
     all of C05 holds exactly (eps = 0);
   * for eps > 0 the conjectured relaxed invariant "dl(parent) <= dl(child) + eps" is NOT preserved,
     and "Dequeue returns an element within (log2 n) * eps of the minimum" is FALSE: witnesses below
     (a sift-up moves an ancestor down next to a node of a sibling subtree; a sift-down moves nodes up). *)
From Ekit Require Import Common HeapModel.
From Ekit Require HeapProof.
From Coq Require Import Arith.

Section Eps.
  Variable dl : Z -> Z.            (* the fixed deadline of an element *)
  Variable delta : nat -> Z.       (* clock advance between the two Delay() calls of comparison k *)

  Definition cmpk (k : nat) (x y : Z) : Z := Z.sgn (dl x - dl y + delta k).

  (* every function returns the comparison counter after it *)
  Fixpoint esift_up (fuel k : nat) (d : list Z) (node parent : nat) : hres (list Z) * nat :=
    match fuel with
    | O => (HOutOfFuel, k)
    | S f =>
      if (0 <? parent)%nat then
        match get d node with
        | HOk x =>
          match get d parent with
          | HOk y =>
            if cmpk k x y <? 0 then
              match swap d parent node with
              | HOk d' => esift_up f (S k) d' parent (parent / 2)
              | r => (r, S k)
              end
            else (HOk d, S k)
          | HErr e => (HErr e, k) | HPanic => (HPanic, k) | HOutOfFuel => (HOutOfFuel, k)
          end
        | HErr e => (HErr e, k) | HPanic => (HPanic, k) | HOutOfFuel => (HOutOfFuel, k)
        end
      else (HOk d, k)
    end.

  Definition epick (k : nat) (d : list Z) (n child minPos : nat) : hres nat * nat :=
    if (child <=? n)%nat then
      match get d child with
      | HOk x =>
        match get d minPos with
        | HOk y => (HOk (if cmpk k x y <? 0 then child else minPos), S k)
        | HErr e => (HErr e, k) | HPanic => (HPanic, k) | HOutOfFuel => (HOutOfFuel, k)
        end
      | HErr e => (HErr e, k) | HPanic => (HPanic, k) | HOutOfFuel => (HOutOfFuel, k)
      end
    else (HOk minPos, k).

  Fixpoint eheapify (fuel k : nat) (d : list Z) (n i minPos : nat) : hres (list Z) * nat :=
    match fuel with
    | O => (HOutOfFuel, k)
    | S f =>
      match epick k d n (i * 2) minPos with
      | (HOk m1, k1) =>
        match epick k1 d n (i * 2 + 1) m1 with
        | (HOk m2, k2) =>
          if (m2 =? i)%nat then (HOk d, k2)
          else match swap d i m2 with
               | HOk d' => eheapify f k2 d' n m2 m2
               | r => (r, k2)
               end
        | (HErr e, k2) => (HErr e, k2) | (HPanic, k2) => (HPanic, k2) | (HOutOfFuel, k2) => (HOutOfFuel, k2)
        end
      | (HErr e, k1) => (HErr e, k1) | (HPanic, k1) => (HPanic, k1) | (HOutOfFuel, k1) => (HOutOfFuel, k1)
      end
    end.

  Definition eenqueue (k : nat) (p : pq) (v : Z) : pq * hres ret * nat :=
    if is_full p then (p, HErr EFull, k)
    else
      let d := data p ++ [v] in
      match esift_up (length d) k d (length d - 1) ((length d - 1) / 2) with
      | (HOk d', k') => ({| capacity := capacity p; data := d' |}, HOk RUnit, k')
      | (HErr e, k') => (p, HErr e, k')
      | (HPanic, k') => (p, HPanic, k')
      | (HOutOfFuel, k') => (p, HOutOfFuel, k')
      end.

  Definition edequeue (k : nat) (p : pq) : pq * hres ret * nat :=
    if is_empty p then (p, HErr EEmpty, k)
    else
      let d := data p in
      match get d 1, get d (length d - 1) with
      | HOk pop, HOk last =>
        if (1 <? length d)%nat then
          let d1 := set_nth d 1 last in
          let d2 := firstn (length d1 - 1) d1 in
          let d3 := shrink_if_necessary p d2 in
          match eheapify (length d3) k d3 (length d3 - 1) 1 1 with
          | (HOk d4, k') => ({| capacity := capacity p; data := d4 |}, HOk (RVal pop), k')
          | (HErr e, k') => (p, HErr e, k')
          | (HPanic, k') => (p, HPanic, k')
          | (HOutOfFuel, k') => (p, HOutOfFuel, k')
          end
        else (p, HPanic, k)
      | _, _ => (p, HPanic, k)
      end.

  Definition estep (k : nat) (p : pq) (o : op) : pq * hres ret * nat :=
    match o with
    | Enqueue v => eenqueue k p v
    | Dequeue => edequeue k p
    | Peek => (p, peek p, k)
    | Len => (p, HOk (RLen (pq_len p)), k)
    end.

  Fixpoint erun (k : nat) (p : pq) (ops : list op) : pq * list (hres ret) * nat :=
    match ops with
    | [] => (p, [], k)
    | o :: t =>
      let '(p1, r, k1) := estep k p o in
      let '(p2, rs, k2) := erun k1 p1 t in
      (p2, r :: rs, k2)
    end.

  (* the conjectured relaxed heap order *)
  Definition heap_inv_eps (eps : Z) (d : list Z) : Prop :=
    forall i, (2 <= i < length d)%nat -> dl (nth (i / 2) d 0) <= dl (nth i d 0) + eps.
End Eps.

(* ---------- eps = 0: the oracle model is HeapModel ---------- *)

Section Zero.
  Variable dl : Z -> Z.
  Variable delta : nat -> Z.
  Hypothesis delta_zero : forall k, delta k = 0.

  Definition cmp0 (x y : Z) : Z := Z.sgn (dl x - dl y).

  Lemma cmpk_zero k x y : cmpk dl delta k x y = cmp0 x y.
  Proof. unfold cmpk, cmp0. rewrite delta_zero, Z.add_0_r. reflexivity. Qed.

  Lemma esift_up_zero : forall fuel k d node parent,
    fst (esift_up dl delta fuel k d node parent) = sift_up cmp0 fuel d node parent.
  Proof.
    induction fuel as [|f IH]; intros k d node parent; cbn [esift_up sift_up]; [reflexivity|].
    destruct (0 <? parent)%nat; [|reflexivity].
    destruct (get d node) as [x|e| |]; cbn [hbind fst]; try reflexivity.
    destruct (get d parent) as [y|e| |]; cbn [hbind fst]; try reflexivity.
    rewrite cmpk_zero. destruct (cmp0 x y <? 0); [|reflexivity].
    destruct (swap d parent node) as [d'|e| |]; cbn [hbind fst]; try reflexivity. apply IH.
  Qed.

  Lemma epick_zero k d n c m : fst (epick dl delta k d n c m) = pick cmp0 d n c m.
  Proof.
    unfold epick, pick. destruct (c <=? n)%nat; [|reflexivity].
    destruct (get d c) as [x|e| |]; cbn [hbind fst]; try reflexivity.
    destruct (get d m) as [y|e| |]; cbn [hbind fst]; try reflexivity.
    rewrite cmpk_zero. reflexivity.
  Qed.

  Lemma eheapify_zero : forall fuel k d n i m,
    fst (eheapify dl delta fuel k d n i m) = heapify cmp0 fuel d n i m.
  Proof.
    induction fuel as [|f IH]; intros k d n i m; cbn [eheapify heapify]; [reflexivity|].
    rewrite <- (epick_zero k d n (i * 2) m).
    destruct (epick dl delta k d n (i * 2) m) as [[m1|e| |] k1]; cbn [hbind fst]; try reflexivity.
    rewrite <- (epick_zero k1 d n (i * 2 + 1) m1).
    destruct (epick dl delta k1 d n (i * 2 + 1) m1) as [[m2|e| |] k2]; cbn [hbind fst]; try reflexivity.
    destruct (m2 =? i)%nat; [reflexivity|].
    destruct (swap d i m2) as [d'|e| |]; cbn [hbind fst]; try reflexivity. apply IH.
  Qed.

  Lemma estep_zero k p o :
    (fst (fst (estep dl delta k p o)), snd (fst (estep dl delta k p o))) = step cmp0 p o.
  Proof.
    destruct o as [v| | |]; cbn [estep step]; try reflexivity.
    - unfold eenqueue, enqueue. destruct (is_full p); [reflexivity|].
      rewrite <- (esift_up_zero (length (data p ++ [v])) k (data p ++ [v])).
      destruct (esift_up dl delta (length (data p ++ [v])) k (data p ++ [v]) (length (data p ++ [v]) - 1)
                  ((length (data p ++ [v]) - 1) / 2)) as [[d'|e| |] k']; reflexivity.
    - unfold edequeue, dequeue. destruct (is_empty p) eqn:Ee; [reflexivity|].
      unfold is_empty in Ee.
      destruct (get (data p) 1) as [pop|e| |] eqn:G1; cbn [hbind];
        try (unfold get in G1; destruct (nth_opt (data p) 1); discriminate).
      + destruct (get (data p) (length (data p) - 1)) as [last|e| |] eqn:G2; cbn [hbind];
          try (unfold get in G2; destruct (nth_opt (data p) (length (data p) - 1)); discriminate).
        * destruct (1 <? length (data p))%nat eqn:E1; cbn [hbind]; [|reflexivity].
          assert (Hl : (1 <=? length (set_nth (data p) 1 last))%nat = true).
          { rewrite HeapProof.set_nth_length. apply Nat.leb_le. apply Nat.ltb_lt in E1. apply Nat.lt_le_incl. exact E1. }
          rewrite Hl. cbn [hbind].
          set (d3 := shrink_if_necessary p (firstn (length (set_nth (data p) 1 last) - 1) (set_nth (data p) 1 last))).
          rewrite <- (eheapify_zero (length d3) k d3).
          destruct (eheapify dl delta (length d3) k d3 (length d3 - 1) 1 1) as [[d4|e| |] k']; reflexivity.
        * reflexivity.
      + reflexivity.
  Qed.

  Lemma erun_zero_lemma : forall ops k p,
    (fst (fst (erun dl delta k p ops)), snd (fst (erun dl delta k p ops))) = run cmp0 p ops.
  Proof.
    induction ops as [|o t IH]; intros k p; cbn [erun run]; [reflexivity|].
    pose proof (estep_zero k p o) as Hs.
    destruct (estep dl delta k p o) as [[p1 r] k1]. cbn [fst snd] in Hs. rewrite <- Hs.
    pose proof (IH k1 p1) as Hr.
    destruct (erun dl delta k1 p1 t) as [[p2 rs] k2]. cbn [fst snd] in Hr. rewrite <- Hr. reflexivity.
  Qed.
End Zero.

(* ---------- eps > 0: the relaxed invariant and the log bound are false ---------- *)

(* witness: deadlines are the elements themselves, eps = 1, the clock advances by 1 between the two
   Delay() calls of comparisons 0, 2 and 6 and not at all in the others *)
Definition w_dl (x : Z) : Z := x.
Definition w_delta (k : nat) : Z := nth k [1; 0; 1; 0; 0; 0; 1] 0.

Lemma w_delta_bounds : forall k, 0 <= w_delta k <= 1.
Proof.
  intros k. unfold w_delta.
  do 8 (destruct k as [|k]; [cbn; lia|]). cbn. lia.
Qed.

Definition w_ops1 : list op := [Enqueue 3; Enqueue 2; Enqueue 4; Enqueue 1].
Definition w_ops2 : list op := w_ops1 ++ [Enqueue 0; Enqueue 4; Dequeue].

(* (1) the relaxed order holds in a reachable state and one Enqueue destroys it:
       [3;2;4;1] --Enqueue 0--> [0;3;4;1;2]: 3 sits on 1 *)
Lemma relaxed_invariant_not_preserved_lemma :
  let '(p, _, k) := erun w_dl w_delta 0 (new_pq 0) w_ops1 in
  heap_inv_eps w_dl 1 (data p) /\
  ~ heap_inv_eps w_dl 1 (data (fst (fst (estep w_dl w_delta k p (Enqueue 0))))).
Proof.
  vm_compute erun. split.
  - intros i Hi. cbn [data length] in Hi.
    assert (Hc : (i = 2 \/ i = 3 \/ i = 4)%nat) by lia.
    destruct Hc as [->|[->| ->]]; vm_compute; discriminate.
  - intros H.
    assert (E : data (fst (fst (estep w_dl w_delta 3 {| capacity := 0; data := [0; 3; 2; 4; 1] |} (Enqueue 0))))
                = [0; 0; 3; 4; 1; 2]) by (vm_compute; reflexivity).
    rewrite E in H. specialize (H 4%nat). unfold w_dl in H. cbn in H. lia.
Qed.

(* (2) Dequeue returns 4 while 1 is in the queue of n = 5 elements: 4 > 1 + log2(5) * eps = 3 *)
Lemma dequeue_log_bound_refuted_lemma :
  let '(p, _, k) := erun w_dl w_delta 0 (new_pq 0) w_ops2 in
  contents p = [4; 3; 4; 1; 2] /\
  snd (fst (estep w_dl w_delta k p Dequeue)) = HOk (RVal 4) /\
  In 1 (contents p) /\
  w_dl 4 > w_dl 1 + Z.of_nat (Nat.log2 (length (contents p))) * 1.
Proof. vm_compute. repeat split; try reflexivity. right; right; right; left; reflexivity. Qed.
