(* C15BridgeCow.v — C15 bridge for list.CopyOnWriteArrayList (interleaving model CowModel.v, the tree
   after fix: 60536f5).

   stmt_of_pc_COW / meth_of_pc_COW: the Coq-side copy of the pc -> label table of ocaml/drv_locked.ml
   (cow_label; compared with it on every run by checks/part_c15bridge.py).  The three statements of
   snapshot() are shared by Get / Len / Cap / Range: the entry function (= r_func of the footprint
   rows) is the thread's operation.
   locks_held_COW: the model's mutex is a flag cw_mu WITHOUT owner; thread t holds
   "CopyOnWriteArrayList.mutex" iff the flag is set and t is between Lock and the deferred Unlock
   (the proved invariant: exactly one thread is, iff the flag is set).
   guards_respected_COW_lemma: whenever a thread is about to execute a statement it holds every lock
   the footprint table declares for the plain accesses of that statement (the field `vals`; the
   ELEMENTS `vals[]` are covered by the publish-once rows, which are not lock guards) — for every
   event list and every initial content. *)
From Coq Require Import List String Bool Arith Lia ZArith.
From Ekit Require Import Common HB FootprintModel C15Bridge Conc LockedModel LockedProof CowModel CowProof.
Import ListNotations.
Open Scope string_scope.

Definition TY_COW := "CopyOnWriteArrayList".
Definition MU_COW := "CopyOnWriteArrayList.mutex".

(* normalised statement text; "" = the pinned reader (no statement of the current source) *)
Definition stmt_of_pc_COW (p : cow_pc) : string :=
  match p with
  | SnLock => "a.mutex.Lock()"
  | SnDefer => "defer a.mutex.Unlock()"
  | SnRet => "return a.vals"
  | GSnap => "vals := a.snapshot()"
  | GLen _ => "l := len(vals)"
  | GIf _ _ => "if index < 0 || index >= l"
  | GRetErr _ _ => "return t, errs.NewErrIndexOutOfRange(l, index)"
  | GRetVal _ => "return vals[index], e"
  | ALock => "a.mutex.Lock()"
  | ADefer => "defer a.mutex.Unlock()"
  | AN => "n := len(a.vals)"
  | AMake _ => "newItems := make([]T, n, n+len(ts))"
  | ACopy _ => "copy(newItems, a.vals)"
  | AApp _ => "newItems = append(newItems, ts...)"
  | APub _ => "a.vals = newItems"
  | ARet => "return nil"
  | BLock => "a.mutex.Lock()"
  | BDefer => "defer a.mutex.Unlock()"
  | BN => "n := len(a.vals)"
  | BMake _ => "newItems := make([]T, n, n+1)"
  | BCopy _ => "copy(newItems, a.vals)"
  | BAdd _ => "newItems, err = slice.Add(newItems, t, index)"
  | BIf _ _ => "if err != nil"
  | BRetErr => "return err"
  | BPub _ => "a.vals = newItems"
  | BRet => "return nil"
  | CLock => "a.mutex.Lock()"
  | CDefer => "defer a.mutex.Unlock()"
  | CN => "n := len(a.vals)"
  | CIf _ => "if index >= n || index < 0"
  | CRetErr _ => "return errs.NewErrIndexOutOfRange(n, index)"
  | CMake _ => "newItems := make([]T, n)"
  | CCopy _ => "copy(newItems, a.vals)"
  | CSet _ => "newItems[index] = t"
  | CPub _ => "a.vals = newItems"
  | CRet => "return nil"
  | DLock => "a.mutex.Lock()"
  | DDefer => "defer a.mutex.Unlock()"
  | DN => "n := len(a.vals)"
  | DIf _ => "if index >= n || index < 0"
  | DRetErr _ => "return ret, errs.NewErrIndexOutOfRange(n, index)"
  | DMake => "newItems := make([]T, len(a.vals)-1)"
  | DItem _ => "item := 0"
  | DFor _ _ => "for i, v := range a.vals"
  | DIfI _ _ _ _ _ => "if i == index"
  | DRetV _ _ _ _ _ => "ret = v"
  | DCont _ _ _ _ _ => "continue"
  | DPut _ _ _ _ _ => "newItems[item] = v"
  | DInc _ _ _ _ _ => "item++"
  | DPub _ _ => "a.vals = newItems"
  | DRet _ => "return ret, nil"
  | LnRet => "return len(a.snapshot())"
  | CpRet => "return cap(a.snapshot())"
  | RFor => "for key, value := range a.snapshot()"
  | RFn _ _ _ => "e := fn(key, value)"
  | RIf _ _ _ _ => "if e != nil"
  | RRetE _ => "return e"
  | RRetNil _ => "return nil"
  | ELock => "a.mutex.Lock()"
  | EDefer => "defer a.mutex.Unlock()"
  | EMake => "res := make([]T, len(a.vals))"
  | ECopy _ => "copy(res, a.vals)"
  | ERet _ => "return res"
  | PGLenCall => ""
  | PGLenRet => ""
  | PGIf _ => ""
  | PGRetErr _ => ""
  | PGRetVal => ""
  end.

(* the method (or helper) the statement belongs to *)
Definition meth_of_pc_COW (p : cow_pc) : string :=
  match p with
  | SnLock => "snapshot"
  | SnDefer => "snapshot"
  | SnRet => "snapshot"
  | GSnap => "Get"
  | GLen _ => "Get"
  | GIf _ _ => "Get"
  | GRetErr _ _ => "Get"
  | GRetVal _ => "Get"
  | ALock => "Append"
  | ADefer => "Append"
  | AN => "Append"
  | AMake _ => "Append"
  | ACopy _ => "Append"
  | AApp _ => "Append"
  | APub _ => "Append"
  | ARet => "Append"
  | BLock => "Add"
  | BDefer => "Add"
  | BN => "Add"
  | BMake _ => "Add"
  | BCopy _ => "Add"
  | BAdd _ => "Add"
  | BIf _ _ => "Add"
  | BRetErr => "Add"
  | BPub _ => "Add"
  | BRet => "Add"
  | CLock => "Set"
  | CDefer => "Set"
  | CN => "Set"
  | CIf _ => "Set"
  | CRetErr _ => "Set"
  | CMake _ => "Set"
  | CCopy _ => "Set"
  | CSet _ => "Set"
  | CPub _ => "Set"
  | CRet => "Set"
  | DLock => "Delete"
  | DDefer => "Delete"
  | DN => "Delete"
  | DIf _ => "Delete"
  | DRetErr _ => "Delete"
  | DMake => "Delete"
  | DItem _ => "Delete"
  | DFor _ _ => "Delete"
  | DIfI _ _ _ _ _ => "Delete"
  | DRetV _ _ _ _ _ => "Delete"
  | DCont _ _ _ _ _ => "Delete"
  | DPut _ _ _ _ _ => "Delete"
  | DInc _ _ _ _ _ => "Delete"
  | DPub _ _ => "Delete"
  | DRet _ => "Delete"
  | LnRet => "Len"
  | CpRet => "Cap"
  | RFor => "Range"
  | RFn _ _ _ => "Range"
  | RIf _ _ _ _ => "Range"
  | RRetE _ => "Range"
  | RRetNil _ => "Range"
  | ELock => "AsSlice"
  | EDefer => "AsSlice"
  | EMake => "AsSlice"
  | ECopy _ => "AsSlice"
  | ERet _ => "AsSlice"
  | PGLenCall => "pinned"
  | PGLenRet => "pinned"
  | PGIf _ => "pinned"
  | PGRetErr _ => "pinned"
  | PGRetVal => "pinned"
  end.

Definition pcname_COW (p : cow_pc) : string :=
  match p with
  | SnLock => "SnLock"
  | SnDefer => "SnDefer"
  | SnRet => "SnRet"
  | GSnap => "GSnap"
  | GLen _ => "GLen"
  | GIf _ _ => "GIf"
  | GRetErr _ _ => "GRetErr"
  | GRetVal _ => "GRetVal"
  | ALock => "ALock"
  | ADefer => "ADefer"
  | AN => "AN"
  | AMake _ => "AMake"
  | ACopy _ => "ACopy"
  | AApp _ => "AApp"
  | APub _ => "APub"
  | ARet => "ARet"
  | BLock => "BLock"
  | BDefer => "BDefer"
  | BN => "BN"
  | BMake _ => "BMake"
  | BCopy _ => "BCopy"
  | BAdd _ => "BAdd"
  | BIf _ _ => "BIf"
  | BRetErr => "BRetErr"
  | BPub _ => "BPub"
  | BRet => "BRet"
  | CLock => "CLock"
  | CDefer => "CDefer"
  | CN => "CN"
  | CIf _ => "CIf"
  | CRetErr _ => "CRetErr"
  | CMake _ => "CMake"
  | CCopy _ => "CCopy"
  | CSet _ => "CSet"
  | CPub _ => "CPub"
  | CRet => "CRet"
  | DLock => "DLock"
  | DDefer => "DDefer"
  | DN => "DN"
  | DIf _ => "DIf"
  | DRetErr _ => "DRetErr"
  | DMake => "DMake"
  | DItem _ => "DItem"
  | DFor _ _ => "DFor"
  | DIfI _ _ _ _ _ => "DIfI"
  | DRetV _ _ _ _ _ => "DRetV"
  | DCont _ _ _ _ _ => "DCont"
  | DPut _ _ _ _ _ => "DPut"
  | DInc _ _ _ _ _ => "DInc"
  | DPub _ _ => "DPub"
  | DRet _ => "DRet"
  | LnRet => "LnRet"
  | CpRet => "CpRet"
  | RFor => "RFor"
  | RFn _ _ _ => "RFn"
  | RIf _ _ _ _ => "RIf"
  | RRetE _ => "RRetE"
  | RRetNil _ => "RRetNil"
  | ELock => "ELock"
  | EDefer => "EDefer"
  | EMake => "EMake"
  | ECopy _ => "ECopy"
  | ERet _ => "ERet"
  | PGLenCall => "PGLenCall"
  | PGLenRet => "PGLenRet"
  | PGIf _ => "PGIf"
  | PGRetErr _ => "PGRetErr"
  | PGRetVal => "PGRetVal"
  end.

Definition all_pcs_COW : list cow_pc :=
  [SnLock; SnDefer; SnRet; GSnap; GLen []; GIf [] O; GRetErr [] O; GRetVal []; ALock; ADefer; AN; AMake O; ACopy []; AApp []; APub []; ARet; BLock; BDefer; BN; BMake O; BCopy []; BAdd []; BIf [] false; BRetErr; BPub []; BRet; CLock; CDefer; CN; CIf O; CRetErr O; CMake O; CCopy []; CSet []; CPub []; CRet; DLock; DDefer; DN; DIf O; DRetErr O; DMake; DItem []; DFor [] O; DIfI [] O 0%Z [] O; DRetV [] O 0%Z [] O; DCont [] O 0%Z [] O; DPut [] O 0%Z [] O; DInc [] O 0%Z [] O; DPub [] 0%Z; DRet 0%Z; LnRet; CpRet; RFor; RFn [] O []; RIf [] O [] false; RRetE []; RRetNil []; ELock; EDefer; EMake; ECopy []; ERet []].
Definition func_of_op_COW (o : ls_op) : string :=
  match o with
  | LGet _ => "Get" | LAppend _ => "Append" | LAdd _ _ => "Add" | LSet _ _ => "Set" | LDelete _ => "Delete"
  | LLen => "Len" | LCap => "Cap" | LRange _ => "Range" | LAsSlice => "AsSlice"
  end.

Definition is_snapshot_pc (p : cow_pc) : bool :=
  match p with SnLock | SnDefer | SnRet => true | _ => false end.

(* the entry function = r_func of the footprint rows *)
Definition func_of_pc_COW (o : ls_op) (p : cow_pc) : string :=
  if is_snapshot_pc p then func_of_op_COW o else meth_of_pc_COW p.
Definition path_of_pc_COW (p : cow_pc) : string :=
  if is_snapshot_pc p then "CopyOnWriteArrayList.snapshot" else "".
Definition lfunc_of_pc_COW (o : ls_op) (p : cow_pc) : string :=
  lfunc_of TY_COW (func_of_pc_COW o p) (path_of_pc_COW p).
Definition rstmt_of_pc_COW (p : cow_pc) : string := row_stmt (path_of_pc_COW p) (stmt_of_pc_COW p).

Definition all_ops_COW : list ls_op :=
  [LGet 0%Z; LAppend []; LAdd 0%Z 0%Z; LSet 0%Z 0%Z; LDelete 0%Z; LLen; LCap; LRange 0%Z; LAsSlice].
Definition calls_snapshot (o : ls_op) : bool :=
  match o with LGet _ | LLen | LCap | LRange _ => true | _ => false end.

(* (operation, pc) pairs: a statement of the operation's method, or of snapshot() called from it *)
Definition all_opcs_COW : list (ls_op * cow_pc) :=
  filter (fun x => if is_snapshot_pc (snd x) then calls_snapshot (fst x)
                   else String.eqb (meth_of_pc_COW (snd x)) (func_of_op_COW (fst x)))
         (flat_map (fun o => map (fun p => (o, p)) all_pcs_COW) all_ops_COW).

Definition bridge_COW : list bridge_line :=
  map (fun x => (func_of_op_COW (fst x) ++ ":" ++ pcname_COW (snd x), lfunc_of_pc_COW (fst x) (snd x),
                 stmt_of_pc_COW (snd x), O))
      all_opcs_COW.

(* ---------- locks ---------- *)
Definition locks_held_COW (c : cow_cfg) (t : Conc.tid) : lockset :=
  match lookup t (s_thr c) with
  | Some x => if cw_mu (s_sh c) && cow_in_mutex x then [(MU_COW, Excl)] else []
  | None => []
  end.

Definition pc_locks_COW (x : ls_op * cow_pc) : lockset :=
  if cow_in_mutex x then [(MU_COW, Excl)] else [].

Lemma section_locks_held_COW_lemma items evs c t x :
  exec cow_step (cow_init items) evs = Some c -> lookup t (s_thr c) = Some x ->
  incl (pc_locks_COW x) (locks_held_COW c t).
Proof.
  intros Hex Hl. destruct (cow_linearizable_lemma items evs c Hex) as (_ & _ & _ & Hc & _).
  unfold pc_locks_COW, locks_held_COW. rewrite Hl.
  destruct (cow_in_mutex x) eqn:Ein; [|intros y []].
  pose proof (count_pos_of_lookup cow_in_mutex t x _ Hl Ein) as Hpos.
  destruct (cw_mu (s_sh c)); [|lia]. intros y [<-|[]]. now left.
Qed.

Lemma guards_static_COW o p :
  guards_held cow_table (func_of_pc_COW o p) (rstmt_of_pc_COW p) (pc_locks_COW (o, p)) = true.
Proof. destruct o, p; vm_compute; reflexivity. Qed.

Theorem guards_respected_COW_lemma items evs c t o p :
  exec cow_step (cow_init items) evs = Some c -> lookup t (s_thr c) = Some (o, p) ->
  guards_respected_at cow_table (func_of_pc_COW o p) (rstmt_of_pc_COW p) (locks_held_COW c t).
Proof.
  intros Hex Hl. eapply guards_respected_at_incl.
  - eapply section_locks_held_COW_lemma; eassumption.
  - apply guards_held_spec, guards_static_COW.
Qed.

Definition keys_COW : list (string * string) :=
  map (fun x => (func_of_pc_COW (fst x) (snd x), rstmt_of_pc_COW (snd x))) all_opcs_COW.
Lemma all_glock_rows_matched_COW :
  unmatched cow_table keys_COW = [] /\ List.length (glock_rows cow_table) = 13%nat.
Proof. vm_compute. split; reflexivity. Qed.
