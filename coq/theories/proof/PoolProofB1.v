(* PoolModel (pool.OnDemandBlockTaskPool), proofs for C12 / liveness side of C10 - B1: the two RW mutexes and the state-word lock are held by exactly the threads inside the
   corresponding critical sections *)
From Ekit Require Import Common Conc PoolModel PoolProofB0.
From Coq Require Import ZifyBool Arith PeanoNat.

Lemma pcf_wake_ok g : g WCaseQueue = g WParked -> g WCaseInt = g WParked -> forall w, wake_ok (pcf g) w.
Proof.
  intros H1 H2 [|r k| |]; cbn [wake_ok]; [exact I| | |]; intros x Hp; unfold pcf, recv_ok, recv_closed, recv_int;
    cbn [pc goto set_has set_ok set_task]; unfold is_parked in Hp; destruct (pc x); try discriminate; assumption.
Qed.

Definition g_hbw (p : ppc) : Z :=
  match p with
  | SiAdd | SiUnlock | TiAdd | TiUnlock | WIdSub | WIdUnlock
  | WTmDecr | WTmLeft | WTmDel | TdLock | TdDefer | TdIf | TdDec | TdDelete | WTmUnlock
  | CdSub | CdUnlock
  | WBkNoTasks | WBkIf1 | Z1RLock | Z1Defer | Z1Ret | WBkDecr | WBkUnlock1 | WBkIf2 | Z2RLock | Z2Defer | Z2Ret
  | WBkNewTimer | WBkAdd | GaLock | GaDefer | GaIf | GaSet | GaInc | WBkUnlock2 => 1
  | _ => 0 end.
Definition g_hbr (p : ppc) : Z := match p with AlDefer | AlRate | AlRet | NgRead | NgRUnlock => 1 | _ => 0 end.
Definition g_hgw (p : ppc) : Z :=
  match p with TdDefer | TdIf | TdDec | TdDelete | RdDefer | RdIf | RdDec | RdDelete | GaDefer | GaIf | GaSet | GaInc => 1 | _ => 0 end.
Definition g_hgr (p : ppc) : Z := match p with IiDefer | IiLookup | IiRet | Z1Defer | Z1Ret | Z2Defer | Z2Ret => 1 | _ => 0 end.
Definition g_hsl (p : ppc) : Z :=
  match p with
  | TsDefer | TsSelect | TsCaseCtx | TsRetCtx | TsCaseSend | TsIfCreate | TsInc | TsId | TsGo | TsRetT
  | TsCaseDefault | TsRetF0 | AlRLock | AlDefer | AlRate | AlRet | SiLock | SiAdd | SiUnlock
  | StN | NcN | NcAllow | NcNeed | NcIf1 | NcIf2 | NcAddNeed | NcAddAllow | NcRet | StInc | TiLock | TiAdd | TiUnlock
  | StLoop | StGo | StCasRun => 1
  | _ => 0 end.

Record invB (c : pcfg) : Prop := {
  b_bw : b2z (s_bw (c_sh c)) = tsum (pcf g_hbw) (c_thr c);
  b_br : s_br (c_sh c) = tsum (pcf g_hbr) (c_thr c);
  b_gw : b2z (s_gw (c_sh c)) = tsum (pcf g_hgw) (c_thr c);
  b_gr : s_gr (c_sh c) = tsum (pcf g_hgr) (c_thr c);
  b_sl : b2z (pstate_eqb (s_state (c_sh c)) SLocked) = tsum (pcf g_hsl) (c_thr c)
}.

Lemma pcf_nonneg g : (forall p, 0 <= g p) -> forall x, 0 <= pcf g x.
Proof. intros H x. apply H. Qed.
Lemma g_hbw_nn p : 0 <= g_hbw p. Proof. destruct p; cbn; lia. Qed.
Lemma g_hbr_nn p : 0 <= g_hbr p. Proof. destruct p; cbn; lia. Qed.
Lemma g_hgw_nn p : 0 <= g_hgw p. Proof. destruct p; cbn; lia. Qed.
Lemma g_hgr_nn p : 0 <= g_hgr p. Proof. destruct p; cbn; lia. Qed.
Lemma g_hsl_nn p : 0 <= g_hsl p. Proof. destruct p; cbn; lia. Qed.

Ltac clB := cbn [pcf g_hbw g_hbr g_hgw g_hgr g_hsl] in *.

Lemma invB_init P : invB (pinit P).
Proof. constructor; reflexivity. Qed.

Lemma invB_step c e c' : invB c -> pstep_cfg c e = Some c' -> invB c'.
Proof.
  intros [I1 I2 I3 I4 I5] Hstep.
  destruct (step_cases _ _ _ Hstep) as [(t & op & -> & Hl & Hb & -> & _)|(th & o & obs & Hl & Ho & Ha)].
  - constructor; cbn [call_cfg c_thr c_sh]; rewrite tsum_spawn; destruct op; cbn; lia.
  - destruct (apply_out_fields _ _ _ _ _ Ha) as (Hp & Hsh & Hgh & Hnt).
    pose proof (fun f (Hw : forall w, wake_ok f w) => tsum_step f c (ev_tid e) th o c' obs Hl (Hw (o_wake o)) Ha) as Hc.
    pose proof (Hc _ (pcf_wake_ok g_hbw eq_refl eq_refl)) as C1.
    pose proof (Hc _ (pcf_wake_ok g_hbr eq_refl eq_refl)) as C2.
    pose proof (Hc _ (pcf_wake_ok g_hgw eq_refl eq_refl)) as C3.
    pose proof (Hc _ (pcf_wake_ok g_hgr eq_refl eq_refl)) as C4.
    pose proof (Hc _ (pcf_wake_ok g_hsl eq_refl eq_refl)) as C5.
    pose proof (tsum_ge_lookup _ _ _ _ (pcf_nonneg _ g_hbw_nn) Hl) as N1.
    pose proof (tsum_ge_lookup _ _ _ _ (pcf_nonneg _ g_hbr_nn) Hl) as N2.
    pose proof (tsum_ge_lookup _ _ _ _ (pcf_nonneg _ g_hgw_nn) Hl) as N3.
    pose proof (tsum_ge_lookup _ _ _ _ (pcf_nonneg _ g_hgr_nn) Hl) as N4.
    pose proof (tsum_ge_lookup _ _ _ _ (pcf_nonneg _ g_hsl_nn) Hl) as N5.
    constructor; rewrite Hsh; [rewrite C1|rewrite C2|rewrite C3|rewrite C4|rewrite C5];
    clear Hc C1 C2 C3 C4 C5 Ha Hl Hsh Hgh Hnt Hp Hstep; cbn [pcf] in *;
    (destruct e as [t op|t ch|t|t|t]; cbn [ev_out ev_tid] in *; [discriminate Ho| | | |];
      generalize dependent (parked_of (c_thr c)); intros pk; intros;
      generalize dependent (c_par c); intros P; intros;
      destruct (c_sh c) as [st pv q cl tot run mp gn bw br gw gr idc ictx];
      [ pstep_split Ho th ch
      | destruct (l_cancel th); [discriminate Ho|injection Ho as <-]
      | destruct (l_tm th); try discriminate Ho; injection Ho as <-; unfold is_parked in *; destruct (pc th) eqn:Hpc; msimp; rewrite ?Hpc
      | destruct (pc th) eqn:Hpc; try discriminate Ho; injection Ho as <- ]);
    unfold_helpers; msimp; clB; rewrite ?Hpc; clB; break_if; msimp; clB; rewrite ?upd_same; try assumption;
    msimp_all; clB; unfold upd;
    first [ lia | destruct st; try discriminate; msimp_all; break_hyp; msimp_all; try discriminate; lia | fail ].
Qed.
