(* Gap closing for C12 (audit item 7): the done channel is closed by the GRACEFUL path whenever a Shutdown
   succeeded - so `done_not_early` can be stated on observables (Shutdown returned nil, the context is
   cancelled) instead of the ghost flag g_grace. *)
From Ekit Require Import Common Conc PoolModel PoolExamples PoolProof PoolProof4 PoolProof5 PoolProof6 PoolProofB
  PoolProofB0 PoolProofB1 PoolProofB2d PoolProofB4d PoolProofB5d PoolProofBz PoolProofB8.
From Coq Require Import ZifyBool Arith PeanoNat.

Definition g_shret (p : ppc) : Z := match p with ShRet => 1 | _ => 0 end.
Lemma g_shret_nn p : 0 <= g_shret p. Proof. destruct p; cbn; lia. Qed.

(* Layer S: who can have cancelled the interrupt context; who stands at Shutdown's `return` *)
Record invS (c : pcfg) : Prop := {
  s_ict : bz (s_ictx (c_sh c)) <= bz (g_now (c_gh c)) + bz (g_grace (c_gh c));
  s_shret : tsum (pcf g_shret) (c_thr c) + tsum (pcf g_shclose) (c_thr c) <= bz (g_shut (c_gh c))
}.

Lemma invS_init P : invS (pinit P).
Proof. constructor; cbn; lia. Qed.

Lemma invS_step c e c' : invP c -> invS c -> pstep_cfg c e = Some c' -> invS c'.
Proof.
  intros HP [I0 I1] Hstep.
  destruct (step_cases _ _ _ Hstep) as [(t & op & -> & Hl & Hb & -> & _)|(th & o & obs & Hl & Ho & Ha)].
  - constructor; cbn [call_cfg c_thr c_sh c_gh]; [exact I0|].
    rewrite !tsum_spawn. unfold enter. destruct op; cbn; lia.
  - destruct (apply_out_fields _ _ _ _ _ Ha) as (Hp & Hsh & Hgh & Hnt).
    pose proof (tsum_step (pcf g_shret) c (ev_tid e) th o c' obs Hl (pcf_wake_ok g_shret eq_refl eq_refl (o_wake o)) Ha) as C1.
    pose proof (tsum_step (pcf g_shclose) c (ev_tid e) th o c' obs Hl (pcf_wake_ok g_shclose eq_refl eq_refl (o_wake o)) Ha) as C2.
    pose proof (p_sn2 c HP) as Psn. pose proof (p_shut c HP) as Psh.
    pose proof (tsum_nonneg _ (c_thr c) (pcf_nonneg _ g_shret_nn)) as M0. pose proof (tsum_nonneg _ (c_thr c) (pcf_nonneg _ g_shclose_nn)) as M1.
    pose proof (tsum_ge_lookup (pcf g_sn) _ _ _ (pcf_nonneg _ g_sn_nn) Hl) as N0.
    pose proof (tsum_ge_lookup (pcf g_shclose) _ _ _ (pcf_nonneg _ g_shclose_nn) Hl) as N1.
    pose proof (tsum_ge_lookup (pcf g_shret) _ _ _ (pcf_nonneg _ g_shret_nn) Hl) as N2.
    constructor; rewrite ?Hsh, ?Hgh; [|rewrite C1, C2]; clear C1 C2 Ha Hstep HP Hp Hsh Hgh Hnt Hl;
    (destruct e as [t op|t ch|t|t|t]; cbn [ev_out ev_tid] in *; [discriminate Ho| | | |];
      generalize dependent (parked_of (c_thr c)); intros pk; intros;
      generalize dependent (c_par c); intros P; intros;
      destruct (c_sh c) as [st pv q cl tot run mp gn bw br gw gr idc ictx];
      destruct (c_gh c) as [gsent gstarted gdone gret gacc grej gstarts gshuts gnow ggrace gbegan gshut];
      cbn [s_ictx s_state g_now g_grace g_shut pcf] in *;
      [ pstep_split Ho th ch
      | destruct (l_cancel th); [discriminate Ho|injection Ho as <-]
      | destruct (l_tm th); try discriminate Ho; injection Ho as <-; unfold is_parked; destruct (pc th) eqn:Hpc
      | destruct (pc th) eqn:Hpc; try discriminate Ho; injection Ho as <- ]);
    unfold_helpers; msimp; cbn [pcf g_shret g_shclose]; rewrite ?Hpc; cbn [g_shret g_shclose]; break_if; msimp; cbn [g_shret g_shclose];
    rewrite ?upd_same; try assumption;
    cbn [pcf g_sn g_shclose g_shret] in *; unfold upd;
    destruct ictx, gnow, ggrace, gshut; cbn [bz] in *;
    first [ lia | destruct st; cbn [downb pstate_eqb bz] in *; try discriminate; lia ].
Qed.

(* ---------- reachability ---------- *)
Lemma invPS_reach P evs c : exec pstep_cfg (pinit P) evs = Some c -> invP c /\ invS c.
Proof.
  intros H.
  assert (Hr : inv1 c /\ invS c).
  { eapply (invariant_reachable _ _ pstep_cfg (fun c0 => inv1 c0 /\ invS c0)); [| |exact H].
    - intros c0 e c1 [H1 HS] Hs. split; [eapply inv1_step; eauto|].
      destruct H1 as (_ & _ & HP & _). eapply invS_step; eauto.
    - split; [apply inv1_init|apply invS_init]. }
  destruct Hr as [(_ & _ & HP & _) HS]. auto.
Qed.

(* ---------- the converse of graceful_cancel_only_after_shutdown ---------- *)
(* For EVERY record of params and every pinned / repaired variant: the interrupt context is cancelled by
   exactly three statements - ShutdownNow's `b.interruptCtxCancel()` (only after its CAS: g_now) and the two
   graceful ones (which set g_grace in the same step).  Hence: cancelled and no ShutdownNow has won its CAS
   => cancelled by the graceful path. *)
Lemma cancelled_without_shutdownnow_is_graceful_lemma P evs c :
  exec pstep_cfg (pinit P) evs = Some c ->
  s_ictx (c_sh c) = true -> g_now (c_gh c) = false -> g_grace (c_gh c) = true.
Proof.
  intros H Hi Hn. destruct (invPS_reach P evs c H) as [_ HS].
  pose proof (s_ict c HS) as Z. rewrite Hi, Hn in Z. cbn [bz] in Z.
  destruct (g_grace (c_gh c)); [reflexivity|cbn [bz] in Z; lia].
Qed.

(* a successful Shutdown excludes a successful ShutdownNow for ever, so the side condition is automatic *)
Lemma shutdown_excludes_shutdownnow_lemma P evs c :
  exec pstep_cfg (pinit P) evs = Some c -> g_shut (c_gh c) = true -> g_now (c_gh c) = false.
Proof.
  intros H Hs. destruct (invPS_reach P evs c H) as [HP _].
  pose proof (p_excl c HP) as Z. rewrite Hs in Z. cbn [bz] in Z.
  destruct (g_now (c_gh c)); [cbn [bz] in Z; lia|reflexivity].
Qed.

Lemma done_closed_after_shutdown_is_graceful_lemma P evs c :
  exec pstep_cfg (pinit P) evs = Some c ->
  g_shut (c_gh c) = true -> s_ictx (c_sh c) = true -> g_grace (c_gh c) = true.
Proof.
  intros H Hs Hi. apply (cancelled_without_shutdownnow_is_graceful_lemma P evs c H Hi).
  apply (shutdown_excludes_shutdownnow_lemma P evs c H Hs).
Qed.

(* ---------- done_not_early on the premises g_shut /\ s_ictx ---------- *)
Lemma done_not_early_shut_lemma P evs c :
  pvalid P -> pfixed P -> exec pstep_cfg (pinit P) evs = Some c ->
  g_shut (c_gh c) = true -> s_ictx (c_sh c) = true ->
  s_q (c_sh c) = [] /\
  (forall t x, lookup t (c_thr c) = Some x -> g_cnt (pc x) = 0) /\
  (forall i, PoolProof.tsum (held i) (c_thr c) = 0) /\
  (forall i, In i (g_acc (c_gh c)) -> In i (g_done (c_gh c))).
Proof.
  intros V F H Hs Hi. apply (done_not_early_full P evs c V F H).
  apply (done_closed_after_shutdown_is_graceful_lemma P evs c H Hs Hi).
Qed.

(* ---------- ... and on observables: a Shutdown call RETURNED nil ---------- *)
Lemma apply_gevs_shut l : forall g, g_shut g = true -> g_shut (apply_gevs g l) = true.
Proof.
  induction l as [|e r IH]; intros g Hg; [exact Hg|]. cbn [apply_gevs fold_left]. apply IH.
  destruct e; cbn; try exact Hg; reflexivity.
Qed.

Lemma gshut_step c e c' : pstep_cfg c e = Some c' -> g_shut (c_gh c) = true -> g_shut (c_gh c') = true.
Proof.
  intros Hs Hg. destruct (step_cases _ _ _ Hs) as [(t & op & -> & Hl & Hb & -> & _)|(th & o & obs & Hl & Ho & Ha)].
  - exact Hg.
  - destruct (apply_out_fields _ _ _ _ _ Ha) as (_ & _ & Hgh & _). rewrite Hgh. apply apply_gevs_shut, Hg.
Qed.

Lemma gshut_exec evs : forall c c', exec pstep_cfg c evs = Some c' -> g_shut (c_gh c) = true -> g_shut (c_gh c') = true.
Proof.
  induction evs as [|e r IH]; intros c c' H Hg; cbn [exec] in H; [injection H as <-; exact Hg|].
  destruct (pstep_cfg c e) as [c1|] eqn:E; [|discriminate H]. apply (IH c1 c' H). eapply gshut_step; eauto.
Qed.

(* a `nil` result of Shutdown is returned by its statement `return b.interruptCtx.Done(), nil` *)
Lemma shutdown_nil_from_shret c e c' obs t :
  pexec1 c e = Some (c', obs) -> In (t, ORet (RShutdown PENone)) obs ->
  exists th, lookup t (c_thr c) = Some th /\ pc th = ShRet.
Proof.
  intros He Hin. destruct e as [t0 op|t0 ch|t0|t0|t0]; unfold pexec1 in He.
  - destruct (lookup t0 (c_thr c)); [discriminate He|]. destruct (Nat.ltb t0 (i_base (c_par c))); [|discriminate He].
    assert (Ho : obs = obs_of t0 (enter (c_sh c) op)).
    { destruct op; try (injection He as _ <-; reflexivity).
      destruct (Nat.eqb id (c_ntask c)); [injection He as _ <-; reflexivity|discriminate He]. }
    rewrite Ho in Hin. unfold obs_of in Hin. destruct (is_parked _); cbn in Hin; [tauto|].
    destruct Hin as [Hin|[]]. discriminate Hin.
  - destruct (lookup t0 (c_thr c)) as [th|] eqn:Hl; [|discriminate He].
    destruct (pstep (c_par c) (parked_of (c_thr c)) (c_sh c) th ch) as [o|] eqn:Hp; [|discriminate He].
    destruct (apply_out_obs_ret _ _ _ _ _ _ _ He Hin) as (-> & Hth & Hret).
    exists th. split; [exact Hl|].
    generalize dependent (parked_of (c_thr c)); intros pk Hp. generalize dependent (c_par c); intros P Hp.
    clear He Hin Hl. destruct (c_sh c) as [st pv q cl tot run mp gn bw br gw gr idc ictx].
    pstep_split Hp th ch; cbn [o_ret] in Hret; try discriminate Hret; try reflexivity;
      injection Hret as Hr; try discriminate Hr.
  - destruct (lookup t0 (c_thr c)) as [th|]; [|discriminate He]. destruct (l_cancel th); [discriminate He|].
    injection He as _ <-. destruct Hin.
  - destruct (lookup t0 (c_thr c)) as [th|]; [|discriminate He]. destruct (l_tm th); try discriminate He.
    destruct (is_parked th) eqn:Ep; injection He as _ <-; [|destruct Hin].
    unfold obs_of, is_parked, goto in Hin. cbn [pc] in Hin. cbn in Hin. destruct Hin as [Hin|[]]. discriminate Hin.
  - destruct (lookup t0 (c_thr c)) as [th|]; [|discriminate He]. destruct (pc th); try discriminate He.
    destruct (apply_out_obs_ret _ _ _ _ _ _ _ He Hin) as (_ & Hth & _). discriminate Hth.
Qed.

Lemma pexec1_pstep_cfg c e c' obs : pexec1 c e = Some (c', obs) -> pstep_cfg c e = Some c'.
Proof. intros H. unfold pstep_cfg. rewrite H. reflexivity. Qed.

(* Observable form: some Shutdown call returned nil at some point of the execution (event e, thread t);
   later the done channel is observed closed.  Then no ShutdownNow ever succeeded, no accepted task is
   queued, no goroutine is still counted in totalGo (none holds a task), and every accepted task is done. *)
Lemma done_not_early_observable_lemma P evs1 c1 e c2 obs t evs2 c :
  pvalid P -> pfixed P ->
  exec pstep_cfg (pinit P) evs1 = Some c1 -> pexec1 c1 e = Some (c2, obs) -> In (t, ORet (RShutdown PENone)) obs ->
  exec pstep_cfg c2 evs2 = Some c -> s_ictx (c_sh c) = true ->
  g_now (c_gh c) = false /\
  s_q (c_sh c) = [] /\
  (forall u x, lookup u (c_thr c) = Some x -> g_cnt (pc x) = 0) /\
  (forall i, PoolProof.tsum (held i) (c_thr c) = 0) /\
  (forall i, In i (g_acc (c_gh c)) -> In i (g_done (c_gh c))).
Proof.
  intros V F H1 He Hin H2 Hi.
  destruct (shutdown_nil_from_shret c1 e c2 obs t He Hin) as (th & Hl & Hpc).
  destruct (invPS_reach P evs1 c1 H1) as [_ HS1].
  assert (Hg1 : g_shut (c_gh c1) = true).
  { pose proof (s_shret c1 HS1) as Z.
    pose proof (tsum_ge_lookup (pcf g_shret) _ _ _ (pcf_nonneg _ g_shret_nn) Hl) as N. cbn [pcf] in N. rewrite Hpc in N. cbn [g_shret] in N.
    pose proof (PoolProofB0.tsum_nonneg (pcf g_shclose) (c_thr c1) (pcf_nonneg _ g_shclose_nn)).
    destruct (g_shut (c_gh c1)); [reflexivity|cbn [bz] in Z; lia]. }
  pose proof (pexec1_pstep_cfg _ _ _ _ He) as Hs.
  assert (H : exec pstep_cfg (pinit P) (evs1 ++ e :: evs2) = Some c).
  { rewrite exec_app, H1. cbn [exec]. rewrite Hs. exact H2. }
  assert (Hg : g_shut (c_gh c) = true) by (apply (gshut_exec evs2 c2 c H2), (gshut_step c1 e c2 Hs Hg1)).
  split; [apply (shutdown_excludes_shutdownnow_lemma P _ c H Hg)|].
  apply (done_not_early_shut_lemma P _ c V F H Hg Hi).
Qed.

(* ---------- non-vacuity: the schedule of PoolExamples.wit_hang on the code as it is ---------- *)
(* up to and including the statement with which Shutdown (thread 3) returns (chan, nil) *)
Definition obs_ex_a : list directive := firstn 15 wit_hang.
(* afterwards the two workers see the closed queue / the fired timer and leave; the last one cancels *)
Definition obs_ex_b : list directive := skipn 15 wit_hang.
Definition obs_ex_evs1 : list pev := removelast (schedule wit_hang_P obs_ex_a).
Definition obs_ex_e : pev := last (schedule wit_hang_P obs_ex_a) (PFire 0%nat).
Definition obs_ex_c1 : pcfg := match exec pstep_cfg (pinit wit_hang_P) obs_ex_evs1 with Some c => c | None => pinit wit_hang_P end.
Definition obs_ex_c2 : pcfg := final wit_hang_P obs_ex_a.
Definition obs_ex_evs2 : list pev := snd (play obs_ex_b obs_ex_c2).
Definition obs_ex_c : pcfg := fst (play obs_ex_b obs_ex_c2).

Lemma done_not_early_observable_example_lemma :
  pvalid wit_hang_P /\ pfixed wit_hang_P /\
  obs_ex_b = [DRun 101%nat 60; DRun 100%nat 60] /\
  exec pstep_cfg (pinit wit_hang_P) obs_ex_evs1 = Some obs_ex_c1 /\
  obs_ex_e = PStep 3%nat C0 /\
  pexec1 obs_ex_c1 obs_ex_e = Some (obs_ex_c2, [(3%nat, ORet (RShutdown PENone))]) /\
  s_ictx (c_sh obs_ex_c2) = false /\ s_q (c_sh obs_ex_c2) = [] /\ s_total (c_sh obs_ex_c2) = 2 /\
  exec pstep_cfg obs_ex_c2 obs_ex_evs2 = Some obs_ex_c /\
  s_ictx (c_sh obs_ex_c) = true /\ g_now (c_gh obs_ex_c) = false /\
  g_acc (c_gh obs_ex_c) = [0; 1]%nat /\ g_done (c_gh obs_ex_c) = [0; 1]%nat /\ c_thr obs_ex_c = [].
Proof.
  split; [unfold pvalid; cbn; lia|]. split; [split; reflexivity|].
  repeat (split; [vm_compute; reflexivity|]). vm_compute; reflexivity.
Qed.
