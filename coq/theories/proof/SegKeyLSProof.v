(* Proofs about SegKeyLSModel (C14): the interleaving model of syncx.SegmentKeysLock.

   What is code and what is specification: the six statements per call (method statement, getLock, hash),
   the FNV-1a computation spread over the three statements of hash, the slice index hash%size with its
   run-time panics and the dispatch to the selected RWMutex are the library's code.  The record [rw] with
   [can_write]/[can_read] (SegKeyModel.v) is the trusted SPECIFICATION of sync.RWMutex: Lock is enabled iff
   there is no writer and no reader, RLock iff there is no writer, the Try variants answer exactly that.
   (Go's writer preference - a PENDING Lock stops new readers - never arises: a Lock that would block is
   not enabled, so there are no pending writers.)

   All theorems quantify over EVERY event list the semantics accepts (any number of goroutines, any
   interleaving of their statements) and every size >= 1.  They reuse SegKeyProof's lemmas about the hash
   range and the lock table. *)
From Ekit Require Import Common Conc SegKeyModel SegKeyProof SegKeyLSModel.
From Coq Require Import ZifyBool Arith PeanoNat.

(* ---------- thread-table lemmas not in Conc.v ---------- *)
Section Table.
  Variable pc : Type.
  Implicit Types l : list (tid * pc).

  Lemma lookup_spawn t2 t p l :
    lookup t2 (spawn t p l) =
    match lookup t2 l with Some x => Some x | None => if Nat.eqb t2 t then Some p else None end.
  Proof.
    unfold spawn. induction l as [|[t' p'] r IH]; cbn [lookup app]; [reflexivity|].
    destruct (Nat.eqb t2 t'); [reflexivity|exact IH].
  Qed.

  Lemma lookup_remove_other t2 t l : t2 <> t -> lookup t2 (remove t l) = lookup t2 l.
  Proof.
    intros Hne. induction l as [|[t' p'] r IH]; cbn [remove lookup]; [reflexivity|].
    destruct (Nat.eqb t t') eqn:E.
    - apply Nat.eqb_eq in E. subst t'.
      destruct (Nat.eqb t2 t) eqn:E2; [apply Nat.eqb_eq in E2; congruence|reflexivity].
    - cbn [lookup]. rewrite IH. reflexivity.
  Qed.

  Lemma lookup_remove_same t l : NoDup (tids l) -> lookup t (remove t l) = None.
  Proof.
    induction l as [|[t' p'] r IH]; cbn [remove lookup tids map fst]; [reflexivity|].
    intros Hnd. inversion Hnd as [|x xs Hx Hxs]; subst.
    destruct (Nat.eqb t t') eqn:E.
    - apply Nat.eqb_eq in E. subst t'. apply lookup_none_not_in. exact Hx.
    - cbn [lookup]. rewrite E. apply IH, Hxs.
  Qed.

  Lemma lookup_update t2 t p l :
    lookup t2 (update t p l) =
    if Nat.eqb t2 t then match lookup t l with Some _ => Some p | None => None end else lookup t2 l.
  Proof.
    destruct (Nat.eqb t2 t) eqn:E.
    - apply Nat.eqb_eq in E. subst t2. destruct (lookup t l) as [p0|] eqn:L.
      + eapply lookup_update_same, L.
      + induction l as [|[t' p'] r IH]; cbn [update lookup] in *; [reflexivity|].
        destruct (Nat.eqb t t') eqn:E2; [discriminate|]. cbn [lookup]. rewrite E2. apply IH, L.
    - apply lookup_update_other. intros ->. rewrite Nat.eqb_refl in E. discriminate.
  Qed.

  Lemma nodup_update t p l : NoDup (tids l) -> NoDup (tids (update t p l)).
  Proof. rewrite tids_update. exact (fun H => H). Qed.
End Table.
Arguments lookup_spawn {pc}. Arguments lookup_remove_other {pc}. Arguments lookup_remove_same {pc}.
Arguments lookup_update {pc}. Arguments nodup_update {pc}.

(* ---------- the ghost table ---------- *)
Lemma hcount_nonneg f l : 0 <= hcount f l.
Proof. induction l as [|h r IH]; cbn [hcount]; [lia|destruct (f h); lia]. Qed.

Lemma hcount_app f l1 l2 : hcount f (l1 ++ l2) = hcount f l1 + hcount f l2.
Proof. induction l1 as [|h r IH]; cbn [hcount app]; [lia|rewrite IH; lia]. Qed.

Lemma hcount_snoc f l h : hcount f (l ++ [h]) = hcount f l + (if f h then 1 else 0).
Proof. rewrite hcount_app. cbn [hcount]. lia. Qed.

Lemma hfind_some f l h : hfind f l = Some h -> f h = true /\ In h l.
Proof.
  induction l as [|x r IH]; cbn [hfind]; [discriminate|].
  destruct (f x) eqn:E.
  - intros H; injection H as <-. split; [exact E|left; reflexivity].
  - intros H. destruct (IH H) as [H1 H2]. split; [exact H1|right; exact H2].
Qed.

Lemma hfind_none f l : hfind f l = None -> forall h, In h l -> f h = false.
Proof.
  induction l as [|x r IH]; cbn [hfind]; [intros _ h []|].
  destruct (f x) eqn:E; [discriminate|].
  intros H h [<-|Hin]; [exact E|apply IH; assumption].
Qed.

Lemma hfind_app_some f l1 l2 h : hfind f l1 = Some h -> hfind f (l1 ++ l2) = Some h.
Proof.
  induction l1 as [|x r IH]; cbn [hfind app]; [discriminate|].
  destruct (f x); [exact (fun H => H)|exact IH].
Qed.

Lemma hcount_remove f g l h :
  hfind f l = Some h -> hcount g (hremove f l) = hcount g l - (if g h then 1 else 0).
Proof.
  induction l as [|x r IH]; cbn [hfind hremove hcount]; [discriminate|].
  destruct (f x) eqn:E.
  - intros H; injection H as <-. lia.
  - intros H. cbn [hcount]. rewrite (IH H). lia.
Qed.

(* removing an element selected by f does not disturb the search for a predicate disjoint from f *)
Lemma hfind_remove_disjoint f g l :
  (forall h, f h = true -> g h = false) -> hfind g (hremove f l) = hfind g l.
Proof.
  intros Hd. induction l as [|x r IH]; cbn [hremove hfind]; [reflexivity|].
  destruct (f x) eqn:E.
  - rewrite (Hd x E). reflexivity.
  - cbn [hfind]. rewrite IH. reflexivity.
Qed.

Lemma forall_hremove (P : sk_hold -> Prop) f l : Forall P l -> Forall P (hremove f l).
Proof.
  intros H. induction H as [|x r Hx Hr IH]; cbn [hremove]; [constructor|].
  destruct (f x); [exact Hr|constructor; assumption].
Qed.

Lemma in_hremove f l h : In h (hremove f l) -> In h l.
Proof.
  induction l as [|x r IH]; cbn [hremove]; [exact (fun H => H)|].
  destruct (f x); [intros H; right; exact H|].
  intros [<-|H]; [left; reflexivity|right; apply IH, H].
Qed.

Lemma hcount_in_pos g l h : In h l -> g h = true -> 1 <= hcount g l.
Proof.
  induction l as [|x r IH]; cbn [hcount]; [intros []|].
  intros [<-|Hin] Hg.
  - rewrite Hg. pose proof (hcount_nonneg g r). lia.
  - pose proof (IH Hin Hg). destruct (g x); lia.
Qed.

Lemma hcount_zero_none g l : hcount g l = 0 -> forall h, In h l -> g h = false.
Proof.
  intros H0 h Hin. destruct (g h) eqn:E; [|reflexivity].
  pose proof (hcount_in_pos g l h Hin E). lia.
Qed.

Lemma hcount_le1_unique g l h1 h2 :
  hcount g l <= 1 -> In h1 l -> In h2 l -> g h1 = true -> g h2 = true -> h1 = h2.
Proof.
  induction l as [|x r IH]; cbn [hcount]; [intros _ []|].
  intros Hle [E1|I1] [E2|I2] G1 G2.
  - congruence.
  - subst x. rewrite G1 in Hle. pose proof (hcount_in_pos g r h2 I2 G2). lia.
  - subst x. rewrite G2 in Hle. pose proof (hcount_in_pos g r h1 I1 G1). lia.
  - apply IH; try assumption. pose proof (hcount_nonneg g r). destruct (g x); lia.
Qed.

Lemma hold_mine_sel t i w h : hold_mine t i w h = true -> h_tid h = t /\ h_idx h = i /\ h_write h = w.
Proof.
  unfold hold_mine, hold_sel. intros H.
  apply andb_prop in H. destruct H as [Ht H]. apply andb_prop in H. destruct H as [Hi Hw].
  apply Nat.eqb_eq in Ht. apply Z.eqb_eq in Hi. apply Bool.eqb_prop in Hw. auto.
Qed.

Lemma hold_mine_disjoint t t2 i i2 w w2 h :
  t2 <> t -> hold_mine t i w h = true -> hold_mine t2 i2 w2 h = false.
Proof.
  intros Hne H. apply hold_mine_sel in H. destruct H as [Ht _].
  unfold hold_mine. destruct (Nat.eqb (h_tid h) t2) eqn:E; [|reflexivity].
  apply Nat.eqb_eq in E. congruence.
Qed.

Lemma hold_sel_of i w j w' t k :
  hold_sel j w' {| h_tid := t; h_key := k; h_idx := i; h_write := w |} = (i =? j) && Bool.eqb w w'.
Proof. reflexivity. Qed.

(* ---------- the invariant ---------- *)
Definition frame_ok (f : sk_frame) : Prop :=
  match f_pc f with
  | PH2 => f_h f = fnv_offset
  | PH3 | PGet2 => f_h f = fnv1a (f_key f)
  | _ => True
  end.

(* the lock word of slice index i is exactly the set of recorded holders, and the holders exclude *)
Definition word_ok (c : sk_cfg) (i : Z) : Prop :=
  let r := get_lock i (sk_locks c) in
  rw_writer r = (0 <? writers_at c i) /\ rw_readers r = readers_at c i /\
  writers_at c i <= 1 /\ (writers_at c i = 1 -> readers_at c i = 0).

Definition hold_ok (size : Z) (h : sk_hold) : Prop :=
  h_idx h = seg_index size (h_key h) /\ 0 <= h_idx h < size.

Record sk_inv (size : Z) (c : sk_cfg) : Prop := {
  ki_size : sk_size c = size;
  ki_nodup : NoDup (tids (sk_thr c));
  ki_frames : forall t f, lookup t (sk_thr c) = Some f -> frame_ok f;
  ki_words : forall i, word_ok c i;
  ki_holds : Forall (hold_ok size) (sk_holds c);
  (* a release in flight still finds its caller's acquisition (client discipline at CALL) *)
  ki_rel : forall t f, lookup t (sk_thr c) = Some f -> is_release (f_op f) = true ->
           exists h, hfind (hold_mine t (seg_index size (f_key f)) (wants_write (f_op f))) (sk_holds c) = Some h
}.

Lemma sk_inv_init size : sk_inv size (sk_init size).
Proof.
  constructor; cbn.
  - reflexivity.
  - constructor.
  - intros t f H; discriminate.
  - intros i. unfold word_ok, writers_at, readers_at. cbn. repeat split; try lia.
  - constructor.
  - intros t f H; discriminate.
Qed.

Lemma writers_nonneg c i : 0 <= writers_at c i.
Proof. apply hcount_nonneg. Qed.
Lemma readers_nonneg c i : 0 <= readers_at c i.
Proof. apply hcount_nonneg. Qed.

(* changing only the thread table (no lock word, no ghost entry) *)
Lemma sk_inv_with_thr size c thr :
  sk_inv size c -> NoDup (tids thr) ->
  (forall t f, lookup t thr = Some f -> frame_ok f) ->
  (forall t f, lookup t thr = Some f -> is_release (f_op f) = true ->
     exists h, hfind (hold_mine t (seg_index size (f_key f)) (wants_write (f_op f))) (sk_holds c) = Some h) ->
  sk_inv size (with_thr c thr).
Proof.
  intros Hinv Hnd Hfr Hrel. destruct Hinv as [Hs _ _ Hw Hh _].
  constructor; cbn [with_thr sk_size sk_thr sk_holds sk_locks]; assumption.
Qed.

Lemma sk_inv_leave size c t : sk_inv size c -> sk_inv size (leave c t).
Proof.
  intros Hinv. unfold leave. apply sk_inv_with_thr; [exact Hinv|apply nodup_remove, Hinv| |].
  - intros t2 f2 L. destruct (Nat.eq_dec t2 t) as [->|Hne].
    + rewrite lookup_remove_same in L by apply Hinv. discriminate.
    + rewrite lookup_remove_other in L by exact Hne. eapply ki_frames; eassumption.
  - intros t2 f2 L Hr. destruct (Nat.eq_dec t2 t) as [->|Hne].
    + rewrite lookup_remove_same in L by apply Hinv. discriminate.
    + rewrite lookup_remove_other in L by exact Hne. eapply ki_rel; eassumption.
Qed.

(* the call of t ends with an acquisition of slice index i *)
Lemma sk_inv_acquire size c t k i (w : bool) (r' : rw) :
  0 < size -> sk_inv size c -> i = seg_index size k ->
  let r := get_lock i (sk_locks c) in
  (if w then can_write r = true /\ r' = {| rw_writer := true; rw_readers := rw_readers r |}
   else can_read r = true /\ r' = {| rw_writer := rw_writer r; rw_readers := rw_readers r + 1 |}) ->
  sk_inv size (finish c t i r' (sk_holds c ++ [{| h_tid := t; h_key := k; h_idx := i; h_write := w |}])).
Proof.
  intros Hpos Hinv Hi r Hw.
  constructor; cbn [finish sk_size sk_thr sk_holds sk_locks].
  - apply Hinv.
  - apply nodup_remove, Hinv.
  - intros t2 f2 L. destruct (Nat.eq_dec t2 t) as [->|Hne].
    + rewrite lookup_remove_same in L by apply Hinv. discriminate.
    + rewrite lookup_remove_other in L by exact Hne. eapply ki_frames; eassumption.
  - intros j. pose proof (ki_words _ _ Hinv j) as Wj. pose proof (ki_words _ _ Hinv i) as Wi.
    unfold word_ok, writers_at, readers_at in *.
    cbn [finish sk_size sk_thr sk_holds sk_locks]. rewrite !hcount_snoc, !hold_sel_of.
    pose proof (hcount_nonneg (hold_sel i true) (sk_holds c)) as N1.
    pose proof (hcount_nonneg (hold_sel i false) (sk_holds c)) as N2.
    rewrite get_set. destruct (j =? i) eqn:E.
    + apply Z.eqb_eq in E. subst j. rewrite Z.eqb_refl. fold r in Wi.
      destruct w; destruct Hw as [Hc ->]; cbn [rw_writer rw_readers Bool.eqb andb].
      * unfold can_write in Hc. lia.
      * unfold can_read in Hc. lia.
    + assert (i =? j = false) as -> by lia. cbn [andb]. rewrite !Z.add_0_r. exact Wj.
  - apply Forall_app. split; [apply Hinv|]. constructor; [|constructor].
    unfold hold_ok. cbn [h_idx h_key]. split; [exact Hi|]. subst i. apply seg_index_range_lemma, Hpos.
  - intros t2 f2 L Hr. destruct (Nat.eq_dec t2 t) as [->|Hne].
    + rewrite lookup_remove_same in L by apply Hinv. discriminate.
    + rewrite lookup_remove_other in L by exact Hne.
      destruct (ki_rel _ _ Hinv _ _ L Hr) as [h Hh]. exists h. apply hfind_app_some, Hh.
Qed.

(* the call of t ends with the release of its acquisition of slice index i *)
Lemma sk_inv_release size c t i (w : bool) h (r' : rw) :
  sk_inv size c -> hfind (hold_mine t i w) (sk_holds c) = Some h ->
  let r := get_lock i (sk_locks c) in
  (if w then rw_writer r = true /\ r' = {| rw_writer := false; rw_readers := rw_readers r |}
   else 0 < rw_readers r /\ r' = {| rw_writer := rw_writer r; rw_readers := rw_readers r - 1 |}) ->
  sk_inv size (finish c t i r' (hremove (hold_mine t i w) (sk_holds c))).
Proof.
  intros Hinv Hf r Hw.
  destruct (hfind_some _ _ _ Hf) as [Hm Hin]. apply hold_mine_sel in Hm. destruct Hm as [Ht [Hi Hwr]].
  constructor; cbn [finish sk_size sk_thr sk_holds sk_locks].
  - apply Hinv.
  - apply nodup_remove, Hinv.
  - intros t2 f2 L. destruct (Nat.eq_dec t2 t) as [->|Hne].
    + rewrite lookup_remove_same in L by apply Hinv. discriminate.
    + rewrite lookup_remove_other in L by exact Hne. eapply ki_frames; eassumption.
  - intros j. pose proof (ki_words _ _ Hinv j) as Wj. pose proof (ki_words _ _ Hinv i) as Wi.
    unfold word_ok, writers_at, readers_at in *.
    cbn [finish sk_size sk_thr sk_holds sk_locks].
    assert (Hsel : forall j' w', hold_sel j' w' h = (i =? j') && Bool.eqb w w')
      by (intros j' w'; unfold hold_sel; rewrite Hi, Hwr; reflexivity).
    rewrite !(hcount_remove _ _ _ _ Hf), !Hsel.
    pose proof (hcount_nonneg (hold_sel i true) (sk_holds c)) as N1.
    pose proof (hcount_nonneg (hold_sel i false) (sk_holds c)) as N2.
    rewrite get_set. destruct (j =? i) eqn:E.
    + apply Z.eqb_eq in E. subst j. rewrite Z.eqb_refl. fold r in Wi.
      destruct w; destruct Hw as [Hc ->]; cbn [rw_writer rw_readers Bool.eqb andb].
      * lia.
      * lia.
    + assert (i =? j = false) as -> by lia. cbn [andb]. rewrite !Z.sub_0_r. exact Wj.
  - apply forall_hremove, Hinv.
  - intros t2 f2 L Hr. destruct (Nat.eq_dec t2 t) as [->|Hne].
    + rewrite lookup_remove_same in L by apply Hinv. discriminate.
    + rewrite lookup_remove_other in L by exact Hne.
      destruct (ki_rel _ _ Hinv _ _ L Hr) as [h2 Hh]. exists h2.
      rewrite hfind_remove_disjoint; [exact Hh|].
      intros h0 H0. eapply hold_mine_disjoint; eassumption.
Qed.

(* ---------- every step preserves the invariant ---------- *)
Lemma sk_inv_goto size c t f p h :
  sk_inv size c -> lookup t (sk_thr c) = Some f -> frame_ok (goto f p h) ->
  sk_inv size (with_thr c (update t (goto f p h) (sk_thr c))).
Proof.
  intros Hinv L Hf. apply sk_inv_with_thr; [exact Hinv|apply nodup_update, Hinv| |].
  - intros t2 f2 L2. rewrite lookup_update in L2. destruct (Nat.eqb t2 t) eqn:E.
    + rewrite L in L2. injection L2 as <-. exact Hf.
    + eapply ki_frames; eassumption.
  - intros t2 f2 L2 Hr. rewrite lookup_update in L2. destruct (Nat.eqb t2 t) eqn:E.
    + apply Nat.eqb_eq in E. subst t2. rewrite L in L2. injection L2 as <-.
      cbn [goto f_op f_key] in *. eapply ki_rel; eassumption.
    + eapply ki_rel; eassumption.
Qed.

(* at the last statement the local `hash` is the FNV-1a hash of the key, so the slice index is
   [seg_index] of the key and inside the slice: neither run-time panic can happen *)
Lemma sk_last_index size c t f :
  0 < size -> sk_inv size c -> lookup t (sk_thr c) = Some f -> f_pc f = PGet2 ->
  (sk_size c =? 0) = false /\
  f_h f mod sk_size c = seg_index size (f_key f) /\
  negb ((0 <=? seg_index size (f_key f)) && (seg_index size (f_key f) <? sk_size c)) = false.
Proof.
  intros Hpos Hinv L Hpc. pose proof (ki_size _ _ Hinv) as Hs.
  pose proof (ki_frames _ _ Hinv _ _ L) as Hf. unfold frame_ok in Hf. rewrite Hpc in Hf.
  pose proof (seg_index_range_lemma size (f_key f) Hpos) as Hr.
  rewrite Hs, Hf. unfold seg_index at 1. repeat split; lia.
Qed.

Lemma sk_last_inv size c t f c' o :
  0 < size -> sk_inv size c -> lookup t (sk_thr c) = Some f -> f_pc f = PGet2 ->
  sk_last c t f = Some (c', o) -> sk_inv size c'.
Proof.
  intros Hpos Hinv L Hpc. destruct (sk_last_index size c t f Hpos Hinv L Hpc) as [H0 [Hi Hr]].
  unfold sk_last. rewrite H0, Hi, Hr.
  set (i := seg_index size (f_key f)). set (r := get_lock i (sk_locks c)).
  destruct (f_op f) eqn:Eop.
  - (* Lock *) destruct (can_write r) eqn:Ec; [|discriminate]. intros H; injection H as <- _.
    apply (sk_inv_acquire size c t (f_key f) i true); [exact Hpos|exact Hinv|reflexivity|]. split; [exact Ec|reflexivity].
  - (* Unlock *) destruct (hfind (hold_mine t i true) (sk_holds c)) as [h|] eqn:Ef.
    + destruct (rw_writer r) eqn:Ew; intros H; injection H as <- _.
      * apply (sk_inv_release size c t i true h); [exact Hinv|exact Ef|]. split; [exact Ew|reflexivity].
      * apply sk_inv_leave, Hinv.
    + intros H; injection H as <- _. apply sk_inv_leave, Hinv.
  - (* RLock *) destruct (can_read r) eqn:Ec; [|discriminate]. intros H; injection H as <- _.
    apply (sk_inv_acquire size c t (f_key f) i false); [exact Hpos|exact Hinv|reflexivity|]. split; [exact Ec|reflexivity].
  - (* RUnlock *) destruct (hfind (hold_mine t i false) (sk_holds c)) as [h|] eqn:Ef.
    + destruct (0 <? rw_readers r) eqn:Ew; intros H; injection H as <- _.
      * apply (sk_inv_release size c t i false h); [exact Hinv|exact Ef|]. split; [apply Z.ltb_lt in Ew; exact Ew|reflexivity].
      * apply sk_inv_leave, Hinv.
    + intros H; injection H as <- _. apply sk_inv_leave, Hinv.
  - (* TryLock *) destruct (can_write r) eqn:Ec; intros H; injection H as <- _.
    + apply (sk_inv_acquire size c t (f_key f) i true); [exact Hpos|exact Hinv|reflexivity|]. split; [exact Ec|reflexivity].
    + apply sk_inv_leave, Hinv.
  - (* TryRLock *) destruct (can_read r) eqn:Ec; intros H; injection H as <- _.
    + apply (sk_inv_acquire size c t (f_key f) i false); [exact Hpos|exact Hinv|reflexivity|]. split; [exact Ec|reflexivity].
    + apply sk_inv_leave, Hinv.
Qed.

Lemma sk_inv_exec1 size c e c' o :
  0 < size -> sk_inv size c -> sk_exec1 c e = Some (c', o) -> sk_inv size c'.
Proof.
  intros Hpos Hinv. destruct e as [t op k|t]; cbn [sk_exec1].
  - destruct (lookup t (sk_thr c)) as [f|] eqn:L; [discriminate|].
    destruct (call_ok c t op k) eqn:Eok; [|discriminate]. intros H; injection H as <- _.
    apply sk_inv_with_thr; [exact Hinv|apply nodup_spawn; [apply Hinv|exact L]| |].
    + intros t2 f2 L2. rewrite lookup_spawn in L2. destruct (lookup t2 (sk_thr c)) as [f3|] eqn:L3.
      * injection L2 as <-. eapply ki_frames; eassumption.
      * destruct (Nat.eqb t2 t); [|discriminate]. injection L2 as <-. exact I.
    + intros t2 f2 L2 Hr. rewrite lookup_spawn in L2. destruct (lookup t2 (sk_thr c)) as [f3|] eqn:L3.
      * injection L2 as <-. eapply ki_rel; eassumption.
      * destruct (Nat.eqb t2 t) eqn:E; [|discriminate]. injection L2 as <-. apply Nat.eqb_eq in E. subst t2.
        cbn [f_op f_key] in *. unfold call_ok in Eok. rewrite Hr, (ki_size _ _ Hinv) in Eok.
        destruct (hfind (hold_mine t (seg_index size k) (wants_write op)) (sk_holds c)) as [h|]; [|discriminate].
        exists h. reflexivity.
  - destruct (lookup t (sk_thr c)) as [f|] eqn:L; [|discriminate].
    pose proof (ki_frames _ _ Hinv _ _ L) as Hf.
    destruct (f_pc f) eqn:Epc;
      try (intros H; injection H as <- _; apply sk_inv_goto; [exact Hinv|exact L|]).
    + exact I.
    + exact I.
    + reflexivity.
    + unfold frame_ok in *. rewrite Epc in Hf. cbn [goto f_pc f_h f_key]. rewrite Hf. reflexivity.
    + unfold frame_ok in *. rewrite Epc in Hf. cbn [goto f_pc f_h f_key]. exact Hf.
    + intros H. eapply sk_last_inv; eassumption.
Qed.

Lemma sk_inv_step size c e c' : 0 < size -> sk_inv size c -> sk_step c e = Some c' -> sk_inv size c'.
Proof.
  intros Hpos Hinv. unfold sk_step. destruct (sk_exec1 c e) as [[c1 o]|] eqn:E; [|discriminate].
  intros H; injection H as <-. eapply sk_inv_exec1; eassumption.
Qed.

Theorem sk_inv_reachable size evs c :
  1 <= size -> exec sk_step (sk_init size) evs = Some c -> sk_inv size c.
Proof.
  intros Hs. apply (invariant_reachable sk_cfg sk_ev sk_step (sk_inv size)).
  - intros c0 e c1 Hi He. eapply sk_inv_step; [lia|exact Hi|exact He].
  - apply sk_inv_init.
Qed.

(* ---------- 1. mutual exclusion; the lock words are exactly the holders ---------- *)
Lemma inv_mutual_exclusion size c i :
  sk_inv size c ->
  0 <= writers_at c i <= 1 /\ 0 <= readers_at c i /\ (writers_at c i = 1 -> readers_at c i = 0) /\
  rw_writer (get_lock i (sk_locks c)) = (writers_at c i =? 1) /\
  rw_readers (get_lock i (sk_locks c)) = readers_at c i.
Proof.
  intros Hinv. destruct (ki_words _ _ Hinv i) as [H1 [H2 [H3 H4]]].
  pose proof (writers_nonneg c i). pose proof (readers_nonneg c i).
  repeat split; try assumption; try lia.
Qed.

Theorem segkeyls_mutual_exclusion_lemma : forall size evs c,
  1 <= size -> exec sk_step (sk_init size) evs = Some c ->
  forall i,
    0 <= writers_at c i <= 1 /\ 0 <= readers_at c i /\ (writers_at c i = 1 -> readers_at c i = 0) /\
    rw_writer (get_lock i (sk_locks c)) = (writers_at c i =? 1) /\
    rw_readers (get_lock i (sk_locks c)) = readers_at c i.
Proof. intros size evs c Hs He i. eapply inv_mutual_exclusion, sk_inv_reachable; eassumption. Qed.

(* the same in terms of the recorded acquisitions: a write acquisition of a slice index is the ONLY
   acquisition of that index *)
Lemma inv_write_holder_alone size c h1 h2 :
  sk_inv size c -> In h1 (sk_holds c) -> In h2 (sk_holds c) ->
  h_idx h1 = h_idx h2 -> h_write h1 = true -> h1 = h2.
Proof.
  intros Hinv I1 I2 Hi Hw. destruct (ki_words _ _ Hinv (h_idx h1)) as [_ [_ [Hle Hex]]].
  unfold writers_at, readers_at in *.
  assert (G1 : hold_sel (h_idx h1) true h1 = true) by (unfold hold_sel; rewrite Hw, Z.eqb_refl; reflexivity).
  pose proof (hcount_in_pos _ _ _ I1 G1) as P1.
  destruct (h_write h2) eqn:W2.
  - eapply hcount_le1_unique; [exact Hle|exact I1|exact I2|exact G1|].
    unfold hold_sel. rewrite W2, <- Hi, Z.eqb_refl. reflexivity.
  - assert (G2 : hold_sel (h_idx h1) false h2 = true) by (unfold hold_sel; rewrite W2, <- Hi, Z.eqb_refl; reflexivity).
    pose proof (hcount_in_pos _ _ _ I2 G2) as P2. lia.
Qed.

Theorem segkeyls_write_holder_alone_lemma : forall size evs c,
  1 <= size -> exec sk_step (sk_init size) evs = Some c ->
  forall h1 h2, In h1 (sk_holds c) -> In h2 (sk_holds c) ->
    h_idx h1 = h_idx h2 -> h_write h1 = true -> h1 = h2.
Proof. intros size evs c Hs He h1 h2. eapply inv_write_holder_alone, sk_inv_reachable; eassumption. Qed.

(* ---------- 2. Lock(k) excludes: other holders and every completed attempt on the segment ---------- *)
Lemma inv_hold_index size c h : sk_inv size c -> In h (sk_holds c) -> h_idx h = seg_index size (h_key h).
Proof. intros Hinv Hin. pose proof (ki_holds _ _ Hinv) as F. rewrite Forall_forall in F. apply (F h Hin). Qed.

(* what an event that RETURNS from a call looked like *)
Lemma sk_ret_is_last c e c' o k r :
  sk_exec1 c e = Some (c', ORet o k r) ->
  exists t f, e = SStep t /\ lookup t (sk_thr c) = Some f /\ f_pc f = PGet2 /\
              sk_last c t f = Some (c', ORet o k r).
Proof.
  destruct e as [t op k0|t]; cbn [sk_exec1].
  - destruct (lookup t (sk_thr c)); [discriminate|]. destruct (call_ok c t op k0); discriminate.
  - destruct (lookup t (sk_thr c)) as [f|] eqn:L; [|discriminate].
    destruct (f_pc f) eqn:Epc; try discriminate.
    intros H. exists t, f. auto.
Qed.

Lemma sk_last_ret_frame c t f c' o k r :
  sk_last c t f = Some (c', ORet o k r) -> o = f_op f /\ k = f_key f.
Proof.
  unfold sk_last.
  destruct (sk_size c =? 0); [discriminate|].
  destruct (negb _); [discriminate|].
  destruct (f_op f);
    repeat match goal with
           | |- context [if ?b then _ else _] => destruct b
           | |- context [match hfind ?a ?b with _ => _ end] => destruct (hfind a b)
           end; try discriminate; intros H; injection H as _ <- <- _; auto.
Qed.

Lemma inv_lock_excludes size c t k :
  0 < size -> sk_inv size c -> holds_lock c t k ->
  (forall h, In h (sk_holds c) -> seg_index size (h_key h) = seg_index size k ->
     h = {| h_tid := t; h_key := k; h_idx := seg_index size k; h_write := true |}) /\
  (forall e c' o k' r, sk_exec1 c e = Some (c', ORet o k' r) ->
     seg_index size k' = seg_index size k -> is_acquire o = true -> r = RBool false).
Proof.
  intros Hpos Hinv [i Hin].
  pose proof (inv_hold_index _ _ _ Hinv Hin) as Hi. cbn [h_idx h_key] in Hi. subst i.
  split.
  - intros h Hh Hk. symmetry. eapply inv_write_holder_alone; [exact Hinv|exact Hin|exact Hh| |reflexivity].
    cbn [h_idx]. rewrite (inv_hold_index _ _ _ Hinv Hh). symmetry. exact Hk.
  - intros e c' o k' r He Hk Hacq.
    destruct (sk_ret_is_last _ _ _ _ _ _ He) as [t' [f [-> [L [Hpc Hl]]]]].
    destruct (sk_last_ret_frame _ _ _ _ _ _ _ Hl) as [-> ->].
    destruct (sk_last_index size c t' f Hpos Hinv L Hpc) as [H0 [Hix Hr]].
    revert Hl. unfold sk_last. rewrite H0, Hix, Hr, Hk.
    destruct (ki_words _ _ Hinv (seg_index size k)) as [Hw _].
    assert (P : 1 <= writers_at c (seg_index size k)).
    { unfold writers_at. eapply hcount_in_pos; [exact Hin|]. unfold hold_sel. cbn [h_idx h_write].
      rewrite Z.eqb_refl. reflexivity. }
    assert (Hwr : rw_writer (get_lock (seg_index size k) (sk_locks c)) = true) by lia.
    unfold can_write, can_read. rewrite Hwr. cbn [negb andb].
    destruct (f_op f); try discriminate.
    + intros H; injection H as _ <-. reflexivity.
    + intros H; injection H as _ <-. reflexivity.
Qed.

Theorem segkeyls_lock_excludes_same_segment_lemma : forall size evs c t k,
  1 <= size -> exec sk_step (sk_init size) evs = Some c -> holds_lock c t k ->
  (forall h, In h (sk_holds c) -> seg_index size (h_key h) = seg_index size k ->
     h = {| h_tid := t; h_key := k; h_idx := seg_index size k; h_write := true |}) /\
  (forall e c' o k' r, sk_exec1 c e = Some (c', ORet o k' r) ->
     seg_index size k' = seg_index size k -> is_acquire o = true -> r = RBool false).
Proof.
  intros size evs c t k Hs He Hh. apply inv_lock_excludes; [lia| |exact Hh].
  eapply sk_inv_reachable; eassumption.
Qed.

(* the clause of the property, literally: equal key bytes *)
Theorem segkeyls_lock_excludes_equal_keys_lemma : forall size evs c t k,
  1 <= size -> exec sk_step (sk_init size) evs = Some c -> holds_lock c t k ->
  (* no other goroutine holds a read or write lock for an equal key (nor this one a second time) *)
  (forall t' k' (w : bool), k' = k ->
     (if w then holds_lock c t' k' else holds_rlock c t' k') -> t' = t /\ w = true) /\
  (* every TryLock/TryRLock on an equal key that completes now answers false, and no Lock/RLock on it completes *)
  (forall e c' o k' r, sk_exec1 c e = Some (c', ORet o k' r) -> k' = k -> is_acquire o = true ->
     r = RBool false).
Proof.
  intros size evs c t k Hs He Hh.
  destruct (segkeyls_lock_excludes_same_segment_lemma size evs c t k Hs He Hh) as [A B].
  split.
  - intros t' k' w -> Hw. destruct w; destruct Hw as [i Hin].
    + pose proof (A _ Hin eq_refl) as E. injection E as -> _. auto.
    + pose proof (A _ Hin eq_refl) as E. discriminate E.
  - intros e c' o k' r He1 -> Ha. eapply B; [exact He1|reflexivity|exact Ha].
Qed.

(* ---------- 3. readers share ---------- *)
Definition ret_of (o : sk_op) : sk_ret := if is_try o then RBool true else RUnit.

Lemma at_last_step size c t o k :
  0 < size -> sk_inv size c -> at_last c t o k ->
  exists f, lookup t (sk_thr c) = Some f /\ f_op f = o /\ f_key f = k /\
            sk_exec1 c (SStep t) = sk_last c t f /\
            (sk_size c =? 0) = false /\ f_h f mod sk_size c = seg_index size k /\
            negb ((0 <=? seg_index size k) && (seg_index size k <? sk_size c)) = false.
Proof.
  intros Hpos Hinv [f [L [Hpc [Ho Hk]]]]. exists f.
  destruct (sk_last_index size c t f Hpos Hinv L Hpc) as [H0 [Hi Hr]]. rewrite Hk in *.
  repeat split; try assumption. cbn [sk_exec1]. rewrite L, Hpc. reflexivity.
Qed.

(* RLock / TryRLock on a segment without a write holder completes successfully whatever number of
   goroutines already hold read locks on it; the earlier read holders stay *)
Lemma inv_readers_share size c t o k :
  0 < size -> sk_inv size c -> at_last c t o k -> o = ORLock \/ o = OTryRLock ->
  writers_at c (seg_index size k) = 0 ->
  exists c', sk_exec1 c (SStep t) = Some (c', ORet o k (ret_of o)) /\
             sk_holds c' = sk_holds c ++ [{| h_tid := t; h_key := k; h_idx := seg_index size k; h_write := false |}] /\
             readers_at c' (seg_index size k) = readers_at c (seg_index size k) + 1 /\
             writers_at c' (seg_index size k) = 0 /\
             holds_rlock c' t k.
Proof.
  intros Hpos Hinv Hat Ho Hw0.
  destruct (at_last_step size c t o k Hpos Hinv Hat) as [f [L [Hop [Hk [He [H0 [Hi Hr]]]]]]].
  rewrite He. unfold sk_last. rewrite H0, Hi, Hr, Hop, Hk.
  destruct (ki_words _ _ Hinv (seg_index size k)) as [Hw _]. rewrite Hw0 in Hw.
  unfold can_read. rewrite Hw. cbn [negb Z.ltb Z.compare].
  assert (Hgoal : forall c', c' = finish c t (seg_index size k)
            {| rw_writer := false; rw_readers := rw_readers (get_lock (seg_index size k) (sk_locks c)) + 1 |}
            (sk_holds c ++ [{| h_tid := t; h_key := k; h_idx := seg_index size k; h_write := false |}]) ->
          sk_holds c' = sk_holds c ++ [{| h_tid := t; h_key := k; h_idx := seg_index size k; h_write := false |}] /\
          readers_at c' (seg_index size k) = readers_at c (seg_index size k) + 1 /\
          writers_at c' (seg_index size k) = 0 /\ holds_rlock c' t k).
  { intros c' ->. unfold readers_at, writers_at, holds_rlock in *. cbn [finish sk_holds].
    rewrite !hcount_snoc, !hold_sel_of, Z.eqb_refl. cbn [Bool.eqb andb].
    repeat split; try lia. exists (seg_index size k). apply in_or_app. right. left. reflexivity. }
  destruct Ho as [-> | ->]; cbn [ret_of is_try]; eexists; (split; [reflexivity|apply Hgoal; reflexivity]).
Qed.

Theorem segkeyls_readers_share_lemma : forall size evs c t o k,
  1 <= size -> exec sk_step (sk_init size) evs = Some c ->
  at_last c t o k -> o = ORLock \/ o = OTryRLock ->
  writers_at c (seg_index size k) = 0 ->
  exists c', sk_exec1 c (SStep t) = Some (c', ORet o k (ret_of o)) /\
             sk_holds c' = sk_holds c ++ [{| h_tid := t; h_key := k; h_idx := seg_index size k; h_write := false |}] /\
             readers_at c' (seg_index size k) = readers_at c (seg_index size k) + 1 /\
             writers_at c' (seg_index size k) = 0 /\
             holds_rlock c' t k.
Proof.
  intros size evs c t o k Hs He. apply inv_readers_share; [lia|]. eapply sk_inv_reachable; eassumption.
Qed.

(* ---------- 4. TryLock succeeds when the segment is idle; everything succeeds when nothing is held ---------- *)
Lemma inv_trylock_idle_segment size c t o k :
  0 < size -> sk_inv size c -> at_last c t o k -> o = OLock \/ o = OTryLock ->
  writers_at c (seg_index size k) = 0 -> readers_at c (seg_index size k) = 0 ->
  exists c', sk_exec1 c (SStep t) = Some (c', ORet o k (ret_of o)) /\ holds_lock c' t k.
Proof.
  intros Hpos Hinv Hat Ho Hw0 Hr0.
  destruct (at_last_step size c t o k Hpos Hinv Hat) as [f [L [Hop [Hk [He [H0 [Hi Hr]]]]]]].
  rewrite He. unfold sk_last. rewrite H0, Hi, Hr, Hop, Hk.
  destruct (ki_words _ _ Hinv (seg_index size k)) as [Hw [Hrd _]]. rewrite Hw0 in Hw. rewrite Hr0 in Hrd.
  unfold can_write. rewrite Hw, Hrd. cbn [negb Z.ltb Z.compare Z.eqb andb].
  destruct Ho as [-> | ->]; cbn [ret_of is_try]; eexists; (split; [reflexivity|]);
    exists (seg_index size k); cbn [finish sk_holds]; apply in_or_app; right; left; reflexivity.
Qed.

Theorem segkeyls_trylock_succeeds_on_idle_segment_lemma : forall size evs c t o k,
  1 <= size -> exec sk_step (sk_init size) evs = Some c ->
  at_last c t o k -> o = OLock \/ o = OTryLock ->
  writers_at c (seg_index size k) = 0 -> readers_at c (seg_index size k) = 0 ->
  exists c', sk_exec1 c (SStep t) = Some (c', ORet o k (ret_of o)) /\ holds_lock c' t k.
Proof.
  intros size evs c t o k Hs He. apply inv_trylock_idle_segment; [lia|]. eapply sk_inv_reachable; eassumption.
Qed.

(* when nothing is held: every acquiring call that reaches its last statement is enabled, and every call
   that completes - whichever goroutine, whichever key - succeeds *)
Lemma inv_idle_all_succeed size c :
  0 < size -> sk_inv size c -> sk_holds c = [] ->
  (forall t o k, at_last c t o k -> is_acquire o = true ->
     exists c', sk_exec1 c (SStep t) = Some (c', ORet o k (ret_of o))) /\
  (forall e c' o k r, sk_exec1 c e = Some (c', ORet o k r) -> is_acquire o = true -> r = ret_of o).
Proof.
  intros Hpos Hinv Hnil.
  assert (Hfree : forall i, can_write (get_lock i (sk_locks c)) = true /\ can_read (get_lock i (sk_locks c)) = true).
  { intros i. destruct (ki_words _ _ Hinv i) as [Hw [Hrd _]]. unfold writers_at, readers_at in *.
    rewrite Hnil in *. cbn [hcount] in *. unfold can_write, can_read. rewrite Hw, Hrd. split; reflexivity. }
  assert (A : forall t o k, at_last c t o k -> is_acquire o = true ->
     exists c', sk_exec1 c (SStep t) = Some (c', ORet o k (ret_of o))).
  { intros t o k Hat Hacq.
    destruct (at_last_step size c t o k Hpos Hinv Hat) as [f [L [Hop [Hk [He [H0 [Hi Hr]]]]]]].
    rewrite He. unfold sk_last. rewrite H0, Hi, Hr, Hop, Hk.
    destruct (Hfree (seg_index size k)) as [-> ->].
    destruct o; try discriminate Hacq; cbn [ret_of is_try]; eexists; reflexivity. }
  split; [exact A|].
  intros e c' o k r He Hacq.
  destruct (sk_ret_is_last _ _ _ _ _ _ He) as [t [f [-> [L [Hpc Hl]]]]].
  destruct (sk_last_ret_frame _ _ _ _ _ _ _ Hl) as [Eo Ek].
  assert (Hat : at_last c t o k) by (exists f; auto).
  destruct (A t o k Hat Hacq) as [c2 H2]. rewrite H2 in He. injection He as _ <-. reflexivity.
Qed.

Theorem segkeyls_trylock_succeeds_when_idle_lemma : forall size evs c,
  1 <= size -> exec sk_step (sk_init size) evs = Some c -> sk_holds c = [] ->
  (forall t o k, at_last c t o k -> is_acquire o = true ->
     exists c', sk_exec1 c (SStep t) = Some (c', ORet o k (ret_of o))) /\
  (forall e c' o k r, sk_exec1 c e = Some (c', ORet o k r) -> is_acquire o = true -> r = ret_of o).
Proof.
  intros size evs c Hs He Hnil. apply (inv_idle_all_succeed size); [lia| |exact Hnil]. eapply sk_inv_reachable; eassumption.
Qed.

(* ---------- 5. no run-time panic, no misuse ---------- *)
Lemma inv_no_panic_no_misuse size c e c' o :
  0 < size -> sk_inv size c -> sk_exec1 c e = Some (c', o) -> o <> OPanic /\ o <> OMisuse.
Proof.
  intros Hpos Hinv. destruct e as [t op k|t]; cbn [sk_exec1].
  - destruct (lookup t (sk_thr c)); [discriminate|]. destruct (call_ok c t op k); [|discriminate].
    intros H; injection H as _ <-. split; discriminate.
  - destruct (lookup t (sk_thr c)) as [f|] eqn:L; [|discriminate].
    destruct (f_pc f) eqn:Epc; try (intros H; injection H as _ <-; split; discriminate).
    destruct (sk_last_index size c t f Hpos Hinv L Epc) as [H0 [Hi Hr]].
    unfold sk_last. rewrite H0, Hi, Hr.
    set (i := seg_index size (f_key f)). set (r := get_lock i (sk_locks c)).
    destruct (ki_words _ _ Hinv i) as [Hw [Hrd _]]. fold r in Hw, Hrd.
    destruct (f_op f) eqn:Eop.
    + destruct (can_write r); [|discriminate]. intros H; injection H as _ <-. split; discriminate.
    + destruct (ki_rel _ _ Hinv _ _ L) as [h Hh]; [rewrite Eop; reflexivity|].
      rewrite Eop in Hh. cbn [wants_write] in Hh. fold i in Hh. rewrite Hh.
      destruct (hfind_some _ _ _ Hh) as [Hm Hin]. apply hold_mine_sel in Hm. destruct Hm as [_ [Hix Hwr]].
      assert (P : 1 <= writers_at c i).
      { unfold writers_at. eapply hcount_in_pos; [exact Hin|]. unfold hold_sel. rewrite Hix, Hwr, Z.eqb_refl. reflexivity. }
      assert (Hwt : rw_writer r = true) by lia. rewrite Hwt.
      intros H; injection H as _ <-. split; discriminate.
    + destruct (can_read r); [|discriminate]. intros H; injection H as _ <-. split; discriminate.
    + destruct (ki_rel _ _ Hinv _ _ L) as [h Hh]; [rewrite Eop; reflexivity|].
      rewrite Eop in Hh. cbn [wants_write] in Hh. fold i in Hh. rewrite Hh.
      destruct (hfind_some _ _ _ Hh) as [Hm Hin]. apply hold_mine_sel in Hm. destruct Hm as [_ [Hix Hwr]].
      assert (P : 1 <= readers_at c i).
      { unfold readers_at. eapply hcount_in_pos; [exact Hin|]. unfold hold_sel. rewrite Hix, Hwr, Z.eqb_refl. reflexivity. }
      assert (Hrt : (0 <? rw_readers r) = true) by lia. rewrite Hrt.
      intros H; injection H as _ <-. split; discriminate.
    + destruct (can_write r); intros H; injection H as _ <-; split; discriminate.
    + destruct (can_read r); intros H; injection H as _ <-; split; discriminate.
Qed.

Theorem segkeyls_index_in_range_lemma : forall size evs c,
  1 <= size -> exec sk_step (sk_init size) evs = Some c ->
  (* whenever a goroutine is about to execute `return s.locks[hash%s.size]`, the index is inside the slice
     (and the divisor is not 0) ... *)
  (forall t f, lookup t (sk_thr c) = Some f -> f_pc f = PGet2 ->
     sk_size c <> 0 /\ 0 <= f_h f mod sk_size c < size /\ f_h f mod sk_size c = seg_index size (f_key f)) /\
  (* ... so no step panics; and under the client discipline no release is a misuse *)
  (forall e c' o, sk_exec1 c e = Some (c', o) -> o <> OPanic /\ o <> OMisuse).
Proof.
  intros size evs c Hs He. pose proof (sk_inv_reachable size evs c Hs He) as Hinv. split.
  - intros t f L Hpc. destruct (sk_last_index size c t f ltac:(lia) Hinv L Hpc) as [H0 [Hi _]].
    rewrite Hi. pose proof (seg_index_range_lemma size (f_key f) ltac:(lia)). repeat split; lia.
  - intros e c' o. apply (inv_no_panic_no_misuse size); [lia|exact Hinv].
Qed.

(* ---------- whole calls executed alone ---------- *)
Definition same_shared (c c' : sk_cfg) : Prop :=
  sk_size c' = sk_size c /\ sk_locks c' = sk_locks c /\ sk_holds c' = sk_holds c.

Definition pc_succ (p : sk_pc) : sk_pc :=
  match p with PMeth => PGet1 | PGet1 => PH1 | PH1 => PH2 | PH2 => PH3 | PH3 => PGet2 | PGet2 => PGet2 end.

Lemma sk_step_nonlast c t f :
  lookup t (sk_thr c) = Some f -> f_pc f <> PGet2 ->
  exists c1 f1, sk_step c (SStep t) = Some c1 /\ same_shared c c1 /\
    lookup t (sk_thr c1) = Some f1 /\ f_op f1 = f_op f /\ f_key f1 = f_key f /\ f_pc f1 = pc_succ (f_pc f).
Proof.
  intros L Hpc. unfold sk_step. cbn [sk_exec1]. rewrite L.
  destruct (f_pc f) eqn:Epc; try congruence;
    (eexists; eexists; split; [reflexivity|]; split; [repeat split|];
     cbn [with_thr sk_thr]; split; [eapply lookup_update_same, L|]; cbn [goto f_op f_key f_pc pc_succ]; auto).
Qed.

Lemma same_shared_trans a b c : same_shared a b -> same_shared b c -> same_shared a c.
Proof. unfold same_shared. intros [A1 [A2 A3]] [B1 [B2 B3]]. repeat split; congruence. Qed.

(* a call started alone reaches its last statement without touching the locks *)
Lemma sk_call_alone_reaches_last size c t o k :
  0 < size -> sk_inv size c -> lookup t (sk_thr c) = None -> call_ok c t o k = true ->
  exists c5, sk_call_alone c t o k = sk_exec1 c5 (SStep t) /\ sk_inv size c5 /\ same_shared c c5 /\
             at_last c5 t o k.
Proof.
  intros Hpos Hinv L Hok. unfold sk_call_alone.
  assert (E0 : sk_step c (SCall t o k) =
     Some (with_thr c (spawn t {| f_op := o; f_key := k; f_pc := PMeth; f_h := 0 |} (sk_thr c)))).
  { unfold sk_step. cbn [sk_exec1]. rewrite L, Hok. reflexivity. }
  rewrite E0. set (c0 := with_thr c _).
  assert (I0 : sk_inv size c0) by (eapply sk_inv_step; [exact Hpos|exact Hinv|exact E0]).
  assert (S0 : same_shared c c0) by (repeat split).
  assert (L0 : lookup t (sk_thr c0) = Some {| f_op := o; f_key := k; f_pc := PMeth; f_h := 0 |}).
  { unfold c0. cbn [with_thr sk_thr]. rewrite lookup_spawn, L, Nat.eqb_refl. reflexivity. }
  destruct (sk_step_nonlast c0 t _ L0) as [c1 [f1 [E1 [S1 [L1 [O1 [K1 P1]]]]]]]; [cbn; discriminate|].
  cbn [f_op f_key f_pc pc_succ] in O1, K1, P1.
  assert (I1 : sk_inv size c1) by (eapply sk_inv_step; [exact Hpos|exact I0|exact E1]).
  destruct (sk_step_nonlast c1 t _ L1) as [c2 [f2 [E2 [S2 [L2 [O2 [K2 P2]]]]]]]; [rewrite P1; discriminate|].
  rewrite P1 in P2. cbn [pc_succ] in P2.
  assert (I2 : sk_inv size c2) by (eapply sk_inv_step; [exact Hpos|exact I1|exact E2]).
  destruct (sk_step_nonlast c2 t _ L2) as [c3 [f3 [E3 [S3 [L3 [O3 [K3 P3]]]]]]]; [rewrite P2; discriminate|].
  rewrite P2 in P3. cbn [pc_succ] in P3.
  assert (I3 : sk_inv size c3) by (eapply sk_inv_step; [exact Hpos|exact I2|exact E3]).
  destruct (sk_step_nonlast c3 t _ L3) as [c4 [f4 [E4 [S4 [L4 [O4 [K4 P4]]]]]]]; [rewrite P3; discriminate|].
  rewrite P3 in P4. cbn [pc_succ] in P4.
  assert (I4 : sk_inv size c4) by (eapply sk_inv_step; [exact Hpos|exact I3|exact E4]).
  destruct (sk_step_nonlast c4 t _ L4) as [c5 [f5 [E5 [S5 [L5 [O5 [K5 P5]]]]]]]; [rewrite P4; discriminate|].
  rewrite P4 in P5. cbn [pc_succ] in P5.
  assert (I5 : sk_inv size c5) by (eapply sk_inv_step; [exact Hpos|exact I4|exact E5]).
  exists c5. cbn [repeat exec]. rewrite E1, E2, E3, E4, E5.
  split; [reflexivity|]. split; [exact I5|]. split.
  - apply (same_shared_trans _ _ _ S0), (same_shared_trans _ _ _ S1), (same_shared_trans _ _ _ S2),
      (same_shared_trans _ _ _ S3), (same_shared_trans _ _ _ S4). exact S5.
  - exists f5. repeat split; [exact L5|exact P5|congruence|congruence].
Qed.

(* when nothing is held, a whole TryLock / TryRLock / Lock / RLock by a goroutine that is not in a call,
   executed without interleaving, succeeds - for every key *)
Theorem segkeyls_call_alone_succeeds_when_idle_lemma : forall size evs c t o k,
  1 <= size -> exec sk_step (sk_init size) evs = Some c -> sk_holds c = [] ->
  lookup t (sk_thr c) = None -> is_acquire o = true ->
  exists c', sk_call_alone c t o k = Some (c', ORet o k (ret_of o)).
Proof.
  intros size evs c t o k Hs He Hnil L Hacq.
  pose proof (sk_inv_reachable size evs c Hs He) as Hinv.
  assert (Hok : call_ok c t o k = true).
  { unfold call_ok. unfold is_acquire in Hacq. destruct (is_release o); [discriminate|reflexivity]. }
  destruct (sk_call_alone_reaches_last size c t o k ltac:(lia) Hinv L Hok) as [c5 [E [I5 [[_ [_ S]] Hat]]]].
  rewrite E. rewrite <- S in Hnil.
  destruct (inv_idle_all_succeed size c5 ltac:(lia) I5 Hnil) as [A _]. exact (A t o k Hat Hacq).
Qed.
