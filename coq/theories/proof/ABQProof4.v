(* ABQProof (part 4): calls run alone from a quiescent configuration (C09, capacity after
   cancellations): an Enqueue on a non-full queue / a Dequeue on a non-empty queue returns without
   parking, on a full / empty queue it parks; exactly cap - count Enqueues complete. *)
From Ekit Require Import Common Conc ABQModel ABQProof ABQProof2 ABQProof3.
From Coq Require Import ZifyBool Arith PeanoNat.

Lemma run_alone_S f c t :
  run_alone (S f) c t =
  match abq_exec1 c (AStep t) with
  | None => (c, None)
  | Some (c', obs) =>
    match lookup t (q_thr c') with
    | Some _ => run_alone f c' t
    | None => (c', match obs with (_, o) :: _ => Some o | [] => None end)
    end
  end.
Proof. reflexivity. Qed.

Ltac ev0 :=
  cbn [abq_exec1 abq_step lookup q_thr t_pc t_can t_err t_val t_lin t_res t_cnt t_capv t_idx
       q_enq q_deq q_w q_r q_data q_head q_tail q_count g_in g_out
       sem_notify s_size s_cur s_wait andb orb negb Z.eqb
       goto finish add_obs obs_at map wake app set_thr set_enq set_deq set_mu set_ring set_log
       update remove new_thr enter at_pc set_err set_can set_val set_lin set_res set_cnt set_capv set_idx fst snd];
  rewrite ?Nat.eqb_refl.
Ltac ev1 := do 3 (ev0; unfold sem_acquire, sem_release); ev0.

Lemma run_alone_step f c t c1 o :
  abq_exec1 c (AStep t) = Some (c1, o) -> (exists th, lookup t (q_thr c1) = Some th) ->
  run_alone (S f) c t = run_alone f c1 t.
Proof. intros H [th L]. rewrite run_alone_S, H, L. reflexivity. Qed.

Lemma run_alone_last f c t c1 t' ob o :
  abq_exec1 c (AStep t) = Some (c1, (t', ob) :: o) -> lookup t (q_thr c1) = None ->
  run_alone (S f) c t = (c1, Some ob).
Proof. intros H L. rewrite run_alone_S, H, L. reflexivity. Qed.

Lemma run_alone_blocked f c t :
  abq_exec1 c (AStep t) = None -> run_alone (S f) c t = (c, None).
Proof. intros H. rewrite run_alone_S, H. reflexivity. Qed.

Section Alone.
  Variable cap : Z.
  Hypothesis Hcap : 1 <= cap.

  Lemma run_alone_inv f : forall c t c' r,
    abq_inv cap c -> run_alone f c t = (c', r) -> abq_inv cap c'.
  Proof.
    induction f as [|f IH]; intros c t c' r I H; cbn [run_alone] in H.
    - injection H as <- _. exact I.
    - destruct (abq_exec1 c (AStep t)) as [[c1 o]|] eqn:E.
      + pose proof (proj1 (abq_inv_exec1 cap c _ c1 o Hcap I E)) as I1.
        destruct (lookup t (q_thr c1)); [exact (IH c1 t c' r I1 H)|].
        injection H as <- _. exact I1.
      + injection H as <- _. exact I.
  Qed.

  Lemma call_alone_inv c t op c' r :
    abq_inv cap c -> call_alone c t op = Some (c', r) -> abq_inv cap c'.
  Proof.
    intros I H. unfold call_alone in H.
    destruct (abq_exec1 c (ACall t op)) as [[c1 o]|] eqn:E; [|discriminate].
    remember (run_alone 64 c1 t) as x eqn:Hx. injection H as ->. symmetry in Hx.
    eapply run_alone_inv; [|exact Hx].
    exact (proj1 (abq_inv_exec1 cap c _ c1 o Hcap I E)).
  Qed.

  (* a quiescent configuration, field by field *)
  Ltac quiescent_fields I Hq c :=
    destruct (abq_quiescent_inv cap c I Hq) as [Fe [Fd [We [Wd [W [R [A Hn]]]]]]];
    pose proof (abq_ring_consistent_inv cap Hcap c I W) as [Hh [Ht [_ [Hgeo _]]]];
    pose proof (i_cap _ _ I) as Icap; pose proof (i_geo _ _ I) as Igeo;
    pose proof (so_size _ _ (i_enq _ _ I)) as Esz; pose proof (so_size _ _ (i_deq _ _ I)) as Dsz;
    destruct c as [data head tail count enq deq w r thr gi go];
    destruct enq as [es ec ew]; destruct deq as [ds dc dw];
    unfold s_free, abs_head, abs_len in *;
    cbn [q_data q_head q_tail q_count q_enq q_deq q_w q_r q_thr s_size s_cur s_wait] in *;
    rewrite Hq, We, Wd, W, R, Esz, Dsz in *; clear Hq We Wd W R Esz Dsz; cbn [Conc.count] in Igeo.

  Ltac evq := ev1; rewrite ?cap_of_dset; repeat match goal with B : _ = true |- _ => rewrite B | B : _ = false |- _ => rewrite B end; ev1.
  Ltac normc := cbv [set_thr set_enq set_deq set_mu set_ring set_log q_data q_head q_tail q_count q_enq q_deq q_w q_r q_thr g_in g_out at_pc set_err set_can set_val set_lin set_res set_cnt set_capv set_idx new_thr t_pc t_val t_err t_can t_res t_cnt t_capv t_idx t_lin s_size s_cur s_wait].
  Ltac stepn := erewrite run_alone_step; [ | evq; normc; reflexivity | eexists; proj_simpl; do 3 (cbn [lookup update remove]; rewrite ?Nat.eqb_refl); reflexivity ].
  Ltac lastn := eapply run_alone_last; [ evq; normc; reflexivity | proj_simpl; do 3 (cbn [lookup update remove]; rewrite ?Nat.eqb_refl); reflexivity ].

  (* Enqueue run alone from a quiescent, non-full queue: returns nil without parking *)
  Lemma enq_alone_ok c t v :
    abq_inv cap c -> q_thr c = [] -> q_count c < cap ->
    exists c', call_alone c t (OpEnq v) = Some (c', Some (ORet RNil)) /\ q_thr c' = [] /\
               q_count c' = q_count c + 1 /\ abq_abs c' = abq_abs c ++ [v].
  Proof.
    intros I Hq Hlt. quiescent_fields I Hq c.
    unfold call_alone. cbn [abq_exec1 q_thr lookup enter new_thr set_thr spawn app t_pc].
    assert (B1 : (1 <=? cap - ec) = true) by lia.
    assert (B2 : idx_ok data tail = true) by (apply idx_ok_iff; lia).
    assert (B3 : (dc - 1 <? 0) = false) by lia.
    assert (A1 : ring (dset data tail v) (head + 0) (count + 1 + 0 - 0) = ring data (head + 0) (count + 0 - 0) ++ [v]).
    { replace (count + 1 + 0 - 0) with (count + 0 - 0 + 1) by lia.
      apply (ring_write _ _ _ _ _ cap); try lia; try assumption.
      replace (tail - (head + 0) - (count + 0 - 0)) with (tail + 0 - (head + 0) - (count + 0 - 0)) by lia. exact Igeo. }
    destruct (tail + 1 =? cap_of data) eqn:Etl.
    - eexists. split.
      + f_equal. do 11 stepn. lastn.
      + unfold abq_abs, abs_head, abs_len. proj_simpl. cbn [remove]. rewrite !Nat.eqb_refl. cbn [Conc.count].
        split; [reflexivity|]. split; [reflexivity|exact A1].
    - eexists. split.
      + f_equal. do 10 stepn. lastn.
      + unfold abq_abs, abs_head, abs_len. proj_simpl. cbn [remove]. rewrite !Nat.eqb_refl. cbn [Conc.count].
        split; [reflexivity|]. split; [reflexivity|exact A1].
  Qed.

  (* ... and on a full queue it parks inside enqueueCap.Acquire *)
  Lemma enq_alone_full c t v :
    abq_inv cap c -> q_thr c = [] -> q_count c = cap ->
    exists c' th, call_alone c t (OpEnq v) = Some (c', None) /\
                  lookup t (q_thr c') = Some th /\ t_pc th = EPark /\ abq_abs c' = abq_abs c.
  Proof.
    intros I Hq Hfull. quiescent_fields I Hq c.
    unfold call_alone. cbn [abq_exec1 q_thr lookup enter new_thr set_thr spawn app t_pc].
    assert (B1 : (1 <=? cap - ec) = false) by lia.
    assert (B2 : (cap <? 1) = false) by lia.
    eexists. eexists. split.
    - f_equal. stepn. apply run_alone_blocked. ev1. reflexivity.
    - proj_simpl. cbn [lookup]. rewrite Nat.eqb_refl. split; [reflexivity|]. split; [reflexivity|].
      unfold abq_abs, abs_head, abs_len. proj_simpl. cbn. reflexivity.
  Qed.

  (* Dequeue run alone from a quiescent, non-empty queue: returns the head element without parking *)
  Lemma deq_alone_ok c t :
    abq_inv cap c -> q_thr c = [] -> 1 <= q_count c ->
    exists c' x, call_alone c t OpDeq = Some (c', Some (ORet (RVal x))) /\ q_thr c' = [] /\
                 q_count c' = q_count c - 1 /\ abq_abs c = x :: abq_abs c'.
  Proof.
    intros I Hq Hge. quiescent_fields I Hq c.
    unfold call_alone. cbn [abq_exec1 q_thr lookup enter new_thr set_thr spawn app t_pc].
    assert (B1 : (1 <=? cap - dc) = true) by lia.
    assert (B2 : idx_ok data head = true) by (apply idx_ok_iff; lia).
    assert (B3 : (ec - 1 <? 0) = false) by lia.
    assert (A1 : ring data (head + 0) (count + 0 - 0) =
                 dget data head :: ring (dset data head 0) (head + 1 + 0) (count - 1 + 0 - 0)).
    { replace (head + 0) with head by lia. replace (count + 0 - 0) with count by lia.
      replace (head + 1 + 0) with (head + 1) by lia. replace (count - 1 + 0 - 0) with (count - 1) by lia.
      rewrite (ring_zero _ _ _ _ cap) by (try assumption; lia).
      apply (ring_read _ _ _ cap); try assumption; lia. }
    destruct (head + 1 =? cap_of data) eqn:Ehd.
    - eexists. eexists. split.
      + f_equal. do 12 stepn. lastn.
      + unfold abq_abs, abs_head, abs_len. proj_simpl. cbn [remove]. rewrite !Nat.eqb_refl. cbn [Conc.count].
        split; [reflexivity|]. split; [reflexivity|]. rewrite A1. f_equal.
        replace (head + 1 + 0) with cap by lia. replace (0 + 0) with 0 by lia.
        apply ring_head_wrap; [rewrite cap_of_dset; assumption|lia].
    - eexists. eexists. split.
      + f_equal. do 11 stepn. lastn.
      + unfold abq_abs, abs_head, abs_len. proj_simpl. cbn [remove]. rewrite !Nat.eqb_refl. cbn [Conc.count].
        split; [reflexivity|]. split; [reflexivity|exact A1].
  Qed.

  (* ... and on an empty queue it parks inside dequeueCap.Acquire *)
  Lemma deq_alone_empty c t :
    abq_inv cap c -> q_thr c = [] -> q_count c = 0 ->
    exists c' th, call_alone c t OpDeq = Some (c', None) /\
                  lookup t (q_thr c') = Some th /\ t_pc th = DPark /\ abq_abs c' = abq_abs c.
  Proof.
    intros I Hq Hz. quiescent_fields I Hq c.
    unfold call_alone. cbn [abq_exec1 q_thr lookup enter new_thr set_thr spawn app t_pc].
    assert (B1 : (1 <=? cap - dc) = false) by lia.
    assert (B2 : (cap <? 1) = false) by lia.
    eexists. eexists. split.
    - f_equal. stepn. apply run_alone_blocked. ev1. reflexivity.
    - proj_simpl. cbn [lookup]. rewrite Nat.eqb_refl. split; [reflexivity|]. split; [reflexivity|].
      unfold abq_abs, abs_head, abs_len. proj_simpl. cbn. reflexivity.
  Qed.

  (* exactly cap - count Enqueues complete without parking; the next one parks *)
  Lemma enqs_alone_exact t vs : forall c,
    abq_inv cap c -> q_thr c = [] ->
    exists c', enqs_alone c t vs = (c', Nat.min (length vs) (Z.to_nat (cap - q_count c))) /\
               abq_inv cap c' /\
               (Z.of_nat (length vs) <= cap - q_count c ->
                q_thr c' = [] /\ abq_abs c' = abq_abs c ++ vs /\ q_count c' = q_count c + Z.of_nat (length vs)).
  Proof.
    induction vs as [|v r IH]; intros c I Hq.
    - exists c. cbn. split; [reflexivity|]. split; [exact I|]. intros _.
      rewrite app_nil_r. repeat split; [exact Hq|lia].
    - pose proof (abq_count_bounds_inv cap c I) as [Hc _].
      destruct (Z_lt_ge_dec (q_count c) cap) as [Hlt|Hge].
      + destruct (enq_alone_ok c t v I Hq Hlt) as [c1 [E1 [Q1 [N1 A1]]]].
        pose proof (call_alone_inv c t _ c1 _ I E1) as I1.
        destruct (IH c1 I1 Q1) as [c2 [E2 [I2 P2]]].
        exists c2. cbn [enqs_alone]. rewrite E1, E2. split.
        * f_equal. cbn [length]. rewrite N1.
          replace (Z.to_nat (cap - q_count c)) with (S (Z.to_nat (cap - (q_count c + 1)))) by lia.
          reflexivity.
        * split; [exact I2|]. cbn [length]. intros Hlen.
          destruct P2 as [Q2 [A2 N2]]; [lia|].
          split; [exact Q2|]. split; [rewrite A2, A1, <- app_assoc; reflexivity|lia].
      + assert (Hfull : q_count c = cap) by lia.
        destruct (enq_alone_full c t v I Hq Hfull) as [c1 [th [E1 [L1 [P1 A1]]]]].
        exists c1. cbn [enqs_alone]. rewrite E1. split.
        * f_equal. replace (Z.to_nat (cap - q_count c)) with O by lia. symmetry. apply Nat.min_0_r.
        * split; [exact (call_alone_inv c t _ c1 _ I E1)|]. cbn [length]. lia.
  Qed.

  (* sequential Dequeues deliver the contents in order, without parking while elements remain *)
  Lemma deqs_alone_exact t k : forall c,
    abq_inv cap c -> q_thr c = [] ->
    exists c', deqs_alone c t k = (c', firstn k (abq_abs c)) /\ abq_inv cap c'.
  Proof.
    induction k as [|k IH]; intros c I Hq.
    - exists c. cbn. auto.
    - pose proof (abq_count_bounds_inv cap c I) as [Hc _].
      destruct (Z_lt_ge_dec 0 (q_count c)) as [Hpos|Hz].
      + destruct (deq_alone_ok c t I Hq ltac:(lia)) as [c1 [x [E1 [Q1 [N1 A1]]]]].
        pose proof (call_alone_inv c t _ c1 _ I E1) as I1.
        destruct (IH c1 I1 Q1) as [c2 [E2 I2]].
        exists c2. cbn [deqs_alone]. rewrite E1, E2, A1. cbn [firstn]. auto.
      + assert (Hz0 : q_count c = 0) by lia.
        destruct (deq_alone_empty c t I Hq Hz0) as [c1 [th [E1 [L1 [P1 A1]]]]].
        exists c1. cbn [deqs_alone]. rewrite E1.
        destruct (abq_quiescent_inv cap c I Hq) as [_ [_ [_ [_ [_ [_ [A _]]]]]]].
        rewrite A, ring_nonpos by lia. cbn [firstn]. split; [reflexivity|].
        exact (call_alone_inv c t _ c1 _ I E1).
  Qed.
End Alone.
