(* FootprintBridge6.v — C15 bridge, part 6: trace-level data-race freedom for the four thread-safe types that had
   no interleaving model: syncx.Map (on model/SyncMapModel.v), syncx.Pool, atomicx.Value and a shared
   bean/copier ReflectCopier (model/FootprintObjModels.v).

   Map, Pool    the wrappers perform NO memory access to their own fields (the only field is the embedded
                sync.Map / sync.Pool, whose address is taken): the trace consists of the generic release /
                acquire events of the trusted std-lib object ([*_trace_no_memory]).  NOTE: HB.v orders EVERY
                earlier SRel o before every later SAcq o, which is more than sync.Map / sync.Pool promise
                (only the observed write / the Put of the object returned); nothing here relies on those edges
                (there is no plain location in these traces).
   Value        every access is a sync/atomic operation on Value.val.
   ReflectCopier  SIDE CONDITION, made part of the trace: the creating goroutine 0 executes the constructor's
                plain writes of all fields (copier_ctor), THEN starts the goroutines cs it shares the copier
                with (`go`: HB.Fork c, the happens-before edge from construction to every event of c), and
                only those goroutines call Copy / CopyTo; every goroutine writes only its own destination
                ("dst", t).  Under it: wf, no data race, and every access of a client is either to its own
                destination or an instance of a GConst row of copier_table (a read).  The converse is
                [copier_unpublished_race_lemma]: a goroutine that uses the copier WITHOUT a happens-before edge
                from the construction races with the constructor's writes. *)
From Coq Require Import List String Bool Arith Lia ZArith.
From Ekit Require Import Common FootprintModel FootprintProof C15Bridge C15Bridge2 Conc LockedModel SyncMapModel.
From Ekit Require Import FootprintObjModels FootprintBridge3 FootprintBridge4.
From Ekit Require Import HB.
Import ListNotations.
Open Scope string_scope.
Open Scope nat_scope.
Open Scope list_scope.

Definition obj_trace (P : oprog) (evs : list oev) : execution :=
  trace ocfg oev (ostep P) (oemit P) [] evs.

Lemma nth_forallb {A} (f : A -> bool) (l : list (list A)) p :
  forallb (forallb f) l = true -> forallb f (nth p l []) = true.
Proof.
  revert p. induction l as [|x r IH]; intros [|p] H; cbn in *; try reflexivity;
    apply andb_true_iff in H as [H1 H2]; [exact H1|now apply IH].
Qed.

Lemma obj_trace_forall (P : oprog) (f : action -> bool) :
  (forall t m, forallb (forallb f) (op_body P t m) = true) ->
  forall evs, Forall (fun ev => f (act ev) = true) (obj_trace P evs).
Proof.
  intros H evs. unfold obj_trace. apply (trace_forall ocfg oev (ostep P) (oemit P) (fun ev => f (act ev) = true)).
  intros c e. destruct e as [t m|t|t k]; cbn [oemit]; try constructor;
    (destruct (othread P c t) as [[m p]|]; [|constructor]);
    apply (Forall_map_mkEv f); apply nth_forallb; apply H.
Qed.

Definition no_mem_b (a : action) : bool := match access_of a with None => true | Some _ => false end.

(* ====================== atomicx.Value ====================== *)
Definition value_trace (evs : list oev) : execution := obj_trace value_prog evs.

Lemma value_body_ok m :
  forallb (forallb (fun a => simple_acc_b value_table a && nolock_b a)) (value_body m) = true.
Proof. destruct m as [|[|[|[|m]]]]; vm_compute; reflexivity. Qed.

Lemma value_trace_drf_lemma evs c :
  Conc.exec (ostep value_prog) [] evs = Some c ->
  wf (value_trace evs) /\ instances_of value_table (value_trace evs) /\
  guards_respected value_table (value_trace evs) /\ ~ race (value_trace evs).
Proof.
  intros _. apply simple_trace_drf; [exact drf_value_lemma|].
  apply (obj_trace_forall value_prog (fun a => simple_acc_b value_table a && nolock_b a)).
  intros t m. apply value_body_ok.
Qed.

Lemma acts_cover_table_Value :
  forallb (fun r => forallb (fun a => existsb (fun m => existsb (action_inb a) (value_body m)) [0; 1; 2; 3])
                            (actions_of_row r)) value_table = true.
Proof. vm_compute. reflexivity. Qed.

(* Store by 1, Load by 2, CompareAndSwap by 3, Swap by 1: the Store happens-before the Load *)
Definition value_example_evs : list oev :=
  [OCall 1 1; OCall 2 0; OCall 3 3; OStep 1; OStep 2; OStep 3; OStep 2; OStep 2; OCall 1 2; OStep 1; OStep 1; OStep 1].

Lemma value_example_lemma :
  let tr := value_trace value_example_evs in
  (exists c, Conc.exec (ostep value_prog) [] value_example_evs = Some c /\ c = []) /\
  tr = [mkEv 1 (AWrite V_VAL); mkEv 2 (ARead V_VAL); mkEv 3 (ARmw V_VAL); mkEv 1 (ARmw V_VAL)] /\
  hb tr 0 1 /\ hb tr 2 3 /\ wf tr /\ guards_respected value_table tr /\ ~ race tr.
Proof.
  cbv zeta.
  assert (Hex : exists c, Conc.exec (ostep value_prog) [] value_example_evs = Some c /\ c = []).
  { eexists. split; [vm_compute; reflexivity|reflexivity]. }
  split; [exact Hex|]. destruct Hex as (c & Hc & _).
  destruct (value_trace_drf_lemma _ _ Hc) as (Hwf & _ & Hg & Hnr).
  assert (E : value_trace value_example_evs =
              [mkEv 1 (AWrite V_VAL); mkEv 2 (ARead V_VAL); mkEv 3 (ARmw V_VAL); mkEv 1 (ARmw V_VAL)])
    by (vm_compute; reflexivity).
  split; [exact E|]. rewrite E in *.
  split. { apply hb_sw. split; [lia|]. eexists _, _. repeat split; reflexivity. }
  split. { apply hb_sw. split; [lia|]. eexists _, _. repeat split; reflexivity. }
  split; [exact Hwf|]. split; [exact Hg|exact Hnr].
Qed.

(* ====================== syncx.Pool ====================== *)
Definition pool_obj_trace (evs : list oev) : execution := obj_trace pool_prog evs.

Lemma pool_body_ok m :
  forallb (forallb (fun a => simple_acc_b pool_table a && nolock_b a && no_mem_b a)) (pool_body m) = true.
Proof. destruct m as [|[|m]]; vm_compute; reflexivity. Qed.

Lemma pool_obj_trace_shape evs :
  Forall (fun ev => simple_acc_b pool_table (act ev) && nolock_b (act ev) && no_mem_b (act ev) = true) (pool_obj_trace evs).
Proof.
  apply (obj_trace_forall pool_prog (fun a => simple_acc_b pool_table a && nolock_b a && no_mem_b a)).
  intros t m. apply pool_body_ok.
Qed.

Lemma Forall_and3_l (P Q : action -> bool) (es : list HB.event) :
  Forall (fun ev => P (act ev) && Q (act ev) = true) es -> Forall (fun ev => P (act ev) = true) es.
Proof. intros H. exact (proj1 (Forall_and_b P Q es H)). Qed.

Lemma pool_obj_trace_drf_lemma evs c :
  Conc.exec (ostep pool_prog) [] evs = Some c ->
  wf (pool_obj_trace evs) /\ instances_of pool_table (pool_obj_trace evs) /\
  guards_respected pool_table (pool_obj_trace evs) /\ ~ race (pool_obj_trace evs) /\
  Forall (fun ev => access_of (act ev) = None) (pool_obj_trace evs).
Proof.
  intros _. pose proof (pool_obj_trace_shape evs) as H.
  destruct (Forall_and_b (fun a => simple_acc_b pool_table a && nolock_b a) no_mem_b _ H) as [H1 H2].
  destruct (simple_trace_drf pool_table _ drf_pool_lemma H1) as (A & B & C & D).
  repeat (split; [assumption|]).
  eapply Forall_impl; [|exact H2]. cbn beta. intros ev Hb. unfold no_mem_b in Hb.
  destruct (access_of (act ev)); [discriminate Hb|reflexivity].
Qed.

(* ====================== syncx.Map ====================== *)
Definition map_emit (c : sm_cfg) (e : sys_ev sm_op) : list HB.event :=
  match e with
  | EStep t => match Conc.lookup t (s_thr c) with
               | Some (o, p) => map (mkEv t) (acts_Map o p)
               | None => []
               end
  | _ => []
  end.

Definition map_trace (m0 : smap) (evs : list (sys_ev sm_op)) : execution :=
  trace sm_cfg (sys_ev sm_op) sm_step map_emit (sm_init m0) evs.

Lemma acts_Map_ok o p :
  forallb (fun a => simple_acc_b map_table a && nolock_b a && no_mem_b a) (acts_Map o p) = true.
Proof. destruct p; reflexivity. Qed.

Lemma map_trace_drf_lemma m0 evs c :
  Conc.exec sm_step (sm_init m0) evs = Some c ->
  wf (map_trace m0 evs) /\ instances_of map_table (map_trace m0 evs) /\
  guards_respected map_table (map_trace m0 evs) /\ ~ race (map_trace m0 evs) /\
  Forall (fun ev => access_of (act ev) = None) (map_trace m0 evs).
Proof.
  intros _.
  assert (H : Forall (fun ev => simple_acc_b map_table (act ev) && nolock_b (act ev) && no_mem_b (act ev) = true)
                     (map_trace m0 evs)).
  { apply (trace_forall sm_cfg (sys_ev sm_op) sm_step map_emit
             (fun ev => simple_acc_b map_table (act ev) && nolock_b (act ev) && no_mem_b (act ev) = true)).
    intros c0 e. destruct e as [t o|t]; cbn [map_emit]; try constructor.
    destruct (Conc.lookup t (s_thr c0)) as [[o p]|]; [|constructor].
    apply (Forall_map_mkEv (fun a => simple_acc_b map_table a && nolock_b a && no_mem_b a)). apply acts_Map_ok. }
  destruct (Forall_and_b (fun a => simple_acc_b map_table a && nolock_b a) no_mem_b _ H) as [H1 H2].
  destruct (simple_trace_drf map_table _ drf_map_lemma H1) as (A & B & C & D).
  repeat (split; [assumption|]).
  eapply Forall_impl; [|exact H2]. cbn beta. intros ev Hb. unfold no_mem_b in Hb.
  destruct (access_of (act ev)); [discriminate Hb|reflexivity].
Qed.

(* ====================== bean/copier ReflectCopier shared by goroutines ====================== *)
Definition is_dst (x : name) : bool := String.eqb (fst x) "dst".

(* an event of client t: an access to t's own destination, or a read that is an instance of a GConst row *)
Definition cl_ok_b (t : nat) (a : action) : bool :=
  nolock_b a &&
  match access_of a with
  | Some (x, w, ao) => (is_dst x && Nat.eqb (snd x) t) || (negb (is_dst x) && negb w && simple_acc_b copier_table a)
  | None => false
  end.

Lemma copier_body_ok t m : forallb (forallb (cl_ok_b t)) (copier_body t m) = true.
Proof.
  assert (H : forallb (forallb (cl_ok_b t)) (copyto_body t) = true).
  { cbn [copyto_body forallb]. unfold cl_ok_b. cbn [access_of nolock_b is_dst fst snd C_DST].
    rewrite Nat.eqb_refl. vm_compute. reflexivity. }
  destruct m as [|[|m]]; cbn [copier_body]; [exact H| |reflexivity].
  cbn [forallb]. rewrite H. unfold cl_ok_b. cbn. rewrite Nat.eqb_refl. reflexivity.
Qed.

Lemma obj_trace_forall_t (P : oprog) (g : nat -> action -> bool) :
  (forall t m, forallb (forallb (g t)) (op_body P t m) = true) ->
  forall evs, Forall (fun ev => op_allowed P (tid ev) && g (tid ev) (act ev) = true) (obj_trace P evs).
Proof.
  intros H evs. unfold obj_trace.
  apply (trace_forall ocfg oev (ostep P) (oemit P) (fun ev => op_allowed P (tid ev) && g (tid ev) (act ev) = true)).
  intros c e.
  assert (G : forall t, Forall (fun ev => op_allowed P (tid ev) && g (tid ev) (act ev) = true)
                 match othread P c t with
                 | Some (m, p) => map (mkEv t) (nth p (op_body P t m) [])
                 | None => []
                 end).
  { intros t. unfold othread. destruct (op_allowed P t) eqn:Ea; [|constructor].
    destruct (Conc.lookup t c) as [[m p]|]; [|constructor].
    apply Forall_forall. intros ev Hin. apply in_map_iff in Hin as (a & <- & Ha). cbn [tid act]. rewrite Ea. cbn.
    pose proof (nth_forallb (g t) (op_body P t m) p (H t m)) as Hf. rewrite forallb_forall in Hf. now apply Hf. }
  destruct e as [t m|t|t k]; cbn [oemit]; [constructor|apply G|apply G].
Qed.

Definition copier_trace (cs : list nat) (evs : list oev) : execution :=
  map (mkEv 0) copier_ctor ++ map (fun c => mkEv 0 (Fork c)) cs ++ obj_trace (copier_prog cs) evs.

Lemma seg3 (A B C : list HB.event) i ev :
  ev_at (A ++ B ++ C) i ev ->
  (i < List.length A /\ ev_at A i ev) \/
  (List.length A <= i < List.length A + List.length B /\ ev_at B (i - List.length A) ev) \/
  (List.length A + List.length B <= i /\ ev_at C (i - List.length A - List.length B) ev).
Proof.
  intros H. destruct (ev_at_app_inv _ _ _ _ H) as [H1|[Hi H1]].
  - left. split; [eapply ev_at_lt; exact H1|exact H1].
  - destruct (ev_at_app_inv _ _ _ _ H1) as [H2|[Hj H2]].
    + right; left. split; [|exact H2]. apply ev_at_lt in H2. lia.
    + right; right. split; [lia|]. exact H2.
Qed.

Lemma ctor_ev i ev : ev_at (map (mkEv 0) copier_ctor) i ev ->
  tid ev = 0 /\ exists x, act ev = Write x /\ is_dst x = false.
Proof.
  intros H. assert (Hin : In ev (map (mkEv 0) copier_ctor)) by (eapply nth_error_In; exact H).
  cbn in Hin. repeat (destruct Hin as [<-|Hin]; [split; [reflexivity|eexists; split; reflexivity]|]). destruct Hin.
Qed.

Lemma fork_ev (cs : list nat) k ev : ev_at (map (fun c => mkEv 0 (Fork c)) cs) k ev ->
  exists c, nth_error cs k = Some c /\ ev = mkEv 0 (Fork c).
Proof.
  unfold ev_at. revert k. induction cs as [|c0 r IH]; intros [|k] H; cbn in H; try discriminate H.
  - injection H as <-. exists c0. split; reflexivity.
  - cbn [nth_error]. now apply IH.
Qed.

Lemma fork_at (cs : list nat) (C : list HB.event) k c :
  nth_error cs k = Some c ->
  ev_at (map (mkEv 0) copier_ctor ++ map (fun c => mkEv 0 (Fork c)) cs ++ C)
        (List.length (map (mkEv 0) copier_ctor) + k) (mkEv 0 (Fork c)).
Proof.
  intros H. unfold ev_at. rewrite nth_error_app2 by lia.
  replace (List.length (map (mkEv 0) copier_ctor) + k - List.length (map (mkEv 0) copier_ctor)) with k by lia.
  rewrite nth_error_app1.
  - exact (map_nth_error (fun c1 => mkEv 0 (Fork c1)) k cs H).
  - rewrite map_length. apply nth_error_Some. intros E. unfold thread in *. congruence.
Qed.

Lemma memb_in cs t : memb cs t = true -> In t cs.
Proof.
  unfold memb. rewrite existsb_exists. intros (x & Hin & Hx). apply Nat.eqb_eq in Hx. now subst.
Qed.

Lemma copier_trace_drf_lemma cs evs c :
  ~ In 0 cs -> Conc.exec (ostep (copier_prog cs)) [] evs = Some c ->
  wf (copier_trace cs evs) /\ ~ race (copier_trace cs evs) /\
  (forall i ev x w a, ev_at (copier_trace cs evs) i ev -> access_of (act ev) = Some (x, w, a) ->
     (i < List.length copier_ctor /\ tid ev = 0 /\ w = true) \/
     (List.length copier_ctor + List.length cs <= i /\ In (tid ev) cs /\
      (x = C_DST (tid ev) \/
       (w = false /\ exists r, In r copier_table /\ r_loc r = fst x /\ kind_matches (r_kind r) w a = true /\
                               r_guard r = GConst)))).
Proof.
  intros H0 _. unfold copier_trace.
  set (A := map (mkEv 0) copier_ctor). set (B := map (fun c0 => mkEv 0 (Fork c0)) cs).
  set (C := obj_trace (copier_prog cs) evs).
  pose proof (obj_trace_forall_t (copier_prog cs) cl_ok_b copier_body_ok evs) as HC. fold C in HC.
  assert (HCat : forall k ev, ev_at C k ev -> In (tid ev) cs /\ cl_ok_b (tid ev) (act ev) = true).
  { intros k ev Hev. pose proof (forall_ev_at _ C k ev HC Hev) as Hb. cbn beta in Hb.
    apply andb_true_iff in Hb as [Ha Hb]. split; [now apply memb_in|exact Hb]. }
  assert (LA : List.length A = List.length copier_ctor) by (unfold A; apply map_length).
  assert (LB : List.length B = List.length cs) by (unfold B; apply map_length).
  split; [|split].
  - (* wf *)
    constructor.
    + intros i ev l m Hev Ha. exfalso. destruct (seg3 _ _ _ _ _ Hev) as [[_ H]|[[_ H]|[_ H]]].
      * destruct (ctor_ev _ _ H) as (_ & x & Hx & _). congruence.
      * destruct (fork_ev _ _ _ H) as (c0 & _ & ->). discriminate Ha.
      * destruct (HCat _ _ H) as [_ Hb]. unfold cl_ok_b in Hb. rewrite Ha in Hb. discriminate Hb.
    + intros i ev l m Hev Ha. exfalso. destruct (seg3 _ _ _ _ _ Hev) as [[_ H]|[[_ H]|[_ H]]].
      * destruct (ctor_ev _ _ H) as (_ & x & Hx & _). congruence.
      * destruct (fork_ev _ _ _ H) as (c0 & _ & ->). discriminate Ha.
      * destruct (HCat _ _ H) as [_ Hb]. unfold cl_ok_b in Hb. rewrite Ha in Hb. discriminate Hb.
    + intros i j a b c0 Ha Hact Hb Htb.
      destruct (seg3 _ _ _ _ _ Ha) as [[_ H]|[[Hi H]|[_ H]]].
      * destruct (ctor_ev _ _ H) as (_ & x & Hx & _). congruence.
      * destruct (fork_ev _ _ _ H) as (c1 & Hn & ->). cbn in Hact. injection Hact as ->.
        assert (Hc0 : In c0 cs) by (eapply nth_error_In; exact Hn).
        destruct (seg3 _ _ _ _ _ Hb) as [[_ H']|[[_ H']|[Hj _]]].
        -- destruct (ctor_ev _ _ H') as (Ht & _). exfalso. apply H0. rewrite <- Ht, Htb. exact Hc0.
        -- destruct (fork_ev _ _ _ H') as (c2 & _ & ->). cbn in Htb. exfalso. apply H0. rewrite Htb. exact Hc0.
        -- lia.
      * destruct (HCat _ _ H) as [_ Hb']. unfold cl_ok_b in Hb'. rewrite Hact in Hb'. discriminate Hb'.
  - (* no race *)
    intros [x Hrace]. apply race_on_ordered in Hrace.
    destruct Hrace as (i & j & Hij & a & b & Ha & Hb & Hne & Hc & Hnhb & _).
    destruct Hc as (wa & aa & wb & ab & Haa & Hab & Hw & _).
    destruct (seg3 _ _ _ _ _ Ha) as [[Hi H]|[[_ H]|[Hi H]]].
    + (* the earlier event is a constructor write *)
      destruct (ctor_ev _ _ H) as (Hta & xa & Hxa & _).
      destruct (seg3 _ _ _ _ _ Hb) as [[_ H']|[[_ H']|[Hj H']]].
      * destruct (ctor_ev _ _ H') as (Htb & _). congruence.
      * destruct (fork_ev _ _ _ H') as (c2 & _ & ->). discriminate Hab.
      * destruct (HCat _ _ H') as [Hin _].
        destruct (In_nth_error _ _ Hin) as [k Hk].
        pose proof (fork_at cs C k (tid b) Hk) as Hf. fold A B in Hf.
        assert (Hkl : k < List.length cs) by (apply nth_error_Some; intros E; unfold thread in *; congruence).
        apply Hnhb. apply hb_trans with (List.length A + k).
        -- apply hb_po. eapply po_intro; [|exact Ha|exact Hf|]; [lia|]. cbn. exact Hta.
        -- apply hb_sw. split; [lia|]. exists (mkEv 0 (Fork (tid b))), b. split; [exact Hf|]. split; [exact Hb|]. reflexivity.
    + destruct (fork_ev _ _ _ H) as (c1 & _ & ->). discriminate Haa.
    + (* both are client events *)
      destruct (seg3 _ _ _ _ _ Hb) as [[Hj _]|[[Hj _]|[_ H']]]; try lia.
      destruct (HCat _ _ H) as [_ Hoa]. destruct (HCat _ _ H') as [_ Hob].
      unfold cl_ok_b in Hoa, Hob. rewrite Haa in Hoa. rewrite Hab in Hob.
      apply andb_true_iff in Hoa as [_ Hoa]. apply andb_true_iff in Hob as [_ Hob].
      destruct (is_dst x) eqn:Ed; cbn in Hoa, Hob.
      * rewrite orb_false_r in Hoa, Hob. apply Nat.eqb_eq in Hoa, Hob. congruence.
      * apply andb_true_iff in Hoa as [Hoa _]. apply andb_true_iff in Hob as [Hob _].
        apply negb_true_iff in Hoa, Hob. destruct Hw; congruence.
  - (* shape *)
    intros i ev x w a Hev Hacc. destruct (seg3 _ _ _ _ _ Hev) as [[Hi H]|[[_ H]|[Hi H]]].
    + left. destruct (ctor_ev _ _ H) as (Ht & x0 & Hx0 & _). rewrite Hx0 in Hacc. cbn in Hacc.
      injection Hacc as _ <- _. repeat split; [lia|exact Ht].
    + destruct (fork_ev _ _ _ H) as (c1 & _ & ->). discriminate Hacc.
    + right. split; [lia|]. destruct (HCat _ _ H) as [Hin Hb]. split; [exact Hin|].
      unfold cl_ok_b in Hb. rewrite Hacc in Hb. apply andb_true_iff in Hb as [_ Hb].
      apply orb_true_iff in Hb as [Hb|Hb].
      * left. apply andb_true_iff in Hb as [Hd Hs]. apply String.eqb_eq in Hd. apply Nat.eqb_eq in Hs.
        destruct x as [f k]. cbn in Hd, Hs. subst. reflexivity.
      * right. apply andb_true_iff in Hb as [Hb Hs]. apply andb_true_iff in Hb as [_ Hb'].
        apply negb_true_iff in Hb'. split; [exact Hb'|].
        unfold simple_acc_b in Hs. rewrite Hacc in Hs. apply existsb_exists in Hs as (r & Hr & Hs).
        apply andb_true_iff in Hs as [Hs Hg]. apply andb_true_iff in Hs as [Hl Hk]. apply String.eqb_eq in Hl.
        exists r. repeat split; try assumption.
        revert Hg Hk Hr. clear. intros Hg Hk Hr. cbn in Hr.
        repeat (destruct Hr as [<-|Hr]; [reflexivity|]). destruct Hr.
Qed.

(* every row of copier_table is the action of some statement of the client methods *)
Lemma acts_cover_table_Copier :
  forallb (fun r => forallb (fun a => existsb (action_inb a) (copier_body 1 1)) (actions_of_row r)) copier_table = true.
Proof. vm_compute. reflexivity. Qed.

(* non-vacuity: goroutine 0 builds the copier and starts goroutines 1 (Copy) and 2 (CopyTo); both walk the tree
   (one jump back into copyTreeNode each); the constructor's write of fieldNode.name happens-before 2's read *)
Definition copier_example_evs : list oev :=
  [OCall 1 1; OCall 2 0] ++ repeat (OStep 1) 5 ++ repeat (OStep 2) 7 ++ [OJump 1 7; OJump 2 4] ++
  repeat (OStep 1) 5 ++ repeat (OStep 2) 7.

Lemma copier_example_lemma :
  let tr := copier_trace [1; 2] copier_example_evs in
  (exists c, Conc.exec (ostep (copier_prog [1; 2])) [] copier_example_evs = Some c /\ c = []) /\
  List.length tr = 54 /\
  ev_at tr 1 (mkEv 0 (Write C_NAME)) /\ ev_at tr 13 (mkEv 0 (Fork 2)) /\ ev_at tr 32 (mkEv 2 (Read C_NAME)) /\
  hb tr 1 32 /\ ev_at tr 33 (mkEv 2 (Write (C_DST 2))) /\ ev_at tr 36 (mkEv 1 (Write (C_DST 1))) /\
  wf tr /\ ~ race tr.
Proof.
  cbv zeta.
  assert (Hex : exists c, Conc.exec (ostep (copier_prog [1; 2])) [] copier_example_evs = Some c /\ c = []).
  { eexists. split; [vm_compute; reflexivity|reflexivity]. }
  split; [exact Hex|]. destruct Hex as (c & Hc & _).
  assert (H0 : ~ In 0 [1; 2]) by (cbn; intros [H|[H|[]]]; discriminate H).
  destruct (copier_trace_drf_lemma [1; 2] _ c H0 Hc) as (Hwf & Hnr & _).
  split; [vm_compute; reflexivity|].
  assert (E1 : ev_at (copier_trace [1; 2] copier_example_evs) 1 (mkEv 0 (Write C_NAME))) by (vm_compute; reflexivity).
  assert (E13 : ev_at (copier_trace [1; 2] copier_example_evs) 13 (mkEv 0 (Fork 2))) by (vm_compute; reflexivity).
  assert (E32 : ev_at (copier_trace [1; 2] copier_example_evs) 32 (mkEv 2 (Read C_NAME))) by (vm_compute; reflexivity).
  split; [exact E1|]. split; [exact E13|]. split; [exact E32|]. split.
  { apply hb_trans with 13.
    - apply hb_po. eapply po_intro; eauto. lia.
    - apply hb_sw. split; [lia|]. eexists _, _. split; [exact E13|]. split; [exact E32|]. reflexivity. }
  split; [vm_compute; reflexivity|]. split; [vm_compute; reflexivity|]. split; [exact Hwf|exact Hnr].
Qed.

(* the side condition is necessary: a goroutine reading a field with NO happens-before edge from the constructor's
   write of it (the copier escaped through an unsynchronised global, say) races with that write *)
Definition copier_unpublished_exec : execution := [mkEv 0 (Write C_NAME); mkEv 1 (Read C_NAME)].
Lemma copier_unpublished_race_lemma : wf copier_unpublished_exec /\ race copier_unpublished_exec.
Proof.
  split; [apply wfb_sound; vm_compute; reflexivity|].
  exists C_NAME, 0, 1, (mkEv 0 (Write C_NAME)), (mkEv 1 (Read C_NAME)).
  repeat split; try reflexivity.
  - cbn. discriminate.
  - exists true, false, false, false. cbn. repeat split; auto.
  - eapply no_hb_plain_adjacent; try reflexivity; cbn; try discriminate. intros b' H; exact H.
  - intros H. apply hb_lt in H. lia.
Qed.

(* ---------- non-vacuity for Map and Pool ---------- *)
Definition map_example_evs : list (sys_ev sm_op) :=
  [ECall 1 (MStore 1 5)%Z; ECall 2 (MLoad 1%Z); EStep 1; EStep 2; EStep 2; EStep 2; EStep 2].
Lemma map_example_lemma :
  let tr := map_trace [] map_example_evs in
  (exists c, Conc.exec sm_step (sm_init []) map_example_evs = Some c /\ s_thr c = [] /\ s_sh c = [(1, 5)]%Z) /\
  tr = [mkEv 1 (SRel (M_KEY 1%Z)); mkEv 2 (SAcq (M_KEY 1%Z))] /\ hb tr 0 1 /\ wf tr /\ ~ race tr.
Proof.
  cbv zeta.
  assert (Hex : exists c, Conc.exec sm_step (sm_init []) map_example_evs = Some c /\ s_thr c = [] /\ s_sh c = [(1, 5)]%Z).
  { eexists. split; [vm_compute; reflexivity|]. split; reflexivity. }
  split; [exact Hex|]. destruct Hex as (c & Hc & _).
  destruct (map_trace_drf_lemma _ _ _ Hc) as (Hwf & _ & _ & Hnr & _).
  assert (E : map_trace [] map_example_evs = [mkEv 1 (SRel (M_KEY 1%Z)); mkEv 2 (SAcq (M_KEY 1%Z))])
    by (vm_compute; reflexivity).
  split; [exact E|]. rewrite E in *. split; [|split; assumption].
  apply hb_sw. split; [lia|]. eexists _, _. repeat split; reflexivity.
Qed.

Definition pool_example_evs : list oev := [OCall 1 1; OCall 2 0; OStep 1; OStep 2].
Lemma pool_example_lemma :
  let tr := pool_obj_trace pool_example_evs in
  (exists c, Conc.exec (ostep pool_prog) [] pool_example_evs = Some c /\ c = []) /\
  tr = [mkEv 1 (SRel P_P); mkEv 2 (SAcq P_P)] /\ wf tr /\ ~ race tr.
Proof.
  cbv zeta.
  assert (Hex : exists c, Conc.exec (ostep pool_prog) [] pool_example_evs = Some c /\ c = []).
  { eexists. split; [vm_compute; reflexivity|reflexivity]. }
  split; [exact Hex|]. destruct Hex as (c & Hc & _).
  destruct (pool_obj_trace_drf_lemma _ _ Hc) as (Hwf & _ & _ & Hnr & _).
  split; [vm_compute; reflexivity|]. split; assumption.
Qed.
