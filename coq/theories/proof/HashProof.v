(* Proofs about model/HashModel.v (C03): the invariant WF of DESIGN 12.2 and the
   simulation between the hash table and the abstract association list, for every
   Code/Equals satisfying the laws and every node-pool oracle. *)
From Ekit Require Import Common DecorSpec HashModel DecorSpecProof.

Section HashProof.
  Variable V : Type.
  Variable vzero : V.
  Variable code : Z -> Z.
  Variable eqb : Z -> Z -> bool.
  Hypothesis eqb_laws : eqb_equivalence eqb.
  Hypothesis code_law : hash_consistent code eqb.

  Notation table := (list (Z * list (Z * V))).
  Notation flat := (flat_map (@snd Z (list (Z * V)))).

  (* ---------------- the invariant ---------------- *)
  (* (a) no empty chain, (b) every key sits in the bucket of its code *)
  Definition chains_ok (t : table) : Prop :=
    Forall (fun e => snd e <> [] /\ Forall (fun kv => code (fst kv) = fst e) (snd e)) t.
  (* (d) pooled nodes are zeroed and have no tail *)
  Definition pool_zero (p : list (node V)) : Prop := Forall (fun n => n = fresh_node vzero) p.

  Record WF (s : hstate V) : Prop := {
    wf_codes : NoDup (map fst (tbl s));                (* one bucket per code (Go map) *)
    wf_chains : chains_ok (tbl s);                     (* (a) (b) *)
    wf_distinct : distinct eqb (hflat s);              (* (c) keys pairwise non-Equal across the table *)
    wf_pool : pool_zero (pool s);                      (* (d) *)
    wf_size : size s = Z.of_nat (length (hflat s));    (* the size counter *)
  }.

  (* ---------------- the builtin map ---------------- *)
  Lemma tbl_get_some : forall h (t : table) c, tbl_get h t = Some c ->
    exists t1 t2, t = t1 ++ (h, c) :: t2 /\ ~ In h (map fst t1).
  Proof.
    intros h t. induction t as [|[h' c'] r IH]; intros c H; [discriminate|].
    cbn [tbl_get] in H. destruct (h' =? h) eqn:E.
    - apply Z.eqb_eq in E. subst h'. inversion H; subst. exists [], r. split; [reflexivity|intros []].
    - destruct (IH c H) as [t1 [t2 [Ht Hn]]]. exists ((h', c') :: t1), t2. split.
      + rewrite Ht. reflexivity.
      + cbn [map fst In]. intros [Hh|Hh]; [apply Z.eqb_neq in E; congruence|exact (Hn Hh)].
  Qed.
  Lemma tbl_get_none : forall h (t : table), tbl_get h t = None -> ~ In h (map fst t).
  Proof.
    intros h t. induction t as [|[h' c'] r IH]; intro H; [intros []|].
    cbn [tbl_get] in H. destruct (h' =? h) eqn:E; [discriminate|].
    cbn [map fst In]. intros [Hh|Hh]; [apply Z.eqb_neq in E; congruence|exact (IH H Hh)].
  Qed.
  Lemma tbl_set_at : forall h c c' (t1 t2 : table), ~ In h (map fst t1) ->
    tbl_set h c' (t1 ++ (h, c) :: t2) = t1 ++ (h, c') :: t2.
  Proof.
    intros h c c' t1 t2. induction t1 as [|[h' c0] r IH]; intro Hn.
    - cbn [app tbl_set]. rewrite Z.eqb_refl. reflexivity.
    - cbn [app tbl_set]. cbn [map fst In] in Hn. destruct (h' =? h) eqn:E.
      + apply Z.eqb_eq in E. exfalso. apply Hn. left. exact E.
      + rewrite IH; [reflexivity|]. intro Hh. apply Hn. right. exact Hh.
  Qed.
  Lemma tbl_set_new : forall h c (t : table), ~ In h (map fst t) -> tbl_set h c t = t ++ [(h, c)].
  Proof.
    intros h c t. induction t as [|[h' c0] r IH]; intro Hn; [reflexivity|].
    cbn [app tbl_set]. cbn [map fst In] in Hn. destruct (h' =? h) eqn:E.
    - apply Z.eqb_eq in E. exfalso. apply Hn. left. exact E.
    - rewrite IH; [reflexivity|]. intro Hh. apply Hn. right. exact Hh.
  Qed.
  Lemma tbl_remove_at : forall h c (t1 t2 : table), ~ In h (map fst t1) ->
    tbl_remove h (t1 ++ (h, c) :: t2) = t1 ++ t2.
  Proof.
    intros h c t1 t2. induction t1 as [|[h' c0] r IH]; intro Hn.
    - cbn [app tbl_remove]. rewrite Z.eqb_refl. reflexivity.
    - cbn [app tbl_remove]. cbn [map fst In] in Hn. destruct (h' =? h) eqn:E.
      + apply Z.eqb_eq in E. exfalso. apply Hn. left. exact E.
      + rewrite IH; [reflexivity|]. intro Hh. apply Hn. right. exact Hh.
  Qed.

  Lemma flat_app : forall t1 t2 : table, flat (t1 ++ t2) = flat t1 ++ flat t2.
  Proof. intros. apply flat_map_app. Qed.
  Lemma flat_mid : forall (t1 t2 : table) h c, flat (t1 ++ (h, c) :: t2) = flat t1 ++ c ++ flat t2.
  Proof. intros. rewrite flat_app. reflexivity. Qed.

  (* ---------------- hash consistency: foreign buckets hold no Equal key ---------------- *)
  Lemma foreign_of_code : forall k (l : list (Z * V)),
    Forall (fun kv => code (fst kv) <> code k) l -> foreign V eqb k l.
  Proof.
    intros k l H. induction H as [|e t He Ht IH]; constructor; [|exact IH].
    destruct (eqb (fst e) k) eqn:E; [|reflexivity]. apply code_law in E. contradiction.
  Qed.
  Lemma flat_foreign : forall k (t : table),
    chains_ok t -> ~ In (code k) (map fst t) -> foreign V eqb k (flat t).
  Proof.
    intros k t H. induction H as [|[h c] r [Hne Hc] Hr IH]; intro Hn; [constructor|].
    cbn [flat_map snd]. apply Forall_app. cbn [map fst In snd] in *. split.
    - apply foreign_of_code. eapply Forall_impl; [|exact Hc]. cbn beta. intros kv Hk Heq.
      apply Hn. left. congruence.
    - apply IH. intro Hh. apply Hn. right. exact Hh.
  Qed.

  Lemma chains_ok_app : forall t1 t2 : table, chains_ok (t1 ++ t2) <-> chains_ok t1 /\ chains_ok t2.
  Proof. intros. apply Forall_app. Qed.

  (* a WF table split at the bucket of k *)
  Lemma split_facts : forall k (t1 t2 : table) c,
    NoDup (map fst (t1 ++ (code k, c) :: t2)) -> chains_ok (t1 ++ (code k, c) :: t2) ->
    foreign V eqb k (flat t1) /\ foreign V eqb k (flat t2) /\
    chains_ok t1 /\ chains_ok t2 /\ c <> [] /\ Forall (fun kv => code (fst kv) = code k) c /\
    NoDup (map fst (t1 ++ t2)).
  Proof.
    intros k t1 t2 c Hnd Hok.
    rewrite map_app in Hnd. cbn [map fst] in Hnd.
    pose proof (NoDup_remove_2 _ _ _ Hnd) as Hnot.
    pose proof (NoDup_remove_1 _ _ _ Hnd) as Hnd'.
    apply chains_ok_app in Hok. destruct Hok as [Hok1 Hok2].
    unfold chains_ok in Hok2. inversion Hok2 as [|? ? [Hne Hc] Hok2']; subst. cbn [fst snd] in *.
    repeat split; try assumption.
    - apply flat_foreign; [exact Hok1|]. intro Hin. apply Hnot. apply in_or_app. left. exact Hin.
    - apply flat_foreign; [exact Hok2'|]. intro Hin. apply Hnot. apply in_or_app. right. exact Hin.
    - rewrite map_app. exact Hnd'.
  Qed.

  (* ---------------- chain walks are the abstract operations on the chain ---------------- *)
  Lemma chain_get_afound : forall k (c : list (Z * V)), chain_get vzero eqb k c = afound vzero eqb k c.
  Proof.
    intros k c. unfold afound. induction c as [|[k' v'] r IH]; [reflexivity|].
    cbn [chain_get aget]. destruct (eqb k' k); [reflexivity|exact IH].
  Qed.
  Lemma chain_update_spec : forall k v (c : list (Z * V)),
    chain_update eqb k v c = match aget eqb k c with Some _ => Some (aput eqb k v c) | None => None end.
  Proof.
    intros k v c. induction c as [|[k' v'] r IH]; [reflexivity|].
    cbn [chain_update aget aput]. destruct (eqb k' k); [reflexivity|].
    rewrite IH. destruct (aget eqb k r); reflexivity.
  Qed.
  Lemma chain_unlink_spec : forall k (c : list (Z * V)),
    match chain_unlink eqb k c with
    | Some (c', n) => c' = adel eqb k c /\ aget eqb k c = Some (nval n)
    | None => aget eqb k c = None
    end.
  Proof.
    intros k c. induction c as [|[k' v'] r IH]; [reflexivity|].
    cbn [chain_unlink aget adel]. destruct (eqb k' k).
    - split; reflexivity.
    - destruct (chain_unlink eqb k r) as [[r' n]|].
      + destruct IH as [IH1 IH2]. split; [rewrite IH1; reflexivity|exact IH2].
      + exact IH.
  Qed.

  (* ---------------- the pool: recycled nodes carry nothing ---------------- *)
  Lemma pool_zero_remove : forall p i, pool_zero p -> pool_zero (remove_at p i).
  Proof.
    intros p. induction p as [|n t IH]; intros i H; [destruct i; exact H|].
    unfold pool_zero in *. inversion H as [|? ? Hn Ht]; subst. destruct i as [|i]; cbn [remove_at]; [exact Ht|].
    constructor; [reflexivity|exact (IH i Ht)].
  Qed.
  Lemma nth_opt_in : forall A (l : list A) i x, nth_opt l i = Some x -> In x l.
  Proof.
    intros A l. induction l as [|a t IH]; intros i x H; [destruct i; discriminate|].
    destruct i as [|i]; cbn [nth_opt] in H; [inversion H; left; reflexivity|right; exact (IH i x H)].
  Qed.
  Lemma pool_get_zero : forall ch p, pool_zero p ->
    fst (pool_get vzero ch p) = fresh_node vzero /\ pool_zero (snd (pool_get vzero ch p)).
  Proof.
    intros ch p H. unfold pool_get. destruct ch as [i|]; [|split; [reflexivity|exact H]].
    destruct (nth_opt p i) as [n|] eqn:E; cbn [fst snd]; [|split; [reflexivity|exact H]].
    split; [|apply pool_zero_remove; exact H].
    unfold pool_zero in H. rewrite Forall_forall in H. apply H. eapply nth_opt_in; exact E.
  Qed.
  (* whichever node the pool hands out, the new node is exactly (key, val, nil) *)
  Lemma new_node_zero : forall ch k v p, pool_zero p ->
    fst (new_node vzero ch k v p) = {| nkey := k; nval := v; nnext := [] |} /\
    pool_zero (snd (new_node vzero ch k v p)).
  Proof.
    intros ch k v p H. unfold new_node. destruct (pool_get_zero ch p H) as [H1 H2].
    destruct (pool_get vzero ch p) as [n p']. cbn [fst snd] in *. subst n. split; [reflexivity|exact H2].
  Qed.

  (* ---------------- Get ---------------- *)
  Lemma hget_spec : forall k s, WF s -> hget vzero code eqb k s = afound vzero eqb k (hflat s).
  Proof.
    intros k s W. unfold hget, hflat. destruct (tbl_get (code k) (tbl s)) as [c|] eqn:G.
    - destruct (tbl_get_some _ _ _ G) as [t1 [t2 [Ht Hn]]].
      pose proof (wf_codes s W) as Hnd. pose proof (wf_chains s W) as Hok. rewrite Ht in *.
      destruct (split_facts k t1 t2 c Hnd Hok) as [F1 [F2 _]].
      rewrite flat_mid, chain_get_afound. unfold afound.
      rewrite aget_app, (aget_foreign V eqb k _ F1), aget_app, (aget_foreign V eqb k _ F2).
      destruct (aget eqb k c); reflexivity.
    - apply tbl_get_none in G. unfold afound.
      rewrite (aget_foreign V eqb k _ (flat_foreign k _ (wf_chains s W) G)). reflexivity.
  Qed.

  (* ---------------- Put ---------------- *)
  Lemma aput_keys_code : forall k v h (c : list (Z * V)), code k = h ->
    Forall (fun kv => code (fst kv) = h) c -> Forall (fun kv => code (fst kv) = h) (aput eqb k v c).
  Proof.
    intros k v h c Hk Hc. apply Forall_forall. intros e He. rewrite Forall_forall in Hc.
    destruct (aput_keys_in V eqb k v c e He) as [[e' [Hin Hf]]|[Heq _]].
    - rewrite <- Hf. exact (Hc e' Hin).
    - subst e. exact Hk.
  Qed.

  Lemma wf_after_put : forall k v s s', WF s ->
    NoDup (map fst (tbl s')) -> chains_ok (tbl s') -> pool_zero (pool s') ->
    Permutation (hflat s') (aput eqb k v (hflat s)) ->
    size s' = size s + match aget eqb k (hflat s) with Some _ => 0 | None => 1 end ->
    WF s'.
  Proof.
    intros k v s s' W H1 H2 H3 H4 H5. constructor; try assumption.
    - eapply distinct_perm; [exact eqb_laws|apply Permutation_sym; exact H4|].
      apply distinct_aput. exact (wf_distinct s W).
    - rewrite H5, (wf_size s W), (Permutation_length H4), (length_aput V eqb).
      destruct (aget eqb k (hflat s)); lia.
  Qed.

  Lemma hput_spec : forall k v ch s s' o, WF s ->
    hput vzero code eqb k v ch s = (s', o) ->
    o = Ok tt /\ WF s' /\ Permutation (hflat s') (aput eqb k v (hflat s)).
  Proof.
    intros k v ch s s' o W Heq.
    pose proof (wf_codes s W) as Hnd. pose proof (wf_chains s W) as Hok.
    destruct (new_node_zero ch k v (pool s) (wf_pool s W)) as [Hnn Hpool'].
    unfold hput in Heq.
    destruct (tbl_get (code k) (tbl s)) as [c|] eqn:G.
    - destruct (tbl_get_some _ _ _ G) as [t1 [t2 [Ht Hn]]]. rewrite Ht in Hnd, Hok.
      destruct (split_facts k t1 t2 c Hnd Hok) as [F1 [F2 [Ok1 [Ok2 [Hne [Hc Hnd']]]]]].
      assert (Hflat : hflat s = flat t1 ++ c ++ flat t2) by (unfold hflat; rewrite Ht; apply flat_mid).
      rewrite chain_update_spec in Heq. destruct (aget eqb k c) as [x|] eqn:A.
      + (* an Equal key is in the chain: value replaced in place *)
        inversion Heq; subst s' o; clear Heq. split; [reflexivity|].
        assert (P : hflat {| tbl := tbl_set (code k) (aput eqb k v c) (tbl s); pool := pool s; size := size s |}
                    = aput eqb k v (hflat s)).
        { unfold hflat at 1. cbn [tbl]. rewrite Ht, (tbl_set_at _ c _ _ _ Hn), flat_mid, Hflat.
          rewrite (aput_app_r V eqb k v _ _ F1). rewrite (aput_app_l V eqb k v x _ _ A). reflexivity. }
        split; [|rewrite P; apply Permutation_refl].
        eapply (wf_after_put k v s); [exact W| | | | rewrite P; apply Permutation_refl|]; cbn [tbl pool size].
        * rewrite Ht, (tbl_set_at _ c _ _ _ Hn). rewrite map_app in *. exact Hnd.
        * rewrite Ht, (tbl_set_at _ c _ _ _ Hn).
          apply chains_ok_app. split; [exact Ok1|]. constructor; [|exact Ok2]. cbn [fst snd]. split.
          -- destruct c as [|[k0 v0] r]; [discriminate|]. cbn [aput]. destruct (eqb k0 k); discriminate.
          -- apply aput_keys_code; [reflexivity|exact Hc].
        * exact (wf_pool s W).
        * rewrite Hflat, aget_app, (aget_foreign V eqb k _ F1), aget_app, A. lia.
      + (* end of chain reached: append a (possibly recycled) node *)
        destruct (new_node vzero ch k v (pool s)) as [n p] eqn:NN. cbn [fst snd] in Hnn, Hpool'. subst n.
        destruct c as [|e0 c0]; [contradiction|].
        unfold chain_of_node in Heq. cbn [nkey nval nnext] in Heq.
        assert (Ec : e0 :: c0 <> []) by discriminate.
        remember (e0 :: c0) as c eqn:Ec0. clear Ec0 e0 c0.
        inversion Heq; subst s' o; clear Heq. split; [reflexivity|].
        pose proof (aget_none_foreign V eqb k c A) as Fc.
        assert (P : Permutation (hflat {| tbl := tbl_set (code k) (c ++ [(k, v)]) (tbl s); pool := p; size := size s + 1 |})
                                (aput eqb k v (hflat s))).
        { unfold hflat at 1. cbn [tbl]. rewrite Ht, (tbl_set_at _ c _ _ _ Hn), flat_mid, Hflat.
          rewrite (aput_foreign V eqb k v (flat t1 ++ c ++ flat t2)).
          2:{ apply Forall_app. split; [exact F1|]. apply Forall_app. split; [exact Fc|exact F2]. }
          rewrite <- !app_assoc. apply Permutation_app_head. apply Permutation_app_head.
          apply Permutation_app_comm. }
        split; [|exact P].
        eapply (wf_after_put k v s); [exact W| | | |exact P|]; cbn [tbl pool size].
        * rewrite Ht, (tbl_set_at _ c _ _ _ Hn). rewrite map_app in *. exact Hnd.
        * rewrite Ht, (tbl_set_at _ c _ _ _ Hn).
          apply chains_ok_app. split; [exact Ok1|]. constructor; [|exact Ok2]. cbn [fst snd]. split.
          -- destruct c; [contradiction|discriminate].
          -- apply Forall_app. split; [exact Hc|]. constructor; [reflexivity|constructor].
        * exact Hpool'.
        * rewrite Hflat, aget_app, (aget_foreign V eqb k _ F1), aget_app, A, (aget_foreign V eqb k _ F2). reflexivity.
    - (* no bucket for this code *)
      pose proof (tbl_get_none _ _ G) as Hn.
      destruct (new_node vzero ch k v (pool s)) as [n p] eqn:NN. cbn [fst snd] in Hnn, Hpool'. subst n.
      inversion Heq; subst s' o; clear Heq. split; [reflexivity|].
      unfold chain_of_node. cbn [nkey nval nnext].
      pose proof (flat_foreign k _ Hok Hn) as F.
      assert (P : hflat {| tbl := tbl_set (code k) [(k, v)] (tbl s); pool := p; size := size s + 1 |}
                  = aput eqb k v (hflat s)).
      { unfold hflat. cbn [tbl]. rewrite (tbl_set_new _ _ _ Hn), flat_app. cbn [flat_map snd app].
        rewrite (aput_foreign V eqb k v _ F). reflexivity. }
      split; [|rewrite P; apply Permutation_refl].
      eapply (wf_after_put k v s); [exact W| | | |rewrite P; apply Permutation_refl|]; cbn [tbl pool size].
      + rewrite (tbl_set_new _ _ _ Hn), map_app. cbn [map fst].
        eapply Permutation_NoDup; [apply Permutation_cons_append|]. constructor; assumption.
      + rewrite (tbl_set_new _ _ _ Hn).
        apply chains_ok_app. split; [exact Hok|]. constructor; [|constructor]. cbn [fst snd].
        split; [discriminate|]. constructor; [reflexivity|constructor].
      + exact Hpool'.
      + unfold hflat. rewrite (aget_foreign V eqb k _ F). reflexivity.
  Qed.
  (* ---------------- Delete ---------------- *)
  Lemma wf_after_del : forall k s s', WF s ->
    NoDup (map fst (tbl s')) -> chains_ok (tbl s') -> pool_zero (pool s') ->
    hflat s' = adel eqb k (hflat s) ->
    size s' = size s - match aget eqb k (hflat s) with Some _ => 1 | None => 0 end ->
    WF s'.
  Proof.
    intros k s s' W H1 H2 H3 H4 H5. constructor; try assumption.
    - rewrite H4. apply distinct_adel. exact (wf_distinct s W).
    - rewrite H5, (wf_size s W), H4, (length_adel V eqb).
      destruct (aget eqb k (hflat s)) eqn:A; [|lia].
      destruct (hflat s); [discriminate|]. cbn [length pred]. lia.
  Qed.

  Lemma formatting_fresh : forall n, formatting vzero n = fresh_node vzero.
  Proof. reflexivity. Qed.

  Lemma hdelete_spec : forall k s s' r, WF s ->
    hdelete vzero code eqb k s = (s', r) ->
    r = afound vzero eqb k (hflat s) /\ WF s' /\ hflat s' = adel eqb k (hflat s).
  Proof.
    intros k s s' r W Heq.
    pose proof (wf_codes s W) as Hnd. pose proof (wf_chains s W) as Hok.
    assert (Hnone : aget eqb k (hflat s) = None -> (vzero, false) = afound vzero eqb k (hflat s) /\ WF s /\
                    hflat s = adel eqb k (hflat s)).
    { intro A. split; [unfold afound; rewrite A; reflexivity|]. split; [exact W|].
      symmetry. apply adel_foreign. apply aget_none_foreign. exact A. }
    unfold hdelete, hdelete_gen in Heq.
    destruct (tbl_get (code k) (tbl s)) as [c|] eqn:G.
    - destruct (tbl_get_some _ _ _ G) as [t1 [t2 [Ht Hn]]]. rewrite Ht in Hnd, Hok.
      destruct (split_facts k t1 t2 c Hnd Hok) as [F1 [F2 [Ok1 [Ok2 [Hne [Hc Hnd']]]]]].
      assert (Hflat : hflat s = flat t1 ++ c ++ flat t2) by (unfold hflat; rewrite Ht; apply flat_mid).
      destruct c as [|[k0 v0] r0]; [contradiction|].
      destruct (eqb k0 k) eqn:E.
      + (* num = 0 *)
        assert (A : aget eqb k (hflat s) = Some v0).
        { rewrite Hflat, aget_app, (aget_foreign V eqb k _ F1). cbn [app aget]. rewrite E. reflexivity. }
        assert (D : adel eqb k (hflat s) = flat t1 ++ r0 ++ flat t2).
        { rewrite Hflat, (adel_app_r V eqb k _ _ F1). cbn [app adel]. rewrite E. reflexivity. }
        inversion Heq; subst s' r; clear Heq.
        split; [unfold afound; rewrite A; reflexivity|].
        unfold chains_ok in Hc. inversion Hc as [|? ? Hc0 Hcr]; subst.
        destruct r0 as [|e1 r1].
        * (* the only node of the chain: the bucket is deleted *)
          assert (P : hflat {| tbl := tbl_remove (code k) (tbl s);
                               pool := formatting vzero {| nkey := k0; nval := v0; nnext := [] |} :: pool s;
                               size := size s - 1 |} = adel eqb k (hflat s)).
          { unfold hflat at 1. cbn [tbl]. rewrite Ht, (tbl_remove_at _ _ _ _ Hn), flat_app, D. reflexivity. }
          split; [|exact P].
          eapply (wf_after_del k s); [exact W| | | |exact P|]; cbn [tbl pool size].
          -- rewrite Ht, (tbl_remove_at _ _ _ _ Hn). exact Hnd'.
          -- rewrite Ht, (tbl_remove_at _ _ _ _ Hn). apply chains_ok_app. split; assumption.
          -- constructor; [reflexivity|exact (wf_pool s W)].
          -- rewrite A. reflexivity.
        * (* head with a successor: the bucket now starts at root.next *)
          assert (P : hflat {| tbl := tbl_set (code k) (e1 :: r1) (tbl s);
                               pool := formatting vzero {| nkey := k0; nval := v0; nnext := e1 :: r1 |} :: pool s;
                               size := size s - 1 |} = adel eqb k (hflat s)).
          { unfold hflat at 1. cbn [tbl]. rewrite Ht, (tbl_set_at _ _ _ _ _ Hn), flat_mid, D. reflexivity. }
          split; [|exact P].
          eapply (wf_after_del k s); [exact W| | | |exact P|]; cbn [tbl pool size].
          -- rewrite Ht, (tbl_set_at _ _ _ _ _ Hn). rewrite map_app in *. exact Hnd.
          -- rewrite Ht, (tbl_set_at _ _ _ _ _ Hn). apply chains_ok_app. split; [exact Ok1|].
             constructor; [|exact Ok2]. cbn [fst snd]. split; [discriminate|exact Hcr].
          -- constructor; [reflexivity|exact (wf_pool s W)].
          -- rewrite A. reflexivity.
      + (* num > 0 *)
        pose proof (chain_unlink_spec k r0) as U.
        destruct (chain_unlink eqb k r0) as [[r' n]|].
        * destruct U as [U1 U2]. subst r'.
          assert (A : aget eqb k (hflat s) = Some (nval n)).
          { rewrite Hflat, aget_app, (aget_foreign V eqb k _ F1). cbn [app aget]. rewrite E.
            rewrite aget_app, U2. reflexivity. }
          assert (D : adel eqb k (hflat s) = flat t1 ++ ((k0, v0) :: adel eqb k r0) ++ flat t2).
          { rewrite Hflat, (adel_app_r V eqb k _ _ F1). cbn [app adel]. rewrite E.
            rewrite (adel_app_l V eqb k (nval n) _ _ U2). reflexivity. }
          inversion Heq; subst s' r; clear Heq.
          split; [unfold afound; rewrite A; reflexivity|].
          assert (P : hflat {| tbl := tbl_set (code k) ((k0, v0) :: adel eqb k r0) (tbl s);
                               pool := formatting vzero n :: pool s; size := size s - 1 |} = adel eqb k (hflat s)).
          { unfold hflat at 1. cbn [tbl]. rewrite Ht, (tbl_set_at _ _ _ _ _ Hn), flat_mid, D. reflexivity. }
          split; [|exact P].
          eapply (wf_after_del k s); [exact W| | | |exact P|]; cbn [tbl pool size].
          -- rewrite Ht, (tbl_set_at _ _ _ _ _ Hn). rewrite map_app in *. exact Hnd.
          -- rewrite Ht, (tbl_set_at _ _ _ _ _ Hn). apply chains_ok_app. split; [exact Ok1|].
             constructor; [|exact Ok2]. cbn [fst snd]. split; [discriminate|].
             unfold chains_ok in Hc. inversion Hc as [|? ? Hc0 Hcr]; subst. constructor; [exact Hc0|].
             apply Forall_forall. intros e He. rewrite Forall_forall in Hcr. apply Hcr.
             eapply adel_incl. exact He.
          -- constructor; [reflexivity|exact (wf_pool s W)].
          -- rewrite A. reflexivity.
        * inversion Heq; subst s' r; clear Heq. apply Hnone.
          rewrite Hflat, aget_app, (aget_foreign V eqb k _ F1). cbn [app aget]. rewrite E.
          rewrite aget_app, U, (aget_foreign V eqb k _ F2). reflexivity.
    - inversion Heq; subst s' r; clear Heq. apply Hnone.
      apply aget_foreign. apply flat_foreign; [exact Hok|]. apply tbl_get_none. exact G.
  Qed.

  (* ---------------- the simulation ---------------- *)
  Definition hR (s : hstate V) (a : list (Z * V)) : Prop := WF s /\ Permutation (hflat s) a.

  Lemma hR_init : hR hinit [].
  Proof.
    split; [|apply Permutation_refl]. constructor; cbn; try constructor; try reflexivity.
  Qed.

  Lemma hR_put : forall s a k v ch, hR s a -> hR (fst (hput vzero code eqb k v ch s)) (aput eqb k v a).
  Proof.
    intros s a k v ch [W P]. destruct (hput vzero code eqb k v ch s) as [s' o] eqn:E.
    destruct (hput_spec k v ch s s' o W E) as [_ [W' P']]. cbn [fst]. split; [exact W'|].
    eapply Permutation_trans; [exact P'|]. apply aput_perm; [exact eqb_laws|exact P|exact (wf_distinct s W)].
  Qed.
  Lemma hR_put_ok : forall s a k v ch, hR s a -> snd (hput vzero code eqb k v ch s) = Ok tt.
  Proof.
    intros s a k v ch [W P]. destruct (hput vzero code eqb k v ch s) as [s' o] eqn:E.
    destruct (hput_spec k v ch s s' o W E) as [Ho _]. exact Ho.
  Qed.
  Lemma hR_get : forall s a k, hR s a -> hget vzero code eqb k s = afound vzero eqb k a.
  Proof.
    intros s a k [W P]. rewrite (hget_spec k s W). unfold afound.
    rewrite (aget_perm V eqb eqb_laws k _ _ P (wf_distinct s W)). reflexivity.
  Qed.
  Lemma hR_del : forall s a k, hR s a ->
    hR (fst (hdelete vzero code eqb k s)) (adel eqb k a) /\
    snd (hdelete vzero code eqb k s) = afound vzero eqb k a.
  Proof.
    intros s a k [W P]. destruct (hdelete vzero code eqb k s) as [s' r] eqn:E.
    destruct (hdelete_spec k s s' r W E) as [Hr [W' P']]. cbn [fst snd]. split.
    - split; [exact W'|]. rewrite P'. apply adel_perm; [exact eqb_laws|exact P|exact (wf_distinct s W)].
    - rewrite Hr. unfold afound. rewrite (aget_perm V eqb eqb_laws k _ _ P (wf_distinct s W)). reflexivity.
  Qed.
  Lemma hR_distinct : forall s a, hR s a -> distinct eqb a.
  Proof. intros s a [W P]. eapply distinct_perm; [exact eqb_laws|exact P|exact (wf_distinct s W)]. Qed.

  Lemma hash_sim : forall s a o, hR s a ->
    hR (fst (hstep vzero code eqb s o)) (fst (astep vzero eqb a o)) /\
    out_equiv (snd (hstep vzero code eqb s o)) (snd (astep vzero eqb a o)).
  Proof.
    intros s a o H. unfold hstep, hstep_gen. destruct o as [k v ch|k|k| | |]; cbn [astep].
    - pose proof (hR_put s a k v ch H) as H1. pose proof (hR_put_ok s a k v ch H) as H2.
      destruct (hput vzero code eqb k v ch s) as [s' r]. cbn [fst snd] in *. subst r.
      split; [exact H1|reflexivity].
    - rewrite (hR_get s a k H). destruct (afound vzero eqb k a) as [v ok]. cbn [fst snd].
      split; [exact H|reflexivity].
    - destruct (hR_del s a k H) as [H1 H2]. fold (hdelete vzero code eqb k s).
      destruct (hdelete vzero code eqb k s) as [s' [v ok]]. cbn [fst snd] in *. rewrite <- H2.
      cbn [fst snd]. split; [exact H1|reflexivity].
    - cbn [fst snd]. split; [exact H|]. cbn [out_equiv]. unfold hkeys. apply Permutation_map. exact (proj2 H).
    - cbn [fst snd]. split; [exact H|]. cbn [out_equiv]. unfold hvals. apply Permutation_map. exact (proj2 H).
    - cbn [fst snd]. split; [exact H|]. cbn [out_equiv]. unfold hlen. destruct H as [W P].
      rewrite (wf_size s W), (Permutation_length P). reflexivity.
  Qed.

  (* HashMap is a correct backing for the decorators *)
  Lemma hash_backing_refines_lemma : backing_refines vzero eqb (hash_backing vzero code eqb) hR.
  Proof.
    constructor; cbn [hash_backing mput mget mdel mkeys mvals mlen].
    - intros m a k u ch H. apply hR_put. exact H.
    - intros m a k H. apply hR_get. exact H.
    - intros m a k H. apply hR_del. exact H.
    - intros m a [W P]. unfold hkeys. apply Permutation_map. exact P.
    - intros m a [W P]. unfold hvals. apply Permutation_map. exact P.
    - intros m a [W P]. unfold hlen. rewrite (wf_size m W), (Permutation_length P). reflexivity.
    - intros m a H. eapply hR_distinct. exact H.
  Qed.

  (* ---------------- all histories ---------------- *)
  Notation hrun ops := (run (hstep vzero code eqb) hinit ops).
  Notation arun ops := (run (astep vzero eqb) [] ops).

  Lemma hash_run_sim : forall ops,
    hR (fst (hrun ops)) (fst (arun ops)) /\ Forall2 out_equiv (snd (hrun ops)) (snd (arun ops)).
  Proof. intro ops. apply (run_sim _ _ hR out_equiv hash_sim). exact hR_init. Qed.

  Lemma hashmap_refines_map_lemma : forall ops, Forall2 out_equiv (snd (hrun ops)) (snd (arun ops)).
  Proof. intro ops. exact (proj2 (hash_run_sim ops)). Qed.

  Lemma hashmap_wf_lemma : forall ops, WF (fst (hrun ops)).
  Proof. intro ops. exact (proj1 (proj1 (hash_run_sim ops))). Qed.

  Lemma hashmap_never_panics_lemma : forall ops, ~ In (RPut Panic) (snd (hrun ops)).
  Proof.
    intros ops Hin. pose proof (hashmap_refines_map_lemma ops) as F.
    assert (G : forall (l1 l2 : list (mout V)), Forall2 out_equiv l1 l2 -> In (RPut Panic) l1 -> In (RPut Panic) l2).
    { intros l1 l2 HF. induction HF as [|x y l l' Hxy HF IH]; intro HI; [exact HI|].
      destruct HI as [HI|HI]; [left; subst x; cbn [out_equiv] in Hxy; symmetry; exact Hxy|right; exact (IH HI)]. }
    specialize (G _ _ F Hin). clear F Hin. revert G. generalize (@nil (Z * V)).
    induction ops as [|o t IH]; intros a G; [exact G|].
    cbn [run] in G. destruct (astep vzero eqb a o) as [a1 r] eqn:E.
    destruct (run (astep vzero eqb) a1 t) as [a2 rs] eqn:E2. cbn [snd] in G.
    destruct G as [G|G].
    - destruct o; cbn [astep] in E; try (destruct (afound vzero eqb k a)); inversion E; subst; discriminate.
    - apply (IH a1). rewrite E2. exact G.
  Qed.

  (* Len is the number of distinct live keys *)
  Lemma distinct_keys_FOP : forall (l : list (Z * V)), distinct eqb l ->
    ForallOrdPairs (fun a b => eqb a b = false) (map fst l).
  Proof.
    intro l. induction l as [|[k v] t IH]; intro H; [constructor|].
    cbn [distinct] in H. destruct H as [H1 H2]. cbn [map fst]. constructor; [|exact (IH H2)].
    apply Forall_map. exact H1.
  Qed.
  Lemma aget_some_iff : forall k (l : list (Z * V)),
    aget eqb k l <> None <-> exists k', In k' (map fst l) /\ eqb k' k = true.
  Proof.
    intros k l. induction l as [|[k0 v0] t IH].
    - cbn. split; [intro H; contradiction|intros [k' [[] _]]].
    - cbn [aget map fst In]. destruct (eqb k0 k) eqn:E.
      + split; [intros _; exists k0; split; [left; reflexivity|exact E]|intros _; discriminate].
      + rewrite IH. split.
        * intros [k' [Hin He]]. exists k'. split; [right; exact Hin|exact He].
        * intros [k' [[Hk|Hin] He]]; [subst k'; congruence|exists k'; split; assumption].
  Qed.

  Lemma len_is_cardinal_lemma : forall ops,
    let s := fst (hrun ops) in
    hlen s = Z.of_nat (length (hkeys s)) /\
    ForallOrdPairs (fun a b => eqb a b = false) (hkeys s) /\
    (forall k, snd (hget vzero code eqb k s) = true <-> exists k', In k' (hkeys s) /\ eqb k' k = true).
  Proof.
    intros ops s. pose proof (hashmap_wf_lemma ops) as W. fold s in W. repeat split.
    - unfold hlen, hkeys. rewrite map_length. exact (wf_size s W).
    - apply distinct_keys_FOP. exact (wf_distinct s W).
    - rewrite (hget_spec k s W). unfold afound, hkeys. intro H. apply aget_some_iff.
      destruct (aget eqb k (hflat s)); [discriminate|discriminate].
    - rewrite (hget_spec k s W). unfold afound, hkeys. intro H. apply aget_some_iff in H.
      destruct (aget eqb k (hflat s)); [reflexivity|contradiction].
  Qed.

  (* deleting or overwriting a key never disturbs another key, colliding or not *)
  Lemma delete_does_not_disturb_lemma : forall ops k k', eqb k k' = false ->
    let s := fst (hrun ops) in
    hget vzero code eqb k' (fst (hdelete vzero code eqb k s)) = hget vzero code eqb k' s /\
    (forall v ch, hget vzero code eqb k' (fst (hput vzero code eqb k v ch s)) = hget vzero code eqb k' s).
  Proof.
    intros ops k k' Hne s. pose proof (hashmap_wf_lemma ops) as W. fold s in W. split.
    - destruct (hdelete vzero code eqb k s) as [s' r] eqn:E.
      destruct (hdelete_spec k s s' r W E) as [_ [W' P]]. cbn [fst].
      rewrite (hget_spec k' s' W'), (hget_spec k' s W). unfold afound.
      rewrite P, (aget_adel_other V eqb eqb_laws k k' _ Hne). reflexivity.
    - intros v ch. destruct (hput vzero code eqb k v ch s) as [s' o] eqn:E.
      destruct (hput_spec k v ch s s' o W E) as [_ [W' P]]. cbn [fst].
      rewrite (hget_spec k' s' W'), (hget_spec k' s W). unfold afound.
      rewrite (aget_perm V eqb eqb_laws k' _ _ P (wf_distinct s' W')).
      rewrite (aget_aput_other V eqb eqb_laws k v k' _ Hne). reflexivity.
  Qed.

  (* recycled nodes never leak a previous key, value or chain *)
  Lemma recycled_nodes_do_not_leak_lemma : forall ops,
    let s := fst (hrun ops) in
    Forall (fun n => n = {| nkey := 0; nval := vzero; nnext := [] |}) (pool s) /\
    (forall ch k v, fst (new_node vzero ch k v (pool s)) = {| nkey := k; nval := v; nnext := [] |}).
  Proof.
    intros ops s. pose proof (hashmap_wf_lemma ops) as W. fold s in W. split.
    - exact (wf_pool s W).
    - intros ch k v. exact (proj1 (new_node_zero ch k v (pool s) (wf_pool s W))).
  Qed.

  (* Len of the pinned tree counted buckets: two colliding keys gave Len = 1 with 2 keys stored *)
  Lemma hashmap_len_refuted_lemma : forall a b va vb, code a = code b -> eqb a b = false ->
    let s := fst (hrun [MPut a va None; MPut b vb None]) in
    hlen_pinned s = 1 /\ length (hkeys s) = 2%nat /\ hlen s = 2.
  Proof.
    intros a b va vb Hc He.
    assert (E1 : hput vzero code eqb a va None hinit =
                 ({| tbl := [(code a, [(a, va)])]; pool := []; size := 0 + 1 |}, Ok tt)) by reflexivity.
    assert (E2 : hput vzero code eqb b vb None {| tbl := [(code a, [(a, va)])]; pool := []; size := 0 + 1 |} =
                 ({| tbl := [(code b, [(a, va); (b, vb)])]; pool := []; size := 0 + 1 + 1 |}, Ok tt)).
    { unfold hput. cbn [tbl tbl_get]. rewrite Hc, Z.eqb_refl. cbn [chain_update]. rewrite He.
      cbn [pool new_node pool_get tbl_set]. rewrite Z.eqb_refl. reflexivity. }
    cbn [run hstep hstep_gen]. rewrite E1, E2. cbn. repeat split.
  Qed.
End HashProof.

(* ---- documentation: what the proofs above rule out ---- *)
(* Len of the pinned tree (before fix ace65f0) on a constant hash code *)
Example hashmap_len_refuted_concrete :
  let s := fst (run (hstep 0 (fun _ => 0) Z.eqb) hinit [MPut 1 10 None; MPut 2 20 None]) in
  hlen_pinned s = 1 /\ length (hkeys s) = 2%nat /\ hlen s = 2.
Proof. vm_compute. repeat split. Qed.

(* If `formatting` did not clear `next`, a recycled node would drag its old chain along:
   Put 1,2,3 (one chain); Delete 1 (pooled with next -> 2,3); Put 4 reusing that node. *)
Definition formatting_keeps_next (n : node Z) : node Z := {| nkey := 0; nval := 0; nnext := nnext n |}.
Example unformatted_node_leaks :
  let ops := [MPut 1 10 None; MPut 2 20 None; MPut 3 30 None; MDelete 1; MPut 4 40 (Some 0%nat)] in
  hkeys (fst (run (hstep_gen 0 (fun _ => 0) Z.eqb formatting_keeps_next) hinit ops)) = [2; 3; 4; 2; 3] /\
  hkeys (fst (run (hstep 0 (fun _ => 0) Z.eqb) hinit ops)) = [2; 3; 4].
Proof. vm_compute. split; reflexivity. Qed.
