(* Proofs about model/HashModel.v (C03): the invariant WF of DESIGN 12.2 and the
   simulation between the hash table and the abstract association list, for every
   Code/Equals satisfying the laws and every node-pool oracle. *)
From Ekit Require Import Common DecorSpec HashModel DecorSpecProof.

Section HashProof.
  Variable V : Type.
  Variable vzero : V.
  Variable code : Z -> Z.
  Variable eqb : Z -> Z -> bool.
  Hypothesis eqb_laws : eqb_equivalence eqb.
  Hypothesis code_law : hash_consistent code eqb.

  Notation table := (list (Z * list (Z * V))).
  Notation flat := (flat_map (@snd Z (list (Z * V)))).

  (* ---------------- the invariant ---------------- *)
  (* (a) no empty chain, (b) every key sits in the bucket of its code *)
  Definition chains_ok (t : table) : Prop :=
    Forall (fun e => snd e <> [] /\ Forall (fun kv => code (fst kv) = fst e) (snd e)) t.
  (* (d) pooled nodes are zeroed and have no tail *)
  Definition pool_zero (p : list (node V)) : Prop := Forall (fun n => n = fresh_node vzero) p.

  Record WF (s : hstate V) : Prop := {
    wf_codes : NoDup (map fst (tbl s));                (* one bucket per code (Go map) *)
    wf_chains : chains_ok (tbl s);                     (* (a) (b) *)
    wf_distinct : distinct eqb (hflat s);              (* (c) keys pairwise non-Equal across the table *)
    wf_pool : pool_zero (pool s);                      (* (d) *)
    wf_size : size s = Z.of_nat (length (hflat s));    (* the size counter *)
  }.

  (* ---------------- the builtin map ---------------- *)
  Lemma tbl_get_some : forall h (t : table) c, tbl_get h t = Some c ->
    exists t1 t2, t = t1 ++ (h, c) :: t2 /\ ~ In h (map fst t1).
  Proof.
    intros h t. induction t as [|[h' c'] r IH]; intros c H; [discriminate|].
    cbn [tbl_get] in H. destruct (h' =? h) eqn:E.
    - apply Z.eqb_eq in E. subst h'. inversion H; subst. exists [], r. split; [reflexivity|intros []].
    - destruct (IH c H) as [t1 [t2 [Ht Hn]]]. exists ((h', c') :: t1), t2. split.
      + rewrite Ht. reflexivity.
      + cbn [map fst In]. intros [Hh|Hh]; [apply Z.eqb_neq in E; congruence|exact (Hn Hh)].
  Qed.
  Lemma tbl_get_none : forall h (t : table), tbl_get h t = None -> ~ In h (map fst t).
  Proof.
    intros h t. induction t as [|[h' c'] r IH]; intro H; [intros []|].
    cbn [tbl_get] in H. destruct (h' =? h) eqn:E; [discriminate|].
    cbn [map fst In]. intros [Hh|Hh]; [apply Z.eqb_neq in E; congruence|exact (IH H Hh)].
  Qed.
  Lemma tbl_set_at : forall h c c' (t1 t2 : table), ~ In h (map fst t1) ->
    tbl_set h c' (t1 ++ (h, c) :: t2) = t1 ++ (h, c') :: t2.
  Proof.
    intros h c c' t1 t2. induction t1 as [|[h' c0] r IH]; intro Hn.
    - cbn [app tbl_set]. rewrite Z.eqb_refl. reflexivity.
    - cbn [app tbl_set]. cbn [map fst In] in Hn. destruct (h' =? h) eqn:E.
      + apply Z.eqb_eq in E. exfalso. apply Hn. left. exact E.
      + rewrite IH; [reflexivity|]. intro Hh. apply Hn. right. exact Hh.
  Qed.
  Lemma tbl_set_new : forall h c (t : table), ~ In h (map fst t) -> tbl_set h c t = t ++ [(h, c)].
  Proof.
    intros h c t. induction t as [|[h' c0] r IH]; intro Hn; [reflexivity|].
    cbn [app tbl_set]. cbn [map fst In] in Hn. destruct (h' =? h) eqn:E.
    - apply Z.eqb_eq in E. exfalso. apply Hn. left. exact E.
    - rewrite IH; [reflexivity|]. intro Hh. apply Hn. right. exact Hh.
  Qed.
  Lemma tbl_remove_at : forall h c (t1 t2 : table), ~ In h (map fst t1) ->
    tbl_remove h (t1 ++ (h, c) :: t2) = t1 ++ t2.
  Proof.
    intros h c t1 t2. induction t1 as [|[h' c0] r IH]; intro Hn.
    - cbn [app tbl_remove]. rewrite Z.eqb_refl. reflexivity.
    - cbn [app tbl_remove]. cbn [map fst In] in Hn. destruct (h' =? h) eqn:E.
      + apply Z.eqb_eq in E. exfalso. apply Hn. left. exact E.
      + rewrite IH; [reflexivity|]. intro Hh. apply Hn. right. exact Hh.
  Qed.

  Lemma flat_app : forall t1 t2 : table, flat (t1 ++ t2) = flat t1 ++ flat t2.
  Proof. intros. apply flat_map_app. Qed.
  Lemma flat_mid : forall (t1 t2 : table) h c, flat (t1 ++ (h, c) :: t2) = flat t1 ++ c ++ flat t2.
  Proof. intros. rewrite flat_app. reflexivity. Qed.

  (* ---------------- hash consistency: foreign buckets hold no Equal key ---------------- *)
  Lemma foreign_of_code : forall k (l : list (Z * V)),
    Forall (fun kv => code (fst kv) <> code k) l -> foreign V eqb k l.
  Proof.
    intros k l H. induction H as [|e t He Ht IH]; constructor; [|exact IH].
    destruct (eqb (fst e) k) eqn:E; [|reflexivity]. apply code_law in E. contradiction.
  Qed.
  Lemma flat_foreign : forall k (t : table),
    chains_ok t -> ~ In (code k) (map fst t) -> foreign V eqb k (flat t).
  Proof.
    intros k t H. induction H as [|[h c] r [Hne Hc] Hr IH]; intro Hn; [constructor|].
    cbn [flat_map snd]. apply Forall_app. cbn [map fst In snd] in *. split.
    - apply foreign_of_code. eapply Forall_impl; [|exact Hc]. cbn beta. intros kv Hk Heq.
      apply Hn. left. congruence.
    - apply IH. intro Hh. apply Hn. right. exact Hh.
  Qed.

  Lemma chains_ok_app : forall t1 t2 : table, chains_ok (t1 ++ t2) <-> chains_ok t1 /\ chains_ok t2.
  Proof. intros. apply Forall_app. Qed.

  (* a WF table split at the bucket of k *)
  Lemma split_facts : forall k (t1 t2 : table) c,
    NoDup (map fst (t1 ++ (code k, c) :: t2)) -> chains_ok (t1 ++ (code k, c) :: t2) ->
    foreign V eqb k (flat t1) /\ foreign V eqb k (flat t2) /\
    chains_ok t1 /\ chains_ok t2 /\ c <> [] /\ Forall (fun kv => code (fst kv) = code k) c /\
    NoDup (map fst (t1 ++ t2)).
  Proof.
    intros k t1 t2 c Hnd Hok.
    rewrite map_app in Hnd. cbn [map fst] in Hnd.
    pose proof (NoDup_remove_2 _ _ _ Hnd) as Hnot.
    pose proof (NoDup_remove_1 _ _ _ Hnd) as Hnd'.
    apply chains_ok_app in Hok. destruct Hok as [Hok1 Hok2].
    unfold chains_ok in Hok2. inversion Hok2 as [|? ? [Hne Hc] Hok2']; subst. cbn [fst snd] in *.
    repeat split; try assumption.
    - apply flat_foreign; [exact Hok1|]. intro Hin. apply Hnot. apply in_or_app. left. exact Hin.
    - apply flat_foreign; [exact Hok2'|]. intro Hin. apply Hnot. apply in_or_app. right. exact Hin.
    - rewrite map_app. exact Hnd'.
  Qed.

  (* ---------------- chain walks are the abstract operations on the chain ---------------- *)
  Lemma chain_get_afound : forall k (c : list (Z * V)), chain_get vzero eqb k c = afound vzero eqb k c.
  Proof.
    intros k c. unfold afound. induction c as [|[k' v'] r IH]; [reflexivity|].
    cbn [chain_get aget]. destruct (eqb k' k); [reflexivity|exact IH].
  Qed.
  Lemma chain_update_spec : forall k v (c : list (Z * V)),
    chain_update eqb k v c = match aget eqb k c with Some _ => Some (aput eqb k v c) | None => None end.
  Proof.
    intros k v c. induction c as [|[k' v'] r IH]; [reflexivity|].
    cbn [chain_update aget aput]. destruct (eqb k' k); [reflexivity|].
    rewrite IH. destruct (aget eqb k r); reflexivity.
  Qed.
  Lemma chain_unlink_spec : forall k (c : list (Z * V)),
    match chain_unlink eqb k c with
    | Some (c', n) => c' = adel eqb k c /\ aget eqb k c = Some (nval n)
    | None => aget eqb k c = None
    end.
  Proof.
    intros k c. induction c as [|[k' v'] r IH]; [reflexivity|].
    cbn [chain_unlink aget adel]. destruct (eqb k' k).
    - split; reflexivity.
    - destruct (chain_unlink eqb k r) as [[r' n]|].
      + destruct IH as [IH1 IH2]. split; [rewrite IH1; reflexivity|exact IH2].
      + exact IH.
  Qed.

  (* ---------------- the pool: recycled nodes carry nothing ---------------- *)
  Lemma pool_zero_remove : forall p i, pool_zero p -> pool_zero (remove_at p i).
  Proof.
    intros p. induction p as [|n t IH]; intros i H; [destruct i; exact H|].
    unfold pool_zero in *. inversion H as [|? ? Hn Ht]; subst. destruct i as [|i]; cbn [remove_at]; [exact Ht|].
    constructor; [reflexivity|exact (IH i Ht)].
  Qed.
  Lemma nth_opt_in : forall A (l : list A) i x, nth_opt l i = Some x -> In x l.
  Proof.
    intros A l. induction l as [|a t IH]; intros i x H; [destruct i; discriminate|].
    destruct i as [|i]; cbn [nth_opt] in H; [inversion H; left; reflexivity|right; exact (IH i x H)].
  Qed.
  Lemma pool_get_zero : forall ch p, pool_zero p ->
    fst (pool_get vzero ch p) = fresh_node vzero /\ pool_zero (snd (pool_get vzero ch p)).
  Proof.
    intros ch p H. unfold pool_get. destruct ch as [i|]; [|split; [reflexivity|exact H]].
    destruct (nth_opt p i) as [n|] eqn:E; cbn [fst snd]; [|split; [reflexivity|exact H]].
    split; [|apply pool_zero_remove; exact H].
    unfold pool_zero in H. rewrite Forall_forall in H. apply H. eapply nth_opt_in; exact E.
  Qed.
  (* whichever node the pool hands out, the new node is exactly (key, val, nil) *)
  Lemma new_node_zero : forall ch k v p, pool_zero p ->
    fst (new_node vzero ch k v p) = {| nkey := k; nval := v; nnext := [] |} /\
    pool_zero (snd (new_node vzero ch k v p)).
  Proof.
    intros ch k v p H. unfold new_node. destruct (pool_get_zero ch p H) as [H1 H2].
    destruct (pool_get vzero ch p) as [n p']. cbn [fst snd] in *. subst n. split; [reflexivity|exact H2].
  Qed.

  (* ---------------- Get ---------------- *)
  Lemma hget_spec : forall k s, WF s -> hget vzero code eqb k s = afound vzero eqb k (hflat s).
  Proof.
    intros k s W. unfold hget, hflat. destruct (tbl_get (code k) (tbl s)) as [c|] eqn:G.
    - destruct (tbl_get_some _ _ _ G) as [t1 [t2 [Ht Hn]]].
      pose proof (wf_codes s W) as Hnd. pose proof (wf_chains s W) as Hok. rewrite Ht in *.
      destruct (split_facts k t1 t2 c Hnd Hok) as [F1 [F2 _]].
      rewrite flat_mid, chain_get_afound. unfold afound.
      rewrite aget_app, (aget_foreign V eqb k _ F1), aget_app, (aget_foreign V eqb k _ F2).
      destruct (aget eqb k c); reflexivity.
    - apply tbl_get_none in G. unfold afound.
      rewrite (aget_foreign V eqb k _ (flat_foreign k _ (wf_chains s W) G)). reflexivity.
  Qed.

  (* ---------------- Put ---------------- *)
  Lemma aput_keys_code : forall k v h (c : list (Z * V)), code k = h ->
    Forall (fun kv => code (fst kv) = h) c -> Forall (fun kv => code (fst kv) = h) (aput eqb k v c).
  Proof.
    intros k v h c Hk Hc. apply Forall_forall. intros e He. rewrite Forall_forall in Hc.
    destruct (aput_keys_in V eqb k v c e He) as [[e' [Hin Hf]]|[Heq _]].
    - rewrite <- Hf. exact (Hc e' Hin).
    - subst e. exact Hk.
  Qed.

  Lemma wf_after_put : forall k v s s', WF s ->
    NoDup (map fst (tbl s')) -> chains_ok (tbl s') -> pool_zero (pool s') ->
    Permutation (hflat s') (aput eqb k v (hflat s)) ->
    size s' = size s + match aget eqb k (hflat s) with Some _ => 0 | None => 1 end ->
    WF s'.
  Proof.
    intros k v s s' W H1 H2 H3 H4 H5. constructor; try assumption.
    - eapply distinct_perm; [exact eqb_laws|apply Permutation_sym; exact H4|].
      apply distinct_aput. exact (wf_distinct s W).
    - rewrite H5, (wf_size s W), (Permutation_length H4), (length_aput V eqb).
      destruct (aget eqb k (hflat s)); lia.
  Qed.

  Lemma hput_spec : forall k v ch s s' o, WF s ->
    hput vzero code eqb k v ch s = (s', o) ->
    o = Ok tt /\ WF s' /\ Permutation (hflat s') (aput eqb k v (hflat s)).
  Proof.
    intros k v ch s s' o W Heq.
    pose proof (wf_codes s W) as Hnd. pose proof (wf_chains s W) as Hok.
    destruct (new_node_zero ch k v (pool s) (wf_pool s W)) as [Hnn Hpool'].
    unfold hput in Heq.
    destruct (tbl_get (code k) (tbl s)) as [c|] eqn:G.
    - destruct (tbl_get_some _ _ _ G) as [t1 [t2 [Ht Hn]]]. rewrite Ht in Hnd, Hok.
      destruct (split_facts k t1 t2 c Hnd Hok) as [F1 [F2 [Ok1 [Ok2 [Hne [Hc Hnd']]]]]].
      assert (Hflat : hflat s = flat t1 ++ c ++ flat t2) by (unfold hflat; rewrite Ht; apply flat_mid).
      rewrite chain_update_spec in Heq. destruct (aget eqb k c) as [x|] eqn:A.
      + (* an Equal key is in the chain: value replaced in place *)
        inversion Heq; subst s' o; clear Heq. split; [reflexivity|].
        assert (P : hflat {| tbl := tbl_set (code k) (aput eqb k v c) (tbl s); pool := pool s; size := size s |}
                    = aput eqb k v (hflat s)).
        { unfold hflat at 1. cbn [tbl]. rewrite Ht, (tbl_set_at _ c _ _ _ Hn), flat_mid, Hflat.
          rewrite (aput_app_r V eqb k v _ _ F1). rewrite (aput_app_l V eqb k v x _ _ A). reflexivity. }
        split; [|rewrite P; apply Permutation_refl].
        eapply (wf_after_put k v s); [exact W| | | | rewrite P; apply Permutation_refl|]; cbn [tbl pool size].
        * rewrite Ht, (tbl_set_at _ c _ _ _ Hn). rewrite map_app in *. exact Hnd.
        * rewrite Ht, (tbl_set_at _ c _ _ _ Hn).
          apply chains_ok_app. split; [exact Ok1|]. constructor; [|exact Ok2]. cbn [fst snd]. split.
          -- destruct c as [|[k0 v0] r]; [discriminate|]. cbn [aput]. destruct (eqb k0 k); discriminate.
          -- apply aput_keys_code; [reflexivity|exact Hc].
        * exact (wf_pool s W).
        * rewrite Hflat, aget_app, (aget_foreign V eqb k _ F1), aget_app, A. lia.
      + (* end of chain reached: append a (possibly recycled) node *)
        destruct (new_node vzero ch k v (pool s)) as [n p] eqn:NN. cbn [fst snd] in Hnn, Hpool'. subst n.
        destruct c as [|e0 c0]; [contradiction|].
        unfold chain_of_node in Heq. cbn [nkey nval nnext] in Heq.
        assert (Ec : e0 :: c0 <> []) by discriminate.
        remember (e0 :: c0) as c eqn:Ec0. clear Ec0 e0 c0.
        inversion Heq; subst s' o; clear Heq. split; [reflexivity|].
        pose proof (aget_none_foreign V eqb k c A) as Fc.
        assert (P : Permutation (hflat {| tbl := tbl_set (code k) (c ++ [(k, v)]) (tbl s); pool := p; size := size s + 1 |})
                                (aput eqb k v (hflat s))).
        { unfold hflat at 1. cbn [tbl]. rewrite Ht, (tbl_set_at _ c _ _ _ Hn), flat_mid, Hflat.
          rewrite (aput_foreign V eqb k v (flat t1 ++ c ++ flat t2)).
          2:{ apply Forall_app. split; [exact F1|]. apply Forall_app. split; [exact Fc|exact F2]. }
          rewrite <- !app_assoc. apply Permutation_app_head. apply Permutation_app_head.
          apply Permutation_app_comm. }
        split; [|exact P].
        eapply (wf_after_put k v s); [exact W| | | |exact P|]; cbn [tbl pool size].
        * rewrite Ht, (tbl_set_at _ c _ _ _ Hn). rewrite map_app in *. exact Hnd.
        * rewrite Ht, (tbl_set_at _ c _ _ _ Hn).
          apply chains_ok_app. split; [exact Ok1|]. constructor; [|exact Ok2]. cbn [fst snd]. split.
          -- destruct c; [contradiction|discriminate].
          -- apply Forall_app. split; [exact Hc|]. constructor; [reflexivity|constructor].
        * exact Hpool'.
        * rewrite Hflat, aget_app, (aget_foreign V eqb k _ F1), aget_app, A, (aget_foreign V eqb k _ F2). reflexivity.
    - (* no bucket for this code *)
      pose proof (tbl_get_none _ _ G) as Hn.
      destruct (new_node vzero ch k v (pool s)) as [n p] eqn:NN. cbn [fst snd] in Hnn, Hpool'. subst n.
      inversion Heq; subst s' o; clear Heq. split; [reflexivity|].
      unfold chain_of_node. cbn [nkey nval nnext].
      pose proof (flat_foreign k _ Hok Hn) as F.
      assert (P : hflat {| tbl := tbl_set (code k) [(k, v)] (tbl s); pool := p; size := size s + 1 |}
                  = aput eqb k v (hflat s)).
      { unfold hflat. cbn [tbl]. rewrite (tbl_set_new _ _ _ Hn), flat_app. cbn [flat_map snd app].
        rewrite (aput_foreign V eqb k v _ F). reflexivity. }
      split; [|rewrite P; apply Permutation_refl].
      eapply (wf_after_put k v s); [exact W| | | |rewrite P; apply Permutation_refl|]; cbn [tbl pool size].
      + rewrite (tbl_set_new _ _ _ Hn), map_app. cbn [map fst].
        eapply Permutation_NoDup; [apply Permutation_cons_append|]. constructor; assumption.
      + rewrite (tbl_set_new _ _ _ Hn).
        apply chains_ok_app. split; [exact Hok|]. constructor; [|constructor]. cbn [fst snd].
        split; [discriminate|]. constructor; [reflexivity|constructor].
      + exact Hpool'.
      + unfold hflat. rewrite (aget_foreign V eqb k _ F). reflexivity.
  Qed.
End HashProof.
