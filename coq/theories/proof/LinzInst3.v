(* Instances of lib/Linz.v, part 3: ConcurrentArrayBlockingQueue (model/ABQModel.v).

   The model of the array blocking queue keeps no event history (its ghost state is the value logs
   g_in / g_out / t_lin), and its linearisation-point theorems ([abq_linearizable],
   [abq_return_values] of props/C07_abq.v) are stated per step.  The history of a run is therefore
   DEFINED here from the run itself, outside the model ([abq_hev]): a CALL event is an invocation,
   every observed return [ORet r] is a response, and the step the model marks ([lin_of]: the ring
   write of Enqueue, the ring read of Dequeue) is the linearisation event of the stepping thread.
   Calls that return the context's error, Len and AsSlice have no marked step; they take effect at
   their return statement (evaluated inside the critical section) and are linearised at the
   response ([abq_late]).  The sequential specification [abq_rel cap] is the bounded blocking FIFO
   queue ([spec_enq] / [spec_deq]: Enqueue enabled only below capacity, Dequeue only on a non-empty
   queue) plus "Enqueue / Dequeue may return the context's error without effect". *)
From Ekit Require Import Common Conc Linz ABQModel ABQProof ABQProof2 ABQProof3 ABQProof4 ABQProof5 ABQProof6.
From Coq Require Import ZifyBool Arith PeanoNat.

Definition abq_rel (cap : Z) (s : list Z) (o : abq_op) (r : abq_ret) (s' : list Z) : Prop :=
  match o, r with
  | OpEnq v, RNil => spec_enq cap s v = Some s'
  | OpDeq, RVal x => spec_deq s = Some (s', x)
  | OpEnq _, RCtx => s' = s
  | OpDeq, RCtx => s' = s
  | OpLen, RLen n => s' = s /\ n = Z.of_nat (length s)
  | OpSlice, RSlice l => s' = s /\ l = s
  | _, _ => False
  end.

Definition abq_late (o : abq_op) (r : abq_ret) : Prop :=
  match o, r with
  | OpEnq _, RCtx => True
  | OpDeq, RCtx => True
  | OpLen, RLen _ => True
  | OpSlice, RSlice _ => True
  | _, _ => False
  end.

Notation atev := (tev abq_op abq_ret).

(* the responses among the observations of a step *)
Definition abq_rets (o : list (tid * abq_obs)) : list atev :=
  flat_map (fun x => match snd x with ORet r => [TRet (fst x) r] | _ => [] end) o.

(* the history events of one event of the run (newest first) *)
Definition abq_hev (c : abq_cfg) (e : abq_ev) (o : list (tid * abq_obs)) : list atev :=
  match e with
  | ACall t op => [TCall t op]
  | AStep t =>
    abq_rets o ++
    match lin_of c e with
    | Some (LinEnq v) => [TLin t (OpEnq v) RNil]
    | Some LinDeq => [TLin t OpDeq (RVal (dget (q_data c) (q_head c)))]
    | None => []
    end
  | ACancel _ => []
  end.

(* the run, with the history collected *)
Definition abq_hstep (ch : abq_cfg * list atev) (e : abq_ev) : option (abq_cfg * list atev) :=
  match abq_exec1 (fst ch) e with
  | Some (c', o) => Some (c', abq_hev (fst ch) e o ++ snd ch)
  | None => None
  end.

Definition abq_ghost (cap : Z) (evs : list abq_ev) : list atev :=
  match exec abq_hstep (abq_init cap, []) evs with Some (_, h) => h | None => [] end.

(* the visible history of a run: chronological, calls numbered (thread, k) *)
Definition abq_history (cap : Z) (evs : list abq_ev) : list (event opid abq_op abq_ret) :=
  vnumber (abq_ghost cap evs).

Lemma abq_hstep_next ch e ch' : abq_hstep ch e = Some ch' -> abq_next (fst ch) e = Some (fst ch').
Proof.
  unfold abq_hstep, abq_next. destruct (abq_exec1 (fst ch) e) as [[c' o]|]; [|discriminate].
  intros H. injection H as <-. reflexivity.
Qed.

Lemma abq_hexec_total evs : forall c h c',
  exec abq_next c evs = Some c' -> exists h', exec abq_hstep (c, h) evs = Some (c', h').
Proof.
  induction evs as [|e evs IH]; intros c h c' H; cbn [exec] in *.
  - injection H as <-. eauto.
  - unfold abq_next in H. unfold abq_hstep at 1. cbn [fst snd].
    destruct (abq_exec1 c e) as [[c1 o]|]; [|discriminate]. apply IH, H.
Qed.

(* ---------- phases of the calls in flight ---------- *)
Definition thr_phase (th : abq_thr) : tphase abq_op abq_ret :=
  match t_pc th with
  | EAcq | EPark | EIfErr | ERetErr | ELock | EDefer | EIfCtx | ERelE | ERetCtx | EWrite =>
    TCalled (OpEnq (t_val th))
  | ETailInc | ECountInc | EIfTail | ETailZero | ERelD | ERetNil => TLinned (OpEnq (t_val th)) RNil
  | DAcq | DPark | DIfErr | DRetErr | DLock | DDefer | DIfCtx | DRelD | DRetCtx | DRead => TCalled OpDeq
  | DZero | DHeadInc | DCountDec | DIfHead | DHeadZero | DRelE | DRetOk => TLinned OpDeq (RVal (t_val th))
  | LRLock | LDefer | LRet => TCalled OpLen
  | SRLock | SDefer | SMake | SCnt | SCap | SFor | SIndex | SAppend | SCntInc | SRet => TCalled OpSlice
  end.

Definition look_phase (x : option abq_thr) : tphase abq_op abq_ret :=
  match x with Some th => thr_phase th | None => TIdle end.
Definition cfg_phase (c : abq_cfg) (t : tid) : tphase abq_op abq_ret := look_phase (lookup t (q_thr c)).

Lemma abq_rets_app a b : abq_rets (a ++ b) = abq_rets a ++ abq_rets b.
Proof. unfold abq_rets. apply flat_map_app. Qed.

Lemma abq_rets_obs_at p ws : abq_rets (obs_at p ws) = [].
Proof. induction ws as [|w r IH]; [reflexivity|exact IH]. Qed.

(* waking parked threads does not change anybody's phase *)
Lemma wake_phase p pp ws :
  (forall th, t_pc th = pp \/ t_pc th = p -> thr_phase (woken th p) = thr_phase th) ->
  forall l : list (tid * abq_thr),
    (forall w th, In w ws -> lookup w l = Some th -> t_pc th = pp \/ t_pc th = p) ->
    forall x, look_phase (lookup x (wake p ws l)) = look_phase (lookup x l).
Proof.
  intros Hp. induction ws as [|w r IH]; intros l Hws x; cbn [wake]; [reflexivity|].
  destruct (lookup w l) as [thw|] eqn:Hw.
  - rewrite IH.
    + destruct (Nat.eq_dec x w) as [->|Hne].
      * rewrite (lookup_update_same _ _ _ _ _ Hw), Hw. cbn [look_phase]. apply Hp. eapply Hws; [left; reflexivity|exact Hw].
      * rewrite (lookup_update_other _ _ _ _ _ Hne). reflexivity.
    + intros w' th Hin Hl'. destruct (Nat.eq_dec w' w) as [->|Hne].
      * rewrite (lookup_update_same _ _ _ _ _ Hw) in Hl'. injection Hl' as <-. right. reflexivity.
      * rewrite (lookup_update_other _ _ _ _ _ Hne) in Hl'. eapply Hws; [right; exact Hin|exact Hl'].
  - apply IH. intros w' th Hin. apply Hws. right. exact Hin.
Qed.

Lemma wake_phase_e (l : list (tid * abq_thr)) ws :
  (forall w, In w ws -> parked_at EPark l w) ->
  forall x, look_phase (lookup x (wake EIfErr ws l)) = look_phase (lookup x l).
Proof.
  intros H. apply (wake_phase EIfErr EPark).
  - intros th [E|E]; unfold thr_phase; cbn; rewrite E; reflexivity.
  - intros w th Hin Hl. destruct (H w Hin) as [th' [E1 E2]]. rewrite Hl in E1. injection E1 as <-. auto.
Qed.

Lemma wake_phase_d (l : list (tid * abq_thr)) ws :
  (forall w, In w ws -> parked_at DPark l w) ->
  forall x, look_phase (lookup x (wake DIfErr ws l)) = look_phase (lookup x l).
Proof.
  intros H. apply (wake_phase DIfErr DPark).
  - intros th [E|E]; unfold thr_phase; cbn; rewrite E; reflexivity.
  - intros w th Hin Hl. destruct (H w Hin) as [th' [E1 E2]]. rewrite Hl in E1. injection E1 as <-. auto.
Qed.

Lemma wake_lookup_same p ws : forall (l : list (tid * abq_thr)) t,
  ~ In t ws -> lookup t (wake p ws l) = lookup t l.
Proof.
  induction ws as [|w r IH]; intros l t Hn; cbn [wake]; [reflexivity|].
  assert (Hne : t <> w) by (intros ->; apply Hn; left; reflexivity).
  assert (Hr : ~ In t r) by (intros H; apply Hn; right; exact H).
  destruct (lookup w l); rewrite IH by exact Hr; [apply lookup_update_other, Hne|reflexivity].
Qed.

(* the threads a Release wakes were waiting *)
Lemma sem_notify_incl size : forall ws cur c' rem wk,
  sem_notify size cur ws = (c', rem, wk) -> incl wk ws.
Proof.
  induction ws as [|w r IH]; intros cur c' rem wk H; cbn [sem_notify] in H.
  - injection H as _ _ <-. intros x [].
  - destruct (size - cur <? 1).
    + injection H as _ _ <-. intros x [].
    + destruct (sem_notify size (cur + 1) r) as [[c1 rem1] wk1] eqn:E. injection H as _ _ <-.
      intros x [<-|Hx]; [left; reflexivity|right; eapply IH; eauto].
Qed.

Lemma sem_release_incl s s' wk : sem_release s = Some (s', wk) -> incl wk (s_wait s).
Proof.
  unfold sem_release. destruct (s_cur s - 1 <? 0); [discriminate|].
  destruct (sem_notify (s_size s) (s_cur s - 1) (s_wait s)) as [[c1 rem] wk1] eqn:E.
  intros H. injection H as _ <-. eapply sem_notify_incl; eauto.
Qed.

(* ---------- one step of a thread: phases and specification ---------- *)
(* the events of thread t take its phase from p to p' *)
Definition step_adv (t : tid) (p : tphase abq_op abq_ret) (evs : list atev) (p' : tphase abq_op abq_ret) : Prop :=
  match evs with
  | [] => p' = p
  | [ev] => tev_tid ev = t /\ tadvance abq_late p ev p'
  | _ => False
  end.

Lemma abq_rets_cons x l :
  abq_rets (x :: l) = match snd x with ORet r => [TRet (fst x) r] | _ => [] end ++ abq_rets l.
Proof. reflexivity. Qed.

Lemma abq_step_phase cap c t th c' o :
  1 <= cap -> abq_inv cap c -> lookup t (q_thr c) = Some th -> abq_step c t th = Some (c', o) ->
  (forall x, x <> t -> cfg_phase c' x = cfg_phase c x) /\
  step_adv t (thr_phase th) (abq_hev c (AStep t) o) (cfg_phase c' t).
Proof.
  intros Hcap I Hl Hs. inv_facts I c.
  pose proof (Ithr t th Hl) as Hth.
  assert (Hnp : ~ In (t, OPanic) o).
  { apply (abq_no_panic_inv cap Hcap c (AStep t) c' o t I). cbn [abq_exec1]. rewrite Hl. exact Hs. }
  assert (We : forall wk, incl wk (s_wait (q_enq c)) ->
                forall x, look_phase (lookup x (wake EIfErr wk (q_thr c))) = look_phase (lookup x (q_thr c))).
  { intros wk Hi. apply wake_phase_e. intros w Hw. apply Iew, Hi, Hw. }
  assert (Wd : forall wk, incl wk (s_wait (q_deq c)) ->
                forall x, look_phase (lookup x (wake DIfErr wk (q_thr c))) = look_phase (lookup x (q_thr c))).
  { intros wk Hi. apply wake_phase_d. intros w Hw. apply Idw, Hi, Hw. }
  unfold abq_hev, lin_of. rewrite Hl.
  destruct th as [pc v err can res cnt capv idx lin].
  unfold abq_step in Hs; unfold thr_ok in Hth; cbn [t_pc t_val t_err t_can t_lin t_res t_cnt t_capv t_idx] in *.
  destruct pc; try discriminate Hs.
  all: assert (Hnine : ~ In t (s_wait (q_enq c))) by (apply (waiters_ok_not_in EPark _ _ _ _ Hl); [cbn; discriminate|exact Iew]).
  all: assert (Hnind : ~ In t (s_wait (q_deq c))) by (apply (waiters_ok_not_in DPark _ _ _ _ Hl); [cbn; discriminate|exact Idw]).
  all: try match type of Hs with
           | context [sem_acquire _ _ (q_enq _)] =>
             destruct (sem_acquire_cases _ _ t can Hcap Ienq Hnine) as [[Hf [Wn R]]|[Hs0 [Hc R]]]; rewrite R in Hs; clear R
           | context [sem_acquire _ _ (q_deq _)] =>
             destruct (sem_acquire_cases _ _ t can Hcap Ideq Hnind) as [[Hf [Wn R]]|[Hs0 [Hc R]]]; rewrite R in Hs; clear R
           end.
  all: repeat match type of Hs with
           | context [sem_release ?a] =>
             let R := fresh "R" in destruct (sem_release a) as [[s' wk]|] eqn:R; [apply sem_release_incl in R|]
           | context [if ?b then _ else _] => destruct b eqn:?
           end.
  all: unfold goto, finish, panic_w, panic_r, add_obs in Hs; cbn [wake obs_at map app] in Hs; try discriminate Hs.
  all: injection Hs as <- <-.
  all: split;
    [ intros x Hne; unfold cfg_phase; proj_simpl;
      rewrite ?(lookup_update_other _ _ _ _ _ Hne), ?(abq_lookup_remove_other _ _ _ Hne);
      first [reflexivity | apply We; assumption | apply Wd; assumption]
    | ].
  all: unfold cfg_phase, step_adv; proj_simpl; rewrite ?abq_rets_app, ?abq_rets_cons, ?abq_rets_obs_at; cbn [snd fst app].
  all: try (exfalso; apply Hnp; left; reflexivity).
  all: try match goal with
           | R : incl ?wk (s_wait (q_enq _)) |- _ =>
             rewrite (lookup_update_same _ _ _ _ _ (eq_trans (wake_lookup_same _ wk _ t (fun Hin => Hnine (R t Hin))) Hl))
           | R : incl ?wk (s_wait (q_deq _)) |- _ =>
             rewrite (lookup_update_same _ _ _ _ _ (eq_trans (wake_lookup_same _ wk _ t (fun Hin => Hnind (R t Hin))) Hl))
           end.
  all: rewrite ?(lookup_update_same _ _ _ _ _ Hl), ?(abq_lookup_remove_same t _ Ind).
  all: cbn.
  all: try reflexivity.
  all: try discriminate (proj1 Hth).
  all: split; [reflexivity|].
  all: first [apply ta_lin | apply ta_ret | (apply ta_late; exact Logic.I)].
Qed.

(* what the emitted events mean for the abstract queue: a marked step changes it as the
   specification says, a response of a call without marked step is allowed by the specification
   in the current state and changes nothing, everything else changes nothing *)
Definition step_rel (cap : Z) (c : abq_cfg) (p : tphase abq_op abq_ret) (evs : list atev) (c' : abq_cfg) : Prop :=
  match evs with
  | [] => abq_abs c' = abq_abs c
  | [TCall _ _] => abq_abs c' = abq_abs c
  | [TLin _ o r] => abq_rel cap (abq_abs c) o r (abq_abs c')
  | [TRet _ r] => abq_abs c' = abq_abs c /\
                  forall o, p = TCalled o -> abq_rel cap (abq_abs c) o r (abq_abs c)
  | _ => False
  end.

Lemma abq_step_rel cap c t th c' o :
  1 <= cap -> abq_inv cap c -> lookup t (q_thr c) = Some th -> abq_step c t th = Some (c', o) ->
  step_rel cap c (thr_phase th) (abq_hev c (AStep t) o) c'.
Proof.
  intros Hcap I Hl Hs. inv_facts I c.
  pose proof (Ithr t th Hl) as Hth.
  assert (Hex : abq_exec1 c (AStep t) = Some (c', o)) by (cbn [abq_exec1]; rewrite Hl; exact Hs).
  pose proof (abq_no_panic_inv cap Hcap c (AStep t) c' o t I Hex) as Hnp.
  pose proof (proj2 (abq_inv_exec1 cap c (AStep t) c' o Hcap I Hex)) as Habs.
  unfold ev_abs in Habs. rewrite Hl in Habs. unfold step_abs in Habs.
  pose proof (fun r => abq_return_inv cap Hcap c t th c' o r I Hl Hs) as Hret. unfold ret_ok in Hret.
  clear Hex.
  unfold abq_hev, lin_of. rewrite Hl.
  destruct th as [pc v err can res cnt capv idx lin].
  unfold abq_step in Hs; unfold thr_ok in Hth; cbn [t_pc t_val t_err t_can t_lin t_res t_cnt t_capv t_idx] in *.
  destruct pc; try discriminate Hs.
  all: assert (Hnine : ~ In t (s_wait (q_enq c))) by (apply (waiters_ok_not_in EPark _ _ _ _ Hl); [cbn; discriminate|exact Iew]).
  all: assert (Hnind : ~ In t (s_wait (q_deq c))) by (apply (waiters_ok_not_in DPark _ _ _ _ Hl); [cbn; discriminate|exact Idw]).
  all: try match type of Hs with
           | context [sem_acquire _ _ (q_enq _)] =>
             destruct (sem_acquire_cases _ _ t can Hcap Ienq Hnine) as [[Hf [Wn R]]|[Hs0 [Hc R]]]; rewrite R in Hs; clear R
           | context [sem_acquire _ _ (q_deq _)] =>
             destruct (sem_acquire_cases _ _ t can Hcap Ideq Hnind) as [[Hf [Wn R]]|[Hs0 [Hc R]]]; rewrite R in Hs; clear R
           end.
  all: repeat match type of Hs with
           | context [sem_release ?a] =>
             let R := fresh "R" in destruct (sem_release a) as [[s' wk]|] eqn:R; [apply sem_release_incl in R|]
           | context [if ?b then _ else _] => destruct b eqn:?
           end.
  all: unfold goto, finish, panic_w, panic_r, add_obs in Hs; cbn [wake obs_at map app] in Hs; try discriminate Hs.
  all: injection Hs as <- <-.
  all: try (exfalso; apply Hnp; left; reflexivity).
  all: unfold step_rel; rewrite ?abq_rets_app, ?abq_rets_cons, ?abq_rets_obs_at; cbn [snd fst app abq_rets flat_map].
  all: try exact (proj1 Habs).
  all: try discriminate (proj1 Hth).
  all: try (split; [exact (proj1 Habs)|]; intros o0 Eo; cbn in Eo; try discriminate Eo; injection Eo as <-; cbn [abq_rel];
            first [ reflexivity
                  | (split; [reflexivity|]; exact (proj2 (Hret _ (or_introl eq_refl)))) ]).
  (* DRead *)
  destruct Habs as [x [Hsp [th' [Hlk [Hv _]]]]]. cbn [abq_rel].
  revert Hlk. proj_simpl. rewrite (lookup_update_same _ _ _ _ _ Hl). intros Hlk. injection Hlk as <-.
  cbn in Hv. subst x. exact Hsp.
Qed.

(* ---------- every event of the run ---------- *)
Definition abq_ev_tid (e : abq_ev) : tid := match e with ACall t _ | AStep t | ACancel t => t end.

Lemma abq_event_facts cap c e c' o :
  1 <= cap -> abq_inv cap c -> abq_exec1 c e = Some (c', o) ->
  (forall x, x <> abq_ev_tid e -> cfg_phase c' x = cfg_phase c x) /\
  step_adv (abq_ev_tid e) (cfg_phase c (abq_ev_tid e)) (abq_hev c e o) (cfg_phase c' (abq_ev_tid e)) /\
  step_rel cap c (cfg_phase c (abq_ev_tid e)) (abq_hev c e o) c'.
Proof.
  intros Hcap I Hs. destruct e as [t op|t|t]; cbn [abq_ev_tid].
  - (* CALL *)
    pose proof (proj2 (abq_call_inv cap c t op c' o Hcap I Hs)) as [Habs _].
    cbn [abq_exec1] in Hs. destruct (lookup t (q_thr c)) as [x|] eqn:Hl; [discriminate|]. injection Hs as <- <-.
    unfold cfg_phase. cbn [abq_hev step_adv step_rel]. proj_simpl. split; [|split].
    + intros x Hne. rewrite abq_lookup_spawn. apply Nat.eqb_neq in Hne. rewrite Hne.
      destruct (lookup x (q_thr c)); reflexivity.
    + rewrite abq_lookup_spawn, Hl, Nat.eqb_refl. cbn [look_phase tev_tid]. split; [reflexivity|].
      destruct op; constructor.
    + exact Habs.
  - (* STEP *)
    cbn [abq_exec1] in Hs. destruct (lookup t (q_thr c)) as [th|] eqn:Hl; [|discriminate].
    assert (Ec : cfg_phase c t = thr_phase th) by (unfold cfg_phase; rewrite Hl; reflexivity). rewrite Ec.
    destruct (abq_step_phase cap c t th c' o Hcap I Hl Hs) as [HA HB].
    split; [exact HA|]. split; [exact HB|]. exact (abq_step_rel cap c t th c' o Hcap I Hl Hs).
  - (* CANCEL *)
    pose proof (proj2 (abq_cancel_inv cap c t c' o Hcap I Hs)) as [Habs _].
    cbn [abq_hev step_adv step_rel]. split; [|split; [|exact Habs]].
    all: inv_facts I c.
    all: cbn [abq_exec1] in Hs; destruct (lookup t (q_thr c)) as [th|] eqn:Hl; [|discriminate].
    all: destruct (t_can th); [discriminate|].
    all: unfold cfg_phase.
    all: destruct th as [pc v err can res cnt capv idx lin]; cbn [t_pc] in Hs.
    all: destruct pc; unfold cancel_parked in Hs;
      rewrite ?(sem_cancel_ok _ _ t Ienq), ?(sem_cancel_ok _ _ t Ideq), ?wake_nil in Hs; injection Hs as <- _; proj_simpl.
    all: try (intros x Hne; rewrite (lookup_update_other _ _ _ _ _ Hne); reflexivity).
    all: rewrite (lookup_update_same _ _ _ _ _ Hl), Hl; reflexivity.
Qed.

(* ---------- the invariant of the run with its history ---------- *)
Record abq_hinv (cap : Z) (ch : abq_cfg * list atev) : Prop := {
  hi_inv : abq_inv cap (fst ch);
  hi_ph : forall t, tphase_of abq_late t (snd ch) (cfg_phase (fst ch) t);
  hi_leg : legal (abq_rel cap) [] (treplay (snd ch)) (abq_abs (fst ch))
}.

Lemma abq_hinv_init cap : 1 <= cap -> abq_hinv cap (abq_init cap, []).
Proof.
  intros Hcap. constructor; cbn [fst snd].
  - apply abq_inv_init, Hcap.
  - intros t. constructor.
  - unfold abq_abs, abs_len, abs_head. cbn. constructor.
Qed.

Lemma abq_hinv_step cap ch e ch' :
  1 <= cap -> abq_hinv cap ch -> abq_hstep ch e = Some ch' -> abq_hinv cap ch'.
Proof.
  intros Hcap [I Hph Hleg] Hs. destruct ch as [c h]. cbn [fst snd] in *.
  unfold abq_hstep in Hs. cbn [fst snd] in Hs.
  destruct (abq_exec1 c e) as [[c' o]|] eqn:He; [|discriminate]. injection Hs as <-.
  destruct (abq_event_facts cap c e c' o Hcap I He) as (HA & HB & HC).
  pose proof (Hph (abq_ev_tid e)) as Hpt. pose proof (pending_phase _ _ _ _ _ _ Hpt) as Hpd.
  set (t := abq_ev_tid e) in *. set (E := abq_hev c e o) in *.
  constructor; cbn [fst snd].
  - exact (proj1 (abq_inv_exec1 cap c e c' o Hcap I He)).
  - intros x. destruct E as [|ev [|ev2 E]]; cbn [step_adv app] in *; [| |contradiction].
    + destruct (Nat.eq_dec x t) as [->|Hne]; [rewrite HB; exact Hpt|rewrite (HA x Hne); apply Hph].
    + destruct HB as [Et Hadv]. destruct (Nat.eq_dec x t) as [->|Hne].
      * eapply tp_own; [exact Et|exact Hpt|exact Hadv].
      * apply tp_other; [rewrite Et; auto|]. rewrite (HA x Hne). apply Hph.
  - destruct E as [|ev [|ev2 E]]; cbn [step_adv step_rel app treplay] in *.
    + rewrite HC. exact Hleg.
    + destruct HB as [Et Hadv]. destruct ev as [t' op|t' op r|t' r]; cbn [treplay1 tev_tid] in *.
      * rewrite app_nil_r, HC. exact Hleg.
      * eapply legal_snoc; [exact Hleg|exact HC].
      * subst t'. destruct HC as [Habs Hrel]. rewrite Hpd, Habs.
        destruct (cfg_phase c t) as [|op|op r0]; [rewrite app_nil_r; exact Hleg| |rewrite app_nil_r; exact Hleg].
        eapply legal_snoc; [exact Hleg|]. apply Hrel. reflexivity.
    + destruct ev; contradiction.
Qed.

Lemma abq_hinv_reachable cap evs ch :
  1 <= cap -> exec abq_hstep (abq_init cap, []) evs = Some ch -> abq_hinv cap ch.
Proof.
  intros Hcap H.
  apply (invariant_reachable _ _ abq_hstep (abq_hinv cap)) with (evs := evs) (c := (abq_init cap, [])).
  - intros c0 e c1 I0 Hn. exact (abq_hinv_step cap c0 e c1 Hcap I0 Hn).
  - apply abq_hinv_init, Hcap.
  - exact H.
Qed.

Lemma abq_witness_lemma cap evs c :
  1 <= cap -> exec abq_next (abq_init cap) evs = Some c ->
  hist_wf fst (abq_history cap evs) /\
  linearization_of (abq_rel cap) [] (abq_history cap evs) (abq_abs c) (twitness (abq_ghost cap evs)).
Proof.
  intros Hcap He. destruct (abq_hexec_total evs _ [] _ He) as [h Hh].
  unfold abq_history, abq_ghost. rewrite Hh.
  destruct (abq_hinv_reachable cap evs (c, h) Hcap Hh) as [_ Hph Hleg]. cbn [fst snd] in *.
  assert (W : twf abq_late h) by (intros t; eexists; apply Hph).
  split.
  - exact (proj1 (tagged_textbook (abq_rel cap) abq_late [] _ _ W Hleg)).
  - exact (tagged_textbook_witness _ _ _ (abq_rel cap) abq_late [] _ _ W Hleg).
Qed.

Lemma abq_textbook_lemma cap evs c :
  1 <= cap -> exec abq_next (abq_init cap) evs = Some c ->
  hist_wf fst (abq_history cap evs) /\
  linearizable_to (abq_rel cap) [] (abq_history cap evs) (abq_abs c).
Proof.
  intros Hcap He. destruct (abq_witness_lemma cap evs c Hcap He) as [H1 H2].
  split; [exact H1|]. eapply linearization_of_linearizable, H2.
Qed.

(* the history collected here is the run's: its invocations are the CALL events, its responses
   the observed returns, in order (the marked steps are erased by [vnumber]) *)
Lemma abq_hev_visible c e o :
  filter (tvis abq_op abq_ret) (abq_hev c e o) =
  match e with ACall t op => [TCall t op] | AStep _ => abq_rets o | ACancel _ => [] end.
Proof.
  destruct e as [t op|t|t]; cbn [abq_hev]; [reflexivity| |reflexivity].
  rewrite filter_app.
  assert (E1 : filter (tvis abq_op abq_ret) (abq_rets o) = abq_rets o).
  { unfold abq_rets. induction o as [|[x ob] o IH]; [reflexivity|].
    cbn [flat_map snd fst]. rewrite filter_app, IH. destruct ob; reflexivity. }
  rewrite E1. destruct (lin_of c (AStep t)) as [[v|]|]; cbn; apply app_nil_r.
Qed.
