(* Instances of lib/Linz.v, part 2: ConcurrentLinkedBlockingQueue (model/LBQModel.v).

   The ghost history [q_hist] (NEWEST first) records HCall / HLin / HRet; proof/LBQProof4.v proves, for
   every reachable configuration, [lin_run m (q_hist c) = Some (q_items c)] (the marked steps replay
   through the bounded blocking FIFO specification [lbq_spec m]) and [phase t (q_hist c) = Some _]
   (per thread: (Call o . Lin o r . Ret r | Call o . Ret ctx-error)* ).
   A call that returns the context's error has no marked step.  In the textbook form such a call
   must still appear in the sequential history; the sequential specification [lbq_rel m] therefore
   is the blocking FIFO specification PLUS "Enqueue / Dequeue may return the context's error and
   leave the queue unchanged" (in any state), and the call is linearised at its response. *)
From Ekit Require Import Common Conc Linz LBQModel LBQProof LBQProof2 LBQProof3 LBQProof4.
From Coq Require Import Arith PeanoNat.

(* the sequential specification as a relation *)
Definition lbq_rel (m : Z) (s : list Z) (o : lbq_op) (r : lbq_res) (s' : list Z) : Prop :=
  lbq_spec m o s = Some (s', r) \/ (is_qop o = true /\ r = RCtx /\ s' = s).

Definition lbq_late (o : lbq_op) (r : lbq_res) : Prop := is_qop o = true /\ r = RCtx.

Definition lbq_conv (e : lbq_hev) : tev lbq_op lbq_res :=
  match e with
  | HCall t o => TCall t o
  | HLin t o r => TLin t o r
  | HRet t r => TRet t r
  end.

Definition lbq_tagged (h : list lbq_hev) : list (tev lbq_op lbq_res) := map lbq_conv h.

(* the visible history: chronological, calls numbered (thread, k) *)
Definition lbq_history (h : list lbq_hev) : list (event opid lbq_op lbq_res) := vnumber (lbq_tagged h).

Definition lbq_tphase (p : lbq_phase) : tphase lbq_op lbq_res :=
  match p with PhIdle => TIdle | PhCalled o => TCalled o | PhLin o r => TLinned o r end.

Lemma lbq_op_eqb_eq a b : op_eqb a b = true -> a = b.
Proof.
  destruct a, b; cbn; try discriminate; try reflexivity.
  intros H. apply Z.eqb_eq in H. subst. reflexivity.
Qed.

Lemma lbq_conv_tid e : tev_tid (lbq_conv e) = hev_tid e.
Proof. destruct e; reflexivity. Qed.

Lemma lbq_advance p e p' :
  advance p e = Some p' -> tadvance lbq_late (lbq_tphase p) (lbq_conv e) (lbq_tphase p').
Proof.
  destruct p as [|o|o r], e as [t o'|t o' r'|t r']; cbn [advance lbq_conv lbq_tphase]; try discriminate.
  - intros H. injection H as <-. constructor.
  - destruct (op_eqb o o') eqn:E; [|discriminate]. apply lbq_op_eqb_eq in E. subst o'.
    intros H. injection H as <-. constructor.
  - destruct r'; try discriminate. destruct (is_qop o) eqn:E; [|discriminate].
    intros H. injection H as <-. apply ta_late. split; [exact E|reflexivity].
  - destruct (res_eqb r r') eqn:E; [|discriminate]. apply res_eqb_eq in E. subst r'.
    intros H. injection H as <-. constructor.
Qed.

Lemma lbq_phase_tphase t h p :
  phase t h = Some p -> tphase_of lbq_late t (lbq_tagged h) (lbq_tphase p).
Proof.
  revert p. induction h as [|e h IH]; intros p H; cbn [phase] in H.
  - injection H as <-. constructor.
  - destruct (phase t h) as [p1|] eqn:E; [|discriminate]. cbn [lbq_tagged map].
    destruct (Nat.eqb (hev_tid e) t) eqn:Et.
    + apply Nat.eqb_eq in Et. eapply tp_own; [rewrite lbq_conv_tid; exact Et|apply IH; reflexivity|].
      apply lbq_advance, H.
    + apply Nat.eqb_neq in Et. injection H as <-. apply tp_other; [rewrite lbq_conv_tid; exact Et|].
      apply IH. reflexivity.
Qed.

Lemma lbq_phase_tail t e h : phase t (e :: h) <> None -> phase t h <> None.
Proof. intros H Hn. apply H. cbn [phase]. rewrite Hn. reflexivity. Qed.

(* (H2): the marked steps and the context-error responses replay through [lbq_rel] *)
Lemma lbq_replay_legal m h q :
  lin_run m h = Some q -> (forall t, phase t h <> None) ->
  legal (lbq_rel m) [] (treplay (lbq_tagged h)) q.
Proof.
  revert q. induction h as [|e h IH]; intros q Hl Hp; cbn [lin_run] in Hl.
  - injection Hl as <-. constructor.
  - destruct (lin_run m h) as [q1|] eqn:El; [|discriminate].
    assert (Hp' : forall t, phase t h <> None) by (intros t; eapply lbq_phase_tail, Hp).
    specialize (IH q1 eq_refl Hp').
    cbn [lbq_tagged map treplay]. fold (lbq_tagged h).
    destruct e as [t o|t o r|t r]; cbn [lbq_conv treplay1].
    + injection Hl as <-. rewrite app_nil_r. exact IH.
    + destruct (lbq_spec m o q1) as [[q' r']|] eqn:Es; [|discriminate].
      destruct (res_eqb r r') eqn:Er; [|discriminate]. apply res_eqb_eq in Er. subst r'. injection Hl as <-.
      eapply legal_snoc; [exact IH|]. left. exact Es.
    + injection Hl as <-.
      (* the phase of t tells whether this response is a late one *)
      specialize (Hp t). cbn [phase hev_tid] in Hp. rewrite Nat.eqb_refl in Hp.
      destruct (phase t h) as [p1|] eqn:Ep; [|contradiction].
      pose proof (lbq_phase_tphase t h p1 Ep) as Htp.
      rewrite (pending_phase _ _ _ _ _ _ Htp).
      destruct p1 as [|o|o r0]; cbn [lbq_tphase].
      * rewrite app_nil_r. exact IH.
      * cbn [advance] in Hp. destruct r; try contradiction. destruct (is_qop o) eqn:Eq; [|contradiction].
        eapply legal_snoc; [exact IH|]. right. auto.
      * rewrite app_nil_r. exact IH.
Qed.

Lemma lbq_witness_lemma m evs c :
  exec lbq_step (lbq_init m) evs = Some c ->
  hist_wf fst (lbq_history (q_hist c)) /\
  linearization_of (lbq_rel m) [] (lbq_history (q_hist c)) (q_items c) (twitness (lbq_tagged (q_hist c))).
Proof.
  intros He. destruct (lbq_linearizable_lemma m evs c He) as [Hl Hp].
  assert (W : twf lbq_late (lbq_tagged (q_hist c))) by (intros t; eexists; apply lbq_phase_tphase, Hp).
  assert (L : legal (lbq_rel m) [] (treplay (lbq_tagged (q_hist c))) (q_items c)).
  { apply lbq_replay_legal; [exact Hl|]. intros t. rewrite Hp. discriminate. }
  split.
  - exact (proj1 (tagged_textbook (lbq_rel m) lbq_late [] _ _ W L)).
  - exact (tagged_textbook_witness _ _ _ (lbq_rel m) lbq_late [] _ _ W L).
Qed.

Lemma lbq_textbook_lemma m evs c :
  exec lbq_step (lbq_init m) evs = Some c ->
  hist_wf fst (lbq_history (q_hist c)) /\
  linearizable_to (lbq_rel m) [] (lbq_history (q_hist c)) (q_items c).
Proof.
  intros He. destruct (lbq_witness_lemma m evs c He) as [H1 H2].
  split; [exact H1|]. eapply linearization_of_linearizable, H2.
Qed.
