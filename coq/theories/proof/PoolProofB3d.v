(* PoolModel (pool.OnDemandBlockTaskPool), proofs for C12 / liveness side of C10 - B3d: goroutine ids: every worker (and the creator between `id := ...` and `go`) owns a
   distinct id in 1..idc; the timeout group's map only contains such ids.  Definitions, record, facts after a step *)
From Ekit Require Import Common Conc PoolModel PoolProofB0 PoolProofB1 PoolProofB2d.
From Coq Require Import ZifyBool Arith PeanoNat.

Definition g_wk (p : ppc) : Z :=
  match p with
  | WNewTimer | WStop0 | WDrain0 | WFor | WSelect | WParked
  | WCaseInt | WIntDec | WIdLock | WIdSub | WIdUnlock | WIntRet
  | WCaseTimer | WTmLock | WTmDecr | WTmLeft | WTmDel | TdLock | TdDefer | TdIf | TdDec | TdDelete
  | WTmUnlock | WTmIfLeft | WTmCas | WTmCancel | WTmRet
  | WCaseQueue | WIfIsIn | IiRLock | IiDefer | IiLookup | IiRet
  | WRcDel | RdLock | RdDefer | RdIf | RdDec | RdDelete | WStop1 | WDrain1 | WIfNotOk
  | WClDec | CdLock | CdSub | CdUnlock | WClIfNum | NgRLock | NgRead | NgRUnlock | NgRet
  | WClCas | WClCancel | WClRet
  | WRunInc | WRun | RwDefer | RwRet | TfRet | WUser | RwRecIf | RwBuf | RwStack | RwErr | WRunDec
  | WBkLock | WBkNoTasks | WBkIf1 | Z1RLock | Z1Defer | Z1Ret | WBkDecr | WBkUnlock1 | WBkRet
  | WBkIf2 | Z2RLock | Z2Defer | Z2Ret | WBkNewTimer | WBkAdd | GaLock | GaDefer | GaIf | GaSet | GaInc
  | WBkUnlock2 => 1
  | _ => 0 end.
Definition g_tsgo (p : ppc) : Z := match p with TsGo => 1 | _ => 0 end.
Definition g_own (p : ppc) : Z := match p with TsGo => 1 | _ => g_wk p end.
Definition g_spa (p : ppc) : Z :=
  match p with StN | NcN | NcAllow | NcNeed | NcIf1 | NcIf2 | NcAddNeed | NcAddAllow | NcRet | StInc | TiLock | TiAdd => 1 | _ => 0 end.

Definition own_is (X : Z) (x : thr) : Z := if l_wid x =? X then g_own (pc x) else 0.
Definition own_gt (B : Z) (x : thr) : Z := if B <? l_wid x then g_own (pc x) else 0.
Definition own_lt (B : Z) (x : thr) : Z := if l_wid x <? B then g_own (pc x) else 0.
Definition tsgo_inmp (mp : list Z) (x : thr) : Z := if zmem (l_wid x) mp then g_tsgo (pc x) else 0.
Arguments own_is X x /.
Arguments own_gt B x /.
Arguments own_lt B x /.
Arguments tsgo_inmp mp x /.

Lemma g_wk_nn p : 0 <= g_wk p. Proof. destruct p; cbn; lia. Qed.
Lemma g_tsgo_nn p : 0 <= g_tsgo p. Proof. destruct p; cbn; lia. Qed.
Lemma g_own_nn p : 0 <= g_own p. Proof. destruct p; cbn; lia. Qed.
Lemma g_spa_nn p : 0 <= g_spa p. Proof. destruct p; cbn; lia. Qed.
Lemma own_is_nn X x : 0 <= own_is X x. Proof. cbn [own_is]. destruct (l_wid x =? X); [apply g_own_nn|lia]. Qed.
Lemma own_gt_nn X x : 0 <= own_gt X x. Proof. cbn [own_gt]. destruct (X <? l_wid x); [apply g_own_nn|lia]. Qed.
Lemma own_lt_nn X x : 0 <= own_lt X x. Proof. cbn [own_lt]. destruct (l_wid x <? X); [apply g_own_nn|lia]. Qed.
Lemma tsgo_inmp_nn mp x : 0 <= tsgo_inmp mp x.
Proof. cbn [tsgo_inmp]. destruct (zmem (l_wid x) mp); [apply g_tsgo_nn|lia]. Qed.

Ltac wake_ok_tac :=
  let w := fresh "w" in let x := fresh "x" in let Hp := fresh "Hp" in
  intros w; destruct w as [|? ?| |]; cbn [wake_ok]; try exact I; intros x Hp;
  destruct x as [p ? ? ? ? ? ? ? ? ? ? ? ? ? ? ? ? ? ?]; unfold is_parked in Hp; cbn [pc] in Hp;
  destruct p; try discriminate Hp; reflexivity.
Lemma own_is_wake X : forall w, wake_ok (own_is X) w. Proof. wake_ok_tac. Qed.
Lemma own_gt_wake X : forall w, wake_ok (own_gt X) w. Proof. wake_ok_tac. Qed.
Lemma own_lt_wake X : forall w, wake_ok (own_lt X) w. Proof. wake_ok_tac. Qed.
Lemma tsgo_inmp_wake mp : forall w, wake_ok (tsgo_inmp mp) w. Proof. wake_ok_tac. Qed.

Record invW (c : pcfg) : Prop := {
  w_idc0 : 0 <= s_idc (c_sh c);
  w_idc1 : bz (0 <? s_idc (c_sh c)) <= bz (g_began (c_gh c));
  w_idc2 : bz (0 <? s_idc (c_sh c)) + tsum (pcf g_spa) (c_thr c) <= 1;
  w_gt : tsum (own_gt (s_idc (c_sh c))) (c_thr c) = 0;
  w_lt : tsum (own_lt 1) (c_thr c) = 0;
  w_uniq : forall X, tsum (own_is X) (c_thr c) <= 1;
  w_mp : forall a, In a (s_mp (c_sh c)) -> 1 <= a <= s_idc (c_sh c);
  w_tsgo : tsum (tsgo_inmp (s_mp (c_sh c))) (c_thr c) = 0
}.

Lemma invW_init P : invW (pinit P).
Proof. constructor; cbn; try lia; try reflexivity; intros; try lia; tauto. Qed.

(* ---------- membership in the group's map; changes of the map at one's own id ---------- *)
Lemma zmem_in a l : zmem a l = true <-> In a l.
Proof. induction l as [|b r IH]; cbn; [split; [discriminate|tauto]|]. rewrite Bool.orb_true_iff, IH, Z.eqb_eq. split; intros [H|H]; auto. Qed.
Lemma zremove_in a b l : In a (zremove b l) -> In a l.
Proof. induction l as [|x r IH]; cbn; [tauto|]. destruct (b =? x); cbn; tauto. Qed.
Lemma zmem_zremove_other a b l : a <> b -> zmem a (zremove b l) = zmem a l.
Proof.
  intros H. induction l as [|x r IH]; cbn; [reflexivity|]. destruct (b =? x) eqn:E.
  - rewrite IH. assert (a =? x = false) by lia. rewrite H0. reflexivity.
  - cbn. rewrite IH. reflexivity.
Qed.
Lemma zmem_cons_other a b l : a <> b -> zmem a (b :: l) = zmem a l.
Proof. intros H. cbn. assert (a =? b = false) by lia. rewrite H0. reflexivity. Qed.

(* a change of the map at the stepping thread's own id does not affect anybody else's classification *)
Lemma zmem_frame (F : list Z -> thr -> Z) mp mp' l t th :
  lookup t l = Some th -> g_own (pc th) = 1 -> tsum (own_is (l_wid th)) l <= 1 ->
  (forall a, a <> l_wid th -> zmem a mp' = zmem a mp) ->
  (forall y, zmem (l_wid y) mp' = zmem (l_wid y) mp -> F mp' y = F mp y) ->
  (forall y, g_own (pc y) = 0 -> F mp' y = F mp y) ->
  tsum (F mp') l - F mp' th = tsum (F mp) l - F mp th.
Proof.
  intros Hl Ho Hu Hz HF1 HF2.
  rewrite (tsum_remove (F mp') t th l Hl), (tsum_remove (F mp) t th l Hl).
  rewrite (tsum_remove _ t th l Hl) in Hu. cbn [own_is] in Hu. rewrite Z.eqb_refl, Ho in Hu.
  assert (Hr : tsum (own_is (l_wid th)) (remove t l) = 0).
  { pose proof (tsum_nonneg _ (remove t l) (own_is_nn (l_wid th))). lia. }
  assert (E : tsum (F mp') (remove t l) = tsum (F mp) (remove t l)); [|lia].
  clear Hu Hl. revert Hr. generalize (remove t l). intros r.
  induction r as [|[u y] r IH]; cbn [tsum]; [reflexivity|]. intros Hr.
  pose proof (own_is_nn (l_wid th) y). pose proof (tsum_nonneg _ r (own_is_nn (l_wid th))).
  rewrite IH by lia. f_equal.
  assert (Hy : own_is (l_wid th) y = 0) by lia. cbn [own_is] in Hy.
  destruct (l_wid y =? l_wid th) eqn:E.
  - apply HF2. exact Hy.
  - apply HF1, Hz. lia.
Qed.

Lemma zmem_cons_same a l : zmem a (a :: l) = true.
Proof. cbn. rewrite Z.eqb_refl. reflexivity. Qed.
Lemma zmem_zremove_same a l : zmem a (zremove a l) = false.
Proof.
  induction l as [|x r IH]; cbn; [reflexivity|]. destruct (a =? x) eqn:E; [exact IH|].
  cbn. rewrite E. exact IH.
Qed.
Definition invW_G (P : params) (g : ghost) (l : list (tid * thr)) (th : thr) (o : pout) : Prop :=
  ((0 <= s_idc (o_sh o)) /\
   (bz (0 <? s_idc (o_sh o)) <= bz (g_began (apply_gevs g (o_gev o)))) /\
   (bz (0 <? s_idc (o_sh o)) + upd (tsum (pcf g_spa) l) ((pcf g_spa) th) (oz (pcf g_spa) (o_th o)) (oz (pcf g_spa) (o_spawn o)) <= 1) /\
   (upd (tsum (own_gt (s_idc (o_sh o))) l) ((own_gt (s_idc (o_sh o))) th) (oz (own_gt (s_idc (o_sh o))) (o_th o)) (oz (own_gt (s_idc (o_sh o))) (o_spawn o)) = 0) /\
   (upd (tsum (own_lt 1) l) ((own_lt 1) th) (oz (own_lt 1) (o_th o)) (oz (own_lt 1) (o_spawn o)) = 0) /\
   (forall X, upd (tsum (own_is X) l) ((own_is X) th) (oz (own_is X) (o_th o)) (oz (own_is X) (o_spawn o)) <= 1) /\
   (forall a, In a (s_mp (o_sh o)) -> 1 <= a <= s_idc (o_sh o)) /\
   (upd (tsum (tsgo_inmp (s_mp (o_sh o))) l) ((tsgo_inmp (s_mp (o_sh o))) th) (oz (tsgo_inmp (s_mp (o_sh o))) (o_th o)) (oz (tsgo_inmp (s_mp (o_sh o))) (o_spawn o)) = 0)).

Lemma invW_of_G c t th o c' obs :
  lookup t (c_thr c) = Some th -> apply_out c t o = Some (c', obs) ->
  invW_G (c_par c) (c_gh c) (c_thr c) th o -> invW c'.
Proof.
  intros Hl Ha G. unfold invW_G in G. destruct (apply_out_fields _ _ _ _ _ Ha) as (Hp & Hsh & Hgh & Hnt).
  destruct G as (G0 & G1 & G2 & G3 & G4 & G5 & G6 & G7).
  constructor; intros; rewrite ?Hp, ?Hsh, ?Hgh in *;
    try rewrite (tsum_step (pcf g_spa) c t th o c' obs Hl ((pcf_wake_ok g_spa eq_refl eq_refl) (o_wake o)) Ha);
    try rewrite (tsum_step (own_gt (s_idc (o_sh o))) c t th o c' obs Hl ((own_gt_wake (s_idc (o_sh o))) (o_wake o)) Ha);
    try rewrite (tsum_step (own_lt 1) c t th o c' obs Hl ((own_lt_wake 1) (o_wake o)) Ha);
    try rewrite (tsum_step (own_is X) c t th o c' obs Hl ((own_is_wake X) (o_wake o)) Ha);
    try rewrite (tsum_step (tsgo_inmp (s_mp (o_sh o))) c t th o c' obs Hl ((tsgo_inmp_wake (s_mp (o_sh o))) (o_wake o)) Ha);
    first [assumption | solve [auto]].
Qed.
