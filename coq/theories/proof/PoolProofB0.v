(* PoolModel (pool.OnDemandBlockTaskPool), proofs for C12 / liveness side of C10 - B0: library: sums over the thread table, how one applied outcome changes a sum (frame lemma),
   the uniform description of an event, the case analysis of one step, controlled simplification *)
From Ekit Require Import Common Conc PoolModel.
From Coq Require Import ZifyBool Arith PeanoNat.

Notation b2z := Z.b2z.
(* booleans as numbers, opaque to lia (no ZifyBool instance: every boolean atom known to zify costs a case split) *)
Definition bz (b : bool) : Z := if b then 1 else 0.
Lemma bz_range b : 0 <= bz b <= 1. Proof. destruct b; cbn; lia. Qed.

Section Tsum.
  Variable f : thr -> Z.
  Fixpoint tsum (l : list (tid * thr)) : Z :=
    match l with [] => 0 | (_, x) :: r => f x + tsum r end.

  Lemma tsum_app l1 l2 : tsum (l1 ++ l2) = tsum l1 + tsum l2.
  Proof. induction l1 as [|[t x] r IH]; cbn [tsum app]; [lia|rewrite IH; lia]. Qed.

  Lemma tsum_spawn t x l : tsum (spawn t x l) = tsum l + f x.
  Proof. unfold spawn. rewrite tsum_app. cbn [tsum]. lia. Qed.

  Lemma tsum_remove t x l : lookup t l = Some x -> tsum l = f x + tsum (remove t l).
  Proof.
    induction l as [|[t' x'] r IH]; cbn [lookup remove tsum]; [discriminate|].
    destruct (Nat.eqb t t'); [intros H; injection H as ->; lia|].
    intros H. cbn [tsum]. rewrite (IH H). lia.
  Qed.

  Lemma tsum_update t x x0 l :
    lookup t l = Some x0 -> tsum (update t x l) = f x + tsum (remove t l).
  Proof.
    induction l as [|[t' x'] r IH]; cbn [lookup remove update tsum]; [discriminate|].
    destruct (Nat.eqb t t'); [intros _; cbn [tsum]; lia|].
    intros H. cbn [tsum]. rewrite (IH H). lia.
  Qed.

  Lemma tsum_wake_all (g : thr -> thr) l :
    (forall x, is_parked x = true -> f (g x) = f x) ->
    tsum (fst (wake_all g l)) = tsum l.
  Proof.
    intros Hg. induction l as [|[t x] r IH]; cbn [wake_all tsum fst]; [reflexivity|].
    destruct (wake_all g r) as [r' w] eqn:E. cbn [fst] in IH.
    destruct (is_parked x) eqn:Ep; cbn [fst tsum]; rewrite IH; [rewrite (Hg x Ep)|]; reflexivity.
  Qed.

  Lemma tsum_nonneg l : (forall x, 0 <= f x) -> 0 <= tsum l.
  Proof. intros H. induction l as [|[t x] r IH]; cbn [tsum]; [lia|specialize (H x); lia]. Qed.

  Lemma tsum_zero_lookup l t x :
    (forall y, 0 <= f y) -> tsum l = 0 -> lookup t l = Some x -> f x = 0.
  Proof.
    intros Hn Hz Hl. rewrite (tsum_remove t x l Hl) in Hz.
    pose proof (tsum_nonneg (remove t l) Hn). specialize (Hn x). lia.
  Qed.
End Tsum.

Lemma tsum_ext_in f g l :
  (forall t x, In (t, x) l -> f x = g x) -> tsum f l = tsum g l.
Proof.
  induction l as [|[t x] r IH]; intros H; cbn [tsum]; [reflexivity|].
  rewrite (H t x (or_introl eq_refl)), IH; [reflexivity|].
  intros t' x' Hin. apply (H t' x'). right; exact Hin.
Qed.

Lemma tsum_le f g l : (forall x, f x <= g x) -> tsum f l <= tsum g l.
Proof. intros H. induction l as [|[t x] r IH]; cbn [tsum]; [lia|specialize (H x); lia]. Qed.

Lemma tsum_nil_zero f : tsum f [] = 0. Proof. reflexivity. Qed.

(* what each kind of wake-up does to a parked worker must not change f *)
Definition wake_ok (f : thr -> Z) (w : wake) : Prop :=
  match w with
  | WkNone => True
  | WkRecv _ k => forall x, is_parked x = true -> f (recv_ok k x) = f x
  | WkClose => forall x, is_parked x = true -> f (recv_closed x) = f x
  | WkCancel => forall x, is_parked x = true -> f (recv_int x) = f x
  end.

Definition oz (f : thr -> Z) (o : option thr) : Z := match o with Some x => f x | None => 0 end.

(* the frame lemma: how one applied outcome changes a sum over the thread table *)
Lemma tsum_apply_out f c t th o c' obs :
  lookup t (c_thr c) = Some th ->
  wake_ok f (o_wake o) ->
  apply_out c t o = Some (c', obs) ->
  tsum f (c_thr c') = oz f (o_th o) + tsum f (remove t (c_thr c)) + oz f (o_spawn o).
Proof.
  intros Hl Hw. unfold apply_out.
  set (l1 := match o_th o with Some th' => update t th' (c_thr c) | None => remove t (c_thr c) end).
  assert (H1 : tsum f l1 = oz f (o_th o) + tsum f (remove t (c_thr c))).
  { subst l1. destruct (o_th o) as [th'|]; cbn [oz]; [apply (tsum_update f t th' th), Hl|lia]. }
  destruct (apply_wake (o_wake o) l1) as [[l2 woken]|] eqn:Ew; [|discriminate].
  assert (H2 : tsum f l2 = tsum f l1).
  { unfold apply_wake in Ew. destruct (o_wake o) as [|r k| |]; cbn [wake_ok] in Hw.
    - assert (E2 : l2 = l1) by congruence. rewrite E2. reflexivity.
    - destruct (lookup r l1) as [x|] eqn:Er; [|discriminate].
      destruct (is_parked x) eqn:Ep; [|discriminate].
      assert (E2 : l2 = update r (recv_ok k x) l1) by congruence. rewrite E2.
      rewrite (tsum_update f r _ x l1 Er), (tsum_remove f r x l1 Er), (Hw x Ep). reflexivity.
    - assert (E2 : l2 = fst (wake_all recv_closed l1)) by (destruct (wake_all recv_closed l1); cbn [fst]; congruence).
      rewrite E2. apply tsum_wake_all, Hw.
    - assert (E2 : l2 = fst (wake_all recv_int l1)) by (destruct (wake_all recv_int l1); cbn [fst]; congruence).
      rewrite E2. apply tsum_wake_all, Hw. }
  intros H; injection H as <- _. cbn [c_thr].
  destruct (o_spawn o) as [w|]; cbn [oz]; [rewrite tsum_spawn|]; lia.
Qed.

Lemma apply_out_fields c t o c' obs :
  apply_out c t o = Some (c', obs) ->
  c_par c' = c_par c /\ c_sh c' = o_sh o /\ c_gh c' = apply_gevs (c_gh c) (o_gev o) /\
  c_ntask c' = c_ntask c.
Proof.
  unfold apply_out. destruct (apply_wake _ _) as [[l2 woken]|]; [|discriminate].
  intros H; injection H as <- _. cbn. auto.
Qed.

(* classifiers that depend on the pc only *)
Definition pcf (g : ppc -> Z) (x : thr) : Z := g (pc x).
Arguments pcf g x /.

(* controlled simplification: projections, setters and the small helpers of the model, never Z arithmetic *)
Ltac msimp :=
  cbn [pc l_task l_nil l_cancel l_second l_ok l_err l_flag l_n l_a l_b l_acc l_wid l_tm l_lvl l_pan l_nt l_has l_late
       goto set_task set_nil set_cancel set_second set_ok set_err set_flag set_n set_a set_b set_acc set_wid set_tm
       set_lvl set_pan set_nt set_has set_late
       s_state s_prev s_q s_closed s_total s_running s_mp s_gn s_bw s_br s_gw s_gr s_idc s_ictx
       st_state st_prev st_q st_closed st_total st_running st_mp st_gn st_bw st_br st_gw st_gr st_idc st_ictx
       o_sh o_th o_ret o_spawn o_wake o_gev oz bz pcf unlock_state want back unwind new_worker thr0
       tid_of tk_id tk_depth tk_panics wrap_task task0 recv_ok recv_closed recv_int
       g_sent g_started g_done g_returned g_acc g_rej g_starts g_shuts g_now g_grace g_began g_shut
       gs_sent gs_started gs_done gs_returned gs_acc gs_rej gs_starts gs_shuts gs_now gs_grace gs_began gs_shut
       apply_gevs apply_gev fold_left pstate_eqb is_parked negb andb orb].
Ltac msimp_in H :=
  cbn [pc l_task l_nil l_cancel l_second l_ok l_err l_flag l_n l_a l_b l_acc l_wid l_tm l_lvl l_pan l_nt l_has l_late
       goto set_task set_nil set_cancel set_second set_ok set_err set_flag set_n set_a set_b set_acc set_wid set_tm
       set_lvl set_pan set_nt set_has set_late
       s_state s_prev s_q s_closed s_total s_running s_mp s_gn s_bw s_br s_gw s_gr s_idc s_ictx
       st_state st_prev st_q st_closed st_total st_running st_mp st_gn st_bw st_br st_gw st_gr st_idc st_ictx
       o_sh o_th o_ret o_spawn o_wake o_gev oz bz pcf unlock_state want back unwind new_worker thr0
       tid_of tk_id tk_depth tk_panics wrap_task task0 recv_ok recv_closed recv_int
       g_sent g_started g_done g_returned g_acc g_rej g_starts g_shuts g_now g_grace g_began g_shut
       gs_sent gs_started gs_done gs_returned gs_acc gs_rej gs_starts gs_shuts gs_now gs_grace gs_began gs_shut
       apply_gevs apply_gev fold_left pstate_eqb is_parked negb andb orb] in H.

Ltac msimp_all :=
  cbn [pc l_task l_nil l_cancel l_second l_ok l_err l_flag l_n l_a l_b l_acc l_wid l_tm l_lvl l_pan l_nt l_has l_late
       goto set_task set_nil set_cancel set_second set_ok set_err set_flag set_n set_a set_b set_acc set_wid set_tm
       set_lvl set_pan set_nt set_has set_late
       s_state s_prev s_q s_closed s_total s_running s_mp s_gn s_bw s_br s_gw s_gr s_idc s_ictx
       st_state st_prev st_q st_closed st_total st_running st_mp st_gn st_bw st_br st_gw st_gr st_idc st_ictx
       o_sh o_th o_ret o_spawn o_wake o_gev oz bz pcf unlock_state want back unwind new_worker thr0
       tid_of tk_id tk_depth tk_panics wrap_task task0 recv_ok recv_closed recv_int
       g_sent g_started g_done g_returned g_acc g_rej g_starts g_shuts g_now g_grace g_began g_shut
       gs_sent gs_started gs_done gs_returned gs_acc gs_rej gs_starts gs_shuts gs_now gs_grace gs_began gs_shut
       apply_gevs apply_gev fold_left pstate_eqb is_parked negb andb orb] in *.

Ltac break_if :=
  repeat lazymatch goal with
  | |- context [if ?b then _ else _] => destruct b eqn:?
  | |- context [match ?b with TmDead => _ | TmArmed => _ | TmFired => _ end] => destruct b eqn:?
  end.
Ltac break_hyp :=
  repeat lazymatch goal with
  | H : context [if ?b then _ else _] |- _ => destruct b eqn:?
  end.

(* ---------- every event other than a new call is "one thread applies one outcome" ---------- *)
Definition ev_out (c : pcfg) (e : pev) (th : thr) : option pout :=
  match e with
  | PCall _ _ => None
  | PStep _ ch => pstep (c_par c) (parked_of (c_thr c)) (c_sh c) th ch
  | PCancel _ =>
    if l_cancel th then None else Some (mkOut (c_sh c) (Some (set_cancel true th)) None None WkNone [])
  | PFire _ =>
    match l_tm th with
    | TmArmed =>
      Some (mkOut (c_sh c)
              (Some (if is_parked th then goto WCaseTimer (set_tm TmDead th) else set_tm TmFired th))
              None None WkNone [])
    | _ => None
    end
  | PFinish _ =>
    match pc th with
    | WUser =>
      Some (mkOut (c_sh c)
              (Some (goto RwRecIf (set_lvl 1%nat (set_pan (tk_panics (l_task th)) (set_has false th)))))
              None None WkNone [GDone (tid_of th)])
    | _ => None
    end
  end.

Definition ev_tid (e : pev) : tid :=
  match e with PCall t _ => t | PStep t _ => t | PCancel t => t | PFire t => t | PFinish t => t end.

Definition call_cfg (c : pcfg) (t : tid) (op : pop) : pcfg :=
  mkCfg (c_par c) (c_sh c) (spawn t (enter (c_sh c) op) (c_thr c)) (c_next c)
        (match op with OpSubmit _ _ => S (c_ntask c) | _ => c_ntask c end) (c_gh c).

Lemma step_cases c e c' :
  pstep_cfg c e = Some c' ->
  (exists t op, e = PCall t op /\ lookup t (c_thr c) = None /\ (t < i_base (c_par c))%nat /\
                c' = call_cfg c t op /\
                (forall id p, op = OpSubmit id p -> id = c_ntask c)) \/
  (exists th o obs, lookup (ev_tid e) (c_thr c) = Some th /\ ev_out c e th = Some o /\
                    apply_out c (ev_tid e) o = Some (c', obs)).
Proof.
  unfold pstep_cfg. destruct (pexec1 c e) as [[c1 obs]|] eqn:E; [|discriminate].
  intros H; injection H as <-. destruct e as [t op|t ch|t|t|t]; cbn [pexec1 ev_tid ev_out] in *.
  - left. exists t, op. destruct (lookup t (c_thr c)) as [x|]; [discriminate|].
    destruct (Nat.ltb t (i_base (c_par c))) eqn:Hb; [|discriminate]. apply Nat.ltb_lt in Hb.
    split; [reflexivity|]. split; [reflexivity|]. split; [exact Hb|].
    destruct op as [id p| | | |]; unfold call_cfg.
    + destruct (Nat.eqb id (c_ntask c)) eqn:Hid; [|discriminate]. apply Nat.eqb_eq in Hid.
      split; [congruence|]. intros id' p' Heq. congruence.
    + split; [unfold with_thr in E; congruence|discriminate].
    + split; [unfold with_thr in E; congruence|discriminate].
    + split; [unfold with_thr in E; congruence|discriminate].
    + split; [unfold with_thr in E; congruence|discriminate].
  - right. destruct (lookup t (c_thr c)) as [th|]; [|discriminate].
    destruct (pstep (c_par c) (parked_of (c_thr c)) (c_sh c) th ch) as [o|] eqn:Hs; [|discriminate].
    exists th, o, obs. split; [reflexivity|]. split; [exact Hs|exact E].
  - right. destruct (lookup t (c_thr c)) as [th|] eqn:Hl; [|discriminate].
    destruct (l_cancel th) eqn:Hc; [discriminate|].
    eexists th, _, _. split; [reflexivity|]. rewrite Hc. split; [reflexivity|].
    unfold apply_out. cbn [o_th o_wake apply_wake o_spawn o_sh o_gev]. unfold with_thr in E.
    injection E as <- _. reflexivity.
  - right. destruct (lookup t (c_thr c)) as [th|] eqn:Hl; [|discriminate].
    destruct (l_tm th) eqn:Hc; try discriminate.
    destruct (is_parked th) eqn:Hp;
      (eexists th, _, _; split; [reflexivity|]; rewrite Hc, Hp; split; [reflexivity|];
       unfold apply_out; cbn [o_th o_wake apply_wake o_spawn o_sh o_gev]; unfold with_thr in E;
       injection E as <- _; reflexivity).
  - right. destruct (lookup t (c_thr c)) as [th|] eqn:Hl; [|discriminate].
    destruct (pc th) eqn:Hc; try discriminate.
    eexists th, _, _. split; [reflexivity|]. rewrite Hc. split; [reflexivity|]. exact E.
Qed.

(* ---------- case analysis of one step ---------- *)
(* Ho : ev_out c (PStep t ch) th = Some o, already cbn'ed to [pstep ...]; leaves one goal per
   (pc, enabled branch) with o replaced by the concrete outcome *)
Ltac pstep_split Ho th ch :=
  unfold pstep in Ho;
  let Hpc := fresh "Hpc" in
  destruct (pc th) eqn:Hpc; cbv beta iota in Ho;
  destruct ch; try discriminate Ho;
  try (unfold pstep0 in Ho; rewrite Hpc in Ho; cbv beta iota zeta in Ho);
  unfold ts_select, w_select, stay, stayg, fin, quit, send_ready, q_ready, tm_fired, b_free, g_free, qlen in Ho;
  msimp_in Ho;
  repeat lazymatch type of Ho with
         | (match ?x with _ => _ end) = Some _ => destruct x eqn:?; try discriminate Ho
         end;
  try discriminate Ho;
  injection Ho as <-.

Ltac unfold_helpers := unfold unlock_state, back, unwind, want, b_free, g_free, allow, qlen in *.

(* sums after a step, relative to the sums before it *)
Definition upd (T a b s : Z) : Z := T - a + b + s.
Lemma upd_same T a : upd T a a 0 = T. Proof. unfold upd. lia. Qed.

Lemma tsum_step f c t th o c' obs :
  lookup t (c_thr c) = Some th ->
  wake_ok f (o_wake o) ->
  apply_out c t o = Some (c', obs) ->
  tsum f (c_thr c') = upd (tsum f (c_thr c)) (f th) (oz f (o_th o)) (oz f (o_spawn o)).
Proof.
  intros Hl Hw Ha. rewrite (tsum_apply_out f c t th o c' obs Hl Hw Ha), (tsum_remove f t th _ Hl).
  unfold upd. lia.
Qed.

Lemma tsum_ge_lookup f l t x : (forall y, 0 <= f y) -> lookup t l = Some x -> f x <= tsum f l.
Proof.
  intros Hn Hl. rewrite (tsum_remove f t x l Hl). pose proof (tsum_nonneg f (remove t l) Hn). lia.
Qed.

Lemma tsum_le_rest f g l t x :
  (forall y, f y <= g y) -> lookup t l = Some x -> tsum f l - f x <= tsum g l - g x.
Proof.
  intros H Hl. rewrite (tsum_remove f t x l Hl), (tsum_remove g t x l Hl).
  pose proof (tsum_le f g (remove t l) H). lia.
Qed.

Ltac bz_goal_ranges :=
  repeat match goal with
  | |- context [bz ?b] =>
    lazymatch goal with
    | _ : 0 <= bz b <= 1 |- _ => fail
    | _ => pose proof (bz_range b)
    end
  end.

(* comparisons under bz: make them visible to lia *)
Ltac bz_cmp :=
  repeat match goal with
  | |- context [bz (?a <? ?b)] => destruct (a <? b) eqn:?
  | |- context [bz (?a =? ?b)] => destruct (a =? b) eqn:?
  | |- context [bz (?a <=? ?b)] => destruct (a <=? b) eqn:?
  | H : context [bz (?a <? ?b)] |- _ => destruct (a <? b) eqn:?
  | H : context [bz (?a =? ?b)] |- _ => destruct (a =? b) eqn:?
  | H : context [bz (?a <=? ?b)] |- _ => destruct (a <=? b) eqn:?
  end; cbn [bz] in *.
