(* C15BridgeAll.v — the Coq-side pc -> label tables of all bridged objects, as one printable value
   (extracted for `modelrun c15bridge`; compared with the lock-step drivers' label_of_pc tables by
   checks/part_c15bridge.py).  Definitions only. *)
From Coq Require Import List String.
From Ekit Require Import C15Bridge C15BridgeLBQ C15BridgeABQ C15BridgeDQ C15BridgeCond C15BridgeLocked
                         C15BridgeCow C15BridgePool.
Import ListNotations.
Open Scope string_scope.

(* (object tag = prefix of the lock-step command `<tag>-lockstep`, lines) *)
Definition c15_bridge_tables : list (string * list bridge_line) :=
  [("lbq", bridge_LBQ); ("abq", bridge_ABQ); ("dq", bridge_DQ); ("cond", bridge_Cond);
   ("cpq", bridge_CPQ); ("clist", bridge_CList); ("cow", bridge_COW); ("pool", bridge_Pool)].

(* per object: (GLock rows of the footprint table, rows no program counter carries) *)
Definition c15_bridge_coverage : list (string * (nat * nat)) :=
  let cov t k := (List.length (glock_rows t), List.length (unmatched t k)) in
  [("lbq", cov FootprintModel.lbq_table keys_LBQ); ("abq", cov FootprintModel.abq_table keys_ABQ);
   ("dq", cov FootprintModel.dq_table keys_DQ); ("cond", cov FootprintModel.cond_table keys_Cond);
   ("cpq", cov FootprintModel.cpq_table keys_CPQ); ("clist", cov FootprintModel.clist_table keys_CList);
   ("cow", cov FootprintModel.cow_table keys_COW); ("pool", cov FootprintModel.taskpool_table keys_Pool)].
