(* Proofs about DQModel, part 6 (C09): the theorems about blocked calls.
   no_lost_wakeup, stuck_implies_cannot_proceed, the broadcast wakes every thread parked on the
   closed generation, cancellation of a parked call. *)
From Ekit Require Import Common Conc DQModel DQProof DQProof2 DQProof3 DQProof4 DQProof5.
From Coq Require Import Arith PeanoNat ZifyBool Permutation.

(* ---------- no lost wake-up ---------- *)
Lemma count_pos_exists (f : dthr -> bool) (l : list (tid * dthr)) :
  NoDup (tids l) -> 1 <= count f l -> exists t th, lookup t l = Some th /\ f th = true.
Proof.
  induction l as [|[t p] r IH]; cbn [count tids map fst]; [lia|].
  intros Hnd Hc. inversion Hnd as [|x xs Hn Hr]; subst.
  destruct (f p) eqn:E.
  - exists t, p. cbn. rewrite Nat.eqb_refl. split; [reflexivity|exact E].
  - destruct (IH Hr ltac:(lia)) as (t2 & th2 & Hl2 & Hf). exists t2, th2. split; [|exact Hf].
    cbn. destruct (Nat.eqb t2 t) eqn:E2; [|exact Hl2].
    apply Nat.eqb_eq in E2. subst t2. exfalso. apply Hn. apply lookup_none_not_in in Hn. congruence.
Qed.

(* A thread that has fetched generation g of the cond x it waits on (under the lock) and has not
   left its select: g is still the current generation of x (the next broadcast will close it), or
   it is closed (the select can proceed), or a broadcaster that has already replaced it is on its
   way to close it (statements `c.l.Unlock()` / `close(old)` of cond.broadcast, always enabled). *)
Lemma dq_no_lost_wakeup_lemma cap old evs c t th :
  exec dq_step (dq_init cap old) evs = Some c ->
  lookup t (q_thr c) = Some th -> is_waiter (t_pc th) = true ->
  let x := wcond (t_site th) in let g := t_sg th in
  (g <= cur c x)%nat /\
  (g = cur c x \/ closedb c x g = true \/
   exists t' th', lookup t' (q_thr c) = Some th' /\ (t_pc th' = Bc4 \/ t_pc th' = Bc5) /\
                  bcond (t_site th') = x /\ t_bold th' = g).
Proof.
  intros Hex Hl Hw x g. destruct (invFull_reachable _ _ _ _ Hex) as [[HA _ HD _] _].
  destruct (d_thr _ HD _ _ Hl) as (_ & P2 & _). destruct (P2 Hw) as [Hle Hlost]. split; [exact Hle|].
  destruct (Nat.eq_dec g (cur c x)) as [Heq|Hne]; [left; exact Heq|right].
  destruct (Hlost ltac:(unfold g, x in *; lia)) as [Hc|Hn]; [left; exact Hc|right].
  destruct (count_pos_exists _ _ (a_nodup _ HA) Hn) as (t' & th' & Hl' & Hcl).
  exists t', th'. split; [exact Hl'|]. unfold closing in Hcl.
  destruct (t_pc th'); try discriminate Hcl; apply andb_true_iff in Hcl; destruct Hcl as [Ha Hb];
    apply cnd_eqb_eq in Ha; apply Nat.eqb_eq in Hb; auto.
Qed.

(* ---------- every thread that is not blocked in a select can take a step when the mutex is free ---------- *)
Definition is_lockpc (p : dq_pc) : bool := match p with ELock | DLock0 | DLock1 => true | _ => false end.

Lemma mins_nonempty h : h <> [] -> exists v, nth_error (mins h) 0 = Some v.
Proof.
  intros Hne. unfold mins. destruct (min_dl h) as [m|] eqn:E; [|destruct h; [congruence|cbn in E; destruct (min_dl h); discriminate]].
  assert (Hex : exists v, In v h /\ e_dl v = m).
  { clear Hne. revert m E. induction h as [|x r IH]; cbn; [discriminate|]. intros m E.
    destruct (min_dl r) as [m'|] eqn:E'.
    - injection E as <-. destruct (Z.min_spec (e_dl x) m') as [[_ ->]|[_ ->]].
      + exists x. split; [left; reflexivity|reflexivity].
      + destruct (IH m' eq_refl) as (v & Hv & Hm). exists v. split; [right; exact Hv|exact Hm].
    - injection E as <-. exists x. split; [left; reflexivity|reflexivity]. }
  destruct Hex as (v & Hin & Hm).
  assert (Hf : In v (filter (fun x => e_dl x =? m) h)) by (apply filter_In; split; [exact Hin|lia]).
  destruct (filter (fun x => e_dl x =? m) h) as [|a l]; [destruct Hf|]. exists a. reflexivity.
Qed.

Lemma sel_enabled c t th ready pk : exists r, sel c t th ready pk 0 = Some r.
Proof. unfold sel, park, goto. destruct ready as [|[p th'] l]; cbn; eexists; reflexivity. Qed.

Lemma step_enabled c t th :
  lookup t (q_thr c) = Some th -> is_park (t_pc th) = false ->
  (is_lockpc (t_pc th) = true -> q_mutex c = None) ->
  exists r, dq_exec1 c (DStep t 0) = Some r.
Proof.
  intros Hl Hp Hm. unfold dq_exec1. rewrite Hl. unfold dq_step_thr.
  destruct (t_pc th) eqn:Hpc; try discriminate Hp; cbn [is_lockpc] in Hm;
    try (rewrite (Hm eq_refl));
    try apply sel_enabled;
    unfold goto, fin, do_peek, do_deq;
    try (eexists; reflexivity);
    try (destruct (t_canc th); eexists; reflexivity);
    try (destruct (t_herr th); eexists; reflexivity);
    try (destruct (t_tm th); eexists; reflexivity);
    try (destruct (heap_full (q_cap c) (q_heap c)); eexists; reflexivity);
    try (destruct (q_heap c) as [|a l] eqn:Eh; [eexists; reflexivity|];
         destruct (mins_nonempty (a :: l) ltac:(discriminate)) as (v & ->); eexists; reflexivity).
  - destruct (t_dly th <=? 0); eexists; reflexivity.
  - destruct (t_herr th); try (eexists; reflexivity). destruct (e_dl (t_el th) - q_now c >? 0); eexists; reflexivity.
  - destruct (mem_nat _ _); eexists; reflexivity.
Qed.

(* ---------- stuck configurations ---------- *)
Definition parked_state (c : dq_cfg) (th : dthr) : Prop :=
  match t_pc th with
  | EPark1 => is_full c
  | DPark2 => q_heap c = []
  | DPark1 =>
    exists f, t_tm th = Some (Tm (Some f) false) /\ q_now c < f /\
              f = e_dl (t_el th) + t_lag th /\ 0 <= t_lag th /\
              (forall y, In y (q_heap c) -> e_dl (t_el th) <= e_dl y)
  | _ => False
  end.

Lemma dq_stuck_lemma cap old evs c :
  exec dq_step (dq_init cap old) evs = Some c -> dq_stuck c ->
  q_mutex c = None /\
  forall t th, lookup t (q_thr c) = Some th ->
    is_park (t_pc th) = true /\ t_canc th = false /\
    t_sg th = cur c (wcond (t_site th)) /\ closedb c (wcond (t_site th)) (t_sg th) = false /\
    parked_state c th.
Proof.
  intros Hex [Hstep Hfire]. destruct (invFull_reachable _ _ _ _ Hex) as [[HA HB HD HC] HE].
  (* the mutex is free: its holder could step *)
  assert (Hmx : q_mutex c = None).
  { destruct (q_mutex c) as [o|] eqn:E; [|reflexivity]. exfalso.
    pose proof (a_mutex _ HA o) as M. unfold holds_at, mutex_is in M. rewrite E, Nat.eqb_refl in M.
    destruct (lookup o (q_thr c)) as [tho|] eqn:Hlo; [|discriminate M].
    destruct (step_enabled c o tho Hlo) as [r Hr].
    - destruct (t_pc tho); try discriminate M; reflexivity.
    - intros Hlk. destruct (t_pc tho); try discriminate M; discriminate Hlk.
    - rewrite Hstep in Hr. discriminate Hr. }
  split; [exact Hmx|].
  (* hence every thread is blocked in a select *)
  assert (Hall : forall t th, lookup t (q_thr c) = Some th -> is_park (t_pc th) = true).
  { intros t th Hl. destruct (is_park (t_pc th)) eqn:E; [reflexivity|exfalso].
    destruct (step_enabled c t th Hl E (fun _ => Hmx)) as [r Hr]. rewrite Hstep in Hr. discriminate Hr. }
  intros t th Hl. pose proof (Hall _ _ Hl) as Hp. split; [exact Hp|].
  destruct (d_thr _ HD _ _ Hl) as (_ & P2 & P3). destruct (P3 Hp) as (Hncl & Hcanc & Hbuf).
  assert (Hw : is_waiter (t_pc th) = true) by (destruct (t_pc th); try discriminate Hp; reflexivity).
  destruct (P2 Hw) as [Hle Hlost].
  assert (Hsg : t_sg th = cur c (wcond (t_site th))).
  { destruct (Nat.eq_dec (t_sg th) (cur c (wcond (t_site th)))) as [Heq|Hne]; [exact Heq|exfalso].
    destruct (Hlost ltac:(lia)) as [Hc|Hn]; [congruence|].
    destruct (count_pos_exists _ _ (a_nodup _ HA) Hn) as (t' & th' & Hl' & Hcl).
    pose proof (Hall _ _ Hl') as Hp'. unfold closing in Hcl. destruct (t_pc th'); try discriminate Hcl; discriminate Hp'. }
  repeat split; try assumption.
  destruct (HE _ _ Hl) as [E1 E2].
  destruct (E1 Hw Hsg) as [Hwc|Hin]; [|rewrite (in_window_free _ _ Hmx) in Hin; discriminate Hin].
  pose proof (a_site _ HA _ _ Hl) as Hs.
  unfold parked_state, wait_cond in *. destruct (t_pc th) eqn:Hpc; try discriminate Hp; cbn [site_ok] in Hs;
    destruct (t_site th); try discriminate Hs; try exact Hwc.
  (* the Dequeue sleeping on its timer *)
  destruct (E2 eq_refl) as (m & Htm & Harm & Hf).
  specialize (Hbuf eq_refl). unfold tm_buffered in Hbuf. rewrite Htm in Hbuf.
  destruct m as [[f|] b]; cbn [tm_armed tm_buf] in *; [|specialize (Harm eq_refl); congruence].
  subst b. destruct (Hf f eq_refl) as [Hf1 Hf2].
  exists f. split; [exact Htm|]. split; [|repeat split; assumption].
  specialize (Hfire t). unfold dq_exec1 in Hfire. rewrite Hl, Htm in Hfire.
  destruct (f <=? q_now c) eqn:Ef; [|lia].
  rewrite Hpc in Hfire. cbn [is_tpark] in Hfire. unfold goto in Hfire. discriminate Hfire.
Qed.

(* ---------- close(old) wakes every thread parked on that generation ---------- *)
Lemma wake_obs_in x g (l : list (tid * dthr)) t th :
  lookup t l = Some th -> parked_on x g th = true -> In (t, OAt (sig_case (t_pc th))) (wake_obs x g l).
Proof.
  induction l as [|[t' p] r IH]; cbn [lookup]; [discriminate|].
  destruct (Nat.eqb t t') eqn:E.
  - apply Nat.eqb_eq in E. subst t'. intros H Hp; injection H as ->.
    unfold wake_obs. cbn [flat_map fst snd]. rewrite Hp. left. reflexivity.
  - intros H Hp. unfold wake_obs. cbn [flat_map]. apply in_or_app. right. apply IH; assumption.
Qed.

Lemma dq_broadcast_wakes_lemma cap old evs c t k th c' obs :
  exec dq_step (dq_init cap old) evs = Some c ->
  lookup t (q_thr c) = Some th -> t_pc th = Bc5 ->
  dq_exec1 c (DStep t k) = Some (c', obs) ->
  forall t2 th2, lookup t2 (q_thr c) = Some th2 ->
    is_park (t_pc th2) = true -> wcond (t_site th2) = bcond (t_site th) -> t_sg th2 = t_bold th ->
    exists th2', lookup t2 (q_thr c') = Some th2' /\ t_pc th2' = sig_case (t_pc th2) /\
                 In (t2, OAt (sig_case (t_pc th2))) obs.
Proof.
  intros Hex Hl Hpc H t2 th2 Hl2 Hp Hx Hg.
  destruct (invFull_reachable _ _ _ _ Hex) as [[HA _ HD _] _].
  assert (Hne : t2 <> t) by (intros ->; rewrite Hl in Hl2; injection Hl2 as <-; rewrite Hpc in Hp; discriminate Hp).
  assert (Hpk : parked_on (bcond (t_site th)) (t_bold th) th2 = true).
  { unfold parked_on. rewrite Hp, Hx, Hg, Nat.eqb_refl. destruct (bcond (t_site th)); reflexivity. }
  unfold dq_exec1 in H. rewrite Hl in H. unfold dq_step_thr in H. rewrite Hpc in H.
  destruct (mem_nat (t_bold th) (c_closed (get_cnd c (bcond (t_site th))))) eqn:Em.
  - exfalso. pose proof (closing_self c t th Hl ltac:(rewrite Hpc; reflexivity)) as Hs.
    assert (HG : globD c) by (destruct HD; constructor; assumption).
    pose proof (closing_not_closed _ _ _ HG Hs) as Hn. unfold closedb in Hn. congruence.
  - injection H as <- <-. dq_simpl. rewrite lookup_wake, (lookup_update_other _ _ _ _ _ Hne), Hl2. cbn [option_map].
    exists (wake1 (bcond (t_site th)) (t_bold th) th2). split; [reflexivity|].
    split; [unfold wake1; rewrite Hpk; reflexivity|].
    right. apply wake_obs_in; [rewrite ?cnd_thr, (lookup_update_other _ _ _ _ _ Hne); exact Hl2|exact Hpk].
Qed.

(* every thread parked when an Enqueue's broadcast reads `old := c.signal` is parked on that very
   generation or on one that a broadcaster in flight is about to close: corollary of no_lost_wakeup
   + thrD at Bc3 (old = current).  Stated for the statement `old := c.signal`. *)
Lemma dq_broadcast_reads_current_lemma cap old evs c t th :
  exec dq_step (dq_init cap old) evs = Some c ->
  lookup t (q_thr c) = Some th -> t_pc th = Bc3 -> t_bold th = cur c (bcond (t_site th)).
Proof.
  intros Hex Hl Hpc. destruct (invFull_reachable _ _ _ _ Hex) as [[_ _ HD _] _].
  destruct (d_thr _ HD _ _ Hl) as (P1 & _). rewrite Hpc in P1. tauto.
Qed.

(* ---------- cancellation of a parked call ---------- *)
Fixpoint dq_exec_obs (c : dq_cfg) (evs : list dq_ev) : option (dq_cfg * list (tid * dq_obs)) :=
  match evs with
  | [] => Some (c, [])
  | e :: r =>
    match dq_exec1 c e with
    | Some (c1, o) => match dq_exec_obs c1 r with Some (c2, o2) => Some (c2, o ++ o2) | None => None end
    | None => None
    end
  end.

Lemma update_update (t : tid) (a b : dthr) l : update t a (update t b l) = update t a l.
Proof.
  induction l as [|[t' p] r IH]; cbn; [reflexivity|].
  destruct (Nat.eqb t t') eqn:E; cbn; rewrite E; [reflexivity|rewrite IH; reflexivity].
Qed.

Lemma remove_update (t : tid) (a : dthr) l : remove t (update t a l) = remove t l.
Proof.
  induction l as [|[t' p] r IH]; cbn; [reflexivity|].
  destruct (Nat.eqb t t') eqn:E; cbn; rewrite E; [reflexivity|rewrite IH; reflexivity].
Qed.

(* A call blocked in a select whose context is cancelled is woken at once (the CANCEL event lists
   its arrival at `case <-ctx.Done():`) and returns ctx.Err() after at most 4 further statements of
   its own, all of them enabled whatever the other threads do, without touching heap, mutex or logs. *)
Lemma dq_cancel_enables_lemma cap old evs c t th :
  exec dq_step (dq_init cap old) evs = Some c ->
  lookup t (q_thr c) = Some th -> is_park (t_pc th) = true ->
  exists n c' obs, (n <= 4)%nat /\
    dq_exec_obs c (DCancel t :: repeat (DStep t 0) n) = Some (c', obs) /\
    In (t, OAt (ctx_case (t_pc th))) obs /\ In (t, ORet RCtx) obs /\
    lookup t (q_thr c') = None /\
    (forall t2, t2 <> t -> lookup t2 (q_thr c') = lookup t2 (q_thr c)) /\
    q_heap c' = q_heap c /\ q_mutex c' = q_mutex c /\ q_now c' = q_now c /\
    q_ins c' = q_ins c /\ q_out c' = q_out c /\ q_okd c' = q_okd c /\ q_esig c' = q_esig c /\ q_dsig c' = q_dsig c.
Proof.
  intros Hex Hl Hp. destruct (invFull_reachable _ _ _ _ Hex) as [[HA _ HD _] _].
  pose proof (a_nodup _ HA) as Hnd.
  destruct (d_thr _ HD _ _ Hl) as (_ & _ & P3). destruct (P3 Hp) as (_ & Hcanc & _).
  pose proof (a_tm _ HA _ _ Hl) as Htm. unfold tm_ok in Htm.
  assert (Hfin : forall l, lookup t (remove t (update t l (q_thr c))) = None)
    by (intros l; rewrite remove_update; apply lookup_remove_same; exact Hnd).
  assert (Hoth : forall l t2, t2 <> t -> lookup t2 (remove t (update t l (q_thr c))) = lookup t2 (q_thr c))
    by (intros l t2 Hne; rewrite remove_update; apply lookup_remove_other; exact Hne).
  destruct (t_pc th) eqn:Hpc; try discriminate Hp.
  - (* Enqueue waiting for space *)
    exists 2%nat. cbn [repeat dq_exec_obs]. unfold dq_exec1 at 1. rewrite Hl, Hcanc, Hpc. cbn [is_park ctx_case]. unfold goto.
    unfold dq_exec1 at 1. dq_simpl. rewrite (lookup_update_same _ _ _ _ _ Hl). unfold dq_step_thr. dq_simpl. unfold goto. dq_simpl.
    rewrite update_update.
    unfold dq_exec1 at 1. dq_simpl. rewrite (lookup_update_same _ _ _ _ _ Hl). unfold dq_step_thr. dq_simpl. unfold fin. cbn [fin_log]. dq_simpl.
    eexists _, _. split; [lia|]. split; [reflexivity|]. cbn [app In].
    repeat split; dq_simpl; try apply Hfin; try apply Hoth; auto 10.
  - (* Dequeue sleeping on its timer *)
    destruct (t_tm th) as [m|] eqn:Em; [|discriminate Htm].
    exists 4%nat. cbn [repeat dq_exec_obs]. unfold dq_exec1 at 1. rewrite Hl, Hcanc, Hpc. cbn [is_park ctx_case]. unfold goto.
    do 2 (unfold dq_exec1 at 1; dq_simpl; rewrite (lookup_update_same _ _ _ _ _ Hl); unfold dq_step_thr; dq_simpl; unfold goto; dq_simpl;
          rewrite update_update).
    unfold dq_exec1 at 1; dq_simpl; rewrite (lookup_update_same _ _ _ _ _ Hl); unfold dq_step_thr; dq_simpl; rewrite Em; unfold goto; dq_simpl;
      rewrite update_update.
    unfold dq_exec1 at 1; dq_simpl; rewrite (lookup_update_same _ _ _ _ _ Hl); unfold dq_step_thr; dq_simpl; rewrite Em; unfold fin; cbn [fin_log]; dq_simpl.
    eexists _, _. split; [lia|]. split; [reflexivity|]. cbn [app In].
    repeat split; dq_simpl; try apply Hfin; try apply Hoth; auto 10.
  - (* Dequeue waiting for a first element *)
    destruct (t_tm th) as [m|] eqn:Em.
    + exists 4%nat. cbn [repeat dq_exec_obs]. unfold dq_exec1 at 1. rewrite Hl, Hcanc, Hpc. cbn [is_park ctx_case]. unfold goto.
      do 2 (unfold dq_exec1 at 1; dq_simpl; rewrite (lookup_update_same _ _ _ _ _ Hl); unfold dq_step_thr; dq_simpl; unfold goto; dq_simpl;
            rewrite update_update).
      unfold dq_exec1 at 1; dq_simpl; rewrite (lookup_update_same _ _ _ _ _ Hl); unfold dq_step_thr; dq_simpl; rewrite Em; unfold goto; dq_simpl;
        rewrite update_update.
      unfold dq_exec1 at 1; dq_simpl; rewrite (lookup_update_same _ _ _ _ _ Hl); unfold dq_step_thr; dq_simpl; rewrite Em; unfold fin; cbn [fin_log]; dq_simpl.
      eexists _, _. split; [lia|]. split; [reflexivity|]. cbn [app In].
      repeat split; dq_simpl; try apply Hfin; try apply Hoth; auto 10.
    + exists 3%nat. cbn [repeat dq_exec_obs]. unfold dq_exec1 at 1. rewrite Hl, Hcanc, Hpc. cbn [is_park ctx_case]. unfold goto.
      do 2 (unfold dq_exec1 at 1; dq_simpl; rewrite (lookup_update_same _ _ _ _ _ Hl); unfold dq_step_thr; dq_simpl; unfold goto; dq_simpl;
            rewrite update_update).
      unfold dq_exec1 at 1; dq_simpl; rewrite (lookup_update_same _ _ _ _ _ Hl); unfold dq_step_thr; dq_simpl; rewrite Em; unfold fin; cbn [fin_log]; dq_simpl.
      eexists _, _. split; [lia|]. split; [reflexivity|]. cbn [app In].
      repeat split; dq_simpl; try apply Hfin; try apply Hoth; auto 10.
Qed.
