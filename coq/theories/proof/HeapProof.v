(* HeapProof — proofs about HeapModel (property C05, priority-queue half).
   Part 1: arrays-as-lists, swap, the two sift loops restore the heap order,
   never panic, never run out of fuel, permute the contents. *)
From Ekit Require Import Common HeapModel.
From Coq Require Import Arith Permutation ZifyNat ZifyBool.
Ltac Zify.zify_post_hook ::= Z.div_mod_to_equations.

(* ---------- list-as-array facts ---------- *)

Lemma nth_opt_nth : forall (d : list Z) i, (i < length d)%nat -> nth_opt d i = Some (nth i d 0).
Proof.
  induction d as [|x t IH]; intros i Hi; cbn in *; [lia|].
  destruct i as [|i]; [reflexivity|]. apply IH. lia.
Qed.

Lemma nth_opt_none : forall (d : list Z) i, (length d <= i)%nat -> nth_opt d i = None.
Proof.
  induction d as [|x t IH]; intros i Hi; cbn in *; [reflexivity|].
  destruct i as [|i]; [lia|]. apply IH. lia.
Qed.

Lemma get_ok : forall d i, (i < length d)%nat -> get d i = HOk (nth i d 0).
Proof. intros d i Hi. unfold get. rewrite nth_opt_nth by exact Hi. reflexivity. Qed.

Lemma set_nth_length : forall (d : list Z) i a, length (set_nth d i a) = length d.
Proof.
  induction d as [|x t IH]; intros i a; cbn; [reflexivity|].
  destruct i as [|i]; cbn; [reflexivity|]. rewrite IH. reflexivity.
Qed.

Lemma nth_set_nth : forall (d : list Z) i a k,
  (i < length d)%nat -> nth k (set_nth d i a) 0 = if (k =? i)%nat then a else nth k d 0.
Proof.
  induction d as [|x t IH]; intros i a k Hi; cbn in *; [lia|].
  destruct i as [|i]; destruct k as [|k]; cbn; try reflexivity.
  apply IH. lia.
Qed.

Lemma set_nth_perm_cons : forall (d : list Z) j a,
  (j < length d)%nat -> Permutation (a :: d) (nth j d 0 :: set_nth d j a).
Proof.
  induction d as [|x t IH]; intros j a Hj; cbn in *; [lia|].
  destruct j as [|j]; [apply perm_swap|].
  eapply perm_trans; [apply perm_swap|].
  eapply perm_trans; [apply perm_skip, (IH j a); lia|]. apply perm_swap.
Qed.

Lemma swap_perm : forall (d : list Z) i j,
  (i < j < length d)%nat ->
  Permutation d (set_nth (set_nth d i (nth j d 0)) j (nth i d 0)).
Proof.
  induction d as [|x t IH]; intros i j Hij; cbn in *; [lia|].
  destruct j as [|j]; [lia|].
  destruct i as [|i]; cbn.
  - apply set_nth_perm_cons. lia.
  - apply perm_skip. apply IH. lia.
Qed.

Lemma swap_ok : forall d i j, (i < j < length d)%nat ->
  exists d', swap d i j = HOk d' /\ length d' = length d /\ Permutation d d' /\
    (forall k, nth k d' 0 = if (k =? j)%nat then nth i d 0
                            else if (k =? i)%nat then nth j d 0 else nth k d 0).
Proof.
  intros d i j Hij. unfold swap. rewrite !get_ok by lia. cbn [hbind].
  eexists; split; [reflexivity|]. split; [|split].
  - rewrite !set_nth_length. reflexivity.
  - apply swap_perm. exact Hij.
  - intros k. rewrite nth_set_nth by (rewrite set_nth_length; lia).
    rewrite nth_set_nth by lia. reflexivity.
Qed.

Local Notation "d @ i" := (nth i d 0) (at level 20).

(* ---------- more list facts ---------- *)

Lemma perm_tl : forall d d' : list Z,
  Permutation d d' -> d @ 0 = d' @ 0 -> (1 <= length d)%nat -> Permutation (tl d) (tl d').
Proof.
  intros d d' Hp H0 Hlen. pose proof (Permutation_length Hp) as Hl.
  destruct d as [|a t]; [cbn in Hlen; lia|]. destruct d' as [|a' t']; [cbn in Hl; lia|].
  cbn in H0. subst a'. cbn [tl]. eapply Permutation_cons_inv. exact Hp.
Qed.

Lemma nth_firstn_lt : forall (l : list Z) n k, (k < n)%nat -> nth k (firstn n l) 0 = nth k l 0.
Proof.
  induction l as [|x t IH]; intros n k Hk.
  - rewrite firstn_nil. reflexivity.
  - destruct n as [|n]; [lia|]. cbn [firstn]. destruct k as [|k]; [reflexivity|].
    cbn [nth]. apply IH. lia.
Qed.

Lemma firstn_snoc : forall l : list Z, (1 <= length l)%nat ->
  firstn (length l - 1) l ++ [nth (length l - 1) l 0] = l.
Proof.
  induction l as [|x t IH]; intros Hl; [cbn in Hl; lia|].
  destruct t as [|y t']; [reflexivity|].
  replace (length (x :: y :: t') - 1)%nat with (S (length (y :: t') - 1)) by (cbn [length]; lia).
  cbn [firstn nth app]. f_equal. apply IH. cbn [length]. lia.
Qed.

Lemma contents_length : forall p, (1 <= length (data p))%nat ->
  Z.of_nat (length (contents p)) = pq_len p.
Proof.
  intros p Hl. unfold contents, pq_len. destruct (data p) as [|a t]; cbn [length tl] in *; lia.
Qed.

Section Proofs.
  Variable cmp : Z -> Z -> Z.
  (* the comparator is a total preorder given as a three-way comparison:
     "not less" implies "greater or equal", and <= is transitive.  Ties are allowed;
     nothing relates cmp x y = 0 to x = y. *)
  Hypothesis cmp_total : forall x y, 0 <= cmp x y -> cmp y x <= 0.
  Hypothesis cmp_trans : forall x y z, cmp x y <= 0 -> cmp y z <= 0 -> cmp x z <= 0.

  Notation le x y := (cmp x y <= 0).

  Lemma cmp_refl : forall x, le x x.
  Proof. intros x. destruct (Z_le_gt_dec (cmp x x) 0) as [H|H]; [exact H|]. apply cmp_total. lia. Qed.

  (* ---------- sift-up ---------- *)

  (* heap order everywhere except on the edge (k/2, k); plus the bridging fact:
     the parent of k is <= the children of k *)
  Definition up_inv (d : list Z) (k : nat) : Prop :=
    (forall i, (2 <= i < length d)%nat -> i <> k -> le (d @ (i / 2)) (d @ i)) /\
    (forall c, (2 <= k)%nat -> (c < length d)%nat -> (c / 2 = k)%nat -> le (d @ (k / 2)) (d @ c)).

  Lemma sift_up_spec : forall fuel d k,
    (1 <= k < length d)%nat -> (k < fuel)%nat -> up_inv d k ->
    exists d', sift_up cmp fuel d k (k / 2) = HOk d' /\ length d' = length d /\
               Permutation d d' /\ d' @ 0 = d @ 0 /\ heap_inv cmp d'.
  Proof.
    induction fuel as [|f IH]; intros d k Hk Hf [Hedges Hbridge]; [lia|].
    cbn [sift_up].
    destruct (0 <? k / 2)%nat eqn:Hp.
    - rewrite !get_ok by lia. cbn [hbind].
      destruct (cmp (d @ k) (d @ (k / 2)) <? 0) eqn:Hc.
      + destruct (swap_ok d (k / 2) k) as (d' & Hsw & Hlen & Hperm & Hnth); [lia|].
        rewrite Hsw. cbn [hbind].
        destruct (IH d' (k / 2)%nat) as (d2 & Hs & Hlen2 & Hperm2 & Hz & Hinv); [lia|lia| |].
        * split.
          -- intros i Hi Hne. rewrite !Hnth.
             destruct (i =? k)%nat eqn:E1.
             ++ assert (i = k) by lia. subst i.
                replace (k / 2 =? k)%nat with false by lia.
                rewrite Nat.eqb_refl. lia.
             ++ replace (i =? k / 2)%nat with false by lia.
                destruct (i / 2 =? k)%nat eqn:E2.
                ** apply Hbridge; lia.
                ** destruct (i / 2 =? k / 2)%nat eqn:E3.
                   --- apply cmp_trans with (d @ (k / 2)); [lia|].
                       replace (k / 2)%nat with (i / 2)%nat by lia. apply Hedges; lia.
                   --- apply Hedges; lia.
          -- intros c Hk2 Hcl Hpar. rewrite !Hnth.
             replace (k / 2 / 2 =? k)%nat with false by lia.
             replace (k / 2 / 2 =? k / 2)%nat with false by lia.
             replace (c =? k / 2)%nat with false by lia.
             destruct (c =? k)%nat eqn:E1.
             ++ apply Hedges; lia.
             ++ apply cmp_trans with (d @ (k / 2)); [apply Hedges; lia|].
                rewrite <- Hpar. apply Hedges; lia.
        * exists d2. split; [exact Hs|]. split; [lia|]. split; [eapply perm_trans; eassumption|].
          split; [|exact Hinv]. rewrite Hz, Hnth.
          replace (0 =? k)%nat with false by lia. replace (0 =? k / 2)%nat with false by lia.
          reflexivity.
      + exists d. split; [reflexivity|]. split; [reflexivity|]. split; [apply Permutation_refl|].
        split; [reflexivity|].
        intros i Hi. destruct (Nat.eq_dec i k) as [->|Hne]; [|apply Hedges; assumption].
        apply cmp_total. lia.
    - exists d. split; [reflexivity|]. split; [reflexivity|]. split; [apply Permutation_refl|].
      split; [reflexivity|].
      intros i Hi. apply Hedges; lia.
  Qed.

  (* ---------- sift-down ---------- *)

  (* heap order everywhere except on the edges from i to its children; plus the bridging
     fact: the parent of i is <= the children of i *)
  Definition down_inv (d : list Z) (i : nat) : Prop :=
    (forall j, (2 <= j < length d)%nat -> (j / 2 <> i)%nat -> le (d @ (j / 2)) (d @ j)) /\
    (forall c, (2 <= i)%nat -> (c < length d)%nat -> (c / 2 = i)%nat -> le (d @ (i / 2)) (d @ c)).

  Lemma pick_ok : forall d n c m, (n < length d)%nat -> (m <= n)%nat ->
    pick cmp d n c m =
      HOk (if (c <=? n)%nat && (cmp (d @ c) (d @ m) <? 0) then c else m).
  Proof.
    intros d n c m Hn Hm. unfold pick.
    destruct (c <=? n)%nat eqn:Hc; cbn [andb]; [|reflexivity].
    rewrite !get_ok by lia. cbn [hbind]. reflexivity.
  Qed.

  Lemma heapify_spec : forall fuel d i,
    (1 <= i)%nat -> (i < length d \/ length d = 1)%nat -> (length d - 1 - i < fuel)%nat ->
    (1 <= length d)%nat -> down_inv d i ->
    exists d', heapify cmp fuel d (length d - 1) i i = HOk d' /\ length d' = length d /\
               Permutation d d' /\ d' @ 0 = d @ 0 /\ heap_inv cmp d'.
  Proof.
    induction fuel as [|f IH]; intros d i Hi Hlt Hf Hlen [Hedges Hbridge]; [lia|].
    cbn [heapify].
    destruct (Nat.eq_dec (length d) 1) as [Hone|Hmany].
    - (* empty queue after the removal: both children are beyond n = 0 *)
      unfold pick. replace (i * 2 <=? length d - 1)%nat with false by lia.
      cbn [hbind]. replace (i * 2 + 1 <=? length d - 1)%nat with false by lia.
      cbn [hbind]. rewrite Nat.eqb_refl.
      exists d. split; [reflexivity|]. split; [reflexivity|]. split; [apply Permutation_refl|].
      split; [reflexivity|]. intros j Hj. lia.
    - assert (Hil : (i < length d)%nat) by lia.
      set (n := (length d - 1)%nat) in *.
      rewrite pick_ok by lia. cbn [hbind].
      set (m1 := if (i * 2 <=? n)%nat && (cmp (d @ (i * 2)) (d @ i) <? 0) then (i * 2)%nat else i).
      assert (Hm1 : (m1 <= n)%nat).
      { subst m1. destruct ((i * 2 <=? n)%nat && (cmp (d @ (i * 2)) (d @ i) <? 0)) eqn:E; lia. }
      rewrite pick_ok by lia. cbn [hbind].
      set (m2 := if (i * 2 + 1 <=? n)%nat && (cmp (d @ (i * 2 + 1)) (d @ m1) <? 0)
                 then (i * 2 + 1)%nat else m1).
      (* what the two comparisons established about m2 *)
      assert (Hfacts :
        (m2 = i /\ ((i * 2 <= n)%nat -> le (d @ i) (d @ (i * 2))) /\
                   ((i * 2 + 1 <= n)%nat -> le (d @ i) (d @ (i * 2 + 1)))) \/
        ((m2 = i * 2 \/ m2 = i * 2 + 1)%nat /\ (m2 <= n)%nat /\ le (d @ m2) (d @ i) /\
         ((i * 2 <= n)%nat -> le (d @ m2) (d @ (i * 2))) /\
         ((i * 2 + 1 <= n)%nat -> le (d @ m2) (d @ (i * 2 + 1))))).
      { subst m2 m1.
        destruct (i * 2 <=? n)%nat eqn:E1; cbn [andb].
        - destruct (cmp (d @ (i * 2)) (d @ i) <? 0) eqn:C1.
          + destruct (i * 2 + 1 <=? n)%nat eqn:E2; cbn [andb].
            * destruct (cmp (d @ (i * 2 + 1)) (d @ (i * 2)) <? 0) eqn:C2.
              -- right. split; [lia|]. split; [lia|]. split.
                 ++ apply cmp_trans with (d @ (i * 2)); lia.
                 ++ split; [intros _; lia|intros _; apply cmp_refl].
              -- right. split; [lia|]. split; [lia|]. split; [lia|].
                 split; [intros _; apply cmp_refl|intros _; apply cmp_total; lia].
            * right. split; [lia|]. split; [lia|]. split; [lia|].
              split; [intros _; apply cmp_refl|intros; lia].
          + destruct (i * 2 + 1 <=? n)%nat eqn:E2; cbn [andb].
            * destruct (cmp (d @ (i * 2 + 1)) (d @ i) <? 0) eqn:C2.
              -- right. split; [lia|]. split; [lia|]. split; [lia|].
                 split; [intros _|intros _; apply cmp_refl].
                 apply cmp_trans with (d @ i); [lia|apply cmp_total; lia].
              -- left. split; [reflexivity|]. split; intros _; apply cmp_total; lia.
            * left. split; [reflexivity|]. split; [intros _; apply cmp_total; lia|intros; lia].
        - replace (i * 2 + 1 <=? n)%nat with false by lia. cbn [andb].
          left. split; [reflexivity|]. split; intros; lia. }
      destruct Hfacts as [(Hm & Hl & Hr)|(Hm & Hmn & Hlt2 & Hl & Hr)].
      + rewrite Hm, Nat.eqb_refl.
        exists d. split; [reflexivity|]. split; [reflexivity|]. split; [apply Permutation_refl|].
        split; [reflexivity|].
        intros j Hj. destruct (Nat.eq_dec (j / 2) i) as [Hp|Hp]; [|apply Hedges; assumption].
        rewrite Hp. assert (Hj2 : (j = i * 2 \/ j = i * 2 + 1)%nat) by lia.
        destruct Hj2 as [->| ->]; [apply Hl|apply Hr]; lia.
      + replace (m2 =? i)%nat with false by lia.
        destruct (swap_ok d i m2) as (d' & Hsw & Hlen' & Hperm & Hnth); [lia|].
        rewrite Hsw. cbn [hbind].
        replace n with (length d' - 1)%nat by lia.
        destruct (IH d' m2) as (d2 & Hs & Hlen2 & Hperm2 & Hz & Hinv); [lia|lia|lia|lia| |].
        * split.
          -- intros j Hj Hpar. rewrite !Hnth.
             destruct (j / 2 =? i)%nat eqn:E1.
             ++ replace (j / 2 =? m2)%nat with false by lia.
                assert (Hj2 : (j = i * 2 \/ j = i * 2 + 1)%nat) by lia.
                destruct (j =? m2)%nat eqn:E2; [lia|].
                replace (j =? i)%nat with false by lia.
                destruct Hj2 as [->| ->]; [apply Hl|apply Hr]; lia.
             ++ replace (j / 2 =? m2)%nat with false by lia.
                destruct (j =? m2)%nat eqn:E2; [lia|].
                destruct (j =? i)%nat eqn:E3.
                ** assert (j = i) by lia. subst j. apply Hbridge; lia.
                ** apply Hedges; lia.
          -- intros c Hm2 Hc Hpar. rewrite !Hnth.
             replace (m2 / 2 =? m2)%nat with false by lia.
             replace (m2 / 2 =? i)%nat with true by lia.
             replace (c =? m2)%nat with false by lia.
             replace (c =? i)%nat with false by lia.
             rewrite <- Hpar. apply Hedges; lia.
        * exists d2. split; [exact Hs|]. split; [lia|]. split; [eapply perm_trans; eassumption|].
          split; [|exact Hinv]. rewrite Hz, Hnth.
          replace (0 =? m2)%nat with false by lia. replace (0 =? i)%nat with false by lia.
          reflexivity.
  Qed.

  (* ---------- consequences of the heap order ---------- *)

  Lemma root_is_min : forall d, heap_inv cmp d ->
    forall i, (1 <= i < length d)%nat -> le (d @ 1) (d @ i).
  Proof.
    intros d Hinv i. induction i as [i IH] using lt_wf_ind. intros Hi.
    destruct (Nat.eq_dec i 1) as [->|Hne]; [apply cmp_refl|].
    apply cmp_trans with (d @ (i / 2)); [apply IH; lia|apply Hinv; lia].
  Qed.

  Lemma root_is_min_contents : forall d, heap_inv cmp d -> is_min cmp (d @ 1) (tl d).
  Proof.
    intros d Hinv y Hy. destruct d as [|a t]; [contradiction|]. cbn [tl] in Hy.
    destruct (In_nth t y 0 Hy) as (k & Hk & Hnth).
    rewrite <- Hnth. change (nth k t 0) with ((a :: t) @ (S k)).
    apply root_is_min; [exact Hinv|]. cbn [length]. lia.
  Qed.

  (* ---------- the operations ---------- *)

  Lemma enqueue_spec : forall p v, well_formed cmp p ->
    (is_full p = true /\ enqueue cmp p v = (p, HErr EFull)) \/
    (is_full p = false /\ exists d',
       enqueue cmp p v = ({| capacity := capacity p; data := d' |}, HOk RUnit) /\
       well_formed cmp {| capacity := capacity p; data := d' |} /\
       Permutation d' (data p ++ [v]) /\ d' @ 0 = (data p) @ 0).
  Proof.
    intros p v (Hlen & Hinv & Hcap & Hbound). unfold enqueue.
    destruct (is_full p) eqn:Hfull; [left; split; reflexivity|right; split; [reflexivity|]].
    set (d := data p ++ [v]).
    assert (Hd : length d = S (length (data p))) by (subst d; rewrite app_length; cbn; lia).
    destruct (sift_up_spec (length d) d (length d - 1)) as (d' & Hs & Hl' & Hperm & Hz & Hinv').
    - lia.
    - lia.
    - split.
      + intros i Hi Hne. subst d. rewrite !app_nth1 by lia. apply Hinv. lia.
      + intros c Hk Hc Hpar. lia.
    - rewrite Hs. exists d'. split; [reflexivity|]. split; [|split].
      + split; [cbn [data]; lia|]. split; [exact Hinv'|]. split; [exact Hcap|].
        cbn [capacity]. intros Hpos. unfold pq_len in *. cbn [data]. unfold is_full in Hfull. lia.
      + apply Permutation_sym. exact Hperm.
      + rewrite Hz. subst d. rewrite app_nth1 by lia. reflexivity.
  Qed.

  Lemma dequeue_spec : forall p, well_formed cmp p ->
    (is_empty p = true /\ dequeue cmp p = (p, HErr EEmpty)) \/
    (is_empty p = false /\ exists d',
       dequeue cmp p = ({| capacity := capacity p; data := d' |}, HOk (RVal ((data p) @ 1))) /\
       well_formed cmp {| capacity := capacity p; data := d' |} /\
       Permutation (data p) ((data p) @ 1 :: d') /\ d' @ 0 = (data p) @ 0).
  Proof.
    intros p (Hlen & Hinv & Hcap & Hbound). unfold dequeue.
    destruct (is_empty p) eqn:Hemp; [left; split; reflexivity|right; split; [reflexivity|]].
    unfold is_empty in Hemp. set (d := data p) in *.
    assert (HL : (2 <= length d)%nat) by lia.
    rewrite !get_ok by lia. cbn [hbind].
    replace (1 <? length d)%nat with true by lia. cbn [hbind].
    set (lastv := d @ (length d - 1)).
    set (d1 := set_nth d 1 lastv).
    assert (Hl1 : length d1 = length d) by (subst d1; apply set_nth_length).
    replace (1 <=? length d1)%nat with true by lia. cbn [hbind].
    set (d2 := firstn (length d1 - 1) d1).
    assert (Hl2 : length d2 = (length d - 1)%nat) by (subst d2; rewrite firstn_length; lia).
    assert (Hsh : shrink_if_necessary p d2 = d2) by (unfold shrink_if_necessary, shrink; destruct (is_boundless p); reflexivity).
    rewrite Hsh.
    assert (Hd1 : d1 = d2 ++ [lastv]).
    { subst d2. rewrite <- (firstn_snoc d1) at 1 by lia. f_equal. f_equal.
      subst d1. rewrite nth_set_nth by lia. rewrite set_nth_length.
      destruct (length d - 1 =? 1)%nat; reflexivity. }
    destruct (heapify_spec (length d2) d2 1) as (d' & Hh & Hl' & Hperm & Hz & Hinv').
    - lia.
    - lia.
    - lia.
    - lia.
    - split.
      + intros j Hj Hpar. subst d2. rewrite !nth_firstn_lt by lia.
        subst d1. rewrite !nth_set_nth by lia.
        replace (j / 2 =? 1)%nat with false by lia. replace (j =? 1)%nat with false by lia.
        apply Hinv. lia.
      + intros c Hi. lia.
    - rewrite Hh. cbn [hbind]. exists d'. split; [reflexivity|]. split; [|split].
      + split; [cbn [data]; lia|]. split; [exact Hinv'|]. split; [exact Hcap|].
        cbn [capacity]. intros Hpos. specialize (Hbound Hpos). unfold pq_len in *. cbn [data].
        fold d in Hbound. lia.
      + (* lastv :: d  ~  d@1 :: d1 = d@1 :: d2 ++ [lastv] *)
        apply Permutation_cons_inv with (a := lastv).
        eapply perm_trans; [apply (set_nth_perm_cons d 1 lastv); lia|].
        fold d1. rewrite Hd1.
        eapply perm_trans; [|apply perm_swap]. apply perm_skip.
        eapply perm_trans; [apply Permutation_sym, Permutation_cons_append|].
        apply perm_skip. exact Hperm.
      + rewrite Hz. subst d2. rewrite nth_firstn_lt by lia. subst d1.
        rewrite nth_set_nth by lia. reflexivity.
  Qed.

  Lemma peek_spec : forall p, well_formed cmp p ->
    (is_empty p = true /\ peek p = HErr EEmpty) \/
    (is_empty p = false /\ peek p = HOk (RVal ((data p) @ 1))).
  Proof.
    intros p (Hlen & _). unfold peek.
    destruct (is_empty p) eqn:Hemp; [left; split; reflexivity|right; split; [reflexivity|]].
    unfold is_empty in Hemp. rewrite get_ok by lia. reflexivity.
  Qed.
End Proofs.
