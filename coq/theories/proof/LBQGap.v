(* Gap-closing proofs for ConcurrentLinkedBlockingQueue (model/LBQModel.v).

   Part 1 (C09, delivery side of capacity_after_cancellations).  In every reachable QUIESCENT
   configuration — whatever calls and cancellations happened before — a Dequeue executed alone
   ([call_alone]) returns the head after exactly 11 statements of its own, without parking,
   iff the list is non-empty, and parks on the open CURRENT channel of notEmpty iff it is
   empty; hence successive solo Dequeues deliver exactly the contents in FIFO order, and what a
   sequence of solo Enqueues accepted is delivered back in order.  A solo Enqueue/Dequeue parks
   ONLY when it cannot proceed: channel generations left behind by cancelled waiters never cause
   a park.  Same technique as proof/LBQProofCap.v (one equation per statement, chained through
   [run_alone]); its lemmas are reused.

   Part 2 (C07, composition with C04) is in the second half: LBQ over a list implementation
   (model/LBQOverList.v), simulation onto LBQModel, instances ListModel.LinkedList and
   LinkedPtrModel. *)
From Ekit Require Import Common Conc ListModel ListProof ListProof2.
From Ekit Require LinkedPtrModel LinkedPtrProof.
From Ekit Require Import LBQModel LBQOverList LBQProof LBQProof2 LBQProof3 LBQProof4 LBQProofCap.
From Coq Require Import ZifyBool Arith PeanoNat.

Local Arguments lbq_exec1 : simpl never.
Local Arguments run_alone : simpl never.

(* ---------- definitions of the statements ---------- *)
(* the Dequeues of the goroutines ts, one after the other, each executed alone;
   Some (c', xs) = every one of them returned a value with a nil error, xs = the values in order *)
Fixpoint drain_alone (c : lbq_cfg) (ts : list tid) : option (lbq_cfg * list Z) :=
  match ts with
  | [] => Some (c, [])
  | t :: r =>
    match call_alone c t ODeq with
    | Some (c1, Some (RVal x)) =>
      match drain_alone c1 r with
      | Some (c2, xs) => Some (c2, x :: xs)
      | None => None
      end
    | _ => None
    end
  end.

(* thread t is a Dequeue really blocked in its select: parked, context live, waiting on the
   CURRENT channel of notEmpty, which is open; the mutex is free; STEP t is not enabled *)
Definition parked_empty (c : lbq_cfg) (t : tid) : Prop :=
  q_thr c = [(t, mkloc ODeq PParked false (q_ne c) O RNil)] /\
  mem (q_ne c) (q_nec c) = false /\
  q_wlock c = None /\ q_readers c = O /\
  step_enabled c t = false.

(* ---------- one equation per statement of a solo Dequeue ---------- *)
Section DeqStatements.
  Variables (m : Z) (t : tid).

  (* mutex w, no reader, no error, the only call in flight is t's Dequeue at pc with locals *)
  Definition KD (its : list Z) (w : option tid) (e f : nat) (ec fc : list nat)
             (pc : lbq_pc) (sg old : nat) (res : lbq_res) (hh : list lbq_hev) : lbq_cfg :=
    mkcfg m its w O e f ec fc false [(t, mkloc ODeq pc false sg old res)] hh.

  Ltac one_step :=
    unfold KD, lbq_exec1; cbn [q_thr]; rewrite lookup_single;
    cbn [l_op is_qop]; unfold step_q, mv, fin, unlock, must_wait, qlen;
    cbn [l_pc l_op l_cancel l_sig l_old l_res set_pc set_sig set_old set_res
         q_thr q_wlock q_readers q_max q_items q_ne q_nf q_nec q_nfc q_bad q_hist
         set_thr set_wlock set_items add_hist set_cur add_closed cur closed wcond bcond];
    rewrite ?update_single, ?remove_single.

  Lemma sd_call items ne nf nec nfc h :
    lbq_step (mkcfg m items None O ne nf nec nfc false [] h) (QCall t ODeq) =
    Some (KD items None ne nf nec nfc PIf O O RNil (HCall t ODeq :: h)).
  Proof. reflexivity. Qed.

  Lemma sd_if its w e f ec fc sg old res hh :
    lbq_exec1 (KD its w e f ec fc PIf sg old res hh) (QStep t) =
    Some (KD its w e f ec fc PLock sg old res hh, [(t, OAt ODeq PLock)]).
  Proof. one_step. reflexivity. Qed.

  Lemma sd_lock its e f ec fc sg old res hh :
    lbq_exec1 (KD its None e f ec fc PLock sg old res hh) (QStep t) =
    Some (KD its (Some t) e f ec fc PFor sg old res hh, [(t, OAt ODeq PFor)]).
  Proof. one_step. reflexivity. Qed.

  (* for c.linkedlist.Len() == 0 *)
  Lemma sd_for its w e f ec fc sg old res hh :
    lbq_exec1 (KD its w e f ec fc PFor sg old res hh) (QStep t) =
    Some (KD its w e f ec fc (if Z.of_nat (length its) =? 0 then PSig else PAct) sg old res hh,
          [(t, OAt ODeq (if Z.of_nat (length its) =? 0 then PSig else PAct))]).
  Proof. one_step. reflexivity. Qed.

  (* val, err := c.linkedlist.Delete(0) *)
  Lemma sd_act x r w e f ec fc sg old res hh :
    lbq_exec1 (KD (x :: r) w e f ec fc PAct sg old res hh) (QStep t) =
    Some (KD r w e f ec fc PBcast sg old (RVal x) (HLin t ODeq (RVal x) :: hh), [(t, OAt ODeq PBcast)]).
  Proof. one_step. reflexivity. Qed.

  Lemma sd_bcast its w e f ec fc sg old res hh :
    lbq_exec1 (KD its w e f ec fc PBcast sg old res hh) (QStep t) =
    Some (KD its w e f ec fc BMake sg old res hh, [(t, OAt ODeq BMake)]).
  Proof. one_step. reflexivity. Qed.

  Lemma sd_bmake its w e f ec fc sg old res hh :
    lbq_exec1 (KD its w e f ec fc BMake sg old res hh) (QStep t) =
    Some (KD its w e f ec fc BOld sg old res hh, [(t, OAt ODeq BOld)]).
  Proof. one_step. reflexivity. Qed.

  Lemma sd_bold its w e f ec fc sg old res hh :
    lbq_exec1 (KD its w e f ec fc BOld sg old res hh) (QStep t) =
    Some (KD its w e f ec fc BSet sg f res hh, [(t, OAt ODeq BSet)]).
  Proof. one_step. reflexivity. Qed.

  Lemma sd_bset its w e f ec fc sg old res hh :
    lbq_exec1 (KD its w e f ec fc BSet sg old res hh) (QStep t) =
    Some (KD its w e (S f) ec fc BUnlock sg old res hh, [(t, OAt ODeq BUnlock)]).
  Proof. one_step. reflexivity. Qed.

  Lemma sd_bunlock its w e f ec fc sg old res hh :
    lbq_exec1 (KD its (Some w) e f ec fc BUnlock sg old res hh) (QStep t) =
    Some (KD its None e f ec fc BClose sg old res hh, [(t, OAt ODeq BClose)]).
  Proof. one_step. reflexivity. Qed.

  Lemma sd_bclose its w e f ec fc sg old res hh :
    mem old fc = false ->
    lbq_exec1 (KD its w e f ec fc BClose sg old res hh) (QStep t) =
    Some (KD its w e f ec (old :: fc) PRet sg old res hh, [(t, OAt ODeq PRet)]).
  Proof.
    intros Hm. one_step. rewrite Hm.
    cbn [wake_all wake1 woken woken_obs l_pc pc_eqb andb app]. reflexivity.
  Qed.

  Lemma sd_ret its w e f ec fc sg old res hh :
    lbq_exec1 (KD its w e f ec fc PRet sg old res hh) (QStep t) =
    Some (mkcfg m its w O e f ec fc false [] (HRet t res :: hh), [(t, ORet res)]).
  Proof. one_step. reflexivity. Qed.

  Lemma sd_sig its w e f ec fc sg old res hh :
    lbq_exec1 (KD its w e f ec fc PSig sg old res hh) (QStep t) =
    Some (KD its w e f ec fc SRes sg old res hh, [(t, OAt ODeq SRes)]).
  Proof. one_step. reflexivity. Qed.

  Lemma sd_sres its w e f ec fc sg old res hh :
    lbq_exec1 (KD its w e f ec fc SRes sg old res hh) (QStep t) =
    Some (KD its w e f ec fc SUnlock e old res hh, [(t, OAt ODeq SUnlock)]).
  Proof. one_step. reflexivity. Qed.

  Lemma sd_sunlock its w e f ec fc sg old res hh :
    lbq_exec1 (KD its (Some w) e f ec fc SUnlock sg old res hh) (QStep t) =
    Some (KD its None e f ec fc SRet sg old res hh, [(t, OAt ODeq SRet)]).
  Proof. one_step. reflexivity. Qed.

  Lemma sd_sret its w e f ec fc sg old res hh :
    lbq_exec1 (KD its w e f ec fc SRet sg old res hh) (QStep t) =
    Some (KD its w e f ec fc PSelect sg old res hh, [(t, OAt ODeq PSelect)]).
  Proof. one_step. reflexivity. Qed.

  Lemma sd_select its w e f ec fc sg old res hh :
    mem sg ec = false ->
    lbq_exec1 (KD its w e f ec fc PSelect sg old res hh) (QStep t) =
    Some (KD its w e f ec fc PParked sg old res hh, []).
  Proof. intros Hm. one_step. rewrite Hm. reflexivity. Qed.

  Lemma sd_parked its w e f ec fc sg old res hh :
    lbq_exec1 (KD its w e f ec fc PParked sg old res hh) (QStep t) = None.
  Proof. one_step. reflexivity. Qed.

  Lemma KD_lookup its w e f ec fc pc sg old res hh :
    lookup t (q_thr (KD its w e f ec fc pc sg old res hh)) = Some (mkloc ODeq pc false sg old res).
  Proof. unfold KD. cbn [q_thr]. apply lookup_single. Qed.
End DeqStatements.

Ltac contd L := erewrite run_alone_cont; [ | apply L | apply KD_lookup ].

(* the whole Dequeue, alone, on a non-empty list: 11 statements, any surplus of fuel unused *)
Lemma deq_run_nonempty fuel m x r ne nf nec nfc h t :
  mem nf nfc = false ->
  run_alone (11 + fuel) (KD m t (x :: r) None ne nf nec nfc PIf O O RNil (HCall t ODeq :: h)) t =
  Some (mkcfg m r None O ne (S nf) nec (nf :: nfc) false []
          (HRet t (RVal x) :: HLin t ODeq (RVal x) :: HCall t ODeq :: h), Some (RVal x)).
Proof.
  intros Hopen. cbn [Nat.add].
  contd sd_if. contd sd_lock. contd sd_for.
  replace (Z.of_nat (length (x :: r)) =? 0) with false by (cbn [length]; lia).
  contd sd_act. contd sd_bcast. contd sd_bmake. contd sd_bold. contd sd_bset. contd sd_bunlock.
  erewrite run_alone_cont; [ | apply sd_bclose; exact Hopen | apply KD_lookup ].
  erewrite run_alone_ret; [ reflexivity | apply sd_ret | reflexivity ].
Qed.

Lemma deq_alone_nonempty m x r ne nf nec nfc h t :
  mem nf nfc = false ->
  call_alone (mkcfg m (x :: r) None O ne nf nec nfc false [] h) t ODeq =
  Some (mkcfg m r None O ne (S nf) nec (nf :: nfc) false []
          (HRet t (RVal x) :: HLin t ODeq (RVal x) :: HCall t ODeq :: h), Some (RVal x)).
Proof.
  intros Hopen. unfold call_alone. rewrite sd_call.
  change 40%nat with (11 + 29)%nat. apply deq_run_nonempty. exact Hopen.
Qed.

(* the whole Dequeue, alone, on the empty list: it parks *)
Lemma deq_alone_empty m ne nf nec nfc h t :
  mem ne nec = false ->
  call_alone (mkcfg m [] None O ne nf nec nfc false [] h) t ODeq =
  Some (mkcfg m [] None O ne nf nec nfc false [(t, mkloc ODeq PParked false ne O RNil)]
          (HCall t ODeq :: h), None).
Proof.
  intros Hopen. unfold call_alone. rewrite sd_call.
  contd sd_if. contd sd_lock. contd sd_for. cbn [length Z.of_nat Z.eqb].
  contd sd_sig. contd sd_sres. contd sd_sunlock. contd sd_sret.
  erewrite run_alone_cont; [ | apply sd_select; exact Hopen | apply KD_lookup ].
  erewrite run_alone_blocked; [ reflexivity | apply sd_parked ].
Qed.

(* a solo run that returns used at most [fuel] statements *)
Lemma run_alone_exec_le f : forall c t c' r,
  run_alone f c t = Some (c', r) ->
  exists n, (n <= f)%nat /\ exec lbq_step c (lbq_steps t n) = Some c'.
Proof.
  induction f as [|f IH]; intros c t c' r H.
  - injection H as <- _. exists O. split; [lia|reflexivity].
  - unfold run_alone in H. fold run_alone in H.
    destruct (lbq_exec1 c (QStep t)) as [[c1 obs]|] eqn:E.
    + destruct (lookup t (q_thr c1)) as [l1|] eqn:El.
      * destruct (IH _ _ _ _ H) as [n [Hle Hn]]. exists (S n). split; [lia|].
        unfold lbq_steps. cbn [repeat exec]. unfold lbq_step at 1. rewrite E. exact Hn.
      * injection H as <- _. exists 1%nat. split; [lia|].
        unfold lbq_steps. cbn [repeat exec]. unfold lbq_step. rewrite E. reflexivity.
    + injection H as <- _. exists O. split; [lia|reflexivity].
Qed.

(* ---------- one solo Dequeue from a reachable quiescent configuration ---------- *)
Lemma dequeue_alone_delivers_head m evs c t x r :
  exec lbq_step (lbq_init m) evs = Some c -> quiescent c -> q_items c = x :: r ->
  exists c' evs' n,
    call_alone c t ODeq = Some (c', Some (RVal x)) /\
    q_items c' = r /\ quiescent c' /\
    exec lbq_step (lbq_init m) evs' = Some c' /\
    (* bounded: CALL + at most 11 own statements, every one of them enabled in turn *)
    (n <= 11)%nat /\ exec lbq_step c (QCall t ODeq :: lbq_steps t n) = Some c'.
Proof.
  intros Hr Hq Hit.
  destruct (quiescent_shape _ _ _ Hr Hq) as [items [ne [nf [nec [nfc [h [-> [He [Hf Hcap]]]]]]]]].
  cbn [q_items] in Hit. subst items.
  pose proof (deq_alone_nonempty m x r ne nf nec nfc h t Hf) as Hrun.
  destruct (call_alone_reachable _ _ _ _ _ _ _ Hr Hrun) as [evs' Hr'].
  pose proof (deq_run_nonempty 0 m x r ne nf nec nfc h t Hf) as H11. cbn [Nat.add] in H11.
  destruct (run_alone_exec_le _ _ _ _ _ H11) as [n [Hle Hn]].
  eexists. exists evs', n. split; [exact Hrun|]. split; [reflexivity|]. split; [reflexivity|].
  split; [exact Hr'|]. split; [exact Hle|].
  cbn [exec]. rewrite sd_call. exact Hn.
Qed.

Lemma dequeue_alone_parks_when_empty m evs c t :
  exec lbq_step (lbq_init m) evs = Some c -> quiescent c -> q_items c = [] ->
  exists c', call_alone c t ODeq = Some (c', None) /\ parked_empty c' t /\ q_items c' = [].
Proof.
  intros Hr Hq Hit.
  destruct (quiescent_shape _ _ _ Hr Hq) as [items [ne [nf [nec [nfc [h [-> [He [Hf Hcap]]]]]]]]].
  cbn [q_items] in Hit. subst items.
  pose proof (deq_alone_empty m ne nf nec nfc h t He) as Hrun.
  eexists. split; [exact Hrun|]. split; [|reflexivity].
  unfold parked_empty. cbn [q_thr q_ne q_nec q_wlock q_readers].
  split; [reflexivity|]. split; [exact He|]. split; [reflexivity|]. split; [reflexivity|].
  pose proof (sd_parked m t [] None ne nf nec nfc ne O RNil (HCall t ODeq :: h)) as Hs.
  unfold KD in Hs. unfold step_enabled. rewrite Hs. reflexivity.
Qed.

(* ---------- parks only if it cannot proceed ---------- *)
Theorem solo_parks_iff_cannot_proceed_lemma m evs c t :
  exec lbq_step (lbq_init m) evs = Some c -> quiescent c ->
  (* Dequeue *)
  ((exists c', call_alone c t ODeq = Some (c', None)) <-> q_items c = []) /\
  (forall x r, q_items c = x :: r -> exists c', call_alone c t ODeq = Some (c', Some (RVal x))) /\
  (* Enqueue *)
  (forall v, (exists c', call_alone c t (OEnq v) = Some (c', None)) <-> (0 < m /\ qlen c = m)) /\
  (forall v, ~ (0 < m /\ qlen c = m) -> exists c', call_alone c t (OEnq v) = Some (c', Some RNil)).
Proof.
  intros Hr Hq.
  pose proof (lbq_capacity_lemma m evs c Hr) as [_ Hcap].
  split; [|split; [|split]].
  - split.
    + intros [c' Hp]. destruct (q_items c) as [|x r] eqn:Ei; [reflexivity|].
      destruct (dequeue_alone_delivers_head m evs c t x r Hr Hq Ei) as [c1 [_ [_ [H1 _]]]]. congruence.
    + intros Hi. destruct (dequeue_alone_parks_when_empty m evs c t Hr Hq Hi) as [c' [H1 _]]. eauto.
  - intros x r Ei. destruct (dequeue_alone_delivers_head m evs c t x r Hr Hq Ei) as [c1 [_ [_ [H1 _]]]]. eauto.
  - intros v. split.
    + intros [c' Hp]. destruct (Z_lt_le_dec 0 m) as [Hm|Hm].
      * split; [exact Hm|]. specialize (Hcap Hm).
        destruct (Z.eq_dec (qlen c) m) as [E|E]; [exact E|exfalso].
        destruct (enqueue_alone_completes m evs c t v Hr Hq) as [c1 [_ [H1 _]]]; [lia|congruence].
      * exfalso. destruct (enqueue_alone_completes m evs c t v Hr Hq) as [c1 [_ [H1 _]]]; [lia|congruence].
    + intros [Hm Hf]. destruct (enqueue_alone_parks_when_full m evs c t v Hr Hq Hm Hf) as [c' [H1 _]]. eauto.
  - intros v Hn. destruct (enqueue_alone_completes m evs c t v Hr Hq) as [c1 [_ [H1 _]]]; [|eauto].
    intros Hm. specialize (Hcap Hm). lia.
Qed.

(* ---------- draining ---------- *)
Lemma drain_alone_ok m : forall ts evs c,
  exec lbq_step (lbq_init m) evs = Some c -> quiescent c ->
  (length ts <= length (q_items c))%nat ->
  exists c' evs',
    drain_alone c ts = Some (c', firstn (length ts) (q_items c)) /\
    q_items c' = skipn (length ts) (q_items c) /\ quiescent c' /\
    exec lbq_step (lbq_init m) evs' = Some c'.
Proof.
  induction ts as [|t ts IH]; intros evs c Hr Hq Hlen.
  - exists c, evs. cbn. auto.
  - cbn [length] in Hlen. destruct (q_items c) as [|x r] eqn:Ei; [cbn in Hlen; lia|].
    destruct (dequeue_alone_delivers_head m evs c t x r Hr Hq Ei) as [c1 [evs1 [_ [Hrun [Hi1 [Hq1 [Hr1 _]]]]]]].
    destruct (IH evs1 c1 Hr1 Hq1) as [c' [evs' [Hd [Hi' [Hq' Hr']]]]].
    { rewrite Hi1. cbn [length] in Hlen. lia. }
    exists c', evs'. cbn [drain_alone length firstn skipn]. rewrite Hrun, Hd, Hi1.
    split; [reflexivity|]. rewrite Hi', Hi1. auto.
Qed.

Lemma drain_alone_app a : forall c b,
  drain_alone c (a ++ b) =
  match drain_alone c a with
  | Some (c1, xs) => match drain_alone c1 b with Some (c2, ys) => Some (c2, xs ++ ys) | None => None end
  | None => None
  end.
Proof.
  induction a as [|t r IH]; intros c b; cbn [app drain_alone].
  - destruct (drain_alone c b) as [[c2 ys]|]; reflexivity.
  - destruct (call_alone c t ODeq) as [[c1 [[]|]]|]; try reflexivity.
    rewrite IH. destruct (drain_alone c1 r) as [[c2 xs]|]; [|reflexivity].
    destruct (drain_alone c2 b) as [[c3 ys]|]; reflexivity.
Qed.

(* the delivery side of capacity_after_cancellations *)
Theorem delivery_after_cancellations_lemma m evs c :
  exec lbq_step (lbq_init m) evs = Some c -> quiescent c ->
  (* as many solo Dequeues as there are elements deliver exactly the contents, in order ... *)
  (forall ts, length ts = length (q_items c) ->
     exists c',
       drain_alone c ts = Some (c', q_items c) /\ q_items c' = [] /\ quiescent c' /\
       (exists evs', exec lbq_step (lbq_init m) evs' = Some c') /\
       (* ... and the next one parks in its select *)
       forall t, exists c'', call_alone c' t ODeq = Some (c'', None) /\ parked_empty c'' t /\ q_items c'' = []) /\
  (* fewer deliver the corresponding prefix, more do not complete *)
  (forall ts, (length ts <= length (q_items c))%nat ->
     exists c', drain_alone c ts = Some (c', firstn (length ts) (q_items c)) /\
                q_items c' = skipn (length ts) (q_items c) /\ quiescent c') /\
  (forall ts, (length (q_items c) < length ts)%nat -> drain_alone c ts = None).
Proof.
  intros Hr Hq.
  assert (Hexact : forall ts, length ts = length (q_items c) ->
     exists c',
       drain_alone c ts = Some (c', q_items c) /\ q_items c' = [] /\ quiescent c' /\
       (exists evs', exec lbq_step (lbq_init m) evs' = Some c') /\
       forall t, exists c'', call_alone c' t ODeq = Some (c'', None) /\ parked_empty c'' t /\ q_items c'' = []).
  { intros ts Hlen.
    destruct (drain_alone_ok m ts evs c Hr Hq) as [c' [evs' [Hd [Hi [Hq' Hr']]]]]; [lia|].
    rewrite Hlen, firstn_all in Hd. rewrite Hlen, skipn_all in Hi.
    exists c'. split; [exact Hd|]. split; [exact Hi|]. split; [exact Hq'|]. split; [eauto|].
    intros t. apply (dequeue_alone_parks_when_empty m evs' c' t Hr' Hq' Hi). }
  split; [exact Hexact|]. split.
  - intros ts Hlen. destruct (drain_alone_ok m ts evs c Hr Hq Hlen) as [c' [evs' [Hd [Hi [Hq' _]]]]].
    exists c'. auto.
  - intros ts Hlen. set (n := length (q_items c)).
    assert (Hf : length (firstn n ts) = n) by (rewrite firstn_length; lia).
    destruct (Hexact (firstn n ts) Hf) as [c' [Hd [_ [_ [_ Hnext]]]]].
    rewrite <- (firstn_skipn n ts), drain_alone_app, Hd.
    destruct (skipn n ts) as [|t rest] eqn:Es.
    { exfalso. pose proof (skipn_length n ts) as Hs. rewrite Es in Hs. cbn [length] in Hs. lia. }
    cbn [drain_alone]. destruct (Hnext t) as [c'' [Hrun _]]. rewrite Hrun. reflexivity.
Qed.

(* accept AND deliver: what solo Enqueues put in on top of the contents comes out, in order *)
Theorem accept_then_deliver_lemma m evs c calls ts :
  exec lbq_step (lbq_init m) evs = Some c -> quiescent c ->
  (0 < m -> Z.of_nat (length calls) <= m - qlen c) ->
  length ts = (length (q_items c) + length calls)%nat ->
  exists c1 c2,
    fill_alone c calls = Some c1 /\
    drain_alone c1 ts = Some (c2, q_items c ++ map snd calls) /\
    q_items c2 = [] /\ quiescent c2.
Proof.
  intros Hr Hq Hroom Hlen.
  destruct (fill_alone_ok m calls evs c Hr Hq Hroom) as [c1 [evs1 [Hfill [Hi1 [Hq1 Hr1]]]]].
  destruct (delivery_after_cancellations_lemma m evs1 c1 Hr1 Hq1) as [Hex _].
  destruct (Hex ts) as [c2 [Hd [Hi2 [Hq2 _]]]].
  { rewrite Hi1, app_length, map_length. exact Hlen. }
  exists c1, c2. rewrite Hi1 in Hd. auto.
Qed.

(* ====================================================================================== *)
(* Part 2: LBQ over a list implementation projects onto LBQModel                           *)
(* ====================================================================================== *)

Lemma closed_set_items c its k : closed (set_items c its) k = closed c k.
Proof. destruct k; reflexivity. Qed.
Lemma cur_set_items c its k : cur (set_items c its) k = cur c k.
Proof. destruct k; reflexivity. Qed.
Lemma set_cur_set_items c its k g : set_cur (set_items c its) k g = set_items (set_cur c k g) its.
Proof. destruct k; reflexivity. Qed.
Lemma add_closed_set_items c its k g : add_closed (set_items c its) k g = set_items (add_closed c k g) its.
Proof. destruct k; reflexivity. Qed.

(* the statements that do not call the list do not look at [q_items] and leave it alone *)
Lemma exec1_set_items c its e :
  reads_list c e = false ->
  lbq_exec1 (set_items c its) e =
  match lbq_exec1 c e with Some (c', obs) => Some (set_items c' its, obs) | None => None end.
Proof.
  intros H. unfold reads_list in H. unfold lbq_exec1.
  destruct e as [t o|t|t|t]; cbn [q_thr set_items].
  - destruct (lookup t (q_thr c)); reflexivity.
  - destruct (lookup t (q_thr c)) as [l|] eqn:Hl; [|reflexivity].
    destruct (is_qop (l_op l)) eqn:Hq.
    + unfold step_q, mv, fin, unlock.
      destruct (l_pc l) eqn:Hpc; try discriminate H; try reflexivity;
        rewrite ?closed_set_items, ?cur_set_items, ?set_cur_set_items, ?add_closed_set_items, ?q_thr_set_cur;
        cbn [q_wlock q_readers set_items q_thr]; rewrite ?q_thr_set_cur;
        repeat match goal with
               | |- context [match ?x with _ => _ end] =>
                 match x with
                 | context [match _ with _ => _ end] => fail 1
                 | _ => destruct x eqn:?
                 end
               end; try reflexivity.
    + unfold step_r, mv, fin, runlock.
      destruct (l_pc l) eqn:Hpc; try discriminate H; try reflexivity;
        cbn [q_wlock q_readers set_items q_thr];
        repeat match goal with
               | |- context [match ?x with _ => _ end] =>
                 match x with
                 | context [match _ with _ => _ end] => fail 1
                 | _ => destruct x eqn:?
                 end
               end; try reflexivity; try discriminate H.
  - destruct (lookup t (q_thr c)) as [l|]; [|reflexivity].
    unfold mv. destruct (is_qop (l_op l) && pc_eqb (l_pc l) PSelect && l_cancel l); reflexivity.
  - destruct (lookup t (q_thr c)) as [l|]; [|reflexivity].
    unfold mv. destruct (l_cancel l); [reflexivity|]. destruct (pc_eqb (l_pc l) PParked); reflexivity.
Qed.

Lemma canon_ok_inv r x :
  canon r = Ok x -> (forall c, x <> OCap c) -> r = Ok x.
Proof.
  intros H Hx. destruct r as [y|e|]; cbn in H; try discriminate H.
  destruct y; cbn in H; try exact H. injection H as <-. exfalso. apply (Hx 0). reflexivity.
Qed.

Lemma canon_err_inv r e : canon r = Err e -> r = Err e.
Proof. destruct r as [y|e'|]; cbn; try discriminate; [destruct y; discriminate|auto]. Qed.

Section Simulation.
  Variable IL : Type.
  Variable istep : IL -> op -> option (IL * outcome out).
  Variable iview : IL -> list Z.          (* the sequence an inner-list state represents *)
  Variable iwf : IL -> Prop.              (* its representation invariant *)
  (* what C04 proves about the implementation: every operation on a well-formed state returns
     (up to the capacity, which LBQ never asks for) what the abstract sequence returns, leaves a
     well-formed state representing the sequence's successor, and does not panic *)
  Hypothesis ilaw : forall s o, iwf s ->
    exists r s', istep s o = Some (s', r) /\ iwf s' /\
                 canon r = snd (seq_step (iview s) o) /\ iview s' = fst (seq_step (iview s) o).

  Notation oexec1 := (olbq_exec1 istep).

  Lemma law_len il : iwf il ->
    exists il', olen IL istep il = Some (il', Z.of_nat (length (iview il))) /\ iwf il' /\ iview il' = iview il.
  Proof.
    intros Hwf. destruct (ilaw il OpLen Hwf) as [r [il' [He [Hwf' [Hc Hv]]]]]. cbn in Hc, Hv.
    apply canon_ok_inv in Hc; [|discriminate]. subst r.
    exists il'. unfold olen. rewrite He. auto.
  Qed.

  Lemma law_wait c il o : iwf il -> is_qop o = true ->
    exists il', oeval_wait IL istep c il o = Some (il', must_wait (set_items c (iview il)) o) /\
                iwf il' /\ iview il' = iview il.
  Proof.
    intros Hwf Hq. destruct (law_len il Hwf) as [il' [Hl [Hwf' Hv]]].
    unfold oeval_wait, must_wait, qlen. cbn [q_items q_max set_items].
    destruct o as [v| | |]; try discriminate Hq.
    - destruct (0 <? q_max c) eqn:E.
      + rewrite Hl. exists il'. auto.
      + exists il. auto.
    - rewrite Hl. exists il'. auto.
  Qed.

  Lemma law_append il v : iwf il ->
    exists il', istep il (OpAppend [v]) = Some (il', Ok OUnit) /\ iwf il' /\ iview il' = iview il ++ [v].
  Proof.
    intros Hwf. destruct (ilaw il (OpAppend [v]) Hwf) as [r [il' [He [Hwf' [Hc Hv]]]]]. cbn in Hc, Hv.
    apply canon_ok_inv in Hc; [|discriminate]. subst r. exists il'. auto.
  Qed.

  Lemma law_delete0 il : iwf il ->
    match iview il with
    | [] => exists il', istep il (OpDelete 0) = Some (il', Err EIndex) /\ iwf il' /\ iview il' = []
    | x :: r => exists il', istep il (OpDelete 0) = Some (il', Ok (OVal x)) /\ iwf il' /\ iview il' = r
    end.
  Proof.
    intros Hwf. destruct (ilaw il (OpDelete 0) Hwf) as [r [il' [He [Hwf' [Hc Hv]]]]].
    destruct (iview il) as [|x rest] eqn:Ei; cbn in Hc, Hv.
    - apply canon_err_inv in Hc. subst r. exists il'. auto.
    - unfold in_idx, zlen in Hc, Hv. cbn [length] in Hc, Hv.
      replace ((0 <=? 0) && (0 <? Z.of_nat (S (length rest)))) with true in Hc, Hv by lia.
      cbn in Hc, Hv. apply canon_ok_inv in Hc; [|discriminate]. subst r. exists il'. auto.
  Qed.

  Lemma law_asslice il : iwf il ->
    exists il', istep il OpAsSlice = Some (il', Ok (OSlice false (iview il))) /\ iwf il' /\ iview il' = iview il.
  Proof.
    intros Hwf. destruct (ilaw il OpAsSlice Hwf) as [r [il' [He [Hwf' [Hc Hv]]]]]. cbn in Hc, Hv.
    apply canon_ok_inv in Hc; [|discriminate]. subst r. exists il'. auto.
  Qed.

  (* the projection: control part + the sequence the inner list represents *)
  Definition proj (s : ocfg IL) : lbq_cfg := set_items (fst s) (iview (snd s)).
  Definition osim (s : ocfg IL) (ca : lbq_cfg) : Prop := ca = proj s /\ iwf (snd s).

  (* one event: the composed system takes a step iff LBQModel does, with the same observations,
     and the successors are related again (both semantics are functions: this is a bisimulation) *)
  Lemma olbq_step_projects s ca e :
    osim s ca ->
    match oexec1 s e with
    | Some (s', obs) => exists ca', lbq_exec1 ca e = Some (ca', obs) /\ osim s' ca'
    | None => lbq_exec1 ca e = None
    end.
  Proof.
    destruct s as [c il]. intros [-> Hwf]. unfold proj. cbn [fst snd].
    unfold olbq_exec1. destruct (reads_list c e) eqn:Hr.
    - unfold reads_list in Hr. destruct e as [t o|t|t|t]; try discriminate Hr.
      destruct (lookup t (q_thr c)) as [l|] eqn:Hl; [|discriminate Hr].
      unfold lbq_exec1. cbn [q_thr set_items]. rewrite Hl.
      destruct (is_qop (l_op l)) eqn:Hq.
      + unfold ostep_list, step_q. destruct (l_pc l) eqn:Hpc; try discriminate Hr.
        * (* the loop condition *)
          destruct (law_wait c il (l_op l) Hwf Hq) as [il' [Hw [Hwf' Hv]]]. rewrite Hw.
          unfold omv, mv. eexists. split; [reflexivity|]. split; [|exact Hwf'].
          unfold proj. cbn [fst snd]. rewrite Hv. reflexivity.
        * (* c.mutex.Lock() + re-check *)
          cbn [q_wlock q_readers set_items].
          destruct (q_wlock c); [reflexivity|]. destruct (q_readers c); [|reflexivity].
          destruct (law_wait c il (l_op l) Hwf Hq) as [il' [Hw [Hwf' Hv]]]. rewrite Hw.
          unfold omv, mv. eexists. split; [reflexivity|]. split; [|exact Hwf'].
          unfold proj. cbn [fst snd]. rewrite Hv. reflexivity.
        * (* Append / Delete(0) *)
          destruct (l_op l) as [v| | |] eqn:Eo; try discriminate Hq.
          -- destruct (law_append il v Hwf) as [il' [Ha [Hwf' Hv]]]. rewrite Ha.
             unfold omv, mv. eexists. split; [reflexivity|]. split; [|exact Hwf'].
             unfold proj. cbn [fst snd q_items set_items]. rewrite Hv. reflexivity.
          -- pose proof (law_delete0 il Hwf) as Hd. cbn [q_items set_items].
             destruct (iview il) as [|x r] eqn:Ei; destruct Hd as [il' [Ha [Hwf' Hv]]]; rewrite Ha;
               unfold omv, mv; (eexists; split; [reflexivity|]; split; [|exact Hwf']);
               unfold proj; cbn [fst snd]; rewrite Hv, ?Ei; reflexivity.
      + unfold ostep_list, step_r. destruct (l_pc l) eqn:Hpc; try discriminate Hr.
        * (* res := c.linkedlist.AsSlice() *)
          destruct (law_asslice il Hwf) as [il' [Ha [Hwf' Hv]]]. rewrite Ha.
          destruct (l_op l) eqn:Eo; try discriminate Hr.
          unfold omv, mv. cbn [q_items set_items]. eexists. split; [reflexivity|]. split; [|exact Hwf'].
          unfold proj. cbn [fst snd]. rewrite Hv. reflexivity.
        * (* return c.linkedlist.Len() *)
          destruct (l_op l) eqn:Eo; try discriminate Hr.
          destruct (law_len il Hwf) as [il' [Ha [Hwf' Hv]]]. rewrite Ha.
          unfold ofin, fin, qlen, runlock. cbn [q_items q_readers set_items].
          destruct (q_readers c); (eexists; split; [reflexivity|]; split; [|exact Hwf']);
            unfold proj; cbn [fst snd]; rewrite Hv; reflexivity.
    - rewrite (exec1_set_items c (iview il) e Hr).
      destruct (lbq_exec1 c e) as [[c' obs]|]; [|reflexivity].
      eexists. split; [reflexivity|]. split; [reflexivity|exact Hwf].
  Qed.
End Simulation.

(* ---------- runs ---------- *)
Lemma trace_exec : forall evs c c' tr,
  trace lbq_exec1 c evs = Some (c', tr) -> exec lbq_step c evs = Some c'.
Proof.
  induction evs as [|e r IH]; intros c c' tr H; cbn [trace exec] in *.
  - injection H as <- _. reflexivity.
  - unfold lbq_step at 1. destruct (lbq_exec1 c e) as [[c1 o]|]; [|discriminate].
    destruct (trace lbq_exec1 c1 r) as [[c2 os]|] eqn:E; [|discriminate].
    injection H as <- _. apply (IH _ _ _ E).
Qed.

Lemma exec_trace : forall evs c c',
  exec lbq_step c evs = Some c' -> exists tr, trace lbq_exec1 c evs = Some (c', tr).
Proof.
  induction evs as [|e r IH]; intros c c' H; cbn [trace exec] in *.
  - injection H as <-. eauto.
  - unfold lbq_step in H at 1. destruct (lbq_exec1 c e) as [[c1 o]|]; [|discriminate].
    destruct (IH _ _ H) as [tr Ht]. rewrite Ht. eauto.
Qed.

(* no call of a reachable run returns the list's error or panics, along the whole trace *)
Definition clean_obs (obs : list (tid * lbq_obs)) : Prop :=
  forall t, ~ In (t, ORet RDelErr) obs /\ ~ In (t, ORet RPanic) obs.

Lemma trace_clean m : forall evs evs0 c0 c tr,
  exec lbq_step (lbq_init m) evs0 = Some c0 -> trace lbq_exec1 c0 evs = Some (c, tr) ->
  Forall clean_obs tr.
Proof.
  induction evs as [|e r IH]; intros evs0 c0 c tr Hr H; cbn [trace] in H.
  - injection H as _ <-. constructor.
  - destruct (lbq_exec1 c0 e) as [[c1 o]|] eqn:E; [|discriminate].
    destruct (trace lbq_exec1 c1 r) as [[c2 os]|] eqn:Et; [|discriminate].
    injection H as _ <-. constructor.
    + intros t. apply (proj2 (lbq_delete0_never_fails_lemma m evs0 c0 Hr) e c1 o t E).
    + apply (IH (evs0 ++ [e]) c1 c2 os); [|exact Et].
      rewrite exec_app, Hr. cbn [exec]. unfold lbq_step. rewrite E. reflexivity.
Qed.

Section Runs.
  Variable IL : Type.
  Variable istep : IL -> op -> option (IL * outcome out).
  Variable iview : IL -> list Z.
  Variable iwf : IL -> Prop.
  Hypothesis ilaw : forall s o, iwf s ->
    exists r s', istep s o = Some (s', r) /\ iwf s' /\
                 canon r = snd (seq_step (iview s) o) /\ iview s' = fst (seq_step (iview s) o).

  Notation oexec1 := (olbq_exec1 istep).
  Notation oproj := (proj IL iview).
  Notation orel := (osim IL iview iwf).

  (* every event list: the composed system accepts it iff LBQModel does, the observation traces
     are equal, the final states are related *)
  Lemma olbq_trace_projects : forall evs s ca,
    orel s ca ->
    match trace oexec1 s evs with
    | Some (s', tr) => exists ca', trace lbq_exec1 ca evs = Some (ca', tr) /\ orel s' ca'
    | None => trace lbq_exec1 ca evs = None
    end.
  Proof.
    induction evs as [|e r IH]; intros s ca Hs; cbn [trace].
    - exists ca. auto.
    - pose proof (olbq_step_projects IL istep iview iwf ilaw s ca e Hs) as H1.
      destruct (oexec1 s e) as [[s1 o]|].
      + destruct H1 as [ca1 [E1 Hs1]]. rewrite E1.
        pose proof (IH s1 ca1 Hs1) as H2.
        destruct (trace oexec1 s1 r) as [[s2 os]|].
        * destruct H2 as [ca2 [E2 Hs2]]. rewrite E2. eauto.
        * rewrite H2. reflexivity.
      + rewrite H1. reflexivity.
  Qed.

  Variable m : Z.
  Variable il0 : IL.
  Hypothesis il0_wf : iwf il0.
  Hypothesis il0_empty : iview il0 = [].

  Lemma orel_init : orel (olbq_init m il0) (lbq_init m).
  Proof. split; [|exact il0_wf]. unfold proj, olbq_init. cbn [fst snd]. rewrite il0_empty. reflexivity. Qed.

  (* soundness: a run of the composed system is a run of LBQModel with the same observations *)
  Theorem olbq_run_projects_lemma evs s tr :
    trace oexec1 (olbq_init m il0) evs = Some (s, tr) ->
    trace lbq_exec1 (lbq_init m) evs = Some (oproj s, tr) /\
    exec lbq_step (lbq_init m) evs = Some (oproj s) /\ iwf (snd s).
  Proof.
    intros H. pose proof (olbq_trace_projects evs _ _ orel_init) as P. rewrite H in P.
    destruct P as [ca [Ht [-> Hwf]]]. split; [exact Ht|]. split; [exact (trace_exec _ _ _ _ Ht)|exact Hwf].
  Qed.

  (* completeness: every run of LBQModel is a run of the composed system (the list
     implementation never blocks, fails or panics where the abstract sequence proceeds) *)
  Theorem olbq_run_complete_lemma evs ca :
    exec lbq_step (lbq_init m) evs = Some ca ->
    exists s tr, trace oexec1 (olbq_init m il0) evs = Some (s, tr) /\ ca = oproj s /\
                 trace lbq_exec1 (lbq_init m) evs = Some (ca, tr).
  Proof.
    intros H. destruct (exec_trace _ _ _ H) as [tr Ht].
    pose proof (olbq_trace_projects evs _ _ orel_init) as P.
    destruct (trace oexec1 (olbq_init m il0) evs) as [[s tr']|].
    - destruct P as [ca' [Ht' [Hp _]]]. rewrite Ht in Ht'. injection Ht' as <- <-.
      exists s, tr. auto.
    - rewrite Ht in P. discriminate.
  Qed.

  (* the C07 theorems with the inner list replaced by the implementation *)
  Theorem olbq_c07_lemma evs s tr :
    trace oexec1 (olbq_init m il0) evs = Some (s, tr) ->
    let c := fst s in let its := iview (snd s) in
    iwf (snd s) /\
    (* capacity, on the implementation's contents *)
    (0 <= Z.of_nat (length its) /\ (0 < m -> Z.of_nat (length its) <= m)) /\
    (* no goroutine died in the list, no unlock of an unlocked mutex, no double close *)
    q_bad c = false /\
    (* mutual exclusion *)
    (forall t l, lookup t (q_thr c) = Some l -> in_cs (l_pc l) = true -> q_wlock c = Some t) /\
    (* linearizability w.r.t. the bounded FIFO specification, exactly-once, FIFO *)
    lin_run m (q_hist c) = Some its /\
    (forall t, phase t (q_hist c) = Some (cur_phase c t)) /\
    lin_enqs (q_hist c) = lin_deqs (q_hist c) ++ its /\
    (* Append / Delete(0) / Len / AsSlice never failed or panicked when LBQ called them *)
    Forall clean_obs tr /\
    (* a Dequeue about to call Delete(0) finds the implementation's list non-empty *)
    (forall t l, lookup t (q_thr c) = Some l -> l_op l = ODeq -> l_pc l = PAct -> its <> []).
  Proof.
    intros H c its. destruct (olbq_run_projects_lemma evs s tr H) as [Ht [Hr Hwf]].
    split; [exact Hwf|].
    pose proof (lbq_capacity_lemma m evs _ Hr) as Hcap.
    pose proof (lbq_mutual_exclusion_lemma m evs _ Hr) as [Hcs [_ [_ [_ Hbad]]]].
    pose proof (lbq_linearizable_lemma m evs _ Hr) as [Hlin Hph].
    pose proof (lbq_exactly_once_fifo_lemma m evs _ Hr) as Hfifo.
    pose proof (proj1 (lbq_delete0_never_fails_lemma m evs _ Hr)) as Hdel.
    split; [exact Hcap|]. split; [exact Hbad|]. split; [exact Hcs|].
    split; [exact Hlin|]. split; [exact Hph|]. split; [exact Hfifo|].
    split; [|exact Hdel].
    apply (trace_clean m evs [] (lbq_init m) (oproj s) tr eq_refl Ht).
  Qed.
End Runs.

(* ---------- instance 1: ListModel's LinkedList ---------- *)
Definition ll_ok (l : llist) : Prop := llen l = zlen (lnodes l).

Lemma ll_law : forall s o, ll_ok s ->
  exists r s', ll_istep s o = Some (s', r) /\ ll_ok s' /\
               canon r = snd (seq_step (lnodes s) o) /\ lnodes s' = fst (seq_step (lnodes s) o).
Proof.
  intros s o Hwf. destruct (ll_step_refines s o Hwf) as [H1 [H2 H3]].
  exists (snd (ll_step s o)), (fst (ll_step s o)). unfold ll_istep.
  split; [destruct (ll_step s o); reflexivity|]. split; [exact H3|]. auto.
Qed.

Theorem lbq_over_linkedlist_projects_lemma m evs s tr :
  trace (olbq_exec1 ll_istep) (olbq_init m ll_new) evs = Some (s, tr) ->
  trace lbq_exec1 (lbq_init m) evs = Some (proj llist lnodes s, tr) /\
  exec lbq_step (lbq_init m) evs = Some (proj llist lnodes s) /\ ll_ok (snd s).
Proof. apply (olbq_run_projects_lemma llist ll_istep lnodes ll_ok ll_law m ll_new eq_refl eq_refl). Qed.

Theorem lbq_over_linkedlist_complete_lemma m evs ca :
  exec lbq_step (lbq_init m) evs = Some ca ->
  exists s tr, trace (olbq_exec1 ll_istep) (olbq_init m ll_new) evs = Some (s, tr) /\
               ca = proj llist lnodes s /\ trace lbq_exec1 (lbq_init m) evs = Some (ca, tr).
Proof. apply (olbq_run_complete_lemma llist ll_istep lnodes ll_ok ll_law m ll_new eq_refl eq_refl). Qed.

Theorem lbq_over_linkedlist_c07_lemma m evs s tr :
  trace (olbq_exec1 ll_istep) (olbq_init m ll_new) evs = Some (s, tr) ->
  let c := fst s in let its := lnodes (snd s) in
  ll_ok (snd s) /\
  (0 <= Z.of_nat (length its) /\ (0 < m -> Z.of_nat (length its) <= m)) /\
  q_bad c = false /\
  (forall t l, lookup t (q_thr c) = Some l -> in_cs (l_pc l) = true -> q_wlock c = Some t) /\
  lin_run m (q_hist c) = Some its /\
  (forall t, phase t (q_hist c) = Some (cur_phase c t)) /\
  lin_enqs (q_hist c) = lin_deqs (q_hist c) ++ its /\
  Forall clean_obs tr /\
  (forall t l, lookup t (q_thr c) = Some l -> l_op l = ODeq -> l_pc l = PAct -> its <> []).
Proof. apply (olbq_c07_lemma llist ll_istep lnodes ll_ok ll_law m ll_new eq_refl eq_refl). Qed.

(* ---------- instance 2: the pointer-level model ---------- *)
Lemma ptr_law : forall s o, LinkedPtrModel.ll_wf s ->
  exists r s', ptr_istep s o = Some (s', r) /\ LinkedPtrModel.ll_wf s' /\
               canon r = snd (seq_step (LinkedPtrModel.fwd_vals s) o) /\
               LinkedPtrModel.fwd_vals s' = fst (seq_step (LinkedPtrModel.fwd_vals s) o).
Proof.
  intros s o Hwf.
  destruct (LinkedPtrProof.step_refines_lemma s o Hwf) as [r [s' [He [Hwf' [_ [_ [_ [_ [Hc [Hv _]]]]]]]]]].
  exists r, s'. unfold ptr_istep. rewrite He. auto.
Qed.

Theorem lbq_over_ptr_projects_lemma m s0 evs s tr :
  LinkedPtrModel.ll_wf s0 -> LinkedPtrModel.fwd_vals s0 = [] ->
  trace (olbq_exec1 ptr_istep) (olbq_init m s0) evs = Some (s, tr) ->
  trace lbq_exec1 (lbq_init m) evs = Some (proj _ LinkedPtrModel.fwd_vals s, tr) /\
  exec lbq_step (lbq_init m) evs = Some (proj _ LinkedPtrModel.fwd_vals s) /\ LinkedPtrModel.ll_wf (snd s).
Proof.
  intros Hwf He. apply (olbq_run_projects_lemma _ ptr_istep _ LinkedPtrModel.ll_wf ptr_law m s0 Hwf He).
Qed.

Theorem lbq_over_ptr_complete_lemma m s0 evs ca :
  LinkedPtrModel.ll_wf s0 -> LinkedPtrModel.fwd_vals s0 = [] ->
  exec lbq_step (lbq_init m) evs = Some ca ->
  exists s tr, trace (olbq_exec1 ptr_istep) (olbq_init m s0) evs = Some (s, tr) /\
               ca = proj _ LinkedPtrModel.fwd_vals s /\ trace lbq_exec1 (lbq_init m) evs = Some (ca, tr).
Proof.
  intros Hwf He. apply (olbq_run_complete_lemma _ ptr_istep _ LinkedPtrModel.ll_wf ptr_law m s0 Hwf He).
Qed.

Theorem lbq_over_ptr_c07_lemma m s0 evs s tr :
  LinkedPtrModel.ll_wf s0 -> LinkedPtrModel.fwd_vals s0 = [] ->
  trace (olbq_exec1 ptr_istep) (olbq_init m s0) evs = Some (s, tr) ->
  let c := fst s in let its := LinkedPtrModel.fwd_vals (snd s) in
  LinkedPtrModel.ll_wf (snd s) /\
  (0 <= Z.of_nat (length its) /\ (0 < m -> Z.of_nat (length its) <= m)) /\
  q_bad c = false /\
  (forall t l, lookup t (q_thr c) = Some l -> in_cs (l_pc l) = true -> q_wlock c = Some t) /\
  lin_run m (q_hist c) = Some its /\
  (forall t, phase t (q_hist c) = Some (cur_phase c t)) /\
  lin_enqs (q_hist c) = lin_deqs (q_hist c) ++ its /\
  Forall clean_obs tr /\
  (forall t l, lookup t (q_thr c) = Some l -> l_op l = ODeq -> l_pc l = PAct -> its <> []).
Proof.
  intros Hwf He. apply (olbq_c07_lemma _ ptr_istep _ LinkedPtrModel.ll_wf ptr_law m s0 Hwf He).
Qed.

(* NewLinkedList() of the pointer model is a legal initial inner list *)
Lemma ptr_new_ok :
  exists s0, LinkedPtrModel.pNew LinkedPtrModel.lp_empty = LinkedPtrModel.ROk tt s0 /\
             LinkedPtrModel.ll_wf s0 /\ LinkedPtrModel.fwd_vals s0 = [].
Proof.
  destruct LinkedPtrProof.new_wf_lemma as [s [H1 [H2 [H3 _]]]]. exists s. auto.
Qed.
