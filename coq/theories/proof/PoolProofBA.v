(* PoolModel (pool.OnDemandBlockTaskPool), proofs for C12 / liveness side of C10 - BA: the thread table is a finite map (no tid twice); spawned workers get fresh tids *)
From Ekit Require Import Common Conc PoolModel PoolProofB0.
From Coq Require Import ZifyBool Arith PeanoNat.

Record invA (c : pcfg) : Prop := {
  a_nodup : NoDup (tids (c_thr c));
  a_lt : Forall (fun t => (t < c_next c)%nat) (tids (c_thr c));
  a_base : (i_base (c_par c) <= c_next c)%nat
}.

Lemma invA_init P : invA (pinit P).
Proof. constructor; cbn; [constructor|constructor|lia]. Qed.

Lemma tids_wake_all (g : thr -> thr) l : tids (fst (wake_all g l)) = tids l.
Proof.
  unfold tids. induction l as [|[t x] r IH]; cbn [wake_all fst map]; [reflexivity|].
  destruct (wake_all g r) as [r' w]. cbn [fst] in IH. destruct (is_parked x); cbn [fst map]; rewrite IH; reflexivity.
Qed.

Lemma in_tids_remove (t x : tid) (l : list (tid * thr)) : In x (tids (remove t l)) -> In x (tids l).
Proof.
  induction l as [|[t' p'] r IH]; cbn; [tauto|]. destruct (Nat.eqb t t'); cbn; tauto.
Qed.

Lemma apply_out_tids c t o c' obs :
  apply_out c t o = Some (c', obs) ->
  exists l1, (l1 = tids (c_thr c) \/ l1 = tids (remove t (c_thr c))) /\
    tids (c_thr c') = match o_spawn o with Some _ => l1 ++ [c_next c] | None => l1 end /\
    c_next c' = match o_spawn o with Some _ => S (c_next c) | None => c_next c end /\
    c_par c' = c_par c.
Proof.
  unfold apply_out.
  set (l1 := match o_th o with Some th' => update t th' (c_thr c) | None => remove t (c_thr c) end).
  destruct (apply_wake (o_wake o) l1) as [[l2 woken]|] eqn:Ew; [|discriminate].
  intros H; injection H as <- _. cbn [c_thr c_next c_par].
  assert (H2 : tids l2 = tids l1).
  { unfold apply_wake in Ew. destruct (o_wake o) as [|r k| |].
    - congruence.
    - destruct (lookup r l1) as [x|]; [|discriminate]. destruct (is_parked x); [|discriminate].
      assert (E : l2 = update r (recv_ok k x) l1) by congruence. rewrite E. apply tids_update.
    - assert (E : l2 = fst (wake_all recv_closed l1)) by (destruct (wake_all recv_closed l1); cbn [fst]; congruence).
      rewrite E. apply tids_wake_all.
    - assert (E : l2 = fst (wake_all recv_int l1)) by (destruct (wake_all recv_int l1); cbn [fst]; congruence).
      rewrite E. apply tids_wake_all. }
  exists (tids l1). split.
  - subst l1. destruct (o_th o); [left; apply tids_update|right; reflexivity].
  - split; [|split; reflexivity]. destruct (o_spawn o); [rewrite tids_spawn, H2; reflexivity|exact H2].
Qed.

Lemma nodup_snoc (a : nat) l : NoDup l -> ~ In a l -> NoDup (l ++ [a]).
Proof.
  induction l as [|x xs IH]; cbn; intros Hn Hi.
  - constructor; [tauto|constructor].
  - inversion Hn as [|y ys Hx Hxs]; subst. constructor.
    + rewrite in_app_iff. cbn. intros [H|[H|[]]]; [tauto|]. subst. apply Hi. left; reflexivity.
    + apply IH; [exact Hxs|]. intros H. apply Hi. right; exact H.
Qed.

Lemma invA_step c e c' : invA c -> pstep_cfg c e = Some c' -> invA c'.
Proof.
  intros [I1 I2 I3] Hstep.
  destruct (step_cases _ _ _ Hstep) as [(t & op & -> & Hl & Hb & -> & _)|(th & o & obs & Hl & Ho & Ha)].
  - constructor; cbn [call_cfg c_thr c_next c_par].
    + apply nodup_spawn; assumption.
    + rewrite tids_spawn. apply Forall_app. split; [exact I2|constructor; [lia|constructor]].
    + exact I3.
  - destruct (apply_out_tids _ _ _ _ _ Ha) as (l1 & Hl1 & Ht & Hn & Hp).
    assert (N1 : NoDup l1) by (destruct Hl1 as [->| ->]; [exact I1|apply nodup_remove, I1]).
    assert (F1 : Forall (fun t => (t < c_next c)%nat) l1).
    { destruct Hl1 as [->| ->]; [exact I2|]. rewrite Forall_forall in *. intros x Hx. apply I2. eapply in_tids_remove, Hx. }
    constructor; rewrite ?Ht, ?Hn, ?Hp.
    + destruct (o_spawn o); [|exact N1].
      apply nodup_snoc; [exact N1|]. intros Hin. rewrite Forall_forall in F1. specialize (F1 _ Hin). lia.
    + destruct (o_spawn o).
      * apply Forall_app. split; [|constructor; [lia|constructor]].
        rewrite Forall_forall in *. intros x Hx. specialize (F1 x Hx). lia.
      * exact F1.
    + destruct (o_spawn o); lia.
Qed.
