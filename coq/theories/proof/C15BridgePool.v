(* C15BridgePool.v — C15 bridge for pool.OnDemandBlockTaskPool (interleaving model PoolModel.v).

   The existing invariant (PoolProof2.Inv) covers the state word used as a lock; the footprint table's
   lock guards name b.mutex ("OnDemandBlockTaskPool.mutex") and the timeout group's g.mu ("group.mu").
   This file ADDS the lock-discipline invariant [LInv] of those two RWMutexes (the write flag is set
   iff exactly one thread is inside a write-locked section, the reader counter is the number of
   threads inside read-locked sections) and proves it for every reachable configuration, over all
   236 statement cases of the model, every PCall / PCancel / PFire / PFinish event, both pinned
   variants (i_fixa, i_fixb) and all parameters.
   stmt_of_pc_Pool / path_of_pc_Pool / occ_of_pc_Pool: the Coq-side copy of the pc -> label table of
   ocaml/drv_pool.ml (compared with it on every run by checks/part_c15bridge.py).
   locks_held_Pool: the model's mutexes have no owners; thread t holds b.mutex exclusively iff s_bw is
   set and t is inside a b.mutex write section, shared iff s_br > 0 and t is inside a read section;
   likewise g.mu with s_gw / s_gr.
   guards_respected_Pool_lemma: whenever a goroutine (client call or worker) is about to execute a
   statement it holds every lock the footprint table declares for the plain accesses of that
   statement.  An `if` with an init statement carries both texts (the footprint tool keys the access
   by the init statement, the instrumenter labels the `if`).  The States() ticker goroutine has no
   program counter in the interleaving model: its one GLock row is listed as unmatched. *)
From Coq Require Import List String Bool Arith Lia ZArith.
From Ekit Require Import Common HB FootprintModel C15Bridge Conc PoolModel PoolProof PoolProof2.
From Coq Require Import ZifyBool.
Import ListNotations.
Open Scope Z_scope.

(* ---------- the lock-bracketed sections of b.mutex and g.mu, read off the program counter ---------- *)
(* between b.mutex.Lock() and the matching b.mutex.Unlock() (inclusive of the Unlock statement itself) *)
Definition bw_pc (p : ppc) : bool :=
  match p with
  | SiAdd | SiUnlock | TiAdd | TiUnlock | WIdSub | WIdUnlock
  | WTmDecr | WTmLeft | WTmDel | TdLock | TdDefer | TdIf | TdDec | TdDelete | WTmUnlock
  | CdSub | CdUnlock
  | WBkNoTasks | WBkIf1 | Z1RLock | Z1Defer | Z1Ret | WBkDecr | WBkUnlock1
  | WBkIf2 | Z2RLock | Z2Defer | Z2Ret | WBkNewTimer | WBkAdd | GaLock | GaDefer | GaIf | GaSet | GaInc
  | WBkUnlock2 => true
  | _ => false
  end.
(* between b.mutex.RLock() and the (deferred) RUnlock *)
Definition br_pc (p : ppc) : bool :=
  match p with AlDefer | AlRate | AlRet | NgRead | NgRUnlock => true | _ => false end.
(* between g.mu.Lock() and the deferred g.mu.Unlock() *)
Definition gw_pc (p : ppc) : bool :=
  match p with
  | TdDefer | TdIf | TdDec | TdDelete | RdDefer | RdIf | RdDec | RdDelete | GaDefer | GaIf | GaSet | GaInc => true
  | _ => false
  end.
Definition gr_pc (p : ppc) : bool :=
  match p with IiDefer | IiLookup | IiRet | Z1Defer | Z1Ret | Z2Defer | Z2Ret => true | _ => false end.

Definition bwh (th : thr) : Z := b2z (bw_pc (pc th)).
Definition brh (th : thr) : Z := b2z (br_pc (pc th)).
Definition gwh (th : thr) : Z := b2z (gw_pc (pc th)).
Definition grh (th : thr) : Z := b2z (gr_pc (pc th)).

Lemma wi_bwh : wake_inv bwh. Proof. unfold bwh; wake_tac. Qed.
Lemma wi_brh : wake_inv brh. Proof. unfold brh; wake_tac. Qed.
Lemma wi_gwh : wake_inv gwh. Proof. unfold gwh; wake_tac. Qed.
Lemma wi_grh : wake_inv grh. Proof. unfold grh; wake_tac. Qed.
Lemma bwh_nonneg th : 0 <= bwh th. Proof. apply b2z_nonneg. Qed.
Lemma brh_nonneg th : 0 <= brh th. Proof. apply b2z_nonneg. Qed.
Lemma gwh_nonneg th : 0 <= gwh th. Proof. apply b2z_nonneg. Qed.
Lemma grh_nonneg th : 0 <= grh th. Proof. apply b2z_nonneg. Qed.

(* the lock words are exactly the threads inside the sections *)
Record LInv (c : pcfg) : Prop := {
  l_bw : tsum bwh (c_thr c) = b2z (s_bw (c_sh c));
  l_br : tsum brh (c_thr c) = s_br (c_sh c);
  l_gw : tsum gwh (c_thr c) = b2z (s_gw (c_sh c));
  l_gr : tsum grh (c_thr c) = s_gr (c_sh c)
}.

Lemma linv_init P : LInv (pinit P).
Proof. constructor; reflexivity. Qed.

Definition lcls (p : ppc) := (bw_pc p, br_pc p, gw_pc p, gr_pc p).

(* an update of thread t that keeps its classification and the lock words *)
Lemma linv_update c t th th' :
  LInv c -> lookup t (c_thr c) = Some th -> lcls (pc th') = lcls (pc th) ->
  LInv (with_thr c (update t th' (c_thr c))).
Proof.
  intros [A B C D] Hl E. unfold lcls in E. injection E as E1 E2 E3 E4.
  constructor; cbn [c_thr c_sh with_thr]; rewrite (tsum_update _ t th' _ th Hl);
    unfold bwh, brh, gwh, grh in *; rewrite ?E1, ?E2, ?E3, ?E4; lia.
Qed.

Lemma linv_step_pstep P c t th ch o c' obs :
  c_par c = P -> LInv c -> lookup t (c_thr c) = Some th ->
  pstep (c_par c) (parked_of (c_thr c)) (c_sh c) th ch = Some o ->
  apply_out c t o = Some (c', obs) -> LInv c'.
Proof.
  intros Vpar HI Hl Hp Ha. rewrite Vpar in Hp.
  pstep_split Hp Epc.
  all: unfold unwind, back in Ha.
  all: ifs_in Ha.
  all: destruct HI as [A B C D].
  all: pose proof (apply_out_tsum bwh c t th _ c' obs wi_bwh Hl Ha) as Ebw.
  all: pose proof (apply_out_tsum brh c t th _ c' obs wi_brh Hl Ha) as Ebr.
  all: pose proof (apply_out_tsum gwh c t th _ c' obs wi_gwh Hl Ha) as Egw.
  all: pose proof (apply_out_tsum grh c t th _ c' obs wi_grh Hl Ha) as Egr.
  all: destruct (apply_out_fields c t _ c' obs Ha) as (_ & Fsh & _ & _ & _).
  all: pose proof (tsum_ge_lookup bwh t _ th bwh_nonneg Hl) as Gbw.
  all: pose proof (tsum_ge_lookup gwh t _ th gwh_nonneg Hl) as Ggw.
  all: cbn [o_th o_spawn o_sh oget] in *.
  all: unfold bwh, brh, gwh, grh, new_worker, unlock_state, b_free, g_free in *.
  all: rewrite ?Epc in *.
  all: cbn [pc goto thr0 set_wid set_task set_nil set_cancel set_second set_ok set_err set_flag set_n set_a set_b
            set_acc set_tm set_lvl set_pan set_nt set_has set_late bw_pc br_pc gw_pc gr_pc b2z] in Ebw, Ebr, Egw, Egr, Gbw, Ggw.
  all: ifs_in Fsh.
  all: constructor; rewrite Fsh; shcbn; unfold bwh, brh, gwh, grh.
  all: try (clear Ha Hl; destruct (s_bw (c_sh c)); destruct (s_gw (c_sh c)); cbn [b2z negb andb] in *; try discriminate; lia).
Qed.

Lemma linv_step P c e c' : c_par c = P -> LInv c -> pstep_cfg c e = Some c' -> LInv c' /\ c_par c' = P.
Proof.
  intros Vpar HI Hs. apply pstep_cfg_inv in Hs. destruct e as [t op|t ch|t|t|t].
  - (* PCall *)
    destruct Hs as (Hl & Hb & -> & Hid). split; [|exact Vpar].
    destruct HI as [A B C D].
    constructor; cbn [c_thr c_sh]; rewrite tsum_spawn; destruct op; cbn; lia.
  - (* PStep *)
    destruct Hs as (th & o & obs & Hl & Hp & Ha). split.
    + eapply linv_step_pstep; eauto.
    + destruct (apply_out_fields c t _ c' obs Ha) as (Fpar & _). congruence.
  - (* PCancel *)
    destruct Hs as (th & Hl & _ & ->). split; [|exact Vpar].
    apply (linv_update c t th); auto.
  - (* PFire *)
    destruct Hs as (th & Hl & _ & ->). split; [|exact Vpar].
    apply (linv_update c t th); auto.
    destruct (is_parked th) eqn:Ep; [|reflexivity].
    apply is_parked_pc in Ep. cbn. rewrite Ep. reflexivity.
  - (* PFinish *)
    destruct Hs as (th & obs & Hl & Epc & Ha). split.
    + destruct HI as [A B C D].
      pose proof (apply_out_tsum bwh c t th _ c' obs wi_bwh Hl Ha) as Ebw.
      pose proof (apply_out_tsum brh c t th _ c' obs wi_brh Hl Ha) as Ebr.
      pose proof (apply_out_tsum gwh c t th _ c' obs wi_gwh Hl Ha) as Egw.
      pose proof (apply_out_tsum grh c t th _ c' obs wi_grh Hl Ha) as Egr.
      destruct (apply_out_fields c t _ c' obs Ha) as (_ & Fsh & _).
      cbn [o_th o_spawn o_sh oget] in *. unfold bwh, brh, gwh, grh in *.
      rewrite Epc in *. cbn in Ebw, Ebr, Egw, Egr.
      constructor; rewrite Fsh; unfold bwh, brh, gwh, grh; lia.
    + destruct (apply_out_fields c t _ c' obs Ha) as (Fpar & _). congruence.
Qed.

Theorem linv_reach P c : preach P c -> LInv c.
Proof.
  intros Hr.
  assert (H : LInv c /\ c_par c = P); [|exact (proj1 H)].
  revert c Hr. apply preach_ind.
  - split; [apply linv_init|reflexivity].
  - intros c0 e c1 [HI Hp] Hs. eapply linv_step; eassumption.
Qed.

(* ====================== the label table ====================== *)
Open Scope string_scope.
Definition TY_Pool := "OnDemandBlockTaskPool".
Definition BMU_Pool := "OnDemandBlockTaskPool.mutex".
Definition GMU_Pool := "group.mu".

(* normalised statement text; "" = not a statement of the instrumented file / not a yield point *)
Definition stmt_of_pc_Pool (p : ppc) : string :=
  match p with
  | SbNil => "if task == nil"
  | SbRetInvalid => "return fmt.Errorf(""%w"", errTaskIsInvalid)"
  | SbFor => "for"
  | SbChkClosing => "if atomic.LoadInt32(&b.state) == stateClosing"
  | SbRetClosing => "return fmt.Errorf(""%w"", errTaskPoolIsClosing)"
  | SbChkStopped => "if atomic.LoadInt32(&b.state) == stateStopped"
  | SbRetStopped => "return fmt.Errorf(""%w"", errTaskPoolIsStopped)"
  | SbWrap => "task = &taskWrapper{t: task}"
  | SbTry1 => "ok, err := b.trySubmit(ctx, task, stateCreated)"
  | SbIf1 => "if ok || err != nil"
  | SbRet1 => "return err"
  | SbTry2 => "ok, err = b.trySubmit(ctx, task, stateRunning)"
  | SbIf2 => "if ok || err != nil"
  | SbRet2 => "return err"
  | TsCas => "if atomic.CompareAndSwapInt32(&b.state, state, stateLocked)"
  | TsDefer => "defer atomic.CompareAndSwapInt32(&b.state, stateLocked, state)"
  | TsSelect => "select"
  | TsCaseCtx => "case <-ctx.Done():"
  | TsRetCtx => "return false, fmt.Errorf(""%w"", ctx.Err())"
  | TsCaseSend => "case b.queue <- task:"
  | TsIfCreate => "if state == stateRunning && b.allowToCreateGoroutine()"
  | TsInc => "b.increaseTotalGo(1)"
  | TsId => "id := int(atomic.AddInt32(&b.id, 1))"
  | TsGo => "go b.goroutine(id)"
  | TsRetT => "return true, nil"
  | TsCaseDefault => "default:"
  | TsRetF0 => "return false, nil"
  | TsRetF1 => "return false, nil"
  | AlRLock => "b.mutex.RLock()"
  | AlDefer => "defer b.mutex.RUnlock()"
  | AlRate => "rate := float64(len(b.queue)) / float64(cap(b.queue))"
  | AlRet => "return (b.totalGo < b.maxGo) && (rate != 0 && rate >= b.queueBacklogRate)"
  | SiLock => "b.mutex.Lock()"
  | SiAdd => "b.totalGo += n"
  | SiUnlock => "b.mutex.Unlock()"
  | StFor => "for"
  | StChkClosing => "if atomic.LoadInt32(&b.state) == stateClosing"
  | StRetClosing => "return fmt.Errorf(""%w"", errTaskPoolIsClosing)"
  | StChkStopped => "if atomic.LoadInt32(&b.state) == stateStopped"
  | StRetStopped => "return fmt.Errorf(""%w"", errTaskPoolIsStopped)"
  | StChkRunning => "if atomic.LoadInt32(&b.state) == stateRunning"
  | StRetStarted => "return fmt.Errorf(""%w"", errTaskPoolIsStarted)"
  | StCas => "if atomic.CompareAndSwapInt32(&b.state, stateCreated, stateLocked)"
  | StN => "n := b.numOfGoThatCanBeCreate()"
  | StInc => "b.increaseTotalGo(n)"
  | StLoop => "for i := int32(0); i < n; i++"
  | StGo => "go b.goroutine(int(atomic.AddInt32(&b.id, 1)))"
  | StCasRun => "atomic.CompareAndSwapInt32(&b.state, stateLocked, stateRunning)"
  | StRetNil => "return nil"
  | NcN => "n := b.initGo"
  | NcAllow => "allowGo := b.maxGo - b.initGo"
  | NcNeed => "needGo := int32(len(b.queue)) - b.initGo"
  | NcIf1 => "if needGo > 0"
  | NcIf2 => "if needGo <= allowGo"
  | NcAddNeed => "n += needGo"
  | NcAddAllow => "n += allowGo"
  | NcRet => "return n"
  | TiLock => "b.mutex.Lock()"
  | TiAdd => "b.totalGo += n"
  | TiUnlock => "b.mutex.Unlock()"
  | ShFor => "for"
  | ShChkCreated => "if atomic.LoadInt32(&b.state) == stateCreated"
  | ShRetNotRunning => "return nil, fmt.Errorf(""%w"", errTaskPoolIsNotRunning)"
  | ShChkStopped => "if atomic.LoadInt32(&b.state) == stateStopped"
  | ShRetStopped => "return nil, fmt.Errorf(""%w"", errTaskPoolIsStopped)"
  | ShChkClosing => "if atomic.LoadInt32(&b.state) == stateClosing"
  | ShRetClosing => "return nil, fmt.Errorf(""%w"", errTaskPoolIsClosing)"
  | ShCas => "if atomic.CompareAndSwapInt32(&b.state, stateRunning, stateClosing)"
  | ShClose => "close(b.queue)"
  | ShRet => "return b.interruptCtx.Done(), nil"
  | SnFor => "for"
  | SnChkCreated => "if atomic.LoadInt32(&b.state) == stateCreated"
  | SnRetNotRunning => "return nil, fmt.Errorf(""%w"", errTaskPoolIsNotRunning)"
  | SnChkClosing => "if atomic.LoadInt32(&b.state) == stateClosing"
  | SnRetClosing => "return nil, fmt.Errorf(""%w"", errTaskPoolIsClosing)"
  | SnChkStopped => "if atomic.LoadInt32(&b.state) == stateStopped"
  | SnRetStopped => "return nil, fmt.Errorf(""%w"", errTaskPoolIsStopped)"
  | SnCas => "if atomic.CompareAndSwapInt32(&b.state, stateRunning, stateStopped)"
  | SnClose => "close(b.queue)"
  | SnCancel => "b.interruptCtxCancel()"
  | SnMake => "tasks := make([]Task, 0, len(b.queue))"
  | SnRange => "for task := range b.queue"
  | SnAppend => "tasks = append(tasks, task)"
  | SnRet => "return tasks, nil"
  | WNewTimer => "idleTimer := time.NewTimer(0)"
  | WStop0 => "if !idleTimer.Stop()"
  | WDrain0 => "<-idleTimer.C"
  | WFor => "for"
  | WSelect => "select"
  | WParked => ""
  | WCaseInt => "case <-b.interruptCtx.Done():"
  | WIntDec => "b.decreaseTotalGo(1)"
  | WIdLock => "b.mutex.Lock()"
  | WIdSub => "b.totalGo -= n"
  | WIdUnlock => "b.mutex.Unlock()"
  | WIntRet => "return"
  | WCaseTimer => "case <-idleTimer.C:"
  | WTmLock => "b.mutex.Lock()"
  | WTmDecr => "b.totalGo--"
  | WTmLeft => "left := b.totalGo"
  | WTmDel => "b.timeoutGroup.delete(id)"
  | TdLock => "g.mu.Lock()"
  | TdDefer => "defer g.mu.Unlock()"
  | TdIf => "if _, ok := g.mp[id]; ok"
  | TdDec => "g.n--"
  | TdDelete => "delete(g.mp, id)"
  | WTmUnlock => "b.mutex.Unlock()"
  | WTmIfLeft => "if left == 0"
  | WTmCas => "if atomic.CompareAndSwapInt32(&b.state, stateClosing, stateStopped)"
  | WTmCancel => "b.interruptCtxCancel()"
  | WTmRet => "return"
  | WCaseQueue => "case task, ok := <-b.queue:"
  | WIfIsIn => "if b.timeoutGroup.isIn(id)"
  | IiRLock => "g.mu.RLock()"
  | IiDefer => "defer g.mu.RUnlock()"
  | IiLookup => "_, ok := g.mp[id]"
  | IiRet => "return ok"
  | WRcDel => "b.timeoutGroup.delete(id)"
  | RdLock => "g.mu.Lock()"
  | RdDefer => "defer g.mu.Unlock()"
  | RdIf => "if _, ok := g.mp[id]; ok"
  | RdDec => "g.n--"
  | RdDelete => "delete(g.mp, id)"
  | WStop1 => "if !idleTimer.Stop()"
  | WDrain1 => "<-idleTimer.C"
  | WIfNotOk => "if !ok"
  | WClDec => "b.decreaseTotalGo(1)"
  | CdLock => "b.mutex.Lock()"
  | CdSub => "b.totalGo -= n"
  | CdUnlock => "b.mutex.Unlock()"
  | WClIfNum => "if b.numOfGo() == 0"
  | NgRLock => "b.mutex.RLock()"
  | NgRead => "n = b.totalGo"
  | NgRUnlock => "b.mutex.RUnlock()"
  | NgRet => "return n"
  | WClCas => "if atomic.CompareAndSwapInt32(&b.state, stateClosing, stateStopped)"
  | WClCancel => "b.interruptCtxCancel()"
  | WClRet => "return"
  | WRunInc => "atomic.AddInt32(&b.numGoRunningTasks, 1)"
  | WRun => "_ = task.Run(b.interruptCtx)"
  | RwDefer => "defer func() { if r := recover(); r != nil { buf := make([]byte, panicBuffLen) buf = buf[:runtime.Stack(buf, false)] err = fmt.Errorf(""%w：%s"", errTaskRunningPanic, fmt.Sprintf(""[PANIC]:\t%+v\n%s\n"", r, buf)) } }()"
  | RwRet => "return tw.t.Run(ctx)"
  | TfRet => "return t(ctx)"
  | RwRecIf => "if r := recover(); r != nil"
  | RwBuf => "buf := make([]byte, panicBuffLen)"
  | RwStack => "buf = buf[:runtime.Stack(buf, false)]"
  | RwErr => "err = fmt.Errorf(""%w：%s"", errTaskRunningPanic, fmt.Sprintf(""[PANIC]:\t%+v\n%s\n"", r, buf))"
  | WRunDec => "atomic.AddInt32(&b.numGoRunningTasks, -1)"
  | WBkLock => "b.mutex.Lock()"
  | WBkNoTasks => "noTasksToExecute := len(b.queue) == 0 || int32(len(b.queue)) < b.totalGo"
  | WBkIf1 => "if b.coreGo < b.totalGo && b.totalGo <= b.maxGo && noTasksToExecute && b.initGo < b.totalGo-b.timeoutGroup.size()"
  | Z1RLock => "g.mu.RLock()"
  | Z1Defer => "defer g.mu.RUnlock()"
  | Z1Ret => "return g.n"
  | WBkDecr => "b.totalGo--"
  | WBkUnlock1 => "b.mutex.Unlock()"
  | WBkRet => "return"
  | WBkIf2 => "if b.initGo < b.totalGo-b.timeoutGroup.size()"
  | Z2RLock => "g.mu.RLock()"
  | Z2Defer => "defer g.mu.RUnlock()"
  | Z2Ret => "return g.n"
  | WBkNewTimer => "idleTimer = time.NewTimer(b.maxIdleTime)"
  | WBkAdd => "b.timeoutGroup.add(id)"
  | GaLock => "g.mu.Lock()"
  | GaDefer => "defer g.mu.Unlock()"
  | GaIf => "if _, ok := g.mp[id]; !ok"
  | GaSet => "g.mp[id] = 1"
  | GaInc => "g.n++"
  | WBkUnlock2 => "b.mutex.Unlock()"
  | WUser => ""
  end.

Definition occ_of_pc_Pool (p : ppc) : nat :=
  match p with
  | SbIf2 => 1
  | SbRet2 => 1
  | TsRetF1 => 1
  | WTmRet => 1
  | WRcDel => 1
  | WStop1 => 1
  | WDrain1 => 1
  | WClDec => 1
  | WClCas => 1
  | WClCancel => 1
  | WClRet => 2
  | WBkLock => 1
  | WBkDecr => 1
  | WBkUnlock1 => 1
  | WBkRet => 3
  | WBkUnlock2 => 2
  | _ => 0
  end.

(* the entry function = r_func of the footprint rows *)
Definition func_of_pc_Pool (p : ppc) : string :=
  match p with
  | SbNil => "Submit"
  | SbRetInvalid => "Submit"
  | SbFor => "Submit"
  | SbChkClosing => "Submit"
  | SbRetClosing => "Submit"
  | SbChkStopped => "Submit"
  | SbRetStopped => "Submit"
  | SbWrap => "Submit"
  | SbTry1 => "Submit"
  | SbIf1 => "Submit"
  | SbRet1 => "Submit"
  | SbTry2 => "Submit"
  | SbIf2 => "Submit"
  | SbRet2 => "Submit"
  | TsCas => "Submit"
  | TsDefer => "Submit"
  | TsSelect => "Submit"
  | TsCaseCtx => "Submit"
  | TsRetCtx => "Submit"
  | TsCaseSend => "Submit"
  | TsIfCreate => "Submit"
  | TsInc => "Submit"
  | TsId => "Submit"
  | TsGo => "Submit"
  | TsRetT => "Submit"
  | TsCaseDefault => "Submit"
  | TsRetF0 => "Submit"
  | TsRetF1 => "Submit"
  | AlRLock => "Submit"
  | AlDefer => "Submit"
  | AlRate => "Submit"
  | AlRet => "Submit"
  | SiLock => "Submit"
  | SiAdd => "Submit"
  | SiUnlock => "Submit"
  | StFor => "Start"
  | StChkClosing => "Start"
  | StRetClosing => "Start"
  | StChkStopped => "Start"
  | StRetStopped => "Start"
  | StChkRunning => "Start"
  | StRetStarted => "Start"
  | StCas => "Start"
  | StN => "Start"
  | StInc => "Start"
  | StLoop => "Start"
  | StGo => "Start"
  | StCasRun => "Start"
  | StRetNil => "Start"
  | NcN => "Start"
  | NcAllow => "Start"
  | NcNeed => "Start"
  | NcIf1 => "Start"
  | NcIf2 => "Start"
  | NcAddNeed => "Start"
  | NcAddAllow => "Start"
  | NcRet => "Start"
  | TiLock => "Start"
  | TiAdd => "Start"
  | TiUnlock => "Start"
  | ShFor => "Shutdown"
  | ShChkCreated => "Shutdown"
  | ShRetNotRunning => "Shutdown"
  | ShChkStopped => "Shutdown"
  | ShRetStopped => "Shutdown"
  | ShChkClosing => "Shutdown"
  | ShRetClosing => "Shutdown"
  | ShCas => "Shutdown"
  | ShClose => "Shutdown"
  | ShRet => "Shutdown"
  | SnFor => "ShutdownNow"
  | SnChkCreated => "ShutdownNow"
  | SnRetNotRunning => "ShutdownNow"
  | SnChkClosing => "ShutdownNow"
  | SnRetClosing => "ShutdownNow"
  | SnChkStopped => "ShutdownNow"
  | SnRetStopped => "ShutdownNow"
  | SnCas => "ShutdownNow"
  | SnClose => "ShutdownNow"
  | SnCancel => "ShutdownNow"
  | SnMake => "ShutdownNow"
  | SnRange => "ShutdownNow"
  | SnAppend => "ShutdownNow"
  | SnRet => "ShutdownNow"
  | WNewTimer => "goroutine"
  | WStop0 => "goroutine"
  | WDrain0 => "goroutine"
  | WFor => "goroutine"
  | WSelect => "goroutine"
  | WParked => "goroutine"
  | WCaseInt => "goroutine"
  | WIntDec => "goroutine"
  | WIdLock => "goroutine"
  | WIdSub => "goroutine"
  | WIdUnlock => "goroutine"
  | WIntRet => "goroutine"
  | WCaseTimer => "goroutine"
  | WTmLock => "goroutine"
  | WTmDecr => "goroutine"
  | WTmLeft => "goroutine"
  | WTmDel => "goroutine"
  | TdLock => "goroutine"
  | TdDefer => "goroutine"
  | TdIf => "goroutine"
  | TdDec => "goroutine"
  | TdDelete => "goroutine"
  | WTmUnlock => "goroutine"
  | WTmIfLeft => "goroutine"
  | WTmCas => "goroutine"
  | WTmCancel => "goroutine"
  | WTmRet => "goroutine"
  | WCaseQueue => "goroutine"
  | WIfIsIn => "goroutine"
  | IiRLock => "goroutine"
  | IiDefer => "goroutine"
  | IiLookup => "goroutine"
  | IiRet => "goroutine"
  | WRcDel => "goroutine"
  | RdLock => "goroutine"
  | RdDefer => "goroutine"
  | RdIf => "goroutine"
  | RdDec => "goroutine"
  | RdDelete => "goroutine"
  | WStop1 => "goroutine"
  | WDrain1 => "goroutine"
  | WIfNotOk => "goroutine"
  | WClDec => "goroutine"
  | CdLock => "goroutine"
  | CdSub => "goroutine"
  | CdUnlock => "goroutine"
  | WClIfNum => "goroutine"
  | NgRLock => "goroutine"
  | NgRead => "goroutine"
  | NgRUnlock => "goroutine"
  | NgRet => "goroutine"
  | WClCas => "goroutine"
  | WClCancel => "goroutine"
  | WClRet => "goroutine"
  | WRunInc => "goroutine"
  | WRun => "goroutine"
  | RwDefer => "goroutine"
  | RwRet => "goroutine"
  | TfRet => "goroutine"
  | RwRecIf => "goroutine"
  | RwBuf => "goroutine"
  | RwStack => "goroutine"
  | RwErr => "goroutine"
  | WRunDec => "goroutine"
  | WBkLock => "goroutine"
  | WBkNoTasks => "goroutine"
  | WBkIf1 => "goroutine"
  | Z1RLock => "goroutine"
  | Z1Defer => "goroutine"
  | Z1Ret => "goroutine"
  | WBkDecr => "goroutine"
  | WBkUnlock1 => "goroutine"
  | WBkRet => "goroutine"
  | WBkIf2 => "goroutine"
  | Z2RLock => "goroutine"
  | Z2Defer => "goroutine"
  | Z2Ret => "goroutine"
  | WBkNewTimer => "goroutine"
  | WBkAdd => "goroutine"
  | GaLock => "goroutine"
  | GaDefer => "goroutine"
  | GaIf => "goroutine"
  | GaSet => "goroutine"
  | GaInc => "goroutine"
  | WBkUnlock2 => "goroutine"
  | WUser => "goroutine"
  end.

(* inline path *)
Definition path_of_pc_Pool (p : ppc) : string :=
  match p with
  | SbNil => ""
  | SbRetInvalid => ""
  | SbFor => ""
  | SbChkClosing => ""
  | SbRetClosing => ""
  | SbChkStopped => ""
  | SbRetStopped => ""
  | SbWrap => ""
  | SbTry1 => ""
  | SbIf1 => ""
  | SbRet1 => ""
  | SbTry2 => ""
  | SbIf2 => ""
  | SbRet2 => ""
  | TsCas => "OnDemandBlockTaskPool.trySubmit"
  | TsDefer => "OnDemandBlockTaskPool.trySubmit"
  | TsSelect => "OnDemandBlockTaskPool.trySubmit"
  | TsCaseCtx => "OnDemandBlockTaskPool.trySubmit"
  | TsRetCtx => "OnDemandBlockTaskPool.trySubmit"
  | TsCaseSend => "OnDemandBlockTaskPool.trySubmit"
  | TsIfCreate => "OnDemandBlockTaskPool.trySubmit"
  | TsInc => "OnDemandBlockTaskPool.trySubmit"
  | TsId => "OnDemandBlockTaskPool.trySubmit"
  | TsGo => "OnDemandBlockTaskPool.trySubmit"
  | TsRetT => "OnDemandBlockTaskPool.trySubmit"
  | TsCaseDefault => "OnDemandBlockTaskPool.trySubmit"
  | TsRetF0 => "OnDemandBlockTaskPool.trySubmit"
  | TsRetF1 => "OnDemandBlockTaskPool.trySubmit"
  | AlRLock => "OnDemandBlockTaskPool.trySubmit>OnDemandBlockTaskPool.allowToCreateGoroutine"
  | AlDefer => "OnDemandBlockTaskPool.trySubmit>OnDemandBlockTaskPool.allowToCreateGoroutine"
  | AlRate => "OnDemandBlockTaskPool.trySubmit>OnDemandBlockTaskPool.allowToCreateGoroutine"
  | AlRet => "OnDemandBlockTaskPool.trySubmit>OnDemandBlockTaskPool.allowToCreateGoroutine"
  | SiLock => "OnDemandBlockTaskPool.trySubmit>OnDemandBlockTaskPool.increaseTotalGo"
  | SiAdd => "OnDemandBlockTaskPool.trySubmit>OnDemandBlockTaskPool.increaseTotalGo"
  | SiUnlock => "OnDemandBlockTaskPool.trySubmit>OnDemandBlockTaskPool.increaseTotalGo"
  | StFor => ""
  | StChkClosing => ""
  | StRetClosing => ""
  | StChkStopped => ""
  | StRetStopped => ""
  | StChkRunning => ""
  | StRetStarted => ""
  | StCas => ""
  | StN => ""
  | StInc => ""
  | StLoop => ""
  | StGo => ""
  | StCasRun => ""
  | StRetNil => ""
  | NcN => "OnDemandBlockTaskPool.numOfGoThatCanBeCreate"
  | NcAllow => "OnDemandBlockTaskPool.numOfGoThatCanBeCreate"
  | NcNeed => "OnDemandBlockTaskPool.numOfGoThatCanBeCreate"
  | NcIf1 => "OnDemandBlockTaskPool.numOfGoThatCanBeCreate"
  | NcIf2 => "OnDemandBlockTaskPool.numOfGoThatCanBeCreate"
  | NcAddNeed => "OnDemandBlockTaskPool.numOfGoThatCanBeCreate"
  | NcAddAllow => "OnDemandBlockTaskPool.numOfGoThatCanBeCreate"
  | NcRet => "OnDemandBlockTaskPool.numOfGoThatCanBeCreate"
  | TiLock => "OnDemandBlockTaskPool.increaseTotalGo"
  | TiAdd => "OnDemandBlockTaskPool.increaseTotalGo"
  | TiUnlock => "OnDemandBlockTaskPool.increaseTotalGo"
  | ShFor => ""
  | ShChkCreated => ""
  | ShRetNotRunning => ""
  | ShChkStopped => ""
  | ShRetStopped => ""
  | ShChkClosing => ""
  | ShRetClosing => ""
  | ShCas => ""
  | ShClose => ""
  | ShRet => ""
  | SnFor => ""
  | SnChkCreated => ""
  | SnRetNotRunning => ""
  | SnChkClosing => ""
  | SnRetClosing => ""
  | SnChkStopped => ""
  | SnRetStopped => ""
  | SnCas => ""
  | SnClose => ""
  | SnCancel => ""
  | SnMake => ""
  | SnRange => ""
  | SnAppend => ""
  | SnRet => ""
  | WNewTimer => ""
  | WStop0 => ""
  | WDrain0 => ""
  | WFor => ""
  | WSelect => ""
  | WParked => ""
  | WCaseInt => ""
  | WIntDec => ""
  | WIdLock => "OnDemandBlockTaskPool.decreaseTotalGo"
  | WIdSub => "OnDemandBlockTaskPool.decreaseTotalGo"
  | WIdUnlock => "OnDemandBlockTaskPool.decreaseTotalGo"
  | WIntRet => ""
  | WCaseTimer => ""
  | WTmLock => ""
  | WTmDecr => ""
  | WTmLeft => ""
  | WTmDel => ""
  | TdLock => "group.delete"
  | TdDefer => "group.delete"
  | TdIf => "group.delete"
  | TdDec => "group.delete"
  | TdDelete => "group.delete"
  | WTmUnlock => ""
  | WTmIfLeft => ""
  | WTmCas => ""
  | WTmCancel => ""
  | WTmRet => ""
  | WCaseQueue => ""
  | WIfIsIn => ""
  | IiRLock => "group.isIn"
  | IiDefer => "group.isIn"
  | IiLookup => "group.isIn"
  | IiRet => "group.isIn"
  | WRcDel => ""
  | RdLock => "group.delete"
  | RdDefer => "group.delete"
  | RdIf => "group.delete"
  | RdDec => "group.delete"
  | RdDelete => "group.delete"
  | WStop1 => ""
  | WDrain1 => ""
  | WIfNotOk => ""
  | WClDec => ""
  | CdLock => "OnDemandBlockTaskPool.decreaseTotalGo"
  | CdSub => "OnDemandBlockTaskPool.decreaseTotalGo"
  | CdUnlock => "OnDemandBlockTaskPool.decreaseTotalGo"
  | WClIfNum => ""
  | NgRLock => "OnDemandBlockTaskPool.numOfGo"
  | NgRead => "OnDemandBlockTaskPool.numOfGo"
  | NgRUnlock => "OnDemandBlockTaskPool.numOfGo"
  | NgRet => "OnDemandBlockTaskPool.numOfGo"
  | WClCas => ""
  | WClCancel => ""
  | WClRet => ""
  | WRunInc => ""
  | WRun => ""
  | RwDefer => "taskWrapper.Run"
  | RwRet => "taskWrapper.Run"
  | TfRet => "taskWrapper.Run>TaskFunc.Run"
  | RwRecIf => "taskWrapper.Run"
  | RwBuf => "taskWrapper.Run"
  | RwStack => "taskWrapper.Run"
  | RwErr => "taskWrapper.Run"
  | WRunDec => ""
  | WBkLock => ""
  | WBkNoTasks => ""
  | WBkIf1 => ""
  | Z1RLock => "group.size"
  | Z1Defer => "group.size"
  | Z1Ret => "group.size"
  | WBkDecr => ""
  | WBkUnlock1 => ""
  | WBkRet => ""
  | WBkIf2 => ""
  | Z2RLock => "group.size"
  | Z2Defer => "group.size"
  | Z2Ret => "group.size"
  | WBkNewTimer => ""
  | WBkAdd => ""
  | GaLock => "group.add"
  | GaDefer => "group.add"
  | GaIf => "group.add"
  | GaSet => "group.add"
  | GaInc => "group.add"
  | WBkUnlock2 => ""
  | WUser => ""
  end.

Definition pcname_Pool (p : ppc) : string :=
  match p with
  | SbNil => "SbNil"
  | SbRetInvalid => "SbRetInvalid"
  | SbFor => "SbFor"
  | SbChkClosing => "SbChkClosing"
  | SbRetClosing => "SbRetClosing"
  | SbChkStopped => "SbChkStopped"
  | SbRetStopped => "SbRetStopped"
  | SbWrap => "SbWrap"
  | SbTry1 => "SbTry1"
  | SbIf1 => "SbIf1"
  | SbRet1 => "SbRet1"
  | SbTry2 => "SbTry2"
  | SbIf2 => "SbIf2"
  | SbRet2 => "SbRet2"
  | TsCas => "TsCas"
  | TsDefer => "TsDefer"
  | TsSelect => "TsSelect"
  | TsCaseCtx => "TsCaseCtx"
  | TsRetCtx => "TsRetCtx"
  | TsCaseSend => "TsCaseSend"
  | TsIfCreate => "TsIfCreate"
  | TsInc => "TsInc"
  | TsId => "TsId"
  | TsGo => "TsGo"
  | TsRetT => "TsRetT"
  | TsCaseDefault => "TsCaseDefault"
  | TsRetF0 => "TsRetF0"
  | TsRetF1 => "TsRetF1"
  | AlRLock => "AlRLock"
  | AlDefer => "AlDefer"
  | AlRate => "AlRate"
  | AlRet => "AlRet"
  | SiLock => "SiLock"
  | SiAdd => "SiAdd"
  | SiUnlock => "SiUnlock"
  | StFor => "StFor"
  | StChkClosing => "StChkClosing"
  | StRetClosing => "StRetClosing"
  | StChkStopped => "StChkStopped"
  | StRetStopped => "StRetStopped"
  | StChkRunning => "StChkRunning"
  | StRetStarted => "StRetStarted"
  | StCas => "StCas"
  | StN => "StN"
  | StInc => "StInc"
  | StLoop => "StLoop"
  | StGo => "StGo"
  | StCasRun => "StCasRun"
  | StRetNil => "StRetNil"
  | NcN => "NcN"
  | NcAllow => "NcAllow"
  | NcNeed => "NcNeed"
  | NcIf1 => "NcIf1"
  | NcIf2 => "NcIf2"
  | NcAddNeed => "NcAddNeed"
  | NcAddAllow => "NcAddAllow"
  | NcRet => "NcRet"
  | TiLock => "TiLock"
  | TiAdd => "TiAdd"
  | TiUnlock => "TiUnlock"
  | ShFor => "ShFor"
  | ShChkCreated => "ShChkCreated"
  | ShRetNotRunning => "ShRetNotRunning"
  | ShChkStopped => "ShChkStopped"
  | ShRetStopped => "ShRetStopped"
  | ShChkClosing => "ShChkClosing"
  | ShRetClosing => "ShRetClosing"
  | ShCas => "ShCas"
  | ShClose => "ShClose"
  | ShRet => "ShRet"
  | SnFor => "SnFor"
  | SnChkCreated => "SnChkCreated"
  | SnRetNotRunning => "SnRetNotRunning"
  | SnChkClosing => "SnChkClosing"
  | SnRetClosing => "SnRetClosing"
  | SnChkStopped => "SnChkStopped"
  | SnRetStopped => "SnRetStopped"
  | SnCas => "SnCas"
  | SnClose => "SnClose"
  | SnCancel => "SnCancel"
  | SnMake => "SnMake"
  | SnRange => "SnRange"
  | SnAppend => "SnAppend"
  | SnRet => "SnRet"
  | WNewTimer => "WNewTimer"
  | WStop0 => "WStop0"
  | WDrain0 => "WDrain0"
  | WFor => "WFor"
  | WSelect => "WSelect"
  | WParked => "WParked"
  | WCaseInt => "WCaseInt"
  | WIntDec => "WIntDec"
  | WIdLock => "WIdLock"
  | WIdSub => "WIdSub"
  | WIdUnlock => "WIdUnlock"
  | WIntRet => "WIntRet"
  | WCaseTimer => "WCaseTimer"
  | WTmLock => "WTmLock"
  | WTmDecr => "WTmDecr"
  | WTmLeft => "WTmLeft"
  | WTmDel => "WTmDel"
  | TdLock => "TdLock"
  | TdDefer => "TdDefer"
  | TdIf => "TdIf"
  | TdDec => "TdDec"
  | TdDelete => "TdDelete"
  | WTmUnlock => "WTmUnlock"
  | WTmIfLeft => "WTmIfLeft"
  | WTmCas => "WTmCas"
  | WTmCancel => "WTmCancel"
  | WTmRet => "WTmRet"
  | WCaseQueue => "WCaseQueue"
  | WIfIsIn => "WIfIsIn"
  | IiRLock => "IiRLock"
  | IiDefer => "IiDefer"
  | IiLookup => "IiLookup"
  | IiRet => "IiRet"
  | WRcDel => "WRcDel"
  | RdLock => "RdLock"
  | RdDefer => "RdDefer"
  | RdIf => "RdIf"
  | RdDec => "RdDec"
  | RdDelete => "RdDelete"
  | WStop1 => "WStop1"
  | WDrain1 => "WDrain1"
  | WIfNotOk => "WIfNotOk"
  | WClDec => "WClDec"
  | CdLock => "CdLock"
  | CdSub => "CdSub"
  | CdUnlock => "CdUnlock"
  | WClIfNum => "WClIfNum"
  | NgRLock => "NgRLock"
  | NgRead => "NgRead"
  | NgRUnlock => "NgRUnlock"
  | NgRet => "NgRet"
  | WClCas => "WClCas"
  | WClCancel => "WClCancel"
  | WClRet => "WClRet"
  | WRunInc => "WRunInc"
  | WRun => "WRun"
  | RwDefer => "RwDefer"
  | RwRet => "RwRet"
  | TfRet => "TfRet"
  | RwRecIf => "RwRecIf"
  | RwBuf => "RwBuf"
  | RwStack => "RwStack"
  | RwErr => "RwErr"
  | WRunDec => "WRunDec"
  | WBkLock => "WBkLock"
  | WBkNoTasks => "WBkNoTasks"
  | WBkIf1 => "WBkIf1"
  | Z1RLock => "Z1RLock"
  | Z1Defer => "Z1Defer"
  | Z1Ret => "Z1Ret"
  | WBkDecr => "WBkDecr"
  | WBkUnlock1 => "WBkUnlock1"
  | WBkRet => "WBkRet"
  | WBkIf2 => "WBkIf2"
  | Z2RLock => "Z2RLock"
  | Z2Defer => "Z2Defer"
  | Z2Ret => "Z2Ret"
  | WBkNewTimer => "WBkNewTimer"
  | WBkAdd => "WBkAdd"
  | GaLock => "GaLock"
  | GaDefer => "GaDefer"
  | GaIf => "GaIf"
  | GaSet => "GaSet"
  | GaInc => "GaInc"
  | WBkUnlock2 => "WBkUnlock2"
  | WUser => "WUser"
  end.

Definition all_pcs_Pool : list ppc :=
  [SbNil; SbRetInvalid; SbFor; SbChkClosing; SbRetClosing; SbChkStopped; SbRetStopped; SbWrap; SbTry1; SbIf1; SbRet1; SbTry2; SbIf2; SbRet2; TsCas; TsDefer; TsSelect; TsCaseCtx; TsRetCtx; TsCaseSend; TsIfCreate; TsInc; TsId; TsGo; TsRetT; TsCaseDefault; TsRetF0; TsRetF1; AlRLock; AlDefer; AlRate; AlRet; SiLock; SiAdd; SiUnlock; StFor; StChkClosing; StRetClosing; StChkStopped; StRetStopped; StChkRunning; StRetStarted; StCas; StN; StInc; StLoop; StGo; StCasRun; StRetNil; NcN; NcAllow; NcNeed; NcIf1; NcIf2; NcAddNeed; NcAddAllow; NcRet; TiLock; TiAdd; TiUnlock; ShFor; ShChkCreated; ShRetNotRunning; ShChkStopped; ShRetStopped; ShChkClosing; ShRetClosing; ShCas; ShClose; ShRet; SnFor; SnChkCreated; SnRetNotRunning; SnChkClosing; SnRetClosing; SnChkStopped; SnRetStopped; SnCas; SnClose; SnCancel; SnMake; SnRange; SnAppend; SnRet; WNewTimer; WStop0; WDrain0; WFor; WSelect; WParked; WCaseInt; WIntDec; WIdLock; WIdSub; WIdUnlock; WIntRet; WCaseTimer; WTmLock; WTmDecr; WTmLeft; WTmDel; TdLock; TdDefer; TdIf; TdDec; TdDelete; WTmUnlock; WTmIfLeft; WTmCas; WTmCancel; WTmRet; WCaseQueue; WIfIsIn; IiRLock; IiDefer; IiLookup; IiRet; WRcDel; RdLock; RdDefer; RdIf; RdDec; RdDelete; WStop1; WDrain1; WIfNotOk; WClDec; CdLock; CdSub; CdUnlock; WClIfNum; NgRLock; NgRead; NgRUnlock; NgRet; WClCas; WClCancel; WClRet; WRunInc; WRun; RwDefer; RwRet; TfRet; RwRecIf; RwBuf; RwStack; RwErr; WRunDec; WBkLock; WBkNoTasks; WBkIf1; Z1RLock; Z1Defer; Z1Ret; WBkDecr; WBkUnlock1; WBkRet; WBkIf2; Z2RLock; Z2Defer; Z2Ret; WBkNewTimer; WBkAdd; GaLock; GaDefer; GaIf; GaSet; GaInc; WBkUnlock2; WUser].
Definition lfunc_of_pc_Pool (p : ppc) : string := lfunc_of TY_Pool (func_of_pc_Pool p) (path_of_pc_Pool p).
Definition rstmt_of_pc_Pool (p : ppc) : string := row_stmt (path_of_pc_Pool p) (stmt_of_pc_Pool p).

(* statement keys of a pc: its statement, and for `if init; cond` also the init statement *)
Definition rstmts_of_pc_Pool (p : ppc) : list string :=
  (rstmt_of_pc_Pool p ::
   match p with
   | TdIf | RdIf | GaIf => [row_stmt (path_of_pc_Pool p) "_, ok := g.mp[id]"]
   | _ => []
   end)%list.

Definition bridge_Pool : list bridge_line :=
  map (fun p => (pcname_Pool p, lfunc_of_pc_Pool p, stmt_of_pc_Pool p, occ_of_pc_Pool p))
      (filter (fun p => negb (String.eqb (stmt_of_pc_Pool p) "")) all_pcs_Pool).

(* ---------- locks ---------- *)
Definition locks_held_Pool (c : pcfg) (t : Conc.tid) : lockset :=
  match lookup t (c_thr c) with
  | Some th =>
      ((if s_bw (c_sh c) && bw_pc (pc th) then [(BMU_Pool, Excl)] else []) ++
       (if (0 <? s_br (c_sh c))%Z && br_pc (pc th) then [(BMU_Pool, Shared)] else []) ++
       (if s_gw (c_sh c) && gw_pc (pc th) then [(GMU_Pool, Excl)] else []) ++
       (if (0 <? s_gr (c_sh c))%Z && gr_pc (pc th) then [(GMU_Pool, Shared)] else []))%list
  | None => []
  end.

Definition pc_locks_Pool (p : ppc) : lockset :=
  ((if bw_pc p then [(BMU_Pool, Excl)] else []) ++ (if br_pc p then [(BMU_Pool, Shared)] else []) ++
   (if gw_pc p then [(GMU_Pool, Excl)] else []) ++ (if gr_pc p then [(GMU_Pool, Shared)] else []))%list.

Lemma section_locks_held_Pool_lemma P c t th :
  preach P c -> lookup t (c_thr c) = Some th -> incl (pc_locks_Pool (pc th)) (locks_held_Pool c t).
Proof.
  intros Hr Hl. destruct (linv_reach P c Hr) as [A B C D].
  pose proof (tsum_ge_lookup bwh t _ th bwh_nonneg Hl) as Gbw.
  pose proof (tsum_ge_lookup brh t _ th brh_nonneg Hl) as Gbr.
  pose proof (tsum_ge_lookup gwh t _ th gwh_nonneg Hl) as Ggw.
  pose proof (tsum_ge_lookup grh t _ th grh_nonneg Hl) as Ggr.
  unfold bwh, brh, gwh, grh in *.
  unfold pc_locks_Pool, locks_held_Pool. rewrite Hl.
  intros x Hx. repeat (apply in_app_or in Hx; destruct Hx as [Hx|Hx]).
  - destruct (bw_pc (pc th)) eqn:E; [|destruct Hx]. cbn in Gbw.
    destruct (s_bw (c_sh c)); [|cbn in A; lia]. apply in_or_app. left. exact Hx.
  - destruct (br_pc (pc th)) eqn:E; [|destruct Hx]. cbn in Gbr.
    assert (Hlt : (0 <? s_br (c_sh c))%Z = true) by (apply Z.ltb_lt; lia). rewrite Hlt.
    apply in_or_app. right. apply in_or_app. left. exact Hx.
  - destruct (gw_pc (pc th)) eqn:E; [|destruct Hx]. cbn in Ggw.
    destruct (s_gw (c_sh c)); [|cbn in C; lia].
    apply in_or_app. right. apply in_or_app. right. apply in_or_app. left. exact Hx.
  - destruct (gr_pc (pc th)) eqn:E; [|destruct Hx]. cbn in Ggr.
    assert (Hlt : (0 <? s_gr (c_sh c))%Z = true) by (apply Z.ltb_lt; lia). rewrite Hlt.
    apply in_or_app. right. apply in_or_app. right. apply in_or_app. right. exact Hx.
Qed.

Lemma guards_static_Pool p :
  forallb (fun s => guards_held taskpool_table (func_of_pc_Pool p) s (pc_locks_Pool p)) (rstmts_of_pc_Pool p) = true.
Proof. destruct p; vm_compute; reflexivity. Qed.

Theorem guards_respected_Pool_lemma P c t th s :
  preach P c -> lookup t (c_thr c) = Some th -> In s (rstmts_of_pc_Pool (pc th)) ->
  guards_respected_at taskpool_table (func_of_pc_Pool (pc th)) s (locks_held_Pool c t).
Proof.
  intros Hr Hl Hs. eapply guards_respected_at_incl.
  - eapply section_locks_held_Pool_lemma; eassumption.
  - apply guards_held_spec.
    pose proof (guards_static_Pool (pc th)) as H. rewrite forallb_forall in H. now apply H.
Qed.

Definition keys_Pool : list (string * string) :=
  flat_map (fun p => map (fun s => (func_of_pc_Pool p, s)) (rstmts_of_pc_Pool p)) all_pcs_Pool.

(* the only GLock row without a program counter: the States() ticker goroutine reading totalGo
   through getState -> numOfGo under b.mutex.RLock *)
Lemma unmatched_glock_rows_Pool :
  map (fun r => (r_func r, r_loc r)) (unmatched taskpool_table keys_Pool) =
    [("States$go1", "OnDemandBlockTaskPool.totalGo")] /\
  List.length (glock_rows taskpool_table) = 15%nat.
Proof. vm_compute. split; reflexivity. Qed.
