(* Proofs about LBQModel (C07, C09), part 2: what holds under the lock.
   A thread that decided to wait really saw the waiting condition, a thread about to
   append/delete saw the opposite, nobody else changed the list in between (they would need
   the lock): hence the capacity bound and "Delete(0) never fails". *)
From Ekit Require Import Common Conc LBQModel LBQProof.
From Coq Require Import ZifyBool Arith PeanoNat.

Record invD (c : lbq_cfg) : Prop := {
  d_wait : forall t l, lookup t (q_thr c) = Some l -> wait_pc (l_pc l) = true -> must_wait c (l_op l) = true;
  d_act : forall t l, lookup t (q_thr c) = Some l -> l_pc l = PAct -> must_wait c (l_op l) = false;
  d_old : forall t l, lookup t (q_thr c) = Some l -> l_pc l = BSet -> l_old l = cur c (bcond (l_op l));
  d_cap : 0 < q_max c -> qlen c <= q_max c;
  d_res : forall t l, lookup t (q_thr c) = Some l -> after_lin (l_op l) (l_pc l) = true ->
          match l_op l with
          | OEnq _ => l_res l = RNil
          | ODeq => exists x, l_res l = RVal x
          | _ => exists s, l_res l = RSlice s
          end;
  (* only a bounded queue makes an Enqueue wait *)
  d_bounded : forall t l, lookup t (q_thr c) = Some l -> wait_region (l_pc l) = true ->
              match l_op l with OEnq _ => 0 < q_max c | _ => True end
}.

Lemma invD_init m : invD (lbq_init m).
Proof. constructor; cbn; try discriminate. intros; unfold qlen; cbn; lia. Qed.

Lemma must_wait_same c c2 o :
  q_items c2 = q_items c -> q_max c2 = q_max c -> must_wait c2 o = must_wait c o.
Proof. intros E1 E2. unfold must_wait, qlen. rewrite E1, E2. reflexivity. Qed.

Lemma cur_same c c2 k : q_ne c2 = q_ne c -> q_nf c2 = q_nf c -> cur c2 k = cur c k.
Proof. intros E1 E2. unfold cur. rewrite E1, E2. reflexivity. Qed.

Lemma closed_same c c2 k : q_nec c2 = q_nec c -> q_nfc c2 = q_nfc c -> closed c2 k = closed c k.
Proof. intros E1 E2. unfold closed. rewrite E1, E2. reflexivity. Qed.

Lemma qlen_same c c2 : q_items c2 = q_items c -> qlen c2 = qlen c.
Proof. intros E. unfold qlen. rewrite E. reflexivity. Qed.

Lemma must_wait_enq_bounded c v : must_wait c (OEnq v) = true -> 0 < q_max c.
Proof. unfold must_wait. intros H. apply andb_true_iff in H. lia. Qed.

(* another thread cannot be inside a critical section while t is *)
Ltac other_in_cs c :=
  match goal with
  | Hne : ?t2 <> ?t, H2 : lookup ?t2 (q_thr c) = Some ?l2, Hl : lookup ?t (q_thr c) = Some ?l,
    I : inv1 c |- _ =>
    exfalso; apply Hne; apply (cs_unique c t2 l2 t l I H2 Hl);
    [ solve [ repeat match goal with E : l_pc l2 = _ |- _ => rewrite E end; try reflexivity;
              destruct (l_pc l2); cbn in *; congruence ]
    | solve [ repeat match goal with E : l_pc l = _ |- _ => rewrite E end; reflexivity ] ]
  end.

Lemma invD_step c e c' obs : inv1 c -> invD c -> lbq_exec1 c e = Some (c', obs) -> invD c'.
Proof.
  intros I D H. pose proof (i_nodup c I) as Hnd.
  destruct D as [D1 D2 D3 D4 D5 D6].
  step_cases H.
  all: try rewrite (unlock_owned c t) by (eapply (i_cs c I); [exact Hl | rewrite Hpc; reflexivity]).
  all: try match goal with |- context [runlock] => unfold runlock; destruct (q_readers c) eqn:Er end.
  all: try match goal with |- context [set_cur _ (bcond ?o)] => destruct (bcond o) eqn:Ek end.
  all: try match goal with |- context [add_closed _ (bcond ?o)] => destruct (bcond o) eqn:Ek end.
  all: constructor.
  all: try (intros t2 l2 H2; cbn in H2; try inv_lookup H2; try subst l2).
  all: cbn [l_pc l_op l_old l_res l_sig l_cancel set_pc set_sig set_old set_res set_cancel new_loc];
       rewrite ?wake1_op, ?wake1_old, ?wake1_res.
  all: try match goal with |- context [l_pc (wake1 ?k ?g ?x)] =>
         let Hp := fresh "Hp" in let Ew := fresh "Ew" in
         destruct (wake1_pc k g x) as [[_ [Hp Ew]]|[_ Ew]]; rewrite Ew; clear Ew end.
  all: rewrite ?Hpc.
  all: try (rewrite ?(must_wait_same c) by reflexivity).
  all: try (rewrite ?(cur_same c) by reflexivity).
  all: try (rewrite ?(qlen_same c) by reflexivity).
  all: cbn [q_max set_thr set_items set_wlock set_readers set_bad add_hist wait_pc wait_region after_lin].
  all: try solve [intros; discriminate].
  all: try solve [eauto].
  all: try solve [intros; first [eapply D1 | eapply D2 | eapply D3 | eapply D5 | eapply D6];
                  try exact Hl; try eassumption; rewrite ?Hpc; try reflexivity; try eassumption].
  all: cbn [l_pc l_op l_old l_res l_sig l_cancel set_pc set_sig set_old set_res set_cancel new_loc
            q_max add_closed set_cur].
  (* a new call *)
  all: try solve [destruct o; cbn; intros; first [discriminate | reflexivity | exact Logic.I]].
  (* another thread inside a critical section while t is inside one *)
  all: try solve [intros P; other_in_cs c].
  (* contradiction between the operation kind and the reader/writer dispatch *)
  all: try solve [intros _ Hx; congruence].
  (* facts about the stepping thread's previous pc *)
  all: try solve [intros; first [eapply D5 | eapply D6]; try eassumption;
                  repeat match goal with Hx : l_pc _ = _ |- _ => rewrite Hx end; reflexivity].
  (* entering the wait region: the loop condition was true *)
  all: try solve [intros _; destruct (l_op l) eqn:Eo; try exact Logic.I;
                  eapply must_wait_enq_bounded; eassumption].
  - (* Append: the loop condition was false and the bound held *)
    intros Hm. pose proof (D2 _ _ Hl Hpc) as Hf. rewrite E in Hf.
    unfold must_wait, qlen in *. cbn. rewrite app_length. cbn. specialize (D4 Hm). lia.
  - intros _. rewrite E. reflexivity.
  - (* Delete(0) on an empty list: excluded by the loop condition *)
    exfalso. pose proof (D2 _ _ Hl Hpc) as Hf. rewrite E in Hf.
    unfold must_wait, qlen in Hf. rewrite E0 in Hf. cbn in Hf. discriminate.
  - intros Hm. specialize (D4 Hm). unfold qlen in *. cbn. rewrite E0 in D4. cbn [length] in D4. lia.
  - intros _. rewrite E. eauto.
  - intros Hx. rewrite E in Hx. discriminate.
  - intros _. rewrite E. eauto.
  - intros _. apply andb_true_iff in E. destruct E as [E _]. apply andb_true_iff in E.
    destruct E as [_ Ep]. apply pc_eqb_eq in Ep.
    apply (D6 _ _ Hl). rewrite Ep. reflexivity.
  - intros _. apply pc_eqb_eq in E0. apply (D6 _ _ Hl). rewrite E0. reflexivity.
Qed.

Lemma invD_reachable m evs c : exec lbq_step (lbq_init m) evs = Some c -> inv1 c /\ invD c.
Proof.
  apply (invariant_reachable _ _ lbq_step (fun c => inv1 c /\ invD c)); [|split; [apply inv1_init|apply invD_init]].
  intros c0 e c1 [I D] H. unfold lbq_step in H.
  destruct (lbq_exec1 c0 e) as [[c2 obs]|] eqn:E; [|discriminate].
  injection H as <-. split; [eapply inv1_step|eapply invD_step]; eassumption.
Qed.

(* ---------- the channel generations ---------- *)

Record invF (c : lbq_cfg) : Prop := {
  (* the current channel of a cond is open *)
  f_closed : forall k g, In g (closed c k) -> (g < cur c k)%nat;
  (* a broadcaster between the swap and its close(old): old is a former, still open channel *)
  f_pend : forall t l, lookup t (q_thr c) = Some l -> pending (l_pc l) = true ->
           (l_old l < cur c (bcond (l_op l)))%nat /\ mem (l_old l) (closed c (bcond (l_op l))) = false;
  (* and no two of them are about to close the same channel *)
  f_distinct : forall t1 l1 t2 l2, t1 <> t2 ->
           lookup t1 (q_thr c) = Some l1 -> lookup t2 (q_thr c) = Some l2 ->
           pending (l_pc l1) = true -> pending (l_pc l2) = true ->
           bcond (l_op l1) = bcond (l_op l2) -> l_old l1 <> l_old l2;
  (* no unlock of an unlocked mutex, no close of a closed channel so far *)
  f_bad : q_bad c = false
}.

Lemma wake1_pending k g l : pending (l_pc (wake1 k g l)) = pending (l_pc l).
Proof. destruct (wake1_pc k g l) as [[_ [Hp ->]]|[_ ->]]; [rewrite Hp|]; reflexivity. Qed.

Lemma invF_init m : invF (lbq_init m).
Proof. constructor; cbn; try discriminate; try reflexivity. intros [] g []. Qed.

Lemma invF_step c e c' obs : inv1 c -> invD c -> invF c -> lbq_exec1 c e = Some (c', obs) -> invF c'.
Proof.
  intros I D F H. pose proof (i_nodup c I) as Hnd.
  destruct F as [F1 F2 F3 F4].
  step_cases H.
  all: try rewrite (unlock_owned c t) by (eapply (i_cs c I); [exact Hl | rewrite Hpc; reflexivity]).
  all: try match goal with |- context [runlock] =>
         unfold runlock; destruct (q_readers c) eqn:Er;
         [ exfalso; pose proof (count_pos_lookup rd t l _ Hl) as Hpos; unfold rd at 1 in Hpos;
           rewrite Hpc in Hpos; specialize (Hpos eq_refl); pose proof (i_readers c I) as Hrd;
           rewrite Er in Hrd; cbn in Hrd; lia | ] end.
  all: try match goal with |- context [set_cur _ (bcond ?o)] => destruct (bcond o) eqn:Ek end.
  all: try match goal with |- context [add_closed _ (bcond ?o)] => destruct (bcond o) eqn:Ek end.
  all: constructor.
  all: lazymatch goal with
       | |- forall k g, In _ _ -> _ =>
         try solve [intros k g; rewrite ?(closed_same c), ?(cur_same c) by reflexivity; apply F1]
       | |- forall t l, _ -> _ -> _ /\ _ =>
         intros t2 l2 H2; cbn in H2; try inv_lookup H2; try subst l2
       | |- forall t1 l1 t2 l2, _ =>
         intros t1 l1 t2 l2 Hne12 H1 H2; cbn in H1, H2; try inv_lookup H1; try inv_lookup H2;
         try congruence;
         repeat match goal with Ew : ?x = wake1 _ _ _ |- _ => subst x end
       | |- _ = false => try solve [cbn; exact F4]
       end.
  all: cbn [l_pc l_op l_old l_res l_sig l_cancel set_pc set_sig set_old set_res set_cancel new_loc];
       rewrite ?wake1_op, ?wake1_old, ?wake1_pending.
  all: cbn [l_pc l_op l_old l_res l_sig l_cancel set_pc set_sig set_old set_res set_cancel new_loc].
  all: repeat match goal with |- context [l_pc (wake1 ?k ?g ?x)] =>
         let Hp := fresh "Hp" in let Ew := fresh "Ew" in
         destruct (wake1_pc k g x) as [[_ [Hp Ew]]|[_ Ew]]; rewrite Ew; clear Ew end.
  all: rewrite ?Hpc.
  all: try (rewrite ?(cur_same c), ?(closed_same c) by reflexivity).
  all: cbn [pending].
  all: try solve [intros; discriminate].
  all: try solve [intros; eapply F2; eassumption].
  all: try solve [intros; eapply (F3 t1 l1 t2 l2); eassumption].
  all: try solve [intros; match goal with
         | Hn : ?a <> ?b, Ha : lookup ?a _ = Some ?x, Hb : lookup ?b _ = Some ?y |- l_old ?x <> l_old ?y =>
           eapply (F3 a x b y); eassumption end].
  all: try solve [destruct o; cbn; intros; discriminate].
  all: try (assert (Hcur : forall k, mem (cur c k) (closed c k) = false)
             by (intros k; destruct (mem (cur c k) (closed c k)) eqn:Em; [|reflexivity];
                 apply mem_in, F1 in Em; lia)).
  all: try match goal with Ek' : bcond _ = _, Hpc' : l_pc _ = BSet |- _ =>
         pose proof (d_old c D _ _ Hl Hpc') as Hold; rewrite Ek' in Hold end.
  (* c.signal = signal for notEmpty *)
  - intros k g Hin. destruct k; cbn in Hin |- *; [specialize (F1 CNotEmpty g Hin); cbn in F1; lia|exact (F1 CNotFull g Hin)].
  - intros _. rewrite Ek. cbn. specialize (Hcur CNotEmpty). cbn in Hcur, Hold. rewrite Hold. split; [lia|exact Hcur].
  - intros P. destruct (F2 _ _ H P) as [Hlt Hm]. split; [|exact Hm].
    destruct (bcond (l_op l2)); cbn in Hlt |- *; lia.
  - intros _ P Eb. rewrite Ek in Eb. destruct (F2 _ _ H P) as [Hlt _]. rewrite <- Eb in Hlt. lia.
  - intros P _ Eb. rewrite Ek in Eb. destruct (F2 _ _ H P) as [Hlt _]. rewrite Eb in Hlt. lia.
  (* c.signal = signal for notFull *)
  - intros k g Hin. destruct k; cbn in Hin |- *; [exact (F1 CNotEmpty g Hin)|specialize (F1 CNotFull g Hin); cbn in F1; lia].
  - intros _. rewrite Ek. cbn. specialize (Hcur CNotFull). cbn in Hcur, Hold. rewrite Hold. split; [lia|exact Hcur].
  - intros P. destruct (F2 _ _ H P) as [Hlt Hm]. split; [|exact Hm].
    destruct (bcond (l_op l2)); cbn in Hlt |- *; lia.
  - intros _ P Eb. rewrite Ek in Eb. destruct (F2 _ _ H P) as [Hlt _]. rewrite <- Eb in Hlt. lia.
  - intros P _ Eb. rewrite Ek in Eb. destruct (F2 _ _ H P) as [Hlt _]. rewrite Eb in Hlt. lia.
  (* c.l.Unlock() inside broadcast *)
  - intros _. apply (F2 _ _ Hl). rewrite Hpc. reflexivity.
  - intros _ P Eb. apply (F3 t l t2 l2); try assumption. rewrite Hpc. reflexivity.
  - intros P _ Eb. apply (F3 t1 l1 t l); try assumption. rewrite Hpc. reflexivity.
  (* close(old) of a closed channel: excluded *)
  - exfalso. destruct (F2 _ _ Hl) as [_ Hm]; [rewrite Hpc; reflexivity|]. congruence.
  (* close(old), notEmpty *)
  - intros k g Hin. destruct k; cbn in Hin |- *; [|exact (F1 CNotFull g Hin)].
    destruct Hin as [<-|Hin]; [|exact (F1 CNotEmpty g Hin)].
    destruct (F2 _ _ Hl) as [Hlt _]; [rewrite Hpc; reflexivity|]. rewrite Ek in Hlt. exact Hlt.
  - intros P. destruct (F2 _ _ H P) as [Hlt Hm]. split; [exact Hlt|].
    destruct (bcond (l_op l1)) eqn:Eb; cbn in Hm |- *; [|exact Hm].
    rewrite Hm, orb_false_r. apply Nat.eqb_neq.
    apply (F3 t2 l1 t l); try assumption; [rewrite Hpc; reflexivity|congruence].
  (* close(old), notFull *)
  - intros k g Hin. destruct k; cbn in Hin |- *; [exact (F1 CNotEmpty g Hin)|].
    destruct Hin as [<-|Hin]; [|exact (F1 CNotFull g Hin)].
    destruct (F2 _ _ Hl) as [Hlt _]; [rewrite Hpc; reflexivity|]. rewrite Ek in Hlt. exact Hlt.
  - intros P. destruct (F2 _ _ H P) as [Hlt Hm]. split; [exact Hlt|].
    destruct (bcond (l_op l1)) eqn:Eb; cbn in Hm |- *; [exact Hm|].
    rewrite Hm, orb_false_r. apply Nat.eqb_neq.
    apply (F3 t2 l1 t l); try assumption; [rewrite Hpc; reflexivity|congruence].
Qed.
