(* Proofs about LimitPoolModel (C14): the token counter bounds the number of outstanding
   objects for EVERY interleaving of the statements of any number of concurrent Get/Put
   calls, and tokens are conserved.

   The counter is an atomic.Int64 (since the fix: commit; the pinned code kept it in an int32
   and truncated maxTokens >= 2^31, see section 4).
   Hypotheses of the positive theorems (both are tight, see the end of the file):
     0 <= maxTokens < 2^63          (maxTokens is a 64-bit int, so this is just "not negative")
     at most n <= 2^63 calls are in flight at the same time
                                     (each racing Get decrements before it compensates; with
                                      more than 2^63 simultaneous decrements the int64 wraps).
   The bound on simultaneous calls is expressed by the guarded step [lp_step_n n] (an event is
   only enabled when at most n calls are in flight afterwards); schedules whose thread ids
   are all < n satisfy it ([exec_tids_bounded]), so every theorem is also stated in the form
   "all tids < n". *)
From Ekit Require Import Common Conc LimitPoolModel.
From Coq Require Import ZifyBool Arith PeanoNat.
Ltac Zify.zify_post_hook ::= Z.div_mod_to_equations.

(* ---------- int64 arithmetic ---------- *)
Lemma two63 : 2 ^ 63 = 9223372036854775808. Proof. reflexivity. Qed.

Lemma wrap_s64_id x : - 2 ^ 63 <= x < 2 ^ 63 -> wrap_s 64 x = x.
Proof.
  intros Hx. rewrite two63 in Hx. unfold wrap_s.
  change (2 ^ (64 - 1)) with 9223372036854775808. change (2 ^ 64) with 18446744073709551616.
  destruct (x mod 18446744073709551616 <? 9223372036854775808) eqn:E; lia.
Qed.

Lemma add64_exact x d : - 2 ^ 63 <= x + d < 2 ^ 63 -> add64 x d = x + d.
Proof. intros H. unfold add64. apply wrap_s64_id, H. Qed.

(* ---------- thread-table facts not in Conc.v ---------- *)
Lemma count_lt_length_of_other (f : lp_pc -> bool) t p0 l :
  lookup t l = Some p0 -> f p0 = false -> count f l <= Z.of_nat (length l) - 1.
Proof.
  intros Hl Hf.
  pose proof (count_remove _ f t p0 l Hl) as Hc. rewrite Hf in Hc.
  pose proof (count_le_length _ f (remove t l)) as Hle.
  pose proof (length_remove _ t p0 l Hl) as Hlen. lia.
Qed.

Lemma count_pos_of_lookup (f : lp_pc -> bool) t p0 l :
  lookup t l = Some p0 -> f p0 = true -> 1 <= count f l.
Proof.
  intros Hl Hf.
  pose proof (count_remove _ f t p0 l Hl) as Hc. rewrite Hf in Hc.
  pose proof (count_nonneg _ f (remove t l)) as Hn. lia.
Qed.

Lemma in_tids_remove (t x : tid) (l : list (tid * lp_pc)) :
  In x (tids (remove t l)) -> In x (tids l).
Proof.
  induction l as [|[t' p'] r IH]; cbn; [tauto|].
  destruct (Nat.eqb t t'); cbn; tauto.
Qed.

Lemma nodup_bounded_length (n : nat) (l : list nat) :
  NoDup l -> Forall (fun x => (x < n)%nat) l -> (length l <= n)%nat.
Proof.
  intros Hnd Hall. rewrite <- (seq_length n 0).
  apply NoDup_incl_length; [exact Hnd|].
  intros x Hx. rewrite Forall_forall in Hall. apply in_seq. specialize (Hall x Hx). lia.
Qed.

(* ---------- the invariant ---------- *)
Definition n_comp (c : lp_cfg) : Z := count (is_pc GetComp) (lp_thr c).

Record lp_inv (m : Z) (c : lp_cfg) : Prop := {
  inv_max : lp_max c = m;
  (* the counter = permits left, minus one for every failed Get that has decremented
     and not yet compensated *)
  inv_tokens : lp_tokens c = m - lp_outstanding c - n_comp c;
  inv_held : 0 <= lp_held c;
  inv_out : 0 <= lp_outstanding c <= m;
  inv_nodup : NoDup (tids (lp_thr c));
  (* the counter is a genuine int64 value: no addition has wrapped so far *)
  inv_range : - 2 ^ 63 <= lp_tokens c < 2 ^ 63
}.

(* the mathematical (unwrapped) effect of an event on the counter *)
Definition lp_delta (c : lp_cfg) (e : lp_ev) : Z :=
  match e with
  | LStep t =>
    match lookup t (lp_thr c) with
    | Some GetDec => -1
    | Some GetComp => 1
    | Some PutAdd => 1
    | _ => 0
    end
  | _ => 0
  end.

Lemma lp_inv_init m : 0 <= m < 2 ^ 63 -> lp_inv m (lp_init m).
Proof.
  intros Hm. unfold lp_init.
  assert (Hw : wrap_s 64 m = m) by (apply wrap_s64_id; lia).
  constructor; unfold lp_outstanding, n_comp; cbn; try rewrite Hw; try lia.
  constructor.
Qed.

Ltac lp_counts Hl :=
  unfold lp_outstanding, n_comp in *; cbn [lp_thr lp_held lp_tokens lp_max] in *;
  repeat first
    [ rewrite (count_update _ _ _ _ _ _ Hl)
    | rewrite (count_remove _ _ _ _ _ Hl)
    | rewrite count_spawn ];
  cbn [is_pc lp_pc_eqb] in *.

(* one event preserves the invariant, and its effect on the counter is the unwrapped one,
   provided at most 2^63 calls are in flight afterwards *)
Lemma lp_inv_step_delta m c e c' :
  0 <= m < 2 ^ 63 ->
  lp_inv m c -> lp_step c e = Some c' ->
  Z.of_nat (length (lp_thr c')) <= 2 ^ 63 ->
  lp_inv m c' /\ lp_tokens c' = lp_tokens c + lp_delta c e.
Proof.
  intros Hm [Imax Itok Iheld Iout Ind Irng] Hstep Hlen.
  rewrite two63 in *.
  pose proof (count_nonneg _ (is_pc GetComp) (lp_thr c)) as Ncomp.
  pose proof (count_nonneg _ (is_pc GetRetT) (lp_thr c)) as Nrett.
  pose proof (count_nonneg _ (is_pc PutPool) (lp_thr c)) as Npp.
  pose proof (count_nonneg _ (is_pc PutAdd) (lp_thr c)) as Npa.
  unfold lp_step, lp_exec1, lp_delta in *.
  destruct e as [t|t|t].
  - (* a new Get call *)
    destruct (lookup t (lp_thr c)) as [p|] eqn:Hl; [discriminate|].
    injection Hstep as <-. split; [|cbn; lia].
    constructor; try (lp_counts Hl; lia).
    cbn [lp_thr]. apply nodup_spawn; assumption.
  - (* a new Put call: the client gives back one object it holds *)
    destruct (lookup t (lp_thr c)) as [p|] eqn:Hl; [discriminate|].
    destruct (0 <? lp_held c) eqn:Hh; [|discriminate].
    injection Hstep as <-. split; [|cbn; lia].
    constructor; try (lp_counts Hl; lia).
    cbn [lp_thr]. apply nodup_spawn; assumption.
  - destruct (lookup t (lp_thr c)) as [p|] eqn:Hl; [|discriminate].
    destruct p; injection Hstep as <-; cbn [lp_thr] in Hlen.
    + (* GetDec: tokens.Add(-1) *)
      rewrite length_update in Hlen.
      pose proof (count_lt_length_of_other (is_pc GetComp) t GetDec (lp_thr c) Hl eq_refl) as Hc.
      assert (Hx : add64 (lp_tokens c) (-1) = lp_tokens c - 1).
      { apply add64_exact. unfold lp_outstanding, n_comp in *. lia. }
      rewrite Hx. split; [|cbn; lia].
      destruct (lp_tokens c - 1 <? 0) eqn:Hneg;
        (constructor; try (lp_counts Hl; lia);
         cbn [lp_thr]; rewrite tids_update; assumption).
    + (* GetComp: tokens.Add(1) *)
      pose proof (count_pos_of_lookup (is_pc GetComp) t GetComp (lp_thr c) Hl eq_refl) as Hc.
      assert (Hx : add64 (lp_tokens c) 1 = lp_tokens c + 1).
      { apply add64_exact. unfold lp_outstanding, n_comp in *. lia. }
      rewrite Hx. split; [|cbn; lia].
      constructor; try (lp_counts Hl; lia).
      cbn [lp_thr]; rewrite tids_update; assumption.
    + (* GetRetF *)
      split; [|cbn; lia].
      constructor; try (lp_counts Hl; lia).
      cbn [lp_thr]. apply nodup_remove; assumption.
    + (* GetRetT: the client now holds the object *)
      split; [|cbn; lia].
      constructor; try (lp_counts Hl; lia).
      cbn [lp_thr]. apply nodup_remove; assumption.
    + (* PutPool *)
      split; [|cbn; lia].
      constructor; try (lp_counts Hl; lia).
      cbn [lp_thr]; rewrite tids_update; assumption.
    + (* PutAdd: tokens.Add(1) *)
      pose proof (count_pos_of_lookup (is_pc PutAdd) t PutAdd (lp_thr c) Hl eq_refl) as Hc.
      assert (Hx : add64 (lp_tokens c) 1 = lp_tokens c + 1).
      { apply add64_exact. unfold lp_outstanding, n_comp in *. lia. }
      rewrite Hx. split; [|cbn; lia].
      constructor; try (lp_counts Hl; lia).
      cbn [lp_thr]. apply nodup_remove; assumption.
Qed.

(* ---------- schedules with at most n calls in flight ---------- *)
Definition lp_step_n (n : nat) (c : lp_cfg) (e : lp_ev) : option lp_cfg :=
  match lp_step c e with
  | Some c' => if (length (lp_thr c') <=? n)%nat then Some c' else None
  | None => None
  end.

Lemma lp_step_n_inv n c e c' :
  lp_step_n n c e = Some c' -> lp_step c e = Some c' /\ (length (lp_thr c') <= n)%nat.
Proof.
  unfold lp_step_n. destruct (lp_step c e) as [c1|]; [|discriminate].
  destruct (length (lp_thr c1) <=? n)%nat eqn:E; [|discriminate].
  intros H; injection H as <-. apply Nat.leb_le in E. split; [reflexivity|exact E].
Qed.

Lemma lp_inv_step_n m n c e c' :
  0 <= m < 2 ^ 63 -> Z.of_nat n <= 2 ^ 63 ->
  lp_inv m c -> lp_step_n n c e = Some c' -> lp_inv m c'.
Proof.
  intros Hm Hn Hinv Hs. apply lp_step_n_inv in Hs. destruct Hs as [Hs Hlen].
  apply (lp_inv_step_delta m c e c' Hm Hinv Hs). lia.
Qed.

(* 1. the invariant holds in every reachable configuration *)
Theorem lp_inv_reachable_lemma m n :
  0 <= m < 2 ^ 63 -> Z.of_nat n <= 2 ^ 63 ->
  forall evs c, exec (lp_step_n n) (lp_init m) evs = Some c -> lp_inv m c.
Proof.
  intros Hm Hn evs c Hex.
  apply (invariant_reachable _ _ (lp_step_n n) (lp_inv m)
           (fun c0 e c1 => lp_inv_step_n m n c0 e c1 Hm Hn) evs (lp_init m) c);
    [apply lp_inv_init, Hm|exact Hex].
Qed.

(* the same with the invariant spelled out *)
Theorem lp_inv_reachable_explicit_lemma m n :
  0 <= m < 2 ^ 63 -> Z.of_nat n <= 2 ^ 63 ->
  forall evs c, exec (lp_step_n n) (lp_init m) evs = Some c ->
  lp_max c = m /\
  lp_tokens c = m - lp_outstanding c - count (is_pc GetComp) (lp_thr c) /\
  0 <= lp_held c /\ 0 <= lp_outstanding c <= m /\
  NoDup (tids (lp_thr c)) /\ - 2 ^ 63 <= lp_tokens c < 2 ^ 63.
Proof.
  intros Hm Hn evs c Hex.
  destruct (lp_inv_reachable_lemma m n Hm Hn evs c Hex) as [I1 I2 I3 I4 I5 I6].
  exact (conj I1 (conj I2 (conj I3 (conj I4 (conj I5 I6))))).
Qed.

(* no atomic add wraps: along every reachable step the counter changes by the exact delta *)
Theorem lp_no_wrap_lemma m n :
  0 <= m < 2 ^ 63 -> Z.of_nat n <= 2 ^ 63 ->
  forall evs c e c',
    exec (lp_step_n n) (lp_init m) evs = Some c -> lp_step_n n c e = Some c' ->
    lp_tokens c' = lp_tokens c + lp_delta c e /\ - 2 ^ 63 <= lp_tokens c' < 2 ^ 63.
Proof.
  intros Hm Hn evs c e c' Hex Hs.
  pose proof (lp_inv_reachable_lemma m n Hm Hn evs c Hex) as Hinv.
  apply lp_step_n_inv in Hs. destruct Hs as [Hs Hlen].
  destruct (lp_inv_step_delta m c e c' Hm Hinv Hs) as [Hinv' Hd]; [lia|].
  split; [exact Hd|apply (inv_range m c' Hinv')].
Qed.

(* 2. never more than maxTokens successful Gets outstanding *)
Theorem lp_outstanding_le_max_lemma m n :
  0 <= m < 2 ^ 63 -> Z.of_nat n <= 2 ^ 63 ->
  forall evs c, exec (lp_step_n n) (lp_init m) evs = Some c ->
  0 <= lp_outstanding c <= m.
Proof.
  intros Hm Hn evs c Hex. apply (inv_out m c (lp_inv_reachable_lemma m n Hm Hn evs c Hex)).
Qed.

(* ---------- the same for schedules described by their thread ids ---------- *)
Definition ev_tid (e : lp_ev) : tid :=
  match e with LCallGet t => t | LCallPut t => t | LStep t => t end.

Definition tids_lt (n : nat) (c : lp_cfg) : Prop :=
  Forall (fun x => (x < n)%nat) (tids (lp_thr c)).

Lemma lp_step_tids_lt n c e c' :
  tids_lt n c -> (ev_tid e < n)%nat -> lp_step c e = Some c' -> tids_lt n c'.
Proof.
  unfold tids_lt, lp_step, lp_exec1. intros Hall Hlt Hs.
  destruct e as [t|t|t]; cbn [ev_tid] in Hlt.
  - destruct (lookup t (lp_thr c)); [discriminate|]. injection Hs as <-. cbn [lp_thr].
    rewrite tids_spawn. apply Forall_app. split; [exact Hall|constructor; [exact Hlt|constructor]].
  - destruct (lookup t (lp_thr c)); [discriminate|].
    destruct (0 <? lp_held c); [|discriminate]. injection Hs as <-. cbn [lp_thr].
    rewrite tids_spawn. apply Forall_app. split; [exact Hall|constructor; [exact Hlt|constructor]].
  - destruct (lookup t (lp_thr c)) as [p|]; [|discriminate].
    assert (Hrem : Forall (fun x => (x < n)%nat) (tids (remove t (lp_thr c)))).
    { rewrite Forall_forall in *. intros x Hx. apply Hall. eapply in_tids_remove, Hx. }
    destruct p; injection Hs as <-; cbn [lp_thr]; try rewrite tids_update; assumption.
Qed.

Lemma lp_step_nodup c e c' :
  NoDup (tids (lp_thr c)) -> lp_step c e = Some c' -> NoDup (tids (lp_thr c')).
Proof.
  unfold lp_step, lp_exec1. intros Hnd Hs.
  destruct e as [t|t|t].
  - destruct (lookup t (lp_thr c)) eqn:Hl; [discriminate|]. injection Hs as <-. cbn [lp_thr].
    apply nodup_spawn; assumption.
  - destruct (lookup t (lp_thr c)) eqn:Hl; [discriminate|].
    destruct (0 <? lp_held c); [|discriminate]. injection Hs as <-. cbn [lp_thr].
    apply nodup_spawn; assumption.
  - destruct (lookup t (lp_thr c)) as [p|]; [|discriminate].
    destruct p; injection Hs as <-; cbn [lp_thr]; try rewrite tids_update;
      try apply nodup_remove; assumption.
Qed.

(* a schedule that only uses thread ids < n never has more than n calls in flight *)
Lemma exec_tids_bounded n evs :
  Forall (fun e => (ev_tid e < n)%nat) evs ->
  forall c c', NoDup (tids (lp_thr c)) -> tids_lt n c ->
  exec lp_step c evs = Some c' -> exec (lp_step_n n) c evs = Some c'.
Proof.
  induction evs as [|e r IH]; intros Hall c c' Hnd Hlt; cbn [exec]; [auto|].
  inversion Hall as [|e0 r0 He Hr]; subst.
  destruct (lp_step c e) as [c1|] eqn:Hs; [|discriminate].
  pose proof (lp_step_tids_lt n c e c1 Hlt He Hs) as Hlt1.
  pose proof (lp_step_nodup c e c1 Hnd Hs) as Hnd1.
  pose proof (nodup_bounded_length n _ Hnd1 Hlt1) as Hlen.
  unfold tids in Hlen. rewrite map_length in Hlen.
  unfold lp_step_n. rewrite Hs. apply Nat.leb_le in Hlen. rewrite Hlen.
  apply IH; assumption.
Qed.

Lemma exec_tids_bounded_init m n evs c :
  Forall (fun e => (ev_tid e < n)%nat) evs ->
  exec lp_step (lp_init m) evs = Some c -> exec (lp_step_n n) (lp_init m) evs = Some c.
Proof.
  intros Hall. apply exec_tids_bounded; [exact Hall|constructor|constructor].
Qed.

(* conversely a bounded execution is an execution *)
Lemma exec_n_is_exec n evs : forall c c',
  exec (lp_step_n n) c evs = Some c' -> exec lp_step c evs = Some c'.
Proof.
  induction evs as [|e r IH]; intros c c'; cbn [exec]; [auto|].
  destruct (lp_step_n n c e) as [c1|] eqn:Hs; [|discriminate].
  apply lp_step_n_inv in Hs. destruct Hs as [Hs _]. rewrite Hs. apply IH.
Qed.

Theorem lp_inv_reachable_tids_lemma m n :
  0 <= m < 2 ^ 63 -> Z.of_nat n <= 2 ^ 63 ->
  forall evs c, Forall (fun e => (ev_tid e < n)%nat) evs ->
  exec lp_step (lp_init m) evs = Some c -> lp_inv m c.
Proof.
  intros Hm Hn evs c Hall Hex.
  apply (lp_inv_reachable_lemma m n Hm Hn evs c), exec_tids_bounded_init; assumption.
Qed.

Theorem lp_outstanding_le_max_tids_lemma m n :
  0 <= m < 2 ^ 63 -> Z.of_nat n <= 2 ^ 63 ->
  forall evs c, Forall (fun e => (ev_tid e < n)%nat) evs ->
  exec lp_step (lp_init m) evs = Some c -> lp_outstanding c <= m.
Proof.
  intros Hm Hn evs c Hall Hex.
  apply (inv_out m c (lp_inv_reachable_tids_lemma m n Hm Hn evs c Hall Hex)).
Qed.

(* ---------- 3. conservation ---------- *)
Lemma lp_quiescent_outstanding c : lp_thr c = [] -> lp_outstanding c = lp_held c.
Proof. intros H. unfold lp_outstanding. rewrite H. cbn. lia. Qed.

Lemma lp_conservation_quiescent_inv m c :
  lp_inv m c -> lp_thr c = [] -> lp_tokens c = m - lp_held c /\ 0 <= lp_held c <= m.
Proof.
  intros Hinv Hq. pose proof (inv_tokens m c Hinv) as Ht. pose proof (inv_out m c Hinv) as Ho.
  rewrite (lp_quiescent_outstanding c Hq) in *. unfold n_comp in Ht. rewrite Hq in Ht. cbn in Ht.
  lia.
Qed.

Theorem lp_conservation_at_quiescence_lemma m n :
  0 <= m < 2 ^ 63 -> Z.of_nat n <= 2 ^ 63 ->
  forall evs c, exec (lp_step_n n) (lp_init m) evs = Some c ->
  lp_thr c = [] -> lp_tokens c = m - lp_held c /\ 0 <= lp_held c <= m.
Proof.
  intros Hm Hn evs c Hex Hq.
  apply lp_conservation_quiescent_inv; [apply (lp_inv_reachable_lemma m n Hm Hn evs c Hex)|exact Hq].
Qed.

Lemma lp_inv_quiescent_intro m mx tk h :
  0 <= m < 2 ^ 63 -> mx = m -> tk = m - h -> 0 <= h <= m ->
  lp_inv m {| lp_max := mx; lp_tokens := tk; lp_thr := []; lp_held := h |}.
Proof.
  intros Hm -> -> Hh. rewrite two63 in Hm.
  constructor; unfold lp_outstanding, n_comp; cbn; try rewrite two63; try lia. constructor.
Qed.

(* a Get executed alone from a quiescent configuration: succeeds iff the counter is
   positive, and takes one token exactly then *)
Lemma lp_get_alone_quiescent m c t :
  0 <= m < 2 ^ 63 -> lp_inv m c -> lp_thr c = [] ->
  exists c',
    lp_get_alone c t = Some (c', 0 <? lp_tokens c) /\
    lp_thr c' = [] /\ lp_inv m c' /\
    lp_tokens c' = lp_tokens c - (if 0 <? lp_tokens c then 1 else 0) /\
    lp_held c' = lp_held c + (if 0 <? lp_tokens c then 1 else 0).
Proof.
  intros Hm Hinv Hq.
  destruct (lp_conservation_quiescent_inv m c Hinv Hq) as [Htok Hh].
  pose proof (inv_max m c Hinv) as Hmax.
  destruct c as [mx tk thr h]. cbn [lp_thr lp_tokens lp_held lp_max] in *. subst thr mx.
  pose proof two63 as H31.
  unfold lp_get_alone, lp_step, lp_exec1.
  cbn [lookup spawn app lp_thr lp_tokens lp_held lp_max update remove].
  rewrite Nat.eqb_refl.
  assert (Hx : add64 tk (-1) = tk - 1) by (apply add64_exact; lia).
  rewrite Hx.
  destruct (tk - 1 <? 0) eqn:Hneg.
  - (* no token: decrement, compensate, return false *)
    cbn [lookup lp_thr lp_tokens lp_held lp_max update remove]. rewrite Nat.eqb_refl.
    cbn [lookup lp_thr lp_tokens lp_held lp_max update remove]. rewrite Nat.eqb_refl.
    assert (Hy : add64 (tk - 1) 1 = tk) by (rewrite add64_exact; lia).
    rewrite Hy.
    assert (Hb : (0 <? tk) = false) by lia. rewrite Hb.
    eexists. split; [reflexivity|]. cbn [lp_thr lp_tokens lp_held].
    split; [reflexivity|]. split; [|lia].
    apply lp_inv_quiescent_intro; lia.
  - cbn [lookup lp_thr lp_tokens lp_held lp_max update remove]. rewrite Nat.eqb_refl.
    assert (Hb : (0 <? tk) = true) by lia. rewrite Hb.
    eexists. split; [reflexivity|]. cbn [lp_thr lp_tokens lp_held].
    split; [reflexivity|]. split; [|lia].
    apply lp_inv_quiescent_intro; lia.
Qed.

(* the sequential Get is one particular schedule of the interleaving semantics *)
Lemma lp_get_alone_is_exec c t c' b :
  lp_get_alone c t = Some (c', b) ->
  exists evs, exec lp_step c evs = Some c' /\ Forall (fun e => ev_tid e = t) evs.
Proof.
  unfold lp_get_alone. intros H.
  destruct (lp_step c (LCallGet t)) as [c1|] eqn:H1; [|discriminate].
  destruct (lp_exec1 c1 (LStep t)) as [[c2 o]|] eqn:H2; [|discriminate].
  assert (H2' : lp_step c1 (LStep t) = Some c2) by (unfold lp_step; rewrite H2; reflexivity).
  destruct o as [p| |]; try discriminate. destruct p; try discriminate.
  - destruct (lp_step c2 (LStep t)) as [c3|] eqn:H3; [|discriminate].
    destruct (lp_step c3 (LStep t)) as [c4|] eqn:H4; [|discriminate].
    injection H as <- <-. exists [LCallGet t; LStep t; LStep t; LStep t].
    cbn [exec]. rewrite H1, H2', H3, H4. split; [reflexivity|repeat constructor].
  - destruct (lp_step c2 (LStep t)) as [c3|] eqn:H3; [|discriminate].
    injection H as <- <-. exists [LCallGet t; LStep t; LStep t].
    cbn [exec]. rewrite H1, H2', H3. split; [reflexivity|repeat constructor].
Qed.

(* k Gets one after the other, each run to completion *)
Fixpoint lp_gets_alone (c : lp_cfg) (ts : list tid) : option (lp_cfg * list bool) :=
  match ts with
  | [] => Some (c, [])
  | t :: r =>
    match lp_get_alone c t with
    | None => None
    | Some (c1, b) =>
      match lp_gets_alone c1 r with
      | None => None
      | Some (c2, bs) => Some (c2, b :: bs)
      end
    end
  end.

(* from a quiescent configuration exactly (value of the counter) further Gets succeed *)
Lemma lp_gets_alone_quiescent m :
  0 <= m < 2 ^ 63 ->
  forall ts c, lp_inv m c -> lp_thr c = [] ->
  exists c',
    lp_gets_alone c ts =
      Some (c', repeat true (Nat.min (length ts) (Z.to_nat (lp_tokens c)))
                ++ repeat false (length ts - Z.to_nat (lp_tokens c))) /\
    lp_thr c' = [] /\ lp_inv m c'.
Proof.
  intros Hm ts. induction ts as [|t r IH]; intros c Hinv Hq.
  - exists c. cbn. auto.
  - destruct (lp_get_alone_quiescent m c t Hm Hinv Hq) as (c1 & Hg & Hq1 & Hinv1 & Htk1 & _).
    destruct (IH c1 Hinv1 Hq1) as (c2 & Hgs & Hq2 & Hinv2).
    exists c2. split; [|auto].
    cbn [lp_gets_alone length]. rewrite Hg, Hgs.
    destruct (lp_conservation_quiescent_inv m c Hinv Hq) as [Htok Hh].
    destruct (0 <? lp_tokens c) eqn:Hpos.
    + assert (Hn : Z.to_nat (lp_tokens c) = S (Z.to_nat (lp_tokens c1))) by lia.
      rewrite Hn. cbn [Nat.min Nat.sub repeat app]. reflexivity.
    + assert (Hn : Z.to_nat (lp_tokens c) = O) by lia.
      assert (Hn1 : Z.to_nat (lp_tokens c1) = O) by lia.
      rewrite Hn, Hn1. rewrite !Nat.min_0_r, !Nat.sub_0_r. cbn [repeat app]. reflexivity.
Qed.

(* once everything borrowed has been put back (nothing held, no call in flight), whatever
   interleaving happened before: exactly maxTokens further Gets succeed, the next one fails *)
Theorem lp_exactly_max_after_return_lemma m n :
  0 <= m < 2 ^ 63 -> Z.of_nat n <= 2 ^ 63 ->
  forall evs c ts, exec (lp_step_n n) (lp_init m) evs = Some c ->
  lp_thr c = [] -> lp_held c = 0 -> length ts = S (Z.to_nat m) ->
  exists c', lp_gets_alone c ts = Some (c', repeat true (Z.to_nat m) ++ [false]).
Proof.
  intros Hm Hn evs c ts Hex Hq Hh Hlen.
  pose proof (lp_inv_reachable_lemma m n Hm Hn evs c Hex) as Hinv.
  destruct (lp_conservation_quiescent_inv m c Hinv Hq) as [Htok _].
  destruct (lp_gets_alone_quiescent m Hm ts c Hinv Hq) as (c' & Hg & _).
  exists c'. rewrite Hg, Hlen, Htok, Hh, Z.sub_0_r.
  replace (Nat.min (S (Z.to_nat m)) (Z.to_nat m)) with (Z.to_nat m) by lia.
  replace (S (Z.to_nat m) - Z.to_nat m)%nat with 1%nat by lia.
  reflexivity.
Qed.

(* more generally: with h objects still held at quiescence exactly m - h Gets succeed *)
Theorem lp_remaining_gets_lemma m n :
  0 <= m < 2 ^ 63 -> Z.of_nat n <= 2 ^ 63 ->
  forall evs c ts, exec (lp_step_n n) (lp_init m) evs = Some c -> lp_thr c = [] ->
  exists c', lp_gets_alone c ts =
    Some (c', repeat true (Nat.min (length ts) (Z.to_nat (m - lp_held c)))
              ++ repeat false (length ts - Z.to_nat (m - lp_held c))).
Proof.
  intros Hm Hn evs c ts Hex Hq.
  pose proof (lp_inv_reachable_lemma m n Hm Hn evs c Hex) as Hinv.
  destruct (lp_conservation_quiescent_inv m c Hinv Hq) as [Htok _].
  destruct (lp_gets_alone_quiescent m Hm ts c Hinv Hq) as (c' & Hg & _).
  exists c'. rewrite Hg, Htok. reflexivity.
Qed.

(* the observable trace of a schedule (for examples): what each event reported *)
Fixpoint lp_run (c : lp_cfg) (evs : list lp_ev) : option (lp_cfg * list lp_obs) :=
  match evs with
  | [] => Some (c, [])
  | e :: r =>
    match lp_exec1 c e with
    | None => None
    | Some (c1, o) =>
      match lp_run c1 r with
      | None => None
      | Some (c2, os) => Some (c2, o :: os)
      end
    end
  end.

Lemma lp_run_exec evs : forall c c' os,
  lp_run c evs = Some (c', os) -> exec lp_step c evs = Some c'.
Proof.
  induction evs as [|e r IH]; intros c c' os; cbn [lp_run exec].
  - intros H; injection H as <- _. reflexivity.
  - unfold lp_step. destruct (lp_exec1 c e) as [[c1 o]|]; [|discriminate].
    destruct (lp_run c1 r) as [[c2 os2]|] eqn:Hr; [|discriminate].
    intros H; injection H as <- _. apply (IH c1 c2 os2 Hr).
Qed.

(* ---------- 4. the 32-bit counter of the pinned code, and its repair ---------- *)
(* The pinned NewLimitPool did tokens.Add(int32(maxTokens)) on an atomic.Int32
   ([lp_init_pinned32]): for maxTokens = 2^31 + 5 the conversion truncates to -2^31 + 5, the
   counter starts negative, and a Get executed alone from a pool whose counter has that
   value fails although no object is outstanding.  (Documentation of the defect repaired by
   the fix: commit.) *)
Theorem lp_truncation_refuted_lemma :
  exists m, 2 ^ 31 <= m < 2 ^ 63 /\ lp_init_pinned32 m = - 2 ^ 31 + 5 /\ lp_init_pinned32 m < 0 /\
    exists c', lp_get_alone {| lp_max := m; lp_tokens := lp_init_pinned32 m;
                               lp_thr := []; lp_held := 0 |} 0%nat = Some (c', false).
Proof.
  exists (2 ^ 31 + 5). split; [split; vm_compute; [discriminate|reflexivity]|].
  split; [vm_compute; reflexivity|]. split; [vm_compute; reflexivity|].
  eexists. vm_compute. reflexivity.
Qed.

(* positive counterpart on the current code: with the 64-bit counter the same maxTokens is
   inside the hypotheses, the counter starts at maxTokens and the first Get succeeds *)
Theorem lp_large_max_first_get_lemma :
  lp_tokens (lp_init (2 ^ 31 + 5)) = 2 ^ 31 + 5 /\
  exists c', lp_get_alone (lp_init (2 ^ 31 + 5)) 0%nat = Some (c', true) /\
             lp_tokens c' = 2 ^ 31 + 4 /\ lp_held c' = 1.
Proof.
  split; [vm_compute; reflexivity|].
  eexists. split; [vm_compute; reflexivity|]. split; vm_compute; reflexivity.
Qed.

(* the constructor is exact on the whole hypothesis range *)
Lemma lp_init_exact m : 0 <= m < 2 ^ 63 -> lp_tokens (lp_init m) = m.
Proof. intros Hm. unfold lp_init. cbn [lp_tokens]. apply wrap_s64_id. lia. Qed.

(* the bound on simultaneous calls is needed too: the hypothesis n <= 2^63 cannot be
   dropped in [lp_inv_step_delta] — with the counter at -2^63 (2^63 racing Gets on an empty
   pool, all between their decrement and their compensation) one more decrement wraps to
   2^63 - 1 and that Get succeeds.  The wrap itself, on the counter arithmetic: *)
Lemma add64_wraps_at_min : add64 (- 2 ^ 63) (-1) = 2 ^ 63 - 1.
Proof. vm_compute. reflexivity. Qed.
