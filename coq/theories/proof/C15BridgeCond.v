(* C15BridgeCond.v — C15 bridge for syncx.Cond (interleaving model CondModel.v).

   stmt_of_pc_Cond / path_of_pc_Cond / occ_of_pc_Cond: the Coq-side copy of the pc -> label table of
   ocaml/drv_cond.ml (compared with it on every run by checks/part_c15bridge.py).  The helper
   statements (checkCopy, checkFirstUse, newNotifyList, newChanList, notifyList.add / wait /
   notifyOne / notifyAll / notifyNext, chanList.alloc / pushBack / remove / len / front / free) are
   shared by several callers: the entry function (= r_func of the footprint rows) and the inline
   path (= the prefix of r_stmt) are read off the calling context the program counter carries.
   locks_held_Cond: the model's l.mu and c.L have owners (c_mu, c_L); the owner of c_mu holds
   "notifyList.mu" exclusively, the owner of c_L holds "Cond.L".
   guards_respected_Cond_lemma: whenever a thread is about to execute a statement it holds every lock
   the footprint table declares for the plain accesses of that statement (all GLock rows of
   cond_table name notifyList.mu) — for every event list, for a fresh and for a copied Cond. *)
From Coq Require Import List String Bool Arith Lia ZArith.
From Ekit Require Import Common HB FootprintModel C15Bridge Conc CondModel CondProof CondProof2.
Import ListNotations.
Open Scope string_scope.

Definition TY_Cond := "Cond".
Definition MU_Cond := "notifyList.mu".
Definition L_Cond := "Cond.L".

(* normalised statement text; "" = not a yield point (parked inside the select) *)
Definition stmt_of_pc_Cond (p : cpc) : string :=
  match p with
  | W_CheckCopy => "c.checkCopy()"
  | W_FirstUse => "c.checkFirstUse()"
  | W_Add => "t := c.notifyList.add()"
  | W_LUnlock _ => "c.L.Unlock()"
  | W_DeferLock _ => "defer c.L.Lock()"
  | W_RetWait _ => "return c.notifyList.wait(ctx, t)"
  | S_CheckCopy => "c.checkCopy()"
  | S_FirstUse => "c.checkFirstUse()"
  | S_NotifyOne => "c.notifyList.notifyOne()"
  | B_CheckCopy => "c.checkCopy()"
  | B_FirstUse => "c.checkFirstUse()"
  | B_NotifyAll => "c.notifyList.notifyAll()"
  | CC_If _ => "if atomic.LoadPointer(&c.checker) != unsafe.Pointer(c) && !atomic.CompareAndSwapPointer(&c.checker, nil, unsafe.Pointer(c)) && atomic.LoadPointer(&c.checker) != unsafe.Pointer(c)"
  | CC_Panic _ => "panic(""syncx.Cond is copied"")"
  | FU_Once _ => "c.once.Do(func() { if c.notifyList == nil { c.notifyList = newNotifyList() } })"
  | FU_IfNil _ => "if c.notifyList == nil"
  | FU_Assign _ => "c.notifyList = newNotifyList()"
  | NL_Ret _ => "return &notifyList{ mu: sync.Mutex{}, list: newChanList(), }"
  | NC_1 _ => "sentinel := &node{}"
  | NC_2 _ => "sentinel.prev = sentinel"
  | NC_3 _ => "sentinel.next = sentinel"
  | NC_Ret _ => "return &chanList{ sentinel: sentinel, size: 0, pool: &sync.Pool{ New: func() any { return &node{ Value: make(chan struct{}, 1), } }, }, }"
  | AD_Lock => "l.mu.Lock()"
  | AD_Defer => "defer l.mu.Unlock()"
  | AD_Alloc => "el := l.list.alloc()"
  | AL_Get => "elem := l.pool.Get().(*node)"
  | AL_New => "return &node{ Value: make(chan struct{}, 1), }"
  | AL_Ret _ => "return elem"
  | AD_Push _ => "l.list.pushBack(el)"
  | PB_1 _ => "elem.next = l.sentinel"
  | PB_2 _ => "elem.prev = l.sentinel.prev"
  | PB_3 _ => "l.sentinel.prev.next = elem"
  | PB_4 _ => "l.sentinel.prev = elem"
  | PB_5 _ => "l.size++"
  | AD_Ret _ => "return el"
  | WT_Ch _ => "ch := elem.Value"
  | WT_DeferFree _ => "defer l.list.free(elem)"
  | WT_Select _ => "select"
  | WT_Parked _ => ""
  | WT_CaseCtx _ => "case <-ctx.Done():"
  | WT_Lock _ => "l.mu.Lock()"
  | WT_DeferUnlock _ => "defer l.mu.Unlock()"
  | WT_Select1 _ => "select"
  | WT_CaseTok _ => "case <-ch:"
  | WT_IfLen _ => "if l.list.len() != 0"
  | WT_Forward _ => "l.notifyNext()"
  | WT_Default _ => "default:"
  | WT_Remove _ => "l.list.remove(elem)"
  | WT_RetErr _ => "return ctx.Err()"
  | WT_CaseCh _ => "case <-ch:"
  | WT_RetNil _ => "return nil"
  | FR_Put _ _ => "l.pool.Put(elem)"
  | LEN _ => "return l.size"
  | FT_Ret _ => "return l.sentinel.next"
  | NO_Lock => "l.mu.Lock()"
  | NO_Defer => "defer l.mu.Unlock()"
  | NO_IfLen => "if l.list.len() == 0"
  | NO_Ret => "return"
  | NO_Next => "l.notifyNext()"
  | NA_Lock => "l.mu.Lock()"
  | NA_Defer => "defer l.mu.Unlock()"
  | NA_For => "for l.list.len() != 0"
  | NA_Next => "l.notifyNext()"
  | NN_Front _ => "front := l.list.front()"
  | NN_Ch _ _ => "ch := front.Value"
  | NN_Remove _ _ => "l.list.remove(front)"
  | NN_Send _ _ => "ch <- struct{}{}"
  | RM_1 _ _ => "elem.prev.next = elem.next"
  | RM_2 _ _ => "elem.next.prev = elem.prev"
  | RM_3 _ _ => "elem.prev = nil"
  | RM_4 _ _ => "elem.next = nil"
  | RM_5 _ _ => "l.size--"
  end.

Definition occ_of_pc_Cond (p : cpc) : nat :=
  match p with
  | WT_Select1 _ => 1
  | WT_CaseCh _ => 1
  | _ => 0
  end.

Definition pcname_Cond (p : cpc) : string :=
  match p with
  | W_CheckCopy => "W_CheckCopy"
  | W_FirstUse => "W_FirstUse"
  | W_Add => "W_Add"
  | W_LUnlock _ => "W_LUnlock"
  | W_DeferLock _ => "W_DeferLock"
  | W_RetWait _ => "W_RetWait"
  | S_CheckCopy => "S_CheckCopy"
  | S_FirstUse => "S_FirstUse"
  | S_NotifyOne => "S_NotifyOne"
  | B_CheckCopy => "B_CheckCopy"
  | B_FirstUse => "B_FirstUse"
  | B_NotifyAll => "B_NotifyAll"
  | CC_If _ => "CC_If"
  | CC_Panic _ => "CC_Panic"
  | FU_Once _ => "FU_Once"
  | FU_IfNil _ => "FU_IfNil"
  | FU_Assign _ => "FU_Assign"
  | NL_Ret _ => "NL_Ret"
  | NC_1 _ => "NC_1"
  | NC_2 _ => "NC_2"
  | NC_3 _ => "NC_3"
  | NC_Ret _ => "NC_Ret"
  | AD_Lock => "AD_Lock"
  | AD_Defer => "AD_Defer"
  | AD_Alloc => "AD_Alloc"
  | AL_Get => "AL_Get"
  | AL_New => "AL_New"
  | AL_Ret _ => "AL_Ret"
  | AD_Push _ => "AD_Push"
  | PB_1 _ => "PB_1"
  | PB_2 _ => "PB_2"
  | PB_3 _ => "PB_3"
  | PB_4 _ => "PB_4"
  | PB_5 _ => "PB_5"
  | AD_Ret _ => "AD_Ret"
  | WT_Ch _ => "WT_Ch"
  | WT_DeferFree _ => "WT_DeferFree"
  | WT_Select _ => "WT_Select"
  | WT_Parked _ => "WT_Parked"
  | WT_CaseCtx _ => "WT_CaseCtx"
  | WT_Lock _ => "WT_Lock"
  | WT_DeferUnlock _ => "WT_DeferUnlock"
  | WT_Select1 _ => "WT_Select1"
  | WT_CaseTok _ => "WT_CaseTok"
  | WT_IfLen _ => "WT_IfLen"
  | WT_Forward _ => "WT_Forward"
  | WT_Default _ => "WT_Default"
  | WT_Remove _ => "WT_Remove"
  | WT_RetErr _ => "WT_RetErr"
  | WT_CaseCh _ => "WT_CaseCh"
  | WT_RetNil _ => "WT_RetNil"
  | FR_Put _ _ => "FR_Put"
  | LEN _ => "LEN"
  | FT_Ret _ => "FT_Ret"
  | NO_Lock => "NO_Lock"
  | NO_Defer => "NO_Defer"
  | NO_IfLen => "NO_IfLen"
  | NO_Ret => "NO_Ret"
  | NO_Next => "NO_Next"
  | NA_Lock => "NA_Lock"
  | NA_Defer => "NA_Defer"
  | NA_For => "NA_For"
  | NA_Next => "NA_Next"
  | NN_Front _ => "NN_Front"
  | NN_Ch _ _ => "NN_Ch"
  | NN_Remove _ _ => "NN_Remove"
  | NN_Send _ _ => "NN_Send"
  | RM_1 _ _ => "RM_1"
  | RM_2 _ _ => "RM_2"
  | RM_3 _ _ => "RM_3"
  | RM_4 _ _ => "RM_4"
  | RM_5 _ _ => "RM_5"
  end.

Definition func_of_caller (k : caller) : string :=
  match k with InWait => "Wait" | InSignal => "Signal" | InBroadcast => "Broadcast" end.
Definition func_of_nnctx (k : nnctx) : string :=
  match k with NNWait _ => "Wait" | NNOne => "Signal" | NNAll => "Broadcast" end.
Definition path_of_nnctx (k : nnctx) : string :=
  match k with
  | NNWait _ => "notifyList.wait>notifyList.notifyNext"
  | NNOne => "notifyList.notifyOne>notifyList.notifyNext"
  | NNAll => "notifyList.notifyAll>notifyList.notifyNext"
  end.

(* the entry function = r_func of the footprint rows *)
Definition func_of_pc_Cond (p : cpc) : string :=
  match p with
  | W_CheckCopy | W_FirstUse | W_Add | W_LUnlock _ | W_DeferLock _ | W_RetWait _ => "Wait"
  | S_CheckCopy | S_FirstUse | S_NotifyOne => "Signal"
  | B_CheckCopy | B_FirstUse | B_NotifyAll => "Broadcast"
  | CC_If k | CC_Panic k | FU_Once k | FU_IfNil k | FU_Assign k | NL_Ret k
  | NC_1 k | NC_2 k | NC_3 k | NC_Ret k => func_of_caller k
  | LEN x => match x with LenWait _ => "Wait" | LenOne => "Signal" | LenAll => "Broadcast" end
  | FT_Ret k | NN_Front k | NN_Ch k _ | NN_Remove k _ | NN_Send k _ => func_of_nnctx k
  | RM_1 r _ | RM_2 r _ | RM_3 r _ | RM_4 r _ | RM_5 r _ =>
      match r with RMNext k => func_of_nnctx k | RMWait => "Wait" end
  | NO_Lock | NO_Defer | NO_IfLen | NO_Ret | NO_Next => "Signal"
  | NA_Lock | NA_Defer | NA_For | NA_Next => "Broadcast"
  | _ => "Wait"
  end.

(* inline path *)
Definition path_of_pc_Cond (p : cpc) : string :=
  match p with
  | CC_If _ | CC_Panic _ => "Cond.checkCopy"
  | FU_Once _ | FU_IfNil _ | FU_Assign _ => "Cond.checkFirstUse"
  | NL_Ret _ => "Cond.checkFirstUse>newNotifyList"
  | NC_1 _ | NC_2 _ | NC_3 _ | NC_Ret _ => "Cond.checkFirstUse>newNotifyList>newChanList"
  | AL_New => "Cond.checkFirstUse>newNotifyList>newChanList"   (* the pool's New closure, written inside newChanList *)
  | AD_Lock | AD_Defer | AD_Alloc | AD_Push _ | AD_Ret _ => "notifyList.add"
  | AL_Get | AL_Ret _ => "notifyList.add>chanList.alloc"
  | PB_1 _ | PB_2 _ | PB_3 _ | PB_4 _ | PB_5 _ => "notifyList.add>chanList.pushBack"
  | WT_Ch _ | WT_DeferFree _ | WT_Select _ | WT_Parked _ | WT_CaseCtx _ | WT_Lock _ | WT_DeferUnlock _
  | WT_Select1 _ | WT_CaseTok _ | WT_IfLen _ | WT_Forward _ | WT_Default _ | WT_Remove _ | WT_RetErr _
  | WT_CaseCh _ | WT_RetNil _ => "notifyList.wait"
  | FR_Put _ _ => "notifyList.wait>chanList.free"
  | LEN x => match x with
             | LenWait _ => "notifyList.wait>chanList.len"
             | LenOne => "notifyList.notifyOne>chanList.len"
             | LenAll => "notifyList.notifyAll>chanList.len"
             end
  | FT_Ret k => path_of_nnctx k ++ ">chanList.front"
  | NN_Front k | NN_Ch k _ | NN_Remove k _ | NN_Send k _ => path_of_nnctx k
  | RM_1 r _ | RM_2 r _ | RM_3 r _ | RM_4 r _ | RM_5 r _ =>
      match r with
      | RMNext k => path_of_nnctx k ++ ">chanList.remove"
      | RMWait => "notifyList.wait>chanList.remove"
      end
  | NO_Lock | NO_Defer | NO_IfLen | NO_Ret | NO_Next => "notifyList.notifyOne"
  | NA_Lock | NA_Defer | NA_For | NA_Next => "notifyList.notifyAll"
  | _ => ""
  end.

Definition lfunc_of_pc_Cond (p : cpc) : string :=
  lfunc_of TY_Cond (func_of_pc_Cond p) (path_of_pc_Cond p).
Definition rstmt_of_pc_Cond (p : cpc) : string := row_stmt (path_of_pc_Cond p) (stmt_of_pc_Cond p).

(* one representative per (constructor, calling context); node arguments do not matter *)
Definition all_pcs_Cond : list cpc :=
  let n := O in
  let ks := [InWait; InSignal; InBroadcast] in
  let ns := [NNWait n; NNOne; NNAll] in
  let rs := [RMNext (NNWait n); RMNext NNOne; RMNext NNAll; RMWait] in
  ([W_CheckCopy; W_FirstUse; W_Add; W_LUnlock n; W_DeferLock n; W_RetWait n; S_CheckCopy; S_FirstUse; S_NotifyOne;
    B_CheckCopy; B_FirstUse; B_NotifyAll]
   ++ flat_map (fun k => [CC_If k; CC_Panic k; FU_Once k; FU_IfNil k; FU_Assign k; NL_Ret k; NC_1 k; NC_2 k; NC_3 k; NC_Ret k]) ks
   ++ [AD_Lock; AD_Defer; AD_Alloc; AL_Get; AL_New; AL_Ret n; AD_Push n; PB_1 n; PB_2 n; PB_3 n; PB_4 n; PB_5 n; AD_Ret n;
       WT_Ch n; WT_DeferFree n; WT_Select n; WT_Parked n; WT_CaseCtx n; WT_Lock n; WT_DeferUnlock n; WT_Select1 n;
       WT_CaseTok n; WT_IfLen n; WT_Forward n; WT_Default n; WT_Remove n; WT_RetErr n; WT_CaseCh n; WT_RetNil n;
       FR_Put n true; LEN (LenWait n); LEN LenOne; LEN LenAll;
       NO_Lock; NO_Defer; NO_IfLen; NO_Ret; NO_Next; NA_Lock; NA_Defer; NA_For; NA_Next]
   ++ flat_map (fun k => [FT_Ret k; NN_Front k; NN_Ch k n; NN_Remove k n; NN_Send k n]) ns
   ++ flat_map (fun r => [RM_1 r n; RM_2 r n; RM_3 r n; RM_4 r n; RM_5 r n]) rs)%list.

Definition bridge_Cond : list bridge_line :=
  map (fun p => (func_of_pc_Cond p ++ ":" ++ pcname_Cond p, lfunc_of_pc_Cond p, stmt_of_pc_Cond p, occ_of_pc_Cond p))
      (filter (fun p => negb (String.eqb (stmt_of_pc_Cond p) "")) all_pcs_Cond).

(* ---------- locks ---------- *)
Definition locks_held_Cond (c : ccfg) (t : Conc.tid) : lockset :=
  ((match c_mu c with Some w => if Nat.eqb w t then [(MU_Cond, Excl)] else [] | None => [] end) ++
   (match c_L c with Some w => if Nat.eqb w t then [(L_Cond, Excl)] else [] | None => [] end))%list.

Definition pc_locks_Cond (p : cpc) : lockset := if holds_mu p then [(MU_Cond, Excl)] else [].

Lemma section_locks_held_Cond_lemma copied evs c t p :
  cond_run copied evs = Some c -> lookup t (c_thr c) = Some p ->
  incl (pc_locks_Cond p) (locks_held_Cond c t).
Proof.
  intros Hex Hl. unfold pc_locks_Cond, locks_held_Cond.
  destruct (holds_mu p) eqn:Eh; [|intros x []].
  assert (Hm : c_mu c = Some t).
  { apply (proj1 (i_mu c (f_inv c (full_reachable _ _ _ Hex)))).
    rewrite lookup_pm, Hl. cbn. rewrite Eh. reflexivity. }
  rewrite Hm, Nat.eqb_refl. intros x [<-|[]]. apply in_or_app. left. now left.
Qed.

Lemma guards_static_Cond p :
  guards_held cond_table (func_of_pc_Cond p) (rstmt_of_pc_Cond p) (pc_locks_Cond p) = true.
Proof.
  destruct p;
    repeat match goal with
           | k : caller |- _ => destruct k
           | k : nnctx |- _ => destruct k
           | r : rmctx |- _ => destruct r
           | x : lenctx |- _ => destruct x
           end; vm_compute; reflexivity.
Qed.

Theorem guards_respected_Cond_lemma copied evs c t p :
  cond_run copied evs = Some c -> lookup t (c_thr c) = Some p ->
  guards_respected_at cond_table (func_of_pc_Cond p) (rstmt_of_pc_Cond p) (locks_held_Cond c t).
Proof.
  intros Hex Hl. eapply guards_respected_at_incl.
  - eapply section_locks_held_Cond_lemma; eassumption.
  - apply guards_held_spec, guards_static_Cond.
Qed.

Definition keys_Cond : list (string * string) :=
  map (fun p => (func_of_pc_Cond p, rstmt_of_pc_Cond p)) all_pcs_Cond.

Lemma all_glock_rows_matched_Cond :
  unmatched cond_table keys_Cond = [] /\ List.length (glock_rows cond_table) = 18%nat.
Proof. vm_compute. split; reflexivity. Qed.
