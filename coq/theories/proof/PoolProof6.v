(* Proofs about PoolModel, part 6: the task ledger for all events, the C10 ledger theorems and panic
   containment. *)
From Ekit Require Import Common Conc PoolModel PoolProof PoolProof2 PoolProof3 PoolProof4 PoolProof5.
From Coq Require Import ZifyBool Arith PeanoNat.

(* ---------------------------------------------------------------- the other events *)
Lemma inv3_update i c t th th' :
  Inv3 i c -> lookup t (c_thr c) = Some th ->
  held i th' = held i th -> inuser i th' = inuser i th -> drain i th' = drain i th ->
  sentfl i th' = sentfl i th -> unsent i th' = unsent i th -> L5 th' ->
  Inv3 i (with_thr c (update t th' (c_thr c))).
Proof.
  intros HK Hl E1 E2 E3 E4 E5 E6.
  eapply (inv3_frame i c t th (Some th') None None (c_sh c) _ _ WkNone [] HK Hl (apply_out_update c t th'));
    cbn [oget oall]; auto; lia.
Qed.

Lemma inv3_init i P : Inv3 i (pinit P).
Proof. constructor; cbn; try reflexivity. constructor. Qed.

Lemma cnt_ltb_step (i n : nat) :
  (if Nat.ltb i (S n) then 1 else 0) = (if Nat.ltb i n then 1 else 0) + (if Nat.eqb n i then 1 else 0).
Proof. destruct (Nat.ltb_spec i (S n)), (Nat.ltb_spec i n), (Nat.eqb_spec n i); lia. Qed.

Lemma inv3_step i c e c' : Inv3 i c -> pstep_cfg c e = Some c' -> Inv3 i c'.
Proof.
  intros HK Hs. apply pstep_cfg_inv in Hs. destruct e as [t op|t ch|t|t|t].
  - (* PCall *)
    destruct Hs as (Hl & Hb & -> & Hid).
    destruct HK as [X1 X2 X3 X4 XL].
    constructor; cbn [c_par c_sh c_thr c_gh c_ntask]; rewrite ?tsum_spawn.
    + assert (held i (enter (c_sh c) op) = 0 /\ drain i (enter (c_sh c) op) = 0) as [-> ->]
        by (destruct op; split; reflexivity). lia.
    + assert (inuser i (enter (c_sh c) op) = 0) as -> by (destruct op; reflexivity). lia.
    + assert (Hs : sentfl i (enter (c_sh c) op) = 0) by (destruct op; reflexivity).
      assert (Hu : unsent i (enter (c_sh c) op) =
                   match op with OpSubmit id _ => if Nat.eqb id i then 1 else 0 | _ => 0 end)
        by (destruct op; reflexivity).
      rewrite Hs, Hu. destruct op as [id pp| | | |]; cbn [c_ntask] in *; subst; rewrite ?cnt_ltb_step; lia.
    + assert (sentfl i (enter (c_sh c) op) = 0) as -> by (destruct op; reflexivity). lia.
    + apply tall_spawn; [exact XL|]. unfold L5. destruct op; cbn; auto.
  - (* PStep *)
    destruct Hs as (th & o & obs & Hl & Hp & Ha). eapply (inv3_step_pstep (c_par c)); eauto.
  - (* PCancel *)
    destruct Hs as (th & Hl & _ & ->).
    apply (inv3_update i c t th); auto.
    exact (tall_lookup _ _ _ _ (x_loc _ _ HK) Hl).
  - (* PFire *)
    destruct Hs as (th & Hl & _ & ->).
    pose proof (tall_lookup _ _ _ _ (x_loc _ _ HK) Hl) as Lth.
    destruct (is_parked th) eqn:Ep.
    + apply is_parked_pc in Ep. apply (inv3_update i c t th); auto;
        try (unfold held, inuser, drain, sentfl, unsent, sentp; cbn; rewrite Ep; reflexivity).
      unfold L5 in *. rewrite Ep in Lth. cbn. tauto.
    + apply (inv3_update i c t th); auto.
  - (* PFinish *)
    destruct Hs as (th & obs & Hl & Epc & Ha).
    destruct HK as [X1 X2 X3 X4 XL].
    pose proof (apply_out_tsum2 (held i) (idz i) c t th _ c' obs (wi2_held i) Hl Ha) as A1.
    pose proof (apply_out_tsum (inuser i) c t th _ c' obs (wi_inuser i) Hl Ha) as A2.
    pose proof (apply_out_tsum (drain i) c t th _ c' obs (wi_drain i) Hl Ha) as A3.
    pose proof (apply_out_tsum (sentfl i) c t th _ c' obs (wi_sentfl i) Hl Ha) as A4.
    pose proof (apply_out_tsum (unsent i) c t th _ c' obs (wi_unsent i) Hl Ha) as A5.
    destruct (apply_out_fields c t _ c' obs Ha) as (_ & Fsh & Fnt & Fgh & _).
    pose proof (tall_lookup _ _ _ _ XL Hl) as Lth.
    cbn [o_th o_spawn o_sh o_gev o_wake oget wake_add apply_gevs fold_left apply_gev] in *.
    rewrite ?held_eq in A1; rewrite ?inuser_eq in A2; rewrite ?drain_eq in A3; rewrite ?sentfl_eq in A4; rewrite ?unsent_eq in A5.
    rewrite ?Epc in *. cbn in A1, A2, A3, A4, A5.
    constructor; rewrite ?Fsh, ?Fnt, ?Fgh; cbn [g_sent g_started g_done g_returned g_acc g_rej gs_done];
      rewrite ?cnt_app; cbn [cnt]; unfold idz, tid_of in *; try lia.
    eapply apply_out_tall; [apply wo_L5|exact XL|exact Ha| |].
    + cbn [o_th]. intros x E; injection E as <-. unfold L5 in *. rewrite Epc in Lth. cbn. tauto.
    + cbn [o_spawn]. intros x E; discriminate E.
Qed.

Theorem inv3_reach P i c : preach P c -> Inv3 i c.
Proof.
  revert c. apply (preach_ind P (Inv3 i)); [apply inv3_init|]. intros c0 e c1 H Hs. eapply inv3_step; eauto.
Qed.

(* ---------------------------------------------------------------- the C10 ledger theorems *)
Section Ledger.
  Variables (P : params) (evs : list pev) (c : pcfg).
  Hypothesis He : pexecs P evs = Some c.

  Let K i := inv3_reach P i c (pexecs_reach _ _ _ He).

  (* the accounting identity and the bounds it implies, for one id *)
  Lemma ledger_bounds i :
    cnt i (g_sent (c_gh c)) =
      cnt i (ids (s_q (c_sh c))) + tsum (held i) (c_thr c) + tsum (drain i) (c_thr c) +
      cnt i (g_done (c_gh c)) + cnt i (g_returned (c_gh c)) /\
    cnt i (g_sent (c_gh c)) <= 1 /\
    cnt i (g_started (c_gh c)) + cnt i (g_returned (c_gh c)) <= cnt i (g_sent (c_gh c)) /\
    cnt i (g_done (c_gh c)) <= cnt i (g_started (c_gh c)) /\
    cnt i (g_sent (c_gh c)) = tsum (sentfl i) (c_thr c) + cnt i (g_acc (c_gh c)) /\
    (1 <= cnt i (g_rej (c_gh c)) -> cnt i (g_sent (c_gh c)) = 0).
  Proof.
    destruct (K i) as [X1 X2 X3 X4 _].
    pose proof (cnt_nonneg i (ids (s_q (c_sh c)))). pose proof (cnt_nonneg i (g_done (c_gh c))).
    pose proof (cnt_nonneg i (g_returned (c_gh c))). pose proof (cnt_nonneg i (g_acc (c_gh c))).
    pose proof (cnt_nonneg i (g_rej (c_gh c))).
    pose proof (tsum_nonneg (held i) (c_thr c) (held_nonneg i)).
    pose proof (tsum_nonneg (drain i) (c_thr c) (drain_nonneg i)).
    pose proof (tsum_nonneg (inuser i) (c_thr c) (inuser_nonneg i)).
    pose proof (tsum_nonneg (sentfl i) (c_thr c) (sentfl_nonneg i)).
    pose proof (tsum_nonneg (unsent i) (c_thr c) (unsent_nonneg i)).
    pose proof (tsum_le (inuser i) (held i) (c_thr c) (inuser_le_held i)).
    destruct (Nat.ltb i (c_ntask c)); repeat split; try lia.
  Qed.

  Lemma never_twice_lemma : NoDup (g_started (c_gh c)) /\ NoDup (g_sent (c_gh c)) /\
                            NoDup (g_done (c_gh c)) /\ NoDup (g_returned (c_gh c)).
  Proof.
    repeat split; apply cnt_le1_nodup; intros i; destruct (ledger_bounds i) as (_ & H1 & H2 & H3 & _);
      pose proof (cnt_nonneg i (g_started (c_gh c))); pose proof (cnt_nonneg i (g_returned (c_gh c))); lia.
  Qed.

  Lemma never_both_lemma i : In i (g_started (c_gh c)) -> In i (g_returned (c_gh c)) -> False.
  Proof.
    intros H1 H2. apply cnt_in in H1. apply cnt_in in H2.
    destruct (ledger_bounds i) as (_ & B1 & B2 & _). lia.
  Qed.

  Lemma rejected_never_runs_lemma i :
    In i (g_rej (c_gh c)) ->
    ~ In i (g_sent (c_gh c)) /\ ~ In i (g_started (c_gh c)) /\ ~ In i (g_returned (c_gh c)) /\
    ~ In i (g_acc (c_gh c)).
  Proof.
    intros H. apply cnt_in in H. destruct (ledger_bounds i) as (_ & B1 & B2 & B3 & B4 & B5).
    specialize (B5 H).
    pose proof (cnt_nonneg i (g_started (c_gh c))). pose proof (cnt_nonneg i (g_returned (c_gh c))).
    pose proof (cnt_nonneg i (g_acc (c_gh c))).
    pose proof (tsum_nonneg (sentfl i) (c_thr c) (sentfl_nonneg i)).
    repeat split; intros X; apply cnt_in in X; lia.
  Qed.

  (* an accepted task (Submit returned nil) is in exactly one of: the queue, a worker's hands (received, not
     finished), ShutdownNow's drain loop, done, returned *)
  Lemma accepted_in_ledger_lemma i :
    In i (g_acc (c_gh c)) ->
    cnt i (ids (s_q (c_sh c))) + tsum (held i) (c_thr c) + tsum (drain i) (c_thr c) +
    cnt i (g_done (c_gh c)) + cnt i (g_returned (c_gh c)) = 1.
  Proof.
    intros H. apply cnt_in in H. destruct (ledger_bounds i) as (B0 & B1 & B2 & B3 & B4 & B5).
    pose proof (tsum_nonneg (sentfl i) (c_thr c) (sentfl_nonneg i)). lia.
  Qed.
End Ledger.

(* the history lists mean what their names say: a Submit that returns nil / an error appends its
   task id to g_acc / g_rej in that very step *)
Lemma submit_result_recorded_lemma P evs c t ch c' obs e th :
  pexecs P evs = Some c ->
  lookup t (c_thr c) = Some th -> l_nil th = false ->
  pexec1 c (PStep t ch) = Some (c', obs) -> In (t, ORet (RSubmit e)) obs ->
  if is_err e then g_rej (c_gh c') = g_rej (c_gh c) ++ [tk_id (l_task th)] /\ g_acc (c_gh c') = g_acc (c_gh c)
  else g_acc (c_gh c') = g_acc (c_gh c) ++ [tk_id (l_task th)] /\ g_rej (c_gh c') = g_rej (c_gh c).
Proof.
  intros He Hl Hn Hx Hin.
  pose proof (tall_lookup _ _ _ _ (x_loc _ _ (inv3_reach P 0%nat c (pexecs_reach _ _ _ He))) Hl) as [_ L5b].
  clear He.
  destruct (pexec1_step_inv _ _ _ _ _ Hx) as (th0 & o & Hl0 & Hp & Ha).
  rewrite Hl in Hl0. injection Hl0 as <-.
  destruct (apply_out_obs_ret _ _ _ _ _ _ _ Ha Hin) as (_ & _ & Hr).
  destruct (apply_out_fields _ _ _ _ _ Ha) as (_ & _ & _ & Fgh & _).
  remember (c_par c) as P0 eqn:EP. clear EP Ha Hx Hin Hl.
  pstep_split Hp Epc; cbn [o_ret o_gev] in *; try discriminate Hr; injection Hr as <-;
    rewrite Fgh; cbn; unfold tid_of; try (split; reflexivity).
  - cbn in L5b. congruence.
  - destruct (is_err (l_err th)); cbn; split; reflexivity.
  - destruct (is_err (l_err th)); cbn; split; reflexivity.
Qed.

(* ---------------------------------------------------------------- panic containment *)
(* the statements between the end of the user function and the bookkeeping block touch no shared
   state, are always enabled and lead to `atomic.AddInt32(&b.numGoRunningTasks, -1)`: a panicking task is
   recovered by the innermost taskWrapper and the worker goes on *)
Definition unwinding (p : ppc) : bool :=
  match p with RwRecIf | RwBuf | RwStack | RwErr => true | _ => false end.

Lemma lookup_update_eq (t : tid) (th th' : thr) l :
  lookup t l = Some th -> lookup t (update t th' l) = Some th'.
Proof. apply lookup_update_same. Qed.

Lemma step_local c t th th' :
  lookup t (c_thr c) = Some th ->
  pstep (c_par c) (parked_of (c_thr c)) (c_sh c) th C0 = Some (mkOut (c_sh c) (Some th') None None WkNone []) ->
  pstep_cfg c (PStep t C0) = Some (with_thr c (update t th' (c_thr c))).
Proof.
  intros Hl Hp. unfold pstep_cfg, pexec1. rewrite Hl, Hp. rewrite apply_out_update. reflexivity.
Qed.

Definition umeasure (th : thr) : nat :=
  (match pc th with RwRecIf => (if l_pan th then 3 else 0) | RwBuf => 2 | RwStack => 1 | RwErr => 0 | _ => 0 end)
  + 4 * (tk_depth (l_task th) - l_lvl th).

Lemma unwind_progress n : forall c t th,
  lookup t (c_thr c) = Some th -> unwinding (pc th) = true -> (umeasure th <= n)%nat ->
  exists k c2 th2, (k <= S n)%nat /\ exec pstep_cfg c (repeat (PStep t C0) k) = Some c2 /\
    lookup t (c_thr c2) = Some th2 /\ pc th2 = WRunDec /\ c_sh c2 = c_sh c /\ c_gh c2 = c_gh c /\
    l_task th2 = l_task th.
Proof.
  induction n as [n IH] using lt_wf_ind. intros c t th Hl Hu Hm.
  assert (Hstep : forall th', pstep (c_par c) (parked_of (c_thr c)) (c_sh c) th C0 =
                              Some (mkOut (c_sh c) (Some th') None None WkNone []) ->
            (pc th' = WRunDec /\ l_task th' = l_task th) \/
            (unwinding (pc th') = true /\ (umeasure th' < umeasure th)%nat /\ l_task th' = l_task th) ->
            exists k c2 th2, (k <= S n)%nat /\ exec pstep_cfg c (repeat (PStep t C0) k) = Some c2 /\
              lookup t (c_thr c2) = Some th2 /\ pc th2 = WRunDec /\ c_sh c2 = c_sh c /\ c_gh c2 = c_gh c /\
              l_task th2 = l_task th).
  { intros th' Hp [[Hd Ht]|(Hu' & Hlt & Ht)].
    - exists 1%nat, (with_thr c (update t th' (c_thr c))), th'. cbn.
      rewrite (step_local c t th th' Hl Hp). repeat split; auto; try lia.
      apply (lookup_update_eq t th th' _ Hl).
    - set (c1 := with_thr c (update t th' (c_thr c))).
      assert (Hl1 : lookup t (c_thr c1) = Some th') by (apply (lookup_update_eq t th th' _ Hl)).
      destruct n as [|m]; [lia|].
      destruct (IH m ltac:(lia) c1 t th' Hl1 Hu' ltac:(lia)) as (k & c2 & th2 & Hk & Hx & Hl2 & Hpc & Hs & Hg & Ht2).
      exists (S k), c2, th2. cbn [repeat exec]. rewrite (step_local c t th th' Hl Hp). fold c1.
      repeat split; auto; try lia. congruence. }
  unfold unwinding in Hu. unfold pstep. destruct (pc th) eqn:Epc; try discriminate Hu; clear Hu.
  - (* RwRecIf *)
    destruct (l_pan th) eqn:Epan.
    + apply (Hstep (goto RwBuf (set_pan false th))).
      * unfold pstep. rewrite Epc. unfold pstep0. rewrite Epc, Epan. reflexivity.
      * right. cbn. unfold umeasure. cbn. rewrite Epc, Epan. repeat split; lia.
    + apply (Hstep (unwind th)).
      * unfold pstep. rewrite Epc. unfold pstep0. rewrite Epc, Epan. reflexivity.
      * unfold unwind. destruct (Nat.ltb (l_lvl th) (tk_depth (l_task th))) eqn:El.
        -- right. apply Nat.ltb_lt in El. cbn. unfold umeasure. cbn. rewrite Epc, Epan. repeat split; lia.
        -- left. cbn. auto.
  - (* RwBuf *)
    apply (Hstep (goto RwStack th)).
    + unfold pstep. rewrite Epc. unfold pstep0. rewrite Epc. reflexivity.
    + right. cbn. unfold umeasure. cbn. rewrite Epc. repeat split; lia.
  - (* RwStack *)
    apply (Hstep (goto RwErr th)).
    + unfold pstep. rewrite Epc. unfold pstep0. rewrite Epc. reflexivity.
    + right. cbn. unfold umeasure. cbn. rewrite Epc. repeat split; lia.
  - (* RwErr *)
    apply (Hstep (unwind th)).
    + unfold pstep. rewrite Epc. unfold pstep0. rewrite Epc. reflexivity.
    + unfold unwind. destruct (Nat.ltb (l_lvl th) (tk_depth (l_task th))) eqn:El.
      * right. apply Nat.ltb_lt in El. cbn. unfold umeasure. cbn. rewrite Epc. repeat split; try lia.
        destruct (l_pan th); lia.
      * left. cbn. auto.
Qed.

Lemma panic_is_contained_lemma c t th :
  lookup t (c_thr c) = Some th -> pc th = WUser ->
  exists c1, pstep_cfg c (PFinish t) = Some c1 /\
    g_done (c_gh c1) = g_done (c_gh c) ++ [tk_id (l_task th)] /\
    g_started (c_gh c1) = g_started (c_gh c) /\ c_sh c1 = c_sh c /\
    exists k c2 th2, exec pstep_cfg c1 (repeat (PStep t C0) k) = Some c2 /\
      (k <= 4 * S (tk_depth (l_task th)))%nat /\
      lookup t (c_thr c2) = Some th2 /\ pc th2 = WRunDec /\
      c_sh c2 = c_sh c /\ g_done (c_gh c2) = g_done (c_gh c1).
Proof.
  intros Hl Epc.
  set (th1 := goto RwRecIf (set_lvl 1%nat (set_pan (tk_panics (l_task th)) (set_has false th)))).
  set (c1 := mkCfg (c_par c) (c_sh c) (update t th1 (c_thr c)) (c_next c) (c_ntask c)
                   (apply_gevs (c_gh c) [GDone (tid_of th)])).
  assert (Hs : pstep_cfg c (PFinish t) = Some c1).
  { unfold pstep_cfg, pexec1. rewrite Hl, Epc. reflexivity. }
  exists c1. split; [exact Hs|]. split; [reflexivity|]. split; [reflexivity|]. split; [reflexivity|].
  assert (Hl1 : lookup t (c_thr c1) = Some th1) by (apply (lookup_update_eq t th th1 _ Hl)).
  destruct (unwind_progress (3 + 4 * tk_depth (l_task th)) c1 t th1 Hl1 eq_refl) as
    (k & c2 & th2 & Hk & Hx & Hl2 & Hpc & Hsh & Hgh & _).
  { unfold umeasure, th1. cbn. destruct (tk_panics (l_task th)); lia. }
  exists k, c2, th2. repeat split; auto; try lia. rewrite Hgh. reflexivity.
Qed.
