(* C17 — the float targets.  strconv.ParseFloat / FormatFloat are opaque in ValueModel (RParseFloat w s, RFmtFloat w bits);
   what IS modelled and proved here is the dispatch: which held values reach strconv, with which bit size, and that
   nothing else yields a float.  The opaque calls are instantiated on every run by strconv itself (harness/c17:
   the accessor's value bits and error class must equal strconv.ParseFloat(s, w) / FormatFloat(x, 'f', 10, w)). *)
From Ekit Require Import Common ValueModel.

Definition float_width (t : aty) : option Z :=
  match t with AsF32 => Some 32 | AsF64 => Some 64 | _ => None end.

Lemma as_float_exact_lemma t w v :
  float_width t = Some w ->
  match as_ bits_now true t v with
  | Ok (RParseFloat w' s) => w' = w /\ v = HStr false s
  | Ok (RF32 b) => t = AsF32 /\ v = HF32 false b
  | Ok (RF64 b) => t = AsF64 /\ v = HF64 false b
  | Ok _ => False
  | Err e => e = EInvalidType /\ (forall s, v <> HStr false s) /\
             (t = AsF32 -> forall b, v <> HF32 false b) /\ (t = AsF64 -> forall b, v <> HF64 false b)
  | Panic => False
  end.
Proof.
  intros Hw. destruct t; cbn in Hw; try discriminate; inversion Hw; subst w; clear Hw;
    destruct v as [|k n z|n b|n b|n s|n b|n b| |]; cbn; try destruct n; cbn;
    repeat split; try reflexivity; try discriminate; intros; try discriminate.
Qed.

(* completeness: an unnamed string always reaches ParseFloat with the target's own bit size, a held float of the
   target type comes back as it is *)
Lemma as_float_of_string_lemma t w s :
  float_width t = Some w -> as_ bits_now true t (HStr false s) = Ok (RParseFloat w s).
Proof. destruct t; cbn; intros H; try discriminate; inversion H; reflexivity. Qed.

Lemma as_string_of_float_lemma n b :
  as_string_now (HF32 n b) = Ok (RFmtFloat 32 b) /\ as_string_now (HF64 n b) = Ok (RFmtFloat 64 b).
Proof. split; reflexivity. Qed.

(* the defect class of fix 580a9b6 transposed to floats: a variant that parses the float32 target with bit size 64
   is distinguishable from the model (so the correspondence check sees it) *)
Lemma float32_never_parsed_as_64_lemma s :
  access_now (AAs AsF32) {| val := HStr false s; has_err := false |} <> Ok (RParseFloat 64 s).
Proof. cbn. intros H. inversion H. Qed.
