(* FootprintBridge5.v — C15 bridge, part 5: the PUBLICATION clause for the lock-based queues
   (queue.ConcurrentArrayBlockingQueue, ConcurrentLinkedBlockingQueue, DelayQueue, ConcurrentPriorityQueue)
   on the traces of props/C15_bridge.v (abq_trace, lbq_trace, dq_trace, cpq_trace).

   In those traces the element storage of a queue is ONE location (data[] / linkedlist.* / q.* / pq.*, instance 0:
   all slots and all elements collapsed), every access to which the footprint table puts under the queue's
   mutex (writers exclusively).  [locked_loc_hb]: in a well-formed execution that respects the guards, ANY two
   accesses to such a location by different threads, one of them a write, are ordered by happens-before in
   trace order (Unlock of the earlier holder -sw-> Lock of the later one).  Hence
     <o>_storage_hb     every write into the storage happens-before every LATER access to it by another
                        goroutine — whichever elements are involved: no element identity is needed, the
                        statement covers every (enqueue-write, dequeue-read) pair, in particular the pair
                        (write of v, read that returned v), the read being later in the sequentially
                        consistent trace than the write it reads from;
     <o>_publication    the clq_publication pattern: every event of the writing goroutine up to that write
                        happens-before every event of the other goroutine from its access on.
   The edge used is the mutex release/acquire chain; semaphore / cond-channel edges are not emitted by these
   traces and are not needed. *)
From Coq Require Import List String Bool Arith Lia ZArith.
From Ekit Require Import Common FootprintModel FootprintProof C15Bridge Conc.
From Ekit Require Import LBQModel ABQModel DQModel LockedModel.
From Ekit Require Import C15BridgeLBQ C15BridgeABQ C15BridgeABQ2 C15BridgeDQ C15BridgeDQ2 C15BridgeLocked C15BridgeLocked2.
From Ekit Require Import HB.
Import ListNotations.
Open Scope string_scope.
Open Scope nat_scope.
Open Scope list_scope.

(* every memory row of field f is a plain access under lock l (writers exclusively) *)
Definition locked_field (tbl : table) (f l : string) : bool := forallb (row_locked l) (mem_rows tbl f).

Lemma locked_field_guarded tbl f l k (e : execution) :
  locked_field tbl f l = true -> guards_respected tbl e -> guarded e (f, k) (lname l).
Proof.
  intros Hlf [pub Hgr] i ev w a Hev Hacc. unfold locked_field in Hlf. rewrite forallb_forall in Hlf.
  destruct (Hgr i ev (f, k) w a Hev Hacc) as (r & Hin & Hloc & Hk & Hg). cbn in Hloc.
  assert (Hm : In r (mem_rows tbl f)) by (eapply row_in_mem_rows; eauto).
  exact (proj1 (row_locked_access e pub i ev (f, k) l r w a (Hlf r Hm) Hk Hg)).
Qed.

Lemma locked_loc_hb tbl f l k (e : execution) i j a b wa aa wb ab :
  locked_field tbl f l = true -> wf e -> guards_respected tbl e ->
  ev_at e i a -> access_of (act a) = Some ((f, k), wa, aa) ->
  ev_at e j b -> access_of (act b) = Some ((f, k), wb, ab) ->
  i < j -> wa = true \/ wb = true -> tid a <> tid b -> hb e i j.
Proof.
  intros Hlf Hwf Hgr Ha Hacca Hb Haccb Hij Hw Hne.
  pose proof (locked_field_guarded tbl f l k e Hlf Hgr) as Hg.
  destruct (holds_at_least_mode _ _ _ _ _ (Hg i a wa aa Ha Hacca)) as (m1 & Hh1 & Hm1).
  destruct (holds_at_least_mode _ _ _ _ _ (Hg j b wb ab Hb Haccb)) as (m2 & Hh2 & Hm2).
  eapply locked_pair_hb; eauto.
  - rewrite Hacca. discriminate.
  - destruct Hw as [Hw|Hw]; [left|right]; auto.
Qed.

(* the clq_publication pattern for a lock-guarded location *)
Lemma locked_publication tbl f l k (e : execution) i j a b aa wb ab i' j' a' b' :
  locked_field tbl f l = true -> wf e -> guards_respected tbl e ->
  ev_at e i a -> access_of (act a) = Some ((f, k), true, aa) ->
  ev_at e j b -> access_of (act b) = Some ((f, k), wb, ab) ->
  i < j -> tid a <> tid b ->
  ev_at e i' a' -> tid a' = tid a -> i' <= i ->
  ev_at e j' b' -> tid b' = tid b -> j <= j' ->
  hb e i' j'.
Proof.
  intros Hlf Hwf Hgr Ha Hacca Hb Haccb Hij Hne Ha' Hta Hi Hb' Htb Hj.
  assert (Hhb : hb e i j) by (eapply (locked_loc_hb tbl f l k e i j a b true aa wb ab); eauto).
  assert (H1 : hb e i' j).
  { destruct (Nat.eq_dec i' i) as [->|Hn]; [exact Hhb|].
    apply hb_trans with i; [|exact Hhb]. apply hb_po. eapply po_intro; eauto. lia. }
  destruct (Nat.eq_dec j j') as [<-|Hn]; [exact H1|].
  apply hb_trans with j; [exact H1|]. apply hb_po. eapply po_intro; eauto. lia.
Qed.

Definition ABQ_DATA : name := lname "ConcurrentArrayBlockingQueue.data[]".
Definition LBQ_LIST : name := lname "ConcurrentLinkedBlockingQueue.linkedlist.*".
Definition DQ_HEAP : name := lname "DelayQueue.q.*".
Definition CPQ_HEAP : name := lname "ConcurrentPriorityQueue.pq.*".

Lemma locked_field_ABQ : locked_field abq_table "ConcurrentArrayBlockingQueue.data[]" "ConcurrentArrayBlockingQueue.mutex" = true.
Proof. vm_compute. reflexivity. Qed.
Lemma locked_field_LBQ : locked_field lbq_table "ConcurrentLinkedBlockingQueue.linkedlist.*" "ConcurrentLinkedBlockingQueue.mutex" = true.
Proof. vm_compute. reflexivity. Qed.
Lemma locked_field_DQ : locked_field dq_table "DelayQueue.q.*" "DelayQueue.mutex" = true.
Proof. vm_compute. reflexivity. Qed.
Lemma locked_field_CPQ : locked_field cpq_table "ConcurrentPriorityQueue.pq.*" "ConcurrentPriorityQueue.m" = true.
Proof. vm_compute. reflexivity. Qed.

Section Pub.
  Variables (tbl : table) (f l : string) (tr : execution).
  Hypothesis Hlf : locked_field tbl f l = true.
  Hypothesis Hdrf : wf tr /\ guards_respected tbl tr /\ ~ race tr.

  Lemma pub_of_drf i j a b aa wb ab i' j' a' b' :
    ev_at tr i a -> access_of (act a) = Some (lname f, true, aa) ->
    ev_at tr j b -> access_of (act b) = Some (lname f, wb, ab) ->
    i < j -> tid a <> tid b ->
    ev_at tr i' a' -> tid a' = tid a -> i' <= i ->
    ev_at tr j' b' -> tid b' = tid b -> j <= j' ->
    hb tr i' j'.
  Proof.
    destruct Hdrf as (Hwf & Hg & _). unfold lname. intros. eapply (locked_publication tbl f l 0 tr i j); eauto.
  Qed.
End Pub.

Lemma abq_publication_lemma cap evs c :
  (1 <= cap)%Z -> Conc.exec abq_next (abq_init cap) evs = Some c ->
  forall i j a b aa wb ab i' j' a' b',
    ev_at (abq_trace cap evs) i a -> access_of (act a) = Some (ABQ_DATA, true, aa) ->
    ev_at (abq_trace cap evs) j b -> access_of (act b) = Some (ABQ_DATA, wb, ab) ->
    i < j -> tid a <> tid b ->
    ev_at (abq_trace cap evs) i' a' -> tid a' = tid a -> i' <= i ->
    ev_at (abq_trace cap evs) j' b' -> tid b' = tid b -> j <= j' ->
    hb (abq_trace cap evs) i' j'.
Proof.
  intros Hcap Hex. exact (pub_of_drf abq_table _ _ _ locked_field_ABQ (abq_trace_drf_lemma cap evs c Hcap Hex)).
Qed.

Lemma lbq_publication_lemma m evs c :
  Conc.exec lbq_step (lbq_init m) evs = Some c ->
  forall i j a b aa wb ab i' j' a' b',
    ev_at (lbq_trace m evs) i a -> access_of (act a) = Some (LBQ_LIST, true, aa) ->
    ev_at (lbq_trace m evs) j b -> access_of (act b) = Some (LBQ_LIST, wb, ab) ->
    i < j -> tid a <> tid b ->
    ev_at (lbq_trace m evs) i' a' -> tid a' = tid a -> i' <= i ->
    ev_at (lbq_trace m evs) j' b' -> tid b' = tid b -> j <= j' ->
    hb (lbq_trace m evs) i' j'.
Proof.
  intros Hex. exact (pub_of_drf lbq_table _ _ _ locked_field_LBQ (lbq_trace_drf_lemma m evs c Hex)).
Qed.

Lemma dq_publication_lemma cap old evs c :
  Conc.exec dq_step (dq_init cap old) evs = Some c ->
  forall i j a b aa wb ab i' j' a' b',
    ev_at (dq_trace cap old evs) i a -> access_of (act a) = Some (DQ_HEAP, true, aa) ->
    ev_at (dq_trace cap old evs) j b -> access_of (act b) = Some (DQ_HEAP, wb, ab) ->
    i < j -> tid a <> tid b ->
    ev_at (dq_trace cap old evs) i' a' -> tid a' = tid a -> i' <= i ->
    ev_at (dq_trace cap old evs) j' b' -> tid b' = tid b -> j <= j' ->
    hb (dq_trace cap old evs) i' j'.
Proof.
  intros Hex. exact (pub_of_drf dq_table _ _ _ locked_field_DQ (dq_trace_drf_lemma cap old evs c Hex)).
Qed.

Lemma cpq_publication_lemma capacity items evs c :
  Conc.exec cpq_step (cpq_init capacity items) evs = Some c ->
  forall i j a b aa wb ab i' j' a' b',
    ev_at (cpq_trace capacity items evs) i a -> access_of (act a) = Some (CPQ_HEAP, true, aa) ->
    ev_at (cpq_trace capacity items evs) j b -> access_of (act b) = Some (CPQ_HEAP, wb, ab) ->
    i < j -> tid a <> tid b ->
    ev_at (cpq_trace capacity items evs) i' a' -> tid a' = tid a -> i' <= i ->
    ev_at (cpq_trace capacity items evs) j' b' -> tid b' = tid b -> j <= j' ->
    hb (cpq_trace capacity items evs) i' j'.
Proof.
  intros Hex. exact (pub_of_drf cpq_table _ _ _ locked_field_CPQ (cpq_trace_drf_lemma capacity items evs c Hex)).
Qed.

(* ---------- non-vacuity: Enqueue(7) by goroutine 1, then Dequeue by goroutine 2 ---------- *)
Definition abq_pub_evs : list abq_ev :=
  [ACall 1 (OpEnq 7%Z)] ++ repeat (AStep 1) 11 ++ [ACall 2 OpDeq] ++ repeat (AStep 2) 12.
Definition lbq_pub_evs : list lbq_ev :=
  [LBQModel.QCall 1 (OEnq 7%Z)] ++ repeat (LBQModel.QStep 1) 11 ++ [LBQModel.QCall 2 ODeq] ++ repeat (LBQModel.QStep 2) 11.
Definition dq_pub_evs : list dq_ev :=
  [DCallEnq 1 (7%Z, 0%Z)] ++ repeat (DStep 1 0) 13 ++ [DCallDeq 2] ++ repeat (DStep 2 0) 18.
Definition cpq_pub_evs : list (sys_ev pq_op) :=
  [ECall 1 (PQEnqueue 7%Z)] ++ repeat (EStep 1) 4 ++ [ECall 2 PQDequeue] ++ repeat (EStep 2) 4.

Lemma abq_pub_example_lemma :
  let tr := abq_trace 2%Z abq_pub_evs in
  (exists c, Conc.exec abq_next (abq_init 2%Z) abq_pub_evs = Some c /\ ABQModel.q_thr c = []) /\
  ev_at tr 6 (mkEv 1 (Write ABQ_DATA)) /\ ev_at tr 21 (mkEv 2 (Read ABQ_DATA)) /\ hb tr 6 21 /\ hb tr 0 33.
Proof.
  cbv zeta.
  assert (Hex : exists c, Conc.exec abq_next (abq_init 2%Z) abq_pub_evs = Some c /\ ABQModel.q_thr c = []).
  { eexists. split; [vm_compute; reflexivity|reflexivity]. }
  split; [exact Hex|]. destruct Hex as (c & Hc & _).
  assert (E6 : ev_at (abq_trace 2%Z abq_pub_evs) 6 (mkEv 1 (Write ABQ_DATA))) by (vm_compute; reflexivity).
  assert (E21 : ev_at (abq_trace 2%Z abq_pub_evs) 21 (mkEv 2 (Read ABQ_DATA))) by (vm_compute; reflexivity).
  split; [exact E6|]. split; [exact E21|]. split.
  - eapply (abq_publication_lemma 2%Z _ c ltac:(lia) Hc 6 21 _ _ false false false 6 21); eauto; cbn; try lia; discriminate.
  - assert (E0 : exists a, ev_at (abq_trace 2%Z abq_pub_evs) 0 a /\ tid a = 1) by (eexists; split; vm_compute; reflexivity).
    assert (E33 : exists b, ev_at (abq_trace 2%Z abq_pub_evs) 33 b /\ tid b = 2) by (eexists; split; vm_compute; reflexivity).
    destruct E0 as (a0 & Ha0 & Ht0). destruct E33 as (b0 & Hb0 & Ht1).
    eapply (abq_publication_lemma 2%Z _ c ltac:(lia) Hc 6 21 _ _ false false false 0 33); eauto; cbn; try lia; discriminate.
Qed.

Lemma lbq_pub_example_lemma :
  let tr := lbq_trace 2%Z lbq_pub_evs in
  (exists c, Conc.exec lbq_step (lbq_init 2%Z) lbq_pub_evs = Some c /\ LBQModel.q_thr c = []) /\
  ev_at tr 6 (mkEv 1 (Write LBQ_LIST)) /\ ev_at tr 15 (mkEv 2 (Read LBQ_LIST)) /\ hb tr 6 15.
Proof.
  cbv zeta.
  assert (Hex : exists c, Conc.exec lbq_step (lbq_init 2%Z) lbq_pub_evs = Some c /\ LBQModel.q_thr c = []).
  { eexists. split; [vm_compute; reflexivity|reflexivity]. }
  split; [exact Hex|]. destruct Hex as (c & Hc & _).
  assert (E6 : ev_at (lbq_trace 2%Z lbq_pub_evs) 6 (mkEv 1 (Write LBQ_LIST))) by (vm_compute; reflexivity).
  assert (E15 : ev_at (lbq_trace 2%Z lbq_pub_evs) 15 (mkEv 2 (Read LBQ_LIST))) by (vm_compute; reflexivity).
  split; [exact E6|]. split; [exact E15|].
  eapply (lbq_publication_lemma 2%Z _ c Hc 6 15 _ _ false false false 6 15); eauto; cbn; try lia; discriminate.
Qed.

Lemma dq_pub_example_lemma :
  let tr := dq_trace 2%Z false dq_pub_evs in
  (exists c, Conc.exec dq_step (dq_init 2%Z false) dq_pub_evs = Some c /\ DQModel.q_thr c = []) /\
  ev_at tr 2 (mkEv 1 (Write DQ_HEAP)) /\ ev_at tr 10 (mkEv 2 (Read DQ_HEAP)) /\ hb tr 2 10.
Proof.
  cbv zeta.
  assert (Hex : exists c, Conc.exec dq_step (dq_init 2%Z false) dq_pub_evs = Some c /\ DQModel.q_thr c = []).
  { eexists. split; [vm_compute; reflexivity|reflexivity]. }
  split; [exact Hex|]. destruct Hex as (c & Hc & _).
  assert (E2 : ev_at (dq_trace 2%Z false dq_pub_evs) 2 (mkEv 1 (Write DQ_HEAP))) by (vm_compute; reflexivity).
  assert (E10 : ev_at (dq_trace 2%Z false dq_pub_evs) 10 (mkEv 2 (Read DQ_HEAP))) by (vm_compute; reflexivity).
  split; [exact E2|]. split; [exact E10|].
  eapply (dq_publication_lemma 2%Z false _ c Hc 2 10 _ _ false false false 2 10); eauto; cbn; try lia; discriminate.
Qed.

Lemma cpq_pub_example_lemma :
  let tr := cpq_trace 4%Z [] cpq_pub_evs in
  (exists c, Conc.exec cpq_step (cpq_init 4%Z []) cpq_pub_evs = Some c /\ s_thr c = []) /\
  ev_at tr 1 (mkEv 1 (Write CPQ_HEAP)) /\ ev_at tr 4 (mkEv 2 (Write CPQ_HEAP)) /\ hb tr 1 4.
Proof.
  cbv zeta.
  assert (Hex : exists c, Conc.exec cpq_step (cpq_init 4%Z []) cpq_pub_evs = Some c /\ s_thr c = []).
  { eexists. split; [vm_compute; reflexivity|reflexivity]. }
  split; [exact Hex|]. destruct Hex as (c & Hc & _).
  assert (E1 : ev_at (cpq_trace 4%Z [] cpq_pub_evs) 1 (mkEv 1 (Write CPQ_HEAP))) by (vm_compute; reflexivity).
  assert (E4 : ev_at (cpq_trace 4%Z [] cpq_pub_evs) 4 (mkEv 2 (Write CPQ_HEAP))) by (vm_compute; reflexivity).
  split; [exact E1|]. split; [exact E4|].
  eapply (cpq_publication_lemma 4%Z [] _ c Hc 1 4 _ _ false true false 1 4); eauto; cbn; try lia; discriminate.
Qed.
