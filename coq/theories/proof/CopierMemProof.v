(* Proofs about CopierMemModel (C20, memory level). *)
From Ekit Require Import Common CopierModel CopierProof CopierProof2 CopierMemModel.
From Coq Require Import ZifyBool.

(* ------------------------------------------------------------ the restated specification *)
Lemma copy_post_eq : forall o st sv dt dv dv', copy_post o st sv dt dv dv' = post o st sv dt dv dv'.
Proof. reflexivity. Qed.

(* ------------------------------------------------------------ induction on nodes *)
Section NodeInd.
  Variable P : node -> Prop.
  Hypothesis H : forall name si di leaf kids, Forall P kids -> P (Node name si di leaf kids).
  Fixpoint node_ind' (n : node) : P n :=
    match n with
    | Node name si di leaf kids =>
        H name si di leaf kids
          ((fix go (l : list node) : Forall P l :=
              match l with [] => Forall_nil _ | k :: r => Forall_cons k (node_ind' k) (go r) end) kids)
    end.
End NodeInd.

(* ------------------------------------------------------------ erasure of the pieces *)
Definition erv (ar : list (list mvalue)) (mp : list (list (mvalue * mvalue))) (s : arv) : rv :=
  {| rty := aty s; rval := erase_a ar mp (aty s) (aval_ s); raddr := aaddr s; rro := aro s |}.

Definition erase_fields (ar : list (list mvalue)) (mp : list (list (mvalue * mvalue)))
  : list (Z * bool * ty) -> list aval -> list value :=
  fix go (l : list (Z * bool * ty)) (xs : list aval) {struct l} : list value :=
    match l, xs with
    | (_, _, ft) :: r, x :: xr => erase_a ar mp ft x :: go r xr
    | _, _ => []
    end.

Lemma erase_a_struct : forall ar mp n fs xs,
  erase_a ar mp (Struct n fs) (AStruct xs) = VStruct (erase_fields ar mp fs xs).
Proof. reflexivity. Qed.

Lemma erase_fields_nth : forall ar mp fs xs i n e t,
  nth_opt fs i = Some (n, e, t) ->
  nth_opt (erase_fields ar mp fs xs) i =
    match nth_opt xs i with Some x => Some (erase_a ar mp t x) | None => None end.
Proof.
  intros ar mp fs; induction fs as [|[[fn fe] ft] r IH]; intros xs i n e t Hn.
  - destruct i; discriminate Hn.
  - destruct xs as [|x xr]; [destruct i; reflexivity|].
    destruct i; cbn in Hn |- *.
    + inversion Hn; subst. reflexivity.
    + eapply IH. exact Hn.
Qed.

Lemma erase_fields_set : forall ar mp fs xs i n e t x,
  nth_opt fs i = Some (n, e, t) ->
  erase_fields ar mp fs (set_nth xs i x) = set_nth (erase_fields ar mp fs xs) i (erase_a ar mp t x).
Proof.
  intros ar mp fs; induction fs as [|[[fn fe] ft] r IH]; intros xs i n e t x Hn.
  - destruct i; discriminate Hn.
  - destruct xs as [|y yr]; [destruct i; reflexivity|].
    destruct i; cbn in Hn |- *.
    + inversion Hn; subst. reflexivity.
    + f_equal. eapply IH. exact Hn.
Qed.

Definition azeros : list (Z * bool * ty) -> list aval :=
  fix go (l : list (Z * bool * ty)) : list aval :=
    match l with [] => [] | (_, _, ft) :: r => azero ft :: go r end.

Lemma erase_azero : forall ar mp t, erase_a ar mp t (azero t) = zero_value t.
Proof.
  intros ar mp. induction t as [k|n k|n fs IH|t IH|t IH|k v IHk IHv| |k i] using ty_ind'; try reflexivity.
  - cbn. destruct (is_string_kind k); reflexivity.
  - cbn. destruct (is_string_kind k); reflexivity.
  - change (azero (Struct n fs)) with (AStruct (azeros fs)).
    rewrite erase_a_struct, zero_value_struct. f_equal.
    induction IH as [|[[fn fe] ft] r Hf Hr IHr]; [reflexivity|].
    cbn [azeros erase_fields CopierProof2.zero_values]. cbn [ftyp snd] in Hf. rewrite Hf, IHr. reflexivity.
Qed.

Definition embeds : list (Z * bool * ty) -> list value -> list aval :=
  fix go (l : list (Z * bool * ty)) (xs : list value) {struct l} : list aval :=
    match l, xs with
    | (_, _, ft) :: r, x :: xr => embed ft x :: go r xr
    | _, _ => []
    end.

Definition flats : list (Z * bool * ty) -> list value -> bool :=
  fix go (l : list (Z * bool * ty)) (xs : list value) {struct l} : bool :=
    match l, xs with
    | [], [] => true
    | (_, _, ft) :: r, x :: xr => flat ft x && go r xr
    | _, _ => false
    end.

Lemma erase_embed : forall ar mp t v, flat t v = true -> erase_a ar mp t (embed t v) = v.
Proof.
  intros ar mp. induction t as [k|n k|n fs IH|t IH|t IH|k v IHk IHv| |k i] using ty_ind';
    intros v0 Hf; destruct v0 as [z|s|vs|[p|]|[s|]|[m|]|z]; cbn in Hf; try discriminate Hf; try reflexivity.
  change (embed (Struct n fs) (VStruct vs)) with (AStruct (embeds fs vs)).
  change (flats fs vs = true) in Hf.
  rewrite erase_a_struct. f_equal. revert vs Hf.
  induction IH as [|[[fn fe] ft] r Hft Hr IHr]; intros vs Hf.
  - destruct vs; [reflexivity|discriminate Hf].
  - destruct vs as [|x xr]; [discriminate Hf|]. cbn [flats] in Hf. apply andb_prop in Hf as [H1 H2].
    cbn [embeds erase_fields]. cbn [ftyp snd] in Hft. rewrite (Hft _ H1), (IHr _ H2). reflexivity.
Qed.

Lemma embed_addrs : forall t v, addrs (embed t v) = [].
Proof.
  induction t as [k|n k|n fs IH|t IH|t IH|k v IHk IHv| |k i] using ty_ind'; intros v0;
    try (destruct v0; reflexivity).
  destruct v0 as [z|s|vs|p|s|m|z]; try reflexivity.
  change (embed (Struct n fs) (VStruct vs)) with (AStruct (embeds fs vs)). cbn [addrs].
  revert vs. induction IH as [|[[fn fe] ft] r Hft Hr IHr]; intros vs; [reflexivity|].
  destruct vs as [|x xr]; [reflexivity|]. cbn [embeds flat_map]. cbn [ftyp snd] in Hft.
  rewrite Hft, IHr. reflexivity.
Qed.

(* ------------------------------------------------------------ unfolding actn *)
Definition a_copy_kids (ar : list (list mvalue)) (mp : list (list (mvalue * mvalue)))
  (o : options) (s1 d1 : arv) : list node -> aval -> nat -> aval * nat * status :=
  fix loop (ks : list node) (cur : aval) (nx : nat) {struct ks} : aval * nat * status :=
    match ks with
    | [] => (cur, nx, SOk)
    | k :: rest =>
      match k with
      | Node cname si di _ _ =>
        if in_ignore o cname then loop rest cur nx else
        match a_field s1 si, a_field (a_with_val d1 cur) di with
        | COk cs, COk cd =>
            let '(x, nx', stt) := actn ar mp o k cs cd nx in
            let cur' := a_set_field cur di x in
            match stt with
            | SOk => loop rest cur' nx'
            | _ => (cur', nx', stt)
            end
        | _, _ => (cur, nx, SPanic)
        end
      end
    end.

Lemma actn_unfold : forall ar mp o name si di leaf kids s d next,
  actn ar mp o (Node name si di leaf kids) s d next =
  match a_src_unwrap s with
  | CPanic => (aval_ d, next, SPanic)
  | CErr e => (aval_ d, next, SErr e)
  | COk None => (aval_ d, next, SOk)
  | COk (Some s1) =>
    match a_dst_unwrap d next with
    | CPanic => (aval_ d, next, SPanic)
    | CErr e => (aval_ d, next, SErr e)
    | COk (d1, p, next1) =>
      if leaf then let '(x, stt) := a_copy_leaf ar mp o name s s1 d d1 p in (x, next1, stt)
      else let '(v', next2, stt) := a_copy_kids ar mp o s1 d1 kids (aval_ d1) next1 in
           (arewrap p v', next2, stt)
    end
  end.
Proof. intros; reflexivity. Qed.

Lemma a_copy_kids_cons : forall ar mp o s1 d1 cname si di leaf kk rest cur nx,
  a_copy_kids ar mp o s1 d1 (Node cname si di leaf kk :: rest) cur nx =
  if in_ignore o cname then a_copy_kids ar mp o s1 d1 rest cur nx else
  match a_field s1 si, a_field (a_with_val d1 cur) di with
  | COk cs, COk cd =>
      let '(x, nx', stt) := actn ar mp o (Node cname si di leaf kk) cs cd nx in
      let cur' := a_set_field cur di x in
      match stt with
      | SOk => a_copy_kids ar mp o s1 d1 rest cur' nx'
      | _ => (cur', nx', stt)
      end
  | _, _ => (cur, nx, SPanic)
  end.
Proof. intros; reflexivity. Qed.

(* ------------------------------------------------------------ the primitives commute with erasure *)
Section Erase.
  Variable ar : list (list mvalue).
  Variable mp : list (list (mvalue * mvalue)).
  Notation E := (erv ar mp).

  Lemma src_unwrap_erase : forall s,
    src_unwrap (E s) =
    match a_src_unwrap s with
    | COk (Some s1) => COk (Some (E s1))
    | COk None => COk None
    | CErr e => CErr e
    | CPanic => CPanic
    end.
  Proof.
    intros [t a ad ro]. unfold src_unwrap, a_src_unwrap, erv. cbn [rty rval aty aval_ aro rro].
    destruct t; try reflexivity.
    destruct a as [m|xs|[[adr x]|]]; reflexivity.
  Qed.

  (* d1 is the destination behind the optional pointer cell p of slot d *)
  Definition unwrapped (d d1 : arv) (p : option nat) : Prop :=
    match p with
    | Some _ => aty d = Ptr (aty d1)
    | None => d1 = d /\ is_ptr_kind (aty d) = false
    end.

  Lemma dst_unwrap_erase : forall d next,
    match a_dst_unwrap d next with
    | COk (d1, p, next1) =>
        dst_unwrap (E d) = COk (E d1, match p with Some _ => true | None => false end) /\
        unwrapped d d1 p /\ (next <= next1)%nat
    | CErr e => dst_unwrap (E d) = CErr e
    | CPanic => dst_unwrap (E d) = CPanic
    end.
  Proof.
    intros [t a ad ro] next. unfold dst_unwrap, a_dst_unwrap, erv, unwrapped.
    cbn [rty rval aty aval_ aro rro raddr aaddr].
    destruct t; try (split; [reflexivity|split; [split; reflexivity|lia]]).
    destruct a as [m|xs|[[adr x]|]]; try reflexivity.
    - split; [reflexivity|]. split; [reflexivity|lia].
    - unfold a_can_set, can_set. cbn [rty rval aty aval_ aro rro raddr aaddr].
      destruct (ad && negb ro); [|reflexivity].
      split; [cbn [erase_a]; rewrite erase_azero; reflexivity|]. split; [reflexivity|lia].
  Qed.

  Lemma erase_arewrap : forall d d1 p x,
    unwrapped d d1 p ->
    erase_a ar mp (aty d) (arewrap p x) =
    rewrap (match p with Some _ => true | None => false end) (erase_a ar mp (aty d1) x).
  Proof.
    intros d d1 p x Hu. destruct p as [adr|]; cbn in Hu |- *.
    - rewrite Hu. reflexivity.
    - destruct Hu as [Hu _]. subst. reflexivity.
  Qed.

  Lemma a_field_erase : forall v i,
    r_field (E v) i =
    match a_field v i with COk x => COk (E x) | CErr e => CErr e | CPanic => CPanic end.
  Proof.
    intros [t a ad ro] i. unfold r_field, a_field, erv. cbn [rty rval aty aval_ aro rro raddr aaddr].
    destruct t as [k|n k|n fs|e|e|k e| |k j];
      try (destruct a; cbn [erase_a]; try reflexivity;
           match goal with |- context [erase_m ?a ?b ?t ?m] => destruct (erase_m a b t m); reflexivity end).
    destruct a as [m|xs|pp]; [reflexivity| |reflexivity].
    rewrite erase_a_struct.
    destruct (nth_opt fs i) as [[[fn fe] ft]|] eqn:En; [|reflexivity].
    rewrite (erase_fields_nth _ _ _ _ _ _ _ _ En).
    destruct (nth_opt xs i); reflexivity.
  Qed.

  Lemma a_field_inv : forall v i x,
    a_field v i = COk x ->
    exists n fs xs fn fe, aty v = Struct n fs /\ aval_ v = AStruct xs /\
      nth_opt fs i = Some (fn, fe, aty x) /\ nth_opt xs i = Some (aval_ x).
  Proof.
    intros [t a ad ro] i x H. unfold a_field in H. cbn [aty aval_ aaddr aro] in H.
    destruct t as [k|n k|n fs|e|e|k e| |k j]; try discriminate H.
    destruct a as [m|xs|pp]; try discriminate H.
    destruct (nth_opt fs i) as [[[fn fe] ft]|] eqn:En; [|discriminate H].
    destruct (nth_opt xs i) as [y|] eqn:Ex; [|discriminate H].
    inversion H; subst. cbn. exists n, fs, xs, fn, fe. repeat split; assumption.
  Qed.

  Lemma erase_leaf_strip : forall t a,
    is_leaf_ty t = true -> erase_a ar mp t (ALeaf (strip a)) = erase_a ar mp t a.
  Proof.
    intros t a Hl. destruct t; try discriminate Hl; destruct a as [m|xs|[[adr x]|]]; reflexivity.
  Qed.

  Lemma copy_leaf_erase : forall o name s s1 d d1 p x stt,
    convs_flat o -> unwrapped d d1 p ->
    is_leaf_ty (aty s1) = true ->
    a_copy_leaf ar mp o name s s1 d d1 p = (x, stt) ->
    copy_leaf o name (E s) (E s1) (E d) (E d1) (match p with Some _ => true | None => false end)
      = (erase_a ar mp (aty d) x, stt).
  Proof.
    intros o name s s1 d d1 p x stt Hfl Hu Hleaf Hrun.
    unfold a_copy_leaf in Hrun. unfold copy_leaf.
    change (can_set (E d1)) with (a_can_set d1). change (can_set (E d)) with (a_can_set d).
    cbn [erv rty rval rro].
    destruct (a_can_set d1); cbn [negb] in *.
    2:{ inversion Hrun; subst. rewrite (erase_arewrap _ _ _ _ Hu). reflexivity. }
    destruct (find_conv o name) as [c|] eqn:Ec.
    - destruct (a_can_set d); cbn [negb] in *.
      2:{ inversion Hrun; subst. rewrite (erase_arewrap _ _ _ _ Hu). reflexivity. }
      destruct (aro s).
      { inversion Hrun; subst. rewrite (erase_arewrap _ _ _ _ Hu). reflexivity. }
      destruct (apply_conv c (aty s) (erase_a ar mp (aty s) (aval_ s))) as [[|t r]|e|] eqn:Ea.
      + inversion Hrun; subst. rewrite (erase_arewrap _ _ _ _ Hu). reflexivity.
      + destruct (ty_eqb t (aty d)) eqn:Et; cbn [negb] in *.
        * inversion Hrun; subst. apply ty_eqb_eq in Et. subst t.
          rewrite erase_embed; [reflexivity|].
          unfold apply_conv in Ea. destruct (negb (ty_eqb (aty s) (cv_src c))); [discriminate Ea|].
          destruct (cv_fun c (erase_a ar mp (aty s) (aval_ s))) as [rr|] eqn:Ef; [|discriminate Ea].
          inversion Ea; subst rr. exact (Hfl _ _ _ _ _ Ec Ef).
        * inversion Hrun; subst. rewrite (erase_arewrap _ _ _ _ Hu). reflexivity.
      + inversion Hrun; subst. rewrite (erase_arewrap _ _ _ _ Hu). reflexivity.
      + inversion Hrun; subst. rewrite (erase_arewrap _ _ _ _ Hu). reflexivity.
    - destruct (ty_eqb (aty s1) (aty d1)) eqn:Et; cbn [negb] in *.
      2:{ inversion Hrun; subst. rewrite (erase_arewrap _ _ _ _ Hu). reflexivity. }
      destruct (is_zero (erase_a ar mp (aty s1) (aval_ s1))).
      { inversion Hrun; subst. rewrite (erase_arewrap _ _ _ _ Hu). reflexivity. }
      destruct (aro s1).
      { inversion Hrun; subst. rewrite (erase_arewrap _ _ _ _ Hu). reflexivity. }
      inversion Hrun; subst. rewrite (erase_arewrap _ _ _ _ Hu).
      apply ty_eqb_eq in Et. rewrite <- Et. rewrite erase_leaf_strip by exact Hleaf. reflexivity.
  Qed.
End Erase.

(* ------------------------------------------------------------ actn erases to copy_tree_node *)
Definition kids_ok (t : ty) : list node -> Prop :=
  fix all (ks : list node) {struct ks} : Prop :=
    match ks with
    | [] => True
    | k :: r =>
      match k with
      | Node _ si _ _ _ =>
        match fields_of (unptr t) with
        | COk fs =>
            match nth_opt fs si with
            | Some (_, _, ft) => node_ok k ft
            | None => False
            end
        | _ => False
        end
      end /\ all r
    end.

Lemma node_ok_unfold : forall a b c leaf kids t,
  node_ok (Node a b c leaf kids) t =
  if leaf then is_leaf_ty (unptr t) = true else kids_ok t kids.
Proof. intros; destruct leaf; reflexivity. Qed.

Lemma a_src_unwrap_ty : forall s s1, a_src_unwrap s = COk (Some s1) -> aty s1 = unptr (aty s).
Proof.
  intros [t a ad ro] s1 H. unfold a_src_unwrap in H. cbn [aty aval_ aro] in H.
  destruct t; try (inversion H; subst; reflexivity).
  destruct a as [m|xs|[[adr x]|]]; try discriminate H. inversion H; subst. reflexivity.
Qed.

Definition sim_node (ar : list (list mvalue)) (mp : list (list (mvalue * mvalue))) (o : options)
  (n : node) : Prop :=
  forall s d next x nx stt,
    node_ok n (aty s) ->
    actn ar mp o n s d next = (x, nx, stt) ->
    copy_tree_node o n (erv ar mp s) (erv ar mp d) = (erase_a ar mp (aty d) x, stt).

Lemma sim_kids : forall ar mp o s1 d1 kids,
  Forall (sim_node ar mp o) kids ->
  forall cur nx v' nx' stt,
    kids_ok (aty s1) kids ->
    a_copy_kids ar mp o s1 d1 kids cur nx = (v', nx', stt) ->
    copy_kids o (erv ar mp s1) (erv ar mp d1) kids (erase_a ar mp (aty d1) cur)
      = (erase_a ar mp (aty d1) v', stt).
Proof.
  intros ar mp o s1 d1 kids HF. induction HF as [|k rest Hk Hrest IH];
    intros cur nx v' nx' stt Hok Hrun.
  - cbn in Hrun. inversion Hrun; subst. reflexivity.
  - destruct k as [cname si di leaf kk].
    rewrite a_copy_kids_cons in Hrun. rewrite copy_kids_cons.
    cbn [kids_ok] in Hok. fold (kids_ok (aty s1)) in Hok. destruct Hok as [Hk1 Hok].
    destruct (in_ignore o cname); [eapply IH; eassumption|].
    change (with_val (erv ar mp d1) (erase_a ar mp (aty d1) cur)) with (erv ar mp (a_with_val d1 cur)).
    rewrite !a_field_erase.
    destruct (a_field s1 si) as [cs| |] eqn:Es; try (inversion Hrun; subst; reflexivity).
    destruct (a_field (a_with_val d1 cur) di) as [cd| |] eqn:Ed; try (inversion Hrun; subst; reflexivity).
    destruct (actn ar mp o (Node cname si di leaf kk) cs cd nx) as [[x nx1] st1] eqn:Ea.
    destruct (a_field_inv _ _ _ Es) as [sn [sfs [sxs [fn [fe [Hst [_ [Hsn _]]]]]]]].
    assert (Hnode : node_ok (Node cname si di leaf kk) (aty cs)).
    { rewrite Hst in Hk1. cbn [unptr fields_of] in Hk1. rewrite Hsn in Hk1. exact Hk1. }
    rewrite (Hk _ _ _ _ _ _ Hnode Ea).
    destruct (a_field_inv _ _ _ Ed) as [dn [dfs [dxs [gn [ge [Hdt [Hdv [Hdn _]]]]]]]].
    cbn [a_with_val aty aval_] in Hdt, Hdv. subst cur.
    assert (Hset : set_field (erase_a ar mp (aty d1) (AStruct dxs)) di (erase_a ar mp (aty cd) x)
                   = erase_a ar mp (aty d1) (a_set_field (AStruct dxs) di x)).
    { rewrite Hdt. cbn [a_set_field]. rewrite !erase_a_struct. cbn [set_field]. f_equal.
      symmetry. eapply erase_fields_set. exact Hdn. }
    cbv zeta. rewrite Hset.
    destruct st1; [eapply IH; eassumption| |]; inversion Hrun; subst; reflexivity.
Qed.

Lemma sim_all : forall ar mp o, convs_flat o -> forall n, sim_node ar mp o n.
Proof.
  intros ar mp o Hfl. induction n as [name si di leaf kids IH] using node_ind'.
  intros s d next x nx stt Hok Hrun.
  rewrite actn_unfold in Hrun. rewrite ctn_unfold. rewrite src_unwrap_erase.
  destruct (a_src_unwrap s) as [[s1|]|e|] eqn:Es; try (inversion Hrun; subst; reflexivity).
  pose proof (dst_unwrap_erase ar mp d next) as Hd.
  destruct (a_dst_unwrap d next) as [[[d1 p] next1]|e|] eqn:Ed;
    try (rewrite Hd; inversion Hrun; subst; reflexivity).
  destruct Hd as [Hd [Hu _]]. rewrite Hd.
  rewrite node_ok_unfold in Hok. pose proof (a_src_unwrap_ty _ _ Es) as Hty.
  destruct leaf.
  - destruct (a_copy_leaf ar mp o name s s1 d d1 p) as [x0 st0] eqn:El.
    inversion Hrun; subst x nx stt.
    apply (copy_leaf_erase ar mp o name s s1 d d1 p x0 st0 Hfl Hu); [rewrite Hty; exact Hok|exact El].
  - destruct (a_copy_kids ar mp o s1 d1 kids (aval_ d1) next1) as [[v' nx2] st2] eqn:Ek.
    inversion Hrun; subst x nx stt.
    assert (Hok' : kids_ok (aty s1) kids).
    { rewrite Hty. clear -Hok. induction kids as [|[cn csi cdi cl ck] r IHr]; [exact I|].
      cbn [kids_ok] in Hok |- *. destruct Hok as [H1 H2]. split; [|apply IHr; exact H2].
      assert (Hu : unptr (unptr (aty s)) = unptr (aty s)).
      { destruct (unptr (aty s)); cbn in H1; try contradiction; reflexivity. }
      rewrite Hu. exact H1. }
    change (rval (erv ar mp d1)) with (erase_a ar mp (aty d1) (aval_ d1)).
    rewrite (sim_kids ar mp o s1 d1 kids IH _ _ _ _ _ Hok' Ek).
    rewrite (erase_arewrap ar mp _ _ _ _ Hu). reflexivity.
Qed.

(* ------------------------------------------------------------ induction on annotated values *)
Section AvalInd.
  Variable P : aval -> Prop.
  Hypothesis HL : forall m, P (ALeaf m).
  Hypothesis HS : forall xs, Forall P xs -> P (AStruct xs).
  Hypothesis HN : P (APtr None).
  Hypothesis HP : forall ad x, P x -> P (APtr (Some (ad, x))).
  Fixpoint aval_ind' (a : aval) : P a :=
    match a with
    | ALeaf m => HL m
    | AStruct xs =>
        HS xs ((fix go (l : list aval) : Forall P l :=
                  match l with [] => Forall_nil _ | x :: r => Forall_cons x (aval_ind' x) (go r) end) xs)
    | APtr None => HN
    | APtr (Some (ad, x)) => HP ad x (aval_ind' x)
    end.
End AvalInd.

(* ------------------------------------------------------------ which cells the result owns *)
Lemma azero_addrs : forall t, addrs (azero t) = [].
Proof.
  induction t as [k|n k|n fs IH|t IH|t IH|k v IHk IHv| |k i] using ty_ind'; try reflexivity.
  change (azero (Struct n fs)) with (AStruct (azeros fs)). cbn [addrs].
  induction IH as [|[[fn fe] ft] r Hf Hr IHr]; [reflexivity|].
  cbn [azeros flat_map]. cbn [ftyp snd] in Hf. rewrite Hf, IHr. reflexivity.
Qed.

Lemma addrs_nth : forall xs i x a, nth_opt xs i = Some x -> In a (addrs x) -> In a (flat_map addrs xs).
Proof.
  induction xs as [|y r IH]; intros i x a Hn Ha; destruct i; cbn in Hn; try discriminate Hn;
    cbn [flat_map]; apply in_or_app.
  - inversion Hn; subst. left; exact Ha.
  - right. eapply IH; eassumption.
Qed.

Lemma addrs_set_nth : forall xs i x a,
  In a (flat_map addrs (set_nth xs i x)) -> In a (flat_map addrs xs) \/ In a (addrs x).
Proof.
  induction xs as [|y r IH]; intros i x a H; destruct i; cbn [set_nth flat_map] in H |- *;
    try (left; exact H); apply in_app_or in H as [H|H].
  - right; exact H.
  - left. apply in_or_app. right; exact H.
  - left. apply in_or_app. left; exact H.
  - destruct (IH _ _ _ H) as [H1|H1]; [left; apply in_or_app; right; exact H1|right; exact H1].
Qed.

Definition owns (old : list nat) (lo hi : nat) (x : aval) : Prop :=
  forall a, In a (addrs x) -> In a old \/ (lo <= a < hi)%nat.

Lemma dst_unwrap_addrs : forall d next d1 p next1,
  a_dst_unwrap d next = COk (d1, p, next1) ->
  (next <= next1)%nat /\
  (forall a, In a (addrs (aval_ d1)) -> In a (addrs (aval_ d))) /\
  (forall y, owns (addrs (aval_ d)) next1 next1 y \/ True ->
     forall a, In a (addrs (arewrap p y)) ->
       In a (addrs y) \/ In a (addrs (aval_ d)) \/ (next <= a < next1)%nat).
Proof.
  intros [t a ad ro] next d1 p next1 H. unfold a_dst_unwrap in H. cbn [aty aval_ aro aaddr] in H.
  destruct t; try (inversion H; subst; split; [lia|split; [intros; assumption|intros y _ b Hb; left; exact Hb]]).
  destruct a as [m|xs|[[adr x]|]]; try discriminate H.
  - inversion H; subst. cbn [aval_ addrs]. split; [lia|]. split; [intros b Hb; right; exact Hb|].
    intros y _ b Hb. cbn [arewrap addrs] in Hb. destruct Hb as [Hb|Hb]; [right; left; left; exact Hb|left; exact Hb].
  - destruct (a_can_set _); [|discriminate H]. inversion H; subst. cbn [aval_].
    split; [lia|]. split; [intros b Hb; rewrite azero_addrs in Hb; contradiction|].
    intros y _ b Hb. cbn [arewrap addrs] in Hb. destruct Hb as [Hb|Hb]; [right; right; lia|left; exact Hb].
Qed.

Definition addrs_node (ar : list (list mvalue)) (mp : list (list (mvalue * mvalue))) (o : options)
  (n : node) : Prop :=
  forall s d next x nx stt,
    actn ar mp o n s d next = (x, nx, stt) ->
    (next <= nx)%nat /\ owns (addrs (aval_ d)) next nx x.

Lemma addrs_kids : forall ar mp o s1 d1 kids,
  Forall (addrs_node ar mp o) kids ->
  forall cur nx v' nx' stt,
    a_copy_kids ar mp o s1 d1 kids cur nx = (v', nx', stt) ->
    (nx <= nx')%nat /\ owns (addrs cur) nx nx' v'.
Proof.
  intros ar mp o s1 d1 kids HF. induction HF as [|k rest Hk Hrest IH]; intros cur nx v' nx' stt Hrun.
  - cbn in Hrun. inversion Hrun; subst. split; [lia|]. intros a Ha; left; exact Ha.
  - destruct k as [cname si di leaf kk]. rewrite a_copy_kids_cons in Hrun.
    destruct (in_ignore o cname); [eapply IH; eassumption|].
    destruct (a_field s1 si) as [cs| |] eqn:Es;
      try (inversion Hrun; subst; split; [lia|intros a Ha; left; exact Ha]).
    destruct (a_field (a_with_val d1 cur) di) as [cd| |] eqn:Ed;
      try (inversion Hrun; subst; split; [lia|intros a Ha; left; exact Ha]).
    destruct (actn ar mp o (Node cname si di leaf kk) cs cd nx) as [[x nx1] st1] eqn:Ea.
    destruct (Hk _ _ _ _ _ _ Ea) as [Hle Hown].
    destruct (a_field_inv _ _ _ Ed) as [dn [dfs [dxs [gn [ge [Hdt [Hdv [Hdn Hdx]]]]]]]].
    cbn [a_with_val aty aval_] in Hdt, Hdv. subst cur.
    assert (Hcur' : owns (addrs (AStruct dxs)) nx nx1 (a_set_field (AStruct dxs) di x)).
    { intros a Ha. cbn [a_set_field addrs] in Ha. apply addrs_set_nth in Ha as [Ha|Ha].
      - left. exact Ha.
      - destruct (Hown _ Ha) as [H1|H1]; [left|right; exact H1].
        cbn [addrs]. eapply addrs_nth; eassumption. }
    cbv zeta in Hrun.
    destruct st1.
    + destruct (IH _ _ _ _ _ Hrun) as [Hle2 Hown2]. split; [lia|].
      intros a Ha. destruct (Hown2 _ Ha) as [H1|H1]; [|right; lia].
      destruct (Hcur' _ H1) as [H2|H2]; [left; exact H2|right; lia].
    + inversion Hrun; subst. split; [exact Hle|exact Hcur'].
    + inversion Hrun; subst. split; [exact Hle|exact Hcur'].
Qed.

Lemma addrs_all : forall ar mp o n, addrs_node ar mp o n.
Proof.
  intros ar mp o. induction n as [name si di leaf kids IH] using node_ind'.
  intros s d next x nx stt Hrun. rewrite actn_unfold in Hrun.
  assert (Hid : (next <= next)%nat /\ owns (addrs (aval_ d)) next next (aval_ d))
    by (split; [lia|intros a Ha; left; exact Ha]).
  destruct (a_src_unwrap s) as [[s1|]|e|]; try (inversion Hrun; subst; exact Hid).
  destruct (a_dst_unwrap d next) as [[[d1 p] next1]|e|] eqn:Ed; try (inversion Hrun; subst; exact Hid).
  destruct (dst_unwrap_addrs _ _ _ _ _ Ed) as [Hle [Hd1 Hrw]].
  assert (Hkeep : owns (addrs (aval_ d)) next next1 (arewrap p (aval_ d1))).
  { intros a Ha. destruct (Hrw _ (or_intror I) _ Ha) as [H|[H|H]]; [left; apply Hd1; exact H|left; exact H|right; exact H]. }
  destruct leaf.
  - destruct (a_copy_leaf ar mp o name s s1 d d1 p) as [x0 st0] eqn:El.
    inversion Hrun; subst x nx stt. split; [exact Hle|].
    unfold a_copy_leaf in El.
    destruct (negb (a_can_set d1)); [inversion El; subst; exact Hkeep|].
    destruct (find_conv o name) as [c|].
    + destruct (negb (a_can_set d)); [inversion El; subst; exact Hkeep|].
      destruct (aro s); [inversion El; subst; exact Hkeep|].
      destruct (apply_conv c (aty s) (erase_a ar mp (aty s) (aval_ s))) as [[|t r]|e|];
        try (inversion El; subst; exact Hkeep).
      destruct (negb (ty_eqb t (aty d))); [inversion El; subst; exact Hkeep|].
      inversion El; subst. intros a Ha. rewrite embed_addrs in Ha. contradiction.
    + destruct (negb (ty_eqb (aty s1) (aty d1))); [inversion El; subst; exact Hkeep|].
      destruct (is_zero _); [inversion El; subst; exact Hkeep|].
      destruct (aro s1); [inversion El; subst; exact Hkeep|].
      inversion El; subst. intros a Ha.
      destruct (Hrw (ALeaf (strip (aval_ s1))) (or_intror I) _ Ha) as [H|[H|H]];
        [cbn in H; contradiction|left; exact H|right; exact H].
  - destruct (a_copy_kids ar mp o s1 d1 kids (aval_ d1) next1) as [[v' nx2] st2] eqn:Ek.
    inversion Hrun; subst x nx stt.
    destruct (addrs_kids ar mp o s1 d1 kids IH _ _ _ _ _ Ek) as [Hle2 Hown2].
    split; [lia|]. intros a Ha.
    destruct (Hrw v' (or_intror I) _ Ha) as [H|[H|H]]; [|left; exact H|right; lia].
    destruct (Hown2 _ H) as [H1|H1]; [left; apply Hd1; exact H1|right; lia].
Qed.

(* ------------------------------------------------------------ flush and load: frame lemmas *)
Lemma nth_opt_set_nth_other : forall {A} (l : list A) i j x, i <> j -> nth_opt (set_nth l i x) j = nth_opt l j.
Proof.
  intros A l; induction l as [|a l IH]; intros i j x H; destruct i, j; cbn; try reflexivity;
    try (exfalso; apply H; reflexivity). apply IH. intros E; apply H; f_equal; exact E.
Qed.

Lemma nth_opt_set_nth_same : forall {A} (l : list A) i x, (i < length l)%nat -> nth_opt (set_nth l i x) i = Some x.
Proof.
  intros A l; induction l as [|a l IH]; intros i x H; destruct i; cbn in *; try lia; [reflexivity|].
  apply IH. lia.
Qed.

Lemma set_nth_length : forall {A} (l : list A) i x, length (set_nth l i x) = length l.
Proof. intros A l; induction l as [|a l IH]; intros i x; destruct i; cbn; try reflexivity. rewrite IH; reflexivity. Qed.

Lemma flush_frame : forall r p,
  length (flush r p) = length p /\
  forall a, ~ In a (addrs r) -> nth_opt (flush r p) a = nth_opt p a.
Proof.
  induction r as [m|xs IH| |ad x IH] using aval_ind'; intros p.
  - split; [reflexivity|intros; reflexivity].
  - cbn [flush addrs]. revert p. induction IH as [|y r Hy Hr IHr]; intros p.
    + split; [reflexivity|intros; reflexivity].
    + cbn [fold_left flat_map]. destruct (IHr (flush y p)) as [L1 F1]. destruct (Hy p) as [L2 F2].
      split; [rewrite L1; exact L2|]. intros a Ha. rewrite F1, F2; [reflexivity| |];
        intros Hin; apply Ha; apply in_or_app; [left|right]; exact Hin.
  - split; [reflexivity|intros; reflexivity].
  - cbn [flush addrs]. destruct (IH p) as [L F]. split; [rewrite set_nth_length; exact L|].
    intros a Ha. rewrite nth_opt_set_nth_other; [apply F; intros Hin; apply Ha; right; exact Hin|].
    intros E; apply Ha; left; exact E.
Qed.

Lemma nth_opt_app_l : forall {A} (p q : list A) a, (a < length p)%nat -> nth_opt (p ++ q) a = nth_opt p a.
Proof.
  intros A p q. induction p as [|x p IH]; intros a H; cbn in *; [lia|].
  destruct a; [reflexivity|]. apply IH. lia.
Qed.

Lemma nth_opt_pad : forall p n a, (a < length p)%nat -> nth_opt (pad p n) a = nth_opt p a.
Proof. intros p n a H. unfold pad. apply nth_opt_app_l. exact H. Qed.

Lemma nth_opt_lt : forall {A} (l : list A) i x, nth_opt l i = Some x -> (i < length l)%nat.
Proof. intros A l i x H. eapply nth_opt_Some_lt. exact H. Qed.

Definition loads (p : list mvalue) : list (Z * bool * ty) -> list mvalue -> list aval :=
  fix go (l : list (Z * bool * ty)) (xs : list mvalue) {struct l} : list aval :=
    match l, xs with
    | (_, _, ft) :: r, x :: xr => load p ft x :: go r xr
    | _, _ => []
    end.

Lemma load_struct : forall p n fs ms, load p (Struct n fs) (MStruct ms) = AStruct (loads p fs ms).
Proof. reflexivity. Qed.

(* load depends only on the cells it reads, and they exist *)
Lemma load_frame : forall p p' t m,
  (forall a, In a (addrs (load p t m)) -> nth_opt p' a = nth_opt p a) ->
  load p' t m = load p t m.
Proof.
  intros p p'. induction t as [k|n k|n fs IH|t IH|t IH|k v IHk IHv| |k i] using ty_ind'; intros m H;
    try reflexivity.
  - destruct m as [z|s|ms|pp|s|mm|z]; try reflexivity.
    rewrite !load_struct in *. f_equal. cbn [addrs] in H. revert ms H.
    induction IH as [|[[fn fe] ft] r Hf Hr IHr]; intros ms H; [reflexivity|].
    destruct ms as [|x xr]; [reflexivity|]. cbn [loads flat_map] in H |- *. cbn [ftyp snd] in Hf.
    rewrite Hf, IHr; [reflexivity| |]; intros a Ha; apply H; apply in_or_app; [right|left]; exact Ha.
  - destruct m as [z|s|ms|[ad|]|s|mm|z]; try reflexivity. cbn [load] in *.
    destruct (nth_opt p ad) as [x|] eqn:Ex.
    + cbn [addrs] in H. rewrite (H ad (or_introl eq_refl)), Ex. rewrite IH; [reflexivity|].
      intros a Ha. apply H. right; exact Ha.
    + cbn [addrs] in H. rewrite (H ad (or_introl eq_refl)), Ex. reflexivity.
Qed.

(* ------------------------------------------------------------ the constructor builds well-formed trees *)
Lemma leaf_class : forall t,
  (is_shadow_kind (kind_of t) || is_atomic_type t) = true -> is_leaf_ty t = true.
Proof. intros t H; destruct t; cbn in H; try discriminate H; reflexivity. Qed.

Lemma kids_ok_ext : forall t t' ks, unptr t = unptr t' -> kids_ok t ks -> kids_ok t' ks.
Proof.
  intros t t' ks E. induction ks as [|[cn si di lf kk] r IH]; intros H; [exact I|].
  cbn [kids_ok] in H |- *. rewrite <- E. destruct H as [H1 H2]. split; [exact H1|apply IH; exact H2].
Qed.

Definition ctor_ok (dt : ty) : Prop :=
  forall st kids, create_field_nodes false st dt = COk kids -> kids_ok st kids.

Lemma cfn_loop_ok : forall st sfs dfs,
  fields_of (unptr st) = COk sfs ->
  Forall (fun f : Z * bool * ty => ctor_ok (unptr (ftyp f))) dfs ->
  forall di kids, cfn_loop false sfs (field_map sfs 0 []) dfs di = COk kids -> kids_ok st kids.
Proof.
  intros st sfs dfs Hsfs HF. induction HF as [|[[dn dexp] dft] rest Hf Hrest IH]; intros di kids Hc.
  - cbn in Hc. inversion Hc. exact I.
  - destruct (cfn_loop_step _ _ _ _ _ _ _ Hc)
      as [[Hc' _]|[si [sft [leaf [kk [ns [_ [_ [Hnth [Hk [Hc' Hcls]]]]]]]]]]].
    + eapply IH. exact Hc'.
    + subst kids. cbn [kids_ok]. rewrite Hsfs, Hnth. split; [|eapply IH; exact Hc'].
      rewrite node_ok_unfold.
      destruct Hcls as [[Hl Hcl]|[Hl [_ [Hsk Hcfn]]]]; subst leaf.
      * apply leaf_class. exact Hcl.
      * cbn [ftyp snd] in Hf. apply (kids_ok_ext (unptr sft)); [|apply Hf; exact Hcfn].
        destruct (unptr sft); cbn in Hsk; try discriminate Hsk; reflexivity.
Qed.

Lemma ctor_ok_all : forall dt, ctor_ok dt /\ ctor_ok (unptr dt).
Proof.
  assert (Hno : forall dt, match dt with Struct _ _ | Atomic => False | _ => True end -> ctor_ok dt).
  { intros dt Hd st kids Hc. destruct (cfn_nonstruct st dt Hd) as [E|[e E]]; rewrite E in Hc; discriminate Hc. }
  induction dt as [k|n k|n fs IH|t IH|t IH|k v IHk IHv| |k i] using ty_ind';
    try (split; apply Hno; exact I).
  - assert (H : ctor_ok (Struct n fs)).
    { intros st kids Hc. rewrite cfn_struct in Hc.
      destruct (fields_of st) as [sfs| |] eqn:Ef; try discriminate Hc.
      assert (Hu : unptr st = st) by (destruct st; cbn in Ef; try discriminate Ef; reflexivity).
      eapply cfn_loop_ok; [rewrite Hu; exact Ef| |exact Hc].
      eapply Forall_impl; [|exact IH]. intros f [_ Hf]. exact Hf. }
    split; exact H.
  - split; [apply Hno; exact I|apply IH].
  - assert (H : ctor_ok Atomic).
    { intros st kids Hc. rewrite cfn_atomic in Hc. destruct (fields_of st); try discriminate Hc.
      inversion Hc. exact I. }
    split; exact H.
Qed.

Lemma root_ok : forall st dt ps c, new_reflect_copier st dt ps = COk c -> node_ok (c_root c) (Ptr st).
Proof.
  intros st dt ps c Hnew. unfold new_reflect_copier, new_reflect_copier_gen in Hnew.
  destruct (is_struct_kind st) eqn:Es; cbn [negb] in Hnew; [|discriminate Hnew].
  destruct (is_struct_kind dt); cbn [negb] in Hnew; [|discriminate Hnew].
  destruct (create_field_nodes false st dt) as [kids| |] eqn:Hc; try discriminate Hnew.
  inversion Hnew; subst c. cbn [c_root]. rewrite node_ok_unfold.
  apply (kids_ok_ext st); [destruct st; cbn in Es; try discriminate Es; reflexivity|].
  apply (proj1 (ctor_ok_all dt)). exact Hc.
Qed.

(* ------------------------------------------------------------ CopyTo on a store: erasure *)
Lemma erase_load_root : forall S t a,
  erase_a (arrs S) (maps S) (Ptr t) (load_root (ptrs S) t a) = VPtr (erase_at S t a).
Proof.
  intros S t [ad|]; [|reflexivity]. unfold load_root, erase_at.
  destruct (nth_opt (ptrs S) ad); reflexivity.
Qed.

Lemma mem_run_erases_lemma : forall st dt ps c S src dst cps r nx stt,
  new_reflect_copier st dt ps = COk c ->
  convs_flat (effective_options c cps) ->
  mem_copy_to_run c st dt S src dst cps = (r, nx, stt) ->
  reflect_copy_to c st dt (erase_at S st src) (erase_at S dt dst) cps =
    (match erase_a (arrs S) (maps S) (Ptr dt) r with VPtr p => p | _ => erase_at S dt dst end, stt).
Proof.
  intros st dt ps c S src dst cps r nx stt Hnew Hfl Hrun.
  unfold mem_copy_to_run in Hrun.
  pose proof (sim_all (arrs S) (maps S) _ Hfl (c_root c)
                {| aty := Ptr st; aval_ := load_root (ptrs S) st src; aaddr := false; aro := false |}
                {| aty := Ptr dt; aval_ := load_root (ptrs S) dt dst; aaddr := false; aro := false |}
                _ _ _ _ (root_ok _ _ _ _ Hnew) Hrun) as Hsim.
  unfold erv in Hsim. cbn [aty aval_ aaddr aro] in Hsim. rewrite !erase_load_root in Hsim.
  unfold reflect_copy_to, reflect_copy_to_gen.
  change (copy_tree_node_gen true) with copy_tree_node.
  change (apply_opts (copy_default_options (c_defaults c)) cps) with (effective_options c cps).
  rewrite Hsim. destruct (erase_a (arrs S) (maps S) (Ptr dt) r); reflexivity.
Qed.

(* ------------------------------------------------------------ CopyTo on a store: frame *)
Lemma mem_copy_to_frame_lemma : forall c st dt S src dst cps S' stt,
  mem_copy_to c st dt S src dst cps = (S', stt) ->
  arrs S' = arrs S /\ maps S' = maps S /\ (length (ptrs S) <= length (ptrs S'))%nat /\
  forall a, (a < length (ptrs S))%nat -> ~ In a (cells_of S dt dst) ->
            nth_opt (ptrs S') a = nth_opt (ptrs S) a.
Proof.
  intros c st dt S src dst cps S' stt H. unfold mem_copy_to in H.
  destruct (mem_copy_to_run c st dt S src dst cps) as [[r nx] st0] eqn:Er.
  inversion H; subst S' stt. cbn [ptrs arrs maps]. split; [reflexivity|]. split; [reflexivity|].
  unfold mem_copy_to_run in Er.
  destruct (addrs_all _ _ _ _ _ _ _ _ _ _ Er) as [Hle Hown]. cbn [aval_] in Hown.
  destruct (flush_frame r (pad (ptrs S) nx)) as [Hlen Hfr].
  split.
  - rewrite Hlen. unfold pad. rewrite app_length. lia.
  - intros a Ha Hnot. rewrite Hfr; [apply nth_opt_pad; exact Ha|].
    intros Hin. destruct (Hown _ Hin) as [H1|H1]; [apply Hnot; exact H1|lia].
Qed.

Lemma load_root_frame : forall p p' t a,
  (forall b, In b (addrs (load_root p t a)) -> nth_opt p' b = nth_opt p b) ->
  (match a with Some ad => nth_opt p ad <> None | None => True end) ->
  load_root p' t a = load_root p t a.
Proof.
  intros p p' t [ad|] H Hex; [|reflexivity]. unfold load_root in *.
  destruct (nth_opt p ad) as [m|] eqn:Em; [|exfalso; apply Hex; reflexivity].
  cbn [addrs] in H. rewrite (H ad (or_introl eq_refl)), Em. f_equal. f_equal. f_equal.
  apply load_frame. intros b Hb. apply H. right; exact Hb.
Qed.

Lemma untouched_after_lemma : forall c st dt S src dst cps S' stt t a,
  mem_copy_to c st dt S src dst cps = (S', stt) ->
  untouched S t a (cells_of S dt dst) ->
  (match a with Some ad => nth_opt (ptrs S) ad <> None | None => True end) ->
  load_root (ptrs S') t a = load_root (ptrs S) t a /\
  cells_of S' t a = cells_of S t a /\
  erase_at S' t a = erase_at S t a /\
  (forall b, In b (cells_of S t a) -> nth_opt (ptrs S') b = nth_opt (ptrs S) b).
Proof.
  intros c st dt S src dst cps S' stt t a Hrun Hun Hex.
  destruct (mem_copy_to_frame_lemma _ _ _ _ _ _ _ _ _ Hrun) as [Har [Hmp [_ Hfr]]].
  assert (Hcells : forall b, In b (cells_of S t a) -> nth_opt (ptrs S') b = nth_opt (ptrs S) b).
  { intros b Hb. destruct (Hun _ Hb) as [H1 H2]. apply Hfr; assumption. }
  assert (Hload : load_root (ptrs S') t a = load_root (ptrs S) t a)
    by (apply load_root_frame; [exact Hcells|exact Hex]).
  split; [exact Hload|]. split; [unfold cells_of; rewrite Hload; reflexivity|]. split; [|exact Hcells].
  pose proof (erase_load_root S' t a) as E1. pose proof (erase_load_root S t a) as E2.
  rewrite Hload, Har, Hmp in E1. rewrite E2 in E1. inversion E1. reflexivity.
Qed.

(* ------------------------------------------------------------ two calls with separate destinations *)
(* the tree value of the destination a run leaves behind *)
Definition run_result (S : store) (dt : ty) (dst : option nat) (r : aval) : option value :=
  match erase_a (arrs S) (maps S) (Ptr dt) r with VPtr p => p | _ => erase_at S dt dst end.

Lemma mem_run_erases_lemma' : forall st dt ps c S src dst cps r nx stt,
  new_reflect_copier st dt ps = COk c ->
  convs_flat (effective_options c cps) ->
  mem_copy_to_run c st dt S src dst cps = (r, nx, stt) ->
  reflect_copy_to c st dt (erase_at S st src) (erase_at S dt dst) cps = (run_result S dt dst r, stt).
Proof. exact mem_run_erases_lemma. Qed.

Lemma calls_independent_lemma :
  forall c1 st1 dt1 src1 dst1 cps1 st2 dt2 ps2 c2 src2 dst2 cps2 S S1 stt1 r2 nx2 stt2 r2' nx2' stt2',
  new_reflect_copier st2 dt2 ps2 = COk c2 ->
  convs_flat (effective_options c2 cps2) ->
  mem_copy_to c1 st1 dt1 S src1 dst1 cps1 = (S1, stt1) ->
  untouched S st2 src2 (cells_of S dt1 dst1) ->
  untouched S dt2 dst2 (cells_of S dt1 dst1) ->
  (match src2 with Some ad => nth_opt (ptrs S) ad <> None | None => True end) ->
  (match dst2 with Some ad => nth_opt (ptrs S) ad <> None | None => True end) ->
  mem_copy_to_run c2 st2 dt2 S src2 dst2 cps2 = (r2, nx2, stt2) ->
  mem_copy_to_run c2 st2 dt2 S1 src2 dst2 cps2 = (r2', nx2', stt2') ->
  stt2' = stt2 /\ run_result S1 dt2 dst2 r2' = run_result S dt2 dst2 r2.
Proof.
  intros c1 st1 dt1 src1 dst1 cps1 st2 dt2 ps2 c2 src2 dst2 cps2 S S1 stt1 r2 nx2 stt2 r2' nx2' stt2'
         Hnew Hfl H1 Hus Hud Hes Hed Hrun Hrun'.
  pose proof (mem_run_erases_lemma' _ _ _ _ _ _ _ _ _ _ _ Hnew Hfl Hrun) as E.
  pose proof (mem_run_erases_lemma' _ _ _ _ _ _ _ _ _ _ _ Hnew Hfl Hrun') as E'.
  destruct (untouched_after_lemma _ _ _ _ _ _ _ _ _ _ _ H1 Hus Hes) as [_ [_ [Hs _]]].
  destruct (untouched_after_lemma _ _ _ _ _ _ _ _ _ _ _ H1 Hud Hed) as [_ [_ [Hd _]]].
  rewrite Hs, Hd, E in E'. inversion E'. split; reflexivity.
Qed.

(* ------------------------------------------------------------ flush then load gives the value back *)
Definition shapeds : list (Z * bool * ty) -> list aval -> Prop :=
  fix go (l : list (Z * bool * ty)) (xs : list aval) {struct l} : Prop :=
    match l, xs with
    | [], [] => True
    | (_, _, ft) :: r, x :: xr => shaped ft x /\ go r xr
    | _, _ => False
    end.

Lemma shaped_struct : forall n fs xs, shaped (Struct n fs) (AStruct xs) = shapeds fs xs.
Proof. reflexivity. Qed.

Lemma NoDup_app_l : forall {A} (l1 l2 : list A), NoDup (l1 ++ l2) -> NoDup l1.
Proof. intros A l1 l2 H. induction l1 as [|a l1 IH]; [constructor|]. inversion H; subst. constructor; [intros Hin; apply H2; apply in_or_app; left; exact Hin|apply IH; exact H3]. Qed.
Lemma NoDup_app_r : forall {A} (l1 l2 : list A), NoDup (l1 ++ l2) -> NoDup l2.
Proof. intros A l1 l2 H. induction l1 as [|a l1 IH]; [exact H|]. inversion H; subst. apply IH; exact H3. Qed.
Lemma NoDup_app_disj : forall {A} (l1 l2 : list A) a, NoDup (l1 ++ l2) -> In a l1 -> ~ In a l2.
Proof.
  intros A l1 l2 a H. induction l1 as [|b l1 IH]; intros Hin; [contradiction|].
  inversion H; subst. destruct Hin as [E|Hin]; [subst; intros Hin2; apply H2; apply in_or_app; right; exact Hin2|].
  apply IH; assumption.
Qed.

Lemma flush_load : forall r t P,
  shaped t r -> NoDup (addrs r) -> (forall a, In a (addrs r) -> (a < length P)%nat) ->
  load (flush r P) t (strip r) = r.
Proof.
  induction r as [m|xs IH| |ad x IH] using aval_ind'; intros t P Hs Hnd Hlt.
  - destruct t; cbn in Hs; try contradiction; reflexivity.
  - destruct t as [k|n k|n fs|e|e|k e| |k j]; cbn in Hs; try contradiction.
    change (shapeds fs xs) in Hs. cbn [strip flush]. rewrite load_struct. f_equal.
    cbn [addrs] in Hnd, Hlt. revert fs P Hs Hnd Hlt.
    induction IH as [|y r Hy Hr IHr]; intros fs P Hs Hnd Hlt.
    + destruct fs as [|[[fn fe] ft] fr]; [reflexivity|cbn in Hs; contradiction].
    + destruct fs as [|[[fn fe] ft] fr]; [cbn in Hs; contradiction|]. cbn [shapeds] in Hs. destruct Hs as [Hs1 Hs2].
      cbn [map fold_left loads flat_map] in *.
      assert (Hlen : length (flush y P) = length P) by apply flush_frame.
      f_equal.
      * assert (Hy' : load (flush y P) ft (strip y) = y).
        { apply Hy; [exact Hs1|exact (NoDup_app_l _ _ Hnd)|].
          intros a Ha; apply Hlt; apply in_or_app; left; exact Ha. }
        transitivity (load (flush y P) ft (strip y)); [|exact Hy'].
        apply load_frame. intros a Ha. rewrite Hy' in Ha.
        change (fold_left (fun acc x0 => flush x0 acc) r (flush y P)) with (flush (AStruct r) (flush y P)).
        apply flush_frame. cbn [addrs]. eapply NoDup_app_disj; eassumption.
      * apply IHr; [exact Hs2|apply (NoDup_app_r _ _ Hnd)|].
        intros a Ha. rewrite Hlen. apply Hlt. apply in_or_app. right; exact Ha.
  - destruct t; cbn in Hs; try contradiction. reflexivity.
  - destruct t as [k|n k|n fs|e|e|k e| |k j]; cbn in Hs; try contradiction.
    cbn [strip flush load addrs] in *. inversion Hnd as [|a l Hnotin Hnd']; subst.
    assert (Hlen : length (flush x P) = length P) by apply flush_frame.
    rewrite nth_opt_set_nth_same by (rewrite Hlen; apply Hlt; left; reflexivity).
    f_equal. f_equal. f_equal.
    assert (IH' : load (flush x P) e (strip x) = x).
    { apply IH; [exact Hs|exact Hnd'|]. intros a Ha; apply Hlt; right; exact Ha. }
    transitivity (load (flush x P) e (strip x)); [|exact IH'].
    apply load_frame. intros a Ha. rewrite IH' in Ha.
    apply nth_opt_set_nth_other. intros E; subst. contradiction.
Qed.

(* ------------------------------------------------------------ the result keeps the shape of its type *)
Lemma shaped_azero : forall t, shaped t (azero t).
Proof.
  induction t as [k|n k|n fs IH|t IH|t IH|k v IHk IHv| |k i] using ty_ind'; try exact I.
  change (azero (Struct n fs)) with (AStruct (azeros fs)). rewrite shaped_struct.
  induction IH as [|[[fn fe] ft] r Hf Hr IHr]; [exact I|]. cbn [azeros shapeds]. split; [exact Hf|exact IHr].
Qed.

Lemma shaped_embed : forall t v, flat t v = true -> shaped t (embed t v).
Proof.
  induction t as [k|n k|n fs IH|t IH|t IH|k v IHk IHv| |k i] using ty_ind'; intros v0 Hf;
    destruct v0 as [z|s|vs|[p|]|[s|]|[m|]|z]; cbn in Hf; try discriminate Hf; try exact I.
  change (embed (Struct n fs) (VStruct vs)) with (AStruct (embeds fs vs)).
  change (flats fs vs = true) in Hf. rewrite shaped_struct. revert vs Hf.
  induction IH as [|[[fn fe] ft] r Hft Hr IHr]; intros vs Hf.
  - destruct vs; [exact I|discriminate Hf].
  - destruct vs as [|x xr]; [discriminate Hf|]. cbn [flats] in Hf. apply andb_prop in Hf as [H1 H2].
    cbn [embeds shapeds]. split; [apply Hft; exact H1|apply IHr; exact H2].
Qed.

Lemma shapeds_nth : forall fs xs i n e t x,
  shapeds fs xs -> nth_opt fs i = Some (n, e, t) -> nth_opt xs i = Some x -> shaped t x.
Proof.
  induction fs as [|[[fn fe] ft] r IH]; intros xs i n e t x Hs Hf Hx; [destruct i; discriminate Hf|].
  destruct xs as [|y yr]; [cbn in Hs; contradiction|]. cbn [shapeds] in Hs. destruct Hs as [H1 H2].
  destruct i; cbn in Hf, Hx.
  - inversion Hf; inversion Hx; subst. exact H1.
  - eapply IH; eassumption.
Qed.

Lemma shapeds_set : forall fs xs i n e t x,
  shapeds fs xs -> nth_opt fs i = Some (n, e, t) -> shaped t x -> shapeds fs (set_nth xs i x).
Proof.
  induction fs as [|[[fn fe] ft] r IH]; intros xs i n e t x Hs Hf Hx; [destruct i; discriminate Hf|].
  destruct xs as [|y yr]; [cbn in Hs; contradiction|]. cbn [shapeds] in Hs. destruct Hs as [H1 H2].
  destruct i; cbn in Hf |- *.
  - inversion Hf; subst. split; assumption.
  - split; [exact H1|eapply IH; eassumption].
Qed.

Lemma dst_unwrap_shaped : forall d next d1 p next1,
  a_dst_unwrap d next = COk (d1, p, next1) -> shaped (aty d) (aval_ d) ->
  shaped (aty d1) (aval_ d1) /\ forall y, shaped (aty d1) y -> shaped (aty d) (arewrap p y).
Proof.
  intros [t a ad ro] next d1 p next1 H Hs. unfold a_dst_unwrap in H. cbn [aty aval_ aro aaddr] in *.
  destruct t; try (inversion H; subst; split; [exact Hs|intros y Hy; exact Hy]).
  destruct a as [m|xs|[[adr x]|]]; try discriminate H.
  - inversion H; subst. cbn in Hs |- *. split; [exact Hs|intros y Hy; exact Hy].
  - destruct (a_can_set _); [|discriminate H]. inversion H; subst. cbn [aty aval_].
    split; [apply shaped_azero|intros y Hy; exact Hy].
Qed.

Definition shape_node (ar : list (list mvalue)) (mp : list (list (mvalue * mvalue))) (o : options)
  (n : node) : Prop :=
  forall s d next x nx stt,
    node_ok n (aty s) -> shaped (aty d) (aval_ d) ->
    actn ar mp o n s d next = (x, nx, stt) -> shaped (aty d) x.

Lemma shape_kids : forall ar mp o s1 d1 kids,
  Forall (shape_node ar mp o) kids ->
  forall cur nx v' nx' stt,
    kids_ok (aty s1) kids -> shaped (aty d1) cur ->
    a_copy_kids ar mp o s1 d1 kids cur nx = (v', nx', stt) -> shaped (aty d1) v'.
Proof.
  intros ar mp o s1 d1 kids HF. induction HF as [|k rest Hk Hrest IH];
    intros cur nx v' nx' stt Hok Hs Hrun.
  - cbn in Hrun. inversion Hrun; subst. exact Hs.
  - destruct k as [cname si di leaf kk]. rewrite a_copy_kids_cons in Hrun.
    cbn [kids_ok] in Hok. fold (kids_ok (aty s1)) in Hok. destruct Hok as [Hk1 Hok].
    destruct (in_ignore o cname); [eapply IH; eassumption|].
    destruct (a_field s1 si) as [cs| |] eqn:Es; try (inversion Hrun; subst; exact Hs).
    destruct (a_field (a_with_val d1 cur) di) as [cd| |] eqn:Ed; try (inversion Hrun; subst; exact Hs).
    destruct (actn ar mp o (Node cname si di leaf kk) cs cd nx) as [[x nx1] st1] eqn:Ea.
    destruct (a_field_inv _ _ _ Es) as [sn [sfs [sxs [fn [fe [Hst [_ [Hsn _]]]]]]]].
    assert (Hnode : node_ok (Node cname si di leaf kk) (aty cs)).
    { rewrite Hst in Hk1. cbn [unptr fields_of] in Hk1. rewrite Hsn in Hk1. exact Hk1. }
    destruct (a_field_inv _ _ _ Ed) as [dn [dfs [dxs [gn [ge [Hdt [Hdv [Hdn Hdx]]]]]]]].
    cbn [a_with_val aty aval_] in Hdt, Hdv. subst cur. rewrite Hdt in Hs. rewrite shaped_struct in Hs.
    assert (Hx : shaped (aty cd) x).
    { eapply Hk; [exact Hnode| |exact Ea]. eapply shapeds_nth; eassumption. }
    assert (Hs' : shaped (aty d1) (a_set_field (AStruct dxs) di x)).
    { rewrite Hdt. cbn [a_set_field]. rewrite shaped_struct. eapply shapeds_set; eassumption. }
    cbv zeta in Hrun.
    destruct st1; [eapply IH; eassumption| |]; inversion Hrun; subst; exact Hs'.
Qed.

Lemma shape_all : forall ar mp o, convs_flat o -> forall n, shape_node ar mp o n.
Proof.
  intros ar mp o Hfl. induction n as [name si di leaf kids IH] using node_ind'.
  intros s d next x nx stt Hok Hs Hrun. rewrite actn_unfold in Hrun.
  destruct (a_src_unwrap s) as [[s1|]|e|] eqn:Es; try (inversion Hrun; subst; exact Hs).
  destruct (a_dst_unwrap d next) as [[[d1 p] next1]|e|] eqn:Ed; try (inversion Hrun; subst; exact Hs).
  destruct (dst_unwrap_shaped _ _ _ _ _ Ed Hs) as [Hs1 Hrw].
  rewrite node_ok_unfold in Hok. pose proof (a_src_unwrap_ty _ _ Es) as Hty.
  destruct leaf.
  - destruct (a_copy_leaf ar mp o name s s1 d d1 p) as [x0 st0] eqn:El.
    inversion Hrun; subst x nx stt. unfold a_copy_leaf in El.
    destruct (negb (a_can_set d1)); [inversion El; subst; apply Hrw; exact Hs1|].
    destruct (find_conv o name) as [c|] eqn:Ec.
    + destruct (negb (a_can_set d)); [inversion El; subst; apply Hrw; exact Hs1|].
      destruct (aro s); [inversion El; subst; apply Hrw; exact Hs1|].
      destruct (apply_conv c (aty s) (erase_a ar mp (aty s) (aval_ s))) as [[|t r]|e|] eqn:Ea;
        try (inversion El; subst; apply Hrw; exact Hs1).
      destruct (ty_eqb t (aty d)) eqn:Et; cbn [negb] in El; [|inversion El; subst; apply Hrw; exact Hs1].
      inversion El; subst. apply ty_eqb_eq in Et. subst t. apply shaped_embed.
      unfold apply_conv in Ea. destruct (negb (ty_eqb (aty s) (cv_src c))); [discriminate Ea|].
      destruct (cv_fun c (erase_a ar mp (aty s) (aval_ s))) as [rr|] eqn:Ef; [|discriminate Ea].
      inversion Ea; subst rr. exact (Hfl _ _ _ _ _ Ec Ef).
    + destruct (ty_eqb (aty s1) (aty d1)) eqn:Et; cbn [negb] in El; [|inversion El; subst; apply Hrw; exact Hs1].
      destruct (is_zero _); [inversion El; subst; apply Hrw; exact Hs1|].
      destruct (aro s1); [inversion El; subst; apply Hrw; exact Hs1|].
      inversion El; subst. apply Hrw. apply ty_eqb_eq in Et. rewrite <- Et. rewrite Hty.
      destruct (unptr (aty s)); cbn in Hok; try discriminate Hok; exact I.
  - destruct (a_copy_kids ar mp o s1 d1 kids (aval_ d1) next1) as [[v' nx2] st2] eqn:Ek.
    inversion Hrun; subst x nx stt. apply Hrw.
    assert (Hok' : kids_ok (aty s1) kids).
    { rewrite Hty. clear -Hok. induction kids as [|[cn csi cdi cl ck] r IHr]; [exact I|].
      cbn [kids_ok] in Hok |- *. destruct Hok as [H1 H2]. split; [|apply IHr; exact H2].
      assert (Hu : unptr (unptr (aty s)) = unptr (aty s)).
      { destruct (unptr (aty s)); cbn in H1; try contradiction; reflexivity. }
      rewrite Hu. exact H1. }
    exact (shape_kids ar mp o s1 d1 kids IH _ _ _ _ _ Hok' Hs1 Ek).
Qed.

(* ------------------------------------------------------------ the result's cells stay pairwise distinct *)
Lemma NoDup_app_intro : forall {A} (l1 l2 : list A),
  NoDup l1 -> NoDup l2 -> (forall a, In a l1 -> ~ In a l2) -> NoDup (l1 ++ l2).
Proof.
  intros A l1 l2 H1 H2 Hd. induction H1 as [|a l Hn Hl IH]; [exact H2|]. cbn. constructor.
  - intros Hin. apply in_app_or in Hin as [Hin|Hin]; [contradiction|]. exact (Hd a (or_introl eq_refl) Hin).
  - apply IH. intros b Hb. apply Hd. right; exact Hb.
Qed.

Lemma nodup_nth : forall xs i (c : aval), NoDup (flat_map addrs xs) -> nth_opt xs i = Some c -> NoDup (addrs c).
Proof.
  induction xs as [|y r IH]; intros i c Hnd Hn; destruct i; cbn in Hn; try discriminate Hn; cbn [flat_map] in Hnd.
  - inversion Hn; subst. exact (NoDup_app_l _ _ Hnd).
  - eapply IH; [exact (NoDup_app_r _ _ Hnd)|exact Hn].
Qed.

(* replacing the i-th component by one that owns only cells of the old component or cells met nowhere else *)
Lemma nodup_set : forall xs i c x,
  NoDup (flat_map addrs xs) -> nth_opt xs i = Some c -> NoDup (addrs x) ->
  (forall a, In a (addrs x) -> In a (addrs c) \/ ~ In a (flat_map addrs xs)) ->
  NoDup (flat_map addrs (set_nth xs i x)).
Proof.
  induction xs as [|y r IH]; intros i c x Hnd Hn Hx Hown; destruct i; cbn in Hn; try discriminate Hn;
    cbn [flat_map set_nth] in *.
  - inversion Hn; subst y. apply NoDup_app_intro; [exact Hx|exact (NoDup_app_r _ _ Hnd)|].
    intros a Ha Hin. destruct (Hown _ Ha) as [H1|H1].
    + exact (NoDup_app_disj _ _ _ Hnd H1 Hin).
    + apply H1. apply in_or_app. right; exact Hin.
  - apply NoDup_app_intro; [exact (NoDup_app_l _ _ Hnd)| |].
    + eapply IH; [exact (NoDup_app_r _ _ Hnd)|exact Hn|exact Hx|].
      intros a Ha. destruct (Hown _ Ha) as [H1|H1]; [left; exact H1|right].
      intros Hin; apply H1; apply in_or_app; right; exact Hin.
    + intros a Ha Hin. apply addrs_set_nth in Hin as [Hin|Hin].
      * exact (NoDup_app_disj _ _ _ Hnd Ha Hin).
      * destruct (Hown _ Hin) as [H1|H1].
        -- apply (NoDup_app_disj _ _ _ Hnd Ha). eapply addrs_nth; eassumption.
        -- apply H1. apply in_or_app. left; exact Ha.
Qed.

Definition below (n : nat) (x : aval) : Prop := forall a, In a (addrs x) -> (a < n)%nat.

Definition nodup_node (ar : list (list mvalue)) (mp : list (list (mvalue * mvalue))) (o : options)
  (n : node) : Prop :=
  forall s d next x nx stt,
    NoDup (addrs (aval_ d)) -> below next (aval_ d) ->
    actn ar mp o n s d next = (x, nx, stt) -> NoDup (addrs x).

Lemma nodup_kids : forall ar mp o s1 d1 kids,
  Forall (nodup_node ar mp o) kids ->
  forall cur nx v' nx' stt,
    NoDup (addrs cur) -> below nx cur ->
    a_copy_kids ar mp o s1 d1 kids cur nx = (v', nx', stt) -> NoDup (addrs v').
Proof.
  intros ar mp o s1 d1 kids HF. induction HF as [|k rest Hk Hrest IH];
    intros cur nx v' nx' stt Hnd Hb Hrun.
  - cbn in Hrun. inversion Hrun; subst. exact Hnd.
  - destruct k as [cname si di leaf kk]. rewrite a_copy_kids_cons in Hrun.
    destruct (in_ignore o cname); [eapply IH; eassumption|].
    destruct (a_field s1 si) as [cs| |] eqn:Es; try (inversion Hrun; subst; exact Hnd).
    destruct (a_field (a_with_val d1 cur) di) as [cd| |] eqn:Ed; try (inversion Hrun; subst; exact Hnd).
    destruct (actn ar mp o (Node cname si di leaf kk) cs cd nx) as [[x nx1] st1] eqn:Ea.
    destruct (a_field_inv _ _ _ Ed) as [dn [dfs [dxs [gn [ge [Hdt [Hdv [Hdn Hdx]]]]]]]].
    cbn [a_with_val aty aval_] in Hdt, Hdv. subst cur. cbn [addrs] in Hnd.
    assert (Hbcd : below nx (aval_ cd)).
    { intros a Ha. apply Hb. cbn [addrs]. eapply addrs_nth; eassumption. }
    destruct (addrs_all ar mp o _ _ _ _ _ _ _ Ea) as [Hle Hown].
    assert (Hx : NoDup (addrs x)) by (eapply Hk; [eapply nodup_nth; eassumption|exact Hbcd|exact Ea]).
    assert (Hnd' : NoDup (addrs (a_set_field (AStruct dxs) di x))).
    { cbn [a_set_field addrs]. eapply nodup_set; [exact Hnd|exact Hdx|exact Hx|].
      intros a Ha. destruct (Hown _ Ha) as [H1|H1]; [left; exact H1|right].
      intros Hin. assert (a < nx)%nat by (apply Hb; exact Hin). lia. }
    assert (Hb' : below nx1 (a_set_field (AStruct dxs) di x)).
    { intros a Ha. cbn [a_set_field addrs] in Ha. apply addrs_set_nth in Ha as [Ha|Ha].
      - assert (a < nx)%nat by (apply Hb; exact Ha). lia.
      - destruct (Hown _ Ha) as [H1|H1]; [|lia]. assert (a < nx)%nat by (apply Hbcd; exact H1). lia. }
    cbv zeta in Hrun.
    destruct st1; [eapply IH; eassumption| |]; inversion Hrun; subst; exact Hnd'.
Qed.

Lemma nodup_all : forall ar mp o n, nodup_node ar mp o n.
Proof.
  intros ar mp o. induction n as [name si di leaf kids IH] using node_ind'.
  intros s d next x nx stt Hnd Hb Hrun.
  pose proof (addrs_all ar mp o _ _ _ _ _ _ _ Hrun) as [Hle0 Hown0].
  rewrite actn_unfold in Hrun.
  destruct (a_src_unwrap s) as [[s1|]|e|]; try (inversion Hrun; subst; exact Hnd).
  destruct (a_dst_unwrap d next) as [[[d1 p] next1]|e|] eqn:Ed; try (inversion Hrun; subst; exact Hnd).
  (* facts about the unwrapped destination *)
  assert (Hd1 : NoDup (addrs (aval_ d1)) /\ below next1 (aval_ d1) /\ (next <= next1)%nat /\
                forall y, NoDup (addrs y) -> owns (addrs (aval_ d1)) next1 (S nx) y ->
                          NoDup (addrs (arewrap p y))).
  { destruct d as [t a ad ro]. unfold a_dst_unwrap in Ed. cbn [aty aval_ aro aaddr] in *.
    destruct t; try (inversion Ed; subst; cbn [aval_ arewrap];
                     split; [exact Hnd|split; [exact Hb|split; [lia|intros y Hy _; exact Hy]]]).
    destruct a as [m|xs|[[adr x0]|]]; try discriminate Ed.
    - inversion Ed; subst. cbn [aval_ addrs arewrap] in *. inversion Hnd as [|a0 l Hnotin Hnd0]; subst.
      split; [exact Hnd0|]. split; [intros a Ha; apply Hb; right; exact Ha|]. split; [lia|].
      intros y Hy Hown. constructor; [|exact Hy]. intros Hin.
      destruct (Hown _ Hin) as [H1|H1]; [contradiction|].
      assert (adr < next1)%nat by (apply Hb; left; reflexivity). lia.
    - destruct (a_can_set _); [|discriminate Ed]. inversion Ed; subst. cbn [aval_ addrs arewrap].
      split; [rewrite azero_addrs; constructor|].
      split; [intros a Ha; rewrite azero_addrs in Ha; contradiction|]. split; [lia|].
      intros y Hy Hown. constructor; [|exact Hy]. intros Hin.
      destruct (Hown _ Hin) as [H1|H1]; [rewrite azero_addrs in H1; contradiction|lia]. }
  destruct Hd1 as [Hnd1 [Hb1 [Hle1 Hrw]]].
  assert (Hkeep : NoDup (addrs (arewrap p (aval_ d1)))).
  { apply Hrw; [exact Hnd1|]. intros a Ha. left; exact Ha. }
  assert (Hleafset : forall m, NoDup (addrs (arewrap p (ALeaf m)))).
  { intros m. apply Hrw; [constructor|]. intros a Ha. contradiction. }
  destruct leaf.
  - destruct (a_copy_leaf ar mp o name s s1 d d1 p) as [x0 st0] eqn:El.
    inversion Hrun; subst x nx stt. unfold a_copy_leaf in El.
    destruct (negb (a_can_set d1)); [inversion El; subst; exact Hkeep|].
    destruct (find_conv o name) as [c|].
    + destruct (negb (a_can_set d)); [inversion El; subst; exact Hkeep|].
      destruct (aro s); [inversion El; subst; exact Hkeep|].
      destruct (apply_conv c (aty s) (erase_a ar mp (aty s) (aval_ s))) as [[|t r]|e|];
        try (inversion El; subst; exact Hkeep).
      destruct (negb (ty_eqb t (aty d))); [inversion El; subst; exact Hkeep|].
      inversion El; subst. rewrite embed_addrs. constructor.
    + destruct (negb (ty_eqb (aty s1) (aty d1))); [inversion El; subst; exact Hkeep|].
      destruct (is_zero _); [inversion El; subst; exact Hkeep|].
      destruct (aro s1); [inversion El; subst; exact Hkeep|].
      inversion El; subst. apply Hleafset.
  - destruct (a_copy_kids ar mp o s1 d1 kids (aval_ d1) next1) as [[v' nx2] st2] eqn:Ek.
    inversion Hrun; subst x nx stt.
    destruct (addrs_kids ar mp o s1 d1 kids (Forall_impl _ (fun n _ => addrs_all ar mp o n) IH) _ _ _ _ _ Ek)
      as [Hle2 Hown2].
    apply Hrw; [exact (nodup_kids ar mp o s1 d1 kids IH _ _ _ _ _ Hnd1 Hb1 Ek)|].
    intros a Ha. destruct (Hown2 _ Ha) as [H1|H1]; [left; exact H1|right; lia].
Qed.

(* ------------------------------------------------------------ the final store *)
Lemma actn_root_addr : forall ar mp o name si di kids s d next x nx stt t da y,
  aty d = Ptr t -> aval_ d = APtr (Some (da, y)) ->
  actn ar mp o (Node name si di false kids) s d next = (x, nx, stt) ->
  exists y', x = APtr (Some (da, y')).
Proof.
  intros ar mp o name si di kids s d next x nx stt t da y Ht Hv Hrun. rewrite actn_unfold in Hrun.
  destruct (a_src_unwrap s) as [[s1|]|e|]; try (inversion Hrun; subst; rewrite Hv; eexists; reflexivity).
  unfold a_dst_unwrap in Hrun. rewrite Ht, Hv in Hrun.
  destruct (a_copy_kids _ _ _ _ _ _ _ _) as [[v' nx2] st2]. inversion Hrun; subst. eexists; reflexivity.
Qed.

Lemma pad_length : forall p n, (length p <= n)%nat -> length (pad p n) = n.
Proof. intros p n H. unfold pad. rewrite app_length, repeat_length. lia. Qed.

Lemma mem_copy_to_store_lemma : forall st dt ps c S src da cps S' stt,
  new_reflect_copier st dt ps = COk c ->
  convs_flat (effective_options c cps) ->
  proper S dt (Some da) ->
  mem_copy_to c st dt S src (Some da) cps = (S', stt) ->
  reflect_copy_to c st dt (erase_at S st src) (erase_at S dt (Some da)) cps
    = (erase_at S' dt (Some da), stt) /\
  proper S' dt (Some da) /\
  (forall a, In a (cells_of S' dt (Some da)) ->
             In a (cells_of S dt (Some da)) \/ (length (ptrs S) <= a)%nat) /\
  (exists nx, mem_copy_to_run c st dt S src (Some da) cps = (load_root (ptrs S') dt (Some da), nx, stt)).
Proof.
  intros st dt ps c S src da cps S' stt Hnew Hfl [Hex [Hsh [Hnd Hlt]]] Hrun.
  unfold mem_copy_to in Hrun.
  destruct (mem_copy_to_run c st dt S src (Some da) cps) as [[r nx] st0] eqn:Er.
  inversion Hrun; subst S' stt. clear Hrun.
  pose proof Er as Er0.
  pose proof (mem_run_erases_lemma' _ _ _ _ _ _ _ _ _ _ _ Hnew Hfl Er) as Herase.
  pose proof (root_ok _ _ _ _ Hnew) as Hrootok.
  unfold mem_copy_to_run in Er. unfold cells_of in *.
  assert (Hroot : exists y', r = APtr (Some (da, y'))).
  { assert (Hc : exists kids, c_root c = Node 0 0 0 false kids).
    { unfold new_reflect_copier, new_reflect_copier_gen in Hnew.
      destruct (negb (is_struct_kind st)); [discriminate Hnew|].
      destruct (negb (is_struct_kind dt)); [discriminate Hnew|].
      destruct (create_field_nodes false st dt) as [kids| |]; try discriminate Hnew.
      inversion Hnew. eexists; reflexivity. }
    destruct Hc as [kids Hc]. pose proof Er as Er2. rewrite Hc in Er2.
    unfold load_root in Er2. destruct (nth_opt (ptrs S) da) as [m|] eqn:Em; [|exfalso; apply Hex; reflexivity].
    eapply actn_root_addr; [| |exact Er2]; reflexivity. }

  set (o := apply_opts (copy_default_options (c_defaults c)) cps) in *.
  set (rs := {| aty := Ptr st; aval_ := load_root (ptrs S) st src; aaddr := false; aro := false |}) in *.
  set (rd := {| aty := Ptr dt; aval_ := load_root (ptrs S) dt (Some da); aaddr := false; aro := false |}) in *.
  pose proof (shape_all (arrs S) (maps S) o Hfl (c_root c) rs rd _ _ _ _ Hrootok Hsh Er) as Hshr.
  pose proof (nodup_all (arrs S) (maps S) o (c_root c) rs rd _ _ _ _ Hnd Hlt Er) as Hndr.
  destruct (addrs_all (arrs S) (maps S) o (c_root c) rs rd _ _ _ _ Er) as [Hle Hown].
  cbn [aty aval_ rd] in Hshr, Hown.
  destruct Hroot as [y' Hr].
  set (P := pad (ptrs S) nx) in *.
  assert (HPlen : length P = nx) by (apply pad_length; exact Hle).
  assert (Hbelow : forall a, In a (addrs r) -> (a < length P)%nat).
  { intros a Ha. rewrite HPlen. destruct (Hown _ Ha) as [H1|H1]; [|lia].
    assert (a < length (ptrs S))%nat by (apply Hlt; exact H1). lia. }
  assert (Hload : load_root (flush r P) dt (Some da) = r).
  { pose proof (flush_load r (Ptr dt) P Hshr Hndr Hbelow) as Hfl2.
    rewrite Hr in *. cbn [strip load flush] in Hfl2. unfold load_root. cbn [flush].
    destruct (nth_opt (set_nth (flush y' P) da (strip y')) da) as [m|] eqn:Em; [exact Hfl2|].
    exfalso. rewrite nth_opt_set_nth_same in Em; [discriminate Em|].
    rewrite (proj1 (flush_frame y' P)). apply Hbelow. left; reflexivity. }
  cbn [ptrs arrs maps].
  split; [|split; [|split]]; [| | |exists nx; rewrite Hload; reflexivity].
  - rewrite Herase. f_equal. unfold run_result.
    pose proof (erase_load_root {| ptrs := flush r P; arrs := arrs S; maps := maps S |} dt (Some da)) as E.
    cbn [ptrs arrs maps] in E. rewrite Hload in E. rewrite E. reflexivity.
  - unfold proper, cells_of. cbn [ptrs]. rewrite Hload.
    split; [|split; [exact Hshr|split; [exact Hndr|]]].
    + rewrite Hr. cbn [flush]. rewrite nth_opt_set_nth_same; [discriminate|].
      rewrite (proj1 (flush_frame y' P)). apply Hbelow. rewrite Hr. left; reflexivity.
    + intros b Hb. rewrite (proj1 (flush_frame r P)). apply Hbelow. exact Hb.
  - cbn [ptrs]. rewrite Hload. intros a Ha. destruct (Hown _ Ha) as [H1|H1]; [left; exact H1|right; lia].
Qed.

(* ------------------------------------------------------------ where the destination's leaves come from *)
Lemma leaves_nth : forall xs i x m, nth_opt xs i = Some x -> In m (leaves x) -> In m (flat_map leaves xs).
Proof.
  induction xs as [|y r IH]; intros i x m Hn Ha; destruct i; cbn in Hn; try discriminate Hn;
    cbn [flat_map]; apply in_or_app.
  - inversion Hn; subst. left; exact Ha.
  - right. eapply IH; eassumption.
Qed.

Lemma leaves_set_nth : forall xs i x m,
  In m (flat_map leaves (set_nth xs i x)) -> In m (flat_map leaves xs) \/ In m (leaves x).
Proof.
  induction xs as [|y r IH]; intros i x m H; destruct i; cbn [set_nth flat_map] in H |- *;
    try (left; exact H); apply in_app_or in H as [H|H].
  - right; exact H.
  - left. apply in_or_app. right; exact H.
  - left. apply in_or_app. left; exact H.
  - destruct (IH _ _ _ H) as [H1|H1]; [left; apply in_or_app; right; exact H1|right; exact H1].
Qed.

Lemma azero_leaves : forall t m, In m (leaves (azero t)) -> inert m.
Proof.
  induction t as [k|n k|n fs IH|t IH|t IH|k v IHk IHv| |k i] using ty_ind'; intros m Hm;
    try (cbn in Hm; destruct Hm as [Hm|[]]; subst; try exact I; destruct (is_string_kind k); exact I);
    try (cbn in Hm; contradiction).
  change (azero (Struct n fs)) with (AStruct (azeros fs)) in Hm. cbn [leaves] in Hm.
  induction IH as [|[[fn fe] ft] r Hf Hr IHr]; [contradiction|].
  cbn [azeros flat_map] in Hm. apply in_app_or in Hm as [Hm|Hm]; [exact (Hf _ Hm)|exact (IHr Hm)].
Qed.

Lemma embed_leaves : forall t v m, In m (leaves (embed t v)) -> inert m.
Proof.
  induction t as [k|n k|n fs IH|t IH|t IH|k v IHk IHv| |k i] using ty_ind'; intros v0 m Hm;
    try (destruct v0; cbn in Hm; try contradiction; destruct Hm as [Hm|[]]; subst; exact I).
  destruct v0 as [z|s|vs|p|s|mm|z]; try (cbn in Hm; destruct Hm as [Hm|[]]; subst; exact I).
  change (embed (Struct n fs) (VStruct vs)) with (AStruct (embeds fs vs)) in Hm. cbn [leaves] in Hm.
  revert vs Hm. induction IH as [|[[fn fe] ft] r Hf Hr IHr]; intros vs Hm; [contradiction|].
  destruct vs as [|x xr]; [contradiction|]. cbn [embeds flat_map] in Hm.
  apply in_app_or in Hm as [Hm|Hm]; [exact (Hf _ _ Hm)|exact (IHr _ Hm)].
Qed.

Definition from (ds ss : list mvalue) (x : aval) : Prop :=
  forall m, In m (leaves x) -> In m ds \/ In m ss \/ inert m.

Lemma shaped_leaf_strip : forall t a, is_leaf_ty t = true -> shaped t a -> leaves a = [strip a].
Proof. intros t a Hl Hs. destruct t; try discriminate Hl; destruct a; cbn in Hs; try contradiction; reflexivity. Qed.

Definition prov_node (ar : list (list mvalue)) (mp : list (list (mvalue * mvalue))) (o : options)
  (n : node) : Prop :=
  forall s d next x nx stt,
    node_ok n (aty s) -> shaped (aty s) (aval_ s) ->
    actn ar mp o n s d next = (x, nx, stt) ->
    from (leaves (aval_ d)) (leaves (aval_ s)) x.

Lemma prov_kids : forall ar mp o s1 d1 kids,
  Forall (prov_node ar mp o) kids ->
  forall cur nx v' nx' stt,
    kids_ok (aty s1) kids -> shaped (aty s1) (aval_ s1) ->
    a_copy_kids ar mp o s1 d1 kids cur nx = (v', nx', stt) ->
    from (leaves cur) (leaves (aval_ s1)) v'.
Proof.
  intros ar mp o s1 d1 kids HF. induction HF as [|k rest Hk Hrest IH];
    intros cur nx v' nx' stt Hok Hs Hrun.
  - cbn in Hrun. inversion Hrun; subst. intros m Hm; left; exact Hm.
  - destruct k as [cname si di leaf kk]. rewrite a_copy_kids_cons in Hrun.
    cbn [kids_ok] in Hok. fold (kids_ok (aty s1)) in Hok. destruct Hok as [Hk1 Hok].
    destruct (in_ignore o cname); [eapply IH; eassumption|].
    destruct (a_field s1 si) as [cs| |] eqn:Es; try (inversion Hrun; subst; intros m Hm; left; exact Hm).
    destruct (a_field (a_with_val d1 cur) di) as [cd| |] eqn:Ed;
      try (inversion Hrun; subst; intros m Hm; left; exact Hm).
    destruct (actn ar mp o (Node cname si di leaf kk) cs cd nx) as [[x nx1] st1] eqn:Ea.
    destruct (a_field_inv _ _ _ Es) as [sn [sfs [sxs [fn [fe [Hst [Hsv [Hsn Hsx]]]]]]]].
    assert (Hnode : node_ok (Node cname si di leaf kk) (aty cs)).
    { rewrite Hst in Hk1. cbn [unptr fields_of] in Hk1. rewrite Hsn in Hk1. exact Hk1. }
    assert (Hscs : shaped (aty cs) (aval_ cs)).
    { rewrite Hst, Hsv in Hs. rewrite shaped_struct in Hs. eapply shapeds_nth; eassumption. }
    destruct (a_field_inv _ _ _ Ed) as [dn [dfs [dxs [gn [ge [Hdt [Hdv [Hdn Hdx]]]]]]]].
    cbn [a_with_val aty aval_] in Hdt, Hdv. subst cur.
    pose proof (Hk _ _ _ _ _ _ Hnode Hscs Ea) as Hx.
    assert (Hcur' : from (leaves (AStruct dxs)) (leaves (aval_ s1)) (a_set_field (AStruct dxs) di x)).
    { intros m Hm. cbn [a_set_field leaves] in Hm. apply leaves_set_nth in Hm as [Hm|Hm]; [left; exact Hm|].
      destruct (Hx _ Hm) as [H1|[H1|H1]].
      - left. cbn [leaves]. eapply leaves_nth; eassumption.
      - right; left. rewrite Hsv. cbn [leaves]. eapply leaves_nth; eassumption.
      - right; right; exact H1. }
    cbv zeta in Hrun.
    destruct st1; [|inversion Hrun; subst; exact Hcur'|inversion Hrun; subst; exact Hcur'].
    pose proof (IH _ _ _ _ _ Hok Hs Hrun) as H2. intros m Hm.
    destruct (H2 _ Hm) as [H3|[H3|H3]]; [exact (Hcur' _ H3)|right; left; exact H3|right; right; exact H3].
Qed.

Lemma prov_all : forall ar mp o n, prov_node ar mp o n.
Proof.
  intros ar mp o. induction n as [name si di leaf kids IH] using node_ind'.
  intros s d next x nx stt Hok Hs Hrun. rewrite actn_unfold in Hrun.
  assert (Hid : from (leaves (aval_ d)) (leaves (aval_ s)) (aval_ d)) by (intros m Hm; left; exact Hm).
  destruct (a_src_unwrap s) as [[s1|]|e|] eqn:Es; try (inversion Hrun; subst; exact Hid).
  assert (Hs1 : shaped (aty s1) (aval_ s1) /\ forall m, In m (leaves (aval_ s1)) -> In m (leaves (aval_ s))).
  { destruct s as [t a ad ro]. unfold a_src_unwrap in Es. cbn [aty aval_ aro] in *.
    destruct t; try (inversion Es; subst; split; [exact Hs|intros m Hm; exact Hm]).
    destruct a as [m0|xs|[[adr x0]|]]; try discriminate Es. inversion Es; subst. cbn [aty aval_].
    split; [exact Hs|intros m Hm; exact Hm]. }
  destruct Hs1 as [Hs1 Hsub].
  destruct (a_dst_unwrap d next) as [[[d1 p] next1]|e|] eqn:Ed; try (inversion Hrun; subst; exact Hid).
  assert (Hd1 : (forall m, In m (leaves (aval_ d1)) -> In m (leaves (aval_ d)) \/ inert m) /\
                forall y, leaves (arewrap p y) = leaves y).
  { destruct d as [t a ad ro]. unfold a_dst_unwrap in Ed. cbn [aty aval_ aro aaddr] in *.
    destruct t; try (inversion Ed; subst; split; [intros m Hm; left; exact Hm|reflexivity]).
    destruct a as [m0|xs|[[adr x0]|]]; try discriminate Ed.
    - inversion Ed; subst. split; [intros m Hm; left; exact Hm|reflexivity].
    - destruct (a_can_set _); [|discriminate Ed]. inversion Ed; subst. cbn [aval_].
      split; [intros m Hm; right; eapply azero_leaves; exact Hm|reflexivity]. }
  destruct Hd1 as [Hd1 Hrw].
  assert (Hkeep : from (leaves (aval_ d)) (leaves (aval_ s)) (arewrap p (aval_ d1))).
  { intros m Hm. rewrite Hrw in Hm. destruct (Hd1 _ Hm) as [H|H]; [left; exact H|right; right; exact H]. }
  rewrite node_ok_unfold in Hok. pose proof (a_src_unwrap_ty _ _ Es) as Hty.
  destruct leaf.
  - destruct (a_copy_leaf ar mp o name s s1 d d1 p) as [x0 st0] eqn:El.
    inversion Hrun; subst x nx stt. unfold a_copy_leaf in El.
    destruct (negb (a_can_set d1)); [inversion El; subst; exact Hkeep|].
    destruct (find_conv o name) as [c|].
    + destruct (negb (a_can_set d)); [inversion El; subst; exact Hkeep|].
      destruct (aro s); [inversion El; subst; exact Hkeep|].
      destruct (apply_conv c (aty s) (erase_a ar mp (aty s) (aval_ s))) as [[|t r]|e|];
        try (inversion El; subst; exact Hkeep).
      destruct (negb (ty_eqb t (aty d))); [inversion El; subst; exact Hkeep|].
      inversion El; subst. intros m Hm. right; right. eapply embed_leaves; exact Hm.
    + destruct (negb (ty_eqb (aty s1) (aty d1))); [inversion El; subst; exact Hkeep|].
      destruct (is_zero _); [inversion El; subst; exact Hkeep|].
      destruct (aro s1); [inversion El; subst; exact Hkeep|].
      inversion El; subst. intros m Hm. rewrite Hrw in Hm. cbn [leaves] in Hm.
      right; left. apply Hsub. rewrite Hty in Hs1.
      rewrite (shaped_leaf_strip _ _ Hok) by (rewrite <- Hty; rewrite Hty in *; exact Hs1). exact Hm.
  - destruct (a_copy_kids ar mp o s1 d1 kids (aval_ d1) next1) as [[v' nx2] st2] eqn:Ek.
    inversion Hrun; subst x nx stt.
    assert (Hok' : kids_ok (aty s1) kids).
    { rewrite Hty. clear -Hok. induction kids as [|[cn csi cdi cl ck] r IHr]; [exact I|].
      cbn [kids_ok] in Hok |- *. destruct Hok as [H1 H2]. split; [|apply IHr; exact H2].
      assert (Hu : unptr (unptr (aty s)) = unptr (aty s)).
      { destruct (unptr (aty s)); cbn in H1; try contradiction; reflexivity. }
      rewrite Hu. exact H1. }
    pose proof (prov_kids ar mp o s1 d1 kids IH _ _ _ _ _ Hok' Hs1 Ek) as H2.
    intros m Hm. rewrite Hrw in Hm. destruct (H2 _ Hm) as [H3|[H3|H3]].
    + destruct (Hd1 _ H3) as [H|H]; [left; exact H|right; right; exact H].
    + right; left. apply Hsub. exact H3.
    + right; right; exact H3.
Qed.

(* ------------------------------------------------------------ provenance at the level of stores *)
Lemma mem_copy_to_leaves_lemma : forall st dt ps c S src da cps S' stt,
  new_reflect_copier st dt ps = COk c ->
  convs_flat (effective_options c cps) ->
  proper S dt (Some da) -> proper S st src ->
  mem_copy_to c st dt S src (Some da) cps = (S', stt) ->
  forall m, In m (leaves (load_root (ptrs S') dt (Some da))) ->
    In m (leaves (load_root (ptrs S) dt (Some da))) \/
    In m (leaves (load_root (ptrs S) st src)) \/ inert m.
Proof.
  intros st dt ps c S src da cps S' stt Hnew Hfl Hpd Hps Hrun m Hm.
  destruct (mem_copy_to_store_lemma _ _ _ _ _ _ _ _ _ _ Hnew Hfl Hpd Hrun) as [_ [_ [_ [nx Er]]]].
  unfold mem_copy_to_run in Er.
  assert (Hss : shaped (Ptr st) (load_root (ptrs S) st src)).
  { destruct src as [sa|]; [exact (proj1 (proj2 Hps))|exact I]. }
  exact (prov_all _ _ _ (c_root c)
           {| aty := Ptr st; aval_ := load_root (ptrs S) st src; aaddr := false; aro := false |}
           {| aty := Ptr dt; aval_ := load_root (ptrs S) dt (Some da); aaddr := false; aro := false |}
           _ _ _ _ (root_ok _ _ _ _ Hnew) Hss Er m Hm).
Qed.

(* ------------------------------------------------------------ Copy: a fresh destination *)
Lemma load_azero : forall P t, load P t (strip (azero t)) = azero t.
Proof.
  intros P t. pose proof (flush_load (azero t) t P (shaped_azero t)) as H.
  rewrite azero_addrs in H. specialize (H (NoDup_nil _) (fun a Ha => match Ha with end)).
  assert (E : flush (azero t) P = P).
  { clear H. assert (G : forall r P, addrs r = [] -> flush r P = P).
    { induction r as [m|xs IH| |ad x IH] using aval_ind'; intros P0 Ha; try reflexivity.
      - cbn [flush addrs] in *. revert P0. induction IH as [|y r Hy Hr IHr]; intros P0; [reflexivity|].
        cbn [flat_map] in Ha. apply app_eq_nil in Ha as [Ha1 Ha2]. cbn [fold_left]. rewrite (Hy _ Ha1).
        apply IHr. exact Ha2.
      - discriminate Ha. }
    apply G. apply azero_addrs. }
  rewrite E in H. exact H.
Qed.

Lemma mem_copy_lemma : forall st dt ps c S src cps S' da stt,
  new_reflect_copier st dt ps = COk c ->
  convs_flat (effective_options c cps) ->
  proper S st src ->
  mem_copy c st dt S src cps = (S', da, stt) ->
  da = length (ptrs S) /\
  reflect_copy c st dt (erase_at S st src) cps = (erase_at S' dt (Some da), stt) /\
  proper S' dt (Some da) /\
  (forall a, (a < length (ptrs S))%nat -> nth_opt (ptrs S') a = nth_opt (ptrs S) a) /\
  arrs S' = arrs S /\ maps S' = maps S.
Proof.
  intros st dt ps c S src cps S' da stt Hnew Hfl Hsrc Hrun. unfold mem_copy in Hrun.
  set (S1 := {| ptrs := ptrs S ++ [strip (azero dt)]; arrs := arrs S; maps := maps S |}) in *.
  destruct (mem_copy_to c st dt S1 src (Some (length (ptrs S))) cps) as [S2 st2] eqn:E.
  inversion Hrun; subst S' da stt. clear Hrun. split; [reflexivity|].
  assert (Hcell : nth_opt (ptrs S1) (length (ptrs S)) = Some (strip (azero dt)))
    by (cbn [S1 ptrs]; apply nth_opt_app_0).
  assert (Hroot : load_root (ptrs S1) dt (Some (length (ptrs S))) = APtr (Some (length (ptrs S), azero dt))).
  { unfold load_root. rewrite Hcell. rewrite load_azero. reflexivity. }
  assert (Hprop : proper S1 dt (Some (length (ptrs S)))).
  { unfold proper, cells_of. rewrite Hroot, Hcell. cbn [addrs shaped]. rewrite azero_addrs.
    split; [discriminate|]. split; [apply shaped_azero|]. split; [constructor; [intros []|constructor]|].
    intros b [Hb|[]]. subst b. cbn [S1 ptrs]. rewrite app_length. cbn. lia. }
  destruct (mem_copy_to_store_lemma _ _ _ _ _ _ _ _ _ _ Hnew Hfl Hprop E) as [Her [Hp2 _]].
  destruct (mem_copy_to_frame_lemma _ _ _ _ _ _ _ _ _ E) as [Har [Hmp [_ Hfr]]].
  assert (Hsrc1 : erase_at S1 st src = erase_at S st src).
  { destruct src as [sa|]; [|reflexivity]. destruct Hsrc as [Hex [_ [_ Hlt]]].
    assert (Hl : load_root (ptrs S1) st (Some sa) = load_root (ptrs S) st (Some sa)).
    { apply load_root_frame; [|exact Hex]. intros b Hb. cbn [S1 ptrs]. apply nth_opt_app_l. apply Hlt. exact Hb. }
    pose proof (erase_load_root S1 st (Some sa)) as E1. pose proof (erase_load_root S st (Some sa)) as E2.
    rewrite Hl in E1. cbn [S1 arrs maps] in E1. rewrite E2 in E1. injection E1 as E1. symmetry; exact E1. }
  assert (Hdst1 : erase_at S1 dt (Some (length (ptrs S))) = Some (zero_value dt)).
  { unfold erase_at. rewrite Hcell, load_azero, erase_azero. reflexivity. }
  rewrite Hsrc1, Hdst1 in Her.
  split; [exact Her|]. split; [exact Hp2|].
  split; [|split; [exact Har|exact Hmp]].
  intros a Ha. rewrite Hfr.
  - cbn [S1 ptrs]. apply nth_opt_app_l. exact Ha.
  - cbn [S1 ptrs]. rewrite app_length. cbn. lia.
  - unfold cells_of. rewrite Hroot. cbn [addrs]. rewrite azero_addrs. intros [Hb|[]]. lia.
Qed.

(* ------------------------------------------------------------ two calls on a shared copier *)
Lemma proper_after : forall c st dt S src dst cps S' stt t a,
  mem_copy_to c st dt S src dst cps = (S', stt) ->
  untouched S t a (cells_of S dt dst) -> proper S t a -> proper S' t a.
Proof.
  intros c st dt S src dst cps S' stt t a Hrun Hun Hp. destruct a as [ad|]; [|exact I].
  destruct Hp as [Hex [Hsh [Hnd Hlt]]].
  destruct (untouched_after_lemma _ _ _ _ _ _ _ _ _ _ _ Hrun Hun Hex) as [Hl [Hc [_ Hcells]]].
  destruct (mem_copy_to_frame_lemma _ _ _ _ _ _ _ _ _ Hrun) as [_ [_ [Hlen _]]].
  unfold proper. rewrite Hc, Hl.
  split; [|split; [exact Hsh|split; [exact Hnd|]]].
  - rewrite Hcells; [exact Hex|]. unfold cells_of, load_root.
    destruct (nth_opt (ptrs S) ad); [left; reflexivity|exfalso; apply Hex; reflexivity].
  - intros b Hb. specialize (Hlt _ Hb). lia.
Qed.

(* first call 1, then call 2, destinations (and the other call's source) in separate cells:
   both destinations end up with exactly what the tree-level model computes for each call
   from the INITIAL store - a statement that does not mention the order *)
Lemma two_calls_lemma :
  forall st1 dt1 ps1 c1 src1 da1 cps1 st2 dt2 ps2 c2 src2 da2 cps2 S S1 S12 stt1 stt2,
  new_reflect_copier st1 dt1 ps1 = COk c1 -> convs_flat (effective_options c1 cps1) ->
  new_reflect_copier st2 dt2 ps2 = COk c2 -> convs_flat (effective_options c2 cps2) ->
  proper S dt1 (Some da1) -> proper S dt2 (Some da2) -> proper S st2 src2 ->
  (forall b, In b (cells_of S dt1 (Some da1)) -> ~ In b (cells_of S dt2 (Some da2))) ->
  (forall b, In b (cells_of S st2 src2) -> ~ In b (cells_of S dt1 (Some da1))) ->
  mem_copy_to c1 st1 dt1 S src1 (Some da1) cps1 = (S1, stt1) ->
  mem_copy_to c2 st2 dt2 S1 src2 (Some da2) cps2 = (S12, stt2) ->
  reflect_copy_to c1 st1 dt1 (erase_at S st1 src1) (erase_at S dt1 (Some da1)) cps1
    = (erase_at S12 dt1 (Some da1), stt1) /\
  reflect_copy_to c2 st2 dt2 (erase_at S st2 src2) (erase_at S dt2 (Some da2)) cps2
    = (erase_at S12 dt2 (Some da2), stt2).
Proof.
  intros st1 dt1 ps1 c1 src1 da1 cps1 st2 dt2 ps2 c2 src2 da2 cps2 S S1 S12 stt1 stt2
         Hn1 Hf1 Hn2 Hf2 Hp1 Hp2 Hps2 Hdd Hsd H1 H2.
  destruct (mem_copy_to_store_lemma _ _ _ _ _ _ _ _ _ _ Hn1 Hf1 Hp1 H1) as [E1 [Hp1' [Hc1' _]]].
  assert (Hun2 : untouched S dt2 (Some da2) (cells_of S dt1 (Some da1))).
  { intros b Hb. split; [exact (proj2 (proj2 (proj2 Hp2)) _ Hb)|]. intros Hin. exact (Hdd _ Hin Hb). }
  assert (Huns2 : untouched S st2 src2 (cells_of S dt1 (Some da1))).
  { intros b Hb. split; [|exact (Hsd _ Hb)]. destruct src2 as [sa|]; [exact (proj2 (proj2 (proj2 Hps2)) _ Hb)|].
    cbn in Hb. contradiction. }
  assert (Hexs : match src2 with Some ad => nth_opt (ptrs S) ad <> None | None => True end).
  { destruct src2 as [sa|]; [exact (proj1 Hps2)|exact I]. }
  destruct (untouched_after_lemma _ _ _ _ _ _ _ _ _ _ _ H1 Hun2 (proj1 Hp2)) as [_ [Hcd2 [Hed2 _]]].
  destruct (untouched_after_lemma _ _ _ _ _ _ _ _ _ _ _ H1 Huns2 Hexs) as [_ [_ [Hes2 _]]].
  pose proof (proper_after _ _ _ _ _ _ _ _ _ _ _ H1 Hun2 Hp2) as Hp2'.
  destruct (mem_copy_to_store_lemma _ _ _ _ _ _ _ _ _ _ Hn2 Hf2 Hp2' H2) as [E2 _].
  rewrite Hes2, Hed2 in E2. split; [|exact E2].
  (* the second call leaves the first destination alone *)
  assert (Hun1 : untouched S1 dt1 (Some da1) (cells_of S1 dt2 (Some da2))).
  { intros b Hb. split; [exact (proj2 (proj2 (proj2 Hp1')) _ Hb)|]. rewrite Hcd2. intros Hin.
    destruct (Hc1' _ Hb) as [Hold|Hnew]; [exact (Hdd _ Hold Hin)|].
    pose proof (proj2 (proj2 (proj2 Hp2)) _ Hin). lia. }
  destruct (untouched_after_lemma _ _ _ _ _ _ _ _ _ _ _ H2 Hun1 (proj1 Hp1')) as [_ [_ [He1 _]]].
  rewrite He1. exact E1.
Qed.
