(* C06 (lock-based containers) — proofs for model/LockedModel.v:
   1. the generic "linearisation points are sound" theorem of the LinSys framework;
   2. the generic theorem for lock-bracketed objects (exclusion + linearizability under the side
      condition "mutating operations take the exclusive lock");
   3. its instances for ConcurrentPriorityQueue and ConcurrentList. *)
From Ekit Require Import Common Conc LockedModel.
From Coq Require Import Arith PeanoNat.

(* ---------- thread-table lemmas that lib/Conc.v does not have ---------- *)
Section TableLemmas.
  Variable pc : Type.
  Implicit Types l : list (tid * pc).

  Lemma lookup_remove_other t t2 l : t2 <> t -> lookup t2 (remove t l) = lookup t2 l.
  Proof.
    intros Hne. induction l as [|[t' p'] r IH]; cbn [remove lookup]; [reflexivity|].
    destruct (Nat.eqb t t') eqn:E.
    - apply Nat.eqb_eq in E. subst t'.
      destruct (Nat.eqb t2 t) eqn:E2; [apply Nat.eqb_eq in E2; congruence|reflexivity].
    - cbn [lookup]. rewrite IH. reflexivity.
  Qed.

  Lemma lookup_remove_same t l : NoDup (tids l) -> lookup t (remove t l) = None.
  Proof.
    induction l as [|[t' p'] r IH]; cbn [remove lookup tids map fst]; [reflexivity|].
    intros Hnd. inversion Hnd as [|x xs Hnotin Hrest]; subst.
    destruct (Nat.eqb t t') eqn:E.
    - apply Nat.eqb_eq in E. subst t'. apply lookup_none_not_in. exact Hnotin.
    - cbn [lookup]. rewrite E. apply IH. exact Hrest.
  Qed.

  Lemma lookup_spawn_other t t2 p l : t2 <> t -> lookup t2 (spawn t p l) = lookup t2 l.
  Proof.
    intros Hne. unfold spawn. induction l as [|[t' p'] r IH]; cbn [app lookup].
    - destruct (Nat.eqb t2 t) eqn:E; [apply Nat.eqb_eq in E; congruence|reflexivity].
    - destruct (Nat.eqb t2 t'); [reflexivity|exact IH].
  Qed.

  Lemma lookup_spawn_same t p l : lookup t l = None -> lookup t (spawn t p l) = Some p.
  Proof.
    unfold spawn. induction l as [|[t' p'] r IH]; cbn [app lookup].
    - intros _. rewrite Nat.eqb_refl. reflexivity.
    - destruct (Nat.eqb t t'); [discriminate|exact IH].
  Qed.

  Lemma nodup_update t p l : NoDup (tids l) -> NoDup (tids (update t p l)).
  Proof. rewrite tids_update. exact (fun H => H). Qed.

  Lemma count_pos_of_lookup (f : pc -> bool) t p l :
    lookup t l = Some p -> f p = true -> 1 <= count f l.
  Proof.
    induction l as [|[t' p'] r IH]; cbn [lookup count]; [discriminate|].
    destruct (Nat.eqb t t').
    - intros H Hf. injection H as ->. rewrite Hf. pose proof (count_nonneg _ f r). lia.
    - intros H Hf. specialize (IH H Hf). destruct (f p'); lia.
  Qed.

  Lemma count_zero_lookup (f : pc -> bool) t p l :
    count f l = 0 -> lookup t l = Some p -> f p = false.
  Proof.
    intros Hc Hl. destruct (f p) eqn:E; [|reflexivity].
    pose proof (count_pos_of_lookup f t p l Hl E). lia.
  Qed.

  (* two different threads satisfying f: the count is at least 2 *)
  Lemma count_two (f : pc -> bool) t t2 p p2 l :
    t <> t2 -> lookup t l = Some p -> lookup t2 l = Some p2 -> f p = true -> f p2 = true ->
    2 <= count f l.
  Proof.
    intros Hne H1 H2 F1 F2.
    pose proof (count_remove _ f t p l H1) as Hr. rewrite F1 in Hr.
    assert (H2' : lookup t2 (remove t l) = Some p2) by (rewrite lookup_remove_other; auto).
    pose proof (count_pos_of_lookup f t2 p2 _ H2' F2). lia.
  Qed.

  (* "every thread-table entry satisfies P" under the three table operations *)
  Definition all_thr (P : pc -> Prop) l : Prop := forall t p, lookup t l = Some p -> P p.

  Lemma all_thr_nil P : all_thr P [].
  Proof. intros t p H. discriminate. Qed.

  Lemma all_thr_update P t p p0 l :
    all_thr P l -> lookup t l = Some p0 -> P p -> all_thr P (update t p l).
  Proof.
    intros Ha Hl Hp t2 p2 H2. destruct (Nat.eq_dec t2 t) as [->|Hne].
    - rewrite (lookup_update_same _ t _ _ _ Hl) in H2. injection H2 as <-. exact Hp.
    - rewrite lookup_update_other in H2 by exact Hne. eapply Ha; exact H2.
  Qed.

  Lemma all_thr_remove P t l : all_thr P l -> NoDup (tids l) -> all_thr P (remove t l).
  Proof.
    intros Ha Hnd t2 p2 H2. destruct (Nat.eq_dec t2 t) as [->|Hne].
    - rewrite (lookup_remove_same t _ Hnd) in H2. discriminate.
    - rewrite lookup_remove_other in H2 by exact Hne. eapply Ha; exact H2.
  Qed.

  Lemma all_thr_spawn P t p l : all_thr P l -> lookup t l = None -> P p -> all_thr P (spawn t p l).
  Proof.
    intros Ha Hl Hp t2 p2 H2. destruct (Nat.eq_dec t2 t) as [->|Hne].
    - rewrite (lookup_spawn_same t _ _ Hl) in H2. injection H2 as <-. exact Hp.
    - rewrite lookup_spawn_other in H2 by exact Hne. eapply Ha; exact H2.
  Qed.

  Lemma all_thr_weaken (P Q : pc -> Prop) l : (forall p, P p -> Q p) -> all_thr P l -> all_thr Q l.
  Proof. intros H Ha t p Hl. apply H. eapply Ha; exact Hl. Qed.
End TableLemmas.
Arguments lookup_remove_other {pc}. Arguments lookup_remove_same {pc}.
Arguments lookup_spawn_other {pc}. Arguments lookup_spawn_same {pc}.
Arguments nodup_update {pc}. Arguments count_pos_of_lookup {pc}.
Arguments count_zero_lookup {pc}. Arguments count_two {pc}.
Arguments all_thr {pc}. Arguments all_thr_nil {pc}. Arguments all_thr_update {pc}.
Arguments all_thr_remove {pc}. Arguments all_thr_spawn {pc}. Arguments all_thr_weaken {pc}.

(* ---------- histories ---------- *)
Section HistLemmas.
  Variables (state op ret : Type) (seq_step : state -> op -> state * ret).

  Lemma lin_ops_app (h1 h2 : list (hev op ret)) : lin_ops (h1 ++ h2) = lin_ops h1 ++ lin_ops h2.
  Proof.
    induction h1 as [|e h IH]; cbn [app lin_ops]; [reflexivity|].
    destruct e; cbn [app]; rewrite IH; reflexivity.
  Qed.

  Lemma seq_legal_snoc s l m o r m' :
    seq_legal seq_step s l m -> seq_step m o = (m', r) -> seq_legal seq_step s (l ++ [(o, r)]) m'.
  Proof.
    revert s. induction l as [|[o1 r1] l IH]; intros s; cbn [app seq_legal].
    - intros -> Hs. rewrite Hs. cbn. split; reflexivity.
    - intros [Hr Hl] Hs. split; [exact Hr|]. apply IH; assumption.
  Qed.

  Lemma thread_hist_other2 t (h : list (hev op ret)) ph e1 e2 :
    thread_hist t h ph -> hev_tid e1 <> t -> hev_tid e2 <> t -> thread_hist t ((h ++ [e1]) ++ [e2]) ph.
  Proof. intros H H1 H2. apply th_other; [apply th_other; assumption|assumption]. Qed.

  (* ---- what [thread_hist] says, spelled out on the list ---- *)
  Definition not_of (t : tid) (e : hev op ret) : Prop := hev_tid e <> t.

  Lemma snoc_split {A} (h h1 h2 : list A) (e x : A) :
    h ++ [e] = h1 ++ x :: h2 ->
    (h2 = [] /\ h = h1 /\ e = x) \/ (exists h2', h2 = h2' ++ [e] /\ h = h1 ++ x :: h2').
  Proof.
    intros H.
    assert (C : h2 = [] \/ exists h2' e', h2 = h2' ++ [e']).
    { induction h2 as [|y l _] using rev_ind; [left; reflexivity|right; exists l, y; reflexivity]. }
    destruct C as [->|(h2' & e' & ->)].
    2: { right. exists h2'.
      assert (H' : h ++ [e] = (h1 ++ x :: h2') ++ [e']).
      { rewrite H, <- app_assoc. reflexivity. }
      apply app_inj_tail in H'. destruct H' as [-> ->]. split; reflexivity. }
    left. apply app_inj_tail in H. destruct H as [-> ->]. split; [reflexivity|split; reflexivity].
  Qed.
  Arguments snoc_split {A}.

  Definition phase_shape (t : tid) (h : list (hev op ret)) (ph : phase op ret) : Prop :=
    match ph with
    | PhIdle => True
    | PhCalled o => exists ha hb, h = ha ++ HCall t o :: hb /\ Forall (not_of t) hb
    | PhLinned o r => exists ha hb hc, h = ha ++ HCall t o :: hb ++ HLin t o r :: hc /\
                                       Forall (not_of t) hb /\ Forall (not_of t) hc
    end.

  Lemma thread_hist_shape t h ph : thread_hist t h ph -> phase_shape t h ph.
  Proof.
    intros H. induction H as [|h ph e Hh IH Hne|h o Hh IH|h o r Hh IH|h o r Hh IH]; cbn [phase_shape].
    - exact I.
    - destruct ph as [|o|o r]; cbn [phase_shape] in *.
      + exact I.
      + destruct IH as (ha & hb & -> & Hb). exists ha, (hb ++ [e]). split.
        * rewrite <- app_assoc. reflexivity.
        * apply Forall_app. split; [exact Hb|constructor; [exact Hne|constructor]].
      + destruct IH as (ha & hb & hc & -> & Hb & Hc). exists ha, hb, (hc ++ [e]). split.
        * rewrite <- !app_assoc. cbn. rewrite <- app_assoc. reflexivity.
        * split; [exact Hb|]. apply Forall_app. split; [exact Hc|constructor; [exact Hne|constructor]].
    - exists h, []. split; [reflexivity|constructor].
    - destruct IH as (ha & hb & -> & Hb). exists ha, hb, []. split.
      + rewrite <- app_assoc. reflexivity.
      + split; [exact Hb|constructor].
    - exact I.
  Qed.

  (* every response of t in a well-formed history is preceded by its invocation and by exactly one
     linearisation event of t in between — same operation, same result, no other event of t *)
  Theorem completed_call_shape_lemma t h ph :
    thread_hist t h ph ->
    forall h1 o r h2, h = h1 ++ HRet t o r :: h2 ->
      exists ha hb hc, h1 = ha ++ HCall t o :: hb ++ HLin t o r :: hc /\
                       Forall (not_of t) hb /\ Forall (not_of t) hc.
  Proof.
    intros H. induction H as [|h ph e Hh IH Hne|h o' Hh IH|h o' r' Hh IH|h o' r' Hh IH]; intros h1 o r h2 E.
    - destruct h1; discriminate.
    - destruct (snoc_split _ _ _ _ _ E) as [(_ & _ & ->)|(h2' & _ & ->)].
      + exfalso. apply Hne. reflexivity.
      + eapply IH. reflexivity.
    - destruct (snoc_split _ _ _ _ _ E) as [(_ & _ & Hx)|(h2' & _ & ->)]; [discriminate|].
      eapply IH. reflexivity.
    - destruct (snoc_split _ _ _ _ _ E) as [(_ & _ & Hx)|(h2' & _ & ->)]; [discriminate|].
      eapply IH. reflexivity.
    - destruct (snoc_split _ _ _ _ _ E) as [(_ & -> & Hx)|(h2' & _ & ->)].
      + injection Hx as -> ->. exact (thread_hist_shape _ _ _ Hh).
      + eapply IH. reflexivity.
  Qed.
End HistLemmas.
Arguments lin_ops_app {op ret}.
Arguments seq_legal_snoc {state op ret}.
Arguments not_of {op ret}.

(* ---------- the framework theorem ---------- *)
Section LinSysProof.
  Variables (state op ret shared pc : Type).
  Variable seq_step : state -> op -> state * ret.
  Variable entry : op -> pc.
  Variable tstep : shared -> op -> pc -> option (shared * next ret pc).
  Variable abs : shared -> state.                          (* abstraction function *)
  Variable phase_of : op -> pc -> phase op ret.            (* before / after the linearisation point *)
  Variable I : shared -> list (tid * (op * pc)) -> Prop.   (* the object's own invariant *)

  (* what one statement of thread t owes, by kind of statement *)
  Definition step_contract (s : shared) (thr : list (tid * (op * pc))) (t : tid) (o : op) (p : pc)
             (s' : shared) (nx : next ret pc) : Prop :=
    match nx with
    | NPc p' => abs s' = abs s /\ phase_of o p' = phase_of o p /\ I s' (update t (o, p') thr)
    | NLin p' r => seq_step (abs s) o = (abs s', r) /\ phase_of o p = PhCalled o /\
                   phase_of o p' = PhLinned o r /\ I s' (update t (o, p') thr)
    | NRet r => abs s' = abs s /\ phase_of o p = PhLinned o r /\ I s' (remove t thr)
    | NLinRet r => seq_step (abs s) o = (abs s', r) /\ phase_of o p = PhCalled o /\ I s' (remove t thr)
    | NPanic => False
    end.

  Hypothesis Hentry : forall o, phase_of o (entry o) = PhCalled o.
  Hypothesis Hcall : forall s thr t o,
      I s thr -> NoDup (tids thr) -> lookup t thr = None -> I s (spawn t (o, entry o) thr).
  Hypothesis Hstep : forall s thr t o p s' nx,
      I s thr -> NoDup (tids thr) -> lookup t thr = Some (o, p) -> tstep s o p = Some (s', nx) ->
      step_contract s thr t o p s' nx.

  Notation cfg := (sys_cfg op ret shared pc).
  Notation step := (sys_step entry tstep).
  Notation exec1 := (sys_exec1 entry tstep).

  Record sys_inv (s0 : shared) (c : cfg) : Prop := {
    si_obj : I (s_sh c) (s_thr c);
    si_nodup : NoDup (tids (s_thr c));
    si_legal : seq_legal seq_step (abs s0) (lin_ops (s_hist c)) (abs (s_sh c));
    si_hist : forall t, thread_hist t (s_hist c) (entry_phase phase_of (lookup t (s_thr c))) }.

  Lemma sys_inv_init s0 : I s0 [] -> sys_inv s0 (sys_init s0).
  Proof.
    intros HI. split; cbn; [exact HI|constructor|reflexivity|intros t; constructor].
  Qed.

  Lemma hist_other (c : cfg) t t2 h' thr' :
    t2 <> t -> lookup t2 thr' = lookup t2 (s_thr c) ->
    thread_hist t2 (s_hist c) (entry_phase phase_of (lookup t2 (s_thr c))) ->
    (h' = s_hist c \/ (exists e, hev_tid e = t /\ h' = s_hist c ++ [e]) \/
     (exists e1 e2, hev_tid e1 = t /\ hev_tid e2 = t /\ h' = (s_hist c ++ [e1]) ++ [e2])) ->
    thread_hist t2 h' (entry_phase phase_of (lookup t2 thr')).
  Proof.
    intros Hne Hl Hth Hh. rewrite Hl.
    destruct Hh as [->|[(e & He & ->)|(e1 & e2 & He1 & He2 & ->)]].
    - exact Hth.
    - apply th_other; [exact Hth|congruence].
    - apply thread_hist_other2; [exact Hth|congruence|congruence].
  Qed.

  Lemma sys_inv_step s0 c e c' : sys_inv s0 c -> step c e = Some c' -> sys_inv s0 c'.
  Proof.
    intros [HI Hnd Hleg Hhist] Hs. unfold sys_step in Hs.
    destruct (exec1 c e) as [[c1 ob]|] eqn:E; [|discriminate]. injection Hs as <-.
    destruct e as [t o|t]; cbn [sys_exec1] in E.
    - (* call *)
      destruct (lookup t (s_thr c)) as [x|] eqn:Hl; [discriminate|].
      injection E as <- _. split; cbn [s_sh s_thr s_hist].
      + apply Hcall; assumption.
      + apply nodup_spawn; assumption.
      + rewrite lin_ops_app. cbn [lin_ops]. rewrite app_nil_r. exact Hleg.
      + intros t2. destruct (Nat.eq_dec t2 t) as [->|Hne].
        * rewrite (lookup_spawn_same t _ _ Hl). cbn [entry_phase]. rewrite Hentry.
          apply th_call. specialize (Hhist t). rewrite Hl in Hhist. exact Hhist.
        * eapply hist_other with (t := t); [exact Hne|apply lookup_spawn_other; exact Hne|apply Hhist|].
          right; left. eexists; split; [|reflexivity]. reflexivity.
    - (* step *)
      destruct (lookup t (s_thr c)) as [[o p]|] eqn:Hl; [|discriminate].
      destruct (tstep (s_sh c) o p) as [[s' nx]|] eqn:Ht; [|discriminate].
      pose proof (Hstep _ _ _ _ _ _ _ HI Hnd Hl Ht) as Hc.
      pose proof (Hhist t) as Hme. rewrite Hl in Hme. cbn [entry_phase] in Hme.
      destruct nx as [p'|p' r|r|r|]; cbn [step_contract] in Hc; injection E as <- _.
      + destruct Hc as (Habs & Hph & HI').
        split; cbn [s_sh s_thr s_hist].
        * exact HI'.
        * apply nodup_update; exact Hnd.
        * rewrite Habs. exact Hleg.
        * intros t2. destruct (Nat.eq_dec t2 t) as [->|Hne].
          -- rewrite (lookup_update_same _ t _ _ _ Hl). cbn [entry_phase]. rewrite Hph. exact Hme.
          -- eapply hist_other with (t := t); [exact Hne|apply lookup_update_other; exact Hne|apply Hhist|].
             left; reflexivity.
      + destruct Hc as (Hseq & Hph & Hph' & HI').
        split; cbn [s_sh s_thr s_hist].
        * exact HI'.
        * apply nodup_update; exact Hnd.
        * rewrite lin_ops_app. cbn [lin_ops]. eapply seq_legal_snoc; eassumption.
        * intros t2. destruct (Nat.eq_dec t2 t) as [->|Hne].
          -- rewrite (lookup_update_same _ t _ _ _ Hl). cbn [entry_phase]. rewrite Hph'.
             apply th_lin. rewrite <- Hph. exact Hme.
          -- eapply hist_other with (t := t); [exact Hne|apply lookup_update_other; exact Hne|apply Hhist|].
             right; left. eexists; split; [|reflexivity]. reflexivity.
      + destruct Hc as (Habs & Hph & HI').
        split; cbn [s_sh s_thr s_hist].
        * exact HI'.
        * apply nodup_remove; exact Hnd.
        * rewrite lin_ops_app. cbn [lin_ops]. rewrite app_nil_r. rewrite Habs. exact Hleg.
        * intros t2. destruct (Nat.eq_dec t2 t) as [->|Hne].
          -- rewrite (lookup_remove_same t _ Hnd). cbn [entry_phase].
             apply th_ret. rewrite <- Hph. exact Hme.
          -- eapply hist_other with (t := t); [exact Hne|apply lookup_remove_other; exact Hne|apply Hhist|].
             right; left. eexists; split; [|reflexivity]. reflexivity.
      + destruct Hc as (Hseq & Hph & HI').
        split; cbn [s_sh s_thr s_hist].
        * exact HI'.
        * apply nodup_remove; exact Hnd.
        * rewrite !lin_ops_app. cbn [lin_ops]. rewrite app_nil_r.
          eapply seq_legal_snoc; eassumption.
        * intros t2. destruct (Nat.eq_dec t2 t) as [->|Hne].
          -- rewrite (lookup_remove_same t _ Hnd). cbn [entry_phase].
             apply th_ret. apply th_lin. rewrite <- Hph. exact Hme.
          -- eapply hist_other with (t := t); [exact Hne|apply lookup_remove_other; exact Hne|apply Hhist|].
             right; right. do 2 eexists; split; [|split; [|reflexivity]]; reflexivity.
      + destruct Hc.
  Qed.

  Theorem sys_inv_reachable s0 : I s0 [] ->
    forall evs c, exec step (sys_init s0) evs = Some c -> sys_inv s0 c.
  Proof.
    intros HI evs c He.
    eapply (invariant_reachable _ _ step (sys_inv s0)); [|apply sys_inv_init; exact HI|exact He].
    intros c1 e c2 H1 H2. eapply sys_inv_step; eassumption.
  Qed.

  (* no statement of a reachable configuration panics *)
  Theorem sys_no_panic s0 : I s0 [] ->
    forall evs c t c' ob, exec step (sys_init s0) evs = Some c ->
      exec1 c (EStep t) = Some (c', ob) -> ob <> OPanic.
  Proof.
    intros HI evs c t c' ob He E. destruct (sys_inv_reachable s0 HI evs c He) as [HIc Hnd _ _].
    cbn [sys_exec1] in E.
    destruct (lookup t (s_thr c)) as [[o p]|] eqn:Hl; [|discriminate].
    destruct (tstep (s_sh c) o p) as [[s' nx]|] eqn:Ht; [|discriminate].
    pose proof (Hstep _ _ _ _ _ _ _ HIc Hnd Hl Ht) as Hc.
    destruct nx; cbn [step_contract] in Hc; injection E as _ <-; try discriminate. destruct Hc.
  Qed.

  (* the abstract state moves only at linearisation steps, and then by the specification *)
  Theorem sys_step_abs s0 : I s0 [] ->
    forall evs c e c', exec step (sys_init s0) evs = Some c -> step c e = Some c' ->
      (abs (s_sh c') = abs (s_sh c) /\ lin_ops (s_hist c') = lin_ops (s_hist c)) \/
      (exists o r, seq_step (abs (s_sh c)) o = (abs (s_sh c'), r) /\
                   lin_ops (s_hist c') = lin_ops (s_hist c) ++ [(o, r)]).
  Proof.
    intros HI evs c e c' He Hs. destruct (sys_inv_reachable s0 HI evs c He) as [HIc Hnd _ _].
    unfold sys_step in Hs. destruct (exec1 c e) as [[c1 ob]|] eqn:E; [|discriminate]. injection Hs as <-.
    destruct e as [t o|t]; cbn [sys_exec1] in E.
    - destruct (lookup t (s_thr c)); [discriminate|]. injection E as <- _. left. cbn [s_sh s_hist].
      rewrite lin_ops_app. cbn. rewrite app_nil_r. split; reflexivity.
    - destruct (lookup t (s_thr c)) as [[o p]|] eqn:Hl; [|discriminate].
      destruct (tstep (s_sh c) o p) as [[s' nx]|] eqn:Ht; [|discriminate].
      pose proof (Hstep _ _ _ _ _ _ _ HIc Hnd Hl Ht) as Hc.
      destruct nx as [p'|p' r|r|r|]; cbn [step_contract] in Hc; injection E as <- _; cbn [s_sh s_hist].
      + left. destruct Hc as (Ha & _). split; [exact Ha|reflexivity].
      + right. destruct Hc as (Hq & _). exists o, r. split; [exact Hq|].
        rewrite lin_ops_app. reflexivity.
      + left. destruct Hc as (Ha & _). split; [exact Ha|].
        rewrite lin_ops_app. cbn. rewrite app_nil_r. reflexivity.
      + right. destruct Hc as (Hq & _). exists o, r. split; [exact Hq|].
        rewrite !lin_ops_app. cbn. rewrite app_nil_r. reflexivity.
      + destruct Hc.
  Qed.
End LinSysProof.

(* ---------- lock-bracketed objects ---------- *)
Section LockedObjProof.
  Variables (state op ret : Type).
  Variable seq_step : state -> op -> state * ret.
  Variable excl : op -> bool.
  Variable mutating : op -> bool.

  (* side condition on the CODE: every mutating method takes the exclusive lock *)
  Hypothesis Hexcl : forall o, mutating o = true -> excl o = true.
  (* the classification is right: the other operations do not change the state *)
  Hypothesis Hro : forall s o, mutating o = false -> fst (seq_step s o) = s.

  Notation sh := (lk_shared state).
  Notation pcT := (lk_pc state).
  Notation thrT := (list (tid * (op * pcT))).
  Notation in_w := (lk_in_w excl).
  Notation in_r := (lk_in_r excl).

  Definition lk_I (s : sh) (thr : thrT) : Prop :=
    count in_w thr = (if lk_w s then 1 else 0) /\
    count in_r thr = Z.of_nat (lk_r s) /\
    (lk_w s = true -> lk_r s = 0%nat) /\
    (forall t o s0, lookup t thr = Some (o, PMid s0) -> s0 = lk_st s).

  Lemma lk_Hentry : forall o : op, lk_phase (ret:=ret) o (lk_entry (state:=state) o) = PhCalled o.
  Proof. reflexivity. Qed.

  Lemma lk_Hcall (s : sh) (thr : thrT) t o :
    lk_I s thr -> NoDup (tids thr) -> lookup t thr = None -> lk_I s (spawn t (o, lk_entry o) thr).
  Proof.
    intros (Hw & Hr & Hwr & Hmid) _ Hl. unfold lk_I. rewrite !count_spawn. cbn [lk_entry lk_in_w lk_in_r].
    repeat split; try lia; try assumption.
    intros t2 o2 s2 H2. destruct (Nat.eq_dec t2 t) as [->|Hne].
    - rewrite (lookup_spawn_same t _ _ Hl) in H2. discriminate.
    - rewrite lookup_spawn_other in H2 by exact Hne. eapply Hmid; exact H2.
  Qed.

  Lemma lk_Hstep (s : sh) (thr : thrT) t o p s' nx :
    lk_I s thr -> NoDup (tids thr) -> lookup t thr = Some (o, p) ->
    lk_tstep seq_step excl s o p = Some (s', nx) ->
    step_contract state op ret sh pcT seq_step lk_st lk_phase lk_I s thr t o p s' nx.
  Proof.
    intros (Hw & Hr & Hwr & Hmid) Hnd Hl Ht.
    assert (Hmid_upd : forall p', (forall s0, p' <> PMid s0) \/ p' = PMid (lk_st s) ->
              forall st', st' = lk_st s ->
              forall t2 o2 s2, lookup t2 (update t (o, p') thr) = Some (o2, PMid s2) -> s2 = st').
    { intros p' Hp' st' -> t2 o2 s2 H2. destruct (Nat.eq_dec t2 t) as [->|Hne].
      - rewrite (lookup_update_same _ t _ _ _ Hl) in H2. injection H2 as <- H2.
        destruct Hp' as [Hp'|Hp']; [exfalso; eapply Hp'; exact H2|congruence].
      - rewrite lookup_update_other in H2 by exact Hne. eapply Hmid; exact H2. }
    destruct p as [| | |s0]; cbn [lk_tstep] in Ht.
    - (* PLock *)
      destruct (excl o) eqn:Ex.
      + destruct (lk_w s || negb (Nat.eqb (lk_r s) 0)) eqn:Eb; [discriminate|].
        apply orb_false_iff in Eb. destruct Eb as [Ew Er].
        apply negb_false_iff, Nat.eqb_eq in Er.
        injection Ht as <- <-. cbn [step_contract lk_st lk_phase]. split; [reflexivity|split; [reflexivity|]].
        unfold lk_I. cbn [lk_w lk_r lk_st].
        rewrite (count_update _ in_w t _ _ _ Hl), (count_update _ in_r t _ _ _ Hl).
        cbn [lk_in_w lk_in_r]. rewrite Ex. cbn [negb]. rewrite Ew in Hw.
        split; [lia|split; [lia|split]].
        * intros _. exact Er.
        * apply Hmid_upd; [left; intros s0; discriminate|reflexivity].
      + destruct (lk_w s) eqn:Ew; [discriminate|].
        injection Ht as <- <-. cbn [step_contract lk_st lk_phase]. split; [reflexivity|split; [reflexivity|]].
        unfold lk_I. cbn [lk_w lk_r lk_st].
        rewrite (count_update _ in_w t _ _ _ Hl), (count_update _ in_r t _ _ _ Hl).
        cbn [lk_in_w lk_in_r]. rewrite Ex. cbn [negb].
        split; [lia|split; [lia|split]].
        * discriminate.
        * apply Hmid_upd; [left; intros s0; discriminate|reflexivity].
    - (* PDefer *)
      injection Ht as <- <-. cbn [step_contract lk_phase]. split; [reflexivity|split; [reflexivity|]].
      unfold lk_I. rewrite (count_update _ in_w t _ _ _ Hl), (count_update _ in_r t _ _ _ Hl).
      cbn [lk_in_w lk_in_r].
      split; [destruct (excl o); cbn [negb]; lia|split; [destruct (excl o); cbn [negb]; lia|split; [exact Hwr|]]].
      apply Hmid_upd; [left; intros s0; discriminate|reflexivity].
    - (* PBody: read the inner state *)
      injection Ht as <- <-. cbn [step_contract lk_phase]. split; [reflexivity|split; [reflexivity|]].
      unfold lk_I. rewrite (count_update _ in_w t _ _ _ Hl), (count_update _ in_r t _ _ _ Hl).
      cbn [lk_in_w lk_in_r].
      split; [destruct (excl o); cbn [negb]; lia|split; [destruct (excl o); cbn [negb]; lia|split; [exact Hwr|]]].
      apply Hmid_upd; [right; reflexivity|reflexivity].
    - (* PMid: write back, return, unlock — the linearisation point *)
      injection Ht as <- <-. cbn [step_contract lk_phase lk_st].
      pose proof (Hmid _ _ _ Hl) as Hs0. subst s0.
      split; [apply surjective_pairing|split; [reflexivity|]].
      unfold lk_I. cbn [lk_w lk_r lk_st].
      rewrite (count_remove _ in_w t _ _ Hl), (count_remove _ in_r t _ _ Hl).
      cbn [lk_in_w lk_in_r].
      assert (Hother : forall t2 o2 s2, lookup t2 (remove t thr) = Some (o2, PMid s2) ->
                 s2 = fst (seq_step (lk_st s) o)).
      { intros t2 o2 s2 H2. destruct (Nat.eq_dec t2 t) as [->|Hne].
        - rewrite (lookup_remove_same t _ Hnd) in H2. discriminate.
        - pose proof H2 as H2r. rewrite lookup_remove_other in H2 by exact Hne.
          pose proof (Hmid _ _ _ H2) as ->.
          destruct (mutating o) eqn:Em; [|symmetry; apply Hro; exact Em].
          exfalso. pose proof (Hexcl _ Em) as Ex.
          assert (Fw : in_w (o, PMid (lk_st s)) = true) by (cbn; exact Ex).
          pose proof (count_pos_of_lookup in_w t _ _ Hl Fw) as Hge.
          destruct (lk_w s) eqn:Ew; [|lia]. specialize (Hwr eq_refl).
          destruct (excl o2) eqn:Ex2.
          + assert (Fw2 : in_w (o2, PMid (lk_st s)) = true) by (cbn; exact Ex2).
            assert (Hne' : t <> t2) by congruence.
            pose proof (count_two in_w t t2 _ _ _ Hne' Hl H2 Fw Fw2). lia.
          + assert (Fr2 : in_r (o2, PMid (lk_st s)) = true) by (cbn; rewrite Ex2; reflexivity).
            pose proof (count_pos_of_lookup in_r t2 _ _ H2 Fr2). lia. }
      destruct (excl o) eqn:Ex; cbn [negb].
      + assert (Fw : in_w (o, PMid (lk_st s)) = true) by (cbn; exact Ex).
        pose proof (count_pos_of_lookup in_w t _ _ Hl Fw) as Hge.
        destruct (lk_w s) eqn:Ew; [|lia].
        split; [lia|split; [lia|split; [discriminate|exact Hother]]].
      + assert (Fr : in_r (o, PMid (lk_st s)) = true) by (cbn; rewrite Ex; reflexivity).
        pose proof (count_pos_of_lookup in_r t _ _ Hl Fr) as Hge.
        split; [lia|split; [lia|split; [|exact Hother]]].
        intros Ew. specialize (Hwr Ew). lia.
  Qed.

  Lemma lk_I_init s0 : lk_I (lk_init s0) [].
  Proof. unfold lk_I. cbn. repeat split; try lia. intros; discriminate. Qed.

  Notation cfg := (sys_cfg op ret sh pcT).

  (* exclusion, in the readable form *)
  Definition lk_exclusion (c : cfg) : Prop :=
    forall t1 t2 x1 x2, t1 <> t2 -> lookup t1 (s_thr c) = Some x1 -> lookup t2 (s_thr c) = Some x2 ->
      in_w x1 = true -> in_w x2 = false /\ in_r x2 = false.

  Theorem locked_object_linearizable_lemma s0 :
    forall evs c, exec (lk_step seq_step excl) (sys_init (lk_init s0)) evs = Some c ->
      (* at most one thread in a write-locked section, and then nobody in a read-locked one *)
      count in_w (s_thr c) <= 1 /\
      (count in_w (s_thr c) = 1 -> count in_r (s_thr c) = 0) /\
      lk_exclusion c /\
      (* lock words agree with the sections *)
      count in_w (s_thr c) = (if lk_w (s_sh c) then 1 else 0) /\
      count in_r (s_thr c) = Z.of_nat (lk_r (s_sh c)) /\
      (* linearizability, linearisation-point form *)
      seq_legal seq_step s0 (lin_ops (s_hist c)) (lk_st (s_sh c)) /\
      (forall t, thread_hist t (s_hist c) (entry_phase lk_phase (lookup t (s_thr c)))) /\
      NoDup (tids (s_thr c)).
  Proof.
    intros evs c He.
    pose proof (sys_inv_reachable state op ret sh pcT seq_step lk_entry (lk_tstep seq_step excl)
                  lk_st lk_phase lk_I lk_Hentry lk_Hcall lk_Hstep (lk_init s0) (lk_I_init s0) evs c He)
      as [(Hw & Hr & Hwr & Hmid) Hnd Hleg Hhist].
    assert (Hle : count in_w (s_thr c) <= 1) by (rewrite Hw; destruct (lk_w (s_sh c)); lia).
    assert (Himp : count in_w (s_thr c) = 1 -> count in_r (s_thr c) = 0).
    { intros H1. rewrite Hr. destruct (lk_w (s_sh c)); [rewrite Hwr by reflexivity; reflexivity|lia]. }
    assert (Hexc : lk_exclusion c).
    { intros t1 t2 x1 x2 Hne L1 L2 F1. split.
      - destruct (in_w x2) eqn:F2; [|reflexivity].
        pose proof (count_two in_w t1 t2 _ _ _ Hne L1 L2 F1 F2). lia.
      - destruct (in_r x2) eqn:F2; [|reflexivity].
        pose proof (count_pos_of_lookup in_w t1 _ _ L1 F1) as G1.
        pose proof (count_pos_of_lookup in_r t2 _ _ L2 F2) as G2.
        assert (H1 : count in_w (s_thr c) = 1) by lia. specialize (Himp H1). lia. }
    split; [exact Hle|split; [exact Himp|split; [exact Hexc|split; [exact Hw|split; [exact Hr|
      split; [exact Hleg|split; [exact Hhist|exact Hnd]]]]]]].
  Qed.

  (* every step: the inner state moves only at a linearisation step and then by seq_step *)
  Theorem locked_object_step_lemma s0 :
    forall evs c e c', exec (lk_step seq_step excl) (sys_init (lk_init s0)) evs = Some c ->
      lk_step seq_step excl c e = Some c' ->
      (lk_st (s_sh c') = lk_st (s_sh c) /\ lin_ops (s_hist c') = lin_ops (s_hist c)) \/
      (exists o r, seq_step (lk_st (s_sh c)) o = (lk_st (s_sh c'), r) /\
                   lin_ops (s_hist c') = lin_ops (s_hist c) ++ [(o, r)]).
  Proof.
    exact (sys_step_abs state op ret sh pcT seq_step lk_entry (lk_tstep seq_step excl)
             lk_st lk_phase lk_I lk_Hentry lk_Hcall lk_Hstep (lk_init s0) (lk_I_init s0)).
  Qed.

  (* read-only operations (whatever lock they hold) leave the inner state alone *)
  Theorem locked_readonly_no_change_lemma s0 :
    forall evs c t o p c', exec (lk_step seq_step excl) (sys_init (lk_init s0)) evs = Some c ->
      lookup t (s_thr c) = Some (o, p) -> mutating o = false ->
      lk_step seq_step excl c (EStep t) = Some c' -> lk_st (s_sh c') = lk_st (s_sh c).
  Proof.
    intros evs c t o p c' He Hl Hm Hs.
    pose proof (sys_inv_reachable state op ret sh pcT seq_step lk_entry (lk_tstep seq_step excl)
                  lk_st lk_phase lk_I lk_Hentry lk_Hcall lk_Hstep (lk_init s0) (lk_I_init s0) evs c He)
      as [(Hw & Hr & Hwr & Hmid) Hnd Hleg Hhist].
    unfold lk_step, sys_step in Hs. cbn [sys_exec1] in Hs. rewrite Hl in Hs.
    destruct p as [| | |s1]; cbn [lk_tstep] in Hs.
    - destruct (excl o).
      + destruct (lk_w (s_sh c) || negb (Nat.eqb (lk_r (s_sh c)) 0)); [discriminate|].
        injection Hs as <-. reflexivity.
      + destruct (lk_w (s_sh c)); [discriminate|]. injection Hs as <-. reflexivity.
    - injection Hs as <-. reflexivity.
    - injection Hs as <-. reflexivity.
    - injection Hs as <-. cbn [s_sh lk_st]. rewrite (Hmid _ _ _ Hl). apply Hro. exact Hm.
  Qed.

  Theorem locked_no_panic_lemma s0 :
    forall evs c t c' ob, exec (lk_step seq_step excl) (sys_init (lk_init s0)) evs = Some c ->
      lk_exec1 seq_step excl c (EStep t) = Some (c', ob) -> ob <> OPanic.
  Proof.
    exact (sys_no_panic state op ret sh pcT seq_step lk_entry (lk_tstep seq_step excl)
             lk_st lk_phase lk_I lk_Hentry lk_Hcall lk_Hstep (lk_init s0) (lk_I_init s0)).
  Qed.
End LockedObjProof.

(* ---------- instances ---------- *)
Lemma cpq_side_condition : forall o, pq_mutating o = true -> cpq_excl o = true.
Proof. intros o; destruct o; cbn; congruence. Qed.

Lemma pq_readonly : forall s o, pq_mutating o = false -> fst (pq_seq_step s o) = s.
Proof. intros s o; destruct o; cbn; try reflexivity; discriminate. Qed.

Lemma clist_side_condition : forall o, ls_mutating o = true -> clist_excl o = true.
Proof. intros o; destruct o; cbn; congruence. Qed.

Lemma ls_readonly : forall l o, ls_mutating o = false -> fst (ls_seq_step l o) = l.
Proof. intros l o; destruct o; cbn; try reflexivity; discriminate. Qed.

(* the specification's Dequeue/Peek answer a minimum of the multiset: the list stays ascending *)
Fixpoint ascending (l : list Z) : Prop :=
  match l with
  | [] => True
  | x :: r => (forall y, In y r -> x <= y) /\ ascending r
  end.

Lemma insert_sorted_in v l y : In y (insert_sorted v l) <-> y = v \/ In y l.
Proof.
  induction l as [|x r IH]; cbn [insert_sorted].
  - cbn. intuition.
  - destruct (v <? x); cbn [In]; [intuition|]. rewrite IH. intuition.
Qed.

Lemma insert_sorted_ascending v l : ascending l -> ascending (insert_sorted v l).
Proof.
  induction l as [|x r IH]; cbn [insert_sorted ascending].
  - intros _. split; [intros y []|exact I].
  - intros [Hx Hr]. destruct (v <? x) eqn:E.
    + apply Z.ltb_lt in E. cbn [ascending]. split; [|split; assumption].
      intros y [<-|Hy]; [lia|]. specialize (Hx y Hy). lia.
    + apply Z.ltb_ge in E. cbn [ascending]. split; [|apply IH; exact Hr].
      intros y Hy. apply insert_sorted_in in Hy. destruct Hy as [->|Hy]; [exact E|apply Hx; exact Hy].
Qed.

Lemma pq_spec_ascending s o : ascending (pq_items s) -> ascending (pq_items (fst (pq_seq_step s o))).
Proof.
  intros H. destruct o; cbn [pq_seq_step fst]; try exact H.
  - destruct ((0 <? pq_cap s) && (Z.of_nat (length (pq_items s)) =? pq_cap s)); cbn [fst pq_items]; [exact H|].
    apply insert_sorted_ascending; exact H.
  - destruct (pq_items s) as [|x r] eqn:E; cbn [fst pq_items]; [rewrite E; exact H|].
    cbn [ascending] in H. apply H.
Qed.

Lemma pq_spec_dequeue_min s x :
  ascending (pq_items s) -> snd (pq_seq_step s PQDequeue) = PRVal (Ok x) ->
  In x (pq_items s) /\ forall y, In y (pq_items s) -> x <= y.
Proof.
  cbn [pq_seq_step]. destruct (pq_items s) as [|x0 r]; cbn [snd]; [discriminate|].
  intros [Hx _] Hq. injection Hq as <-. split; [left; reflexivity|].
  intros y [<-|Hy]; [lia|apply Hx; exact Hy].
Qed.

(* ---------- the generic theorems at the two instances ---------- *)
Definition cpq_linearizable_lemma capacity items :=
  locked_object_linearizable_lemma pq_state pq_op pq_ret pq_seq_step cpq_excl pq_mutating
    cpq_side_condition pq_readonly
    {| pq_cap := pq_cap (pq_new capacity); pq_items := fold_left (fun l v => insert_sorted v l) items [] |}.

Definition clist_linearizable_lemma (items : list Z) :=
  locked_object_linearizable_lemma (list Z) ls_op ls_ret ls_seq_step clist_excl ls_mutating
    clist_side_condition ls_readonly items.

Definition cpq_readonly_no_change_lemma capacity items :=
  locked_readonly_no_change_lemma pq_state pq_op pq_ret pq_seq_step cpq_excl pq_mutating
    cpq_side_condition pq_readonly
    {| pq_cap := pq_cap (pq_new capacity); pq_items := fold_left (fun l v => insert_sorted v l) items [] |}.

Definition clist_readonly_no_change_lemma (items : list Z) :=
  locked_readonly_no_change_lemma (list Z) ls_op ls_ret ls_seq_step clist_excl ls_mutating
    clist_side_condition ls_readonly items.
