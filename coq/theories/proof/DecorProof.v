(* Proofs about model/DecorModel.v: LinkedMap and MultiMap over ANY backing that refines
   the abstract map (backing_refines): for every history all outputs equal those of the
   insertion-ordered abstract map, resp. of the abstract map of lists. *)
From Ekit Require Import Common DecorSpec DecorModel DecorSpecProof.

(* ---- the abstract operations commute with mapping the values ---- *)
Section MapValues.
  Variables (U V : Type) (eqb : Z -> Z -> bool) (f : U -> V).
  Definition vmap (e : Z * U) : Z * V := (fst e, f (snd e)).
  Lemma aget_vmap : forall k (u : list (Z * U)), aget eqb k (map vmap u) = option_map f (aget eqb k u).
  Proof.
    intros k u. induction u as [|[k0 x0] t IH]; [reflexivity|].
    cbn [map vmap fst snd aget]. destruct (eqb k0 k); [reflexivity|exact IH].
  Qed.
  Lemma adel_vmap : forall k (u : list (Z * U)), adel eqb k (map vmap u) = map vmap (adel eqb k u).
  Proof.
    intros k u. induction u as [|[k0 x0] t IH]; [reflexivity|].
    cbn [map vmap fst snd adel]. destruct (eqb k0 k); [reflexivity|]. cbn [map vmap fst snd]. rewrite IH. reflexivity.
  Qed.
  Lemma aget_some_split : forall k (u : list (Z * U)) x, aget eqb k u = Some x ->
    exists u1 k0 u2, u = u1 ++ (k0, x) :: u2 /\ foreign U eqb k u1 /\ eqb k0 k = true.
  Proof.
    intros k u. induction u as [|[k0 x0] t IH]; intros x H; [discriminate|].
    cbn [aget] in H. destruct (eqb k0 k) eqn:E.
    - inversion H; subst. exists [], k0, t. split; [reflexivity|]. split; [constructor|exact E].
    - destruct (IH x H) as [u1 [k1 [u2 [Hu [Hf He]]]]]. exists ((k0, x0) :: u1), k1, u2.
      split; [rewrite Hu; reflexivity|]. split; [constructor; [exact E|exact Hf]|exact He].
  Qed.
  Lemma aget_in_snd : forall k (u : list (Z * U)) x, aget eqb k u = Some x -> In x (map snd u).
  Proof.
    intros k u x H. destruct (aget_some_split k u x H) as [u1 [k0 [u2 [Hu _]]]]. rewrite Hu, map_app.
    apply in_or_app. right. left. reflexivity.
  Qed.
End MapValues.

Lemma Forall2_eq_eq : forall A (l1 l2 : list A), Forall2 eq l1 l2 -> l1 = l2.
Proof. intros A l1 l2 H. induction H as [|x y l l' Hxy H IH]; [reflexivity|]. subst. reflexivity. Qed.

(* ======================= LinkedMap ======================= *)
Section LinkedProof.
  Variable V : Type.
  Variable vzero : V.
  Variable M : Type.
  Variable B : backing M nat.
  Variable eqb : Z -> Z -> bool.
  Variable R : M -> list (Z * nat) -> Prop.
  Hypothesis eqb_laws : eqb_equivalence eqb.
  Hypothesis HB : backing_refines 0%nat eqb B R.

  Notation heapT := (nat -> lnode V).

  (* a :: l is a doubly linked path: next of each element is its successor, prev of each
     successor is the element *)
  Fixpoint linked (h : heapT) (a : nat) (l : list nat) : Prop :=
    match l with
    | [] => True
    | b :: t => lnext (h a) = b /\ lprev (h b) = a /\ linked h b t
    end.

  Lemma last_cons_default : forall (t : list nat) b a, last (b :: t) a = last t b.
  Proof.
    induction t as [|c t IH]; intros b a; [reflexivity|].
    change (last (b :: c :: t) a) with (last (c :: t) a). rewrite IH. symmetry. apply IH.
  Qed.
  Lemma last_in : forall (l : list nat) d, In (last l d) (d :: l).
  Proof.
    induction l as [|b t IH]; intro d; [left; reflexivity|].
    rewrite last_cons_default. right. apply IH.
  Qed.
  Lemma last_not_in_removelast : forall (l : list nat) d, l <> [] -> NoDup l -> ~ In (last l d) (removelast l).
  Proof.
    intros l d Hne Hnd Hin. rewrite (app_removelast_last d Hne) in Hnd.
    apply NoDup_remove_2 in Hnd. apply Hnd. rewrite app_nil_r. exact Hin.
  Qed.

  Lemma linked_app : forall h l1 l2 a,
    linked h a (l1 ++ l2) <-> linked h a l1 /\ linked h (last l1 a) l2.
  Proof.
    intros h l1. induction l1 as [|b t IH]; intros l2 a.
    - cbn [app linked last]. tauto.
    - rewrite last_cons_default. cbn [app linked]. rewrite IH. tauto.
  Qed.

  Lemma linked_frame : forall h h' l a,
    (forall x, In x (removelast (a :: l)) -> lnext (h' x) = lnext (h x)) ->
    (forall x, In x l -> lprev (h' x) = lprev (h x)) ->
    linked h a l -> linked h' a l.
  Proof.
    intros h h' l. induction l as [|b t IH]; intros a Hn Hp H; [exact I|].
    cbn [linked] in *. destruct H as [H1 [H2 H3]]. split; [|split].
    - rewrite Hn; [exact H1|]. change (In a (a :: removelast (b :: t))). left. reflexivity.
    - rewrite Hp; [exact H2|left; reflexivity].
    - apply IH; [|intros x Hx; apply Hp; right; exact Hx|exact H3].
      intros x Hx. apply Hn. change (In x (a :: removelast (b :: t))). right. exact Hx.
  Qed.

  Lemma upd_same : forall (h : heapT) i n, upd h i n i = n.
  Proof. intros. unfold upd. rewrite Nat.eqb_refl. reflexivity. Qed.
  Lemma upd_other : forall (h : heapT) i n j, j <> i -> upd h i n j = h j.
  Proof. intros h i n j H. unfold upd. apply Nat.eqb_neq in H. rewrite H. reflexivity. Qed.

  (* ---- the walk of Keys / Values ---- *)
  Lemma lwalk_linked : forall h ids a fuel,
    linked h a (ids ++ [TAIL]) -> ~ In TAIL ids -> (length ids <= fuel)%nat ->
    lwalk h fuel (lnext (h a)) = Some ids.
  Proof.
    intros h ids. induction ids as [|b t IH]; intros a fuel HL HT Hf.
    - cbn [app linked] in HL. destruct HL as [H1 _]. rewrite H1. destruct fuel; reflexivity.
    - cbn [app linked] in HL. destruct HL as [H1 [H2 H3]]. rewrite H1.
      destruct fuel as [|f]; [cbn [length] in Hf; lia|]. cbn [lwalk].
      assert (Hb : Nat.eqb b TAIL = false) by (apply Nat.eqb_neq; intro; apply HT; left; congruence).
      rewrite Hb. rewrite (IH b f H3); [reflexivity| |cbn [length] in Hf; lia].
      intro Hin. apply HT. right. exact Hin.
  Qed.

  Lemma bounded_nodup_length : forall (l : list nat) n,
    NoDup l -> Forall (fun i => (i < n)%nat) l -> (length l <= n)%nat.
  Proof.
    intros l n Hnd Hb. rewrite <- (seq_length n 0). apply NoDup_incl_length; [exact Hnd|].
    intros x Hx. rewrite Forall_forall in Hb. apply in_seq. specialize (Hb x Hx). lia.
  Qed.

  (* ---- the invariant: heap, order list and backing map describe the abstract map ---- *)
  Definition valof (h : heapT) (e : Z * nat) : Z * V := (fst e, lval (h (snd e))).

  Lemma path_nodup_gen : forall (ids : list nat) n,
    NoDup ids -> Forall (fun i => (2 <= i < n)%nat) ids -> NoDup (HEAD :: ids ++ [TAIL]).
  Proof.
    intros ids n Hnd Hb. rewrite Forall_forall in Hb. constructor.
    - intro Hin. apply in_app_or in Hin. destruct Hin as [Hin|[Hin|[]]].
      + specialize (Hb _ Hin). unfold HEAD in Hb. lia.
      + unfold HEAD, TAIL in Hin. discriminate.
    - eapply Permutation_NoDup; [apply Permutation_cons_append|]. constructor; [|exact Hnd].
      intro Hin. specialize (Hb _ Hin). unfold TAIL in Hb. lia.
  Qed.

  (* u = the backing map's abstract content: key class -> node id, in insertion order *)
  Record LRinv (s : lstate V M) (a : list (Z * V)) (u : list (Z * nat)) : Prop := {
    lr_back : R (lm s) u;
    lr_abs : a = map (valof (heap s)) u;
    lr_keys : Forall (fun e => lkey (heap s (snd e)) = fst e) u;
    lr_nodup : NoDup (map snd u);
    lr_bound : Forall (fun i => (2 <= i < nalloc s)%nat) (map snd u);
    lr_alloc : (2 <= nalloc s)%nat;
    lr_linked : linked (heap s) HEAD (map snd u ++ [TAIL]);
    lr_len : llen s = Z.of_nat (length u);
  }.
  Definition LR (s : lstate V M) (a : list (Z * V)) : Prop := exists u, LRinv s a u.

  Lemma aget_valof : forall h k u,
    aget eqb k (map (valof h) u) = option_map (fun i => lval (h i)) (aget eqb k u).
  Proof. intros. apply (aget_vmap nat V eqb (fun i => lval (h i))). Qed.
  Lemma adel_valof : forall h k u, adel eqb k (map (valof h) u) = map (valof h) (adel eqb k u).
  Proof. intros. apply (adel_vmap nat V eqb (fun i => lval (h i))). Qed.

  Lemma map_valof_ext : forall h h' (u : list (Z * nat)),
    (forall e, In e u -> lval (h' (snd e)) = lval (h (snd e))) -> map (valof h') u = map (valof h) u.
  Proof.
    intros h h' u H. apply map_ext_in. intros e He. unfold valof. rewrite (H e He). reflexivity.
  Qed.

  Lemma in_removelast : forall (l : list nat) x, In x (removelast l) -> In x l.
  Proof.
    intros l x H. destruct l as [|a t]; [exact H|].
    rewrite (app_removelast_last 0%nat (l := a :: t)); [|discriminate]. apply in_or_app. left. exact H.
  Qed.
  Lemma NoDup_app_disj : forall (l1 l2 : list nat) x, NoDup (l1 ++ l2) -> In x l1 -> In x l2 -> False.
  Proof.
    intros l1. induction l1 as [|a t IH]; intros l2 x Hnd H1 H2; [exact H1|].
    cbn [app] in Hnd. inversion Hnd as [|? ? Hni Hnd']; subst. destruct H1 as [H1|H1].
    - subst a. apply Hni. apply in_or_app. right. exact H2.
    - exact (IH l2 x Hnd' H1 H2).
  Qed.

  Lemma NoDup_app_r' : forall (l1 l2 : list nat), NoDup (l1 ++ l2) -> NoDup l2.
  Proof.
    intros l1. induction l1 as [|a t IH]; intros l2 H; [exact H|].
    cbn [app] in H. inversion H; subst. apply IH. assumption.
  Qed.
  Lemma NoDup_app_l' : forall (l1 l2 : list nat), NoDup (l1 ++ l2) -> NoDup l1.
  Proof.
    intros l1. induction l1 as [|a t IH]; intros l2 H; [constructor|].
    cbn [app] in H. inversion H as [|? ? Hni Hnd]; subst. constructor; [|exact (IH l2 Hnd)].
    intro Hin. apply Hni. apply in_or_app. left. exact Hin.
  Qed.

  (* Put of an existing class: only the value stored in its node changes *)
  Lemma valof_update : forall (h : heapT) id val u k, aget eqb k u = Some id -> NoDup (map snd u) ->
    map (valof (upd h id (set_val (h id) val))) u = aput eqb k val (map (valof h) u).
  Proof.
    intros h id val u. induction u as [|[k0 i0] t IH]; intros k A ND; [discriminate|].
    cbn [map snd] in ND. inversion ND as [|? ? Hni ND']; subst.
    cbn [aget] in A. cbn [map]. unfold valof at 1 3. cbn [fst snd aput]. destruct (eqb k0 k) eqn:E.
    - inversion A; subst i0. rewrite upd_same. cbn [set_val lval]. f_equal.
      apply map_valof_ext. intros e He. rewrite upd_other; [reflexivity|].
      intro Heq. apply Hni. rewrite <- Heq. apply in_map. exact He.
    - rewrite upd_other.
      + f_equal. apply IH; assumption.
      + intro Heq. apply Hni. rewrite Heq. eapply aget_in_snd. exact A.
  Qed.

  Lemma LR_init : forall m0, R m0 [] -> LR (linit vzero m0) [].
  Proof.
    intros m0 H. exists []. constructor; cbn [linit lm heap nalloc llen map app length snd]; try constructor;
      try assumption; try reflexivity; try lia.
    cbn. repeat split.
  Qed.

  Ltac upd_cases :=
    unfold upd;
    repeat match goal with |- context [Nat.eqb ?a ?b] => destruct (Nat.eqb a b) eqn:? end;
    cbn [set_prev set_next set_val lkey lval lprev lnext];
    repeat match goal with
           | H : Nat.eqb _ _ = true |- _ => apply Nat.eqb_eq in H
           | H : Nat.eqb _ _ = false |- _ => apply Nat.eqb_neq in H
           end;
    try (subst; congruence); try reflexivity.

  (* ---------------- Get ---------------- *)
  Lemma lget_spec : forall s a k, LR s a -> lget vzero B k s = afound vzero eqb k a.
  Proof.
    intros s a k [u I]. unfold lget. rewrite (br_get _ _ _ _ HB _ _ k (lr_back _ _ _ I)).
    unfold afound. rewrite (lr_abs _ _ _ I), aget_valof. destruct (aget eqb k u); reflexivity.
  Qed.

  (* ---------------- Put ---------------- *)
  Lemma lput_spec : forall s a k v ch, LR s a -> LR (lput B k v ch s) (aput eqb k v a).
  Proof.
    intros s a k v ch [u I]. destruct I as [HR Ha Hk Hnd Hb Hal HL Hlen]. unfold lput.
    rewrite (br_get _ _ _ _ HB _ _ k HR). unfold afound. destruct (aget eqb k u) as [id|] eqn:A.
    - (* existing class: lk.value = val *)
      exists u. constructor; cbn [lm heap nalloc llen]; try assumption.
      + rewrite Ha. symmetry. apply valof_update; assumption.
      + eapply Forall_impl; [|exact Hk]. cbn beta. intros e He. unfold upd.
        destruct (Nat.eqb (snd e) id) eqn:E; [|exact He]. apply Nat.eqb_eq in E. rewrite <- E. exact He.
      + eapply linked_frame; [| |exact HL]; intros x _; unfold upd;
          (destruct (Nat.eqb x id) eqn:E; [apply Nat.eqb_eq in E; subst x; reflexivity|reflexivity]).
    - (* new class: a node is allocated and linked in before the tail sentinel *)
      remember (heap s) as h eqn:Eh. remember (nalloc s) as id eqn:Eid.
      remember (lprev (h TAIL)) as p eqn:Ep.
      cbn [lprev lnext].
      remember {| lkey := k; lval := v; lprev := p; lnext := TAIL |} as lk eqn:Elk.
      remember (upd h id lk) as h1 eqn:E1. remember (upd h1 p (set_next (h1 p) id)) as h2 eqn:E2.
      remember (upd h2 TAIL (set_prev (h2 TAIL) id)) as h3 eqn:E3.
      apply linked_app in HL. destruct HL as [HL1 HL2]. cbn [linked] in HL2. destruct HL2 as [Hpn [Hpp _]].
      rewrite <- Ep in Hpp. rewrite <- Hpp in Hpn.
      pose proof (last_in (map snd u) HEAD) as Hpin. rewrite <- Hpp in Hpin.
      rewrite Forall_forall in Hb.
      assert (Hfresh : forall x, In x (HEAD :: map snd u) -> x <> id /\ x <> TAIL).
      { intros x [Hx|Hx]; [subst x; unfold HEAD, TAIL; split; [lia|discriminate]|].
        specialize (Hb x Hx). unfold TAIL. lia. }
      destruct (Hfresh p Hpin) as [Hpid HpT].
      assert (HidT : id <> TAIL) by (unfold TAIL; lia).
      assert (HK : forall x, x <> id -> lkey (h3 x) = lkey (h x) /\ lval (h3 x) = lval (h x)).
      { intros x Hx. subst h3 h2 h1. split; upd_cases. }
      assert (HP : forall x, x <> id -> x <> TAIL -> lprev (h3 x) = lprev (h x)).
      { intros x Hx Hx'. subst h3 h2 h1. upd_cases. }
      assert (HN : forall x, x <> id -> x <> p -> lnext (h3 x) = lnext (h x)).
      { intros x Hx Hx'. subst h3 h2 h1. upd_cases. }
      assert (HI : h3 id = lk) by (subst h3 h2 h1; upd_cases).
      assert (HNp : lnext (h3 p) = id) by (subst h3 h2 h1; upd_cases).
      assert (HPt : lprev (h3 TAIL) = id) by (subst h3 h2 h1; upd_cases).
      pose proof (aget_none_foreign nat eqb k u A) as Fu.
      exists (u ++ [(k, id)]). constructor; cbn [lm heap nalloc llen].
      + rewrite <- (aput_foreign nat eqb k id u Fu). apply (br_put _ _ _ _ HB). exact HR.
      + assert (Fa : foreign V eqb k a).
        { apply aget_none_foreign. rewrite Ha, aget_valof, A. reflexivity. }
        rewrite (aput_foreign V eqb k v a Fa), map_app. cbn [map]. unfold valof at 2. cbn [fst snd].
        rewrite HI, Elk. cbn [lval]. f_equal. rewrite Ha. symmetry. apply map_valof_ext.
        intros e He. apply HK. apply (Hfresh (snd e)). right. apply in_map. exact He.
      + apply Forall_app. split.
        * apply Forall_forall. intros e He. rewrite Forall_forall in Hk.
          rewrite (proj1 (HK (snd e) (proj1 (Hfresh (snd e) (or_intror (in_map snd u e He)))))).
          exact (Hk e He).
        * constructor; [|constructor]. cbn [fst snd]. rewrite HI, Elk. reflexivity.
      + rewrite map_app. cbn [map snd]. eapply Permutation_NoDup; [apply Permutation_cons_append|].
        constructor; [|exact Hnd]. intro Hin. exact (proj1 (Hfresh id (or_intror Hin)) eq_refl).
      + rewrite map_app. cbn [map snd]. apply Forall_app. split.
        * apply Forall_forall. intros x Hx. specialize (Hb x Hx). lia.
        * constructor; [lia|constructor].
      + lia.
      + rewrite map_app. cbn [map snd]. rewrite <- app_assoc. cbn [app]. apply linked_app. split.
        * eapply linked_frame; [| |exact HL1].
          -- intros x Hx. apply HN.
             ++ exact (proj1 (Hfresh x (in_removelast _ _ Hx))).
             ++ intro Hxp. subst x. rewrite Hpp in Hx. rewrite <- (last_cons_default (map snd u) HEAD HEAD) in Hx.
                revert Hx. apply last_not_in_removelast; [discriminate|].
                constructor; [|exact Hnd]. intro Hin. specialize (Hb _ Hin). unfold HEAD in Hb. lia.
          -- intros x Hx. apply HP; apply (Hfresh x); right; exact Hx.
        * rewrite <- Hpp. cbn [linked]. rewrite HNp, HPt, HI, Elk. cbn [lprev lnext]. repeat split.
      + rewrite app_length. cbn [length]. lia.
  Qed.

  (* ---------------- Delete ---------------- *)
  Lemma ldelete_spec : forall s a k, LR s a ->
    LR (fst (ldelete vzero B k s)) (adel eqb k a) /\ snd (ldelete vzero B k s) = afound vzero eqb k a.
  Proof.
    intros s a k [u I]. destruct I as [HR Ha Hk Hnd Hb Hal HL Hlen]. unfold ldelete.
    destruct (br_del _ _ _ _ HB _ _ k HR) as [D1 D2].
    destruct (mdel B k (lm s)) as [m' [id ok]] eqn:E. cbn [fst snd] in D1, D2.
    unfold afound in D2. destruct (aget eqb k u) as [i|] eqn:A.
    - (* found: unlink the node *)
      inversion D2; subst i ok; clear D2. cbn [fst snd].
      destruct (aget_some_split nat eqb k u id A) as [u1 [k0 [u2 [Hu [Fu E0]]]]].
      assert (Hadel : adel eqb k u = u1 ++ u2).
      { rewrite Hu, (adel_app_r nat eqb k _ _ Fu). cbn [adel]. rewrite E0. reflexivity. }
      rewrite Hadel in D1.
      remember (heap s) as h eqn:Eh.
      rewrite Hu, map_app in HL, Hnd, Hb. cbn [map snd] in HL, Hnd, Hb.
      rewrite <- app_assoc in HL. cbn [app] in HL.
      pose proof (path_nodup_gen _ _ Hnd Hb) as Hpath.
      rewrite <- app_assoc in Hpath. cbn [app] in Hpath.
      apply linked_app in HL. destruct HL as [HL1 HL2].
      remember (last (map snd u1) HEAD) as p eqn:Ep.
      pose proof (last_in (map snd u1) HEAD) as Hpin. rewrite <- Ep in Hpin.
      cbn [linked] in HL2. destruct HL2 as [Hpn [Hip HL3]].
      remember (map snd u2 ++ [TAIL]) as rest0 eqn:Erest.
      destruct rest0 as [|n rest]; [exfalso; eapply app_cons_not_nil; exact Erest|].
      cbn [linked] in HL3. destruct HL3 as [Hin [Hni HL4]].
      rewrite Hip, Hin.
      remember (upd h p (set_next (h p) n)) as h1 eqn:E1.
      remember (upd h1 n (set_prev (h1 n) p)) as h2 eqn:E2.
      (* NoDup ((HEAD :: ids1) ++ id :: n :: rest) *)
      change (NoDup ((HEAD :: map snd u1) ++ id :: n :: rest)) in Hpath.
      assert (Hpn' : p <> n).
      { intro Heq. apply (NoDup_app_disj _ _ p Hpath Hpin). right. left. symmetry. exact Heq. }
      assert (Hp_rest : ~ In p (n :: rest)).
      { intro Hx. apply (NoDup_app_disj _ _ p Hpath Hpin). right. exact Hx. }
      assert (Hn_pre : ~ In n (HEAD :: map snd u1)).
      { intro Hx. apply (NoDup_app_disj _ _ n Hpath Hx). right. left. reflexivity. }
      pose proof (NoDup_app_r' _ _ Hpath) as Hnd2.
      apply NoDup_cons_iff in Hnd2. destruct Hnd2 as [_ Hnd3].
      apply NoDup_cons_iff in Hnd3. destruct Hnd3 as [Hn_rest _].
      assert (HK : forall x, lkey (h2 x) = lkey (h x) /\ lval (h2 x) = lval (h x)).
      { intros x. subst h2 h1. split; upd_cases. }
      assert (HP : forall x, x <> n -> lprev (h2 x) = lprev (h x)).
      { intros x Hx. subst h2 h1. upd_cases. }
      assert (HN : forall x, x <> p -> lnext (h2 x) = lnext (h x)).
      { intros x Hx. subst h2 h1. upd_cases. }
      assert (HNp : lnext (h2 p) = n) by (subst h2 h1; upd_cases).
      assert (HPn : lprev (h2 n) = p) by (subst h2 h1; upd_cases).
      split.
      + exists (u1 ++ u2). constructor; cbn [lm heap nalloc llen].
        * exact D1.
        * rewrite Ha, adel_valof, Hadel. symmetry. apply map_valof_ext. intros e _. apply HK.
        * rewrite Hu in Hk. apply Forall_app in Hk. destruct Hk as [Hk1 Hk2].
          pose proof (Forall_inv_tail Hk2) as Hk2'.
          apply Forall_app. split.
          -- eapply Forall_impl; [|exact Hk1]. cbn beta. intros e He. rewrite (proj1 (HK (snd e))). exact He.
          -- eapply Forall_impl; [|exact Hk2']. cbn beta. intros e He. rewrite (proj1 (HK (snd e))). exact He.
        * rewrite map_app. eapply NoDup_remove_1. exact Hnd.
        * rewrite map_app. apply Forall_app in Hb. destruct Hb as [Hb1 Hb2].
          pose proof (Forall_inv_tail Hb2) as Hb2'. apply Forall_app. split; assumption.
        * exact Hal.
        * rewrite map_app, <- app_assoc, <- Erest. apply linked_app. split.
          -- eapply linked_frame; [| |exact HL1].
             ++ intros x Hx. apply HN. intro Hxp. subst x. rewrite Ep in Hx.
                rewrite <- (last_cons_default (map snd u1) HEAD HEAD) in Hx. revert Hx.
                apply last_not_in_removelast; [discriminate|]. exact (NoDup_app_l' _ _ Hpath).
             ++ intros x Hx. apply HP. intro Hxn. subst x. apply Hn_pre. right. exact Hx.
          -- rewrite <- Ep. cbn [linked]. split; [exact HNp|]. split; [exact HPn|].
             eapply linked_frame; [| |exact HL4].
             ++ intros x Hx. apply HN. intro Hxp. subst x. apply Hp_rest. apply in_removelast. exact Hx.
             ++ intros x Hx. apply HP. intro Hxn. subst x. exact (Hn_rest Hx).
        * rewrite Hlen, Hu, !app_length. cbn [length]. lia.
      + unfold afound. rewrite Ha, aget_valof, A. reflexivity.
    - (* absent *)
      inversion D2; subst id ok; clear D2. cbn [fst snd].
      pose proof (aget_none_foreign nat eqb k u A) as Fu. rewrite (adel_foreign nat eqb k u Fu) in D1.
      assert (Fa : aget eqb k a = None) by (rewrite Ha, aget_valof, A; reflexivity).
      split.
      + exists u. rewrite (adel_foreign V eqb k a (aget_none_foreign V eqb k a Fa)).
        constructor; cbn [lm heap nalloc llen]; assumption.
      + unfold afound. rewrite Fa. reflexivity.
  Qed.

  (* ---------------- Keys / Values ---------------- *)
  Lemma lorder_spec : forall s a u, LRinv s a u -> lorder s = Some (map snd u).
  Proof.
    intros s a u I. destruct I as [HR Ha Hk Hnd Hb Hal HL Hlen]. unfold lorder.
    apply lwalk_linked; [exact HL| |].
    - intro Hin. rewrite Forall_forall in Hb. specialize (Hb _ Hin). unfold TAIL in Hb. lia.
    - apply bounded_nodup_length; [exact Hnd|]. eapply Forall_impl; [|exact Hb]. cbn beta. intros i Hi. lia.
  Qed.

  Lemma linked_sim : forall s a o, LR s a ->
    LR (fst (lstep vzero B s o)) (fst (astep vzero eqb a o)) /\
    snd (lstep vzero B s o) = snd (astep vzero eqb a o).
  Proof.
    intros s a o H. destruct o as [k v ch|k|k| | |]; cbn [lstep astep].
    - cbn [fst snd]. split; [apply lput_spec; exact H|reflexivity].
    - rewrite (lget_spec s a k H). destruct (afound vzero eqb k a) as [v ok]. cbn [fst snd].
      split; [exact H|reflexivity].
    - destruct (ldelete_spec s a k H) as [H1 H2].
      destruct (ldelete vzero B k s) as [s' [v ok]]. cbn [fst snd] in *. rewrite <- H2. cbn [fst snd].
      split; [exact H1|reflexivity].
    - cbn [fst snd]. split; [exact H|]. destruct H as [u I]. rewrite (lorder_spec s a u I). f_equal.
      rewrite (lr_abs _ _ _ I), !map_map. apply map_ext_in. intros e He. cbn [valof fst].
      pose proof (lr_keys _ _ _ I) as Hk. rewrite Forall_forall in Hk. exact (Hk e He).
    - cbn [fst snd]. split; [exact H|]. destruct H as [u I]. rewrite (lorder_spec s a u I). f_equal.
      rewrite (lr_abs _ _ _ I), !map_map. reflexivity.
    - cbn [fst snd]. split; [exact H|]. destruct H as [u I]. f_equal.
      rewrite (lr_len _ _ _ I), (lr_abs _ _ _ I), map_length. reflexivity.
  Qed.

  Lemma linkedmap_refines_lemma : forall m0, R m0 [] -> forall ops,
    snd (run (lstep vzero B) (linit vzero m0) ops) = snd (run (astep vzero eqb) [] ops).
  Proof.
    intros m0 H0 ops. apply Forall2_eq_eq.
    exact (proj2 (run_sim _ _ LR eq linked_sim _ _ (LR_init m0 H0) ops)).
  Qed.
End LinkedProof.

(* ======================= MultiMap ======================= *)
Section MultiProof.
  Variable V : Type.
  Variable M : Type.
  Variable B : backing M (list V).
  Variable eqb : Z -> Z -> bool.
  Variable R : M -> list (Z * list V) -> Prop.
  Hypothesis HB : backing_refines (@nil V) eqb B R.

  Lemma copy_slice_id : forall l : list V, copy_slice l = l.
  Proof. intro l. unfold copy_slice. apply app_nil_r. Qed.

  Lemma mm_get_spec : forall m a k, R m a -> mm_get B k m = afound [] eqb k a.
  Proof.
    intros m a k H. unfold mm_get. rewrite (br_get _ _ _ _ HB _ _ k H). unfold afound.
    destruct (aget eqb k a); [rewrite copy_slice_id|]; reflexivity.
  Qed.

  Lemma multi_sim : forall m a o, R m a ->
    R (fst (mmstep B m o)) (fst (mm_spec_step eqb a o)) /\
    mmout_equiv (snd (mmstep B m o)) (snd (mm_spec_step eqb a o)).
  Proof.
    intros m a o H. destruct o as [k vs ch|k|k| | |]; cbn [mmstep mm_spec_step].
    - cbn [fst snd]. split; [|reflexivity]. unfold mm_put_many. rewrite (mm_get_spec m a k H).
      unfold afound. destruct (aget eqb k a); apply (br_put _ _ _ _ HB); exact H.
    - rewrite (mm_get_spec m a k H). destruct (afound [] eqb k a) as [v ok]. cbn [fst snd].
      split; [exact H|reflexivity].
    - destruct (br_del _ _ _ _ HB _ _ k H) as [D1 D2].
      destruct (mdel B k m) as [m' [v ok]]. cbn [fst snd] in D1, D2. rewrite <- D2. cbn [fst snd].
      split; [exact D1|reflexivity].
    - cbn [fst snd mmout_equiv]. split; [exact H|]. apply (br_keys _ _ _ _ HB). exact H.
    - cbn [fst snd mmout_equiv]. split; [exact H|].
      rewrite (map_ext _ (fun l => l) copy_slice_id), map_id. apply (br_vals _ _ _ _ HB). exact H.
    - cbn [fst snd mmout_equiv]. split; [exact H|]. f_equal. apply (br_len _ _ _ _ HB). exact H.
  Qed.

  Lemma multimap_refines_lemma : forall m0, R m0 [] -> forall ops,
    Forall2 (@mmout_equiv V) (snd (run (mmstep B) m0 ops)) (snd (run (mm_spec_step eqb) [] ops)).
  Proof.
    intros m0 H0 ops. exact (proj2 (run_sim _ _ R (@mmout_equiv V) multi_sim _ _ H0 ops)).
  Qed.
End MultiProof.

(* ======================= MapSet / builtinMap ======================= *)
(* Their models ARE the abstract set / map keyed by Z equality (Go's builtin map is trusted);
   what can be stated is that this abstract object has the set / map properties. *)
Lemma set_step_spec : forall s o,
  distinct eqb_exact s ->
  distinct eqb_exact (fst (set_step s o)) /\
  match o with
  | SAdd k => forall k', In k' (map fst (fst (set_step s o))) <-> k' = k \/ In k' (map fst s)
  | SDelete k => forall k', In k' (map fst (fst (set_step s o))) <-> k' <> k /\ In k' (map fst s)
  | SExist k => snd (set_step s o) = SRBool true <-> In k (map fst s)
  | SKeys => snd (set_step s o) = SRKeys (map fst s)
  end.
Proof.
  intros s o HD. pose proof eqb_exact_equivalence as EQ. destruct o as [k|k|k|]; cbn [set_step fst snd].
  - split; [apply distinct_aput; exact HD|]. intro k'. clear HD. induction s as [|[k0 []] t IH].
    + cbn. intuition congruence.
    + cbn [aput]. unfold eqb_exact at 1. destruct (Z.eqb_spec k0 k) as [->|Hne]; cbn [map fst In].
      * intuition congruence.
      * rewrite IH. intuition congruence.
  - split; [apply distinct_adel; exact HD|]. intro k'. induction s as [|[k0 []] t IH].
    + cbn. intuition.
    + apply distinct_cons in HD. destruct HD as [H1 H2]. cbn [adel]. unfold eqb_exact at 1.
      destruct (Z.eqb_spec k0 k) as [->|Hne]; cbn [map fst In].
      * split.
        -- intro Hin. split; [|right; exact Hin]. intro Heq. subst k'.
           apply in_map_iff in Hin. destruct Hin as [e [He1 He2]].
           rewrite Forall_forall in H1. specialize (H1 e He2). cbn [fst] in H1. unfold eqb_exact in H1.
           rewrite He1, Z.eqb_refl in H1. discriminate.
        -- intros [Hne [Heq|Hin]]; [congruence|exact Hin].
      * rewrite (IH H2). intuition congruence.
  - split; [exact HD|]. unfold afound. clear HD. induction s as [|[k0 []] t IH].
    + cbn. split; [discriminate|intros []].
    + cbn [aget map fst In]. unfold eqb_exact at 1. destruct (Z.eqb_spec k0 k) as [->|Hne].
      * cbn [snd]. split; [intros _; left; reflexivity|reflexivity].
      * rewrite IH. split; [intro H; right; exact H|intros [H|H]; [congruence|exact H]].
  - split; [exact HD|reflexivity].
Qed.

(* ======================= the hash backing discharges the assumption ======================= *)
From Ekit Require Import HashModel HashProof.

Lemma linked_hashmap_lemma : forall (V : Type) (vzero : V) code eqb,
  eqb_equivalence eqb -> hash_consistent code eqb ->
  forall ops,
    snd (run (lstep vzero (hash_backing 0%nat code eqb)) (linit vzero hinit) ops)
    = snd (run (astep vzero eqb) [] ops).
Proof.
  intros V vzero code eqb He Hc ops.
  apply (linkedmap_refines_lemma V vzero _ (hash_backing 0%nat code eqb) eqb (hR nat 0%nat code eqb)
           (hash_backing_refines_lemma nat 0%nat code eqb He Hc) hinit (hR_init nat 0%nat code eqb)).
Qed.

Lemma multi_hashmap_lemma : forall (V : Type) code eqb,
  eqb_equivalence eqb -> hash_consistent code eqb ->
  forall ops,
    Forall2 (@mmout_equiv V) (snd (run (mmstep (hash_backing [] code eqb)) hinit ops))
                             (snd (run (mm_spec_step eqb) [] ops)).
Proof.
  intros V code eqb He Hc ops.
  apply (multimap_refines_lemma V _ (hash_backing [] code eqb) eqb (hR (list V) [] code eqb)
           (hash_backing_refines_lemma (list V) [] code eqb He Hc) hinit (hR_init (list V) [] code eqb)).
Qed.
