(* PoolModel (pool.OnDemandBlockTaskPool), proofs for C12 / liveness side of C10 - B5bs: a worker that received ok = false saw the queue closed and empty (record invK2): facts after a step and step lemma *)
From Ekit Require Import Common Conc PoolModel
  PoolProofB0 PoolProofB1 PoolProofB2d PoolProofB2bd PoolProofB3d PoolProofB4d PoolProofB5d.
From Coq Require Import ZifyBool Arith PeanoNat.

Lemma wake_all_noparked (g : thr -> thr) l :
  tsum (pcf g_parked) l = 0 -> fst (wake_all g l) = l.
Proof.
  induction l as [|[t x] r IH]; cbn [wake_all tsum fst]; [reflexivity|]. intros H.
  pose proof (g_parked_nn (pc x)). pose proof (tsum_nonneg _ r (pcf_nonneg _ g_parked_nn)). cbn [pcf] in *.
  destruct (wake_all g r) as [r' w] eqn:E. cbn [fst] in IH.
  assert (Hx : is_parked x = false) by (unfold is_parked; destruct (pc x); cbn [g_parked] in *; try reflexivity; lia).
  rewrite Hx. cbn [fst]. rewrite IH by lia. reflexivity.
Qed.

Definition cflag (s : shared) : bool := s_closed s && qe s.

(* facts after a step: the ordinary frame, plus - for close(queue) - "the queue is empty or nobody is parked" *)
Definition invK2_G (l : list (tid * thr)) (th : thr) (o : pout) : Prop :=
  upd (tsum (clrecv_bad (cflag (o_sh o))) l) (clrecv_bad (cflag (o_sh o)) th)
      (oz (clrecv_bad (cflag (o_sh o))) (o_th o)) (oz (clrecv_bad (cflag (o_sh o))) (o_spawn o)) = 0 /\
  match o_wake o with
  | WkClose => qe (o_sh o) = true \/
               (tsum (pcf g_parked) l - pcf g_parked th = 0 /\ oz (pcf g_parked) (o_th o) = 0)
  | _ => True
  end.

Lemma invK2_of_G c e t th o c' obs :
  lookup t (c_thr c) = Some th -> ev_out c e th = Some o -> apply_out c t o = Some (c', obs) ->
  invK2_G (c_thr c) th o -> invK2 c'.
Proof.
  intros Hl Ho Ha [G1 G2]. destruct (apply_out_fields _ _ _ _ _ Ha) as (Hp & Hsh & Hgh & Hnt).
  constructor. rewrite Hsh. change (s_closed (o_sh o) && qe (o_sh o)) with (cflag (o_sh o)).
  set (f := clrecv_bad (cflag (o_sh o))) in *.
  pose proof (ev_out_wake c e th o Ho) as Hw.
  destruct (o_wake o) as [|r k| |] eqn:Ew.
  - rewrite (tsum_step f c t th o c' obs Hl); [exact G1|rewrite Ew; exact I|exact Ha].
  - rewrite (tsum_step f c t th o c' obs Hl); [exact G1| |exact Ha]. rewrite Ew. cbn [wake_ok].
    intros x Hx. apply is_parked_pc in Hx. subst f. cbn [clrecv_bad clrecv recv_ok pc goto set_has set_ok set_task l_ok].
    rewrite Hx. cbn. destruct (cflag (o_sh o)); destruct (l_ok x); reflexivity.
  - destruct Hw as [Hcl Hsp]. destruct G2 as [Hq|[Hnp Hth']].
    + (* queue empty: the flag is true, the classifier is constantly 0 *)
      rewrite (tsum_step f c t th o c' obs Hl); [exact G1| |exact Ha]. rewrite Ew. cbn [wake_ok].
      intros x Hx. subst f. unfold cflag. rewrite Hcl, Hq. reflexivity.
    + (* nobody is parked: the wake-up changes nothing *)
      unfold apply_out in Ha. rewrite Ew, Hsp in Ha. cbn [apply_wake] in Ha.
      set (l1 := match o_th o with Some th' => update t th' (c_thr c) | None => remove t (c_thr c) end) in *.
      assert (H1 : forall h, tsum h l1 = oz h (o_th o) + tsum h (remove t (c_thr c))).
      { intros h. subst l1. destruct (o_th o) as [th'|]; cbn [oz]; [apply (tsum_update h t th' th), Hl|lia]. }
      assert (Hz : tsum (pcf g_parked) l1 = 0).
      { rewrite H1, Hth'. rewrite (tsum_remove (pcf g_parked) t th _ Hl) in Hnp. lia. }
      pose proof (wake_all_noparked recv_closed l1 Hz) as Hid.
      destruct (wake_all recv_closed l1) as [a b]. cbn [fst] in Hid. subst a.
      injection Ha as <- _. cbn [c_thr]. rewrite H1.
      unfold upd in G1. rewrite Hsp in G1. cbn [oz] in G1. rewrite (tsum_remove f t th _ Hl) in G1. lia.
  - rewrite (tsum_step f c t th o c' obs Hl); [exact G1| |exact Ha]. rewrite Ew. cbn [wake_ok].
    intros x Hx. apply is_parked_pc in Hx. subst f. cbn [clrecv_bad clrecv recv_int pc goto l_ok].
    rewrite Hx. cbn. destruct (cflag (o_sh o)); destruct (l_ok x); reflexivity.
Qed.

Lemma tsum_clrecv_bad_true l : tsum (clrecv_bad true) l = 0.
Proof. induction l as [|[t x] r IH]; cbn [tsum clrecv_bad]; [reflexivity|rewrite IH; reflexivity]. Qed.

Ltac clC := msimp; unfold cflag, pflag; cbn [pcf clrecv_bad clrecv parked_bad qe qempty g_clp g_qb g_parked andb orb negb bz]; msimp.
Ltac clC_all := msimp_all; unfold cflag, pflag in *; cbn [pcf clrecv_bad clrecv parked_bad qe qempty g_clp g_qb g_parked andb orb negb bz] in *; msimp_all.

Lemma invK2_step c e c' : invQ c -> invK2 c -> pstep_cfg c e = Some c' -> invK2 c'.
Proof.
  intros HQ [I0] Hstep.
  destruct (step_cases _ _ _ Hstep) as [(t & op & -> & Hl & Hb & -> & _)|(th & o & obs & Hl & Ho & Ha)].
  - constructor; cbn [call_cfg c_thr c_sh]; rewrite tsum_spawn, I0; unfold enter; destruct op;
      cbn [enter0]; msimp; cbn [clrecv_bad clrecv g_clp g_qb]; break_if; reflexivity.
  - apply (invK2_of_G c e (ev_tid e) th o c' obs Hl Ho Ha).
    change (s_closed (c_sh c) && qe (c_sh c)) with (cflag (c_sh c)) in I0.
    pose proof (q_parked c HQ) as Qp.
    pose proof (tsum_ge_lookup _ _ _ _ (clrecv_bad_nn (cflag (c_sh c))) Hl) as N0.
    pose proof (tsum_ge_lookup _ _ _ _ (parked_bad_nn (pflag (c_sh c))) Hl) as N1.
    pose proof (tsum_ge_lookup (pcf g_parked) _ _ _ (pcf_nonneg _ g_parked_nn) Hl) as N2.
    clear Ha Hstep HQ.
    destruct e as [t op|t ch|t|t|t]; cbn [ev_out ev_tid] in *; [discriminate Ho| | | |];
      generalize dependent (parked_of (c_thr c)); intros pk; intros;
      generalize dependent (c_par c); intros P; intros;
      destruct (c_sh c) as [st pv q cl tot run mp gn bw br gw gr idc ictx];
      [ pstep_split Ho th ch
      | destruct (l_cancel th); [discriminate Ho|injection Ho as <-]
      | destruct (l_tm th); try discriminate Ho; injection Ho as <-; unfold is_parked in *; destruct (pc th) eqn:Hpc
      | destruct (pc th) eqn:Hpc; try discriminate Ho; injection Ho as <- ].
    all: unfold invK2_G; split.
    all: unfold_helpers; clC; rewrite ?Hpc; clC; break_if; clC; rewrite ?qempty_snoc; clC; rewrite ?upd_same; try assumption; try exact I.
    all: clC_all; unfold_helpers; clC_all; rewrite ?Hpc in *; clC_all; unfold upd in *;
              rewrite ?tsum_clrecv_bad_true, ?tsum_parked_bad_true, ?tsum_parked_bad_false in *; try lia.
    all: first [ destruct cl; clC_all; rewrite ?tsum_clrecv_bad_true, ?tsum_parked_bad_true, ?tsum_parked_bad_false in *; first [ lia | right; split; lia | left; reflexivity ]
                    | destruct q; destruct cl; destruct ictx; clC_all; rewrite ?tsum_clrecv_bad_true, ?tsum_parked_bad_true, ?tsum_parked_bad_false in *;
                      first [ lia | left; reflexivity | right; split; lia ]
                    | fail ].
Qed.
