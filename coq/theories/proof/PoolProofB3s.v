(* PoolModel (pool.OnDemandBlockTaskPool), proofs for C12 / liveness side of C10 - B3s: ... preserved by every step *)
From Ekit Require Import Common Conc PoolModel PoolProofB0 PoolProofB1 PoolProofB2d PoolProofB3d.
From Coq Require Import ZifyBool Arith PeanoNat.

Ltac clW := msimp; cbn [pcf own_is own_gt own_lt tsgo_inmp crea_bad hss_bad eqst g_own g_wk g_tsgo g_spa g_hsl g_hst g_hss g_crea pstate_eqb bz]; msimp.
Ltac clW_all := msimp_all; cbn [pcf own_is own_gt own_lt tsgo_inmp crea_bad hss_bad eqst g_own g_wk g_tsgo g_spa g_hsl g_hst g_hss g_crea pstate_eqb bz] in *; msimp_all.

Lemma own_gt_mono B B' x : B <= B' -> own_gt B' x <= own_gt B x.
Proof. intros H. cbn [own_gt]. pose proof (g_own_nn (pc x)). destruct (B' <? l_wid x) eqn:E1; destruct (B <? l_wid x) eqn:E2; lia. Qed.
Lemma own_is_le_gt X B x : B < X -> own_is X x <= own_gt B x.
Proof. intros H. cbn [own_is own_gt]. pose proof (g_own_nn (pc x)). destruct (l_wid x =? X) eqn:E1; destruct (B <? l_wid x) eqn:E2; lia. Qed.
Lemma spa_le x : pcf g_spa x <= pcf g_hsl x. Proof. cbn [pcf]. destruct (pc x); cbn; lia. Qed.
Lemma tsgo_inmp_z1 mp mp' y : zmem (l_wid y) mp' = zmem (l_wid y) mp -> tsgo_inmp mp' y = tsgo_inmp mp y.
Proof. intros H. cbn [tsgo_inmp]. rewrite H. reflexivity. Qed.
Lemma tsgo_inmp_z2 mp mp' y : g_own (pc y) = 0 -> tsgo_inmp mp' y = tsgo_inmp mp y.
Proof. cbn [tsgo_inmp]. destruct (pc y); cbn; intros H; try discriminate H; destruct (zmem (l_wid y) mp'), (zmem (l_wid y) mp); reflexivity. Qed.

Lemma invW_step c e c' : invB c -> invP c -> invW c -> pstep_cfg c e = Some c' -> invW c'.
Proof.
  intros HB HP [I0 I1 I2 I3 I4 I5 I6 I7] Hstep.
  destruct (step_cases _ _ _ Hstep) as [(t & op & -> & Hl & Hb & -> & _)|(th & o & obs & Hl & Ho & Ha)].
  - constructor; cbn [call_cfg c_thr c_sh c_gh]; intros; rewrite ?tsum_spawn; unfold enter;
      destruct op; cbn [enter0]; msimp; clW; break_if; rewrite ?Z.add_0_r; auto.
  - apply (invW_of_G c (ev_tid e) th o c' obs Hl Ha).
    pose proof (b_sl c HB) as B5. pose proof (p_hss c HP) as Phss. pose proof (p_nbegan2 c HP) as Pnb2.
    pose proof (p_hst_began c HP) as Phb. pose proof (p_crea c HP) as Pcr. pose proof (p_began1 c HP) as Pb1.
    pose proof (tsum_ge_lookup (pcf g_hst) _ _ _ (pcf_nonneg _ g_hst_nn) Hl) as Nhst.
    pose proof (tsum_ge_lookup (pcf g_spa) _ _ _ (pcf_nonneg _ g_spa_nn) Hl) as N0.
    pose proof (tsum_ge_lookup (own_gt (s_idc (c_sh c))) _ _ _ (own_gt_nn (s_idc (c_sh c))) Hl) as N1.
    pose proof (tsum_ge_lookup (own_lt 1) _ _ _ (own_lt_nn 1) Hl) as N2.
    pose proof (tsum_ge_lookup (tsgo_inmp (s_mp (c_sh c))) _ _ _ (tsgo_inmp_nn (s_mp (c_sh c))) Hl) as N4.
    pose proof (tsum_ge_lookup (own_is (l_wid th)) _ _ _ (own_is_nn (l_wid th)) Hl) as N5.
    pose proof (tsum_ge_lookup (pcf g_hsl) _ _ _ (pcf_nonneg _ g_hsl_nn) Hl) as N6.
    pose proof (tsum_ge_lookup (hss_bad (s_prev (c_sh c))) _ _ _ (hss_bad_nn _) Hl) as N7.
    pose proof (tsum_ge_lookup crea_bad _ _ _ crea_bad_nn Hl) as N8.
    pose proof (tsum_le_rest _ _ _ _ _ spa_le Hl) as Hs1.
    pose proof (tsum_le_rest _ _ _ _ _ hst_le Hl) as Hs2.
    pose proof (tsum_le _ _ (c_thr c) (fun x => own_gt_mono (s_idc (c_sh c)) (s_idc (c_sh c) + 1) x ltac:(lia))) as Hg1.
    pose proof (tsum_nonneg _ (c_thr c) (own_gt_nn (s_idc (c_sh c) + 1))) as Hg2.
    pose proof (fun X (H : s_idc (c_sh c) < X) => tsum_le _ _ (c_thr c) (fun x => own_is_le_gt X (s_idc (c_sh c)) x H)) as Hg3.
    pose proof (fun F mp' => zmem_frame F (s_mp (c_sh c)) mp' (c_thr c) (ev_tid e) th Hl) as Hzf.
    clear Ha Hstep HB HP.
    destruct e as [t op|t ch|t|t|t]; cbn [ev_out ev_tid] in *; [discriminate Ho| | | |];
      generalize dependent (parked_of (c_thr c)); intros pk; intros;
      generalize dependent (c_par c); intros P; intros;
      destruct (c_sh c) as [st pv q cl tot run mp gn bw br gw gr idc ictx];
      destruct (c_gh c) as [gsent gstarted gdone gret gacc grej gstarts gshuts gnow ggrace gbegan gshut];
      cbn [s_state s_prev s_idc s_mp g_began] in *;
      pose proof (bz_range gbegan) as Rgbegan;
      [ pstep_split Ho th ch
      | destruct (l_cancel th); [discriminate Ho|injection Ho as <-]
      | destruct (l_tm th); try discriminate Ho; injection Ho as <-; unfold is_parked in *; destruct (pc th) eqn:Hpc
      | destruct (pc th) eqn:Hpc; try discriminate Ho; injection Ho as <- ].
    all: unfold invW_G; repeat match goal with |- _ /\ _ => split end.
    all: unfold_helpers; msimp; clW; unfold_helpers; msimp; rewrite ?Hpc; clW; break_if; msimp; clW; rewrite ?upd_same; try assumption.
    all: intros; msimp_all; clW_all; unfold_helpers; msimp_all; rewrite ?Hpc in *; clW_all; unfold_helpers; msimp_all; clW_all; unfold upd in *;
      break_if; msimp_all; clW_all.
    all: try match goal with |- context [tsum (tsgo_inmp (l_wid ?x :: ?m)) _] =>
      pose proof (Hzf tsgo_inmp (l_wid x :: m) eq_refl (I5 _) (fun a Ha => zmem_cons_other a _ m Ha) (tsgo_inmp_z1 _ _) (tsgo_inmp_z2 _ _)) as Hf1 end.
    all: try match goal with |- context [tsum (tsgo_inmp (zremove (l_wid ?x) ?m)) _] =>
      pose proof (Hzf tsgo_inmp (zremove (l_wid x) m) eq_refl (I5 _) (fun a Ha => zmem_zremove_other a _ m Ha) (tsgo_inmp_z1 _ _) (tsgo_inmp_z2 _ _)) as Hf1 end.
    all: clW_all; rewrite ?Hpc, ?zmem_cons_same, ?zmem_zremove_same in *; clW_all;
              rewrite ?Hpc, ?zmem_cons_same, ?zmem_zremove_same in *; clW_all.
    all: repeat match goal with
              | H : zmem ?a ?l = ?v, H' : context [zmem ?a ?l] |- _ =>
                lazymatch H' with H => fail | _ => rewrite H in H' end
              end; clW_all.
    all: repeat match goal with
              | H : zmem ?a ?l = true |- _ =>
                lazymatch goal with _ : In a l |- _ => fail | _ => pose proof (proj1 (zmem_in a l) H) end
              end.
    all: try match goal with H : In _ (zremove _ _) |- _ => apply zremove_in in H end.
    all: try match goal with H : In ?a (_ :: _) |- _ => destruct H as [H|H]; [subst a|] end.
    all: repeat match goal with
              | H : In ?a _ |- _ => lazymatch goal with _ : 1 <= a <= _ |- _ => fail | _ => pose proof (I6 a H) end
              end.
    all: try match goal with |- context [tsum (own_is ?Y) _] => pose proof (I5 Y); pose proof (Hg3 Y) end.
    all: clear Hzf; msimp_all; clW_all; bz_cmp; bz_goal_ranges.
    all: first [ lia | break_hyp; msimp_all; clW_all; try discriminate; first [ lia | destruct pv; msimp_all; clW_all; cbn [eqst hss_bad bz pstate_eqb] in *; try discriminate; first [ lia | destruct st; cbn [eqst hss_bad bz pstate_eqb] in *; try discriminate; lia ] ] | fail ].
Qed.
