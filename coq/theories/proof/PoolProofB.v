(* PoolModel (pool.OnDemandBlockTaskPool): graceful Shutdown completes (C12) and accepted tasks are
   not stranded (liveness side of C10).  Part B.1: the notion of a STUCK configuration, the validity
   predicate, and the concrete schedules (refutations of the pinned code, non-vacuity of the
   positive theorems).  The invariant proofs are in PoolProofB2.v ... *)
From Ekit Require Import Common Conc PoolModel PoolExamples.
From Coq Require Import ZifyBool Arith PeanoNat.

(* what NewOnDemandBlockTaskPool guarantees about its result (model: [pool_new] returning CtOk) *)
Definition pvalid (P : params) : Prop :=
  1 <= i_init P /\ i_init P <= i_core P /\ i_core P <= i_max P /\ 0 <= i_cap P /\ 0 < i_rd P.

Lemma pool_new_valid initGo queueSize opts init core mx cap rn rd fa fb fc base :
  pool_new initGo queueSize opts = CtOk init core mx cap rn rd ->
  pvalid (mkPar init core mx cap rn 1 fa fb base fc) /\ init = initGo /\ cap = queueSize.
Proof.
  unfold pool_new, pvalid. cbn [i_init i_core i_max i_cap i_rd].
  destruct (initGo <? 1) eqn:E1; [discriminate|].
  destruct (queueSize <? 0) eqn:E2; [discriminate|].
  set (a := fold_left apply_opt opts (mkCt initGo initGo 0 1)).
  destruct (if negb (ct_core a =? initGo) && (ct_max a =? initGo) then (ct_core a, ct_core a)
            else if (ct_core a =? initGo) && negb (ct_max a =? initGo) then (ct_max a, ct_max a)
            else (ct_core a, ct_max a)) as [co ma] eqn:E3.
  destruct (negb ((initGo <=? co) && (co <=? ma))) eqn:E4; [discriminate|].
  destruct ((ct_rn a <? 0) || (ct_rd a <? ct_rn a)) eqn:E5; [discriminate|].
  intros H; injection H as <- <- <- <- <- <-. lia.
Qed.

(* Liveness as safety of stuck configurations.  The environment owes the pool three things: it
   eventually schedules every goroutine that can execute a statement (PStep), it eventually fires
   every armed timer (PFire), and every user task eventually returns or panics (PFinish).  A
   configuration is STUCK when none of these is possible any more.  New calls (PCall) and
   cancellations of a caller's context (PCancel) are inputs, not obligations. *)
Definition stuck (c : pcfg) : Prop :=
  (forall t ch, pexec1 c (PStep t ch) = None) /\
  (forall t, pexec1 c (PFire t) = None) /\
  (forall t, pexec1 c (PFinish t) = None).

Lemma stuck_no_threads c : c_thr c = [] -> stuck c.
Proof.
  intros H. unfold stuck, pexec1. rewrite H. cbn [lookup]. auto.
Qed.

Definition acc_all_done (c : pcfg) : Prop :=
  forall i, In i (g_acc (c_gh c)) -> In i (g_done (c_gh c)).

(* ---------- C12 on the pinned code (i_fixb = false): Shutdown hangs ---------- *)
(* initGo 1, coreGo = maxGo 2: two workers, W1 holds an idle timer; the timer fires; Shutdown closes the
   queue and returns its channel; the plain worker W2 sees the closed queue (totalGo 2 -> 1, not the
   last); W1 takes the idle-timer branch (1 -> 0) and returns WITHOUT the closing -> stopped transition.
   Nothing can run any more, the state is closing for ever and the returned channel never closes. *)
Lemma shutdown_hang_refuted_lemma :
  exists P evs c,
    pvalid P /\ i_fixa P = true /\ i_fixb P = false /\
    exec pstep_cfg (pinit P) evs = Some c /\
    g_shut (c_gh c) = true /\ g_shuts (c_gh c) = 1 /\       (* one Shutdown call succeeded and returned *)
    stuck c /\ c_thr c = [] /\
    s_state (c_sh c) = SClosing /\ s_ictx (c_sh c) = false /\
    s_total (c_sh c) = 0 /\ acc_all_done c.
Proof.
  exists wit_hang_P_pinned, (schedule wit_hang_P_pinned wit_hang), (final wit_hang_P_pinned wit_hang).
  split; [unfold pvalid; cbn; lia|]. split; [reflexivity|]. split; [reflexivity|].
  split; [vm_compute; reflexivity|]. split; [vm_compute; reflexivity|]. split; [vm_compute; reflexivity|].
  split; [apply stuck_no_threads; vm_compute; reflexivity|]. split; [vm_compute; reflexivity|].
  split; [vm_compute; reflexivity|]. split; [vm_compute; reflexivity|]. split; [vm_compute; reflexivity|].
  intros i. vm_compute. tauto.
Qed.

(* the same schedule on the code as it is now: the timer worker performs the transition; stuck, stopped,
   done closed by the graceful path, both accepted tasks done (non-vacuity of shutdown_completes and
   done_not_early: the LAST worker leaves by its idle timer) *)
Lemma shutdown_completes_example_lemma :
  exists evs c,
    exec pstep_cfg (pinit wit_hang_P) evs = Some c /\
    i_fixa wit_hang_P = true /\ i_fixb wit_hang_P = true /\ pvalid wit_hang_P /\
    g_shut (c_gh c) = true /\ stuck c /\
    s_state (c_sh c) = SStopped /\ s_ictx (c_sh c) = true /\ g_grace (c_gh c) = true /\
    g_acc (c_gh c) = [0; 1]%nat /\ g_done (c_gh c) = [0; 1]%nat /\
    (* worker 100 left through its idle timer (fired while it was parked in its select) *)
    In (PFire 100%nat) evs.
Proof.
  exists (schedule wit_hang_P wit_hang), (final wit_hang_P wit_hang).
  split; [vm_compute; reflexivity|]. split; [reflexivity|]. split; [reflexivity|].
  split; [unfold pvalid; cbn; lia|]. split; [vm_compute; reflexivity|].
  split; [apply stuck_no_threads; vm_compute; reflexivity|].
  split; [vm_compute; reflexivity|]. split; [vm_compute; reflexivity|]. split; [vm_compute; reflexivity|].
  split; [vm_compute; reflexivity|]. split; [vm_compute; reflexivity|].
  vm_compute. tauto.
Qed.

(* ---------- C10 on the pinned code (i_fixa = false): all workers leave a running pool ---------- *)
(* initGo 1, coreGo 2, maxGo 3, six tasks: W1 and W2 get idle timers and are held back before their
   select; W3 leaves by the above-core rule (no `initGo < totalGo - timeoutGroup.size()` test yet); the
   timers fire and both selects take the timer case: totalGo = 0, no goroutine left, state RUNNING,
   tasks 4 and 5 accepted, queued, never executed. *)
Lemma workers_can_vanish_refuted_lemma :
  exists P evs c,
    pvalid P /\ i_fixa P = false /\ i_fixb P = true /\
    exec pstep_cfg (pinit P) evs = Some c /\
    s_state (c_sh c) = SRunning /\ g_starts (c_gh c) = 1 /\
    stuck c /\ c_thr c = [] /\ s_total (c_sh c) = 0 /\
    map tk_id (s_q (c_sh c)) = [4; 5]%nat /\
    In 4%nat (g_acc (c_gh c)) /\ In 5%nat (g_acc (c_gh c)) /\
    ~ In 4%nat (g_done (c_gh c)) /\ ~ In 5%nat (g_done (c_gh c)) /\
    (* ... while the bookkeeping invariant of the repaired code is violated: *)
    ~ (i_init P <= s_total (c_sh c) - s_gn (c_sh c)).
Proof.
  exists wit_vanish_P_pinned, (schedule wit_vanish_P_pinned (wit_vanish_prefix ++ wit_vanish_pinned_tail)),
         (final wit_vanish_P_pinned (wit_vanish_prefix ++ wit_vanish_pinned_tail)).
  split; [unfold pvalid; cbn; lia|]. split; [reflexivity|]. split; [reflexivity|].
  split; [vm_compute; reflexivity|]. split; [vm_compute; reflexivity|]. split; [vm_compute; reflexivity|].
  split; [apply stuck_no_threads; vm_compute; reflexivity|]. split; [vm_compute; reflexivity|].
  split; [vm_compute; reflexivity|]. split; [vm_compute; reflexivity|].
  split; [vm_compute; tauto|]. split; [vm_compute; tauto|].
  split; [vm_compute; intuition discriminate|]. split; [vm_compute; intuition discriminate|].
  vm_compute. intros H. apply H. reflexivity.
Qed.

(* the same prefix on the code as it is now: W3 stays, drains the queue, W1 and W2 time out, a graceful
   Shutdown completes through W3: all six accepted tasks done (non-vacuity of the C10 liveness theorems) *)
Lemma workers_stay_example_lemma :
  exists evs c,
    exec pstep_cfg (pinit wit_vanish_P) evs = Some c /\ pvalid wit_vanish_P /\
    i_fixa wit_vanish_P = true /\ i_fixb wit_vanish_P = true /\
    stuck c /\ g_shut (c_gh c) = true /\ s_state (c_sh c) = SStopped /\ s_q (c_sh c) = [] /\
    g_acc (c_gh c) = [0; 1; 2; 3; 4; 5]%nat /\
    (forall i, In i (g_acc (c_gh c)) -> In i (g_done (c_gh c))).
Proof.
  exists (schedule wit_vanish_P (wit_vanish_prefix ++ wit_vanish_fixed_tail)),
         (final wit_vanish_P (wit_vanish_prefix ++ wit_vanish_fixed_tail)).
  split; [vm_compute; reflexivity|]. split; [unfold pvalid; cbn; lia|].
  split; [reflexivity|]. split; [reflexivity|].
  split; [apply stuck_no_threads; vm_compute; reflexivity|].
  split; [vm_compute; reflexivity|]. split; [vm_compute; reflexivity|]. split; [vm_compute; reflexivity|].
  split; [vm_compute; reflexivity|].
  intros i. vm_compute. tauto.
Qed.
