(* Proofs about RBModel (C02): the red-black shape invariant is preserved by add / delete / set,
   holds after every history, the size field equals the node count, and height / comparator
   calls are bounded by 2*log2(card+1).  Nothing here needs any law of the comparator. *)
From Ekit Require Import Common RBModel.
From Coq Require Import Arith PeanoNat.

(* ---------- the invariant ---------- *)
(* rbt n t: every root-to-leaf path of t has n black nodes, no red node has a red child *)
Inductive rbt : nat -> tree -> Prop :=
| rbt_E : rbt O E
| rbt_R n l k v r :
    rbt n l -> rbt n r -> col l = Black -> col r = Black -> rbt n (T Red l k v r)
| rbt_B n l k v r :
    rbt n l -> rbt n r -> rbt (S n) (T Black l k v r).

Definition rb_inv (t : tree) : Prop := col t = Black /\ exists n, rbt n t.

Ltac inv H := inversion H; subst; clear H.
Ltac inv_rbt :=
  repeat match goal with
  | H : rbt _ E |- _ => inv H
  | H : rbt _ (T _ _ _ _ _) |- _ => inv H
  end.
Ltac rbt_solve :=
  repeat first [assumption | reflexivity | discriminate | constructor].

Lemma rbt_blacken n t : rbt n t -> col t = Red -> rbt (S n) (setcol Black t).
Proof.
  intros Hr Hc. destruct t as [|[] l k v r]; cbn in *; try discriminate.
  inv_rbt. rbt_solve.
Qed.

(* ---------- insertion ---------- *)
Definition ins_inv (n : nat) (t : tree) (p : tree * ist) : Prop :=
  match p with
  | (t', Done) => rbt n t' /\ col t' = col t
  | (t', RedNode) => rbt n t' /\ col t' = Red /\ col t = Black
  | (t', Inf d) =>
      col t = Red /\
      exists a k v b, t' = T Red a k v b /\ rbt n a /\ rbt n b /\
        match d with
        | L => col a = Red /\ col b = Black
        | R => col a = Black /\ col b = Red
        end
  | (t', Dup) => t' = t
  end.

Lemma fix_add_left_ok n gc a k v b gk gv u d l0 :
  rbt n a -> rbt n b -> rbt n u ->
  match d with L => col a = Red /\ col b = Black | R => col a = Black /\ col b = Red end ->
  ins_inv (S n) (T Black l0 gk gv u) (fix_add_left gc (T Red a k v b) gk gv u d).
Proof.
  intros Ha Hb Hu Hd. unfold fix_add_left.
  destruct u as [|[] ul uk uv ur]; cbn [isred col setcol].
  - (* empty uncle: black *)
    destruct d; destruct Hd as [Hca Hcb].
    + destruct a as [|[] a1 ak av a2]; cbn in Hca; try discriminate.
      cbn. inv_rbt. rbt_solve.
    + destruct b as [|[] b1 bk bv b2]; cbn in Hcb; try discriminate.
      cbn. inv_rbt. rbt_solve.
  - (* red uncle: recolour *)
    cbn. inv_rbt. destruct d; destruct Hd as [Hca Hcb]; rbt_solve.
  - (* black uncle: rotate *)
    destruct d; destruct Hd as [Hca Hcb].
    + destruct a as [|[] a1 ak av a2]; cbn in Hca; try discriminate.
      cbn. inv_rbt. rbt_solve.
    + destruct b as [|[] b1 bk bv b2]; cbn in Hcb; try discriminate.
      cbn. inv_rbt. rbt_solve.
Qed.

Lemma fix_add_right_ok n gc a k v b gk gv u d r0 :
  rbt n a -> rbt n b -> rbt n u ->
  match d with L => col a = Red /\ col b = Black | R => col a = Black /\ col b = Red end ->
  ins_inv (S n) (T Black u gk gv r0) (fix_add_right gc u gk gv (T Red a k v b) d).
Proof.
  intros Ha Hb Hu Hd. unfold fix_add_right.
  destruct u as [|[] ul uk uv ur]; cbn [isred col setcol].
  - destruct d; destruct Hd as [Hca Hcb].
    + destruct a as [|[] a1 ak av a2]; cbn in Hca; try discriminate.
      cbn. inv_rbt. rbt_solve.
    + destruct b as [|[] b1 bk bv b2]; cbn in Hcb; try discriminate.
      cbn. inv_rbt. rbt_solve.
  - cbn. inv_rbt. destruct d; destruct Hd as [Hca Hcb]; rbt_solve.
  - destruct d; destruct Hd as [Hca Hcb].
    + destruct a as [|[] a1 ak av a2]; cbn in Hca; try discriminate.
      cbn. inv_rbt. rbt_solve.
    + destruct b as [|[] b1 bk bv b2]; cbn in Hcb; try discriminate.
      cbn. inv_rbt. rbt_solve.
Qed.

Section WithCmp.
  Variable cmp : Z -> Z -> Z.

  Lemma ins_ok k v t : forall n, rbt n t -> ins_inv n t (ins cmp k v t).
  Proof.
    induction t as [|c l IHl k' v' r IHr]; intros n Ht.
    - inv_rbt. cbn. rbt_solve.
    - cbn [ins].
      destruct (cmp k k' <? 0).
      + (* left *)
        assert (Hl : exists m, rbt m l /\ rbt m r /\
                  (c = Red -> col l = Black /\ col r = Black /\ m = n) /\
                  (c = Black -> n = S m)).
        { inv Ht.
          - exists n. split; [assumption|]. split; [assumption|].
            split; intro Hx; [auto | discriminate Hx].
          - eexists. split; [eassumption|]. split; [assumption|].
            split; intro Hx; [discriminate Hx | reflexivity]. }
        destruct Hl as (m & Hl & Hr & HcR & HcB).
        specialize (IHl m Hl). destruct (ins cmp k v l) as [l' st].
        destruct st as [| | |d]; cbn [ins_inv] in IHl |- *.
        * destruct IHl as [Hl' Hcl]. split; [|reflexivity].
          destruct c.
          -- destruct (HcR eq_refl) as (H1 & H2 & ->). constructor; congruence.
          -- rewrite (HcB eq_refl). constructor; assumption.
        * reflexivity.
        * destruct IHl as (Hl' & Hcl' & Hcl). destruct c.
          -- destruct (HcR eq_refl) as (H1 & H2 & ->).
             cbn [ins_inv]. split; [reflexivity|].
             exists l', k', v', r. repeat split; assumption.
          -- rewrite (HcB eq_refl). cbn [ins_inv]. split; [|reflexivity].
             constructor; assumption.
        * destruct IHl as (Hcl & a & ak & av & b & -> & Ha & Hb & Hd).
          destruct c.
          -- destruct (HcR eq_refl) as (H1 & H2 & _). congruence.
          -- rewrite (HcB eq_refl). apply fix_add_left_ok; assumption.
      + destruct (0 <? cmp k k'); [|reflexivity].
        assert (Hl : exists m, rbt m l /\ rbt m r /\
                  (c = Red -> col l = Black /\ col r = Black /\ m = n) /\
                  (c = Black -> n = S m)).
        { inv Ht.
          - exists n. split; [assumption|]. split; [assumption|].
            split; intro Hx; [auto | discriminate Hx].
          - eexists. split; [eassumption|]. split; [assumption|].
            split; intro Hx; [discriminate Hx | reflexivity]. }
        destruct Hl as (m & Hl & Hr & HcR & HcB).
        specialize (IHr m Hr). destruct (ins cmp k v r) as [r' st].
        destruct st as [| | |d]; cbn [ins_inv] in IHr |- *.
        * destruct IHr as [Hr' Hcr]. split; [|reflexivity].
          destruct c.
          -- destruct (HcR eq_refl) as (H1 & H2 & ->). constructor; congruence.
          -- rewrite (HcB eq_refl). constructor; assumption.
        * reflexivity.
        * destruct IHr as (Hr' & Hcr' & Hcr). destruct c.
          -- destruct (HcR eq_refl) as (H1 & H2 & ->).
             cbn [ins_inv]. split; [reflexivity|].
             exists l, k', v', r'. repeat split; assumption.
          -- rewrite (HcB eq_refl). cbn [ins_inv]. split; [|reflexivity].
             constructor; assumption.
        * destruct IHr as (Hcr & a & ak & av & b & -> & Ha & Hb & Hd).
          destruct c.
          -- destruct (HcR eq_refl) as (H1 & H2 & _). congruence.
          -- rewrite (HcB eq_refl). apply fix_add_right_ok; assumption.
  Qed.

  Theorem add_preserves_rb_lemma k v t t' :
    rb_inv t -> add cmp k v t = Some t' -> rb_inv t'.
  Proof.
    intros [Hc [n Ht]] Hadd. unfold add in Hadd.
    pose proof (ins_ok k v t n Ht) as Hi.
    destruct (ins cmp k v t) as [t1 st].
    destruct st as [| | |d]; cbn [ins_inv] in Hi; try discriminate; inv Hadd.
    - destruct Hi as [Hr Hc1]. rewrite Hc in Hc1.
      destruct t1 as [|[] a k1 v1 b]; cbn in *; try discriminate.
      + split; [reflexivity|]. exists n. exact Hr.
      + split; [reflexivity|]. exists n. exact Hr.
    - destruct Hi as (Hr & Hc1 & _). split.
      + destruct t1; reflexivity.
      + exists (S n). apply rbt_blacken; assumption.
    - destruct Hi as (Hc1 & _). congruence.
  Qed.
End WithCmp.

(* ---------- deletion ---------- *)
(* black height of a node of colour c over children of black height n *)
Definition bump (c : color) (n : nat) : nat := match c with Red => n | Black => S n end.

Lemma rbt_node_inv n c l k v r :
  rbt n (T c l k v r) ->
  exists m, n = bump c m /\ rbt m l /\ rbt m r /\ (c = Red -> col l = Black /\ col r = Black).
Proof.
  intro Ht. inv Ht.
  - exists n. repeat split; assumption.
  - eexists. split; [reflexivity|]. split; [eassumption|]. split; [assumption|].
    intro Hx; discriminate Hx.
Qed.

Lemma rbt_node n c l k v r :
  rbt n l -> rbt n r -> (c = Red -> col l = Black /\ col r = Black) ->
  rbt (bump c n) (T c l k v r).
Proof.
  intros Hl Hr Hc. destruct c; cbn [bump].
  - destruct (Hc eq_refl). constructor; assumption.
  - constructor; assumption.
Qed.

(* Status invariant of every (tree, deficit-flag) pair produced while deleting from a subtree
   of black height n whose root had colour c; it is stated after the consumer's [resolve]
   (a flagged red root is blackened and the flag cleared), which every consumer applies.
   flag false: the height is restored and a black root stayed black;
   flag true : the root was and is black, the height dropped by exactly one. *)
Definition dres (n : nat) (c : color) (p : tree * bool) : Prop :=
  match resolve p with
  | (t', false) => rbt n t' /\ (c = Black -> col t' = Black)
  | (t', true) => c = Black /\ col t' = Black /\ exists m, n = S m /\ rbt m t'
  end.

Ltac dres_solve :=
  unfold dres; cbn;
  repeat first [assumption | reflexivity | discriminate | econstructor | intro].

(* x (height m, one short) is the left child, its sibling is black with height S m *)
Lemma fixL_black_ok m pc x pk pv sib :
  rbt m x -> rbt (S m) sib -> col sib = Black ->
  dres (bump pc (S m)) pc (fixL_black pc x pk pv sib).
Proof.
  intros Hx Hs Hc.
  destruct sib as [|[] sl sk sv sr]; cbn in Hc; try discriminate; [inv Hs|].
  inv Hs. unfold fixL_black. cbn [left right].
  destruct sl as [|[] sl1 slk slv sl2]; destruct sr as [|[] sr1 srk srv sr2];
    destruct pc; inv_rbt; dres_solve.
Qed.

Lemma fixR_black_ok m pc x pk pv sib :
  rbt m x -> rbt (S m) sib -> col sib = Black ->
  dres (bump pc (S m)) pc (fixR_black pc sib pk pv x).
Proof.
  intros Hx Hs Hc.
  destruct sib as [|[] sl sk sv sr]; cbn in Hc; try discriminate; [inv Hs|].
  inv Hs. unfold fixR_black. cbn [left right].
  destruct sl as [|[] sl1 slk slv sl2]; destruct sr as [|[] sr1 srk srv sr2];
    destruct pc; inv_rbt; dres_solve.
Qed.

Lemma fixL_ok m pc x pk pv sib :
  rbt m x -> rbt (S m) sib -> (pc = Red -> col sib = Black) ->
  dres (bump pc (S m)) pc (fixL pc x pk pv sib).
Proof.
  intros Hx Hs Hc.
  destruct sib as [|[] sl sk sv sr]; [inv Hs| |].
  - (* red sibling: the parent is black; rotate, then the black-sibling case one level down *)
    destruct pc; [specialize (Hc eq_refl); discriminate Hc|].
    apply rbt_node_inv in Hs. destruct Hs as (m' & Hm & Hsl & Hsr & Hcs).
    cbn [bump] in Hm. subst m'. destruct (Hcs eq_refl) as [Hcl Hcr]. cbn [fixL].
    pose proof (fixL_black_ok m Red x pk pv sl Hx Hsl Hcl) as Hb.
    unfold dres in Hb. destruct (resolve (fixL_black Red x pk pv sl)) as [p3 nf].
    destruct nf.
    + destruct Hb as [Hb _]. discriminate Hb.
    + destruct Hb as [Hb _]. cbn [bump] in Hb. dres_solve.
  - cbn [fixL]. apply fixL_black_ok; [assumption|assumption|reflexivity].
Qed.

Lemma fixR_ok m pc x pk pv sib :
  rbt m x -> rbt (S m) sib -> (pc = Red -> col sib = Black) ->
  dres (bump pc (S m)) pc (fixR pc sib pk pv x).
Proof.
  intros Hx Hs Hc.
  destruct sib as [|[] sl sk sv sr]; [inv Hs| |].
  - destruct pc; [specialize (Hc eq_refl); discriminate Hc|].
    apply rbt_node_inv in Hs. destruct Hs as (m' & Hm & Hsl & Hsr & Hcs).
    cbn [bump] in Hm. subst m'. destruct (Hcs eq_refl) as [Hcl Hcr]. cbn [fixR].
    pose proof (fixR_black_ok m Red x pk pv sr Hx Hsr Hcr) as Hb.
    unfold dres in Hb. destruct (resolve (fixR_black Red sr pk pv x)) as [p3 nf].
    destruct nf.
    + destruct Hb as [Hb _]. discriminate Hb.
    + destruct Hb as [Hb _]. cbn [bump] in Hb. dres_solve.
  - cbn [fixR]. apply fixR_black_ok; [assumption|assumption|reflexivity].
Qed.

Lemma upL_ok n c l res k v r :
  rbt n r -> (c = Red -> col l = Black /\ col r = Black) -> dres n (col l) res ->
  dres (bump c n) c (upL c res k v r).
Proof.
  intros Hr Hc Hres. unfold upL. unfold dres in Hres.
  destruct (resolve res) as [l' nf]. destruct nf.
  - destruct Hres as (Hcl & Hcl' & m & -> & Hl').
    apply fixL_ok; [assumption|assumption|]. intro Hx. apply (Hc Hx).
  - destruct Hres as [Hl' Hcl']. unfold dres. cbn [resolve andb]. split.
    + apply rbt_node; [assumption|assumption|].
      intro Hx. destruct (Hc Hx) as [H1 H2]. split; [apply Hcl'; exact H1|exact H2].
    + intro Hx. rewrite Hx. reflexivity.
Qed.

Lemma upR_ok n c l res k v r :
  rbt n l -> (c = Red -> col l = Black /\ col r = Black) -> dres n (col r) res ->
  dres (bump c n) c (upR c l k v res).
Proof.
  intros Hl Hc Hres. unfold upR. unfold dres in Hres.
  destruct (resolve res) as [r' nf]. destruct nf.
  - destruct Hres as (Hcr & Hcr' & m & -> & Hr').
    apply fixR_ok; [assumption|assumption|]. intro Hx. apply (Hc Hx).
  - destruct Hres as [Hr' Hcr']. unfold dres. cbn [resolve andb]. split.
    + apply rbt_node; [assumption|assumption|].
      intro Hx. destruct (Hc Hx) as [H1 H2]. split; [exact H1|apply Hcr'; exact H2].
    + intro Hx. rewrite Hx. reflexivity.
Qed.

(* unlinking a node that has at most one child *)
Lemma remove_here_ok n c l k v r :
  rbt n (T c l k v r) -> l = E \/ r = E -> dres n c (remove_here c l r).
Proof.
  intros Ht Hlr. unfold remove_here.
  destruct l as [|lc ll lk lv lr].
  - destruct c; destruct r as [|[] rl rk rv rr]; inv_rbt; try discriminate; dres_solve.
  - destruct Hlr as [Hx|Hx]; [discriminate Hx|]. subst r.
    destruct c; destruct lc; inv_rbt; try discriminate; dres_solve.
Qed.

Definition dm_res (x : tree * (Z * Z) * bool) : tree * bool :=
  let '(t', _, nf) := x in (t', nf).

Lemma del_min_ok t : forall n, rbt n t -> dres n (col t) (dm_res (del_min t)).
Proof.
  induction t as [|c l IHl k v r _]; intros n Ht.
  - inv_rbt. dres_solve.
  - cbn [del_min col].
    destruct l as [|lc ll lk lv lr].
    + pose proof (remove_here_ok n c E k v r Ht (or_introl eq_refl)) as Hrm.
      destruct (remove_here c E r) as [t' nf]. exact Hrm.
    + apply rbt_node_inv in Ht. destruct Ht as (m & -> & Hl & Hr & Hc).
      specialize (IHl m Hl).
      destruct (del_min (T lc ll lk lv lr)) as [[l' kv] nf]. cbn [dm_res] in IHl.
      pose proof (upL_ok m c (T lc ll lk lv lr) (l', nf) k v r Hr Hc IHl) as Hup.
      destruct (upL c (l', nf) k v r) as [t' nf']. exact Hup.
Qed.

Section WithCmpDel.
  Variable cmp : Z -> Z -> Z.

  Lemma del_ok k t : forall n, rbt n t ->
    match del cmp k t with
    | None => True
    | Some (t', _, nf) => dres n (col t) (t', nf)
    end.
  Proof.
    induction t as [|c l IHl k' v' r IHr]; intros n Ht; [exact I|].
    cbn [del col].
    destruct (cmp k k' <? 0).
    - apply rbt_node_inv in Ht. destruct Ht as (m & -> & Hl & Hr & Hc).
      specialize (IHl m Hl).
      destruct (del cmp k l) as [[[l' dv] nf]|]; [|exact I].
      pose proof (upL_ok m c l (l', nf) k' v' r Hr Hc IHl) as Hup.
      destruct (upL c (l', nf) k' v' r) as [t' nf']. exact Hup.
    - destruct (0 <? cmp k k').
      + apply rbt_node_inv in Ht. destruct Ht as (m & -> & Hl & Hr & Hc).
        specialize (IHr m Hr).
        destruct (del cmp k r) as [[[r' dv] nf]|]; [|exact I].
        pose proof (upR_ok m c l (r', nf) k' v' r Hl Hc IHr) as Hup.
        destruct (upR c l k' v' (r', nf)) as [t' nf']. exact Hup.
      + destruct l as [|lc ll lk lv lr].
        * pose proof (remove_here_ok n c E k' v' r Ht (or_introl eq_refl)) as Hrm.
          destruct (remove_here c E r) as [t' nf]. exact Hrm.
        * destruct r as [|rc rl rk rv rr].
          -- pose proof (remove_here_ok n c _ k' v' E Ht (or_intror eq_refl)) as Hrm.
             destruct (remove_here c (T lc ll lk lv lr) E) as [t' nf]. exact Hrm.
          -- apply rbt_node_inv in Ht. destruct Ht as (m & -> & Hl & Hr & Hc).
             pose proof (del_min_ok (T rc rl rk rv rr) m Hr) as Hdm.
             destruct (del_min (T rc rl rk rv rr)) as [[r' [sk sv]] nf].
             cbn [dm_res] in Hdm.
             pose proof (upR_ok m c (T lc ll lk lv lr) (r', nf) sk sv (T rc rl rk rv rr)
                           Hl Hc Hdm) as Hup.
             destruct (upR c (T lc ll lk lv lr) sk sv (r', nf)) as [t' nf']. exact Hup.
  Qed.

  Theorem delete_preserves_rb_lemma k t t' v :
    rb_inv t -> delete cmp k t = Some (t', v) -> rb_inv t'.
  Proof.
    intros [Hc [n Ht]] Hdel. unfold delete in Hdel.
    pose proof (del_ok k t n Ht) as Hd.
    destruct (del cmp k t) as [[[t1 dv] nf]|]; [|discriminate Hdel].
    unfold dres in Hd. rewrite Hc in Hd.
    destruct (resolve (t1, nf)) as [t2 nf2]. cbn [fst] in Hdel. inv Hdel.
    destruct nf2.
    - destruct Hd as (_ & Hc2 & m & _ & Hr). split; [exact Hc2|]. exists m. exact Hr.
    - destruct Hd as [Hr Hc2]. split; [exact (Hc2 eq_refl)|]. exists n. exact Hr.
  Qed.

  (* ---------- set ---------- *)
  Lemma set_ok k v t : forall t' n,
    set cmp k v t = Some t' -> rbt n t -> rbt n t' /\ col t' = col t /\ card t' = card t.
  Proof.
    induction t as [|c l IHl k' v' r IHr]; intros t' n Hs Ht; [discriminate Hs|].
    cbn [set] in Hs.
    apply rbt_node_inv in Ht. destruct Ht as (m & -> & Hl & Hr & Hc).
    destruct (cmp k k' <? 0).
    - destruct (set cmp k v l) as [l'|]; [|discriminate Hs]. inv Hs.
      destruct (IHl l' m eq_refl Hl) as (Hl' & Hcl & Hcard).
      split; [|split; [reflexivity|cbn [card]; rewrite Hcard; reflexivity]].
      apply rbt_node; [assumption|assumption|]. rewrite Hcl. exact Hc.
    - destruct (0 <? cmp k k').
      + destruct (set cmp k v r) as [r'|]; [|discriminate Hs]. inv Hs.
        destruct (IHr r' m eq_refl Hr) as (Hr' & Hcr & Hcard).
        split; [|split; [reflexivity|cbn [card]; rewrite Hcard; reflexivity]].
        apply rbt_node; [assumption|assumption|]. rewrite Hcr. exact Hc.
      + inv Hs. split; [|split; reflexivity].
        apply rbt_node; assumption.
  Qed.

  Theorem set_preserves_rb_lemma k v t t' :
    rb_inv t -> set cmp k v t = Some t' -> rb_inv t'.
  Proof.
    intros [Hc [n Ht]] Hs. destruct (set_ok k v t t' n Hs Ht) as (Hr & Hc' & _).
    split; [congruence|]. exists n. exact Hr.
  Qed.
End WithCmpDel.

(* ---------- node count ---------- *)
Lemma card_setcol c t : card (setcol c t) = card t.
Proof. destruct t; reflexivity. Qed.
Lemma card_rotL t : card (rotL t) = card t.
Proof.
  destruct t as [|c a k v [|c' b k' v' d]]; cbn [rotL card]; lia.
Qed.
Lemma card_rotR t : card (rotR t) = card t.
Proof.
  destruct t as [|c [|c' a k' v' b] k v d]; cbn [rotR card]; lia.
Qed.

Lemma card_fix_add_left gc p gk gv u d :
  card (fst (fix_add_left gc p gk gv u d)) = S (card p + card u).
Proof.
  unfold fix_add_left. destruct (isred u); cbn [fst].
  - cbn [card]. rewrite !card_setcol. reflexivity.
  - rewrite card_rotR. cbn [card]. rewrite card_setcol.
    destruct d; [|rewrite card_rotL]; reflexivity.
Qed.
Lemma card_fix_add_right gc p gk gv u d :
  card (fst (fix_add_right gc u gk gv p d)) = S (card u + card p).
Proof.
  unfold fix_add_right. destruct (isred u); cbn [fst].
  - cbn [card]. rewrite !card_setcol. reflexivity.
  - rewrite card_rotL. cbn [card]. rewrite card_setcol.
    destruct d; [rewrite card_rotR|]; reflexivity.
Qed.

Lemma card_fixL_black pc x pk pv sib :
  card (fst (fixL_black pc x pk pv sib)) = S (card x + card sib).
Proof.
  unfold fixL_black.
  destruct (negb (isred (left sib)) && negb (isred (right sib))); cbn [fst].
  - cbn [card]. rewrite card_setcol. reflexivity.
  - rewrite card_rotL. cbn [card]. f_equal. f_equal.
    match goal with |- card (match ?s1 with E => E | T _ sl sk sv sr => _ end) = _ =>
      assert (Hs1 : card s1 = card sib); [|destruct s1 as [|c1 l1 k1 v1 r1]] end.
    + destruct (negb (isred (right sib))); [|reflexivity].
      rewrite card_rotR. destruct sib as [|sc sl sk sv sr]; [reflexivity|].
      cbn [card]. rewrite card_setcol. reflexivity.
    + exact Hs1.
    + rewrite <- Hs1. cbn [card]. rewrite card_setcol. reflexivity.
Qed.
Lemma card_fixR_black pc x pk pv sib :
  card (fst (fixR_black pc sib pk pv x)) = S (card sib + card x).
Proof.
  unfold fixR_black.
  destruct (negb (isred (right sib)) && negb (isred (left sib))); cbn [fst].
  - cbn [card]. rewrite card_setcol. reflexivity.
  - rewrite card_rotR. cbn [card]. f_equal. f_equal.
    match goal with |- card (match ?s1 with E => E | T _ sl sk sv sr => _ end) = _ =>
      assert (Hs1 : card s1 = card sib); [|destruct s1 as [|c1 l1 k1 v1 r1]] end.
    + destruct (negb (isred (left sib))); [|reflexivity].
      rewrite card_rotL. destruct sib as [|sc sl sk sv sr]; [reflexivity|].
      cbn [card]. rewrite card_setcol. reflexivity.
    + exact Hs1.
    + rewrite <- Hs1. cbn [card]. rewrite card_setcol. reflexivity.
Qed.

Lemma card_resolve p : card (fst (resolve p)) = card (fst p).
Proof.
  destruct p as [t nf]. unfold resolve. destruct (nf && isred t); cbn [fst].
  - apply card_setcol.
  - reflexivity.
Qed.

Lemma card_fixL pc x pk pv sib :
  card (fst (fixL pc x pk pv sib)) = S (card x + card sib).
Proof.
  destruct sib as [|[] sl sk sv sr]; cbn [fixL]; try apply card_fixL_black.
  pose proof (card_resolve (fixL_black Red x pk pv sl)) as Hr.
  rewrite card_fixL_black in Hr.
  destruct (resolve (fixL_black Red x pk pv sl)) as [p3 nf]. cbn [fst] in Hr |- *.
  cbn [card]. lia.
Qed.
Lemma card_fixR pc x pk pv sib :
  card (fst (fixR pc sib pk pv x)) = S (card sib + card x).
Proof.
  destruct sib as [|[] sl sk sv sr]; cbn [fixR]; try apply card_fixR_black.
  pose proof (card_resolve (fixR_black Red sr pk pv x)) as Hr.
  rewrite card_fixR_black in Hr.
  destruct (resolve (fixR_black Red sr pk pv x)) as [p3 nf]. cbn [fst] in Hr |- *.
  cbn [card]. lia.
Qed.

Lemma card_upL c res k v r : card (fst (upL c res k v r)) = S (card (fst res) + card r).
Proof.
  unfold upL. pose proof (card_resolve res) as Hr.
  destruct (resolve res) as [l' nf]. cbn [fst] in Hr. rewrite <- Hr.
  destruct nf; [apply card_fixL|reflexivity].
Qed.
Lemma card_upR c res k v l : card (fst (upR c l k v res)) = S (card l + card (fst res)).
Proof.
  unfold upR. pose proof (card_resolve res) as Hr.
  destruct (resolve res) as [r' nf]. cbn [fst] in Hr. rewrite <- Hr.
  destruct nf; [apply card_fixR|reflexivity].
Qed.

Lemma card_remove_here c l r :
  l = E \/ r = E -> card (fst (remove_here c l r)) = (card l + card r)%nat.
Proof.
  intros [Hx|Hx]; subst; unfold remove_here.
  - reflexivity.
  - destruct l as [|lc ll lk lv lr]; cbn [fst card]; lia.
Qed.

Lemma card_del_min t : t <> E -> S (card (fst (dm_res (del_min t)))) = card t.
Proof.
  induction t as [|c l IHl k v r _]; intro Hne; [congruence|].
  cbn [del_min]. destruct l as [|lc ll lk lv lr].
  - pose proof (card_remove_here c E r (or_introl eq_refl)) as Hrm.
    destruct (remove_here c E r) as [t' nf]. cbn [dm_res fst] in Hrm |- *.
    rewrite Hrm. reflexivity.
  - assert (Hl : T lc ll lk lv lr <> E) by discriminate.
    specialize (IHl Hl).
    destruct (del_min (T lc ll lk lv lr)) as [[l' kv] nf]. cbn [dm_res fst] in IHl.
    pose proof (card_upL c (l', nf) k v r) as Hup.
    destruct (upL c (l', nf) k v r) as [t' nf']. cbn [dm_res fst] in Hup |- *.
    rewrite Hup. cbn [card] in IHl |- *. lia.
Qed.

Section WithCmpCard.
  Variable cmp : Z -> Z -> Z.

  Lemma card_ins k v t :
    card (fst (ins cmp k v t)) =
    match snd (ins cmp k v t) with Dup => card t | _ => S (card t) end.
  Proof.
    induction t as [|c l IHl k' v' r IHr]; [reflexivity|].
    cbn [ins]. destruct (cmp k k' <? 0).
    - destruct (ins cmp k v l) as [l' st]. cbn [fst snd] in IHl.
      destruct st as [| | |d].
      + cbn [fst snd card]. rewrite IHl. reflexivity.
      + reflexivity.
      + destruct c; cbn [fst snd card]; rewrite IHl; reflexivity.
      + rewrite card_fix_add_left. rewrite IHl.
        unfold fix_add_left. destruct (isred r); cbn [snd card]; reflexivity.
    - destruct (0 <? cmp k k'); [|reflexivity].
      destruct (ins cmp k v r) as [r' st]. cbn [fst snd] in IHr.
      destruct st as [| | |d].
      + cbn [fst snd card]. rewrite IHr. lia.
      + reflexivity.
      + destruct c; cbn [fst snd card]; rewrite IHr; lia.
      + rewrite card_fix_add_right. rewrite IHr.
        unfold fix_add_right. destruct (isred l); cbn [snd card]; lia.
  Qed.

  Lemma card_add k v t t' : add cmp k v t = Some t' -> card t' = S (card t).
  Proof.
    unfold add. intro Ha. pose proof (card_ins k v t) as Hc.
    destruct (ins cmp k v t) as [t1 st]. cbn [fst snd] in Hc.
    destruct st; try discriminate Ha; inv Ha; rewrite card_setcol; exact Hc.
  Qed.

  Lemma card_del k t : forall t' dv nf,
    del cmp k t = Some (t', dv, nf) -> S (card t') = card t.
  Proof.
    induction t as [|c l IHl k' v' r IHr]; intros t' dv nf Hd; [discriminate Hd|].
    cbn [del] in Hd. destruct (cmp k k' <? 0).
    - destruct (del cmp k l) as [[[l' dv'] nf']|]; [|discriminate Hd].
      specialize (IHl l' dv' nf' eq_refl).
      pose proof (card_upL c (l', nf') k' v' r) as Hup.
      destruct (upL c (l', nf') k' v' r) as [t1 nf1]. inv Hd.
      cbn [fst card] in Hup |- *. lia.
    - destruct (0 <? cmp k k').
      + destruct (del cmp k r) as [[[r' dv'] nf']|]; [|discriminate Hd].
        specialize (IHr r' dv' nf' eq_refl).
        pose proof (card_upR c (r', nf') k' v' l) as Hup.
        destruct (upR c l k' v' (r', nf')) as [t1 nf1]. inv Hd.
        cbn [fst card] in Hup |- *. lia.
      + destruct l as [|lc ll lk lv lr].
        * pose proof (card_remove_here c E r (or_introl eq_refl)) as Hrm.
          destruct (remove_here c E r) as [t1 nf1]. inv Hd.
          cbn [fst card] in Hrm |- *. lia.
        * destruct r as [|rc rl rk rv rr].
          -- pose proof (card_remove_here c (T lc ll lk lv lr) E (or_intror eq_refl)) as Hrm.
             destruct (remove_here c (T lc ll lk lv lr) E) as [t1 nf1]. inv Hd.
             cbn [fst card] in Hrm |- *. lia.
          -- assert (Hne : T rc rl rk rv rr <> E) by discriminate.
             pose proof (card_del_min _ Hne) as Hdm.
             destruct (del_min (T rc rl rk rv rr)) as [[r' [sk sv]] nf'].
             cbn [dm_res fst] in Hdm.
             pose proof (card_upR c (r', nf') sk sv (T lc ll lk lv lr)) as Hup.
             destruct (upR c (T lc ll lk lv lr) sk sv (r', nf')) as [t1 nf1]. inv Hd.
             cbn [fst] in Hup. cbn [card] in Hup, Hdm |- *. lia.
  Qed.

  Lemma card_delete k t t' v : delete cmp k t = Some (t', v) -> S (card t') = card t.
  Proof.
    unfold delete. intro Hd.
    destruct (del cmp k t) as [[[t1 dv] nf]|] eqn:Hdel; [|discriminate Hd].
    apply card_del in Hdel. pose proof (card_resolve (t1, nf)) as Hr.
    destruct (resolve (t1, nf)) as [t2 nf2]. cbn [fst] in Hd, Hr. inv Hd. lia.
  Qed.
End WithCmpCard.

(* ---------- every history ---------- *)
Definition rb_ok (s : rbtree) : Prop :=
  rb_inv (root s) /\ size s = Z.of_nat (card (root s)).

Lemma rb_empty_ok : rb_ok rb_empty.
Proof.
  split; [|reflexivity]. split; [reflexivity|]. exists O. constructor.
Qed.

Lemma rb_step_ok cmp s o : rb_ok s -> rb_ok (fst (rb_step cmp s o)).
Proof.
  intros [Hinv Hsz]. destruct o as [k v|k|k|k v| |]; cbn [rb_step]; try (split; assumption).
  - destruct (add cmp k v (root s)) as [t'|] eqn:Ha; cbn [fst]; [|split; assumption].
    split; cbn [root size].
    + exact (add_preserves_rb_lemma cmp k v _ _ Hinv Ha).
    + rewrite (card_add cmp k v _ _ Ha). lia.
  - destruct (delete cmp k (root s)) as [[t' v]|] eqn:Hd; cbn [fst]; [|split; assumption].
    split; cbn [root size].
    + exact (delete_preserves_rb_lemma cmp k _ _ _ Hinv Hd).
    + pose proof (card_delete cmp k _ _ _ Hd) as Hc. lia.
  - destruct (set cmp k v (root s)) as [t'|] eqn:Hs; cbn [fst]; [|split; assumption].
    destruct Hinv as [Hc [n Ht]].
    destruct (set_ok cmp k v _ _ n Hs Ht) as (Hr & Hc' & Hcard).
    split; cbn [root size].
    + split; [congruence|]. exists n. exact Hr.
    + rewrite Hcard. exact Hsz.
Qed.

Lemma rb_final_ok cmp ops : forall s, rb_ok s -> rb_ok (rb_final cmp s ops).
Proof.
  unfold rb_final. induction ops as [|o rest IH]; intros s Hs; [exact Hs|].
  cbn [fold_left]. apply IH. apply rb_step_ok. exact Hs.
Qed.

Theorem rb_inv_reachable_lemma cmp ops : rb_inv (root (rb_final cmp rb_empty ops)).
Proof. exact (proj1 (rb_final_ok cmp ops rb_empty rb_empty_ok)). Qed.

Theorem size_is_card_reachable_lemma cmp ops :
  size (rb_final cmp rb_empty ops) = Z.of_nat (card (root (rb_final cmp rb_empty ops))).
Proof. exact (proj2 (rb_final_ok cmp ops rb_empty rb_empty_ok)). Qed.

(* ---------- height and comparator calls ---------- *)
Lemma height_rbt n t :
  rbt n t -> (height t <= 2 * n + (if isred t then 1 else 0))%nat.
Proof.
  intro Ht. induction Ht as [|n l k v r Hl IHl Hr IHr Hcl Hcr|n l k v r Hl IHl Hr IHr].
  - cbn. lia.
  - unfold isred in *. rewrite Hcl in IHl. rewrite Hcr in IHr. cbn [height col]. lia.
  - unfold isred in *. cbn [height col].
    destruct (col l); destruct (col r); lia.
Qed.

Lemma card_rbt n t : rbt n t -> (2 ^ n <= card t + 1)%nat.
Proof.
  intro Ht. induction Ht as [|n l k v r Hl IHl Hr IHr Hcl Hcr|n l k v r Hl IHl Hr IHr].
  - cbn. lia.
  - cbn [card]. lia.
  - cbn [card]. rewrite Nat.pow_succ_r'. lia.
Qed.

Lemma card_rbt_minus n t : rbt n t -> (2 ^ n - 1 <= card t)%nat.
Proof. intro Ht. pose proof (card_rbt n t Ht). lia. Qed.

Theorem height_logarithmic_lemma t :
  rb_inv t -> (height t <= 2 * Nat.log2 (card t + 1))%nat.
Proof.
  intros [Hc [n Ht]].
  pose proof (height_rbt n t Ht) as Hh. unfold isred in Hh. rewrite Hc in Hh.
  pose proof (card_rbt n t Ht) as Hcard.
  assert (Hn : (n <= Nat.log2 (card t + 1))%nat).
  { apply Nat.log2_le_pow2; [lia|exact Hcard]. }
  lia.
Qed.

Lemma cmp_calls_height cmp k t : (cmp_calls cmp k t <= height t)%nat.
Proof.
  induction t as [|c l IHl k' v' r IHr]; [cbn; lia|].
  cbn [cmp_calls height].
  destruct (cmp k k' <? 0); [lia|]. destruct (0 <? cmp k k'); lia.
Qed.

Theorem cmp_calls_logarithmic_lemma cmp ops k :
  let t := root (rb_final cmp rb_empty ops) in
  (cmp_calls cmp k t <= 2 * Nat.log2 (card t + 1))%nat.
Proof.
  intro t. pose proof (cmp_calls_height cmp k t) as H1.
  pose proof (height_logarithmic_lemma t (rb_inv_reachable_lemma cmp ops)) as H2. lia.
Qed.

(* the 2*log2(n+1) bound with n the REPORTED size (what a caller of Size() sees) *)
Theorem cmp_calls_logarithmic_size_lemma cmp ops k :
  let s := rb_final cmp rb_empty ops in
  (cmp_calls cmp k (root s) <= 2 * Nat.log2 (Z.to_nat (size s) + 1))%nat.
Proof.
  intro s. unfold s. rewrite size_is_card_reachable_lemma. rewrite Nat2Z.id.
  apply cmp_calls_logarithmic_lemma.
Qed.

(* ---------- an executable checker equivalent to rb_inv (used for concrete examples) ---------- *)
Fixpoint bh (t : tree) : option nat :=
  match t with
  | E => Some O
  | T c l _ _ r =>
    match bh l, bh r with
    | Some a, Some b =>
      if Nat.eqb a b then
        match c with
        | Red => if isred l || isred r then None else Some a
        | Black => Some (S a)
        end
      else None
    | _, _ => None
    end
  end.
Definition rb_check (t : tree) : bool :=
  negb (isred t) && match bh t with Some _ => true | None => false end.

Lemma bh_sound t : forall n, bh t = Some n -> rbt n t.
Proof.
  induction t as [|c l IHl k v r IHr]; intros n Hb.
  - cbn in Hb. inv Hb. constructor.
  - cbn [bh] in Hb.
    destruct (bh l) as [a|]; [|discriminate Hb]. destruct (bh r) as [b|]; [|discriminate Hb].
    destruct (Nat.eqb a b) eqn:Hab; [|discriminate Hb]. apply Nat.eqb_eq in Hab. subst b.
    specialize (IHl a eq_refl). specialize (IHr a eq_refl). destruct c.
    + unfold isred in Hb. destruct (col l) eqn:Hcl; [discriminate Hb|].
      destruct (col r) eqn:Hcr; [discriminate Hb|]. cbn in Hb. inv Hb.
      constructor; assumption.
    + inv Hb. constructor; assumption.
Qed.

Lemma bh_complete n t : rbt n t -> bh t = Some n.
Proof.
  intro Ht. induction Ht as [|n l k v r Hl IHl Hr IHr Hcl Hcr|n l k v r Hl IHl Hr IHr].
  - reflexivity.
  - cbn [bh]. rewrite IHl, IHr, Nat.eqb_refl. unfold isred. rewrite Hcl, Hcr. reflexivity.
  - cbn [bh]. rewrite IHl, IHr, Nat.eqb_refl. reflexivity.
Qed.

Lemma rb_check_iff t : rb_check t = true <-> rb_inv t.
Proof.
  unfold rb_check, rb_inv, isred. split.
  - intro Hc. apply andb_prop in Hc. destruct Hc as [Hc Hb].
    destruct (col t); [discriminate Hc|]. split; [reflexivity|].
    destruct (bh t) as [n|] eqn:Hbh; [|discriminate Hb]. exists n. apply bh_sound. exact Hbh.
  - intros [Hc [n Ht]]. rewrite Hc. rewrite (bh_complete n t Ht). reflexivity.
Qed.
