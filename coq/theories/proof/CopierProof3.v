(* Proofs about CopierModel (C20), part 3: the plain recursive CopyTo (pure_reflect_copier.go):
   totality, and agreement with the tree copier on a fresh destination. *)
From Ekit Require Import Common CopierModel CopierProof CopierProof2.
From Coq Require Import ZifyBool.

(* ------------------------------------------------------------ the fragment *)
Fixpoint frag_ty (t : ty) : bool :=
  match t with
  | Basic _ | Named _ _ => true
  | Struct _ fs =>
      (fix go (l : list (Z * bool * ty)) : bool :=
         match l with [] => true | (_, _, ft) :: r => frag_ty ft && go r end) fs
  | Ptr e => frag_ty e
  | Slice e => frag_ty e
  | Map k e => frag_ty k && frag_ty e
  | Atomic => false
  | Other _ _ => false
  end.

Definition frag_fields : list (Z * bool * ty) -> bool :=
  fix go (l : list (Z * bool * ty)) : bool :=
    match l with [] => true | (_, _, ft) :: r => frag_ty ft && go r end.

Lemma frag_struct : forall n fs, frag_ty (Struct n fs) = frag_fields fs.
Proof. reflexivity. Qed.

Lemma frag_fields_nth : forall fs i n e t,
  frag_fields fs = true -> nth_opt fs i = Some (n, e, t) -> frag_ty t = true.
Proof.
  induction fs as [|[[fn fe] ft] r IH]; intros i n e t H Hn; destruct i; cbn in Hn; try discriminate Hn;
    cbn [frag_fields] in H; apply andb_prop in H as [H1 H2].
  - inversion Hn; subst. exact H1.
  - eapply IH; eassumption.
Qed.

(* ------------------------------------------------------------ unfolding copy_struct *)
(* what copyStructField does with the two field values once the kinds agree *)
Definition pcs_slot (sft dft : ty) (sf df : rv) : value * status :=
  match sft with
  | Ptr set_ =>
    match rval sf with
    | VPtr None => (rval df, SOk)
    | VPtr (Some sx) =>
      match dft with
      | Ptr det =>
        match
          (match rval df with
           | VPtr None => if can_set df then COk (zero_value det) else CPanic
           | VPtr (Some dx) => COk dx
           | _ => CPanic
           end)
        with
        | COk dx =>
          let '(x', stt) :=
            copy_data (fun s' v a r => copy_struct s' det v a r)
              {| rty := set_; rval := sx; raddr := true; rro := rro sf |}
              {| rty := det; rval := dx; raddr := true; rro := rro df |} in
          (VPtr (Some x'), stt)
        | _ => (rval df, SPanic)
        end
      | _ => (rval df, SPanic)
      end
    | _ => (rval df, SPanic)
    end
  | _ => copy_data (fun s' v a r => copy_struct s' dft v a r) sf df
  end.

Definition pcs_loop (s : rv) (dn_ : option Z) (dfs0 : list (Z * bool * ty)) (daddr dro : bool)
  (sfs : list (Z * bool * ty)) : list (Z * bool * ty) -> nat -> value -> value * status :=
  fix loop (dfs : list (Z * bool * ty)) (i : nat) (cur : value) {struct dfs} : value * status :=
    match dfs with
    | [] => (cur, SOk)
    | (dn, dexp, dft) :: rest =>
      if negb dexp then loop rest (S i) cur else
      match assoc_find (field_map sfs 0 []) dn with
      | None => loop rest (S i) cur
      | Some idx =>
        match nth_opt sfs idx with
        | None => (cur, SPanic)
        | Some (_, _, sft) =>
          if negb (rkind_eqb (kind_of sft) (kind_of dft)) then (cur, SErr CKind) else
          let d := {| rty := Struct dn_ dfs0; rval := cur; raddr := daddr; rro := dro |} in
          match r_field s idx, r_field d i with
          | COk sf, COk df =>
            let '(x, stt) := pcs_slot sft dft sf df in
            let cur' := set_field cur i x in
            match stt with
            | SOk => loop rest (S i) cur'
            | _ => (cur', stt)
            end
          | _, _ => (cur, SPanic)
          end
        end
      end
    end.

Lemma copy_struct_struct : forall s dn_ dfs0 dval daddr dro,
  copy_struct s (Struct dn_ dfs0) dval daddr dro =
  match fields_of (rty s) with
  | CPanic => (dval, SPanic)
  | CErr e => (dval, SErr e)
  | COk sfs => pcs_loop s dn_ dfs0 daddr dro sfs dfs0 0%nat dval
  end.
Proof. intros; reflexivity. Qed.

Lemma pcs_loop_cons : forall s dn_ dfs0 daddr dro sfs dn dexp dft rest i cur,
  pcs_loop s dn_ dfs0 daddr dro sfs ((dn, dexp, dft) :: rest) i cur =
  if negb dexp then pcs_loop s dn_ dfs0 daddr dro sfs rest (S i) cur else
  match assoc_find (field_map sfs 0 []) dn with
  | None => pcs_loop s dn_ dfs0 daddr dro sfs rest (S i) cur
  | Some idx =>
    match nth_opt sfs idx with
    | None => (cur, SPanic)
    | Some (_, _, sft) =>
      if negb (rkind_eqb (kind_of sft) (kind_of dft)) then (cur, SErr CKind) else
      let d := {| rty := Struct dn_ dfs0; rval := cur; raddr := daddr; rro := dro |} in
      match r_field s idx, r_field d i with
      | COk sf, COk df =>
        let '(x, stt) := pcs_slot sft dft sf df in
        let cur' := set_field cur i x in
        match stt with
        | SOk => pcs_loop s dn_ dfs0 daddr dro sfs rest (S i) cur'
        | _ => (cur', stt)
        end
      | _, _ => (cur, SPanic)
      end
    end
  end.
Proof. intros; reflexivity. Qed.

(* ------------------------------------------------------------ small facts *)
Lemma nonptr_facts : forall t, is_ptr_kind t = false ->
  unptr t = t /\ (forall v, deref t v = Some v) /\ (forall v, deref_dst t v = v).
Proof. intros t H; destruct t; try discriminate H; repeat split; reflexivity. Qed.

Lemma kind_eq_ptr : forall a b,
  rkind_eqb (kind_of a) (kind_of b) = true -> is_ptr_kind a = is_ptr_kind b.
Proof. intros a b H; destruct a, b; cbn in H; try discriminate H; reflexivity. Qed.

Lemma pcs_slot_nonptr : forall sft dft sf df, is_ptr_kind sft = false ->
  pcs_slot sft dft sf df = copy_data (fun s' v a r => copy_struct s' dft v a r) sf df.
Proof. intros sft dft sf df H; destruct sft; try discriminate H; reflexivity. Qed.

Lemma struct_kind_not_shadow : forall t, is_struct_kind t = true -> is_shadow_kind (kind_of t) = false.
Proof. intros t H; destruct t; cbn in H; try discriminate H; reflexivity. Qed.

Lemma frag_classify : forall t, frag_ty t = true ->
  is_atomic_type t = false /\
  (is_ptr_kind t = true \/ is_shadow_kind (kind_of t) = true \/ is_struct_kind t = true).
Proof.
  intros t H; destruct t; cbn in H; try discriminate H; cbn; split; try reflexivity;
    first [left; reflexivity | right; left; reflexivity | right; right; reflexivity].
Qed.

Lemma frag_unptr : forall t, frag_ty t = true -> frag_ty (unptr t) = true.
Proof. intros t H; destruct t; exact H. Qed.

(* ------------------------------------------------------------ copyData *)
Definition pure_sound (dt : ty) : Prop :=
  forall st sv dv sa v' stt,
    is_struct_kind st = true -> is_struct_kind dt = true ->
    has_type st sv = true -> has_type dt dv = true ->
    copy_struct {| rty := st; rval := sv; raddr := sa; rro := false |} dt dv true false = (v', stt) ->
    stt <> SPanic /\ has_type dt v' = true /\
    (stt = SOk -> dv = zero_value dt -> frag_ty st = true -> post new_options st sv dt dv v').

Lemma copy_data_sound : forall sb db y1 x1 a x1' stt,
  pure_sound db ->
  has_type sb y1 = true -> has_type db x1 = true ->
  copy_data (fun s' v a r => copy_struct s' db v a r)
    {| rty := sb; rval := y1; raddr := a; rro := false |}
    {| rty := db; rval := x1; raddr := true; rro := false |} = (x1', stt) ->
  stt <> SPanic /\ has_type db x1' = true /\
  (stt = SOk -> x1 = zero_value db -> frag_ty sb = true ->
   is_atomic_type sb = false /\
   ((is_shadow_kind (kind_of sb) = true /\ sb = db /\ x1' = y1) \/
    (is_shadow_kind (kind_of sb) = false /\ is_struct_kind sb = true /\
     post new_options sb y1 db x1 x1'))).
Proof.
  intros sb db y1 x1 a x1' stt Hps Hy Hx Hrun.
  unfold copy_data in Hrun. cbn [rty rval raddr rro can_set andb negb] in Hrun.
  destruct (is_ptr_kind sb) eqn:Ep.
  { inversion Hrun; subst. split; [discriminate|]. split; [exact Hx|]. intros Hk; discriminate Hk. }
  destruct (rkind_eqb (kind_of sb) (kind_of db)) eqn:Ek; cbn [negb] in Hrun.
  2:{ inversion Hrun; subst. split; [discriminate|]. split; [exact Hx|]. intros Hk; discriminate Hk. }
  destruct (is_shadow_kind (kind_of sb)) eqn:Esh.
  - destruct (ty_eqb sb db) eqn:Et; cbn [negb] in Hrun.
    2:{ inversion Hrun; subst. split; [discriminate|]. split; [exact Hx|]. intros Hk; discriminate Hk. }
    apply ty_eqb_eq in Et. inversion Hrun; subst x1' stt.
    split; [discriminate|]. split; [rewrite <- Et; exact Hy|].
    intros _ _ Hf. split; [apply frag_classify; exact Hf|]. left. repeat split; assumption.
  - destruct (is_struct_kind sb) eqn:Est.
    + assert (Hdk : is_struct_kind db = true).
      { unfold is_struct_kind in *. apply rkind_eqb_eq in Ek. rewrite <- Ek. exact Est. }
      destruct (Hps sb y1 x1 a x1' stt Est Hdk Hy Hx Hrun) as [Hnp [Ht Hp]].
      split; [exact Hnp|]. split; [exact Ht|].
      intros Hok Hz Hf. split; [apply frag_classify; exact Hf|]. right.
      split; [reflexivity|]. split; [reflexivity|]. apply Hp; assumption.
    + inversion Hrun; subst. split; [discriminate|]. split; [exact Hx|].
      intros _ _ Hf. exfalso.
      destruct (frag_classify _ Hf) as [_ [H|[H|H]]]; congruence.
Qed.

(* ------------------------------------------------------------ one destination field *)
Lemma field_post_of_data : forall dn sft dft y x sx x1',
  deref sft y = Some sx ->
  is_atomic_type (unptr sft) = false ->
  has_type (unptr sft) sx = true ->
  deref_dst dft x = zero_value (unptr dft) ->
  ((is_shadow_kind (kind_of (unptr sft)) = true /\ unptr sft = unptr dft /\ x1' = sx) \/
   (is_shadow_kind (kind_of (unptr sft)) = false /\ is_struct_kind (unptr sft) = true /\
    post new_options (unptr sft) sx (unptr dft) (deref_dst dft x) x1')) ->
  field_post new_options dn sft y dft x (rewrap (is_ptr_kind dft) x1')
    (fun y1 x1 x1' => post new_options (unptr sft) y1 (unptr dft) x1 x1').
Proof.
  intros dn sft dft y x sx x1' Hd Hat Hty Hz [[Hsh [He Hx]]|[Hsh [Hst Hp]]];
    unfold field_post; rewrite Hd, Hsh, Hat; cbn [orb].
  - change (find_conv new_options dn) with (@None conv). split; [exact He|].
    exists x1'. split; [reflexivity|]. subst x1'. split.
    + intros Hzero. rewrite Hz, <- He. apply zero_unique_leaf; [rewrite Hsh; reflexivity|exact Hty|exact Hzero].
    + intros _. reflexivity.
  - rewrite Hst. exists x1'. split; [reflexivity|exact Hp].
Qed.

Lemma pcs_slot_sound : forall dn sft dft y x sa x' stt,
  pure_sound (unptr dft) ->
  rkind_eqb (kind_of sft) (kind_of dft) = true ->
  has_type sft y = true -> has_type dft x = true ->
  pcs_slot sft dft {| rty := sft; rval := y; raddr := sa; rro := false |}
                   {| rty := dft; rval := x; raddr := true; rro := false |} = (x', stt) ->
  stt <> SPanic /\ has_type dft x' = true /\
  (stt = SOk -> x = zero_value dft -> frag_ty sft = true ->
   field_post new_options dn sft y dft x x'
     (fun y1 x1 x1' => post new_options (unptr sft) y1 (unptr dft) x1 x1')).
Proof.
  intros dn sft dft y x sa x' stt Hps Hk Hy Hx Hrun.
  pose proof (kind_eq_ptr _ _ Hk) as Hpp.
  destruct (is_ptr_kind sft) eqn:Ep.
  - destruct sft as [| | |set_| | | |]; try discriminate Ep.
    destruct dft as [| | |det| | | |]; try discriminate Hpp.
    destruct y as [z|s|fs|[sx|]|s|m|z]; cbn in Hy; try discriminate Hy.
    2:{ cbn in Hrun. inversion Hrun; subst x' stt.
        split; [discriminate|]. split; [exact Hx|]. intros _ _ _.
        unfold field_post. cbn [deref].
        destruct (is_shadow_kind (kind_of (unptr (Ptr set_))) || is_atomic_type (unptr (Ptr set_)));
          [reflexivity|]. destruct (is_struct_kind (unptr (Ptr set_))); reflexivity. }
    assert (Hgen : forall dx0 x1' st1, has_type det dx0 = true -> dx0 = deref_dst (Ptr det) x ->
              copy_data (fun s' v a r => copy_struct s' det v a r)
                {| rty := set_; rval := sx; raddr := true; rro := false |}
                {| rty := det; rval := dx0; raddr := true; rro := false |} = (x1', st1) ->
              st1 <> SPanic /\ has_type (Ptr det) (VPtr (Some x1')) = true /\
              (st1 = SOk -> x = zero_value (Ptr det) -> frag_ty (Ptr set_) = true ->
               field_post new_options dn (Ptr set_) (VPtr (Some sx)) (Ptr det) x (VPtr (Some x1'))
                 (fun y1 x1 x1'0 => post new_options set_ y1 det x1 x1'0))).
    { intros dx0 x1' st1 Hdx Hdx0 Hcd.
      destruct (copy_data_sound set_ det sx dx0 true x1' st1 Hps Hy Hdx Hcd) as [Hnp [Ht Hp]].
      split; [exact Hnp|]. split; [exact Ht|]. intros Hok Hz Hf.
      assert (Hz0 : dx0 = zero_value det) by (rewrite Hdx0, Hz; reflexivity).
      destruct (Hp Hok Hz0 Hf) as [Hat Hcases].
      apply (field_post_of_data dn (Ptr set_) (Ptr det) (VPtr (Some sx)) x sx x1');
        [reflexivity|exact Hat|exact Hy|rewrite <- Hdx0; exact Hz0|].
      cbn [unptr]. rewrite <- Hdx0. exact Hcases. }
    destruct x as [z|s|fs|[dx|]|s|m|z]; cbn in Hx; try discriminate Hx; cbn in Hrun.
    + destruct (copy_data (fun s' v a r => copy_struct s' det v a r)
                  {| rty := set_; rval := sx; raddr := true; rro := false |}
                  {| rty := det; rval := dx; raddr := true; rro := false |}) as [x1' st1] eqn:Ecd.
      inversion Hrun; subst x' stt. exact (Hgen dx x1' st1 Hx eq_refl Ecd).
    + destruct (copy_data (fun s' v a r => copy_struct s' det v a r)
                  {| rty := set_; rval := sx; raddr := true; rro := false |}
                  {| rty := det; rval := zero_value det; raddr := true; rro := false |}) as [x1' st1] eqn:Ecd.
      inversion Hrun; subst x' stt. exact (Hgen (zero_value det) x1' st1 (has_type_zero det) eq_refl Ecd).
  - assert (Epd : is_ptr_kind dft = false) by (rewrite <- Hpp; reflexivity).
    destruct (nonptr_facts _ Ep) as [Hus [Hds Hdds]].
    destruct (nonptr_facts _ Epd) as [Hud [Hdd Hddd]].
    rewrite pcs_slot_nonptr in Hrun by exact Ep.
    rewrite Hud in Hps.
    destruct (copy_data_sound sft dft y x sa x' stt Hps Hy Hx Hrun) as [Hnp [Ht Hp]].
    split; [exact Hnp|]. split; [exact Ht|]. intros Hok Hz Hf.
    destruct (Hp Hok Hz Hf) as [Hat Hcases].
    assert (Hrw : rewrap (is_ptr_kind dft) x' = x') by (rewrite Epd; reflexivity).
    rewrite <- Hrw.
    apply (field_post_of_data dn sft dft y x y x').
    + apply Hds.
    + rewrite Hus. exact Hat.
    + rewrite Hus. exact Hy.
    + rewrite Hddd, Hud. exact Hz.
    + rewrite Hus, Hud, Hddd. exact Hcases.
Qed.

(* ------------------------------------------------------------ the loop of copyStruct *)
Lemma pcs_loop_sound :
  forall sn sfs svs dname whole sa,
  flds_typed sfs svs ->
  forall dfs, Forall (fun f : fld => pure_sound (unptr (ftyp f))) dfs ->
  forall pre_fs pre_vs dvs v' stt,
    whole = pre_fs ++ dfs ->
    flds_typed pre_fs pre_vs -> flds_typed dfs dvs ->
    pcs_loop {| rty := Struct sn sfs; rval := VStruct svs; raddr := sa; rro := false |}
             dname whole true false sfs dfs (length pre_fs) (VStruct (pre_vs ++ dvs)) = (v', stt) ->
    stt <> SPanic /\
    exists dvs', v' = VStruct (pre_vs ++ dvs') /\ flds_typed dfs dvs' /\
      (stt = SOk -> dvs = zero_values dfs -> frag_fields sfs = true ->
       post_each new_options sfs (VStruct svs) dfs dvs dvs').
Proof.
  intros sn sfs svs dname whole sa Hsfs dfs HF.
  induction HF as [|[[dn dexp] dft] rest Hf Hrest IH];
    intros pre_fs pre_vs dvs v' stt Hw Hpre Hd Hrun.
  - inversion Hd; subst. cbn in Hrun. inversion Hrun; subst.
    split; [discriminate|]. exists []. split; [reflexivity|]. split; [constructor|].
    intros _ _ _. exact I.
  - inversion Hd as [|f0 x fr xr Hx Hxr]; subst. cbn [ftyp snd] in Hx, Hf.
    assert (Hcont : forall x', has_type dft x' = true ->
              pcs_loop {| rty := Struct sn sfs; rval := VStruct svs; raddr := sa; rro := false |}
                dname (pre_fs ++ (dn, dexp, dft) :: rest) true false sfs rest (S (length pre_fs))
                (VStruct (pre_vs ++ x' :: xr)) = (v', stt) ->
              stt <> SPanic /\
              exists dvs0, v' = VStruct (pre_vs ++ x' :: dvs0) /\ flds_typed rest dvs0 /\
                (stt = SOk -> xr = zero_values rest -> frag_fields sfs = true ->
                 post_each new_options sfs (VStruct svs) rest xr dvs0)).
    { intros x' Hx' Hr.
      specialize (IH (pre_fs ++ [(dn, dexp, dft)]) (pre_vs ++ [x']) xr v' stt).
      rewrite app_length in IH. cbn [length] in IH. rewrite Nat.add_1_r in IH.
      rewrite <- !app_assoc in IH. cbn [app] in IH.
      destruct IH as [Hnp [dvs0 [Hv [Ht Hp]]]]; [reflexivity| |exact Hxr|exact Hr|].
      { apply flds_typed_app; [exact Hpre|]. constructor; [exact Hx'|constructor]. }
      split; [exact Hnp|]. exists dvs0. rewrite <- app_assoc in Hv. cbn [app] in Hv.
      split; [exact Hv|]. split; assumption. }
    assert (Hskip : pcs_loop {| rty := Struct sn sfs; rval := VStruct svs; raddr := sa; rro := false |}
                dname (pre_fs ++ (dn, dexp, dft) :: rest) true false sfs rest (S (length pre_fs))
                (VStruct (pre_vs ++ x :: xr)) = (v', stt) ->
              (if dexp && negb (in_ignore new_options dn)
               then assoc_find (field_map sfs 0 []) dn else None) = None ->
              stt <> SPanic /\
              exists dvs', v' = VStruct (pre_vs ++ dvs') /\ flds_typed ((dn, dexp, dft) :: rest) dvs' /\
                (stt = SOk -> x :: xr = zero_values ((dn, dexp, dft) :: rest) -> frag_fields sfs = true ->
                 post_each new_options sfs (VStruct svs) ((dn, dexp, dft) :: rest) (x :: xr) dvs')).
    { intros Hr Hnone. destruct (Hcont x Hx Hr) as [Hnp [dvs0 [Hv [Ht Hp]]]].
      split; [exact Hnp|]. exists (x :: dvs0). split; [exact Hv|].
      split; [constructor; assumption|].
      intros Hok Hz Hfr. cbn [post_each]. rewrite Hnone. split; [reflexivity|].
      cbn [zero_values] in Hz. injection Hz as Hzx Hzr. apply Hp; assumption. }
    rewrite pcs_loop_cons in Hrun.
    destruct dexp; cbn [negb] in Hrun; [|apply Hskip; [exact Hrun|reflexivity]].
    destruct (assoc_find (field_map sfs 0 []) dn) as [idx|] eqn:Efind;
      [|apply Hskip; [exact Hrun|reflexivity]].
    destruct (field_map_ok sfs _ _ Efind) as [sft Hnth]. rewrite Hnth in Hrun.
    destruct (rkind_eqb (kind_of sft) (kind_of dft)) eqn:Ek; cbn [negb] in Hrun.
    2:{ inversion Hrun; subst. split; [discriminate|]. exists (x :: xr).
        split; [reflexivity|]. split; [constructor; assumption|]. intros Hk; discriminate Hk. }
    destruct (flds_typed_nth _ _ _ _ _ _ Hsfs Hnth) as [y [Hy Hty]].
    assert (Hlen : length pre_fs = length pre_vs) by (apply flds_typed_length; exact Hpre).
    assert (Hrs : r_field {| rty := Struct sn sfs; rval := VStruct svs; raddr := sa; rro := false |} idx
                  = COk {| rty := sft; rval := y; raddr := sa; rro := false |}).
    { unfold r_field. simpl. rewrite Hnth, Hy. reflexivity. }
    assert (Hrd : r_field {| rty := Struct dname (pre_fs ++ (dn, true, dft) :: rest);
                             rval := VStruct (pre_vs ++ x :: xr); raddr := true; rro := false |}
                          (length pre_fs)
                  = COk {| rty := dft; rval := x; raddr := true; rro := false |}).
    { unfold r_field. simpl. rewrite nth_opt_app_0. rewrite Hlen, nth_opt_app_0. reflexivity. }
    cbv zeta in Hrun. rewrite Hrs, Hrd in Hrun.
    destruct (pcs_slot sft dft {| rty := sft; rval := y; raddr := sa; rro := false |}
                {| rty := dft; rval := x; raddr := true; rro := false |}) as [x' st1] eqn:Es.
    destruct (pcs_slot_sound dn _ _ _ _ _ _ _ Hf Ek Hty Hx Es) as [Hnp1 [Htx' Hfp]].
    cbn [set_field] in Hrun. rewrite Hlen, set_nth_app_0 in Hrun. rewrite <- Hlen in Hrun.
    destruct st1 as [|e|].
    + destruct (Hcont x' Htx' Hrun) as [Hnp [dvs0 [Hv [Ht Hp]]]].
      split; [exact Hnp|]. exists (x' :: dvs0). split; [exact Hv|].
      split; [constructor; assumption|].
      intros Hok Hz Hfr. cbn [zero_values] in Hz. injection Hz as Hzx Hzr.
      cbn [post_each]. change (in_ignore new_options dn) with false. cbn [negb andb].
      rewrite Efind, Hnth. cbn [sfield]. rewrite Hy.
      split.
      * apply Hfp; [reflexivity|exact Hzx|].
        eapply frag_fields_nth; eassumption.
      * apply Hp; assumption.
    + inversion Hrun; subst. split; [discriminate|]. exists (x' :: xr).
      split; [reflexivity|]. split; [constructor; assumption|]. intros Hk; discriminate Hk.
    + exfalso. apply Hnp1. reflexivity.
Qed.

(* ------------------------------------------------------------ every destination type *)
Lemma pcs_loop_nomap : forall s dn_ dfs0 a r sfs dfs i cur,
  (forall n, assoc_find (field_map sfs 0 []) n = None) ->
  pcs_loop s dn_ dfs0 a r sfs dfs i cur = (cur, SOk).
Proof.
  intros s dn_ dfs0 a r sfs dfs; induction dfs as [|[[dn dexp] dft] rest IH]; intros i cur Hno.
  - reflexivity.
  - rewrite pcs_loop_cons, Hno. destruct dexp; cbn [negb]; apply IH; exact Hno.
Qed.

Lemma pure_sound_all : forall dt, pure_sound dt /\ pure_sound (unptr dt).
Proof.
  induction dt as [k|n k|n fs IH|t IH|t IH|k v IHk IHv| |k i] using ty_ind';
    try (split; intros st sv dv sa v' stt _ Hd; cbn in Hd; discriminate Hd).
  - assert (H : pure_sound (Struct n fs)).
    { assert (HF : Forall (fun f : fld => pure_sound (unptr (ftyp f))) fs).
      { eapply Forall_impl; [|exact IH]. intros f [_ Hf]. exact Hf. }
      intros st sv dv sa v' stt Hsk _ Hts Htd Hrun.
      rewrite copy_struct_struct in Hrun. cbn [rty] in Hrun.
      destruct dv as [z|s|dvs|p|s|m|z]; cbn in Htd; try discriminate Htd.
      rewrite <- has_type_struct with (n := n) in Htd. rewrite has_type_struct in Htd.
      apply has_types_iff in Htd.
      destruct st as [k|sn k|sn sfs|t|t|k v| |k i]; cbn in Hsk; try discriminate Hsk;
        cbn [fields_of] in Hrun.
      - destruct sv as [z|s|svs|p|s|m|z]; cbn in Hts; try discriminate Hts.
        rewrite <- has_type_struct with (n := sn) in Hts. rewrite has_type_struct in Hts.
        apply has_types_iff in Hts.
        destruct (pcs_loop_sound sn sfs svs n fs sa Hts fs HF [] [] dvs v' stt eq_refl
                    (Forall2_nil _) Htd Hrun) as [Hnp [dvs' [Hv [Ht Hp]]]].
        cbn [app] in Hv. subst v'.
        split; [exact Hnp|]. split.
        + rewrite has_type_struct. apply has_types_iff. exact Ht.
        + intros Hok Hz Hfr. rewrite post_struct with (sfs := sfs); [|reflexivity].
          rewrite zero_value_struct in Hz. injection Hz as Hz. rewrite frag_struct in Hfr.
          apply Hp; [exact Hok|exact Hz|exact Hfr].
      - rewrite pcs_loop_nomap in Hrun by (intros; reflexivity).
        inversion Hrun; subst v' stt.
        split; [discriminate|]. split.
        + rewrite has_type_struct. apply has_types_iff. exact Htd.
        + intros _ _ Hfr. discriminate Hfr. }
    split; exact H.
  - split; [intros st sv dv sa v' stt _ Hd; cbn in Hd; discriminate Hd|]. apply IH.
  - assert (H : pure_sound Atomic).
    { intros st sv dv sa v' stt Hsk _ Hts Htd Hrun.
      destruct (fields_of_struct_kind _ Hsk) as [sfs Hsfs].
      assert (E : copy_struct {| rty := st; rval := sv; raddr := sa; rro := false |} Atomic dv true false
                  = (dv, SOk)).
      { destruct st; cbn in Hsk; try discriminate Hsk; reflexivity. }
      rewrite E in Hrun. inversion Hrun; subst v' stt.
      split; [discriminate|]. split; [exact Htd|]. intros _ _ _.
      cbn [post]. rewrite Hsfs. reflexivity. }
    split; exact H.
Qed.

Lemma pure_copy_total_lemma : forall st dt sv dv,
  has_type st sv = true -> has_type dt dv = true ->
  snd (pure_copy_to (Ptr st) (VPtr (Some sv)) (Ptr dt) (VPtr (Some dv))) <> SPanic.
Proof.
  intros st dt sv dv Hs Hd. unfold pure_copy_to.
  destruct (is_struct_kind st) eqn:Es; cbn [negb]; [|cbn; discriminate].
  destruct (is_struct_kind dt) eqn:Ed; cbn [negb]; [|cbn; discriminate].
  destruct (copy_struct {| rty := st; rval := sv; raddr := true; rro := false |} dt dv true false)
    as [x stt] eqn:E.
  cbn [snd]. exact (proj1 (proj1 (pure_sound_all dt) st sv dv true x stt Es Ed Hs Hd E)).
Qed.

(* ------------------------------------------------------------ `post` determines the result *)
Definition post_det (dt : ty) : Prop :=
  forall o st sv dv a b, post o st sv dt dv a -> post o st sv dt dv b -> a = b.

Lemma field_post_det : forall o dn sft y dft x a b (rec : value -> value -> value -> Prop),
  (forall y1 x1 u w, rec y1 x1 u -> rec y1 x1 w -> u = w) ->
  field_post o dn sft y dft x a rec -> field_post o dn sft y dft x b rec -> a = b.
Proof.
  intros o dn sft y dft x a b rec Hrec Ha Hb. unfold field_post in Ha, Hb.
  destruct (is_shadow_kind (kind_of (unptr sft)) || is_atomic_type (unptr sft)).
  - destruct (deref sft y) as [y1|]; [|congruence].
    destruct (find_conv o dn) as [c|].
    + destruct Ha as [_ Ha]. destruct Hb as [_ Hb]. congruence.
    + destruct Ha as [_ [ua [Ha [Ha1 Ha2]]]]. destruct Hb as [_ [ub [Hb [Hb1 Hb2]]]].
      subst a b. f_equal. destruct (is_zero y1).
      * rewrite Ha1, Hb1; reflexivity.
      * rewrite Ha2, Hb2; try reflexivity; left; reflexivity.
  - destruct (is_struct_kind (unptr sft)); [|congruence].
    destruct (deref sft y) as [y1|]; [|congruence].
    destruct Ha as [ua [Ha Ha1]]. destruct Hb as [ub [Hb Hb1]]. subst a b. f_equal.
    eapply Hrec; eassumption.
Qed.

Lemma post_each_det : forall o sfs sv dfs,
  Forall (fun f : fld => post_det (unptr (ftyp f))) dfs ->
  forall dvs a b, post_each o sfs sv dfs dvs a -> post_each o sfs sv dfs dvs b -> a = b.
Proof.
  intros o sfs sv dfs HF. induction HF as [|[[dn dexp] dft] rest Hf Hrest IH]; intros dvs a b Ha Hb.
  - destruct dvs, a, b; cbn in Ha, Hb; try contradiction; reflexivity.
  - destruct dvs as [|x xr]; [cbn in Ha; contradiction|].
    destruct a as [|a1 ar]; [cbn in Ha; contradiction|].
    destruct b as [|b1 br]; [cbn in Hb; contradiction|].
    cbn [post_each] in Ha, Hb. destruct Ha as [Ha Har]. destruct Hb as [Hb Hbr].
    f_equal; [|eapply IH; eassumption].
    destruct (if dexp && negb (in_ignore o dn) then assoc_find (field_map sfs 0 []) dn else None)
      as [si|]; [|congruence].
    destruct (nth_opt sfs si) as [[[_n _e] sft]|]; [|contradiction].
    destruct (sfield sv si) as [y|]; [|contradiction].
    eapply field_post_det; [|exact Ha|exact Hb].
    intros y1 x1 u w Hu Hw. cbn [ftyp snd] in Hf. cbv beta in Hu, Hw. exact (Hf _ _ _ _ _ _ Hu Hw).
Qed.

Lemma post_det_all : forall dt, post_det dt /\ post_det (unptr dt).
Proof.
  assert (Hother : forall dt, match dt with Struct _ _ => False | _ => True end -> post_det dt).
  { intros dt Hd o st sv dv a b Ha Hb.
    destruct dt; try contradiction; cbn [post] in Ha, Hb;
      destruct (fields_of st); try contradiction; congruence. }
  induction dt as [k|n k|n fs IH|t IH|t IH|k v IHk IHv| |k i] using ty_ind';
    try (split; apply Hother; exact I).
  - assert (H : post_det (Struct n fs)).
    { assert (HF : Forall (fun f : fld => post_det (unptr (ftyp f))) fs).
      { eapply Forall_impl; [|exact IH]. intros f [_ Hf]. exact Hf. }
      intros o st sv dv a b Ha Hb.
      destruct (fields_of st) as [sfs| |] eqn:Ef;
        try (cbn [post] in Ha; rewrite Ef in Ha; contradiction).
      destruct dv as [z|s|dvs|p|s|m|z]; try (cbn [post] in Ha; rewrite Ef in Ha; contradiction).
      destruct a as [z|s|avs|p|s|m|z]; try (cbn [post] in Ha; rewrite Ef in Ha; contradiction).
      destruct b as [z|s|bvs|p|s|m|z]; try (cbn [post] in Hb; rewrite Ef in Hb; contradiction).
      rewrite post_struct with (sfs := sfs) in Ha, Hb by exact Ef.
      f_equal. eapply post_each_det; eassumption. }
    split; exact H.
  - split; [apply Hother; exact I|apply IH].
Qed.

(* ------------------------------------------------------------ agreement on a fresh destination *)
Lemma copiers_agree_on_fresh_lemma : forall st dt c sv r1 r2,
  frag_ty st = true -> frag_ty dt = true ->
  has_type st sv = true ->
  new_reflect_copier st dt [] = COk c ->
  reflect_copy c st dt (Some sv) [] = (r1, SOk) ->
  pure_copy_to (Ptr st) (VPtr (Some sv)) (Ptr dt) (VPtr (Some (zero_value dt))) = (r2, SOk) ->
  r2 = VPtr r1.
Proof.
  intros st dt c sv r1 r2 Hfs Hfd Hsv Hnew Hcopy Hpure.
  unfold reflect_copy in Hcopy.
  destruct (copy_spec_lemma st dt [] c sv (zero_value dt) [] r1 Hnew (Forall_nil _) (Forall_nil _)
              Hsv (has_type_zero dt) Hcopy) as [dv1 [Hr1 [_ Hpost1]]].
  assert (Ho : effective_options c [] = new_options).
  { unfold new_reflect_copier, new_reflect_copier_gen in Hnew.
    destruct (is_struct_kind st); cbn [negb] in Hnew; [|discriminate Hnew].
    destruct (is_struct_kind dt); cbn [negb] in Hnew; [|discriminate Hnew].
    destruct (create_field_nodes false st dt); try discriminate Hnew.
    inversion Hnew; subst c. reflexivity. }
  rewrite Ho in Hpost1.
  unfold pure_copy_to in Hpure.
  destruct (is_struct_kind st) eqn:Es; cbn [negb] in Hpure; [|discriminate Hpure].
  destruct (is_struct_kind dt) eqn:Ed; cbn [negb] in Hpure; [|discriminate Hpure].
  destruct (copy_struct {| rty := st; rval := sv; raddr := true; rro := false |} dt
              (zero_value dt) true false) as [x stt] eqn:E.
  inversion Hpure; subst r2 stt.
  destruct (proj1 (pure_sound_all dt) st sv (zero_value dt) true x SOk Es Ed Hsv (has_type_zero dt) E)
    as [_ [_ Hp]].
  specialize (Hp eq_refl eq_refl Hfs).
  rewrite (proj1 (post_det_all dt) _ _ _ _ _ _ Hp Hpost1). subst r1. reflexivity.
Qed.

Lemma copiers_differ_lemma :
  exists st dt c sv r,
    frag_ty st = true /\ frag_ty dt = true /\ has_type st sv = true /\
    new_reflect_copier st dt [] = COk c /\
    snd (reflect_copy c st dt (Some sv) []) = SOk /\
    pure_copy_to (Ptr st) (VPtr (Some sv)) (Ptr dt) (VPtr (Some (zero_value dt))) = (r, SErr CKind).
Proof.
  exists (Struct None [(1, true, Ptr (Basic KInt))]), (Struct None [(1, true, Basic KInt)]).
  eexists. exists (VStruct [VPtr (Some (VNum 5))]). eexists.
  repeat split; vm_compute; reflexivity.
Qed.

(* ------------------------------------------------------------ reading `post` at one top-level field *)
Lemma post_each_nth : forall o sfs sv dfs dvs dvs' i dn dexp dft x x',
  post_each o sfs sv dfs dvs dvs' ->
  nth_opt dfs i = Some (dn, dexp, dft) -> nth_opt dvs i = Some x -> nth_opt dvs' i = Some x' ->
  match (if dexp && negb (in_ignore o dn) then assoc_find (field_map sfs 0 []) dn else None) with
  | None => x' = x
  | Some si =>
    match nth_opt sfs si, sfield sv si with
    | Some (_, _, sft), Some y =>
        field_post o dn sft y dft x x' (fun y1 x1 x1' => post o (unptr sft) y1 (unptr dft) x1 x1')
    | _, _ => False
    end
  end.
Proof.
  intros o sfs sv dfs; induction dfs as [|[[fn fe] ft] r IH];
    intros dvs dvs' i dn dexp dft x x' Hp Hf Hx Hx'.
  - destruct i; discriminate Hf.
  - destruct dvs as [|u ur]; [destruct i; discriminate Hx|].
    destruct dvs' as [|w wr]; [destruct i; discriminate Hx'|].
    cbn [post_each] in Hp. destruct Hp as [Hh Hr].
    destruct i; cbn in Hf, Hx, Hx'.
    + inversion Hf; inversion Hx; inversion Hx'; subst. exact Hh.
    + eapply IH; eassumption.
Qed.

(* The property's main clause at a top-level field: an exported destination field F whose
   name is not ignored and has no converter, matched by the exported source field of the
   same name and identical leaf type t (basic kind, slice, map, chan, array, time.Time),
   holds the source's value after a successful CopyTo whenever that value is non-zero or
   the destination field held the zero value; ignored fields keep their value. *)
Lemma copy_leaf_value_lemma : forall sn sfs dname dfs ps c svs dvs cps r di si name t y x,
  let st := Struct sn sfs in
  let dt := Struct dname dfs in
  new_reflect_copier st dt ps = COk c ->
  Forall opt_ok ps -> Forall opt_ok cps ->
  has_type st (VStruct svs) = true -> has_type dt (VStruct dvs) = true ->
  reflect_copy_to c st dt (Some (VStruct svs)) (Some (VStruct dvs)) cps = (r, SOk) ->
  nth_opt dfs di = Some (name, true, t) ->
  assoc_find (field_map sfs 0 []) name = Some si ->      (* the exported source field of that name *)
  nth_opt sfs si = Some (name, true, t) ->
  nth_opt svs si = Some y -> nth_opt dvs di = Some x ->
  (is_shadow_kind (kind_of t) || is_atomic_type t) = true ->
  find_conv (effective_options c cps) name = None ->
  exists dvs', r = Some (VStruct dvs') /\
    (in_ignore (effective_options c cps) name = true -> nth_opt dvs' di = Some x) /\
    (in_ignore (effective_options c cps) name = false ->
     (is_zero y = false \/ x = zero_value t) -> nth_opt dvs' di = Some y).
Proof.
  intros sn sfs dname dfs ps c svs dvs cps r di si name t y x st dt
         Hnew Hps Hcps Hsv Hdv Hrun Hdf Hfind Hsf Hy Hx Hleaf Hnc.
  destruct (copy_spec_lemma st dt ps c _ _ cps r Hnew Hps Hcps Hsv Hdv Hrun) as [dv' [Hr [Ht Hpost]]].
  destruct dv' as [z|s|dvs'|p|s|m|z]; cbn in Ht; try discriminate Ht.
  exists dvs'. split; [exact Hr|].
  unfold st, dt in Hpost. rewrite post_struct with (sfs := sfs) in Hpost by reflexivity.
  assert (Hlen : exists x', nth_opt dvs' di = Some x').
  { unfold dt in Ht. rewrite <- has_type_struct with (n := dname) in Ht. rewrite has_type_struct in Ht.
    apply has_types_iff in Ht. destruct (flds_typed_nth _ _ _ _ _ _ Ht Hdf) as [x' [Hx' _]].
    exists x'. exact Hx'. }
  destruct Hlen as [x' Hx'].
  pose proof (post_each_nth _ _ _ _ _ _ _ _ _ _ _ _ Hpost Hdf Hx Hx') as Hh.
  cbn [andb] in Hh.
  assert (Hnp : is_ptr_kind t = false).
  { destruct t; cbn in Hleaf; try discriminate Hleaf; reflexivity. }
  destruct (nonptr_facts _ Hnp) as [Hu [Hd Hdd]].
  split.
  - intros Hig. rewrite Hig in Hh. cbn [negb] in Hh. rewrite Hx'. f_equal. exact Hh.
  - intros Hig Hcond. rewrite Hig in Hh. cbn [negb] in Hh. rewrite Hfind, Hsf in Hh.
    cbn [sfield] in Hh. rewrite Hy in Hh. unfold field_post in Hh.
    rewrite Hu, Hleaf, Hd, Hnc, Hdd, Hnp in Hh. cbn [rewrap] in Hh.
    destruct Hh as [_ [x1' [Hx1 [_ Hval]]]]. rewrite Hx'. f_equal. subst x'. apply Hval. exact Hcond.
Qed.
