(* Pointer-level red-black tree: deletion fix-up.  fixAfterDeleteLeft / fixAfterDeleteRight and the loop of
   fixAfterDelete against the recursive model's fixL / fixR and unwinding [unwind_del] (RBPtrProof5). *)
From Ekit Require Import Common RBModel RBPtrModel RBPtrProof RBPtrProof2 RBPtrProof3 RBPtrProof4 RBPtrProof5.

(* the node x at the root of an arbitrary subtree (real or phantom) *)
Lemma irep_root_node h t p x : irep h t p -> rid t = Some x ->
  exists c k v l r, hget h x = Some (mkn c k v l r p).
Proof.
  intros H Hr. destruct t as [|j k v|j c l k v r]; cbn in *; try discriminate; injection Hr as ->.
  - eauto 8.
  - destruct H as (Hi & _). eauto 8.
Qed.
Ltac root_neqs xt x Hin :=
  repeat match goal with
  | H : disj (ids xt) ?l |- _ =>
    lazymatch goal with
    | _ : ~ In x l |- _ => fail
    | _ => assert (~ In x l) by (exact (H x Hin))
    end
  | H : disj ?l (ids xt) |- _ =>
    lazymatch goal with
    | _ : ~ In x l |- _ => fail
    | _ => assert (~ In x l) by (let E := fresh in intro E; exact (H x E Hin))
    end
  | H : ~ In ?i (ids xt) |- _ =>
    lazymatch goal with
    | _ : i <> x |- _ => fail
    | _ => assert (i <> x) by (let E := fresh in intro E; subst; contradiction)
    end
  end.

(* the second half of fixAfterDeleteLeft / Right: the sibling is not (any more) a red node to rotate up *)
Definition fixDL_tail (x sib : ptr) : M ptr :=
    sl <- getLeft sib ;; slc <- getColor sl ;;
    both <- (match slc with
             | Black => sr <- getRight sib ;; src <- getColor sr ;;
                        ret (match src with Black => true | Red => false end)
             | Red => ret false
             end) ;;
    if both then
      setColor sib Red ;;;
      getParent x
    else
      sr <- getRight sib ;; src <- getColor sr ;;
      sib <- (match src with
              | Black =>
                sl1 <- getLeft sib ;; setColor sl1 Black ;;;
                setColor sib Red ;;;
                rotateRight sib ;;;
                p3 <- getParent x ;; getRight p3
              | Red => ret sib
              end) ;;
      p4 <- getParent x ;; pc <- getColor p4 ;; setColor sib pc ;;;
      p5 <- getParent x ;; setColor p5 Black ;;;
      sr1 <- getRight sib ;; setColor sr1 Black ;;;
      p6 <- getParent x ;; rotateLeft p6 ;;;
      get_root.
Lemma fixAfterDeleteLeft_split x :
  fixAfterDeleteLeft x =
    (p <- getParent x ;; sib <- getRight p ;;
     sc <- getColor sib ;;
     sib <- (match sc with
             | Red =>
               setColor sib Black ;;;
               sp <- getParent sib ;; setColor sp Red ;;;
               p1 <- getParent x ;; rotateLeft p1 ;;;
               p2 <- getParent x ;; getRight p2
             | Black => ret sib
             end) ;;
     fixDL_tail x sib).
Proof. reflexivity. Qed.

Definition fixDR_tail (x sib : ptr) : M ptr :=
    sr <- getRight sib ;; src <- getColor sr ;;
    both <- (match src with
             | Black => sl <- getLeft sib ;; slc <- getColor sl ;;
                        ret (match slc with Black => true | Red => false end)
             | Red => ret false
             end) ;;
    if both then
      setColor sib Red ;;;
      getParent x
    else
      sl <- getLeft sib ;; slc <- getColor sl ;;
      sib <- (match slc with
              | Black =>
                sr1 <- getRight sib ;; setColor sr1 Black ;;;
                setColor sib Red ;;;
                rotateLeft sib ;;;
                p3 <- getParent x ;; getLeft p3
              | Red => ret sib
              end) ;;
      p4 <- getParent x ;; pc <- getColor p4 ;; setColor sib pc ;;;
      p5 <- getParent x ;; setColor p5 Black ;;;
      sl1 <- getLeft sib ;; setColor sl1 Black ;;;
      p6 <- getParent x ;; rotateRight p6 ;;;
      get_root.
Lemma fixAfterDeleteRight_split x :
  fixAfterDeleteRight x =
    (p <- getParent x ;; sib <- getLeft p ;;
     sc <- getColor sib ;;
     sib <- (match sc with
             | Red =>
               setColor sib Black ;;;
               p0 <- getParent x ;; setColor p0 Red ;;;
               p1 <- getParent x ;; rotateRight p1 ;;;
               getBrother x
             | Black => ret sib
             end) ;;
     fixDR_tail x sib).
Proof. reflexivity. Qed.

Lemma cids_app a b : cids (a ++ b) = cids a ++ cids b.
Proof. induction a as [|f a IH]; [reflexivity|]. cbn [app cids]. rewrite IH, <- app_assoc. reflexivity. Qed.
Lemma cphs_app a b : cphs (a ++ b) = cphs a ++ cphs b.
Proof. induction a as [|f a IH]; [reflexivity|]. cbn [app cphs]. rewrite IH, <- app_assoc. reflexivity. Qed.

Section DelFix.

  Lemma fixDL_tail_spec h rt sz nx cl rest p pc pk pv sib xt x :
    cfg h rt (IFL p pc pk pv sib :: rest) xt -> rid xt = Some x -> phs sib = [] ->
    wp (fixDL_tail (Some x) (rid sib)) (mkst h rt sz nx cl) (fun a s' =>
      exists h' rt' t1 nf, s' = mkst h' rt' sz nx cl /\ cfg h' rt' rest t1 /\
        fixL_black pc (erase xt) pk pv (erase sib) = (erase t1, nf) /\
        same (ids t1) (ids xt ++ p :: ids sib) /\ same (phs t1) (phs xt ++ phs sib) /\
        icol t1 = pc /\ a = (if nf then rid t1 else rt') /\ (nf = true -> rid t1 = Some p)).
  Proof.
    intros H Hrid Hph.
    assert (Hin : In x (ids xt)) by (apply rid_in; exact Hrid).
    destruct H as (Hc & Hr & Hnd).
    destruct (irep_root_node _ _ _ _ Hr Hrid) as (xc & xk & xv & xl & xr & Hx). cbn [cpar fid] in Hx.
    assert (H : cfg h rt (IFL p pc pk pv sib :: rest) xt) by (split; [exact Hc|split; [exact Hr|exact Hnd]]).
    clear Hc Hr Hnd.
    destruct sib as [|si sk sv|s sc sl sk sv sr].
    - (* no sibling *)
      cfg_open H. root_neqs xt x Hin.
      unfold wp, fixDL_tail. munfold. mrun.
      exists h, rt, (IT p pc xt pk pv IE), true. split; [reflexivity|]. split; [cfg_tac|].
      split; [reflexivity|]. split; [same_tac|]. split; [same_tac|]. repeat split; reflexivity.
    - cbn in Hph. discriminate.
    - cbn [phs] in Hph. apply app_eq_nil in Hph. destruct Hph as [Hpl Hpr].
      destruct sl as [|?|sl' [|] sll slk slv slr]; [|cbn in Hpl; discriminate| |];
      (destruct sr as [|?|sr' [|] srl srk srv srr]; [|cbn in Hpr; discriminate| |]).
      all: cfg_open H; root_neqs xt x Hin.
      all: unfold wp, fixDL_tail; munfold; mrun.
      Ltac dl_both t1 := 
        eexists; eexists; exists t1, true; split; [reflexivity|]; split; [cfg_tac|];
        split; [reflexivity|]; split; [same_tac|]; split; [same_tac|]; repeat split; reflexivity.
      Ltac dl_outer rest p xt pk pv s pc SL sk sv sr' srl srk srv srr :=
        let h1 := fresh "h1" in let rt1 := fresh "rt1" in let Hrun1 := fresh "Hrun1" in let Hcfg1 := fresh "Hcfg1" in
        call_rotL rest p Black xt pk pv s pc SL sk sv (IT sr' Black srl srk srv srr) h1 rt1 Hrun1 Hcfg1;
        mrun; exists h1, rt1, (IT s pc (IT p Black xt pk pv SL) sk sv (IT sr' Black srl srk srv srr)), false;
        split; [reflexivity|]; split; [exact Hcfg1|];
        split; [reflexivity|]; split; [same_tac|]; split; [same_tac|]; repeat split; try reflexivity; discriminate.
      Ltac dl_inner Hrid rest p xt pk pv s pc sl' sll slk slv slr sk sv SR :=
        let h1 := fresh "h1" in let rt1 := fresh "rt1" in let Hrun1 := fresh "Hrun1" in let Hcfg1 := fresh "Hcfg1" in
        let h2 := fresh "h2" in let rt2 := fresh "rt2" in let Hrun2 := fresh "Hrun2" in let Hcfg2 := fresh "Hcfg2" in
        call_rotR (IFR p pc xt pk pv :: rest) s Red sl' Black sll slk slv slr sk sv SR h1 rt1 Hrun1 Hcfg1;
        cfg_open Hcfg1;
        match goal with HH : irep h1 xt _ |- _ => destruct (irep_root_node _ _ _ _ HH Hrid) as (? & ? & ? & ? & ? & ?) end;
        mrun;
        call_rotL rest p Black xt pk pv sl' pc sll slk slv (IT s Black slr sk sv SR) h2 rt2 Hrun2 Hcfg2;
        mrun; exists h2, rt2, (IT sl' pc (IT p Black xt pk pv sll) slk slv (IT s Black slr sk sv SR)), false;
        split; [reflexivity|]; split; [exact Hcfg2|];
        split; [reflexivity|]; split; [same_tac|]; split; [same_tac|]; repeat split; try reflexivity; discriminate.
      + dl_both (IT p pc xt pk pv (IT s Red IE sk sv IE)).
      + dl_outer rest p xt pk pv s pc IE sk sv sr' srl srk srv srr.
      + dl_both (IT p pc xt pk pv (IT s Red IE sk sv (IT sr' Black srl srk srv srr))).
      + dl_inner Hrid rest p xt pk pv s pc sl' sll slk slv slr sk sv IE.
      + dl_outer rest p xt pk pv s pc (IT sl' Red sll slk slv slr) sk sv sr' srl srk srv srr.
      + dl_inner Hrid rest p xt pk pv s pc sl' sll slk slv slr sk sv (IT sr' Black srl srk srv srr).
      + dl_both (IT p pc xt pk pv (IT s Red (IT sl' Black sll slk slv slr) sk sv IE)).
      + dl_outer rest p xt pk pv s pc (IT sl' Black sll slk slv slr) sk sv sr' srl srk srv srr.
      + dl_both (IT p pc xt pk pv (IT s Red (IT sl' Black sll slk slv slr) sk sv (IT sr' Black srl srk srv srr))).
  Qed.

  Lemma fixAfterDeleteLeft_spec h rt sz nx cl rest p pc pk pv sib xt x :
    cfg h rt (IFL p pc pk pv sib :: rest) xt -> rid xt = Some x -> phs sib = [] ->
    wp (fixAfterDeleteLeft (Some x)) (mkst h rt sz nx cl) (fun a s' =>
      exists h' rt' ctx' t1 nf, s' = mkst h' rt' sz nx cl /\ cfg h' rt' (ctx' ++ rest) t1 /\
        fixL pc (erase xt) pk pv (erase sib) = unwind_del (ectx ctx') (erase t1, nf) /\
        same (ids t1 ++ cids ctx') (ids xt ++ p :: ids sib) /\ same (phs t1 ++ cphs ctx') (phs xt ++ phs sib) /\
        (if nf then a = rid t1 /\ ((ctx' = [] /\ a = Some p) \/ icol t1 = Red)
         else a = rt' /\ ctx' = [] /\ (icol t1 = pc \/ icol t1 = Black))).
  Proof.
    intros H Hrid Hph. rewrite fixAfterDeleteLeft_split.
    assert (Hin : In x (ids xt)) by (apply rid_in; exact Hrid).
    pose proof H as (_ & Hr0 & _).
    destruct (irep_root_node _ _ _ _ Hr0 Hrid) as (xc & xk & xv & xl & xr & Hx). cbn [cpar fid] in Hx. clear Hr0.
    destruct sib as [|si sk sv|s [|] sl sk sv sr].
    - (* nil sibling *)
      destruct (wp_ok _ _ _ (fixDL_tail_spec h rt sz nx cl rest p pc pk pv IE xt x H Hrid Hph))
        as (a & s' & Hrun & h' & rt' & t1 & nf & -> & Hcfg' & Hfix & Hids & Hphs & Hic & Ha & Hnf).
      cfg_open H. root_neqs xt x Hin. unfold wp. munfold. mrun. cbn [rid] in Hrun. rewrite Hrun.
      exists h', rt', [], t1, nf. split; [reflexivity|]. split; [exact Hcfg'|]. split; [exact Hfix|].
      split; [cbn [cids]; rewrite app_nil_r; exact Hids|]. split; [cbn [cphs]; rewrite app_nil_r; exact Hphs|].
      destruct nf; [split; [exact Ha|left; split; [reflexivity|rewrite Ha; apply Hnf; reflexivity]]|split; [exact Ha|split; [reflexivity|left; exact Hic]]].
    - cbn in Hph. discriminate.
    - (* red sibling: recolour, rotate it up, continue with its left child as the sibling *)
      cbn [phs] in Hph. apply app_eq_nil in Hph. destruct Hph as [Hpl Hpr].
      pose proof H as H0. cfg_open H0. root_neqs xt x Hin. unfold wp. munfold. mrun.
      call_rotL rest p Red xt pk pv s Black sl sk sv sr h1 rt1 Hrun1 Hcfg1.
      pose proof Hcfg1 as Hcfg1'. cfg_open Hcfg1'.
      match goal with HH : irep h1 xt _ |- _ => destruct (irep_root_node _ _ _ _ HH Hrid) as (? & ? & ? & ? & ? & ?) end.
      mrun.
      assert (Hcfg2 : cfg h1 rt1 (IFL p Red pk pv sl :: IFL s Black sk sv sr :: rest) xt)
        by (apply cfg_down; apply (cfg_down _ _ (IFL s Black sk sv sr)); exact Hcfg1).
      destruct (wp_ok _ _ _ (fixDL_tail_spec h1 rt1 sz nx cl _ p Red pk pv sl xt x Hcfg2 Hrid Hpl))
        as (a & s' & Hrun & h' & rt' & t1 & nf & -> & Hcfg' & Hfix & Hids & Hphs & Hic & Ha & Hnf).
      rewrite Hrun. cbn [erase fixL]. rewrite Hfix.
      destruct nf.
      + exists h', rt', [IFL s Black sk sv sr], t1, true. split; [reflexivity|]. split; [exact Hcfg'|].
        split.
        { destruct t1 as [|?|ti [|] tl tk tv tr]; cbn in Hic; try discriminate. reflexivity. }
        split; [same_via Hids|]. split; [same_via Hphs|]. split; [exact Ha|right; exact Hic].
      + exists h', rt', [], (IT s Black t1 sk sv sr), false. split; [reflexivity|].
        split; [apply (cfg_up _ _ (IFL s Black sk sv sr)); exact Hcfg'|].
        split; [reflexivity|]. split; [same_via Hids|]. split; [same_via Hphs|].
        split; [exact Ha|split; [reflexivity|right; reflexivity]].
    - (* black sibling *)
      destruct (wp_ok _ _ _ (fixDL_tail_spec h rt sz nx cl rest p pc pk pv _ xt x H Hrid Hph))
        as (a & s' & Hrun & h' & rt' & t1 & nf & -> & Hcfg' & Hfix & Hids & Hphs & Hic & Ha & Hnf).
      cfg_open H. root_neqs xt x Hin. unfold wp. munfold. mrun. cbn [rid] in Hrun. rewrite Hrun.
      exists h', rt', [], t1, nf. split; [reflexivity|]. split; [exact Hcfg'|]. split; [exact Hfix|].
      split; [cbn [cids]; rewrite app_nil_r; exact Hids|]. split; [cbn [cphs]; rewrite app_nil_r; exact Hphs|].
      destruct nf; [split; [exact Ha|left; split; [reflexivity|rewrite Ha; apply Hnf; reflexivity]]|split; [exact Ha|split; [reflexivity|left; exact Hic]]].
  Qed.

  Lemma fixDR_tail_spec h rt sz nx cl rest p pc pk pv sib xt x :
    cfg h rt (IFR p pc sib pk pv :: rest) xt -> rid xt = Some x -> phs sib = [] ->
    wp (fixDR_tail (Some x) (rid sib)) (mkst h rt sz nx cl) (fun a s' =>
      exists h' rt' t1 nf, s' = mkst h' rt' sz nx cl /\ cfg h' rt' rest t1 /\
        fixR_black pc (erase sib) pk pv (erase xt) = (erase t1, nf) /\
        same (ids t1) (ids xt ++ p :: ids sib) /\ same (phs t1) (phs xt ++ phs sib) /\
        icol t1 = pc /\ a = (if nf then rid t1 else rt') /\ (nf = true -> rid t1 = Some p)).
  Proof.
    intros H Hrid Hph.
    assert (Hin : In x (ids xt)) by (apply rid_in; exact Hrid).
    destruct H as (Hc & Hr & Hnd).
    destruct (irep_root_node _ _ _ _ Hr Hrid) as (xc & xk & xv & xl & xr & Hx). cbn [cpar fid] in Hx.
    assert (H : cfg h rt (IFR p pc sib pk pv :: rest) xt) by (split; [exact Hc|split; [exact Hr|exact Hnd]]).
    clear Hc Hr Hnd.
    destruct sib as [|si sk sv|s sc sl sk sv sr].
    - cfg_open H. root_neqs xt x Hin.
      unfold wp, fixDR_tail. munfold. mrun.
      exists h, rt, (IT p pc IE pk pv xt), true. split; [reflexivity|]. split; [cfg_tac|].
      split; [reflexivity|]. split; [same_tac|]. split; [same_tac|]. repeat split; reflexivity.
    - cbn in Hph. discriminate.
    - cbn [phs] in Hph. apply app_eq_nil in Hph. destruct Hph as [Hpl Hpr].
      destruct sl as [|?|sl' [|] sll slk slv slr]; [|cbn in Hpl; discriminate| |];
      (destruct sr as [|?|sr' [|] srl srk srv srr]; [|cbn in Hpr; discriminate| |]).
      all: cfg_open H; root_neqs xt x Hin.
      all: unfold wp, fixDR_tail; munfold; mrun.
      Ltac dr_both t1 := 
        eexists; eexists; exists t1, true; split; [reflexivity|]; split; [cfg_tac|];
        split; [reflexivity|]; split; [same_tac|]; split; [same_tac|]; repeat split; reflexivity.
      Ltac dr_outer rest p xt pk pv s pc sl' sll slk slv slr sk sv SR :=
        let h1 := fresh "h1" in let rt1 := fresh "rt1" in let Hrun1 := fresh "Hrun1" in let Hcfg1 := fresh "Hcfg1" in
        call_rotR rest p Black s pc (IT sl' Black sll slk slv slr) sk sv SR pk pv xt h1 rt1 Hrun1 Hcfg1;
        mrun; exists h1, rt1, (IT s pc (IT sl' Black sll slk slv slr) sk sv (IT p Black SR pk pv xt)), false;
        split; [reflexivity|]; split; [exact Hcfg1|];
        split; [reflexivity|]; split; [same_tac|]; split; [same_tac|]; repeat split; try reflexivity; discriminate.
      Ltac dr_inner Hrid rest p xt pk pv s pc SL sk sv sr' srl srk srv srr :=
        let h1 := fresh "h1" in let rt1 := fresh "rt1" in let Hrun1 := fresh "Hrun1" in let Hcfg1 := fresh "Hcfg1" in
        let h2 := fresh "h2" in let rt2 := fresh "rt2" in let Hrun2 := fresh "Hrun2" in let Hcfg2 := fresh "Hcfg2" in
        call_rotL (IFL p pc pk pv xt :: rest) s Red SL sk sv sr' Black srl srk srv srr h1 rt1 Hrun1 Hcfg1;
        cfg_open Hcfg1;
        match goal with HH : irep h1 xt _ |- _ => destruct (irep_root_node _ _ _ _ HH Hrid) as (? & ? & ? & ? & ? & ?) end;
        mrun;
        call_rotR rest p Black sr' pc (IT s Black SL sk sv srl) srk srv srr pk pv xt h2 rt2 Hrun2 Hcfg2;
        mrun; exists h2, rt2, (IT sr' pc (IT s Black SL sk sv srl) srk srv (IT p Black srr pk pv xt)), false;
        split; [reflexivity|]; split; [exact Hcfg2|];
        split; [reflexivity|]; split; [same_tac|]; split; [same_tac|]; repeat split; try reflexivity; discriminate.
      + dr_both (IT p pc (IT s Red IE sk sv IE) pk pv xt).
      + dr_inner Hrid rest p xt pk pv s pc IE sk sv sr' srl srk srv srr.
      + dr_both (IT p pc (IT s Red IE sk sv (IT sr' Black srl srk srv srr)) pk pv xt).
      + dr_outer rest p xt pk pv s pc sl' sll slk slv slr sk sv IE.
      + dr_outer rest p xt pk pv s pc sl' sll slk slv slr sk sv (IT sr' Red srl srk srv srr).
      + dr_outer rest p xt pk pv s pc sl' sll slk slv slr sk sv (IT sr' Black srl srk srv srr).
      + dr_both (IT p pc (IT s Red (IT sl' Black sll slk slv slr) sk sv IE) pk pv xt).
      + dr_inner Hrid rest p xt pk pv s pc (IT sl' Black sll slk slv slr) sk sv sr' srl srk srv srr.
      + dr_both (IT p pc (IT s Red (IT sl' Black sll slk slv slr) sk sv (IT sr' Black srl srk srv srr)) pk pv xt).
  Qed.

  Lemma fixAfterDeleteRight_spec h rt sz nx cl rest p pc pk pv sib xt x :
    cfg h rt (IFR p pc sib pk pv :: rest) xt -> rid xt = Some x -> phs sib = [] ->
    wp (fixAfterDeleteRight (Some x)) (mkst h rt sz nx cl) (fun a s' =>
      exists h' rt' ctx' t1 nf, s' = mkst h' rt' sz nx cl /\ cfg h' rt' (ctx' ++ rest) t1 /\
        fixR pc (erase sib) pk pv (erase xt) = unwind_del (ectx ctx') (erase t1, nf) /\
        same (ids t1 ++ cids ctx') (ids xt ++ p :: ids sib) /\ same (phs t1 ++ cphs ctx') (phs xt ++ phs sib) /\
        (if nf then a = rid t1 /\ ((ctx' = [] /\ a = Some p) \/ icol t1 = Red)
         else a = rt' /\ ctx' = [] /\ (icol t1 = pc \/ icol t1 = Black))).
  Proof.
    intros H Hrid Hph. rewrite fixAfterDeleteRight_split.
    assert (Hin : In x (ids xt)) by (apply rid_in; exact Hrid).
    pose proof H as (_ & Hr0 & _).
    destruct (irep_root_node _ _ _ _ Hr0 Hrid) as (xc & xk & xv & xl & xr & Hx). cbn [cpar fid] in Hx. clear Hr0.
    destruct sib as [|si sk sv|s [|] sl sk sv sr].
    - destruct (wp_ok _ _ _ (fixDR_tail_spec h rt sz nx cl rest p pc pk pv IE xt x H Hrid Hph))
        as (a & s' & Hrun & h' & rt' & t1 & nf & -> & Hcfg' & Hfix & Hids & Hphs & Hic & Ha & Hnf).
      cfg_open H. root_neqs xt x Hin. unfold wp. munfold. mrun. cbn [rid] in Hrun. rewrite Hrun.
      exists h', rt', [], t1, nf. split; [reflexivity|]. split; [exact Hcfg'|]. split; [exact Hfix|].
      split; [cbn [cids]; rewrite app_nil_r; exact Hids|]. split; [cbn [cphs]; rewrite app_nil_r; exact Hphs|].
      destruct nf; [split; [exact Ha|left; split; [reflexivity|rewrite Ha; apply Hnf; reflexivity]]|split; [exact Ha|split; [reflexivity|left; exact Hic]]].
    - cbn in Hph. discriminate.
    - cbn [phs] in Hph. apply app_eq_nil in Hph. destruct Hph as [Hpl Hpr].
      pose proof H as H0. cfg_open H0. root_neqs xt x Hin. unfold wp. munfold. mrun.
      call_rotR rest p Red s Black sl sk sv sr pk pv xt h1 rt1 Hrun1 Hcfg1.
      pose proof Hcfg1 as Hcfg1'. cfg_open Hcfg1'.
      match goal with HH : irep h1 xt _ |- _ => destruct (irep_root_node _ _ _ _ HH Hrid) as (? & ? & ? & ? & ? & ?) end.
      root_neqs xt x Hin. mrun.
      assert (Hcfg2 : cfg h1 rt1 (IFR p Red sr pk pv :: IFR s Black sl sk sv :: rest) xt)
        by (apply cfg_down; apply (cfg_down _ _ (IFR s Black sl sk sv)); exact Hcfg1).
      destruct (wp_ok _ _ _ (fixDR_tail_spec h1 rt1 sz nx cl _ p Red pk pv sr xt x Hcfg2 Hrid Hpr))
        as (a & s' & Hrun & h' & rt' & t1 & nf & -> & Hcfg' & Hfix & Hids & Hphs & Hic & Ha & Hnf).
      rewrite Hrun. cbn [erase fixR]. rewrite Hfix.
      destruct nf.
      + exists h', rt', [IFR s Black sl sk sv], t1, true. split; [reflexivity|]. split; [exact Hcfg'|].
        split.
        { destruct t1 as [|?|ti [|] tl tk tv tr]; cbn in Hic; try discriminate. reflexivity. }
        split; [same_via Hids|]. split; [same_via Hphs|]. split; [exact Ha|right; exact Hic].
      + exists h', rt', [], (IT s Black sl sk sv t1), false. split; [reflexivity|].
        split; [apply (cfg_up _ _ (IFR s Black sl sk sv)); exact Hcfg'|].
        split; [reflexivity|]. split; [same_via Hids|]. split; [same_via Hphs|].
        split; [exact Ha|split; [reflexivity|right; reflexivity]].
    - destruct (wp_ok _ _ _ (fixDR_tail_spec h rt sz nx cl rest p pc pk pv _ xt x H Hrid Hph))
        as (a & s' & Hrun & h' & rt' & t1 & nf & -> & Hcfg' & Hfix & Hids & Hphs & Hic & Ha & Hnf).
      cfg_open H. root_neqs xt x Hin. unfold wp. munfold. mrun. cbn [rid] in Hrun. rewrite Hrun.
      exists h', rt', [], t1, nf. split; [reflexivity|]. split; [exact Hcfg'|]. split; [exact Hfix|].
      split; [cbn [cids]; rewrite app_nil_r; exact Hids|]. split; [cbn [cphs]; rewrite app_nil_r; exact Hphs|].
      destruct nf; [split; [exact Ha|left; split; [reflexivity|rewrite Ha; apply Hnf; reflexivity]]|split; [exact Ha|split; [reflexivity|left; exact Hic]]].
  Qed.

  (* ---------- the loop of fixAfterDelete ---------- *)
  Lemma setcol_black_id t : col t = Black -> setcol Black t = t.
  Proof. destruct t as [|[|] l k v r]; cbn; intro H; try discriminate; reflexivity. Qed.
  Lemma resolve_black t : col t = Black -> resolve (t, true) = (t, true).
  Proof. unfold resolve, isred. intros ->. reflexivity. Qed.
  Lemma resolve_red t : col t = Red -> resolve (t, true) = (setcol Black t, false).
  Proof. unfold resolve, isred. intros ->. reflexivity. Qed.
  Lemma root_black_col ctx t : root_black ctx -> ctx <> [] -> col (erase (iplug ctx t)) = Black.
  Proof.
    revert t. induction ctx as [|f rest IH]; intros t Hrb Hne; [congruence|].
    destruct rest as [|g rest'].
    - destruct f; cbn in Hrb |- *; exact Hrb.
    - rewrite iplug_cons. apply IH; [exact Hrb|discriminate].
  Qed.

  (* leaving the loop: x is the root, or x is red *)
  Lemma fixAfterDelete_exit fuel h rt sz nx cl ctx t1 :
    cfg h rt ctx t1 -> ctx = [] \/ icol t1 = Red ->
    fixAfterDelete_loop (S fuel) (rid t1) (mkst h rt sz nx cl) = ROk (rid t1) (mkst h rt sz nx cl).
  Proof.
    intros H [->|Hred].
    - destruct H as (Hc & _). cbn [ictx] in Hc. subst rt. cbn [fixAfterDelete_loop]. munfold. mrun. reflexivity.
    - destruct t1 as [|?|x [|] l k v r]; cbn in Hred; try discriminate.
      destruct ctx as [|f rest].
      + destruct H as (Hc & _). cbn [ictx] in Hc. subst rt. cbn [fixAfterDelete_loop]. munfold. mrun. reflexivity.
      + pose proof (cfg_root_neq _ _ _ _ _ x H (or_introl eq_refl)) as Hne.
        cfg_open H. cbn [fixAfterDelete_loop rid]. munfold. mrun. rewrite Hne. mrun. reflexivity.
  Qed.
  Lemma exit_pure ctx t1 : ctx = [] \/ icol t1 = Red ->
    erase (iplug ctx (isetcol Black t1)) = fst (resolve (unwind_del (ectx ctx) (erase t1, true))).
  Proof.
    intros [->|Hred].
    - cbn [iplug ectx map unwind_del]. rewrite erase_isetcol. unfold resolve.
      destruct (isred (erase t1)) eqn:Hr; cbn [andb fst]; [reflexivity|].
      apply setcol_black_id. unfold isred in Hr. destruct (col (erase t1)); [discriminate|reflexivity].
    - rewrite erase_iplug, erase_isetcol. destruct ctx as [|f rest].
      + cbn [plug ectx map unwind_del]. rewrite resolve_red by (rewrite col_erase; exact Hred). reflexivity.
      + cbn [ectx map unwind_del plug].
        assert (Hup : up_del (eframe f) (erase t1, true) = (plug1 (eframe f) (setcol Black (erase t1)), false)).
        { destruct f; cbn [eframe plug1]; unfold up_del, upL, upR; rewrite resolve_red by (rewrite col_erase; exact Hred); reflexivity. }
        rewrite Hup, unwind_del_false. reflexivity.
  Qed.

  Lemma blacken_at h rt sz nx cl ctx t1 :
    cfg h rt ctx t1 ->
    exists h', setColor (rid t1) Black (mkst h rt sz nx cl) = ROk tt (mkst h' rt sz nx cl) /\ cfg h' rt ctx (isetcol Black t1).
  Proof.
    intro H. destruct t1 as [|i k v|i c l k v r].
    - exists h. split; [reflexivity|exact H].
    - destruct H as (Hc & Hr & Hnd). cbn [irep rid ids] in *. eexists. split; [munfold; mrun; reflexivity|].
      nd_sat. split; [apply ictx_hset_other; assumption|]. split; [cbn [irep isetcol with_col ncol nkey nval nleft nright npar]; hsimp; reflexivity|].
      cbn [ids isetcol]. nd_goal.
    - destruct H as (Hc & Hr & Hnd). cbn [irep rid ids] in *. dands. eexists. split; [munfold; mrun; reflexivity|].
      nd_sat. split; [apply ictx_hset_other; assumption|]. cbn [irep isetcol with_col ncol nkey nval nleft nright npar ids].
      split; [|nd_goal]. hsimp. repeat split; fin.
  Qed.

  Lemma fixAfterDelete_loop_spec : forall n ctx, (length ctx <= n)%nat ->
    forall fuel xt x h rt sz nx cl,
    cfg h rt ctx xt -> rid xt = Some x -> cphs ctx = [] -> root_black ctx -> (length ctx < fuel)%nat ->
    exists h' rt' ctx' t1,
      fixAfterDelete_loop fuel (Some x) (mkst h rt sz nx cl) = ROk (rid t1) (mkst h' rt' sz nx cl) /\
      cfg h' rt' ctx' t1 /\
      erase (iplug ctx' (isetcol Black t1)) = fst (resolve (unwind_del (ectx ctx) (erase xt, true))) /\
      same (ids t1 ++ cids ctx') (ids xt ++ cids ctx) /\
      same (phs t1 ++ cphs ctx') (phs xt ++ cphs ctx).
  Proof.
    induction n as [|n IH]; intros ctx Hlen fuel xt x h rt sz nx cl H Hrid Hcph Hrb Hfuel.
    - destruct ctx; [|cbn in Hlen; lia]. destruct fuel as [|fuel]; [cbn in Hfuel; lia|].
      exists h, rt, [], xt. rewrite <- Hrid. split; [eapply fixAfterDelete_exit; [exact H|left; reflexivity]|].
      split; [exact H|]. split; [apply exit_pure; left; reflexivity|]. split; apply same_refl.
    - destruct ctx as [|f rest].
      { destruct fuel as [|fuel]; [cbn in Hfuel; lia|].
        exists h, rt, [], xt. rewrite <- Hrid. split; [eapply fixAfterDelete_exit; [exact H|left; reflexivity]|].
        split; [exact H|]. split; [apply exit_pure; left; reflexivity|]. split; apply same_refl. }
      destruct (icol xt) eqn:Hxc.
      { destruct fuel as [|fuel]; [cbn in Hfuel; lia|].
        exists h, rt, (f :: rest), xt. rewrite <- Hrid. split; [eapply fixAfterDelete_exit; [exact H|right; exact Hxc]|].
        split; [exact H|]. split; [apply exit_pure; right; exact Hxc|]. split; apply same_refl. }
      (* x black, not the root: one iteration *)
      destruct fuel as [|[|fuel]]; [cbn in Hfuel; lia|cbn in Hfuel; lia|].
      assert (Hin : In x (ids xt)) by (apply rid_in; exact Hrid).
      pose proof (cfg_root_neq _ _ _ _ _ x H Hin) as Hne.
      assert (Hxcol : exists xk xv xl xr, hget h x = Some (mkn Black xk xv xl xr (Some (fid f)))).
      { destruct H as (_ & Hr & _). destruct xt as [|i k v|i c l k v r]; cbn in Hrid, Hxc, Hr; try discriminate; injection Hrid as ->.
        - eauto.
        - subst c. destruct Hr as (Hi & _). eauto. }
      destruct Hxcol as (xk & xv & xl & xr & Hx).
      assert (Hstep : exists h' rt' ctx' t1 nf a,
                 (forall fuel', fixAfterDelete_loop (S fuel') (Some x) (mkst h rt sz nx cl) =
                                fixAfterDelete_loop fuel' a (mkst h' rt' sz nx cl)) /\
                 cfg h' rt' (ctx' ++ rest) t1 /\
                 up_del (eframe f) (erase xt, true) = unwind_del (ectx ctx') (erase t1, nf) /\
                 same (ids t1 ++ cids ctx') (ids xt ++ fid f :: ids (fsib f)) /\
                 same (phs t1 ++ cphs ctx') (phs xt ++ phs (fsib f)) /\
                 (if nf then a = rid t1 /\ ((ctx' = [] /\ a = Some (fid f)) \/ icol t1 = Red)
                  else a = rt' /\ ctx' = [] /\ (icol t1 = fcol f \/ icol t1 = Black))).
      { assert (Hcx : col (erase xt) = Black) by (rewrite col_erase; exact Hxc).
        cbn [cphs] in Hcph. apply app_eq_nil in Hcph. destruct Hcph as [Hps _].
        destruct f as [p pc pk pv sib|p pc sib pk pv]; cbn [fsib fid fcol eframe] in *; unfold up_del, upL, upR; rewrite (resolve_black _ Hcx).
        - destruct (wp_ok _ _ _ (fixAfterDeleteLeft_spec h rt sz nx cl rest p pc pk pv sib xt x H Hrid Hps))
            as (a & s' & Hrun & h' & rt' & ctx' & t1 & nf & -> & Hcfg' & Hfix & Hids & Hphs & Hout).
          exists h', rt', ctx', t1, nf, a. split.
          { intro fuel'. cfg_open H. cbn [fixAfterDelete_loop]. munfold. mrun. rewrite Hne. mrun. rewrite Hrid. mrun. rewrite Hrun. reflexivity. }
          split; [exact Hcfg'|]. split; [exact Hfix|]. split; [exact Hids|]. split; [exact Hphs|exact Hout].
        - destruct (wp_ok _ _ _ (fixAfterDeleteRight_spec h rt sz nx cl rest p pc pk pv sib xt x H Hrid Hps))
            as (a & s' & Hrun & h' & rt' & ctx' & t1 & nf & -> & Hcfg' & Hfix & Hids & Hphs & Hout).
          exists h', rt', ctx', t1, nf, a. split.
          { intro fuel'. assert (Hnx : ~ In x (ids sib)).
            { destruct H as (_ & _ & Hnd). cbn [cids fsib fid] in Hnd. nd_sat. root_neqs xt x Hin. assumption. }
            cfg_open H. cbn [fixAfterDelete_loop]. munfold. mrun. rewrite Hne. mrun. rewrite Hrun. reflexivity. }
          split; [exact Hcfg'|]. split; [exact Hfix|]. split; [exact Hids|]. split; [exact Hphs|exact Hout]. }
      destruct Hstep as (h' & rt' & ctx' & t1 & nf & a & Hrun & Hcfg' & Hup & Hids & Hphs & Hout).
      assert (Heq : unwind_del (ectx (f :: rest)) (erase xt, true) = unwind_del (ectx (ctx' ++ rest)) (erase t1, nf)).
      { cbn [ectx map unwind_del]. rewrite Hup. unfold ectx. rewrite map_app, unwind_del_app. reflexivity. }
      rewrite Heq.
      destruct nf.
      + destruct Hout as (Ha & [[-> Hap]|Hred]).
        * (* deficit moves up to the parent *)
          cbn [app] in *. rewrite Ha in Hap.
          destruct (IH rest ltac:(cbn in Hlen; lia) (S fuel) t1 (fid f) h' rt' sz nx cl Hcfg' Hap
                       ltac:(cbn [cphs] in Hcph; apply app_eq_nil in Hcph; tauto)
                       ltac:(destruct rest; [exact I|exact Hrb]) ltac:(cbn in Hfuel |- *; lia))
            as (h2 & rt2 & ctx2 & t2 & Hrun2 & Hcfg2 & He2 & Hids2 & Hphs2).
          exists h2, rt2, ctx2, t2. split; [rewrite Hrun, Ha, Hap; exact Hrun2|]. split; [exact Hcfg2|].
          split; [exact He2|]. cbn [cids cphs] in Hids, Hphs. rewrite app_nil_r in Hids, Hphs.
          split.
          -- eapply same_trans; [exact Hids2|]. same_via Hids.
          -- eapply same_trans; [exact Hphs2|]. same_via Hphs.
        * (* the new x is red: leave and blacken *)
          exists h', rt', (ctx' ++ rest), t1. split; [rewrite Hrun, Ha; eapply fixAfterDelete_exit; [exact Hcfg'|right; exact Hred]|].
          split; [exact Hcfg'|]. split; [apply exit_pure; right; exact Hred|].
          split.
          -- rewrite cids_app. same_via Hids.
          -- rewrite cphs_app. same_via Hphs.
      + (* rotations done: x = root *)
        destruct Hout as (-> & -> & Hcol). cbn [app] in *.
        pose proof (cfg_plug _ _ _ _ Hcfg') as Hcfg2.
        assert (Hrt : rt' = rid (iplug rest t1)) by (destruct Hcfg2 as (Hc & _); exact Hc).
        assert (Hblack : col (erase (iplug rest t1)) = Black).
        { destruct rest as [|g rest'].
          - cbn [iplug]. rewrite col_erase. cbn [root_black] in Hrb. destruct Hcol as [Hc|Hc]; congruence.
          - apply root_black_col; [exact Hrb|discriminate]. }
        exists h', rt', [], (iplug rest t1). split; [rewrite Hrun, Hrt; eapply fixAfterDelete_exit; [rewrite <- Hrt; exact Hcfg2|left; reflexivity]|].
        split; [exact Hcfg2|]. split.
        { cbn [iplug]. rewrite erase_isetcol, (setcol_black_id _ Hblack), unwind_del_false, erase_iplug. reflexivity. }
        cbn [cids cphs] in Hids, Hphs |- *. rewrite app_nil_r in Hids, Hphs. rewrite !app_nil_r.
        split.
        -- eapply same_trans; [apply ids_iplug|]. same_via Hids.
        -- eapply same_trans; [apply phs_iplug|]. same_via Hphs.
  Qed.

  Lemma fixAfterDelete_spec fuel ctx xt x h rt sz nx cl :
    cfg h rt ctx xt -> rid xt = Some x -> cphs ctx = [] -> root_black ctx -> (length ctx < fuel)%nat ->
    exists h' rt' t',
      fixAfterDelete fuel (Some x) (mkst h rt sz nx cl) = ROk tt (mkst h' rt' sz nx cl) /\
      cfg h' rt' [] t' /\
      erase t' = fst (resolve (unwind_del (ectx ctx) (erase xt, true))) /\
      same (ids t') (ids xt ++ cids ctx) /\ same (phs t') (phs xt ++ cphs ctx).
  Proof.
    intros H Hrid Hcph Hrb Hfuel.
    destruct (fixAfterDelete_loop_spec _ ctx (le_n _) fuel xt x h rt sz nx cl H Hrid Hcph Hrb Hfuel)
      as (h1 & rt1 & ctx1 & t1 & Hrun1 & Hcfg1 & He1 & Hids1 & Hphs1).
    destruct (blacken_at h1 rt1 sz nx cl ctx1 t1 Hcfg1) as (h2 & Hrun2 & Hcfg2).
    exists h2, rt1, (iplug ctx1 (isetcol Black t1)).
    split; [unfold fixAfterDelete; erewrite bind_ok; [|exact Hrun1]; exact Hrun2|].
    split; [apply cfg_plug; exact Hcfg2|]. split; [exact He1|].
    split.
    - eapply same_trans; [apply ids_iplug|]. rewrite ids_isetcol. exact Hids1.
    - eapply same_trans; [apply phs_iplug|]. rewrite phs_isetcol. exact Hphs1.
  Qed.
End DelFix.
