(* Proofs about DQModel, part 1: thread-table facts, the case-analysis tactic for one event,
   and the structural invariant (distinct thread ids, the mutex is held exactly by the thread
   whose program counter is inside a critical section, sites are consistent with program
   counters, no fatal run-time error).  Gives mutual exclusion. *)
From Ekit Require Import Common Conc DQModel.
From Coq Require Import Arith PeanoNat ZifyBool.

(* ---------- thread table ---------- *)
Lemma lookup_map_thr (f : dthr -> dthr) t (l : list (tid * dthr)) :
  lookup t (map (fun e => (fst e, f (snd e))) l) = option_map f (lookup t l).
Proof.
  induction l as [|[t' p] r IH]; cbn; [reflexivity|].
  destruct (Nat.eqb t t'); [reflexivity|exact IH].
Qed.

Lemma lookup_wake x g t l : lookup t (wake_thr x g l) = option_map (wake1 x g) (lookup t l).
Proof. apply lookup_map_thr. Qed.

Lemma tids_wake x g l : tids (wake_thr x g l) = tids l.
Proof. unfold tids, wake_thr. rewrite map_map. reflexivity. Qed.

Lemma lookup_spawn_same (t : tid) (p : dthr) l : lookup t l = None -> lookup t (spawn t p l) = Some p.
Proof.
  unfold spawn. induction l as [|[t' p'] r IH]; cbn.
  - rewrite Nat.eqb_refl. reflexivity.
  - destruct (Nat.eqb t t'); [discriminate|exact IH].
Qed.

Lemma lookup_spawn_other (t t2 : tid) (p : dthr) l : t2 <> t -> lookup t2 (spawn t p l) = lookup t2 l.
Proof.
  intros Hne. unfold spawn. induction l as [|[t' p'] r IH]; cbn.
  - destruct (Nat.eqb t2 t) eqn:E; [apply Nat.eqb_eq in E; congruence|reflexivity].
  - destruct (Nat.eqb t2 t'); [reflexivity|exact IH].
Qed.

Lemma lookup_remove_same (t : tid) (l : list (tid * dthr)) : NoDup (tids l) -> lookup t (remove t l) = None.
Proof.
  induction l as [|[t' p'] r IH]; cbn; [reflexivity|]. intros Hnd.
  inversion Hnd as [|x xs Hn Hr]; subst.
  destruct (Nat.eqb t t') eqn:E.
  - apply Nat.eqb_eq in E. subst. apply lookup_none_not_in. exact Hn.
  - cbn. rewrite E. apply IH, Hr.
Qed.

Lemma lookup_remove_other (t t2 : tid) (l : list (tid * dthr)) : t2 <> t -> lookup t2 (remove t l) = lookup t2 l.
Proof.
  intros Hne. induction l as [|[t' p'] r IH]; cbn; [reflexivity|].
  destruct (Nat.eqb t t') eqn:E.
  - apply Nat.eqb_eq in E. subst.
    destruct (Nat.eqb t2 t') eqn:E2; [apply Nat.eqb_eq in E2; congruence|reflexivity].
  - cbn. destruct (Nat.eqb t2 t'); [reflexivity|exact IH].
Qed.

(* ---------- projections of qset_cnd (the cond is not always a constructor) ---------- *)
Lemma cnd_thr c x v : q_thr (qset_cnd c x v) = q_thr c. Proof. destruct x; reflexivity. Qed.
Lemma cnd_mutex c x v : q_mutex (qset_cnd c x v) = q_mutex c. Proof. destruct x; reflexivity. Qed.
Lemma cnd_heap c x v : q_heap (qset_cnd c x v) = q_heap c. Proof. destruct x; reflexivity. Qed.
Lemma cnd_now c x v : q_now (qset_cnd c x v) = q_now c. Proof. destruct x; reflexivity. Qed.
Lemma cnd_cap c x v : q_cap (qset_cnd c x v) = q_cap c. Proof. destruct x; reflexivity. Qed.
Lemma cnd_old c x v : q_old (qset_cnd c x v) = q_old c. Proof. destruct x; reflexivity. Qed.
Lemma cnd_bad c x v : q_bad (qset_cnd c x v) = q_bad c. Proof. destruct x; reflexivity. Qed.
Lemma cnd_ins c x v : q_ins (qset_cnd c x v) = q_ins c. Proof. destruct x; reflexivity. Qed.
Lemma cnd_out c x v : q_out (qset_cnd c x v) = q_out c. Proof. destruct x; reflexivity. Qed.
Lemma cnd_okd c x v : q_okd (qset_cnd c x v) = q_okd c. Proof. destruct x; reflexivity. Qed.
Lemma cnd_get_same c x v : get_cnd (qset_cnd c x v) x = v. Proof. destruct x; reflexivity. Qed.
Lemma cnd_get_thr c thr x : get_cnd (qset_thr c thr) x = get_cnd c x. Proof. destruct x; reflexivity. Qed.
Lemma cnd_get_mutex c m x : get_cnd (qset_mutex c m) x = get_cnd c x. Proof. destruct x; reflexivity. Qed.
Lemma cnd_get_heap c m x : get_cnd (qset_heap c m) x = get_cnd c x. Proof. destruct x; reflexivity. Qed.
Lemma cnd_get_ins c m i x : get_cnd (qset_ins c m i) x = get_cnd c x. Proof. destruct x; reflexivity. Qed.
Lemma cnd_get_bad c x : get_cnd (qset_bad c) x = get_cnd c x. Proof. destruct x; reflexivity. Qed.
Lemma cnd_get_out c m x : get_cnd (qset_out c m) x = get_cnd c x. Proof. destruct x; reflexivity. Qed.
Lemma cnd_get_okd c m x : get_cnd (qset_okd c m) x = get_cnd c x. Proof. destruct x; reflexivity. Qed.
Lemma cnd_get_now c m x : get_cnd (qset_now c m) x = get_cnd c x. Proof. destruct x; reflexivity. Qed.
Lemma cnd_get_other c x y v : x <> y -> get_cnd (qset_cnd c x v) y = get_cnd c y.
Proof. destruct x, y; try reflexivity; congruence. Qed.
Global Hint Rewrite cnd_thr cnd_mutex cnd_heap cnd_now cnd_cap cnd_old cnd_bad cnd_ins cnd_out cnd_okd
  cnd_get_same cnd_get_thr cnd_get_mutex cnd_get_heap cnd_get_ins cnd_get_bad cnd_get_out cnd_get_okd cnd_get_now : dqr.

(* ---------- one event, by cases ---------- *)
Ltac dq_simpl :=
  cbn [q_cap q_old q_now q_mutex q_heap q_esig q_dsig q_thr q_bad q_ins q_out q_okd
       qset_thr qset_now qset_mutex qset_heap qset_ins qset_bad qset_out qset_okd qset_cnd get_cnd
       t_pc t_site t_el t_herr t_dly t_sg t_bnew t_bold t_tm t_canc t_rv t_eff t_teval t_lag
       dset_pc dset_site dset_val dset_herr dset_dly dset_sg dset_bnew dset_bold dset_tm dset_arm
       dset_canc dset_rv dset_eff c_cur c_next c_closed tm_armed tm_buf fst snd] in *.
Ltac dq_cnd := autorewrite with dqr.

(* split [H : dq_step_thr c t th k = Some (c', obs)] (with [Hpc : t_pc th = ...] already known) *)
Ltac dq_split H :=
  repeat match type of H with
         | context [match ?x with _ => _ end] =>
           destruct x eqn:?
         end;
  try discriminate H.

Ltac dq_unfold H :=
  unfold goto, park, fin, q_unlock in H.

(* ---------- the structural invariant ---------- *)
Definition mutex_is (c : dq_cfg) (t : tid) : bool :=
  match q_mutex c with Some t' => Nat.eqb t' t | None => false end.

(* which return sites a program counter can carry *)
Definition site_ok (p : dq_pc) (s : dq_site) : bool :=
  match p with
  | EFor | ESel0 | ECaseCtx0 | ERetCtx0 | EDefault0 | ELock | EDo | ESwitch | EBcast | ERetNil
  | ESigCh | ESel1 | EPark1 | ECaseCtx1 | ERetCtx1 | ECaseSig | EDefUnlock | EDefRet =>
    match s with SEnq => true | _ => false end
  | DBcast0 | DRet0 | DSigCh0 | DIfTimer | DNewTimer | DReset | DSel1 | DPark1 =>
    match s with SDeqA => true | _ => false end
  | DBcast1 | DRet1 | DSigCh1 | DSel2 | DPark2 =>
    match s with SDeqB => true | _ => false end
  | Bc1 | Bc2 | Bc3 | Bc4 | Bc5 | Sc1 | Sc2 | Sc3 => true
  | _ => match s with SEnq => false | _ => true end
  end.

(* the timer exists where the code dereferences it *)
Definition tm_ok (th : dthr) : bool :=
  match t_pc th with
  | DReset | DDeferStop | DSel1 | DPark1 | DCaseTimer => match t_tm th with Some _ => true | None => false end
  | _ => true
  end.

Definition holds_at (c : dq_cfg) (t : tid) : bool :=
  match lookup t (q_thr c) with Some th => holds_lock (t_pc th) | None => false end.

Record invA (c : dq_cfg) : Prop := {
  a_nodup : NoDup (tids (q_thr c));
  a_mutex : forall t, holds_at c t = mutex_is c t;
  a_site : forall t th, lookup t (q_thr c) = Some th -> site_ok (t_pc th) (t_site th) = true;
  a_tm : forall t th, lookup t (q_thr c) = Some th -> tm_ok th = true
}.

Lemma invA_init cap old : invA (dq_init cap old).
Proof. constructor; cbn; try constructor; intros; try discriminate; reflexivity. Qed.

Lemma wake1_pc_holds x g th : holds_lock (t_pc (wake1 x g th)) = holds_lock (t_pc th).
Proof.
  unfold wake1, parked_on. destruct (t_pc th) eqn:E; cbn; rewrite ?E; try reflexivity;
    destruct (cnd_eqb (wcond (t_site th)) x && Nat.eqb (t_sg th) g); cbn; rewrite ?E; reflexivity.
Qed.

Lemma mutex_is_self c t : q_mutex c = Some t -> mutex_is c t = true.
Proof. unfold mutex_is. intros ->. apply Nat.eqb_refl. Qed.

(* projections of fin_log *)
Lemma fl_thr c th r : q_thr (fin_log c th r) = q_thr c. Proof. destruct r; reflexivity. Qed.
Lemma fl_mutex c th r : q_mutex (fin_log c th r) = q_mutex c. Proof. destruct r; reflexivity. Qed.
Lemma fl_heap c th r : q_heap (fin_log c th r) = q_heap c. Proof. destruct r; reflexivity. Qed.
Lemma fl_now c th r : q_now (fin_log c th r) = q_now c. Proof. destruct r; reflexivity. Qed.
Lemma fl_cap c th r : q_cap (fin_log c th r) = q_cap c. Proof. destruct r; reflexivity. Qed.
Lemma fl_old c th r : q_old (fin_log c th r) = q_old c. Proof. destruct r; reflexivity. Qed.
Lemma fl_bad c th r : q_bad (fin_log c th r) = q_bad c. Proof. destruct r; reflexivity. Qed.
Lemma fl_ins c th r : q_ins (fin_log c th r) = q_ins c. Proof. destruct r; reflexivity. Qed.
Lemma fl_esig c th r : q_esig (fin_log c th r) = q_esig c. Proof. destruct r; reflexivity. Qed.
Lemma fl_dsig c th r : q_dsig (fin_log c th r) = q_dsig c. Proof. destruct r; reflexivity. Qed.
Lemma fl_cnd c th r x : get_cnd (fin_log c th r) x = get_cnd c x. Proof. destruct r, x; reflexivity. Qed.
Global Hint Rewrite fl_thr fl_mutex fl_heap fl_now fl_cap fl_old fl_bad fl_ins fl_esig fl_dsig fl_cnd : dqr.

(* Peek / Dequeue of the inner queue *)
Lemma do_peek_inv c t th k next r : do_peek c t th k next = Some r ->
  (q_heap c = [] /\ r = (qset_thr c (update t (dset_pc (dset_herr th HEmpty) next) (q_thr c)), [(t, OAt next)])) \/
  (exists v, In v (mins (q_heap c)) /\
             r = (qset_thr c (update t (dset_pc (dset_val th v HNil) next) (q_thr c)), [(t, OAt next)])).
Proof.
  unfold do_peek, goto. destruct (q_heap c) as [|a l] eqn:E.
  - intros H; injection H as <-. left. split; reflexivity.
  - destruct (nth_error (mins (a :: l)) k) as [v|] eqn:En; [|discriminate].
    intros H; injection H as <-. right. exists v. split; [|reflexivity].
    eapply nth_error_In; exact En.
Qed.

Lemma do_deq_inv c t th k s next r : do_deq c t th k s next = Some r ->
  (q_heap c = [] /\
   r = (qset_thr c (update t (dset_pc (dset_site (dset_val th zero_elem HEmpty) s) next) (q_thr c)), [(t, OAt next)])) \/
  (exists v, In v (mins (q_heap c)) /\
             r = (qset_thr (qset_heap c (remove_first v (q_heap c)))
                    (update t (dset_pc (dset_site (dset_eff (dset_val th v HNil) (Removed v)) s) next) (q_thr c)),
                  [(t, OAt next)])).
Proof.
  unfold do_deq, goto. destruct (q_heap c) as [|a l] eqn:E.
  - intros H; injection H as <-. left. split; reflexivity.
  - destruct (nth_error (mins (a :: l)) k) as [v|] eqn:En; [|discriminate].
    intros H; injection H as <-. right. exists v. split; [|reflexivity].
    eapply nth_error_In; exact En.
Qed.

(* blocking select: park, or one of the ready cases *)
Lemma sel_inv c t th ready pk k r : sel c t th ready pk k = Some r ->
  (ready = [] /\ r = (qset_thr c (update t (dset_pc th pk) (q_thr c)), [])) \/
  (exists p th', In (p, th') ready /\ r = (qset_thr c (update t (dset_pc th' p) (q_thr c)), [(t, OAt p)])).
Proof.
  unfold sel, park, goto. destruct ready as [|a l].
  - intros H; injection H as <-. left. split; reflexivity.
  - destruct (nth_error (a :: l) k) as [[p th']|] eqn:E; [|discriminate].
    intros H; injection H as <-. right. exists p, th'. split; [|reflexivity].
    eapply nth_error_In; exact E.
Qed.

Ltac dq_in Hin :=
  repeat (apply in_app_or in Hin; destruct Hin as [Hin|Hin]);
  match type of Hin with
  | In _ (if ?b then _ else _) => destruct b eqn:?; cbn [In] in Hin; [destruct Hin as [Hin|[]]; injection Hin as <- <-|destruct Hin]
  end.

(* case analysis of one event: every case ends with c' and obs substituted;
   names: t (thread), th (its locals before), Hl (lookup), Hpc (program counter) *)
Ltac dq_lookup H :=
  match type of H with
  | context [lookup ?t (q_thr ?c)] => destruct (lookup t (q_thr c)) as [th|] eqn:Hl
  end.
Ltac dq_step_cases H :=
  lazymatch type of H with
  | sel _ _ _ _ _ _ = Some _ =>
    let Hin := fresh "Hin" in let Hr := fresh "Hready" in
    apply sel_inv in H; destruct H as [[Hr H]|(p & th' & Hin & H)];
    [ injection H as -> -> | dq_in Hin; injection H as -> -> ]
  | do_peek _ _ _ _ _ = Some _ =>
    let Hin := fresh "Hmin" in let Hh := fresh "Hheap" in
    apply do_peek_inv in H; destruct H as [[Hh H]|(v & Hin & H)]; injection H as -> ->
  | do_deq _ _ _ _ _ _ = Some _ =>
    let Hin := fresh "Hmin" in let Hh := fresh "Hheap" in
    apply do_deq_inv in H; destruct H as [[Hh H]|(v & Hin & H)]; injection H as -> ->
  | _ => dq_unfold H; dq_split H; dq_unfold H; dq_split H; injection H as <- <-
  end.
Ltac dq_cases H :=
  unfold dq_exec1 in H;
  match type of H with
  | match ?e with _ => _ end = _ => destruct e as [t x|t|t k|t|t|d]
  end;
  [ dq_lookup H; [discriminate H|]; injection H as <- <-
  | dq_lookup H; [discriminate H|]; injection H as <- <-
  | dq_lookup H; [|discriminate H];
    unfold dq_step_thr in H;
    match type of H with match t_pc ?th0 with _ => _ end = _ => destruct (t_pc th0) eqn:Hpc end;
    dq_step_cases H
  | dq_lookup H; [|discriminate H];
    dq_unfold H; dq_split H; injection H as <- <-
  | dq_lookup H; [|discriminate H];
    dq_unfold H; dq_split H; injection H as <- <-
  | dq_split H; injection H as <- <- ].

(* goal: forall t2 th2, lookup t2 (thr') = Some th2 -> P; splits into the active thread (th2 is
   its new entry; the old one is th with Hl) and the others (Hl2 : lookup t2 (q_thr c) = Some th2') *)
Tactic Notation "dq_thread" ident(t2) ident(th2) ident(Hl2) ident(Hne) :=
  intros t2 th2 Hl2;
  rewrite ?lookup_wake in Hl2;
  match goal with
  | Hl : lookup ?t _ = _ |- _ =>
    destruct (Nat.eq_dec t2 t) as [->|Hne];
    [ first [ rewrite (lookup_update_same _ _ _ _ _ Hl) in Hl2
            | rewrite (lookup_spawn_same _ _ _ Hl) in Hl2
            | rewrite lookup_remove_same in Hl2 by assumption ]
    | first [ rewrite (lookup_update_other _ _ _ _ _ Hne) in Hl2
            | rewrite (lookup_spawn_other _ _ _ _ Hne) in Hl2
            | rewrite (lookup_remove_other _ _ _ Hne) in Hl2 ] ]
  end;
  cbn [option_map] in Hl2;
  [ first [discriminate Hl2 | injection Hl2 as <- | idtac] | ].

Ltac dq_nodup Hnd :=
  rewrite ?tids_wake, ?tids_update;
  first [ exact Hnd | apply nodup_spawn; assumption | apply nodup_remove; exact Hnd ].

(* make symbolic program counters / sites concrete where the successor depends on them *)
Ltac dq_sym :=
  try match goal with H : is_park (t_pc ?th0) = true |- _ => destruct (t_pc th0) eqn:Hpc; try discriminate H end;
  try match goal with H : is_tpark (t_pc ?th0) = true |- _ => destruct (t_pc th0) eqn:Hpc; try discriminate H end;
  try match goal with |- context [after_bcast (t_site ?th0)] => destruct (t_site th0) eqn:Hst end;
  try match goal with |- context [after_sigch (t_site ?th0)] => destruct (t_site th0) eqn:Hst end.

Lemma wake1_site x g th : t_site (wake1 x g th) = t_site th.
Proof. unfold wake1. destruct (parked_on x g th); reflexivity. Qed.
Lemma wake1_tm x g th : t_tm (wake1 x g th) = t_tm th.
Proof. unfold wake1. destruct (parked_on x g th); reflexivity. Qed.
Lemma wake1_pc x g th :
  t_pc (wake1 x g th) = if parked_on x g th then sig_case (t_pc th) else t_pc th.
Proof. unfold wake1. destruct (parked_on x g th); reflexivity. Qed.

Lemma wake1_site_ok x g th : site_ok (t_pc th) (t_site th) = true -> site_ok (t_pc (wake1 x g th)) (t_site (wake1 x g th)) = true.
Proof.
  rewrite wake1_site, wake1_pc. unfold parked_on.
  destruct (t_pc th) eqn:E; cbn; try (intros H; exact H);
    destruct (cnd_eqb (wcond (t_site th)) x && Nat.eqb (t_sg th) g); cbn; intros H; rewrite ?E; cbn;
    destruct (t_site th); try discriminate; reflexivity.
Qed.

Lemma wake1_tm_ok x g th : tm_ok th = true -> tm_ok (wake1 x g th) = true.
Proof.
  unfold tm_ok. rewrite wake1_tm, wake1_pc. unfold parked_on.
  destruct (t_pc th) eqn:E; cbn; try (intros H; exact H);
    destruct (cnd_eqb (wcond (t_site th)) x && Nat.eqb (t_sg th) g); cbn; intros H; rewrite ?E; auto.
Qed.

(* the old entry of another thread behind a possibly woken one *)
Ltac dq_unwake :=
  try match goal with
      | Hl2 : option_map _ (lookup ?t2 ?l) = Some _ |- _ =>
        let th0 := fresh "th0" in let E := fresh "Hl0" in
        destruct (lookup t2 l) as [th0|] eqn:E; [cbn [option_map] in Hl2; injection Hl2 as <-|discriminate Hl2]
      end.

Ltac eqb_false :=
  repeat match goal with
         | Hne : ?a <> ?b |- context [Nat.eqb ?b ?a] => replace (Nat.eqb b a) with false by (symmetry; apply Nat.eqb_neq; congruence)
         | Hne : ?a <> ?b |- context [Nat.eqb ?a ?b] => replace (Nat.eqb a b) with false by (symmetry; apply Nat.eqb_neq; congruence)
         end.

Ltac mx_solve :=
  unfold mutex_is in *; dq_simpl; dq_cnd;
  repeat match goal with H : q_mutex ?c = _ |- _ => rewrite H in * end;
  try rewrite Nat.eqb_refl;
  repeat match goal with
         | H : true = Nat.eqb ?a ?b |- _ => symmetry in H; apply Nat.eqb_eq in H; subst
         | H : true = match q_mutex ?c with _ => _ end |- _ => destruct (q_mutex c) eqn:?
         | H : false = match q_mutex ?c with _ => _ end |- _ => destruct (q_mutex c) eqn:?
         | |- context [match q_mutex ?c with _ => _ end] => destruct (q_mutex c) eqn:?
         end;
  rewrite ?Nat.eqb_refl; eqb_false; try reflexivity; try congruence; try discriminate.

(* goal: holds_at c' t2 = mutex_is c' t2 *)
Tactic Notation "mx_thread" ident(t2) ident(Hne) :=
  intros t2; unfold holds_at; dq_simpl; dq_cnd; dq_simpl; rewrite ?lookup_wake;
  match goal with
  | Hl : lookup ?t _ = _ |- _ =>
    destruct (Nat.eq_dec t2 t) as [->|Hne];
    [ first [ rewrite (lookup_update_same _ _ _ _ _ Hl)
            | rewrite (lookup_spawn_same _ _ _ Hl)
            | rewrite lookup_remove_same by assumption ]
    | first [ rewrite (lookup_update_other _ _ _ _ _ Hne)
            | rewrite (lookup_spawn_other _ _ _ _ Hne)
            | rewrite (lookup_remove_other _ _ _ Hne) ] ]
  end;
  cbn [option_map].

Lemma invA_step c e c' obs : invA c -> dq_exec1 c e = Some (c', obs) -> invA c'.
Proof.
  intros [Hnd Hmx Hsite Htm] H.
  dq_cases H.
  all: dq_sym.
  all: cbn [ctx_case after_bcast after_sigch bcond wcond].
  all: try (pose proof (Hmx t) as Hmx0; unfold holds_at in Hmx0; rewrite Hl in Hmx0; try rewrite Hpc in Hmx0; cbn [holds_lock] in Hmx0).
  all: try (pose proof (Hsite _ _ Hl) as Hsite0; rewrite Hpc in Hsite0).
  all: try (pose proof (Htm _ _ Hl) as Htm0; unfold tm_ok in Htm0; rewrite Hpc in Htm0).
  all: try (solve [exfalso; unfold mutex_is in Hmx0; rewrite Heqo in Hmx0; discriminate Hmx0]).
  all: try (solve [exfalso; rewrite Heqo in Htm0; discriminate Htm0]).
  all: constructor; dq_simpl; dq_cnd; dq_simpl.
  all: try (solve [dq_nodup Hnd]).
  all: try (solve [assumption]).
  all: try (solve [mx_thread t2 Hne;
                   first [ solve [rewrite ?wake1_pc_holds; dq_simpl; cbn [holds_lock new_enq new_deq t_pc]; mx_solve]
                         | solve [specialize (Hmx t2); unfold holds_at in Hmx;
                                  destruct (lookup t2 (q_thr c)); cbn [option_map]; rewrite ?wake1_pc_holds;
                                  (etransitivity; [exact Hmx|]); mx_solve] ]]).
  all: try (solve [dq_thread t2 th2 Hl2 Hne; dq_unwake; first [apply wake1_site_ok|idtac];
                   first [ solve [eapply Hsite; eassumption]
                         | solve [dq_simpl; cbn [new_enq new_deq t_pc t_site]; cbn [site_ok after_sigch after_bcast] in *;
                                  try reflexivity; try (unfold tm_take; destruct (t_tm th); dq_simpl);
                                  destruct (t_site th); try discriminate; reflexivity] ]]).
  all: try (solve [dq_thread t2 th2 Hl2 Hne; dq_unwake; first [apply wake1_tm_ok|idtac];
                   first [ solve [eapply Htm; eassumption]
                         | solve [unfold tm_ok, tm_take in *; dq_simpl; cbn [new_enq new_deq t_pc t_tm after_sigch after_bcast];
                                  try reflexivity; destruct (t_tm th); dq_simpl; try discriminate; try reflexivity;
                                  destruct (t_site th); try discriminate; reflexivity] ]]).
  - dq_thread t2 th2 Hl2 Hne; [dq_simpl; exact (Hsite _ _ Hl)|eapply Hsite; eassumption].
  - dq_thread t2 th2 Hl2 Hne; [exact (Htm _ _ Hl)|eapply Htm; eassumption].
  - dq_thread t2 th2 Hl2 Hne; [dq_simpl; exact (Hsite _ _ Hl)|eapply Hsite; eassumption].
  - dq_thread t2 th2 Hl2 Hne; [unfold tm_ok; dq_simpl; destruct (t_pc th); reflexivity|eapply Htm; eassumption].
Qed.

Lemma invA_reachable cap old evs c : exec dq_step (dq_init cap old) evs = Some c -> invA c.
Proof.
  apply (invariant_reachable _ _ dq_step invA); [|apply invA_init].
  intros c0 e c1 Hinv Hs. unfold dq_step in Hs.
  destruct (dq_exec1 c0 e) as [[c2 obs]|] eqn:E; [|discriminate].
  injection Hs as <-. eapply invA_step; eassumption.
Qed.

(* mutual exclusion: at most one call is inside a critical section *)
Lemma dq_mutual_exclusion_lemma cap old evs c t1 t2 th1 th2 :
  exec dq_step (dq_init cap old) evs = Some c ->
  lookup t1 (q_thr c) = Some th1 -> lookup t2 (q_thr c) = Some th2 ->
  holds_lock (t_pc th1) = true -> holds_lock (t_pc th2) = true -> t1 = t2.
Proof.
  intros Hex H1 H2 Hh1 Hh2. pose proof (invA_reachable _ _ _ _ Hex) as [_ Hmx _ _].
  pose proof (Hmx t1) as M1. pose proof (Hmx t2) as M2.
  unfold holds_at, mutex_is in *. rewrite H1 in M1. rewrite H2 in M2.
  rewrite Hh1 in M1. rewrite Hh2 in M2.
  destruct (q_mutex c) as [o|]; [|discriminate].
  symmetry in M1, M2. apply Nat.eqb_eq in M1, M2. congruence.
Qed.
