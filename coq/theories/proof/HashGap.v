(* C03, gaps closed after the audit:
   (1) alignment of Keys() and Values(): which pairing Keys[i] <-> Values[i] the code guarantees for
       HashMap / builtinMap / MultiMap (Go map iteration: only WITHIN one enumeration order) and
       LinkedMap (always, in first-insertion order), for every history;
   (2) a model of set.MapSet over the builtin-map model refines the abstract set (a membership
       predicate) for every history. *)
From Ekit Require Import Common DecorSpec HashModel DecorModel SetModel DecorSpecProof HashProof DecorProof.

(* ---------------- generic ---------------- *)
Lemma combine_fst_snd : forall (A B : Type) (l : list (A * B)), combine (map fst l) (map snd l) = l.
Proof.
  intros A B l. induction l as [|[a b] t IH]; [reflexivity|]. cbn [map fst snd combine]. rewrite IH. reflexivity.
Qed.

Lemma run_snoc : forall (S O R : Type) (step : S -> O -> S * R) (l : list O) (s : S) (o : O),
  fst (run step s (l ++ [o])) = fst (step (fst (run step s l)) o) /\
  snd (run step s (l ++ [o])) = snd (run step s l) ++ [snd (step (fst (run step s l)) o)].
Proof.
  intros S O R step l. induction l as [|x t IH]; intros s o.
  - cbn [app run fst snd]. destruct (step s o) as [s1 r]. cbn [fst snd app]. split; reflexivity.
  - cbn [app run]. destruct (step s x) as [s1 r]. cbn [fst snd]. destruct (IH s1 o) as [IH1 IH2].
    destruct (run step s1 (t ++ [o])) as [s2 rs]. destruct (run step s1 t) as [s3 rs']. cbn [fst snd] in *.
    split; [exact IH1|]. rewrite IH2. reflexivity.
Qed.

(* ================= (1a) HashMap ================= *)
(* Keys() and Values() are two separate `for _, bucketNode := range m.hashmap` loops.  Within ONE
   enumeration order t' of the bucket table (any permutation of it) the i-th key and the i-th value
   belong to the same node, and the pairs are exactly the abstract map's bindings. *)
Section HashPairs.
  Variable V : Type.
  Variable vzero : V.
  Variable code : Z -> Z.
  Variable eqb : Z -> Z -> bool.
  Hypothesis eqb_laws : eqb_equivalence eqb.
  Hypothesis code_law : hash_consistent code eqb.

  Definition reordered (s : hstate V) (t' : list (Z * list (Z * V))) : hstate V :=
    {| tbl := t'; pool := pool s; size := size s |}.

  Lemma reordered_flat : forall (s : hstate V) t' a, Permutation t' (tbl s) -> Permutation (hflat s) a ->
    combine (hkeys (reordered s t')) (hvals (reordered s t')) = hflat (reordered s t') /\
    Permutation (hflat (reordered s t')) a /\
    Permutation (hkeys (reordered s t')) (map fst a) /\
    Permutation (hvals (reordered s t')) (map snd a).
  Proof.
    intros s t' a HP Ha. unfold hkeys, hvals.
    assert (HF : Permutation (hflat (reordered s t')) a).
    { eapply Permutation_trans; [|exact Ha]. unfold hflat, reordered. cbn [tbl].
      apply Permutation_flat_map. exact HP. }
    split; [apply combine_fst_snd|]. split; [exact HF|]. split; apply Permutation_map; exact HF.
  Qed.

  Lemma hashmap_pairs_lemma : forall ops,
    let s := fst (run (hstep vzero code eqb) hinit ops) in
    let a := fst (run (astep vzero eqb) [] ops) in
    forall t', Permutation t' (tbl s) ->
      combine (hkeys (reordered s t')) (hvals (reordered s t')) = hflat (reordered s t') /\
      Permutation (hflat (reordered s t')) a /\
      Permutation (hkeys (reordered s t')) (map fst a) /\
      Permutation (hvals (reordered s t')) (map snd a).
  Proof.
    intros ops s a t' HP. apply reordered_flat; [exact HP|].
    exact (proj2 (proj1 (hash_run_sim V vzero code eqb eqb_laws code_law ops))).
  Qed.
End HashPairs.
Arguments reordered {V} s t'.

(* Across two DIFFERENT enumeration orders (two separate range loops may use different ones)
   nothing aligns: the pairing of a Keys() result with a separate Values() result can be wrong. *)
Lemma hashmap_separate_orders_unaligned_lemma :
  let s := fst (run (hstep 0 (code_mod 2) eqb_exact) hinit [MPut 1 10 None; MPut 2 20 None]) in
  let a := fst (run (astep 0 eqb_exact) [] [MPut 1 10 None; MPut 2 20 None]) in
  exists t1 t2, Permutation t1 (tbl s) /\ Permutation t2 (tbl s) /\
    ~ Permutation (combine (hkeys (reordered s t1)) (hvals (reordered s t2))) a.
Proof.
  cbn zeta. exists [(1, [(1, 10)]); (0, [(2, 20)])], [(0, [(2, 20)]); (1, [(1, 10)])].
  split; [vm_compute; apply Permutation_refl|]. split; [vm_compute; apply perm_swap|].
  intro HP. apply (Permutation_in (1, 20)) in HP; [|vm_compute; left; reflexivity].
  vm_compute in HP. destruct HP as [HP|[HP|[]]]; discriminate.
Qed.

(* ================= (1b) builtinMap ================= *)
(* model = the abstract map itself (Go's map trusted); Keys / Values are mapx.Keys / mapx.Values,
   two separate range loops: aligned within one enumeration order only. *)
Lemma builtinmap_pairs_lemma : forall ops,
  let a := fst (run builtin_step [] ops) in
  a = fst (run (astep 0 eqb_exact) [] ops) /\
  forall a', Permutation a' a ->
    combine (map fst a') (map snd a') = a' /\ Permutation (map fst a') (map fst a) /\
    Permutation (map snd a') (map snd a).
Proof.
  intros ops a. split; [reflexivity|]. intros a' HP. split; [apply combine_fst_snd|].
  split; apply Permutation_map; exact HP.
Qed.

(* ================= (1c) LinkedMap ================= *)
(* Keys() and Values() both walk the order list head -> tail: ALWAYS aligned, index by index, and
   equal to the abstract list = first-insertion order. *)
Section LinkedPairs.
  Variable V : Type.
  Variable vzero : V.
  Variable M : Type.
  Variable B : backing M nat.
  Variable eqb : Z -> Z -> bool.
  Variable R : M -> list (Z * nat) -> Prop.
  Hypothesis HB : backing_refines 0%nat eqb B R.

  Lemma linkedmap_pairs_lemma : forall m0, R m0 [] -> forall ops,
    let s := fst (run (lstep vzero B) (linit vzero m0) ops) in
    let a := fst (run (astep vzero eqb) [] ops) in
    snd (lstep vzero B s MKeys) = RKeys (map fst a) /\
    snd (lstep vzero B s MValues) = RVals (map snd a) /\
    combine (map fst a) (map snd a) = a.
  Proof.
    intros m0 H0 ops s a.
    pose proof (linkedmap_refines_lemma V vzero M B eqb R HB m0 H0 (ops ++ [MKeys])) as HK.
    pose proof (linkedmap_refines_lemma V vzero M B eqb R HB m0 H0 (ops ++ [MValues])) as HV.
    rewrite (proj2 (run_snoc _ _ _ (lstep vzero B) ops (linit vzero m0) MKeys)) in HK.
    rewrite (proj2 (run_snoc _ _ _ (astep vzero eqb) ops [] MKeys)) in HK.
    rewrite (proj2 (run_snoc _ _ _ (lstep vzero B) ops (linit vzero m0) MValues)) in HV.
    rewrite (proj2 (run_snoc _ _ _ (astep vzero eqb) ops [] MValues)) in HV.
    apply app_inj_tail in HK. apply app_inj_tail in HV.
    split; [exact (proj2 HK)|]. split; [exact (proj2 HV)|]. apply combine_fst_snd.
  Qed.
End LinkedPairs.

(* what "insertion order" means for the abstract list (hence, by the theorem above, for LinkedMap):
   re-Put of an existing key class keeps its position AND its stored key, only the value changes;
   a new class goes to the end; Delete removes in place, the others keep their relative order. *)
Section OrderSemantics.
  Variable V : Type.
  Variable eqb : Z -> Z -> bool.

  Lemma aput_existing_keeps_position : forall k (v x : V) (a : list (Z * V)),
    aget eqb k a = Some x ->
    map fst (aput eqb k v a) = map fst a /\
    exists l1 k0 l2, a = l1 ++ (k0, x) :: l2 /\ aput eqb k v a = l1 ++ (k0, v) :: l2.
  Proof.
    intros k v x a. induction a as [|[k0 v0] t IH]; intro H; [discriminate|].
    cbn [aget aput] in *. destruct (eqb k0 k) eqn:E.
    - inversion H; subst. split; [reflexivity|]. exists [], k0, t. split; reflexivity.
    - destruct (IH H) as [IH1 [l1 [k1 [l2 [Ha Hp]]]]]. split; [cbn [map fst]; rewrite IH1; reflexivity|].
      exists ((k0, v0) :: l1), k1, l2. rewrite Ha at 1. rewrite Hp. split; reflexivity.
  Qed.

  Lemma aput_new_appends : forall k (v : V) (a : list (Z * V)),
    aget eqb k a = None -> aput eqb k v a = a ++ [(k, v)].
  Proof. intros k v a H. apply aput_foreign. apply aget_none_foreign. exact H. Qed.

  Lemma adel_removes_in_place : forall k (x : V) (a : list (Z * V)),
    aget eqb k a = Some x ->
    exists l1 k0 l2, a = l1 ++ (k0, x) :: l2 /\ adel eqb k a = l1 ++ l2 /\ eqb k0 k = true.
  Proof.
    intros k x a H. destruct (aget_some_split V eqb k a x H) as [l1 [k0 [l2 [Ha [Hf He]]]]].
    exists l1, k0, l2. split; [exact Ha|]. split; [|exact He].
    rewrite Ha, (adel_app_r V eqb k _ _ Hf). cbn [adel]. rewrite He. reflexivity.
  Qed.
End OrderSemantics.

(* ================= (1d) MultiMap over the hash backing ================= *)
(* Keys() = m.m.Keys(), Values() = copies of m.m.Values(): as for the backing. *)
Lemma multi_hashmap_pairs_lemma : forall (V : Type) code eqb,
  eqb_equivalence eqb -> hash_consistent code eqb ->
  forall ops,
    let m := fst (run (mmstep (hash_backing (@nil V) code eqb)) hinit ops) in
    let a := fst (run (mm_spec_step eqb) [] ops) in
    forall t', Permutation t' (tbl m) ->
      combine (hkeys (reordered m t')) (map copy_slice (hvals (reordered m t'))) = hflat (reordered m t') /\
      Permutation (hflat (reordered m t')) a.
Proof.
  intros V code eqb He Hc ops m a t' HP.
  pose proof (run_sim _ _ (hR (list V) [] code eqb) (@mmout_equiv V)
                (multi_sim V _ (hash_backing [] code eqb) eqb (hR (list V) [] code eqb)
                   (hash_backing_refines_lemma (list V) [] code eqb He Hc))
                hinit [] (hR_init (list V) [] code eqb) ops) as [[W P] _].
  fold m in W, P. fold a in P.
  destruct (reordered_flat (list V) m t' a HP P) as [H1 [H2 _]].
  split; [|exact H2].
  rewrite (map_ext _ (fun l => l) (copy_slice_id V)), map_id. exact H1.
Qed.

(* ================= (2) MapSet ================= *)
Lemma ms_keys_of_map : forall l, ms_keys_of l = map fst l.
Proof.
  intro l. unfold ms_keys_of.
  assert (G : forall acc, fold_left (fun ans (kv : Z * unit) => ans ++ [fst kv]) l acc = acc ++ map fst l).
  { induction l as [|e t IH]; intro acc; [cbn; rewrite app_nil_r; reflexivity|].
    cbn [fold_left map]. rewrite IH, <- app_assoc. reflexivity. }
  rewrite G. reflexivity.
Qed.

(* the model of set.go and the model that the differential run executes (DecorModel.set_step) are
   the same function *)
Lemma ms_step_is_set_step : forall s o,
  sm (fst (ms_step s o)) = fst (set_step (sm s) o) /\ snd (ms_step s o) = snd (set_step (sm s) o).
Proof.
  intros s o. destruct o as [k|k|k|]; cbn [ms_step set_step fst snd ms_add ms_delete sm]; split; try reflexivity.
  - unfold ms_exist, gm_lookup, afound. destruct (aget eqb_exact k (sm s)) as [[]|]; reflexivity.
  - unfold ms_keys, gm_range. rewrite ms_keys_of_map. reflexivity.
Qed.

Lemma distinct_exact_nodup : forall (A : Type) (l : list (Z * A)), distinct eqb_exact l -> NoDup (map fst l).
Proof.
  intros A l. induction l as [|[k v] t IH]; intro H; [constructor|].
  cbn [distinct] in H. destruct H as [H1 H2]. cbn [map fst]. constructor; [|exact (IH H2)].
  intro Hin. apply in_map_iff in Hin. destruct Hin as [e [He1 He2]].
  rewrite Forall_forall in H1. specialize (H1 e He2). unfold eqb_exact in H1. rewrite He1, Z.eqb_refl in H1.
  discriminate.
Qed.

(* the simulation: the table has no duplicate key and holds exactly the members *)
Definition ms_inv (s : mapset) (f : aset) : Prop :=
  distinct eqb_exact (sm s) /\ forall x, In x (map fst (sm s)) <-> f x = true.

Lemma ms_inv_init : ms_inv ms_new aset_empty.
Proof. split; [exact I|]. intro x. cbn. split; [intros []|discriminate]. Qed.

Lemma ms_inv_enumeration : forall s f l, ms_inv s f -> Permutation l (gm_range (sm s)) ->
  lists_set (ms_keys_of l) f.
Proof.
  intros s f l [HD HM] HP. rewrite ms_keys_of_map. unfold gm_range in HP. split.
  - apply distinct_exact_nodup. eapply distinct_perm; [exact eqb_exact_equivalence|apply Permutation_sym; exact HP|exact HD].
  - intro x. rewrite <- HM. split; apply Permutation_in; apply Permutation_map; [exact HP|apply Permutation_sym; exact HP].
Qed.

Lemma ms_step_sim : forall s f o, ms_inv s f ->
  ms_inv (fst (ms_step s o)) (aset_next f o) /\ aset_out_ok f o (snd (ms_step s o)).
Proof.
  intros s f o [HD HM]. pose proof (set_step_spec (sm s) o HD) as [HD' HS].
  destruct (ms_step_is_set_step s o) as [E1 E2].
  destruct o as [k|k|k|]; cbn [aset_next aset_out_ok].
  - split; [|reflexivity]. split; [rewrite E1; exact HD'|]. intro x. rewrite E1, HS. unfold aset_add.
    destruct (Z.eqb_spec x k) as [->|Hne]; [intuition|]. rewrite <- HM. intuition congruence.
  - split; [|reflexivity]. split; [rewrite E1; exact HD'|]. intro x. rewrite E1, HS. unfold aset_remove.
    destruct (Z.eqb_spec x k) as [->|Hne]; [intuition congruence|]. rewrite <- HM. intuition.
  - split; [split; [exact HD|exact HM]|]. rewrite E2. cbn [set_step snd] in *.
    destruct (snd (afound tt eqb_exact k (sm s))) eqn:Ef.
    + f_equal. symmetry. apply HM. apply HS. reflexivity.
    + f_equal. destruct (f k) eqn:Efk; [|reflexivity]. apply HM in Efk. apply HS in Efk. discriminate.
  - split; [split; [exact HD|exact HM]|]. exists (ms_keys s). split; [reflexivity|].
    apply (ms_inv_enumeration s f (gm_range (sm s))); [split; assumption|apply Permutation_refl].
Qed.

Lemma ms_run_sim : forall ops s f, ms_inv s f ->
  aset_accepts f ops (snd (run ms_step s ops)) /\
  ms_inv (fst (run ms_step s ops)) (fold_left aset_next ops f).
Proof.
  intro ops. induction ops as [|o t IH]; intros s f H.
  - cbn. split; [exact I|exact H].
  - cbn [run fold_left]. destruct (ms_step_sim s f o H) as [H1 H2].
    destruct (ms_step s o) as [s1 r]. cbn [fst snd] in H1, H2. destruct (IH s1 _ H1) as [H3 H4].
    destruct (run ms_step s1 t) as [s2 rs]. cbn [fst snd aset_accepts] in *.
    split; [split; assumption|exact H4].
Qed.

Lemma mapset_refines_set_lemma : forall ops, aset_accepts aset_empty ops (snd (run ms_step ms_new ops)).
Proof. intro ops. exact (proj1 (ms_run_sim ops ms_new aset_empty ms_inv_init)). Qed.

(* after every history, for EVERY enumeration order of the map, Keys lists the abstract set exactly
   once each; hence it is a permutation of any other duplicate-free listing of the set *)
Lemma mapset_keys_lemma : forall ops,
  let s := fst (run ms_step ms_new ops) in
  let f := fold_left aset_next ops aset_empty in
  (forall k, ms_exist k s = f k) /\
  forall l, Permutation l (gm_range (sm s)) ->
    NoDup (ms_keys_of l) /\ (forall x, In x (ms_keys_of l) <-> f x = true) /\
    (forall l', lists_set l' f -> Permutation (ms_keys_of l) l').
Proof.
  intros ops s f. pose proof (proj2 (ms_run_sim ops ms_new aset_empty ms_inv_init)) as H. fold s f in H. split.
  - intro k. destruct (ms_step_sim s f (SExist k) H) as [_ Ho]. cbn [aset_out_ok ms_step snd] in Ho.
    inversion Ho. reflexivity.
  - intros l HP. destruct (ms_inv_enumeration s f l H HP) as [Hnd Hm]. split; [exact Hnd|]. split; [exact Hm|].
    intros l' [Hnd' Hm']. apply NoDup_Permutation; [exact Hnd|exact Hnd'|]. intro x. rewrite Hm, Hm'. tauto.
Qed.
