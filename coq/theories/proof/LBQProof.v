(* Proofs about LBQModel (C07, C09), part 1: thread-table facts, the case analysis of one step,
   and the first invariants: distinct thread ids, (operation, pc) well-formedness, the lock
   discipline (every thread inside a critical section owns the mutex; the owner is inside a
   critical section; reader count = readers inside). *)
From Ekit Require Import Common Conc LBQModel.
From Coq Require Import ZifyBool Arith PeanoNat.

(* ---------- thread tables ---------- *)
Section Tables.
  Variable A : Type.
  Implicit Types (thr : list (tid * A)).

  Lemma lookup_remove_other t t2 thr : t2 <> t -> lookup t2 (remove t thr) = lookup t2 thr.
  Proof.
    intros Hne. induction thr as [|[t' p'] r IH]; cbn [remove lookup]; [reflexivity|].
    destruct (Nat.eqb t t') eqn:E.
    - apply Nat.eqb_eq in E. subst t'.
      destruct (Nat.eqb t2 t) eqn:E2; [apply Nat.eqb_eq in E2; congruence|reflexivity].
    - cbn [lookup]. rewrite IH. reflexivity.
  Qed.

  Lemma lookup_remove_same t thr : NoDup (tids thr) -> lookup t (remove t thr) = None.
  Proof.
    induction thr as [|[t' p'] r IH]; cbn [remove lookup tids map fst]; [reflexivity|].
    intros Hnd. inversion Hnd as [|x xs Hn Hr]; subst.
    destruct (Nat.eqb t t') eqn:E.
    - apply Nat.eqb_eq in E. subst t'. apply lookup_none_not_in. exact Hn.
    - cbn [lookup]. rewrite E. apply IH. exact Hr.
  Qed.

  Lemma lookup_spawn t p t2 thr :
    lookup t2 (spawn t p thr) =
    match lookup t2 thr with Some x => Some x | None => if Nat.eqb t2 t then Some p else None end.
  Proof.
    unfold spawn. induction thr as [|[t' p'] r IH]; cbn [app lookup]; [reflexivity|].
    destruct (Nat.eqb t2 t'); [reflexivity|exact IH].
  Qed.

  Lemma lookup_update_inv t l0 l' thr t' l'' :
    lookup t thr = Some l0 -> lookup t' (update t l' thr) = Some l'' ->
    (t' = t /\ l'' = l') \/ (t' <> t /\ lookup t' thr = Some l'').
  Proof.
    intros Hl H. destruct (Nat.eq_dec t' t) as [->|Hne].
    - rewrite (lookup_update_same _ _ _ _ _ Hl) in H. injection H as <-. left; auto.
    - rewrite (lookup_update_other _ _ _ _ _ Hne) in H. right; auto.
  Qed.

  Lemma lookup_remove_inv t thr t' l'' :
    NoDup (tids thr) -> lookup t' (remove t thr) = Some l'' -> t' <> t /\ lookup t' thr = Some l''.
  Proof.
    intros Hnd H. destruct (Nat.eq_dec t' t) as [->|Hne].
    - rewrite (lookup_remove_same _ _ Hnd) in H. discriminate.
    - rewrite (lookup_remove_other _ _ _ Hne) in H. auto.
  Qed.

  Lemma lookup_spawn_inv t p thr t' l'' :
    lookup t thr = None -> lookup t' (spawn t p thr) = Some l'' ->
    (t' = t /\ l'' = p) \/ (t' <> t /\ lookup t' thr = Some l'').
  Proof.
    intros Hn H. rewrite lookup_spawn in H.
    destruct (lookup t' thr) as [x|] eqn:E.
    - right. split; [intros ->; congruence|exact H].
    - destruct (Nat.eqb t' t) eqn:E2; [|discriminate].
      apply Nat.eqb_eq in E2. injection H as <-. left; auto.
  Qed.

  Lemma tids_remove_incl t thr x : In x (tids (remove t thr)) -> In x (tids thr).
  Proof.
    induction thr as [|[t' p'] r IH]; cbn; [tauto|].
    destruct (Nat.eqb t t'); cbn; tauto.
  Qed.

  Lemma count_pos_lookup (f : A -> bool) t p0 thr :
    lookup t thr = Some p0 -> f p0 = true -> 1 <= count f thr.
  Proof.
    intros Hl Hf.
    pose proof (count_remove _ f t p0 thr Hl) as Hc. rewrite Hf in Hc.
    pose proof (count_nonneg _ f (remove t thr)) as Hn. lia.
  Qed.

  Lemma count_zero_lookup (f : A -> bool) t p0 thr :
    count f thr = 0 -> lookup t thr = Some p0 -> f p0 = false.
  Proof.
    intros Hc Hl. destruct (f p0) eqn:E; [|reflexivity].
    pose proof (count_pos_lookup f t p0 thr Hl E). lia.
  Qed.
End Tables.
Arguments lookup_remove_other {A}. Arguments lookup_remove_same {A}. Arguments lookup_spawn {A}.
Arguments lookup_update_inv {A}. Arguments lookup_remove_inv {A}. Arguments lookup_spawn_inv {A}.
Arguments count_pos_lookup {A}. Arguments count_zero_lookup {A}.

Lemma lookup_wake_all k g t thr :
  lookup t (wake_all k g thr) = match lookup t thr with Some l => Some (wake1 k g l) | None => None end.
Proof.
  induction thr as [|[t' p'] r IH]; cbn [wake_all lookup]; [reflexivity|].
  destruct (Nat.eqb t t'); [reflexivity|exact IH].
Qed.

Lemma lookup_wake_all_inv k g t thr l' :
  lookup t (wake_all k g thr) = Some l' -> exists l, lookup t thr = Some l /\ l' = wake1 k g l.
Proof.
  rewrite lookup_wake_all. destruct (lookup t thr) as [l|]; [|discriminate].
  intros H; injection H as <-. eauto.
Qed.

Lemma tids_wake_all k g thr : tids (wake_all k g thr) = tids thr.
Proof.
  unfold tids. induction thr as [|[t' p'] r IH]; cbn [wake_all map fst]; [reflexivity|].
  rewrite IH. reflexivity.
Qed.

Lemma count_wake_all (f : lbq_loc -> bool) k g thr :
  (forall l, f (wake1 k g l) = f l) -> count f (wake_all k g thr) = count f thr.
Proof.
  intros Hf. induction thr as [|[t' p'] r IH]; cbn [wake_all count]; [reflexivity|].
  rewrite Hf, IH. reflexivity.
Qed.

(* ---------- small facts about locals ---------- *)
Lemma pc_eqb_eq a b : pc_eqb a b = true <-> a = b.
Proof. destruct a, b; cbn; split; intros H; try reflexivity; try discriminate. Qed.

Lemma cond_eqb_eq a b : cond_eqb a b = true <-> a = b.
Proof. destruct a, b; cbn; split; intros H; try reflexivity; try discriminate. Qed.

Lemma mem_in g l : mem g l = true <-> In g l.
Proof.
  unfold mem. rewrite existsb_exists. split.
  - intros [x [Hx E]]. apply Nat.eqb_eq in E. subst. exact Hx.
  - intros H. exists g. split; [exact H|apply Nat.eqb_refl].
Qed.

Lemma mem_cons g x l : mem g (x :: l) = Nat.eqb g x || mem g l.
Proof. reflexivity. Qed.

Lemma woken_spec k g l :
  woken k g l = true <-> l_pc l = PParked /\ wcond (l_op l) = k /\ l_sig l = g.
Proof.
  unfold woken. rewrite !andb_true_iff, pc_eqb_eq, cond_eqb_eq, Nat.eqb_eq. tauto.
Qed.

Lemma wake1_op k g l : l_op (wake1 k g l) = l_op l.
Proof. unfold wake1. destruct (woken k g l); reflexivity. Qed.
Lemma wake1_cancel k g l : l_cancel (wake1 k g l) = l_cancel l.
Proof. unfold wake1. destruct (woken k g l); reflexivity. Qed.
Lemma wake1_sig k g l : l_sig (wake1 k g l) = l_sig l.
Proof. unfold wake1. destruct (woken k g l); reflexivity. Qed.
Lemma wake1_old k g l : l_old (wake1 k g l) = l_old l.
Proof. unfold wake1. destruct (woken k g l); reflexivity. Qed.
Lemma wake1_res k g l : l_res (wake1 k g l) = l_res l.
Proof. unfold wake1. destruct (woken k g l); reflexivity. Qed.

(* a woken thread was parked and stands at `case <-signal:`; anybody else is untouched *)
Lemma wake1_pc k g l :
  (woken k g l = true /\ l_pc l = PParked /\ l_pc (wake1 k g l) = PCaseSig) \/
  (woken k g l = false /\ wake1 k g l = l).
Proof.
  unfold wake1. destruct (woken k g l) eqn:E; [left|right; auto].
  apply woken_spec in E. cbn. tauto.
Qed.

Lemma wake1_not_parked k g l : l_pc l <> PParked -> wake1 k g l = l.
Proof.
  intros H. destruct (wake1_pc k g l) as [[_ [Hp _]]|[_ E]]; [congruence|exact E].
Qed.

(* ---------- invariant, part 1 ---------- *)
Definition rd (l : lbq_loc) : bool := in_rcs (l_pc l).

Record inv1 (c : lbq_cfg) : Prop := {
  i_nodup : NoDup (tids (q_thr c));
  i_pcok : forall t l, lookup t (q_thr c) = Some l -> pc_ok (l_op l) (l_pc l) = true;
  (* every thread inside a critical section owns the mutex *)
  i_cs : forall t l, lookup t (q_thr c) = Some l -> in_cs (l_pc l) = true -> q_wlock c = Some t;
  (* the owner is a call in flight that is inside a critical section *)
  i_owner : forall t, q_wlock c = Some t -> exists l, lookup t (q_thr c) = Some l /\ in_cs (l_pc l) = true;
  i_readers : Z.of_nat (q_readers c) = count rd (q_thr c);
  i_excl : q_wlock c <> None -> q_readers c = O
}.

Lemma inv1_init m : inv1 (lbq_init m).
Proof.
  constructor; cbn; try discriminate; try reflexivity; try congruence.
  - constructor.
Qed.

(* two threads inside critical sections are the same thread *)
Lemma cs_unique c t1 l1 t2 l2 :
  inv1 c -> lookup t1 (q_thr c) = Some l1 -> lookup t2 (q_thr c) = Some l2 ->
  in_cs (l_pc l1) = true -> in_cs (l_pc l2) = true -> t1 = t2.
Proof.
  intros I H1 H2 C1 C2.
  pose proof (i_cs c I _ _ H1 C1) as E1. pose proof (i_cs c I _ _ H2 C2) as E2. congruence.
Qed.

(* ---------- case analysis of one event ---------- *)
(* splits [H : lbq_exec1 c e = Some (c', obs)] into one goal per transition, with c' and obs
   substituted.  Hypothesis names: Hl (lookup of the thread), Hq (is_qop), Hpc (pc), and
   E* for the conditions the transition tested. *)
Ltac break_match H :=
  repeat match type of H with
         | context [match ?x with _ => _ end] =>
           match x with
           | context [match _ with _ => _ end] => fail 1
           | _ => let E := fresh "E" in destruct x eqn:E; try discriminate H
           end
         end.

Ltac step_cases H :=
  match type of H with
  | lbq_exec1 ?c ?e = Some (?c', ?obs) =>
    unfold lbq_exec1 in H;
    destruct e as [t o|t|t|t];
    [ destruct (lookup t (q_thr c)) as [l|] eqn:Hl; [discriminate H|];
      injection H as <- <-
    | destruct (lookup t (q_thr c)) as [l|] eqn:Hl; [|discriminate H];
      destruct (is_qop (l_op l)) eqn:Hq;
      [ unfold step_q, mv, fin in H | unfold step_r, mv, fin in H ];
      destruct (l_pc l) eqn:Hpc; try discriminate H;
      break_match H; injection H as <- <-;
      try (exfalso; cbn in Hq; discriminate Hq)
    | destruct (lookup t (q_thr c)) as [l|] eqn:Hl; [|discriminate H];
      unfold mv in H; break_match H; injection H as <- <-
    | destruct (lookup t (q_thr c)) as [l|] eqn:Hl; [|discriminate H];
      unfold mv in H; break_match H; injection H as <- <- ]
  end.

Lemma unlock_owned c t : q_wlock c = Some t -> unlock c = set_wlock c None.
Proof. intros H. unfold unlock. rewrite H. reflexivity. Qed.

(* how the thread table of the stepping thread's successor relates to the old one *)
Ltac inv_lookup H :=
  match type of H with
  | lookup _ (wake_all _ _ _) = Some _ =>
    let l1 := fresh "l1" in let H1 := fresh "Hw" in let E := fresh "Ew" in
    apply lookup_wake_all_inv in H; destruct H as [l1 [H1 E]]; try inv_lookup H1
  | lookup ?t' (update ?t ?l' ?thr) = Some _ =>
    match goal with
    | Hl : lookup t thr = Some _ |- _ =>
      let Hne := fresh "Hne" in
      destruct (lookup_update_inv _ _ _ _ _ _ Hl H) as [[-> ->]|[Hne ?]]; clear H
    end
  | lookup ?t' (remove ?t ?thr) = Some _ =>
    match goal with
    | Hnd : NoDup (tids thr) |- _ =>
      let Hne := fresh "Hne" in
      destruct (lookup_remove_inv _ _ _ _ Hnd H) as [Hne ?]; clear H
    end
  | lookup ?t' (spawn ?t ?p ?thr) = Some _ =>
    match goal with
    | Hl : lookup t thr = None |- _ =>
      let Hne := fresh "Hne" in
      destruct (lookup_spawn_inv _ _ _ _ _ Hl H) as [[-> ->]|[Hne ?]]; clear H
    end
  end.

Arguments tids : simpl never.

(* inv1 only looks at the thread table, the mutex and the error flag *)
Lemma inv1_same c c2 :
  inv1 c -> q_thr c2 = q_thr c -> q_wlock c2 = q_wlock c -> q_readers c2 = q_readers c -> inv1 c2.
Proof.
  intros [A1 A2 A3 A4 A5 A6] E1 E2 E3.
  constructor; rewrite ?E1, ?E2, ?E3; assumption.
Qed.

(* a move of thread t that neither enters nor leaves a critical section *)
Lemma inv1_move c t l l' :
  inv1 c -> lookup t (q_thr c) = Some l ->
  in_cs (l_pc l') = in_cs (l_pc l) -> in_rcs (l_pc l') = in_rcs (l_pc l) ->
  pc_ok (l_op l') (l_pc l') = true ->
  inv1 (set_thr c (update t l' (q_thr c))).
Proof.
  intros [A1 A2 A3 A4 A5 A6] Hl Hcs Hrcs Hok.
  constructor; cbn.
  - rewrite tids_update. exact A1.
  - intros t2 l2 H2. inv_lookup H2; [exact Hok|eauto].
  - intros t2 l2 H2 C2. inv_lookup H2; [apply (A3 _ _ Hl); congruence|eauto].
  - intros t2 Hw. destruct (A4 _ Hw) as [l2 [H2 C2]].
    destruct (Nat.eq_dec t2 t) as [->|Hne].
    + exists l'. rewrite (lookup_update_same _ _ _ _ _ Hl). split; [reflexivity|]. congruence.
    + exists l2. rewrite (lookup_update_other _ _ _ _ _ Hne). auto.
  - rewrite (count_update _ rd t l' l _ Hl). unfold rd at 2 3. rewrite Hrcs. lia.
  - exact A6.
Qed.

(* c.mutex.Lock() *)
Lemma inv1_acquire c t l l' :
  inv1 c -> lookup t (q_thr c) = Some l -> q_wlock c = None -> q_readers c = O ->
  in_cs (l_pc l) = false -> in_rcs (l_pc l) = false ->
  in_cs (l_pc l') = true -> in_rcs (l_pc l') = false -> pc_ok (l_op l') (l_pc l') = true ->
  inv1 (set_thr (set_wlock c (Some t)) (update t l' (q_thr c))).
Proof.
  intros [A1 A2 A3 A4 A5 A6] Hl Hw Hr Hcs Hrcs Hcs' Hrcs' Hok.
  constructor; cbn.
  - rewrite tids_update. exact A1.
  - intros t2 l2 H2. inv_lookup H2; [exact Hok|eauto].
  - intros t2 l2 H2 C2. inv_lookup H2; [reflexivity|].
    pose proof (A3 _ _ H C2). congruence.
  - intros t2 E. injection E as <-. exists l'. rewrite (lookup_update_same _ _ _ _ _ Hl). auto.
  - rewrite (count_update _ rd t l' l _ Hl). unfold rd at 2 3. rewrite Hrcs, Hrcs'. lia.
  - intros _. exact Hr.
Qed.

(* c.l.Unlock() by a thread inside its critical section *)
Lemma inv1_release c t l l' :
  inv1 c -> lookup t (q_thr c) = Some l -> in_cs (l_pc l) = true ->
  in_cs (l_pc l') = false -> in_rcs (l_pc l') = false -> pc_ok (l_op l') (l_pc l') = true ->
  inv1 (set_thr (unlock c) (update t l' (q_thr (unlock c)))).
Proof.
  intros I Hl Hcs Hcs' Hrcs' Hok.
  pose proof (i_cs c I _ _ Hl Hcs) as Hw. rewrite (unlock_owned _ _ Hw).
  destruct I as [A1 A2 A3 A4 A5 A6].
  assert (Hrcs : in_rcs (l_pc l) = false) by (destruct (l_pc l); cbn in Hcs |- *; congruence).
  constructor; cbn.
  - rewrite tids_update. exact A1.
  - intros t2 l2 H2. inv_lookup H2; [exact Hok|eauto].
  - intros t2 l2 H2 C2. inv_lookup H2; [congruence|].
    pose proof (A3 _ _ H C2). congruence.
  - discriminate.
  - rewrite (count_update _ rd t l' l _ Hl). unfold rd at 2 3. rewrite Hrcs, Hrcs'. lia.
  - congruence.
Qed.

(* a call that is outside the critical sections returns *)
Lemma inv1_remove c t l :
  inv1 c -> lookup t (q_thr c) = Some l -> in_cs (l_pc l) = false -> in_rcs (l_pc l) = false ->
  inv1 (set_thr c (remove t (q_thr c))).
Proof.
  intros [A1 A2 A3 A4 A5 A6] Hl Hcs Hrcs.
  constructor; cbn.
  - apply nodup_remove. exact A1.
  - intros t2 l2 H2. inv_lookup H2. eauto.
  - intros t2 l2 H2 C2. inv_lookup H2. eauto.
  - intros t2 Hw. destruct (A4 _ Hw) as [l2 [H2 C2]].
    assert (Hne : t2 <> t) by (intros ->; congruence).
    exists l2. rewrite (lookup_remove_other _ _ _ Hne). auto.
  - rewrite (count_remove _ rd t l _ Hl). unfold rd at 2. rewrite Hrcs. lia.
  - exact A6.
Qed.

Lemma inv1_spawn c t o :
  inv1 c -> lookup t (q_thr c) = None -> inv1 (set_thr c (spawn t (new_loc o) (q_thr c))).
Proof.
  intros [A1 A2 A3 A4 A5 A6] Hl.
  constructor; cbn.
  - apply nodup_spawn; assumption.
  - intros t2 l2 H2. inv_lookup H2; [destruct o; reflexivity|eauto].
  - intros t2 l2 H2 C2. inv_lookup H2; [destruct o; discriminate C2|eauto].
  - intros t2 Hw. destruct (A4 _ Hw) as [l2 [H2 C2]].
    exists l2. rewrite lookup_spawn, H2. auto.
  - rewrite count_spawn. replace (rd (new_loc o)) with false by (destruct o; reflexivity). lia.
  - exact A6.
Qed.

(* c.mutex.RLock() *)
Lemma inv1_racquire c t l l' :
  inv1 c -> lookup t (q_thr c) = Some l -> q_wlock c = None ->
  in_cs (l_pc l) = false -> in_rcs (l_pc l) = false ->
  in_cs (l_pc l') = false -> in_rcs (l_pc l') = true -> pc_ok (l_op l') (l_pc l') = true ->
  inv1 (set_thr (set_readers c (S (q_readers c))) (update t l' (q_thr c))).
Proof.
  intros [A1 A2 A3 A4 A5 A6] Hl Hw Hcs Hrcs Hcs' Hrcs' Hok.
  constructor; cbn.
  - rewrite tids_update. exact A1.
  - intros t2 l2 H2. inv_lookup H2; [exact Hok|eauto].
  - intros t2 l2 H2 C2. inv_lookup H2; [congruence|eauto].
  - congruence.
  - rewrite (count_update _ rd t l' l _ Hl). unfold rd at 2 3. rewrite Hrcs, Hrcs'. lia.
  - congruence.
Qed.

(* the deferred RUnlock + return *)
Lemma inv1_rrelease c t l :
  inv1 c -> lookup t (q_thr c) = Some l -> in_rcs (l_pc l) = true ->
  inv1 (set_thr (runlock c) (remove t (q_thr (runlock c)))).
Proof.
  intros I Hl Hrcs.
  pose proof (count_pos_lookup rd t l _ Hl Hrcs) as Hpos.
  destruct I as [A1 A2 A3 A4 A5 A6].
  unfold runlock. destruct (q_readers c) as [|n] eqn:En; [cbn in A5; lia|].
  assert (Hcs : in_cs (l_pc l) = false) by (destruct (l_pc l); cbn in Hrcs |- *; congruence).
  constructor; cbn.
  - apply nodup_remove. exact A1.
  - intros t2 l2 H2. inv_lookup H2. eauto.
  - intros t2 l2 H2 C2. inv_lookup H2. eauto.
  - intros t2 Hw. destruct (A4 _ Hw) as [l2 [H2 C2]].
    assert (Hne : t2 <> t) by (intros ->; congruence).
    exists l2. rewrite (lookup_remove_other _ _ _ Hne). auto.
  - rewrite (count_remove _ rd t l _ Hl). unfold rd at 2. rewrite Hrcs. lia.
  - intros Hw. specialize (A6 Hw). discriminate.
Qed.

(* close(old): parked threads move to `case <-signal:` *)
Lemma inv1_wake c k g :
  inv1 c -> inv1 (set_thr c (wake_all k g (q_thr c))).
Proof.
  intros [A1 A2 A3 A4 A5 A6].
  constructor; cbn.
  - rewrite tids_wake_all. exact A1.
  - intros t2 l2 Hw. inv_lookup Hw. subst l2. rewrite wake1_op.
    destruct (wake1_pc k g l1) as [[_ [Hp ->]]|[_ ->]]; [|eauto].
    pose proof (A2 _ _ Hw0) as Hok. rewrite Hp in Hok. exact Hok.
  - intros t2 l2 Hw C2. inv_lookup Hw. subst l2.
    destruct (wake1_pc k g l1) as [[_ [Hp E]]|[_ E]]; rewrite E in C2; [discriminate|eauto].
  - intros t2 Hw. destruct (A4 _ Hw) as [l2 [H2 C2]].
    exists l2. rewrite lookup_wake_all, H2, wake1_not_parked; [auto|].
    intros E. rewrite E in C2. discriminate.
  - rewrite count_wake_all; [exact A5|].
    intros l. unfold rd. destruct (wake1_pc k g l) as [[_ [Hp ->]]|[_ ->]]; [rewrite Hp|]; reflexivity.
  - exact A6.
Qed.

Lemma q_thr_set_cur c k g : q_thr (set_cur c k g) = q_thr c. Proof. destruct k; reflexivity. Qed.
Lemma q_wlock_set_cur c k g : q_wlock (set_cur c k g) = q_wlock c. Proof. destruct k; reflexivity. Qed.
Lemma q_readers_set_cur c k g : q_readers (set_cur c k g) = q_readers c. Proof. destruct k; reflexivity. Qed.
Lemma q_items_set_cur c k g : q_items (set_cur c k g) = q_items c. Proof. destruct k; reflexivity. Qed.
Lemma q_max_set_cur c k g : q_max (set_cur c k g) = q_max c. Proof. destruct k; reflexivity. Qed.
Lemma q_hist_set_cur c k g : q_hist (set_cur c k g) = q_hist c. Proof. destruct k; reflexivity. Qed.
Lemma q_bad_set_cur c k g : q_bad (set_cur c k g) = q_bad c. Proof. destruct k; reflexivity. Qed.
Lemma q_thr_add_closed c k g : q_thr (add_closed c k g) = q_thr c. Proof. destruct k; reflexivity. Qed.
Lemma q_wlock_add_closed c k g : q_wlock (add_closed c k g) = q_wlock c. Proof. destruct k; reflexivity. Qed.
Lemma q_readers_add_closed c k g : q_readers (add_closed c k g) = q_readers c. Proof. destruct k; reflexivity. Qed.
Lemma q_items_add_closed c k g : q_items (add_closed c k g) = q_items c. Proof. destruct k; reflexivity. Qed.
Lemma q_max_add_closed c k g : q_max (add_closed c k g) = q_max c. Proof. destruct k; reflexivity. Qed.
Lemma q_hist_add_closed c k g : q_hist (add_closed c k g) = q_hist c. Proof. destruct k; reflexivity. Qed.
Lemma q_bad_add_closed c k g : q_bad (add_closed c k g) = q_bad c. Proof. destruct k; reflexivity. Qed.

Lemma inv1_step c e c' obs : inv1 c -> lbq_exec1 c e = Some (c', obs) -> inv1 c'.
Proof.
  intros I H. pose proof (i_nodup c I) as Hnd.
  step_cases H.
  all: pose proof (fun l0 H0 => i_pcok c I t l0 H0) as Hok.
  all: try (specialize (Hok _ Hl)).
  all: try (apply andb_true_iff in E; destruct E as [E Ec]; apply andb_true_iff in E; destruct E as [Eq Ep];
            apply pc_eqb_eq in Ep).
  all: try (apply pc_eqb_eq in E0).
  all: try (assert (Hpk : l_pc l <> PParked) by (intros Hx; apply pc_eqb_eq in Hx; congruence)).
  all: try lazymatch goal with
       | |- inv1 (add_hist (set_thr _ (spawn _ _ _)) _) =>
         eapply inv1_same; [ apply (inv1_spawn c t o I Hl) | reflexivity .. ]
       | |- inv1 (set_thr (set_wlock _ (Some _)) (update _ ?l' _)) =>
         apply (inv1_acquire c t l l' I Hl); cbn; rewrite ?Hpc; cbn; first [reflexivity | assumption]
       | |- inv1 (set_thr (unlock _) (update _ ?l' _)) =>
         apply (inv1_release c t l l' I Hl); cbn; rewrite ?Hpc; cbn; first [reflexivity | assumption]
       | |- inv1 (set_thr (set_readers _ (S _)) (update _ ?l' _)) =>
         apply (inv1_racquire c t l l' I Hl); cbn; rewrite ?Hpc; cbn;
         first [reflexivity | assumption | rewrite Hq; reflexivity]
       | |- context [runlock] =>
         eapply inv1_same; [ apply (inv1_rrelease c t l I Hl); rewrite Hpc; reflexivity | reflexivity .. ]
       | |- context [remove] =>
         eapply inv1_same; [ apply (inv1_remove c t l I Hl); rewrite Hpc; reflexivity | reflexivity .. ]
       | |- context [wake_all] =>
         eapply inv1_same;
         [ apply (inv1_wake (set_thr c (update t (set_pc l PRet) (q_thr c)))), (inv1_move c t l (set_pc l PRet) I Hl);
           cbn; rewrite ?Hpc; cbn; first [reflexivity | assumption]
         | cbn; rewrite ?q_thr_add_closed, ?q_wlock_add_closed, ?q_readers_add_closed; reflexivity .. ]
       | |- inv1 (set_thr _ (update _ ?l' _)) =>
         eapply inv1_same;
         [ eapply (inv1_move c t l l' I Hl); cbn; rewrite ?Hpc; cbn;
           first [reflexivity | assumption | rewrite ?Hq; reflexivity
                 | (match goal with E : l_op _ = _ |- _ => rewrite E; reflexivity end)]
         | cbn; rewrite ?q_thr_set_cur, ?q_wlock_set_cur, ?q_readers_set_cur; reflexivity .. ]
       end.
  - apply (inv1_move c t l _ I Hl); cbn; rewrite ?Ep; cbn; first [reflexivity | assumption].
  - rewrite E0 in Hok. cbn in Hok.
    apply (inv1_move c t l _ I Hl); cbn; rewrite ?E0; cbn; first [reflexivity | assumption].
Qed.

Lemma inv1_reachable m evs c : exec lbq_step (lbq_init m) evs = Some c -> inv1 c.
Proof.
  apply (invariant_reachable _ _ lbq_step inv1); [|apply inv1_init].
  intros c0 e c1 I H. unfold lbq_step in H.
  destruct (lbq_exec1 c0 e) as [[c2 obs]|] eqn:E; [|discriminate].
  injection H as <-. eapply inv1_step; eassumption.
Qed.
