(* Proofs about DQModel, part 5 (C09): what a waiter may rely on.  A thread that fetched the
   CURRENT generation of the cond it waits on saw, in the same critical section, a heap in which
   it could not proceed (Enqueue: full; Dequeue: empty, or head not expired) and nothing that
   would let it proceed has happened since - unless the lock holder is just now between its
   change of the heap and its `c.signal = signal` (it will replace the generation and wake the
   waiter).  The timer of a Dequeue sleeping in its select is armed (or its tick is buffered) for
   head deadline + lag, lag = clock advance between `delay := val.Delay()` and the arming.
   Gives stuck_implies_cannot_proceed. *)
From Ekit Require Import Common Conc DQModel DQProof DQProof2 DQProof3 DQProof4.
From Coq Require Import Arith PeanoNat ZifyBool Permutation.

(* the lock holder has changed the heap and not yet replaced the generation of the cond that announces it *)
Definition pre_bc3 (p : dq_pc) : bool :=
  match p with ESwitch | EBcast | DBcast0 | DBcast1 | Bc1 | Bc2 | Bc3 => true | _ => false end.
Definition win (th : dthr) (x : dq_cnd) : bool :=
  pre_bc3 (t_pc th) &&
  match x, t_eff th with CE, Inserted => true | CD, Removed _ => true | _, _ => false end.
Definition holder_th (c : dq_cfg) : option dthr :=
  match q_mutex c with Some t => lookup t (q_thr c) | None => None end.
Definition in_window (c : dq_cfg) (x : dq_cnd) : bool :=
  match holder_th c with Some th => win th x | None => false end.

Definition wait_cond (c : dq_cfg) (th : dthr) : Prop :=
  match t_site th with
  | SEnq => is_full c
  | SDeqA => forall y, In y (q_heap c) -> e_dl (t_el th) <= e_dl y
  | SDeqB => q_heap c = []
  end.

Definition is_tsel (p : dq_pc) : bool := match p with DSel1 | DPark1 => true | _ => false end.

Definition thrE (c : dq_cfg) (th : dthr) : Prop :=
  (is_waiter (t_pc th) = true -> t_sg th = cur c (wcond (t_site th)) ->
   wait_cond c th \/ in_window c (wcond (t_site th)) = true) /\
  (is_tsel (t_pc th) = true ->
   exists m, t_tm th = Some m /\ (tm_armed m = None -> tm_buf m = true) /\
             (forall f, tm_armed m = Some f -> f = e_dl (t_el th) + t_lag th /\ 0 <= t_lag th)).

Definition invE (c : dq_cfg) : Prop := forall t th, lookup t (q_thr c) = Some th -> thrE c th.

Lemma invE_init cap old : invE (dq_init cap old).
Proof. intros t th H. discriminate H. Qed.

(* ---------- the window ---------- *)
Lemma in_window_holder c t th x :
  invA c -> lookup t (q_thr c) = Some th -> holds_lock (t_pc th) = true -> in_window c x = win th x.
Proof.
  intros HA Hl Hh. unfold in_window, holder_th. rewrite (holder_mutex _ _ _ HA Hl Hh), Hl. reflexivity.
Qed.

Lemma in_window_free c x : q_mutex c = None -> in_window c x = false.
Proof. unfold in_window, holder_th. intros ->. reflexivity. Qed.

Lemma win_not_pre th x : pre_bc3 (t_pc th) = false -> win th x = false.
Proof. unfold win. intros ->. reflexivity. Qed.

(* a step of a thread that does not hold the mutex before or after leaves the window alone *)
Lemma in_window_other c c' t th x :
  invA c -> lookup t (q_thr c) = Some th -> holds_lock (t_pc th) = false ->
  q_mutex c' = q_mutex c ->
  (forall t2, t2 <> t -> lookup t2 (q_thr c') = lookup t2 (q_thr c)) ->
  in_window c' x = in_window c x.
Proof.
  intros HA Hl Hh Hm Hoth. unfold in_window, holder_th. rewrite Hm.
  destruct (q_mutex c) as [o|] eqn:E; [|reflexivity].
  destruct (Nat.eq_dec o t) as [->|Hne].
  - exfalso. pose proof (a_mutex _ HA t) as M. unfold holds_at, mutex_is in M. rewrite Hl, Hh, E, Nat.eqb_refl in M. discriminate.
  - rewrite (Hoth o Hne). reflexivity.
Qed.

Lemma in_window_spawn c t th0 x :
  invA c -> lookup t (q_thr c) = None -> in_window (qset_thr c (spawn t th0 (q_thr c))) x = in_window c x.
Proof.
  intros HA Hl. unfold in_window, holder_th. dq_simpl. destruct (q_mutex c) as [o|] eqn:E; [|reflexivity].
  destruct (Nat.eq_dec o t) as [->|Hne]; [|rewrite (lookup_spawn_other _ _ _ _ Hne); reflexivity].
  exfalso. pose proof (a_mutex _ HA t) as M. unfold holds_at, mutex_is in M. rewrite Hl, E, Nat.eqb_refl in M. discriminate.
Qed.

Lemma win_wake x g th y : win (wake1 x g th) y = win th y.
Proof.
  unfold wake1, parked_on. destruct (t_pc th) eqn:E; cbn [is_park andb]; try reflexivity;
    destruct (cnd_eqb (wcond (t_site th)) x && Nat.eqb (t_sg th) g); try reflexivity;
    unfold win; dq_simpl; rewrite E; reflexivity.
Qed.

(* close(old): the closer does not hold the mutex; woken threads do not either *)
Lemma in_window_bc5 c g t th th' x g0 y :
  invA c -> lookup t (q_thr c) = Some th -> holds_lock (t_pc th) = false -> q_mutex g = q_mutex c ->
  in_window (qset_thr g (wake_thr x g0 (update t th' (q_thr c)))) y = in_window c y.
Proof.
  intros HA Hl Hh Hm. unfold in_window, holder_th. dq_simpl. rewrite Hm.
  destruct (q_mutex c) as [o|] eqn:E; [|reflexivity].
  destruct (Nat.eq_dec o t) as [->|Hne].
  - exfalso. pose proof (a_mutex _ HA t) as M. unfold holds_at, mutex_is in M. rewrite Hl, Hh, E, Nat.eqb_refl in M. discriminate.
  - rewrite lookup_wake, (lookup_update_other _ _ _ _ _ Hne). destruct (lookup o (q_thr c)); cbn [option_map]; [apply win_wake|reflexivity].
Qed.

Lemma in_window_update_win c g t th th' x :
  lookup t (q_thr c) = Some th -> (forall y, win th' y = win th y) -> q_mutex g = q_mutex c ->
  in_window (qset_thr g (update t th' (q_thr c))) x = in_window c x.
Proof.
  intros Hl Hw Hm. unfold in_window, holder_th. dq_simpl. rewrite Hm.
  destruct (q_mutex c) as [o|]; [|reflexivity].
  destruct (Nat.eq_dec o t) as [->|Hne].
  - rewrite (lookup_update_same _ _ _ _ _ Hl), Hl. apply Hw.
  - rewrite (lookup_update_other _ _ _ _ _ Hne). reflexivity.
Qed.

Lemma thrE_frame c c' th2 :
  thrE c th2 -> (forall x, cur c' x = cur c x) -> (forall x, in_window c' x = in_window c x) ->
  q_heap c' = q_heap c -> q_cap c' = q_cap c -> thrE c' th2.
Proof.
  intros [E1 E2] Hc Hw Hh Hcap. split; [|exact E2].
  intros Hwt Hsg. rewrite Hc in Hsg. rewrite Hw. destruct (E1 Hwt Hsg) as [H|H]; [left|right; exact H].
  unfold wait_cond, is_full in *. rewrite Hh, Hcap. exact H.
Qed.

Lemma thrE_woken c x g th2 : parked_on x g th2 = true -> thrE c (wake1 x g th2).
Proof.
  intros Hp. unfold wake1. rewrite Hp. unfold parked_on in Hp.
  apply andb_true_iff in Hp. destruct Hp as [Hp _]. apply andb_true_iff in Hp. destruct Hp as [Hp _].
  unfold thrE. dq_simpl. destruct (t_pc th2); try discriminate Hp; cbn; split; intros; discriminate.
Qed.

Lemma thrE_wake c c' x g th2 :
  thrE c th2 -> (forall y, cur c' y = cur c y) -> (forall y, in_window c' y = in_window c y) ->
  q_heap c' = q_heap c -> q_cap c' = q_cap c -> thrE c' (wake1 x g th2).
Proof.
  intros. destruct (parked_on x g th2) eqn:Hp; [apply thrE_woken; exact Hp|].
  unfold wake1. rewrite Hp. eapply thrE_frame; eassumption.
Qed.

(* window equalities for the step at hand; HA' : invA c' *)
Ltac dq_window HA HA' Hl Hpc :=
  intros xx;
  first
    [ (* the stepping thread holds the mutex neither before nor after *)
      solve [eapply (in_window_other _ _ _ _ _ HA Hl);
             [ rewrite Hpc; reflexivity
             | dq_simpl; dq_cnd; dq_simpl; reflexivity
             | intros t2 Hne; dq_simpl; dq_cnd; dq_simpl;
               first [apply (lookup_update_other _ _ _ _ _ Hne)|apply (lookup_remove_other _ _ _ Hne)] ]]
    | (* it holds it before and after *)
      solve [erewrite (in_window_holder _ _ _ _ HA' ltac:(dq_simpl; dq_cnd; dq_simpl; eapply lookup_update_same; exact Hl) eq_refl);
             rewrite (in_window_holder _ _ _ _ HA Hl ltac:(rewrite Hpc; reflexivity));
             unfold win; dq_simpl; rewrite Hpc;
             first [ reflexivity
                   | match goal with
                     | He0 : t_eff _ = _ |- _ => rewrite He0; destruct xx; reflexivity
                     | He0 : match t_herr ?th0 with _ => _ end, Hd : t_herr ?th0 = _ |- _ =>
                       rewrite Hd in He0; rewrite He0; destruct xx; reflexivity
                     end ]]
    | (* Lock *)
      solve [erewrite (in_window_holder _ _ _ _ HA' ltac:(dq_simpl; dq_cnd; dq_simpl; eapply lookup_update_same; exact Hl) eq_refl);
             rewrite (in_window_free _ _ ltac:(eassumption)); reflexivity]
    | (* Unlock *)
      solve [rewrite (in_window_holder _ _ _ _ HA Hl ltac:(rewrite Hpc; reflexivity));
             match goal with |- in_window ?c1 _ = _ =>
               rewrite (in_window_free c1 xx) by (dq_simpl; dq_cnd; dq_simpl; reflexivity) end;
             unfold win; rewrite Hpc; reflexivity] ].

(* steps that change neither the heap nor a cond: everything is framed *)
Ltac e_generic c HA HA' HE Hl Hpc E1 E2 :=
  let Hfc := fresh "Hfc" in let Hfw := fresh "Hfw" in let Hfh := fresh "Hfh" in let Hfp := fresh "Hfp" in
  match goal with
  | |- forall t2 th2, lookup t2 (q_thr ?c1) = _ -> _ =>
    assert (Hfc : forall x, cur c1 x = cur c x) by (intros xx; unfold cur; dq_simpl; dq_cnd; dq_simpl; first [reflexivity|destruct xx; reflexivity]);
    assert (Hfw : forall x, in_window c1 x = in_window c x) by (dq_window HA HA' Hl Hpc);
    assert (Hfh : q_heap c1 = q_heap c) by (dq_simpl; dq_cnd; dq_simpl; reflexivity);
    assert (Hfp : q_cap c1 = q_cap c) by (dq_simpl; dq_cnd; dq_simpl; reflexivity)
  end;
  dq_simpl; dq_cnd; dq_simpl;
  dq_thread t2 th2 Hl2 Hne; dq_unwake;
  try (solve [first [eapply thrE_wake|eapply thrE_frame]; try eassumption; eapply HE; eassumption]);
  try (solve [eapply (thrE_frame c); [|exact Hfc|exact Hfw|exact Hfh|exact Hfp];
              unfold thrE; dq_simpl; cbn [new_enq new_deq t_pc is_waiter is_tsel];
              split; try (intros; discriminate); first [exact E1|exact E2|intros _; exact E1|intros _; exact E2]]).

Lemma invE_step c e c' obs :
  invA c -> invB c -> invD c -> invC c -> invE c -> dq_exec1 c e = Some (c', obs) -> invE c'.
Proof.
  intros HA [_ HthrB] HD [_ _ Heff] HE H. pose proof (a_nodup _ HA) as Hnd.
  pose proof (invA_step _ _ _ _ HA H) as HA'.
  unfold invE.
  dq_cases H.
  all: dq_sym.
  all: cbn [ctx_case after_bcast after_sigch] in *.
  all: dq_nobad HA Hl Hpc.
  all: try (pose proof (HthrB _ _ Hl) as Hb0; unfold thrB in Hb0; rewrite Hpc in Hb0).
  all: dq_noB Hb0.
  all: try (pose proof (HE _ _ Hl) as [E1 E2]; rewrite Hpc in E1, E2; cbn [is_waiter is_tsel] in E1, E2).
  all: try (pose proof (Heff _ _ Hl) as He0; unfold eff_ok in He0; rewrite Hpc in He0).
  all: try (e_generic c HA HA' HE Hl Hpc E1 E2).
  (* CALL *)
  1-2: dq_simpl; dq_thread t2 th2 Hl2 Hne;
       [ unfold thrE; cbn; split; intros; discriminate
       | eapply (thrE_frame c); [eapply HE; eassumption|intros xx; reflexivity|intros xx; apply in_window_spawn; assumption|reflexivity|reflexivity] ].
  - (* Enqueue inserts: the window of enqueueSignal opens *)
    match goal with |- forall t2 th2, lookup t2 (q_thr ?c1) = _ -> _ =>
      assert (Hw1 : forall x, in_window c1 x = win (dset_pc (dset_eff (dset_herr th HNil) Inserted) ESwitch) x)
        by (intros xx; apply (in_window_holder _ t); [exact HA'|dq_simpl; eapply lookup_update_same; exact Hl|reflexivity])
    end.
    assert (Hw0 : forall x, in_window c x = false)
      by (intros xx; rewrite (in_window_holder _ _ _ _ HA Hl ltac:(rewrite Hpc; reflexivity)); unfold win; rewrite Hpc; reflexivity).
    dq_simpl. dq_thread t2 th2 Hl2 Hne; [split; intros Hx; discriminate Hx|].
    destruct (HE _ _ Hl2) as [F1 F2]. split; [|exact F2]. intros Hwt Hsg.
    destruct (wcond (t_site th2)) eqn:Ew.
    + right. rewrite Hw1. reflexivity.
    + exfalso. rewrite ?Ew in Hsg. destruct (F1 Hwt Hsg) as [Hwc|Hin]; [|rewrite Hw0 in Hin; discriminate Hin].
      unfold wait_cond in Hwc. destruct (t_site th2); try discriminate Ew. unfold is_full in Hwc. congruence.
  - (* Dequeue removes: the window of dequeueSignal opens; the others' lower bound survives *)
    match goal with |- forall t2 th2, lookup t2 (q_thr (qset_thr ?g (update t ?th1 _))) = _ -> _ =>
      assert (Hw1 : forall x, in_window (qset_thr g (update t th1 (q_thr c))) x = win th1 x)
        by (intros xx; apply (in_window_holder _ t); [exact HA'|dq_simpl; eapply lookup_update_same; exact Hl|reflexivity])
    end.
    assert (Hw0 : forall x, in_window c x = false)
      by (intros xx; rewrite (in_window_holder _ _ _ _ HA Hl ltac:(rewrite Hpc; reflexivity)); unfold win; rewrite Hpc; reflexivity).
    dq_simpl. dq_thread t2 th2 Hl2 Hne; [split; intros Hx; discriminate Hx|].
    destruct (HE _ _ Hl2) as [F1 F2]. split; [|exact F2]. intros Hwt Hsg.
    destruct (wcond (t_site th2)) eqn:Ew.
    + left. rewrite ?Ew in Hsg. destruct (F1 Hwt Hsg) as [Hwc|Hin]; [|rewrite Hw0 in Hin; discriminate Hin].
      unfold wait_cond in *. destruct (t_site th2); try discriminate Ew; dq_simpl.
      * intros y Hy. apply Hwc. eapply remove_first_in; exact Hy.
      * rewrite Hwc in Hmin. destruct Hmin.
    + right. rewrite Hw1. reflexivity.
  - (* time.NewTimer(delay) *)
    eapply (thrE_frame c); [|exact Hfc|exact Hfw|exact Hfh|exact Hfp].
    destruct Hb0 as [Hd1 Hd2]. split; [intros _; exact (E1 eq_refl)|]. intros _. dq_simpl.
    eexists; split; [reflexivity|]. cbn [tm_armed tm_buf]. split; [discriminate|].
    intros f Hf. injection Hf as <-. lia.
  - (* timer.Reset(delay), old semantics: a pending tick stays *)
    eapply (thrE_frame c); [|exact Hfc|exact Hfw|exact Hfh|exact Hfp].
    destruct Hb0 as [Hd1 Hd2]. split; [intros _; exact (E1 eq_refl)|]. intros _. dq_simpl.
    eexists; split; [reflexivity|]. cbn [tm_armed tm_buf]. split; [discriminate|].
    intros f Hf. injection Hf as <-. lia.
  - (* timer.Reset(delay), new semantics *)
    eapply (thrE_frame c); [|exact Hfc|exact Hfw|exact Hfh|exact Hfp].
    destruct Hb0 as [Hd1 Hd2]. split; [intros _; exact (E1 eq_refl)|]. intros _. dq_simpl.
    eexists; split; [reflexivity|]. cbn [tm_armed tm_buf]. split; [discriminate|].
    intros f Hf. injection Hf as <-. lia.
  - (* Dequeue removes (after the tick) *)
    match goal with |- forall t2 th2, lookup t2 (q_thr (qset_thr ?g (update t ?th1 _))) = _ -> _ =>
      assert (Hw1 : forall x, in_window (qset_thr g (update t th1 (q_thr c))) x = win th1 x)
        by (intros xx; apply (in_window_holder _ t); [exact HA'|dq_simpl; eapply lookup_update_same; exact Hl|reflexivity])
    end.
    assert (Hw0 : forall x, in_window c x = false)
      by (intros xx; rewrite (in_window_holder _ _ _ _ HA Hl ltac:(rewrite Hpc; reflexivity)); unfold win; rewrite Hpc; reflexivity).
    dq_simpl. dq_thread t2 th2 Hl2 Hne; [split; intros Hx; discriminate Hx|].
    destruct (HE _ _ Hl2) as [F1 F2]. split; [|exact F2]. intros Hwt Hsg.
    destruct (wcond (t_site th2)) eqn:Ew.
    + left. rewrite ?Ew in Hsg. destruct (F1 Hwt Hsg) as [Hwc|Hin]; [|rewrite Hw0 in Hin; discriminate Hin].
      unfold wait_cond in *. destruct (t_site th2); try discriminate Ew; dq_simpl.
      * intros y Hy. apply Hwc. eapply remove_first_in; exact Hy.
      * rewrite Hwc in Hmin. destruct Hmin.
    + right. rewrite Hw1. reflexivity.
  - (* signal := make(chan struct{}) *)
    destruct (t_site th) eqn:Hst; cbn [bcond] in *; e_generic c HA HA' HE Hl Hpc E1 E2.
  - (* c.signal = signal: the window closes; waiters of that cond no longer hold the current generation *)
    pose proof (d_thr _ HD _ _ Hl) as Hd0. unfold thrD in Hd0. rewrite Hpc in Hd0. destruct Hd0 as [[Hnew Hold] _].
    match goal with |- forall t2 th2, lookup t2 (q_thr ?c1) = _ -> _ =>
      assert (Hw1 : forall x, in_window c1 x = false)
        by (intros xx; rewrite (in_window_holder _ t (dset_pc th Bc4) xx HA'
                                  ltac:(dq_simpl; dq_cnd; dq_simpl; eapply lookup_update_same; exact Hl) eq_refl); reflexivity)
    end.
    assert (Hw0 : forall x, x <> bcond (t_site th) -> in_window c x = false).
    { intros xx Hx. rewrite (in_window_holder _ _ _ _ HA Hl ltac:(rewrite Hpc; reflexivity)). unfold win. rewrite Hpc. cbn [pre_bc3 andb].
      destruct (t_site th); cbn [bcond] in Hx; destruct xx; try congruence;
        first [rewrite He0|destruct He0 as [_ ->]]; reflexivity. }
    dq_simpl; dq_cnd; dq_simpl. dq_thread t2 th2 Hl2 Hne; [split; intros Hx; discriminate Hx|].
    destruct (HE _ _ Hl2) as [F1 F2]. split; [|exact F2]. intros Hwt Hsg.
    pose proof (d_thr _ HD _ _ Hl2) as (_ & G2 & _). destruct (G2 Hwt) as [Hle _].
    unfold cur in Hsg, Hle, Hnew. rewrite cnd_get_thr in Hsg.
    destruct (cnd_eqb (bcond (t_site th)) (wcond (t_site th2))) eqn:Ex.
    + apply cnd_eqb_eq in Ex. exfalso. rewrite <- Ex in Hsg, Hle. rewrite cnd_get_same in Hsg. cbn [c_cur] in Hsg. lia.
    + assert (Hx : wcond (t_site th2) <> bcond (t_site th)) by (intros Hq; rewrite Hq in Ex; destruct (bcond (t_site th)); discriminate Ex).
      rewrite cnd_get_other in Hsg by congruence.
      destruct (F1 Hwt Hsg) as [Hwc|Hin]; [left; unfold wait_cond, is_full in *; dq_simpl; dq_cnd; exact Hwc|rewrite (Hw0 _ Hx) in Hin; discriminate Hin].
  (* close(old) *)
  - cbn [bcond];
    match goal with |- forall t2 th2, lookup t2 (q_thr ?c1) = _ -> _ =>
      assert (Hfc : forall x, cur c1 x = cur c x) by (intros xx; unfold cur; dq_simpl; destruct xx; reflexivity);
      assert (Hfw : forall x, in_window c1 x = in_window c x)
        by (intros xx; apply (in_window_bc5 c _ t th); [exact HA|exact Hl|rewrite Hpc; reflexivity|reflexivity])
    end;
    dq_simpl; intros t2 th2 Hl2; rewrite lookup_wake in Hl2;
    match type of Hl2 with option_map _ ?L = _ => destruct L as [th0|] eqn:Hl0; [|discriminate Hl2] end;
    cbn [option_map] in Hl2; injection Hl2 as <-;
    (eapply thrE_wake; [|exact Hfc|exact Hfw|reflexivity|reflexivity]);
    (destruct (Nat.eq_dec t2 t) as [->|Hne];
     [ rewrite (lookup_update_same _ _ _ _ _ Hl) in Hl0; injection Hl0 as <-; split; intros Hx; discriminate Hx
     | rewrite (lookup_update_other _ _ _ _ _ Hne) in Hl0; eapply HE; eassumption ]).
  - cbn [bcond];
    match goal with |- forall t2 th2, lookup t2 (q_thr ?c1) = _ -> _ =>
      assert (Hfc : forall x, cur c1 x = cur c x) by (intros xx; unfold cur; dq_simpl; destruct xx; reflexivity);
      assert (Hfw : forall x, in_window c1 x = in_window c x)
        by (intros xx; apply (in_window_bc5 c _ t th); [exact HA|exact Hl|rewrite Hpc; reflexivity|reflexivity])
    end;
    dq_simpl; intros t2 th2 Hl2; rewrite lookup_wake in Hl2;
    match type of Hl2 with option_map _ ?L = _ => destruct L as [th0|] eqn:Hl0; [|discriminate Hl2] end;
    cbn [option_map] in Hl2; injection Hl2 as <-;
    (eapply thrE_wake; [|exact Hfc|exact Hfw|reflexivity|reflexivity]);
    (destruct (Nat.eq_dec t2 t) as [->|Hne];
     [ rewrite (lookup_update_same _ _ _ _ _ Hl) in Hl0; injection Hl0 as <-; split; intros Hx; discriminate Hx
     | rewrite (lookup_update_other _ _ _ _ _ Hne) in Hl0; eapply HE; eassumption ]).
  - cbn [bcond];
    match goal with |- forall t2 th2, lookup t2 (q_thr ?c1) = _ -> _ =>
      assert (Hfc : forall x, cur c1 x = cur c x) by (intros xx; unfold cur; dq_simpl; destruct xx; reflexivity);
      assert (Hfw : forall x, in_window c1 x = in_window c x)
        by (intros xx; apply (in_window_bc5 c _ t th); [exact HA|exact Hl|rewrite Hpc; reflexivity|reflexivity])
    end;
    dq_simpl; intros t2 th2 Hl2; rewrite lookup_wake in Hl2;
    match type of Hl2 with option_map _ ?L = _ => destruct L as [th0|] eqn:Hl0; [|discriminate Hl2] end;
    cbn [option_map] in Hl2; injection Hl2 as <-;
    (eapply thrE_wake; [|exact Hfc|exact Hfw|reflexivity|reflexivity]);
    (destruct (Nat.eq_dec t2 t) as [->|Hne];
     [ rewrite (lookup_update_same _ _ _ _ _ Hl) in Hl0; injection Hl0 as <-; split; intros Hx; discriminate Hx
     | rewrite (lookup_update_other _ _ _ _ _ Hne) in Hl0; eapply HE; eassumption ]).
  - (* res := c.signal: the fetched generation is current and the heap is what the call just saw *)
    eapply (thrE_frame c); [|exact Hfc|exact Hfw|exact Hfh|exact Hfp].
    split; [intros _ _; left|intros Hx; discriminate Hx].
    unfold wait_cond. dq_simpl. unfold peeked, is_min in Hb0. destruct (t_site th); tauto.
  - (* CANCEL of a thread that is not parked *)
    dq_simpl. dq_thread t2 th2 Hl2 Hne;
      (eapply (thrE_frame c); [|intros xx; reflexivity
                               |intros xx; apply (in_window_update_win c c t th); [exact Hl|intros; reflexivity|reflexivity]
                               |reflexivity|reflexivity]); [|eapply HE; eassumption].
    exact (HE _ _ Hl).
  - (* FIRE while the owner is not blocked in its select *)
    dq_simpl. dq_thread t2 th2 Hl2 Hne;
      (eapply (thrE_frame c); [|intros xx; reflexivity
                               |intros xx; apply (in_window_update_win c c t th); [exact Hl|intros; reflexivity|reflexivity]
                               |reflexivity|reflexivity]); [|eapply HE; eassumption].
    destruct (HE _ _ Hl) as [F1 F2]. split; [exact F1|]. dq_simpl. intros Hts.
    eexists. split; [reflexivity|]. cbn. split; [reflexivity|discriminate].
  - (* TICK *)
    intros t2 th2 Hl2. eapply (thrE_frame c); [eapply HE; exact Hl2|intros; reflexivity|intros; reflexivity|reflexivity|reflexivity].
Qed.

Record invFull (c : dq_cfg) : Prop := { f_all : invAll c; f_e : invE c }.

Lemma invFull_reachable cap old evs c : exec dq_step (dq_init cap old) evs = Some c -> invFull c.
Proof.
  apply (invariant_reachable _ _ dq_step invFull);
    [|split; [split; [apply invA_init|apply invB_init|apply invD_init|apply invC_init]|apply invE_init]].
  intros c0 e c1 [[HA HB HD HC] HE] Hs. unfold dq_step in Hs.
  destruct (dq_exec1 c0 e) as [[c2 obs]|] eqn:E; [|discriminate].
  injection Hs as <-.
  split; [split; [eapply invA_step; eassumption|eapply invB_step; eassumption|eapply invD_step; eassumption|eapply invC_step; eassumption]|].
  eapply invE_step; eassumption.
Qed.
